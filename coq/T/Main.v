(** Layer T: the property theorems for all good histories. *)
From Coq Require Import ZArith List Bool Lia Sorting.Sorted.
From Stk Require Import Lib.U Gen.SrcTimers T.Bits T.Model T.Spec T.Quant T.Ticks T.Inv T.QueueLemmas
  T.VarLemmas T.InvProofs T.Rel T.RelArith T.SpecLemmas T.RelMoves T.RelOps T.RelRun.
Import ListNotations.
Local Open Scope Z_scope.

(** ** histories *)
Lemma combine_firstn {A B} (a : list A) (b : list B) : combine (firstn (length b) a) b = combine a b.
Proof.
  revert b. induction a as [|x a IH]; intros [|y b]; cbn [length firstn combine]; try reflexivity. rewrite IH. reflexivity.
Qed.

Lemma model_history_hist ops : model_history ops = hist t_init ops.
Proof. unfold model_history, hist. apply combine_firstn. Qed.

Lemma hist_cons s o r s1 out : tstep s o = Some (s1, out) -> hist s (o :: r) = (o, Some out) :: hist s1 r.
Proof. intros E. unfold hist. cbn [trun]. rewrite E. destruct (trun s1 r) as [l sf]. reflexivity. Qed.

(** ** how one monitor step changes the key table, the ids and the clock *)
Lemma ktbl_update k kref f l : (forall t, ti_n (f t) = ti_n t /\ ti_kind (f t) = ti_kind t /\ ti_slot (f t) = ti_slot t /\ ti_g (f t) = ti_g t) ->
  ktbl (update k kref f l) = ktbl l.
Proof.
  intros Hf. induction l as [|a l IH]; [reflexivity|]. cbn [update]. destruct (kind_eqb (ti_kind a) k && (ti_n a =? kref)).
  - unfold ktbl. cbn [map]. destruct (Hf a) as (-> & -> & -> & ->). reflexivity.
  - unfold ktbl in *. cbn [map]. rewrite IH. reflexivity.
Qed.

Lemma ktbl_update_id id f l : (forall t, ti_n (f t) = ti_n t /\ ti_kind (f t) = ti_kind t /\ ti_slot (f t) = ti_slot t /\ ti_g (f t) = ti_g t) ->
  ktbl (update_id id f l) = ktbl l.
Proof.
  intros Hf. induction l as [|a l IH]; [reflexivity|]. cbn [update_id]. destruct (ti_id a =? id).
  - unfold ktbl. cbn [map]. destruct (Hf a) as (-> & -> & -> & ->). reflexivity.
  - unfold ktbl in *. cbn [map]. rewrite IH. reflexivity.
Qed.

Lemma set_stat_keeps st t : ti_n (set_stat st t) = ti_n t /\ ti_kind (set_stat st t) = ti_kind t /\ ti_slot (set_stat st t) = ti_slot t /\ ti_g (set_stat st t) = ti_g t.
Proof. repeat split. Qed.
Lemma set_eff_keeps e ts t : ti_n (set_eff e ts t) = ti_n t /\ ti_kind (set_eff e ts t) = ti_kind t /\ ti_slot (set_eff e ts t) = ti_slot t /\ ti_g (set_eff e ts t) = ti_g t.
Proof. repeat split. Qed.

Lemma fire_all_ktbl cn ids : forall l v fi l' v' fi', fire_all cn ids l v fi = (l', v', fi') -> ktbl l' = ktbl l.
Proof.
  induction ids as [|id ids IH]; intros l v fi l' v' fi' H; cbn [fire_all] in H.
  - injection H as <- _ _. reflexivity.
  - destruct (find_id id l); [|eauto]. apply IH in H. rewrite H. apply ktbl_update_id. apply set_stat_keeps.
Qed.

Lemma update_id_ids id st l : map ti_id (update_id id (set_stat st) l) = map ti_id l.
Proof. induction l as [|a l IH]; [reflexivity|]. cbn [update_id]. destruct (ti_id a =? id); cbn [map]; [reflexivity|rewrite IH; reflexivity]. Qed.

Lemma fire_all_ids cn ids : forall l v fi l' v' fi', fire_all cn ids l v fi = (l', v', fi') -> map ti_id l' = map ti_id l.
Proof.
  induction ids as [|id ids IH]; intros l v fi l' v' fi' H; cbn [fire_all] in H.
  - injection H as <- _ _. reflexivity.
  - destruct (find_id id l); [|eauto]. apply IH in H. rewrite H. apply update_id_ids.
Qed.

Lemma update_ids k kref f l : (forall t, ti_id (f t) = ti_id t) -> map ti_id (update k kref f l) = map ti_id l.
Proof.
  intros Hf. induction l as [|a l IH]; [reflexivity|]. cbn [update]. destruct (kind_eqb (ti_kind a) k && (ti_n a =? kref)); cbn [map].
  - rewrite Hf. reflexivity.
  - rewrite IH. reflexivity.
Qed.

Lemma mon_step_fst sp o out :
  s_timers (fst (mon_step sp o out)) = s_timers (fst (mon_step0 sp o out)) /\
  s_cnow (fst (mon_step sp o out)) = s_cnow (fst (mon_step0 sp o out)).
Proof. unfold mon_step. destruct (mon_step0 sp o out) as [s1 v]. split; reflexivity. Qed.

Ltac mon_cases o out :=
  destruct o; destruct out as [[]|];
  cbn [mon_step0 fst snd s_timers s_cnow new_timer bool_op tbl_step op_cbs]; try reflexivity.

Lemma mon_step_ktbl sp o out :
  ktbl (s_timers (fst (mon_step sp o out))) = tbl_step (s_count sp) o out (ktbl (s_timers sp)).
Proof.
  destruct (mon_step_fst sp o out) as [-> _].
  mon_cases o out;
    try (match goal with |- context [if ?c then _ else _] => destruct c end; try reflexivity; apply ktbl_update; intros t;
         first [apply set_stat_keeps | destruct (_ <? _); [apply set_eff_keeps|repeat split]]).
  destruct (fire_all _ _ _ _ _) as [[l1 v1] fi] eqn:E. cbn [fst s_timers]. eapply fire_all_ktbl; eassumption.
Qed.

Lemma mon_step_ids sp o out : forall id, In id (map ti_id (s_timers (fst (mon_step sp o out)))) ->
  In id (op_cbs o) \/ In id (map ti_id (s_timers sp)).
Proof.
  destruct (mon_step_fst sp o out) as [-> _].
  mon_cases o out; intros id Hid; auto;
    try (cbn [map In] in Hid; destruct Hid as [<-|Hid]; [left; left; reflexivity|right; assumption]);
    try (right; match goal with H : context [if ?c then _ else _] |- _ => destruct c end; [|assumption];
         rewrite update_ids in Hid; [assumption|]; intros t; try reflexivity; destruct (_ <? _); reflexivity).
  destruct (fire_all _ _ _ _ _) as [[l1 v1] fi] eqn:E. cbn [fst s_timers] in Hid. right.
  erewrite fire_all_ids in Hid by eassumption. assumption.
Qed.

Lemma mon_step_cnow sp o out :
  s_cnow (fst (mon_step sp o (Some out))) =
  match o, out with ORun ns, RFired _ => Z.max (s_cnow sp) ns | _, _ => s_cnow sp end.
Proof.
  destruct (mon_step_fst sp o (Some out)) as [_ ->].
  destruct o; destruct out; cbn [mon_step0 fst snd s_timers s_cnow new_timer bool_op]; try reflexivity.
  destruct (fire_all _ _ _ _ _) as [[l1 v1] fi]. reflexivity.
Qed.

(** ** all operations of a history *)
Lemma tstep_run_out s ns s' out : tstep s (ORun ns) = Some (s', out) -> exists f, out = RFired f.
Proof.
  cbn [tstep]. destruct (ns >? cnow s).
  - destruct (advance (set_cnow s ns) ns) as [[s1 f]|]; cbn; intros H; [injection H as _ <-; eauto|discriminate].
  - intros H. injection H as _ <-. eauto.
Qed.

Lemma NoDup_app_r {A} (a b : list A) : NoDup (a ++ b) -> NoDup b.
Proof. induction a as [|x a IH]; cbn [app]; intros H; [assumption|]. inversion H; subst. auto. Qed.

Lemma uses_poke_cons o r : uses_poke (o :: r) = false ->
  (match o with OPokeSeq _ | OPokeGnn _ _ => False | _ => True end) /\ uses_poke r = false.
Proof. unfold uses_poke. cbn [existsb]. destruct o; cbn; intros H; try discriminate; auto. Qed.

Lemma run_ok bf : forall ops s sp n,
  Inv3 bf s sp n -> n + Z.of_nat (length ops) <= HMAX ->
  Forall op_bounds ops -> uses_poke ops = false -> NoDup (ops_cbs ops) ->
  (forall t, In t (s_timers sp) -> ~ In (ti_id t) (ops_cbs ops)) ->
  wellkeyed_from n (ktbl (s_timers sp)) (hist s ops) = true ->
  (bf = true -> band_free_from (cnow s) (hist s ops) = true) ->
  Forall (vgood bf) (mon_run sp (hist s ops)).
Proof.
  induction ops as [|o r IH]; intros s sp n V Hlen Hb Hpk Hnd Hfr Hwk Hbd; [constructor|].
  cbn [length] in Hlen. inversion Hb as [|? ? Hbo Hbr]; subst.
  destruct (uses_poke_cons _ _ Hpk) as [Hpo Hpr].
  cbn [ops_cbs flat_map] in Hnd, Hfr. fold (ops_cbs r) in Hnd, Hfr.
  (* the head of the history is this operation, whatever it returns *)
  assert (Hhead : exists x rest, hist s (o :: r) = (o, x) :: rest).
  { unfold hist. cbn [trun]. destruct (tstep s o) as [[s1 out]|]; [destruct (trun s1 r) as [l sf]|]; cbn [fst combine]; eauto. }
  destruct Hhead as (x & rest & Eh).
  assert (Hpre : op_pre bf s sp o).
  { split; [assumption|split; [assumption|split; [|split]]].
    - intros cb Hcb t Ht E. apply (Hfr t Ht). rewrite E. apply in_or_app. left. assumption.
    - rewrite Eh in Hwk. cbn [wellkeyed_from] in Hwk. apply andb_prop in Hwk. tauto.
    - intros Hbf. specialize (Hbd Hbf). rewrite Eh in Hbd. cbn [band_free_from] in Hbd. apply andb_prop in Hbd. tauto. }
  destruct (step_ok bf s sp n o V ltac:(lia) Hpre) as (s' & out & Es & Hstep).
  rewrite (hist_cons _ _ _ _ _ Es) in *. cbn [mon_run].
  pose proof (mon_step_ktbl sp o (Some out)) as Hk. pose proof (mon_step_ids sp o (Some out)) as Hi.
  pose proof (mon_step_cnow sp o out) as Hc.
  destruct (mon_step sp o (Some out)) as [sp' v]. cbn [fst] in Hk, Hi, Hc. destruct Hstep as [V' Hv].
  constructor; [assumption|].
  pose proof V as [_ _ R Hn]. pose proof V' as [_ _ R' _].
  destruct (rl_cnow _ _ _ R) as [Ec _]. destruct (rl_cnow _ _ _ R') as [Ec' _].
  apply (IH s' sp' (n + 1)); try assumption; try lia.
  - apply NoDup_app_r in Hnd. assumption.
  - intros t Ht Hin. destruct (Hi (ti_id t) (in_map ti_id _ _ Ht)) as [H1|H1].
    + (* a callback id of this op cannot occur again *)
      clear - Hnd H1 Hin. induction (op_cbs o) as [|a l IHl]; [destruct H1|]. cbn [app] in Hnd. inversion Hnd as [|? ? Hn Hnd']; subst.
      destruct H1 as [->|H1]; [apply Hn; apply in_or_app; right; assumption|auto].
    + apply in_map_iff in H1. destruct H1 as (t0 & E0 & Ht0). apply (Hfr t0 Ht0). rewrite E0. apply in_or_app. right. assumption.
  - cbn [wellkeyed_from] in Hwk. apply andb_prop in Hwk. destruct Hwk as [_ Hwk]. rewrite Hk, Hn. exact Hwk.
  - intros Hbf. specialize (Hbd Hbf). cbn [band_free_from] in Hbd. apply andb_prop in Hbd. destruct Hbd as [_ Hbd].
    assert (Ecn : cnow s' = match o with ORun ns => Z.max (cnow s) ns | _ => cnow s end).
    { rewrite <- Ec', Hc, Ec. destruct o; try reflexivity. destruct (tstep_run_out _ _ _ _ Es) as [f ->]. reflexivity. }
    rewrite Ecn. exact Hbd.
Qed.

(** ** the initial states are related *)
Lemma Inv3_init bf : Inv3 bf t_init s_init 0.
Proof.
  constructor; [apply TInv_init|apply counters_init| |reflexivity].
  constructor; cbn [s_init s_timers s_cnow s_count s_last_ne s_drain s_budget t_init now cnow].
  - constructor; cbn [app t_init queue map].
    + intros e [].
    + intros t [].
    + constructor.
    + constructor.
    + intros t [].
    + intros t [].
    + intros t [].
    + intros t1 t2 [].
    + intros t [].
    + intros t [].
    + intros _ t [].
  - split; [reflexivity|lia].
  - intros t [].
  - intros r H. discriminate.
  - split; [lia|split; [lia|left; reflexivity]].
Qed.

(** ** the monitors answer true on every good history *)
Theorem good_vgood bf ops : good ops -> (bf = true -> band_free ops) -> vgood bf (mon_all (model_history ops)).
Proof.
  intros (Hlen & Hb & Hpk & Hnd & Hwk) Hbd. unfold mon_all. apply vgood_fold.
  unfold band_free in Hbd. unfold wellkeyed in Hwk. rewrite model_history_hist in *.
  apply (run_ok bf ops t_init s_init 0); try assumption; try lia.
  - apply Inv3_init.
  - intros t [].
Qed.

Theorem C07_all : forall ops, good ops -> v07 (mon_all (model_history ops)) = true.
Proof. intros ops H. apply (good_vgood false ops H). discriminate. Qed.
Theorem C08_all : forall ops, good ops -> v08 (mon_all (model_history ops)) = true.
Proof. intros ops H. apply (good_vgood false ops H). discriminate. Qed.
Theorem C09_all : forall ops, good ops -> v09 (mon_all (model_history ops)) = true.
Proof. intros ops H. apply (good_vgood false ops H). discriminate. Qed.
Theorem C10_all : forall ops, good ops -> v10 (mon_all (model_history ops)) = true.
Proof. intros ops H. apply (good_vgood false ops H). discriminate. Qed.
Theorem C15t_all : forall ops, good ops -> v15 (mon_all (model_history ops)) = true.
Proof. intros ops H. apply (good_vgood false ops H). discriminate. Qed.
Theorem C19_all : forall ops, good ops -> band_free ops -> v19 (mon_all (model_history ops)) = true.
Proof. intros ops H Hb. destruct (good_vgood true ops H (fun _ => Hb)) as (_ & _ & _ & _ & _ & H19). auto. Qed.

(** ** strict progress of the drain loop, on the model alone: a run at the instant announced by
    next_expiry advances Core::now to it, and afterwards every queued key is strictly later than
    the key that was announced (its entry was fired or re-queued strictly later) *)
Theorem run_at_next_expiry_progress s n t :
  TInv s -> counters_ok s n -> n < HMAX -> next_expiry s = Some (Some t) -> t < TMAX ->
  exists s' f e1 q, queue s = e1 :: q /\ tstep s (ORun t) = Some (s', RFired f) /\ TInv s' /\
    cnow s < t /\ cnow s' = t /\
    forall y, In y (queue s') -> Tof (now s) (e_wt e1) < Tof (now s') (e_wt y).
Proof.
  intros I C Hn Ene Ht. pose proof (next_expiry_ok s I) as Eok.
  destruct (queue s) as [|e1 q] eqn:Eq; [rewrite Eok in Ene; discriminate|]. rewrite Eok in Ene. injection Ene as Et.
  destruct (next_expiry_after_now s I) as (r & E2 & _ & Hlt). rewrite Eok in E2. injection E2 as <-.
  specialize (Hlt _ eq_refl). rewrite Et in Hlt.
  destruct (advance_ok s t n I C Hn ltac:(lia)) as (s' & f & E & I' & _ & Ec & Enow).
  exists s', f, e1, q. split; [reflexivity|]. split.
  { cbn [tstep]. destruct (Z.gtb_spec t (cnow s)) as [_|?]; [|lia]. rewrite E. reflexivity. }
  split; [assumption|split; [assumption|split; [assumption|]]].
  intros y Hy. pose proof (i_entries s' I') as F. rewrite Forall_forall in F.
  destruct (entry_T_range (now s') y (TInv_now_nonneg s' I') (F y Hy)) as [T1 _].
  pose proof (i_entries s I) as F1. rewrite Eq in F1. inversion F1 as [|? ? He1 _]; subst.
  destruct (entry_T_range (now s) e1 (TInv_now_nonneg s I) He1) as [T2 _]. destruct He1 as (_ & _ & _ & Hl1).
  pose proof (floor_inst_ge (Tof (now s) (e_wt e1)) ltac:(pose proof (TInv_now_nonneg s I); lia) Hl1). lia.
Qed.
