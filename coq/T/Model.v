(** Layer T: executable model of src/timers/mod.rs (struct Timers) and of the part of
    src/core.rs that drives it (Core::now, Stakker::run's `if now > self.now`, next_expiry,
    next_wait, next_wait_max, after, timer_* wrappers).

    All integer arithmetic goes through the definitions GENERATED from the Rust source
    (Gen.SrcTimers): the rounding functions, the cyclic comparators, rounded_75point and the
    literals of the stateful functions.  [None] = a panic (overflow check, index out of bounds,
    explicit panic!, unwrap on None).

    Instants are nanoseconds relative to t0 (the instant given to Stakker::new); an instant
    before t0 is negative and saturates to 0 exactly as `saturating_duration_since` does. *)
From Coq Require Import ZArith List Bool.
From Stk Require Import Lib.U Gen.SrcTimers.
Import ListNotations.
Local Open Scope Z_scope.

Inductive vitem :=
| VMax (expiry curr : Z)
| VMin (expiry curr : Z)
| VFree (next : option Z).

Record vslot := mkVS { gnn : Z; item : vitem }.

(** queue entry: key (wt, slot) and the callback id *)
Definition entry := (Z * Z * Z)%type.
Definition e_wt (e : entry) := fst (fst e).
Definition e_slot (e : entry) := snd (fst e).
Definition e_cb (e : entry) := snd e.

Record tstate := mkT {
  now : Z;                (* Timers::now, a tick count *)
  queue : list entry;     (* BTreeMap<TimerKey, _> as the list of its entries in iteration order *)
  var : list vslot;
  var_free : option Z;
  seq : Z;
  cnow : Z                (* Core::now, ns since t0 *)
}.

Definition t_init : tstate := mkT 0 [] [] None 0 0.

Definition set_queue (s : tstate) q := mkT (now s) q (var s) (var_free s) (seq s) (cnow s).
Definition set_var (s : tstate) v := mkT (now s) (queue s) v (var_free s) (seq s) (cnow s).
Definition set_free (s : tstate) f := mkT (now s) (queue s) (var s) f (seq s) (cnow s).
Definition set_seq (s : tstate) x := mkT (now s) (queue s) (var s) (var_free s) x (cnow s).
Definition set_now (s : tstate) x := mkT x (queue s) (var s) (var_free s) (seq s) (cnow s).
Definition set_cnow (s : tstate) x := mkT (now s) (queue s) (var s) (var_free s) (seq s) x.

(** ** instants *)
Definition NS : Z := 1000000000.
Definition dur_secs (ns : Z) := Z.max ns 0 / NS.
Definition dur_nanos (ns : Z) := Z.max ns 0 mod NS.
Definition t_ceil (ns : Z) : option Z := time_new_ceil (dur_secs ns) (dur_nanos ns).
Definition t_floor (ns : Z) : option Z := time_new_floor (dur_secs ns) (dur_nanos ns).
(** Time::instant as ns since t0 *)
Definition t_instant (t : Z) : option Z :=
  '(s, n) <- time_instant t ;; Some (s * NS + n).

(** ** the BTreeMap, as a list kept in comparator order *)
Definition kcmp (w1 s1 w2 s2 : Z) : comparison :=
  match timerkey_cmp w1 s1 w2 s2 with Some c => c | None => Eq end.

Fixpoint q_insert (w sl cb : Z) (q : list entry) : list entry :=
  match q with
  | [] => [(w, sl, cb)]
  | e :: r =>
      match kcmp w sl (e_wt e) (e_slot e) with
      | Lt => (w, sl, cb) :: q
      | Eq => (w, sl, cb) :: r
      | Gt => e :: q_insert w sl cb r
      end
  end.

(** remove the entry with this key: Some (callback, rest) or None *)
Fixpoint q_remove (w sl : Z) (q : list entry) : option (Z * list entry) :=
  match q with
  | [] => None
  | e :: r =>
      match kcmp w sl (e_wt e) (e_slot e) with
      | Eq => Some (e_cb e, r)
      | _ => match q_remove w sl r with
             | Some (cb, r') => Some (cb, e :: r')
             | None => None
             end
      end
  end.

Definition q_mem (w sl : Z) (q : list entry) : bool :=
  existsb (fun e => match kcmp w sl (e_wt e) (e_slot e) with Eq => true | _ => false end) q.

(** split_off(&key): (entries < key, entries >= key) *)
Fixpoint q_split (w sl : Z) (q : list entry) : list entry * list entry :=
  match q with
  | [] => ([], [])
  | e :: r =>
      match kcmp (e_wt e) (e_slot e) w sl with
      | Lt => let '(h, t) := q_split w sl r in (e :: h, t)
      | _ => ([], q)
      end
  end.

(** ** var slots *)
Definition vget (v : list vslot) (i : Z) : option vslot :=
  if i <? 0 then None else nth_error v (Z.to_nat i).

Fixpoint vset_nat (v : list vslot) (i : nat) (x : vslot) : list vslot :=
  match v, i with
  | [], _ => []
  | _ :: r, O => x :: r
  | y :: r, S i' => y :: vset_nat r i' x
  end.
Definition vset (v : list vslot) (i : Z) (x : vslot) : list vslot := vset_nat v (Z.to_nat i) x.

Definition VAR_LIMIT : Z := 2147483648.

(** alloc_slot: Some (state, slot, gnn) *)
Definition alloc_slot (s : tstate) (it : vitem) : option (tstate * Z * Z) :=
  match var_free s with
  | Some i =>
      match vget (var s) i with
      | Some vs =>
          match item vs with
          | VFree next =>
              Some (set_free (set_var s (vset (var s) i (mkVS (gnn vs) it))) next, i, gnn vs)
          | _ => None (* panic: var_free pointed to slot that wasn't free *)
          end
      | None => None
      end
  | None =>
      let i := Z.of_nat (length (var s)) in
      if i >=? VAR_LIMIT then None
      else Some (set_var s (var s ++ [mkVS ALLOC_GEN_START it]), i, ALLOC_GEN_START)
  end.

Definition free_slot (s : tstate) (i : Z) : option tstate :=
  match vget (var s) i with
  | Some vs =>
      let g := Z.max ((gnn vs + 1) mod 4294967296) FREE_GEN_MIN in
      match item vs with
      | VFree _ => None (* panic: deleting slot that was already free *)
      | _ => Some (set_free (set_var s (vset (var s) i (mkVS g (VFree (var_free s))))) (Some i))
      end
  | None => None
  end.

(** ** add_max / add_min / add *)
Definition add_max (s : tstate) (ns cb : Z) : option (tstate * Z * Z) :=
  expiry <- t_ceil ns ;;
  ninc <- time_inc (now s) ;;
  lim <- time_add_secs (now s) ADD_MAX_SECS ;;
  let curr := Z.min (Z.max expiry ninc) lim in
  '(s1, slot, g) <- alloc_slot s (VMax expiry curr) ;;
  wt <- time_wt curr ;;
  Some (set_queue s1 (q_insert wt slot cb (queue s1)), slot, g).

Definition add_min (s : tstate) (ns cb : Z) : option (tstate * Z * Z) :=
  expiry <- t_ceil ns ;;
  ninc <- time_inc (now s) ;;
  lim <- time_add_secs (now s) ADD_MIN_SECS ;;
  curr <- rounded_75point ninc (Z.min (Z.max expiry ninc) lim) ;;
  '(s1, slot, g) <- alloc_slot s (VMin expiry curr) ;;
  wt <- time_wt curr ;;
  Some (set_queue s1 (q_insert wt slot cb (queue s1)), slot, g).

(** the inner collision loop of Timers::add; [fuel] iterations are modelled, running out of
    fuel is reported as [None] (never reached unless 2^31 fixed timers share one tick) *)
Fixpoint add_fixed_loop (fuel : nat) (s : tstate) (wt cb : Z) : option (tstate * Z * Z) :=
  match fuel with
  | O => None
  | S f =>
      let sq := (seq s + 1) mod 4294967296 in
      let slot := Z.lor sq ADD_FIXED_BIT in
      let s1 := set_seq s sq in
      if q_mem wt slot (queue s1) then add_fixed_loop f s1 wt cb
      else Some (set_queue s1 (q_insert wt slot cb (queue s1)), slot, wt)
  end.

Definition add_fixed (s : tstate) (ns cb : Z) : option (tstate * Z * Z) :=
  e0 <- t_ceil ns ;;
  ninc <- time_inc (now s) ;;
  let expiry := Z.max e0 ninc in
  lim <- time_add_secs (now s) ADD_VAR_SECS ;;
  if expiry >=? lim then add_max s ns cb
  else wt <- time_wt expiry ;; add_fixed_loop 16 s wt cb.

(** ** mod / del / active *)
Definition mod_max (s : tstate) (slot g ns : Z) : option (tstate * bool) :=
  match vget (var s) slot with
  | Some vs =>
      if gnn vs =? g then
        match item vs with
        | VMax e c =>
            e' <- t_ceil ns ;;
            Some (set_var s (vset (var s) slot (mkVS (gnn vs) (VMax (Z.max e e') c))), true)
        | _ => Some (s, false)
        end
      else Some (s, false)
  | None => Some (s, false)
  end.

Definition del_max (s : tstate) (slot g : Z) : option (tstate * bool) :=
  match vget (var s) slot with
  | Some vs =>
      if gnn vs =? g then
        match item vs with
        | VMax e c =>
            wt <- time_wt c ;;
            let q := match q_remove wt slot (queue s) with Some (_, r) => r | None => queue s end in
            s1 <- free_slot (set_queue s q) slot ;;
            Some (s1, true)
        | _ => Some (s, false)
        end
      else Some (s, false)
  | None => Some (s, false)
  end.

Definition del_min (s : tstate) (slot g : Z) : option (tstate * bool) :=
  match vget (var s) slot with
  | Some vs =>
      if gnn vs =? g then
        match item vs with
        | VMin e c =>
            wt <- time_wt c ;;
            let q := match q_remove wt slot (queue s) with Some (_, r) => r | None => queue s end in
            s1 <- free_slot (set_queue s q) slot ;;
            Some (s1, true)
        | _ => Some (s, false)
        end
      else Some (s, false)
  | None => Some (s, false)
  end.

Definition is_active (s : tstate) (slot g : Z) : bool :=
  match vget (var s) slot with
  | Some vs => gnn vs =? g
  | None => false
  end.

Definition del_fixed (s : tstate) (slot g : Z) : option (tstate * bool) :=
  if slot <? DEL_FIXED_BIT then del_max s slot g
  else match q_remove g slot (queue s) with
       | Some (_, r) => Some (set_queue s r, true)
       | None => Some (s, false)
       end.

Definition mod_min (s : tstate) (slot g ns : Z) : option (tstate * bool) :=
  e' <- t_ceil ns ;;
  match vget (var s) slot with
  | Some vs =>
      if gnn vs =? g then
        match item vs with
        | VMin e c =>
            if e' <? e then
              if e' <? c then
                wt <- time_wt c ;;
                match q_remove wt slot (queue s) with
                | None => None (* unwrap on None *)
                | Some (cb, r) =>
                    ninc <- time_inc (now s) ;;
                    lim <- time_add_secs (now s) MOD_MIN_SECS ;;
                    c' <- rounded_75point ninc (Z.min (Z.max e' ninc) lim) ;;
                    wt' <- time_wt c' ;;
                    Some (set_queue (set_var s (vset (var s) slot (mkVS (gnn vs) (VMin e' c'))))
                                    (q_insert wt' slot cb r), true)
                end
              else Some (set_var s (vset (var s) slot (mkVS (gnn vs) (VMin e' c))), true)
            else Some (s, true)
        | _ => Some (s, false)
        end
      else Some (s, false)
  | None => Some (s, false)
  end.

(** ** advance *)
(** process the entries split off the front of the queue, in order; [fired] accumulates the
    callbacks pushed to the run queue *)
Fixpoint process_head (head : list entry) (target : Z) (s : tstate) (fired : list Z)
  : option (tstate * list Z) :=
  match head with
  | [] => Some (s, fired)
  | e :: rest =>
      let slot := e_slot e in
      if slot >=? ADVANCE_FIXED_BIT then process_head rest target s (fired ++ [e_cb e])
      else
        match vget (var s) slot with
        | None => None (* index out of bounds *)
        | Some vs =>
            match item vs with
            | VMax ex c =>
                if ex <=? target then
                  s1 <- free_slot s slot ;;
                  process_head rest target s1 (fired ++ [e_cb e])
                else
                  lim <- time_add_secs (now s) ADVANCE_REQUEUE_SECS ;;
                  let c' := Z.min ex lim in
                  wt <- time_wt c' ;;
                  let s1 := set_var s (vset (var s) slot (mkVS (gnn vs) (VMax ex c'))) in
                  process_head rest target (set_queue s1 (q_insert wt slot (e_cb e) (queue s1))) fired
            | VMin ex c =>
                if ex <=? target then
                  s1 <- free_slot s slot ;;
                  process_head rest target s1 (fired ++ [e_cb e])
                else
                  lim <- time_add_secs (now s) ADVANCE_REQUEUE_SECS ;;
                  c' <- rounded_75point (now s) (Z.min ex lim) ;;
                  wt <- time_wt c' ;;
                  let s1 := set_var s (vset (var s) slot (mkVS (gnn vs) (VMin ex c'))) in
                  process_head rest target (set_queue s1 (q_insert wt slot (e_cb e) (queue s1))) fired
            | VFree _ => None (* panic: TimerKey points to a free slot *)
            end
        end
  end.

Fixpoint advance_loop (fuel : nat) (target : Z) (s : tstate) (fired : list Z)
  : option (tstate * list Z) :=
  if now s <? target then
    match fuel with
    | O => None (* out of fuel: excluded by [advance]'s choice of fuel *)
    | S f =>
        stepped <- time_add_secs (now s) ADVANCE_STEP_SECS ;;
        let n := Z.min stepped target in
        w <- time_wt n ;;
        kw <- cadd32 w ADVANCE_SPLIT_INC ;;
        let '(head, rest) := q_split kw 0 (queue s) in
        '(s1, fired1) <- process_head head target (set_now (set_queue s rest) n) fired ;;
        advance_loop f target s1 fired1
    end
  else Some (s, fired).

Definition advance_fuel (s : tstate) (target : Z) : nat :=
  Z.to_nat ((target - now s) / (Z.max 1 (ADVANCE_STEP_SECS * 65536)) + 2).

Definition advance (s : tstate) (ns : Z) : option (tstate * list Z) :=
  target <- t_floor ns ;;
  advance_loop (advance_fuel s target) target s [].

(** ** next_expiry (ns since t0) *)
Definition next_expiry (s : tstate) : option (option Z) :=
  match queue s with
  | [] => Some None
  | e :: _ =>
      t <- wraptime_time (e_wt e) (now s) ;;
      i <- t_instant t ;;
      Some (Some i)
  end.

(** ** Core / Stakker level operations *)
Inductive top :=
| OAdd (ns cb : Z)                 (* Core::timer_add *)
| OAfter (dur cb : Z)              (* Core::after *)
| OAddMax (ns cb : Z)
| OAddMin (ns cb : Z)
(* key operations carry [kref], the index of the op that issued the key (-1: a Default key); the
   implementation model ignores it, the specification identifies the keyed timer by it *)
| ODel (kref slot g : Z)           (* Core::timer_del *)
| OModMax (kref slot g ns : Z)
| ODelMax (kref slot g : Z)
| OActMax (kref slot g : Z)
| OModMin (kref slot g ns : Z)
| ODelMin (kref slot g : Z)
| OActMin (kref slot g : Z)
| ORun (ns : Z)                    (* Stakker::run(t0 + ns, false) *)
| ONextExpiry
| ONextWait (ns : Z)
| ONextWaitMax (ns maxdur : Z) (pending : bool)
| ONow                             (* Core::now *)
| OPokeSeq (v : Z)                 (* verification hook: set the fixed-timer sequence counter *)
| OPokeGnn (slot v : Z).           (* verification hook: set a slot generation *)

Inductive tout :=
| RKey (slot g : Z)
| RBool (b : bool)
| RFired (l : list Z)
| ROptNs (o : option Z)
| RNs (d : Z)
| RUnit.

Definition key_out (r : option (tstate * Z * Z)) : option (tstate * tout) :=
  '(s, slot, g) <- r ;; Some (s, RKey slot g).
Definition bool_out (r : option (tstate * bool)) : option (tstate * tout) :=
  '(s, b) <- r ;; Some (s, RBool b).

Definition tstep (s : tstate) (o : top) : option (tstate * tout) :=
  match o with
  | OAdd ns cb => key_out (add_fixed s ns cb)
  | OAfter dur cb => key_out (add_fixed s (cnow s + dur) cb)
  | OAddMax ns cb => key_out (add_max s ns cb)
  | OAddMin ns cb => key_out (add_min s ns cb)
  | ODel _ slot g => bool_out (del_fixed s slot g)
  | OModMax _ slot g ns => bool_out (mod_max s slot g ns)
  | ODelMax _ slot g => bool_out (del_max s slot g)
  | OActMax _ slot g => Some (s, RBool (is_active s slot g))
  | OModMin _ slot g ns => bool_out (mod_min s slot g ns)
  | ODelMin _ slot g => bool_out (del_min s slot g)
  | OActMin _ slot g => Some (s, RBool (is_active s slot g))
  | ORun ns =>
      if ns >? cnow s then
        '(s1, fired) <- advance (set_cnow s ns) ns ;; Some (s1, RFired fired)
      else Some (s, RFired [])
  | ONextExpiry => r <- next_expiry s ;; Some (s, ROptNs r)
  | ONextWait ns =>
      r <- next_expiry s ;;
      Some (s, ROptNs (match r with Some t => Some (Z.max 0 (t - ns)) | None => None end))
  | ONextWaitMax ns maxdur pending =>
      if pending then Some (s, RNs 0)
      else r <- next_expiry s ;;
           Some (s, RNs (match r with Some t => Z.min (Z.max 0 (t - ns)) maxdur | None => maxdur end))
  | ONow => Some (s, RNs (cnow s))
  | OPokeSeq v => Some (set_seq s v, RUnit)
  | OPokeGnn slot v =>
      match vget (var s) slot with
      | Some vs => Some (set_var s (vset (var s) slot (mkVS v (item vs))), RUnit)
      | None => None
      end
  end.

(** run a history; the result lists the output of every op, and stops at the first panic *)
Fixpoint trun (s : tstate) (ops : list top) : list (option tout) * tstate :=
  match ops with
  | [] => ([], s)
  | o :: r =>
      match tstep s o with
      | Some (s1, out) => let '(l, sf) := trun s1 r in (Some out :: l, sf)
      | None => ([None], s)
      end
  end.
