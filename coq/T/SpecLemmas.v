(** Layer T: list lemmas about the specification state (lookup / update / find_id / update_id /
    fire_all / min_deadline), the key table of [wellkeyed], and sums over pending timers. *)
From Coq Require Import ZArith List Bool Lia.
From Stk Require Import Lib.U Gen.SrcTimers T.Model T.Spec T.Quant T.Ticks T.Inv T.Rel.
Import ListNotations.
Local Open Scope Z_scope.

Lemma kind_eqb_eq a b : kind_eqb a b = true <-> a = b.
Proof. destruct a, b; cbn; split; intros H; try discriminate; reflexivity. Qed.

(** ** find_id / update_id *)
Lemma find_id_split id l t : find_id id l = Some t ->
  exists l1 l2, l = l1 ++ t :: l2 /\ ti_id t = id /\ (forall x, In x l1 -> ti_id x <> id) /\
                forall f, update_id id f l = l1 ++ f t :: l2.
Proof.
  induction l as [|a l IH]; cbn [find_id update_id]; intros H; [discriminate|].
  destruct (Z.eqb_spec (ti_id a) id) as [E|E].
  - injection H as <-. exists [], l. repeat split; auto.
  - destruct (IH H) as (l1 & l2 & -> & Ht & Hn & Hu). exists (a :: l1), l2. repeat split; auto.
    + intros x [<-|Hx]; auto.
    + intros f. rewrite Hu. reflexivity.
Qed.

Lemma find_id_None id l : find_id id l = None -> forall x, In x l -> ti_id x <> id.
Proof.
  induction l as [|a l IH]; cbn [find_id]; intros H x Hx; [destruct Hx|].
  destruct (Z.eqb_spec (ti_id a) id) as [E|E]; [discriminate|]. destruct Hx as [<-|Hx]; auto.
Qed.

Lemma NoDup_map_inj {A B} (f : A -> B) l x y : NoDup (map f l) -> In x l -> In y l -> f x = f y -> x = y.
Proof.
  induction l as [|a l IH]; cbn [map]; intros N Hx Hy E; [destruct Hx|].
  inversion N as [|? ? Hn N']; subst. destruct Hx as [<-|Hx], Hy as [<-|Hy]; auto.
  - exfalso. apply Hn. rewrite E. apply in_map. assumption.
  - exfalso. apply Hn. rewrite <- E. apply in_map. assumption.
Qed.

Lemma find_id_In l t : NoDup (map ti_id l) -> In t l -> find_id (ti_id t) l = Some t.
Proof.
  intros N Ht. destruct (find_id (ti_id t) l) as [t'|] eqn:E.
  - destruct (find_id_split _ _ _ E) as (l1 & l2 & El & Hid & _). f_equal.
    eapply NoDup_map_inj; eauto. rewrite El. apply in_or_app. right. left. reflexivity.
  - exfalso. eapply find_id_None; eauto.
Qed.

(** ** lookup / update *)
Lemma lookup_split k kref l t : lookup k kref l = Some t ->
  exists l1 l2, l = l1 ++ t :: l2 /\ ti_kind t = k /\ ti_n t = kref /\
                forall f, update k kref f l = l1 ++ f t :: l2.
Proof.
  induction l as [|a l IH]; cbn [lookup update]; intros H; [discriminate|].
  destruct (kind_eqb (ti_kind a) k && (ti_n a =? kref)) eqn:C.
  - injection H as <-. apply andb_prop in C. destruct C as [C1 C2]. apply kind_eqb_eq in C1. apply Z.eqb_eq in C2.
    exists [], l. repeat split; auto.
  - destruct (IH H) as (l1 & l2 & -> & Hk & Hn & Hu). exists (a :: l1), l2. repeat split; auto.
    intros f. rewrite Hu. reflexivity.
Qed.

Lemma lookup_None k kref l : lookup k kref l = None -> forall t, In t l -> ~ (ti_kind t = k /\ ti_n t = kref).
Proof.
  induction l as [|a l IH]; cbn [lookup]; intros H t Ht; [destruct Ht|].
  destruct (kind_eqb (ti_kind a) k && (ti_n a =? kref)) eqn:C; [discriminate|].
  destruct Ht as [<-|Ht]; [|auto]. intros [E1 E2]. apply kind_eqb_eq in E1. apply Z.eqb_eq in E2. rewrite E1, E2 in C. discriminate.
Qed.

Lemma klookup_ktbl k kref l :
  klookup k kref (ktbl l) = match lookup k kref l with Some t => Some (ti_slot t, ti_g t) | None => None end.
Proof.
  induction l as [|a l IH]; [reflexivity|]. cbn [ktbl map klookup lookup].
  destruct (kind_eqb (ti_kind a) k && (ti_n a =? kref)); [reflexivity|exact IH].
Qed.

(** ** replacing one element *)
Lemma in_mid {A} (l1 l2 : list A) t x : In x (l1 ++ t :: l2) <-> x = t \/ In x (l1 ++ l2).
Proof. rewrite !in_app_iff. cbn [In]. intuition. Qed.

Lemma NoDup_mid_notin {A B} (f : A -> B) l1 t l2 : NoDup (map f (l1 ++ t :: l2)) ->
  forall x, In x (l1 ++ l2) -> f x <> f t.
Proof.
  intros N x Hx E. rewrite map_app in N. cbn [map] in N. apply NoDup_remove_2 in N. apply N.
  rewrite <- map_app, <- E. apply in_map. assumption.
Qed.

Lemma map_replace {A B} (f : A -> B) l1 t t' l2 : f t' = f t -> map f (l1 ++ t' :: l2) = map f (l1 ++ t :: l2).
Proof. intros E. rewrite !map_app. cbn [map]. rewrite E. reflexivity. Qed.

(** ** fire_all *)
Lemma fire_all_app c a b l v fi :
  fire_all c (a ++ b) l v fi = let '(l1, v1, fi1) := fire_all c a l v fi in fire_all c b l1 v1 fi1.
Proof.
  revert l v fi. induction a as [|id a IH]; intros l v fi; cbn [app fire_all]; [reflexivity|].
  destruct (find_id id l); apply IH.
Qed.

(** ** pending, sums *)
Lemma pending_app l1 l2 : pending (l1 ++ l2) = pending l1 ++ pending l2.
Proof. apply filter_app. Qed.

Lemma pending_cons_pend t l : ti_stat t = Pending -> pending (t :: l) = t :: pending l.
Proof. intros H. unfold pending. cbn [filter]. rewrite H. reflexivity. Qed.
Lemma pending_cons_dead t l : ti_stat t <> Pending -> pending (t :: l) = pending l.
Proof. intros H. unfold pending. cbn [filter]. destruct (ti_stat t); [contradiction|reflexivity|reflexivity]. Qed.

Lemma pending_In t l : In t (pending l) <-> In t l /\ ti_stat t = Pending.
Proof.
  unfold pending. rewrite filter_In. split; intros [H1 H2]; split; auto.
  - destruct (ti_stat t); [reflexivity|discriminate|discriminate].
  - rewrite H2. reflexivity.
Qed.

Fixpoint tsum (f : tinfo -> Z) (l : list tinfo) : Z :=
  match l with [] => 0 | x :: r => tsum f r + f x end.
Lemma tsum_app f a b : tsum f (a ++ b) = tsum f a + tsum f b.
Proof. induction a as [|x a IH]; cbn [app tsum]; [lia|]. rewrite IH. lia. Qed.
Lemma tsum_ext f g l : (forall t, In t l -> f t = g t) -> tsum f l = tsum g l.
Proof.
  induction l as [|x l IH]; intros H; [reflexivity|]. cbn [tsum].
  rewrite IH by (intros t Ht; apply H; right; assumption). rewrite (H x) by (left; reflexivity). reflexivity.
Qed.
Lemma tsum_le f g l : (forall t, In t l -> f t <= g t) -> tsum f l <= tsum g l.
Proof.
  induction l as [|x l IH]; intros H; [reflexivity|]. cbn [tsum].
  specialize (IH ltac:(intros t Ht; apply H; right; assumption)). specialize (H x ltac:(left; reflexivity)). lia.
Qed.
Lemma tsum_nonneg f l : (forall t, In t l -> 0 <= f t) -> 0 <= tsum f l.
Proof.
  induction l as [|x l IH]; intros H; [reflexivity|]. cbn [tsum].
  specialize (IH ltac:(intros t Ht; apply H; right; assumption)). specialize (H x ltac:(left; reflexivity)). lia.
Qed.

Lemma Phi_tsum s l : Phi s l = tsum (pterm s) (pending l).
Proof. unfold Phi. induction (pending l) as [|x p IH]; cbn [fold_right tsum]; [reflexivity|]. rewrite IH. reflexivity. Qed.

Lemma drain_budget_tsum cn l :
  drain_budget cn l = 8 + tsum (fun t => 64 + 32 * (Z.max 0 (ti_eff t - cn) / NEAR + 1)) (pending l).
Proof.
  unfold drain_budget. induction (pending l) as [|x p IH]; cbn [fold_right tsum]; [reflexivity|].
  rewrite IH. lia.
Qed.

(** ** min_deadline *)
Lemma min_deadline_None l : min_deadline l = None <-> pending l = [].
Proof.
  unfold min_deadline. destruct (pending l) as [|x p]; cbn [fold_right]; [tauto|].
  split; [|discriminate]. destruct (fold_right _ None p); discriminate.
Qed.

Lemma min_deadline_Some l d : min_deadline l = Some d ->
  (exists t, In t l /\ ti_stat t = Pending /\ deadline t = d) /\
  (forall t, In t l -> ti_stat t = Pending -> d <= deadline t).
Proof.
  unfold min_deadline. intros H.
  assert (G : (exists t, In t (pending l) /\ deadline t = d) /\ (forall t, In t (pending l) -> d <= deadline t)).
  { revert d H. induction (pending l) as [|x p IH]; cbn [fold_right]; intros d H; [discriminate|].
    destruct (fold_right _ None p) as [d0|] eqn:E.
    - injection H as <-. destruct (IH d0 eq_refl) as [(t & Ht & Hd) Hmin]. split.
      + destruct (Z.min_spec d0 (deadline x)) as [[? ->]|[? ->]]; [exists t; split; [right|]; assumption|exists x; split; [left|]; reflexivity].
      + intros t' [<-|Ht']; [lia|]. specialize (Hmin t' Ht'). lia.
    - injection H as <-. split; [exists x; split; [left|]; reflexivity|].
      intros t' [<-|Ht]; [lia|]. exfalso. destruct p as [|y p]; [destruct Ht|]. cbn [fold_right] in E. destruct (fold_right _ None p); discriminate. }
  destruct G as [(t & Ht & Hd) Hmin]. split.
  - exists t. apply pending_In in Ht. tauto.
  - intros t' H1 H2. apply Hmin. apply pending_In. tauto.
Qed.

(** ** verdicts *)
Lemma v_and_bits a b :
  v07 (v_and a b) = v07 a && v07 b /\ v08 (v_and a b) = v08 a && v08 b /\ v09 (v_and a b) = v09 a && v09 b /\
  v10 (v_and a b) = v10 a && v10 b /\ v15 (v_and a b) = v15 a && v15 b /\ v19 (v_and a b) = v19 a && v19 b.
Proof. repeat split. Qed.

Lemma vgood_and bf a b : vgood bf a -> vgood bf b -> vgood bf (v_and a b).
Proof.
  intros (A1 & A2 & A3 & A4 & A5 & A6) (B1 & B2 & B3 & B4 & B5 & B6). unfold vgood. cbn.
  rewrite A1, A2, A3, A4, A5, B1, B2, B3, B4, B5. repeat split. intros H. rewrite (A6 H), (B6 H). reflexivity.
Qed.

Lemma vgood_ok bf : vgood bf v_ok.
Proof. repeat split. Qed.

Lemma vgood_fold bf l : Forall (vgood bf) l -> vgood bf (fold_right v_and v_ok l).
Proof. induction 1; cbn [fold_right]; [apply vgood_ok|apply vgood_and; assumption]. Qed.
