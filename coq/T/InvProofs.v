(** Layer T: the structural invariant is inductive; no operation of an admissible history panics.

    The state changes of all operations are compositions of a few "moves" on the triple
    (queue, var slots, free list); each move is shown to preserve [PH] (the invariant with a
    list of entries that are detached from the queue, which is [TInv] when that list is empty). *)
From Coq Require Import ZArith List Bool Lia Sorting.Sorted.
From Stk Require Import Lib.U Gen.SrcTimers T.Bits T.Model T.Quant T.Ticks T.Inv T.QueueLemmas T.VarLemmas.
Import ListNotations.
Local Open Scope Z_scope.
Ltac Zify.zify_post_hook ::= Z.div_mod_to_equations.

Ltac sproj := cbn [now queue var var_free seq cnow set_queue set_var set_free set_seq set_now set_cnow m_requeue] in *.

(** ** keys *)
Lemma key_entry_ok now c sl cb : 0 <= now -> now < c <= now + WIN -> c mod 65536 <= 61036 -> 0 <= sl < M32 ->
  entry_ok now (c mod M32, sl, cb) /\ Tof now (c mod M32) = c.
Proof.
  intros Hn Hc Hl Hs. assert (E : Tof now (c mod M32) = c) by (apply Tof_unique; unfold M32, WIN in *; lia).
  split; [|exact E]. unfold entry_ok. cbn [e_wt e_slot fst snd]. rewrite E.
  repeat split; try lia; unfold M32; lia.
Qed.

Lemma entry_T_range now e : 0 <= now -> entry_ok now e -> now < Tof now (e_wt e) <= now + WIN.
Proof. intros Hn (Hw & _ & Hb & _). destruct (Tof_spec now (e_wt e) Hn Hw). lia. Qed.

(** the curr value of a slot is the full tick of its key *)
Lemma curr_is_T now c : 0 <= now -> now < c <= now + WIN -> Tof now (c mod M32) = c.
Proof. intros. apply Tof_unique; unfold M32, WIN in *; lia. Qed.

Lemma curr_live vs c : curr_of vs = Some c -> is_free vs = false /\ exists ex, expiry_of vs = Some ex.
Proof. unfold curr_of, is_free, expiry_of. destruct (item vs); intros H; try discriminate; split; eauto. Qed.

Lemma free_not_live vs : is_free vs = true -> curr_of vs = None.
Proof. unfold curr_of, is_free. destruct (item vs); intros H; try discriminate; reflexivity. Qed.

Lemma var_entry_live s e : var_entry s e -> exists vs c, vget (var s) (e_slot e) = Some vs /\ curr_of vs = Some c /\ c mod M32 = e_wt e /\ is_free vs = false.
Proof. intros (vs & c & H1 & H2 & H3). exists vs, c. repeat split; auto. apply curr_live in H2. tauto. Qed.

Lemma var_entry_ext s s' e : vget (var s') (e_slot e) = vget (var s) (e_slot e) -> var_entry s e -> var_entry s' e.
Proof. intros E (vs & c & H1 & H2 & H3). exists vs, c. rewrite E. auto. Qed.

Lemma hd_distinct_inv e l : hd_distinct (e :: l) ->
  (e_slot e < FIX -> forall e', In e' l -> e_slot e' <> e_slot e) /\ hd_distinct l.
Proof. intros H. inversion H; subst. split; assumption. Qed.

(** ** TInv and PH *)
Lemma floor_range x : x < TMAX -> 0 <= floor_ns x < 2 ^ 49 /\ floor_ns x mod 65536 <= 61035.
Proof. intros H. pose proof (floor_low16 x). pose proof (floor_bound x H). lia. Qed.

Lemma TInv_PH s : TInv s -> PH (now s) s [].
Proof.
  intros I. destruct I. pose proof (floor_range (cnow s) ltac:(lia)) as R. rewrite <- i_now in R.
  constructor; try assumption; try lia.
  - unfold WIN; lia.
  - constructor.
  - constructor.
  - intros i vs Hg. destruct (i_slots i vs Hg) as [G L]. split; [assumption|].
    destruct (curr_of vs), (expiry_of vs); auto. destruct L as (L1 & L2 & L3). split; [assumption|left; split; assumption].
  - intros e [].
  - intros e e' [].
  - constructor.
Qed.

Lemma PH_TInv now0 s : PH now0 s [] -> 0 <= cnow s < TMAX -> now s = floor_ns (cnow s) -> TInv s.
Proof.
  intros P Hc Hn. destruct P. constructor; try assumption.
  intros i vs Hg. destruct (h_slots i vs Hg) as [G L]. split; [assumption|].
  destruct (curr_of vs), (expiry_of vs); auto. destruct L as (L1 & [[L2 L3]|[cb []]]). split; [assumption|split; assumption].
Qed.

Lemma PH_qok now0 s hd : PH now0 s hd -> qok (now s) (queue s).
Proof. intros P. split; [apply (h_entries _ _ _ P)|apply (h_sorted _ _ _ P)]. Qed.

Lemma PH_now_nonneg now0 s hd : PH now0 s hd -> 0 <= now s.
Proof. intros P. pose proof (h_now0 _ _ _ P). lia. Qed.

(** ** move: drop the first detached entry, a fixed timer *)
Lemma ph_drop now0 s e hd : PH now0 s (e :: hd) -> FIX <= e_slot e -> PH now0 s hd.
Proof.
  intros P Hf. destruct P. constructor; try assumption.
  - inversion h_hd_sorted; assumption.
  - inversion h_hd_ok; assumption.
  - intros i vs Hg. destruct (h_slots i vs Hg) as [G L]. split; [assumption|].
    destruct (curr_of vs) as [c|] eqn:Ec, (expiry_of vs); auto. destruct L as (L1 & [L2|[cb [L3|L3]]]).
    + split; [assumption|left; assumption].
    + exfalso. subst e. cbn [e_slot fst snd] in Hf. apply vget_Some_range in Hg. unfold FIX in *. lia.
    + split; [assumption|right; eauto].
  - intros x Hx. apply h_varh. right. assumption.
  - intros x y Hx. apply h_disj. right. assumption.
  - inversion h_dist; assumption.
Qed.

(** ** move: re-queue the first detached entry, a var timer, at a new key *)
Lemma ph_requeue now0 s e hd vs x c' ex' :
  PH now0 s (e :: hd) -> e_slot e < FIX -> vget (var s) (e_slot e) = Some vs ->
  gnn x = gnn vs -> curr_of x = Some c' -> expiry_of x = Some ex' ->
  now s < c' <= now s + WIN -> c' mod 65536 <= 61036 -> ex_ok ex' ->
  PH now0 (m_requeue s (e_slot e) x (c' mod M32) (e_cb e)) hd /\
  (forall y, In y (queue (m_requeue s (e_slot e) x (c' mod M32) (e_cb e))) <->
             y = (c' mod M32, e_slot e, e_cb e) \/ In y (queue s)).
Proof.
  intros P Hv Hg Hgn Hc Hex Hc' Hl Hex'.
  pose proof (PH_now_nonneg _ _ _ P) as Hn0. pose proof (PH_qok _ _ _ P) as Hq.
  set (i := e_slot e) in *.
  assert (Hi : 0 <= i < M32) by (apply vget_Some_range in Hg; pose proof (h_len _ _ _ P); unfold FIX, M32 in *; lia).
  destruct (key_entry_ok (now s) c' i (e_cb e) Hn0 Hc' Hl Hi) as [Hnew HT].
  assert (Hfresh : forall y, In y (queue s) -> ~ same_key y (c' mod M32) i).
  { intros y Hy [_ K]. eapply (h_disj _ _ _ P e y); eauto. left; reflexivity. }
  pose proof (q_insert_fresh (now s) Hn0 _ _ _ _ Hq Hnew Hfresh) as Hin.
  destruct (q_insert_spec (now s) Hn0 (c' mod M32) i (e_cb e) (queue s) Hq Hnew) as [[Hq1 Hq2] _].
  destruct (hd_distinct_inv _ _ (h_dist _ _ _ P)) as [Hd1 Hd2]. specialize (Hd1 Hv).
  destruct (var_entry_live _ _ (h_varh _ _ _ P e ltac:(left; reflexivity) Hv)) as (vs0 & c0 & Hg0 & Hc0 & _ & Hlive).
  fold i in Hg0. rewrite Hg in Hg0. injection Hg0 as <-.
  assert (Hxl : is_free x = false) by (apply curr_live in Hc; tauto).
  split; [|exact Hin].
  destruct P. unfold m_requeue. constructor; sproj; try assumption.
  - inversion h_hd_sorted; assumption.
  - inversion h_hd_ok; assumption.
  - intros j vsj Hj. rewrite (vget_vset _ _ _ _ _ Hg) in Hj. destruct (Z.eqb_spec i j) as [<-|Hij].
    + injection Hj as <-. split; [rewrite Hgn; apply (h_slots i vs Hg)|]. rewrite Hc, Hex.
      split; [assumption|]. left. split; [assumption|]. exists (e_cb e). apply Hin. left. reflexivity.
    + destruct (h_slots j vsj Hj) as [G L]. split; [assumption|].
      destruct (curr_of vsj) as [c|] eqn:Ec, (expiry_of vsj); auto. destruct L as (L1 & [[L2 [cb L3]]|[cb [L3|L3]]]).
      * split; [assumption|]. left. split; [assumption|]. exists cb. apply Hin. right. assumption.
      * exfalso. apply Hij. subst e. reflexivity.
      * split; [assumption|right; eauto].
  - intros y Hy Hyv. apply Hin in Hy. destruct Hy as [->|Hy].
    + exists x, c'. sproj. cbn [e_slot e_wt fst snd]. rewrite (vget_vset_same _ _ _ _ Hg). auto.
    + apply var_entry_ext with s; [|apply h_varq; assumption]. cbn [var]. apply vget_vset_other; [lia|].
      intros K. eapply (h_disj e y); eauto. left; reflexivity.
  - intros y Hy Hyv. apply var_entry_ext with (s := s); [|apply h_varh; [right|]; assumption]. cbn [var set_queue set_var].
    apply vget_vset_other; [lia|]. intros K. eapply Hd1; eauto.
  - intros y y' Hy Hy' Hyv. apply Hin in Hy'. destruct Hy' as [->|Hy'].
    + cbn [e_slot fst snd]. apply Hd1. assumption.
    + apply h_disj; [right|..]; assumption.
  - intros y Hy Hyf. apply Hin in Hy. destruct Hy as [->|Hy]; [cbn [e_slot fst snd] in Hyf; lia|auto].
  - unfold free_ok. sproj. eapply free_okv_set_live; eauto.
  - rewrite vset_length. assumption.
Qed.

(** ** move: free the slot of the first detached entry, a var timer *)
Lemma ph_free now0 s e hd vs :
  PH now0 s (e :: hd) -> e_slot e < FIX -> vget (var s) (e_slot e) = Some vs -> gnn vs + 1 < M32 ->
  exists s', free_slot s (e_slot e) = Some s' /\ PH now0 s' hd /\
    queue s' = queue s /\ now s' = now s /\ seq s' = seq s /\ cnow s' = cnow s /\
    vget (var s') (e_slot e) = Some (mkVS (gnn vs + 1) (VFree (var_free s))) /\
    (forall j, j <> e_slot e -> vget (var s') j = vget (var s) j) /\
    length (var s') = length (var s).
Proof.
  intros P Hv Hg Hgn. set (i := e_slot e) in *.
  destruct (var_entry_live _ _ (h_varh _ _ _ P e ltac:(left; reflexivity) Hv)) as (vs0 & c0 & Hg0 & Hc0 & _ & Hlive).
  fold i in Hg0. rewrite Hg in Hg0. injection Hg0 as <-.
  destruct (h_slots _ _ _ P i vs Hg) as [Gr _].
  assert (Eg : Z.max ((gnn vs + 1) mod 4294967296) FREE_GEN_MIN = gnn vs + 1).
  { unfold FREE_GEN_MIN, M32 in *. rewrite Z.mod_small by lia. lia. }
  assert (Hi : 0 <= i) by (apply vget_Some_range in Hg; lia).
  destruct (hd_distinct_inv _ _ (h_dist _ _ _ P)) as [Hd1 Hd2]. specialize (Hd1 Hv).
  set (s' := set_free (set_var s (vset (var s) i (mkVS (gnn vs + 1) (VFree (var_free s))))) (Some i)).
  assert (Ef : free_slot s i = Some s').
  { unfold free_slot. rewrite Hg, Eg. unfold is_free in Hlive. destruct (item vs); [reflexivity|reflexivity|discriminate]. }
  exists s'. split; [exact Ef|]. unfold s'. sproj.
  split; [|repeat split; auto; [eapply vget_vset_same; eauto|intros j Hj; apply vget_vset_other; [lia|congruence]|apply vset_length]].
  destruct P. constructor; sproj; try assumption.
  - inversion h_hd_sorted; assumption.
  - inversion h_hd_ok; assumption.
  - intros j vsj Hj. rewrite (vget_vset _ _ _ _ _ Hg) in Hj. destruct (Z.eqb_spec i j) as [<-|Hij].
    + injection Hj as <-. split; [cbn [gnn]; lia|]. cbn. exact I.
    + destruct (h_slots j vsj Hj) as [G L]. split; [assumption|].
      destruct (curr_of vsj) as [c|] eqn:Ec, (expiry_of vsj); auto. destruct L as (L1 & [L2|[cb [L3|L3]]]).
      * split; [assumption|left; assumption].
      * exfalso. apply Hij. subst e. reflexivity.
      * split; [assumption|right; eauto].
  - intros y Hy Hyv. apply var_entry_ext with s; [|apply h_varq; assumption]. cbn [var]. apply vget_vset_other; [lia|].
    intros K. eapply (h_disj e y); eauto. left; reflexivity.
  - intros y Hy Hyv. apply var_entry_ext with s; [|apply h_varh; [right|]; assumption]. cbn [var].
    apply vget_vset_other; [lia|]. intros K. eapply Hd1; eauto.
  - intros y y' Hy Hy' Hyv. apply h_disj; [right|..]; assumption.
  - unfold free_ok. sproj. eapply free_okv_free; eauto.
  - rewrite vset_length. assumption.
Qed.

(** ** move: detach an entry from the queue *)
Lemma same_key_dec y w sl : {same_key y w sl} + {~ same_key y w sl}.
Proof. unfold same_key. destruct (Z.eq_dec (e_wt y) w), (Z.eq_dec (e_slot y) sl); [left|right|right|right]; tauto. Qed.

Lemma entry_eq_dec (a b : entry) : {a = b} + {a <> b}.
Proof. repeat decide equality. Qed.

Lemma remove_mid_In now l1 e l2 y : qok now (l1 ++ e :: l2) ->
  (In y (l1 ++ l2) <-> In y (l1 ++ e :: l2) /\ y <> e).
Proof.
  intros Hq. destruct (qok_app_inv _ _ _ Hq) as (_ & Q2 & Q3). destruct (qok_cons_inv _ _ _ Q2) as (_ & _ & Q4).
  rewrite Forall_forall in Q4. rewrite !in_app_iff. cbn [In]. split.
  - intros [H|H]; (split; [tauto|]); intros ->.
    + eapply klt_irrefl. apply (Q3 e e); [assumption|left; reflexivity].
    + eapply klt_irrefl. apply (Q4 e H).
  - intros [[H|[H|H]] Hne]; auto. congruence.
Qed.

Lemma ph_detach_gen s l1 e l2 :
  PH (now s) s [] -> queue s = l1 ++ e :: l2 ->
  PH (now s) (set_queue s (l1 ++ l2)) [e] /\
  (forall y, In y (l1 ++ l2) <-> In y (queue s) /\ y <> e).
Proof.
  intros P Eq. pose proof (PH_now_nonneg _ _ _ P) as Hn0. pose proof (PH_qok _ _ _ P) as Hq.
  assert (Hmem : forall y, In y (l1 ++ l2) <-> In y (queue s) /\ y <> e).
  { intros y. rewrite Eq. eapply remove_mid_In. rewrite <- Eq. eassumption. }
  split; [|assumption].
  assert (Hin : In e (queue s)) by (rewrite Eq; apply in_or_app; right; left; reflexivity).
  assert (He : entry_ok (now s) e).
  { pose proof (h_entries _ _ _ P) as F. rewrite Forall_forall in F. auto. }
  destruct (qok_remove_mid (now s) l1 e l2 ltac:(rewrite <- Eq; assumption)) as [Hr1 Hr2].
  destruct P. constructor; sproj; try assumption; try (constructor; [assumption|constructor]); try (constructor; constructor).
  - intros j vsj Hj. destruct (h_slots j vsj Hj) as [G L]. split; [assumption|].
    destruct (curr_of vsj) as [c|] eqn:Ec, (expiry_of vsj); auto. destruct L as (L1 & [[L2 [cb' L3]]|[cb' []]]).
    split; [assumption|]. destruct (entry_eq_dec (c mod M32, j, cb') e) as [K|K].
    + right. exists cb'. left. symmetry. assumption.
    + left. split; [assumption|]. exists cb'. apply Hmem. split; assumption.
  - intros y Hy. apply h_varq. apply Hmem in Hy. tauto.
  - intros y [<-|[]]. apply h_varq. assumption.
  - intros y y' [<-|[]] Hy' Hv K. apply Hmem in Hy'. destruct Hy' as [Hy' Hk]. apply Hk.
    destruct (h_varq _ Hin Hv) as (v1 & c1 & A1 & A2 & A3).
    assert (Hv' : e_slot y' < FIX) by lia.
    destruct (h_varq _ Hy' Hv') as (v2 & c2 & B1 & B2 & B3). rewrite <- K in B1. rewrite A1 in B1. injection B1 as <-.
    eapply qok_key_unique; eauto. split; congruence.
  - constructor; [intros _ y []|constructor].
  - intros y Hy. apply h_fixed. apply Hmem in Hy. tauto.
Qed.

Lemma ph_detach s w sl cb r :
  PH (now s) s [] -> 0 <= w < M32 -> q_remove w sl (queue s) = Some (cb, r) ->
  PH (now s) (set_queue s r) [(w, sl, cb)] /\ In (w, sl, cb) (queue s) /\
  (forall y, In y r <-> In y (queue s) /\ y <> (w, sl, cb)).
Proof.
  intros P Hw Hr. pose proof (PH_qok _ _ _ P) as Hq.
  destruct (q_remove_spec_Some (now s) _ _ _ _ _ Hw Hq Hr) as (Hin & _ & _).
  apply q_remove_Some in Hr. destruct Hr as (l1 & e & l2 & Eq & -> & Hc & Hk & _).
  assert (He : entry_ok (now s) e).
  { pose proof (h_entries _ _ _ P) as F. rewrite Forall_forall in F. apply F. rewrite Eq. apply in_or_app. right. left. reflexivity. }
  apply (key_eq_same (now s) w sl e Hw He) in Hk. destruct Hk as [E1 E2].
  assert (Ee : e = (w, sl, cb)) by (destruct e as [[a b] c]; cbn [e_wt e_slot e_cb fst snd] in *; congruence).
  destruct (ph_detach_gen s l1 e l2 P Eq) as [P' Hmem]. rewrite Ee in *. auto.
Qed.

(** ** move: the split of one step of [advance] *)
Lemma sorted_var_distinct now s q : qok now q -> (forall e, In e q -> e_slot e < FIX -> var_entry s e) -> hd_distinct q.
Proof.
  induction q as [|a q IH]; intros Hq Hv; [constructor|].
  destruct (qok_cons_inv _ _ _ Hq) as (Ha & Hq' & Hlt). constructor.
  - intros Hav y Hy K. rewrite Forall_forall in Hlt. specialize (Hlt y Hy).
    destruct (Hv a ltac:(left; reflexivity) Hav) as (v1 & c1 & A1 & A2 & A3).
    destruct (Hv y ltac:(right; assumption) ltac:(lia)) as (v2 & c2 & B1 & B2 & B3).
    rewrite K, A1 in B1. injection B1 as <-. assert (e_wt a = e_wt y) by congruence.
    unfold klt in Hlt. rewrite H, K in Hlt. lia.
  - apply IH; [assumption|]. intros e He. apply Hv. right. assumption.
Qed.

Lemma ph_split s n' :
  PH (now s) s [] -> now s < n' <= now s + WIN -> n' < 2 ^ 49 -> n' mod 65536 <= 61035 ->
  exists h t, q_split ((n' + 1) mod M32) 0 (queue s) = (h, t) /\ queue s = h ++ t /\
    PH (now s) (set_now (set_queue s t) n') h /\
    Forall (fun e => Tof (now s) (e_wt e) <= n') h /\ Forall (fun e => n' < Tof (now s) (e_wt e)) t.
Proof.
  intros P Hn' Hb Hl. pose proof (PH_now_nonneg _ _ _ P) as Hn0. pose proof (PH_qok _ _ _ P) as Hq.
  destruct (q_split_spec (now s) Hn0 n' (queue s) Hq Hn') as (h & t & Es & Eq & Hh & Ht).
  exists h, t. split; [assumption|split; [assumption|split; [|split; assumption]]].
  rewrite Eq in Hq. destruct (qok_app_inv _ _ _ Hq) as ([Qh1 Qh2] & Qt & Qht).
  destruct (qok_advance (now s) Hn0 n' t ltac:(lia) Qt Ht) as [Qt1 Qt2].
  assert (Hint : forall y, In y t -> In y (queue s)) by (intros y Hy; rewrite Eq; apply in_or_app; right; assumption).
  assert (Hinh : forall y, In y h -> In y (queue s)) by (intros y Hy; rewrite Eq; apply in_or_app; left; assumption).
  destruct P. constructor; sproj; try assumption; try lia.
  - intros j vsj Hj. destruct (h_slots j vsj Hj) as [G L]. split; [assumption|].
    destruct (curr_of vsj) as [c|] eqn:Ec, (expiry_of vsj); auto. destruct L as (L1 & [[L2 [cb' L3]]|[cb' []]]).
    split; [assumption|]. rewrite Eq in L3. apply in_app_or in L3. destruct L3 as [L3|L3].
    + right. eauto.
    + left. rewrite Forall_forall in Ht. specialize (Ht _ L3). cbn [e_wt fst snd] in Ht.
      rewrite (curr_is_T (now s) c Hn0 L2) in Ht. sproj. split; [lia|eauto].
  - intros y Hy. apply h_varq. auto.
  - intros y Hy. apply h_varq. auto.
  - intros y y' Hy Hy' Hv K. specialize (Qht y y' Hy Hy').
    destruct (h_varq _ (Hinh _ Hy) Hv) as (v1 & c1 & A1 & A2 & A3).
    destruct (h_varq _ (Hint _ Hy') ltac:(lia)) as (v2 & c2 & B1 & B2 & B3).
    rewrite <- K, A1 in B1. injection B1 as <-. assert (e_wt y = e_wt y') by congruence.
    unfold klt in Qht. rewrite H, K in Qht. lia.
  - eapply sorted_var_distinct; [split; eassumption|]. intros e He. apply h_varq. auto.
Qed.

(** ** move: overwrite a live slot keeping its generation and current key *)
Lemma ph_set_expiry now0 s hd i vs x c ex' :
  PH now0 s hd -> vget (var s) i = Some vs -> curr_of vs = Some c ->
  gnn x = gnn vs -> curr_of x = Some c -> expiry_of x = Some ex' -> ex_ok ex' ->
  PH now0 (set_var s (vset (var s) i x)) hd.
Proof.
  intros P Hg Hc Hgn Hcx Hex Hex'. destruct (curr_live _ _ Hc) as [Hl [ex0 Hex0]]. destruct (curr_live _ _ Hcx) as [Hlx _].
  assert (Hve : forall y, var_entry s y -> var_entry (set_var s (vset (var s) i x)) y).
  { intros y (v1 & c1 & A1 & A2 & A3). unfold var_entry. sproj. rewrite (vget_vset _ _ _ _ _ Hg).
    destruct (Z.eqb_spec i (e_slot y)) as [E|E].
    - exists x, c. rewrite <- E in A1. rewrite Hg in A1. injection A1 as <-. split; [reflexivity|split; [assumption|congruence]].
    - exists v1, c1. auto. }
  destruct P. constructor; sproj; try assumption.
  - intros j vsj Hj. rewrite (vget_vset _ _ _ _ _ Hg) in Hj. destruct (Z.eqb_spec i j) as [<-|Hij].
    + injection Hj as <-. destruct (h_slots i vs Hg) as [G L]. split; [rewrite Hgn; assumption|].
      rewrite Hc, Hex0 in L. rewrite Hcx, Hex. destruct L as [_ L]. split; assumption.
    + apply h_slots. assumption.
  - intros y Hy Hv. apply Hve. auto.
  - intros y Hy Hv. apply Hve. auto.
  - unfold free_ok. sproj. eapply free_okv_set_live; eauto.
  - rewrite vset_length. assumption.
Qed.

(** ** move: allocate a slot; its entry is still to be queued *)
Lemma vset_nat_same v i x : nth_error v i = Some x -> vset_nat v i x = v.
Proof.
  revert i. induction v as [|y v IH]; intros [|i] H; cbn [vset_nat nth_error] in *; try discriminate.
  - injection H as ->. reflexivity.
  - rewrite IH by assumption. reflexivity.
Qed.
Lemma vset_same v i x : vget v i = Some x -> vset v i x = v.
Proof. unfold vget, vset. destruct (i <? 0); [discriminate|]. apply vset_nat_same. Qed.

Definition live_item (it : vitem) (c ex : Z) : Prop := it = VMax ex c \/ it = VMin ex c.

Lemma live_item_facts it c ex g : live_item it c ex ->
  curr_of (mkVS g it) = Some c /\ expiry_of (mkVS g it) = Some ex /\ is_free (mkVS g it) = false.
Proof. intros [->| ->]; cbn; auto. Qed.

Lemma ph_alloc s it c ex cb :
  PH (now s) s [] -> Z.of_nat (length (var s)) < FIX -> live_item it c ex ->
  now s < c <= now s + WIN -> c mod 65536 <= 61036 -> ex_ok ex ->
  exists s1 i g, alloc_slot s it = Some (s1, i, g) /\ PH (now s) s1 [(c mod M32, i, cb)] /\
    queue s1 = queue s /\ now s1 = now s /\ seq s1 = seq s /\ cnow s1 = cnow s /\
    0 <= i < FIX /\ 1 <= g < M32 /\
    vget (var s1) i = Some (mkVS g it) /\ (forall j, j <> i -> vget (var s1) j = vget (var s) j) /\
    ((vget (var s) i = None /\ g = 1 /\ length (var s1) = S (length (var s))) \/
     (exists vs, vget (var s) i = Some vs /\ is_free vs = true /\ gnn vs = g /\ length (var s1) = length (var s))).
Proof.
  intros P Hlen Hit Hc Hl Hex. pose proof (PH_now_nonneg _ _ _ P) as Hn0.
  destruct (live_item_facts it c ex) with (g := 0) as (_ & _ & Hfr); [assumption|].
  assert (Hfr' : forall g, is_free (mkVS g it) = false) by (intros g; exact Hfr).
  (* what PH of the new state needs, given the description of the new var vector *)
  assert (Build : forall s1 i g,
    queue s1 = queue s -> now s1 = now s -> seq s1 = seq s -> 0 <= i < FIX -> 1 <= g < M32 ->
    vget (var s1) i = Some (mkVS g it) -> (forall j, j <> i -> vget (var s1) j = vget (var s) j) ->
    (forall vs, vget (var s) i = Some vs -> is_free vs = true) ->
    free_ok s1 -> Z.of_nat (length (var s1)) <= FIX ->
    PH (now s) s1 [(c mod M32, i, cb)]).
  { intros s1 i g Eq En Es Hi Hg Hgi Hgo Hold Hf Hl1.
    assert (Hi' : 0 <= i < M32) by (unfold FIX, M32 in *; lia).
    destruct (key_entry_ok (now s) c i cb Hn0 Hc Hl Hi') as [Hnew HT].
    destruct (live_item_facts it c ex g Hit) as (F1 & F2 & F3).
    assert (Hno : forall y, In y (queue s) -> e_slot y < FIX -> e_slot y <> i).
    { intros y Hy Hv K. destruct (var_entry_live _ _ (h_varq _ _ _ P y Hy Hv)) as (v1 & c1 & A1 & _ & _ & A4).
      rewrite K in A1. apply Hold in A1. congruence. }
    destruct P. constructor; rewrite ?Eq, ?En, ?Es; try assumption;
      try (constructor; [assumption|constructor]); try (constructor; constructor).
    - intros j vsj Hj. destruct (Z.eq_dec j i) as [->|Hji].
      + rewrite Hgi in Hj. injection Hj as <-. split; [assumption|]. rewrite F1, F2. split; [assumption|].
        right. exists cb. left. reflexivity.
      + rewrite Hgo in Hj by assumption. destruct (h_slots j vsj Hj) as [G L]. split; [assumption|].
        unfold slot_okH in *. destruct (curr_of vsj), (expiry_of vsj); auto.
        rewrite En, Eq. destruct L as (L1 & [L2|[cb' []]]). split; [assumption|left; assumption].
    - intros y Hy Hv. apply var_entry_ext with s; [|apply h_varq; assumption]. apply Hgo. apply Hno; assumption.
    - intros y [<-|[]] _. exists (mkVS g it), c. cbn [e_slot e_wt fst snd]. auto.
    - intros y y' [<-|[]] Hy' Hv K. cbn [e_slot fst snd] in *. eapply Hno; eauto. lia.
    - constructor; [intros _ y []|constructor]. }
  unfold alloc_slot. destruct (var_free s) as [i|] eqn:Ef.
  - (* from the free list *)
    pose proof (h_free _ _ _ P) as Hfree. unfold free_ok in Hfree. rewrite Ef in Hfree.
    destruct (free_okv_alloc (var s) i (mkVS 0 it) Hfree Hfr) as (vs & nx & Hg & Hi & _).
    destruct (free_okv_alloc (var s) i (mkVS (gnn vs) it) Hfree (Hfr' _)) as (vs' & nx' & Hg' & Hi' & Hfree').
    rewrite Hg in Hg'. injection Hg' as <-. rewrite Hi in Hi'. injection Hi' as <-.
    rewrite Hg, Hi.
    set (s1 := set_free (set_var s (vset (var s) i (mkVS (gnn vs) it))) nx).
    assert (Hir : 0 <= i < FIX) by (apply vget_Some_range in Hg; pose proof (h_len _ _ _ P); lia).
    assert (Hgr : 1 <= gnn vs < M32) by (apply (h_slots _ _ _ P i vs Hg)).
    assert (Hsame : vget (var s1) i = Some (mkVS (gnn vs) it)) by (unfold s1; sproj; eapply vget_vset_same; eauto).
    assert (Hoth : forall j, j <> i -> vget (var s1) j = vget (var s) j).
    { intros j Hj. unfold s1. sproj. apply vget_vset_other; [lia|congruence]. }
    assert (Hisf : is_free vs = true) by (unfold is_free; rewrite Hi; reflexivity).
    exists s1, i, (gnn vs). split; [reflexivity|]. split.
    + apply (Build s1 i (gnn vs)); try reflexivity; try assumption.
      * intros vs0 Hvs0. rewrite Hg in Hvs0. injection Hvs0 as <-. assumption.
      * unfold s1. sproj. rewrite vset_length. apply (h_len _ _ _ P).
    + repeat split; try reflexivity; try assumption; try lia.
      right. exists vs. repeat split; try assumption. unfold s1. sproj. apply vset_length.
  - (* push *)
    set (i := Z.of_nat (length (var s))).
    destruct (i >=? VAR_LIMIT) eqn:C; [unfold VAR_LIMIT, FIX in *; lia|].
    set (s1 := set_var s (var s ++ [mkVS ALLOC_GEN_START it])).
    assert (Hsame : vget (var s1) i = Some (mkVS 1 it)).
    { unfold s1. sproj. rewrite vget_app. unfold i. rewrite Z.eqb_refl. reflexivity. }
    assert (Hoth : forall j, j <> i -> vget (var s1) j = vget (var s) j).
    { intros j Hj. unfold s1. sproj. rewrite vget_app. fold i. destruct (Z.eqb_spec j i); [contradiction|reflexivity]. }
    assert (Hnone : vget (var s) i = None).
    { destruct (vget (var s) i) eqn:E; [|reflexivity]. apply vget_Some_range in E. unfold i in E. lia. }
    assert (Hl1 : length (var s1) = S (length (var s))) by (unfold s1; sproj; rewrite app_length; cbn [length]; lia).
    exists s1, i, 1. split; [reflexivity|]. split.
    + apply (Build s1 i 1); try reflexivity; try assumption; try (unfold i, M32 in *; lia).
      * intros vs0 Hvs0. congruence.
      * pose proof (h_free _ _ _ P) as Hfree. unfold free_ok in *. unfold s1. sproj. rewrite Ef in *.
        apply free_okv_push; [assumption|apply Hfr'].
    + repeat split; try reflexivity; try assumption; try (unfold i, M32 in *; lia).
      left. auto.
Qed.

(** ** move: insert a fixed timer with the next sequence number *)
Lemma ph_insert_fixed s c cb :
  PH (now s) s [] -> seq s + 1 < FIX -> now s < c <= now s + WIN -> c mod 65536 <= 61036 ->
  let sl := seq s + 1 + FIX in
  let s' := set_queue (set_seq s (seq s + 1)) (q_insert (c mod M32) sl cb (queue s)) in
  PH (now s) s' [] /\ q_mem (c mod M32) sl (queue s) = false /\
  (forall y, In y (queue s') <-> y = (c mod M32, sl, cb) \/ In y (queue s)).
Proof.
  intros P Hs Hc Hl sl s'. pose proof (PH_now_nonneg _ _ _ P) as Hn0. pose proof (PH_qok _ _ _ P) as Hq.
  pose proof (h_seq _ _ _ P) as Hsq.
  assert (Hsl : 0 <= sl < M32) by (unfold sl, FIX, M32 in *; lia).
  destruct (key_entry_ok (now s) c sl cb Hn0 Hc Hl Hsl) as [Hnew HT].
  assert (Hfresh : forall y, In y (queue s) -> ~ same_key y (c mod M32) sl).
  { intros y Hy [_ K]. destruct (Z.lt_ge_cases (e_slot y) FIX) as [L|L]; [unfold sl in K; lia|].
    pose proof (h_fixed _ _ _ P y Hy L). unfold sl in K. lia. }
  pose proof (q_insert_fresh (now s) Hn0 _ _ _ _ Hq Hnew Hfresh) as Hin.
  destruct (q_insert_spec (now s) Hn0 (c mod M32) sl cb (queue s) Hq Hnew) as [[Hq1 Hq2] _].
  assert (Hmem : q_mem (c mod M32) sl (queue s) = false).
  { destruct (q_mem (c mod M32) sl (queue s)) eqn:E; [|reflexivity].
    apply (q_mem_spec (now s)) in E; [|unfold M32; lia|assumption]. destruct E as (y & Hy & K). exfalso. eapply Hfresh; eauto. }
  split; [|split; assumption].
  destruct P. unfold s'. constructor; sproj; try assumption; try (unfold M32, FIX in *; lia).
  - intros j vsj Hj. destruct (h_slots j vsj Hj) as [G L]. split; [assumption|].
    unfold slot_okH in *. sproj. destruct (curr_of vsj), (expiry_of vsj); auto.
    destruct L as (L1 & [[L2 [cb' L3]]|[cb' []]]). split; [assumption|]. left. split; [assumption|]. exists cb'. apply Hin. right. assumption.
  - intros y Hy Hv. apply Hin in Hy. destruct Hy as [->|Hy]; [cbn [e_slot fst snd] in Hv; unfold sl in Hv; lia|].
    apply var_entry_ext with s; [reflexivity|]. apply h_varq; assumption.
  - intros y y' [].
  - intros y Hy Hf. apply Hin in Hy. destruct Hy as [->|Hy]; [cbn [e_slot fst snd]; unfold sl; lia|].
    specialize (h_fixed y Hy Hf). lia.
Qed.

(** * Operations *)

(** ** arithmetic of the current-key computations *)
Lemma now_facts now0 s hd : PH now0 s hd -> 0 <= now s < 2 ^ 49 /\ now s mod 65536 <= 61035.
Proof. intros P. pose proof (h_now0 _ _ _ P). pose proof (h_now _ _ _ P). lia. Qed.

Lemma inc_now t : 0 <= t < 2 ^ 49 -> time_inc t = Some (t + 1).
Proof. intros. apply inc_spec. lia. Qed.
Lemma lim_now t : 0 <= t < 2 ^ 49 -> time_add_secs t 32767 = Some (t + WIN).
Proof. intros. rewrite add_secs_spec by lia. reflexivity. Qed.

Lemma cmax_bounds now ex : 0 <= now -> now mod 65536 <= 61035 -> ex mod 65536 <= 61036 ->
  let c := Z.min (Z.max ex (now + 1)) (now + WIN) in
  now + 1 <= c <= now + WIN /\ c mod 65536 <= 61036 /\ c <= Z.max ex (now + 1).
Proof.
  intros Hn Hl He c. unfold c, WIN.
  destruct (Z.max_spec ex (now + 1)) as [[? ->]|[? ->]];
  destruct (Z.min_spec (ex) (now + 2147418112)) as [[? E1]|[? E1]];
  destruct (Z.min_spec (now + 1) (now + 2147418112)) as [[? E2]|[? E2]]; rewrite ?E1, ?E2; lia.
Qed.

Lemma cmin_adv_bounds now ex : 0 <= now -> now mod 65536 <= 61035 -> ex mod 65536 <= 61036 -> now < ex ->
  let c := Z.min ex (now + WIN) in now < c <= now + WIN /\ c mod 65536 <= 61036 /\ c <= ex.
Proof.
  intros Hn Hl He Hlt c. unfold c, WIN. destruct (Z.min_spec ex (now + 2147418112)) as [[? ->]|[? ->]]; lia.
Qed.

Lemma r75_range t0 t1 : 0 <= t0 -> t0 <= t1 -> t1 mod 65536 <= 61036 ->
  t0 <= r75 t0 t1 <= t1 /\ (t0 < t1 -> t0 < r75 t0 t1) /\ r75 t0 t1 mod 65536 <= 61036.
Proof.
  intros H0 H1 Hl. destruct (r75_bounds t0 t1 H0 H1) as [A B]. pose proof (r75_low16 t0 t1 H0 H1 Hl).
  destruct (Z.lt_ge_cases (t1 - t0) 32768) as [G|G]; [rewrite (A G) in *; lia|specialize (B G); lia].
Qed.

(** ** counters *)
Lemma counters_CH s n : counters_ok s n -> CH n s.
Proof. intros (A & B & C). split; [lia|split; [lia|]]. intros i vs H. specialize (B i vs H). lia. Qed.

Lemma CH_counters s n : CH n s -> counters_ok s (n + 1).
Proof. intros (A & B & C). split; [lia|split; [|lia]]. intros i vs H. specialize (C i vs H). lia. Qed.

Lemma TInv_of_PH s s' : PH (now s') s' [] -> TInv s -> now s' = now s -> cnow s' = cnow s -> TInv s'.
Proof. intros P I En Ec. eapply PH_TInv; [eassumption| |]; rewrite ?En, Ec; apply I. Qed.

(** ** allocate a slot and queue its entry (add_max, add_min) *)
Definition alloc_facts (s s1 : tstate) (i g : Z) (it : vitem) : Prop :=
  queue s1 = queue s /\ now s1 = now s /\ seq s1 = seq s /\ cnow s1 = cnow s /\
  0 <= i < FIX /\ 1 <= g < M32 /\
  vget (var s1) i = Some (mkVS g it) /\ (forall j, j <> i -> vget (var s1) j = vget (var s) j) /\
  ((vget (var s) i = None /\ g = 1 /\ length (var s1) = S (length (var s))) \/
   (exists vs, vget (var s) i = Some vs /\ is_free vs = true /\ gnn vs = g /\ length (var s1) = length (var s))).

Lemma alloc_insert_ok s it c ex cb n :
  TInv s -> counters_ok s n -> n < HMAX -> live_item it c ex ->
  now s < c <= now s + WIN -> c mod 65536 <= 61036 -> ex_ok ex ->
  exists s1 i g, alloc_slot s it = Some (s1, i, g) /\ alloc_facts s s1 i g it /\
    let s2 := set_queue s1 (q_insert (c mod M32) i cb (queue s1)) in
    TInv s2 /\ counters_ok s2 (n + 1) /\
    (forall y, In y (queue s2) <-> y = (c mod M32, i, cb) \/ In y (queue s)).
Proof.
  intros I (C1 & C2 & C3) Hn Hit Hc Hl Hex. pose proof (TInv_PH s I) as P.
  destruct (ph_alloc s it c ex cb P ltac:(unfold HMAX, FIX in *; lia) Hit Hc Hl Hex)
    as (s1 & i & g & Ea & P1 & F1 & F2 & F3 & F4 & F5 & F6 & F7 & F8 & F9).
  exists s1, i, g. split; [assumption|]. split; [unfold alloc_facts; tauto|].
  destruct (live_item_facts it c ex g Hit) as (L1 & L2 & L3).
  rewrite <- F2 in P1.
  destruct (ph_requeue (now s1) s1 (c mod M32, i, cb) [] (mkVS g it) (mkVS g it) c ex P1) as [P2 Hin];
    cbn [e_slot e_cb fst snd]; try assumption; try reflexivity; try lia.
  unfold m_requeue in *. cbn [e_slot e_cb fst snd] in *. rewrite (vset_same _ _ _ F7) in *.
  cbv zeta.
  assert (Es : set_queue (set_var s1 (var s1)) (q_insert (c mod M32) i cb (queue s1)) =
               set_queue s1 (q_insert (c mod M32) i cb (queue s1))) by reflexivity.
  rewrite Es in *. split; [|split].
  - eapply TInv_of_PH; [exact P2|exact I|..]; sproj; assumption.
  - repeat split; sproj.
    + lia.
    + intros j vs Hj. destruct (Z.eq_dec j i) as [->|Hji].
      * rewrite F7 in Hj. injection Hj as <-. cbn [gnn]. destruct F9 as [(_ & -> & _)|(vs' & G1 & _ & G3 & _)]; [lia|].
        specialize (C2 _ _ G1). lia.
      * rewrite F8 in Hj by assumption. specialize (C2 _ _ Hj). lia.
    + destruct F9 as [(_ & _ & G)|(vs' & _ & _ & _ & G)]; rewrite G; lia.
  - intros y. rewrite Hin. rewrite F1. reflexivity.
Qed.

(** ** replace the key of a live slot (mod_min) *)
Lemma rekey_ok s i vs c x c' ex' n :
  TInv s -> counters_ok s n -> vget (var s) i = Some vs -> curr_of vs = Some c ->
  gnn x = gnn vs -> curr_of x = Some c' -> expiry_of x = Some ex' ->
  now s < c' <= now s + WIN -> c' mod 65536 <= 61036 -> ex_ok ex' ->
  exists cb r, q_remove (c mod M32) i (queue s) = Some (cb, r) /\ In (c mod M32, i, cb) (queue s) /\
    let s' := set_queue (set_var s (vset (var s) i x)) (q_insert (c' mod M32) i cb r) in
    TInv s' /\ counters_ok s' n /\
    (forall y, In y (queue s') <-> y = (c' mod M32, i, cb) \/ (In y (queue s) /\ y <> (c mod M32, i, cb))).
Proof.
  intros I (C1 & C2 & C3) Hg Hc Hgn Hcx Hex Hc' Hl Hex'. pose proof (TInv_PH s I) as P.
  pose proof (PH_qok _ _ _ P) as Hq.
  destruct (curr_live _ _ Hc) as [Hlv [ex0 Hex0]].
  destruct (i_slots s I i vs Hg) as [G L]. rewrite Hc, Hex0 in L. destruct L as (L1 & L2 & cb & L3).
  assert (Hw : 0 <= c mod M32 < M32) by (unfold M32; lia).
  destruct (q_remove_present (now s) _ _ _ _ Hw Hq L3) as [r Hr].
  exists cb, r. split; [assumption|split; [assumption|]].
  destruct (ph_detach s _ _ _ _ P Hw Hr) as (P1 & _ & Hmem).
  assert (Hi : i < FIX) by (apply vget_Some_range in Hg; pose proof (i_len s I); lia).
  change (now s) with (now (set_queue s r)) in P1.
  destruct (ph_requeue _ (set_queue s r) (c mod M32, i, cb) [] vs x c' ex' P1) as [P2 Hin];
    cbn [e_slot e_cb fst snd]; sproj; try assumption.
  cbn [e_slot e_cb fst snd] in *. cbv zeta.
  assert (Es : m_requeue (set_queue s r) i x (c' mod M32) cb =
               set_queue (set_var s (vset (var s) i x)) (q_insert (c' mod M32) i cb r)) by reflexivity.
  rewrite Es in *. split; [|split].
  - eapply TInv_of_PH; [exact P2|exact I|..]; sproj; reflexivity.
  - repeat split; sproj; try assumption.
    + intros j vsj Hj. rewrite (vget_vset _ _ _ _ _ Hg) in Hj. destruct (i =? j); [|eauto].
      injection Hj as <-. rewrite Hgn. eauto.
    + rewrite vset_length. assumption.
  - intros y. rewrite Hin. sproj. rewrite Hmem. reflexivity.
Qed.

(** ** remove the entry of a live slot and free the slot (del_max, del_min) *)
Lemma remove_free_ok s i vs c n :
  TInv s -> counters_ok s n -> n < HMAX -> vget (var s) i = Some vs -> curr_of vs = Some c ->
  exists cb r s', q_remove (c mod M32) i (queue s) = Some (cb, r) /\ In (c mod M32, i, cb) (queue s) /\
    free_slot (set_queue s r) i = Some s' /\
    TInv s' /\ counters_ok s' (n + 1) /\
    (forall y, In y (queue s') <-> In y (queue s) /\ y <> (c mod M32, i, cb)) /\
    now s' = now s /\ seq s' = seq s /\ cnow s' = cnow s /\
    vget (var s') i = Some (mkVS (gnn vs + 1) (VFree (var_free s))) /\
    (forall j, j <> i -> vget (var s') j = vget (var s) j).
Proof.
  intros I (C1 & C2 & C3) Hn Hg Hc. pose proof (TInv_PH s I) as P.
  pose proof (PH_qok _ _ _ P) as Hq.
  destruct (curr_live _ _ Hc) as [Hlv [ex0 Hex0]].
  destruct (i_slots s I i vs Hg) as [G L]. rewrite Hc, Hex0 in L. destruct L as (L1 & L2 & cb & L3).
  assert (Hw : 0 <= c mod M32 < M32) by (unfold M32; lia).
  destruct (q_remove_present (now s) _ _ _ _ Hw Hq L3) as [r Hr].
  destruct (ph_detach s _ _ _ _ P Hw Hr) as (P1 & _ & Hmem).
  assert (Hi : i < FIX) by (apply vget_Some_range in Hg; pose proof (i_len s I); lia).
  change (now s) with (now (set_queue s r)) in P1.
  pose proof (C2 _ _ Hg) as Hgb.
  destruct (ph_free _ (set_queue s r) (c mod M32, i, cb) [] vs P1) as (s' & Ef & P2 & F1 & F2 & F3 & F4 & F5 & F6 & F7);
    cbn [e_slot e_cb fst snd]; sproj; try assumption; try (unfold HMAX, M32 in *; lia).
  cbn [e_slot e_cb fst snd] in *.
  exists cb, r, s'. split; [assumption|split; [assumption|split; [assumption|]]].
  split; [|split; [|split; [|repeat split; assumption]]].
  - eapply TInv_of_PH; [rewrite F2; exact P2|exact I|..]; assumption.
  - repeat split.
    + lia.
    + intros j vsj Hj. destruct (Z.eq_dec j i) as [->|Hji].
      * rewrite F5 in Hj. injection Hj as <-. cbn [gnn]. lia.
      * rewrite F6 in Hj by assumption. specialize (C2 _ _ Hj). lia.
    + rewrite F7. lia.
  - intros y. rewrite F1. apply Hmem.
Qed.

(** ** overwrite the expiry of a live slot (mod_max, mod_min) *)
Lemma set_expiry_ok s i vs c x ex' n :
  TInv s -> counters_ok s n -> vget (var s) i = Some vs -> curr_of vs = Some c ->
  gnn x = gnn vs -> curr_of x = Some c -> expiry_of x = Some ex' -> ex_ok ex' ->
  let s' := set_var s (vset (var s) i x) in TInv s' /\ counters_ok s' n.
Proof.
  intros I (C1 & C2 & C3) Hg Hc Hgn Hcx Hex Hex'. pose proof (TInv_PH s I) as P. cbv zeta. split.
  - eapply TInv_of_PH; [|exact I|..]; try reflexivity. sproj. eapply ph_set_expiry; eauto.
  - repeat split; sproj; try assumption.
    + intros j vsj Hj. rewrite (vget_vset _ _ _ _ _ Hg) in Hj. destruct (i =? j); [|eauto].
      injection Hj as <-. rewrite Hgn. eauto.
    + rewrite vset_length. assumption.
Qed.

Lemma counters_mono s n m : counters_ok s n -> n <= m -> counters_ok s m.
Proof. intros (A & B & C) H. split; [lia|split; [|lia]]. intros i vs Hg. specialize (B i vs Hg). lia. Qed.

Lemma ceil_facts ns : ns < TMAX -> 0 <= ceil_ns ns < 2 ^ 49 /\ ceil_ns ns mod 65536 <= 61036.
Proof. intros H. pose proof (ceil_low16 ns). pose proof (ceil_bound ns H). lia. Qed.

(** ** add_max *)
Lemma add_max_ok s ns cb n : TInv s -> counters_ok s n -> n < HMAX -> ns < TMAX ->
  let ex := ceil_ns ns in let c := Z.min (Z.max ex (now s + 1)) (now s + WIN) in
  exists s1 i g, alloc_slot s (VMax ex c) = Some (s1, i, g) /\ alloc_facts s s1 i g (VMax ex c) /\
    let s2 := set_queue s1 (q_insert (c mod M32) i cb (queue s1)) in
    add_max s ns cb = Some (s2, i, g) /\ TInv s2 /\ counters_ok s2 (n + 1) /\
    (forall y, In y (queue s2) <-> y = (c mod M32, i, cb) \/ In y (queue s)) /\
    now s < c <= now s + WIN /\ c <= Z.max ex (now s + 1).
Proof.
  intros I C Hn Hns ex c. destruct (now_facts _ _ _ (TInv_PH s I)) as [Hnow Hlow].
  destruct (ceil_facts ns Hns) as [He Hel]. fold ex in He, Hel.
  destruct (cmax_bounds (now s) ex ltac:(lia) Hlow Hel) as (B1 & B2 & B3). fold c in B1, B2, B3.
  destruct (alloc_insert_ok s (VMax ex c) c ex cb n I C Hn ltac:(left; reflexivity) ltac:(lia) B2 ltac:(unfold ex_ok; lia))
    as (s1 & i & g & Ea & Fa & I2 & C2 & Hin).
  exists s1, i, g. split; [assumption|split; [assumption|]]. cbv zeta.
  split; [|split; [assumption|split; [assumption|split; [assumption|lia]]]].
  unfold add_max. rewrite (t_ceil_spec ns Hns), (inc_now _ Hnow). cbn [obind].
  unfold ADD_MAX_SECS. rewrite (lim_now _ Hnow). cbn [obind]. fold ex. fold c. rewrite Ea. cbn [obind]. reflexivity.
Qed.

(** ** add_min *)
Lemma add_min_ok s ns cb n : TInv s -> counters_ok s n -> n < HMAX -> ns < TMAX ->
  let ex := ceil_ns ns in
  let c := r75 (now s + 1) (Z.min (Z.max ex (now s + 1)) (now s + WIN)) in
  exists s1 i g, alloc_slot s (VMin ex c) = Some (s1, i, g) /\ alloc_facts s s1 i g (VMin ex c) /\
    let s2 := set_queue s1 (q_insert (c mod M32) i cb (queue s1)) in
    add_min s ns cb = Some (s2, i, g) /\ TInv s2 /\ counters_ok s2 (n + 1) /\
    (forall y, In y (queue s2) <-> y = (c mod M32, i, cb) \/ In y (queue s)) /\
    now s < c <= now s + WIN /\ c <= Z.max ex (now s + 1).
Proof.
  intros I C Hn Hns ex c. destruct (now_facts _ _ _ (TInv_PH s I)) as [Hnow Hlow].
  destruct (ceil_facts ns Hns) as [He Hel]. fold ex in He, Hel.
  destruct (cmax_bounds (now s) ex ltac:(lia) Hlow Hel) as (B1 & B2 & B3).
  set (t1 := Z.min (Z.max ex (now s + 1)) (now s + WIN)) in *.
  destruct (r75_range (now s + 1) t1 ltac:(lia) ltac:(lia) B2) as (R1 & R2 & R3). fold c in R1, R2, R3.
  destruct (alloc_insert_ok s (VMin ex c) c ex cb n I C Hn ltac:(right; reflexivity) ltac:(lia) R3 ltac:(unfold ex_ok; lia))
    as (s1 & i & g & Ea & Fa & I2 & C2 & Hin).
  exists s1, i, g. split; [assumption|split; [assumption|]]. cbv zeta.
  split; [|split; [assumption|split; [assumption|split; [assumption|lia]]]].
  unfold add_min. rewrite (t_ceil_spec ns Hns), (inc_now _ Hnow). cbn [obind].
  unfold ADD_MIN_SECS. rewrite (lim_now _ Hnow). cbn [obind]. fold ex. fold t1.
  rewrite rounded_75point_spec by (unfold WIN in *; lia). cbn [obind]. fold c. rewrite Ea. cbn [obind]. reflexivity.
Qed.

(** ** add (fixed timer, or the var-timer fall-back beyond the window) *)
Lemma add_fixed_ok s ns cb n : TInv s -> counters_ok s n -> n < HMAX -> ns < TMAX ->
  let T := Z.max (ceil_ns ns) (now s + 1) in
  (now s + WIN <= T /\ add_fixed s ns cb = add_max s ns cb) \/
  (T < now s + WIN /\
   let sl := seq s + 1 + FIX in
   let s' := set_queue (set_seq s (seq s + 1)) (q_insert (T mod M32) sl cb (queue s)) in
   add_fixed s ns cb = Some (s', sl, T mod M32) /\ TInv s' /\ counters_ok s' (n + 1) /\
   (forall y, In y (queue s') <-> y = (T mod M32, sl, cb) \/ In y (queue s))).
Proof.
  intros I C Hn Hns T. pose proof (TInv_PH s I) as P. destruct (now_facts _ _ _ P) as [Hnow Hlow].
  destruct (ceil_facts ns Hns) as [He Hel]. pose proof (h_seq _ _ _ P) as Hsq. destruct C as (C1 & C2 & C3).
  assert (Eq : add_fixed s ns cb = if T >=? now s + WIN then add_max s ns cb
                                   else add_fixed_loop 16 s (T mod M32) cb).
  { unfold add_fixed. rewrite (t_ceil_spec ns Hns), (inc_now _ Hnow). cbn [obind].
    unfold ADD_VAR_SECS. rewrite (lim_now _ Hnow). cbn [obind]. fold T. destruct (T >=? now s + WIN); reflexivity. }
  rewrite Eq. destruct (T >=? now s + WIN) eqn:CT; [left; split; [lia|reflexivity]|]. right. split; [lia|].
  assert (HT : now s < T <= now s + WIN) by lia.
  assert (HTl : T mod 65536 <= 61036) by (unfold T; destruct (Z.max_spec (ceil_ns ns) (now s + 1)) as [[? ->]|[? ->]]; lia).
  destruct (ph_insert_fixed s T cb P ltac:(unfold HMAX, FIX in *; lia) HT HTl) as (P' & Hmem & Hin).
  cbv zeta. split; [|split; [|split; [|exact Hin]]].
  - cbn [add_fixed_loop]. rewrite (Z.mod_small (seq s + 1)) by (unfold HMAX, FIX in *; lia).
    unfold ADD_FIXED_BIT. rewrite lor_fixed_bit by (unfold HMAX in *; lia). sproj. fold FIX.
    replace (seq s + 1 + FIX) with (seq s + 1 + FIX) by reflexivity. rewrite Hmem. reflexivity.
  - eapply TInv_of_PH; [exact P'|exact I|..]; reflexivity.
  - split; [sproj; lia|split; [|sproj; lia]]. intros i vs Hg. sproj. specialize (C2 i vs Hg). lia.
Qed.

(** ** mod_max *)
Lemma mod_max_ok s slot g ns n : TInv s -> counters_ok s n -> ns < TMAX ->
  (exists vs e c, vget (var s) slot = Some vs /\ gnn vs = g /\ item vs = VMax e c /\
     let s' := set_var s (vset (var s) slot (mkVS g (VMax (Z.max e (ceil_ns ns)) c))) in
     mod_max s slot g ns = Some (s', true) /\ TInv s' /\ counters_ok s' n) \/
  ((forall vs e c, vget (var s) slot = Some vs -> gnn vs = g -> item vs <> VMax e c) /\
   mod_max s slot g ns = Some (s, false)).
Proof.
  intros I C Hns. destruct (ceil_facts ns Hns) as [He Hel]. unfold mod_max.
  destruct (vget (var s) slot) as [vs|] eqn:Hg; [|right; split; [intros; discriminate|reflexivity]].
  destruct (Z.eqb_spec (gnn vs) g) as [Eg|Eg]; [|right; split; [intros vs' e c H; injection H as <-; contradiction|reflexivity]].
  destruct (item vs) as [e c|e c|nx] eqn:Hi;
    [|right; split; [intros vs' e' c' H; injection H as <-; intros _; congruence|reflexivity]..].
  left. exists vs, e, c. split; [reflexivity|split; [assumption|split; [assumption|]]].
  rewrite (t_ceil_spec ns Hns). cbn [obind]. rewrite Eg. cbv zeta. split; [reflexivity|].
  destruct (i_slots s I slot vs Hg) as [G L]. unfold curr_of, expiry_of in L. rewrite Hi in L. destruct L as (L1 & L2 & L3).
  apply (set_expiry_ok s slot vs c (mkVS g (VMax (Z.max e (ceil_ns ns)) c)) (Z.max e (ceil_ns ns)) n I C Hg);
    unfold curr_of, expiry_of; cbn [item gnn]; rewrite ?Hi; try reflexivity; try congruence.
  unfold ex_ok in *. destruct (Z.max_spec e (ceil_ns ns)) as [[? ->]|[? ->]]; lia.
Qed.

(** ** del_max / del_min *)
Definition rf_facts (s : tstate) (i : Z) (vs : vslot) (c cb : Z) (s' : tstate) (n : Z) : Prop :=
  In (c mod M32, i, cb) (queue s) /\ TInv s' /\ counters_ok s' (n + 1) /\
  (forall y, In y (queue s') <-> In y (queue s) /\ y <> (c mod M32, i, cb)) /\
  now s' = now s /\ seq s' = seq s /\ cnow s' = cnow s /\
  vget (var s') i = Some (mkVS (gnn vs + 1) (VFree (var_free s))) /\
  (forall j, j <> i -> vget (var s') j = vget (var s) j).

Lemma del_max_ok s slot g n : TInv s -> counters_ok s n -> n < HMAX ->
  (exists vs e c cb s', vget (var s) slot = Some vs /\ gnn vs = g /\ item vs = VMax e c /\
     del_max s slot g = Some (s', true) /\ rf_facts s slot vs c cb s' n) \/
  ((forall vs e c, vget (var s) slot = Some vs -> gnn vs = g -> item vs <> VMax e c) /\
   del_max s slot g = Some (s, false)).
Proof.
  intros I C Hn. unfold del_max.
  destruct (vget (var s) slot) as [vs|] eqn:Hg; [|right; split; [intros; discriminate|reflexivity]].
  destruct (Z.eqb_spec (gnn vs) g) as [Eg|Eg]; [|right; split; [intros vs' e c H; injection H as <-; contradiction|reflexivity]].
  destruct (item vs) as [e c|e c|nx] eqn:Hi;
    [|right; split; [intros vs' e' c' H; injection H as <-; intros _; congruence|reflexivity]..].
  left. assert (Hc : curr_of vs = Some c) by (unfold curr_of; rewrite Hi; reflexivity).
  destruct (remove_free_ok s slot vs c n I C Hn Hg Hc) as (cb & r & s' & Hr & F).
  exists vs, e, c, cb, s'. split; [reflexivity|split; [assumption|split; [first [assumption|reflexivity]|]]].
  unfold time_wt. cbn [obind]. fold M32. rewrite Hr. destruct F as (F0 & F1 & F). rewrite F1. cbn [obind].
  split; [reflexivity|]. unfold rf_facts. tauto.
Qed.

Lemma del_min_ok s slot g n : TInv s -> counters_ok s n -> n < HMAX ->
  (exists vs e c cb s', vget (var s) slot = Some vs /\ gnn vs = g /\ item vs = VMin e c /\
     del_min s slot g = Some (s', true) /\ rf_facts s slot vs c cb s' n) \/
  ((forall vs e c, vget (var s) slot = Some vs -> gnn vs = g -> item vs <> VMin e c) /\
   del_min s slot g = Some (s, false)).
Proof.
  intros I C Hn. unfold del_min.
  destruct (vget (var s) slot) as [vs|] eqn:Hg; [|right; split; [intros; discriminate|reflexivity]].
  destruct (Z.eqb_spec (gnn vs) g) as [Eg|Eg]; [|right; split; [intros vs' e c H; injection H as <-; contradiction|reflexivity]].
  destruct (item vs) as [e c|e c|nx] eqn:Hi;
    [right; split; [intros vs' e' c' H; injection H as <-; intros _; congruence|reflexivity]| |
     right; split; [intros vs' e' c' H; injection H as <-; intros _; congruence|reflexivity]].
  left. assert (Hc : curr_of vs = Some c) by (unfold curr_of; rewrite Hi; reflexivity).
  destruct (remove_free_ok s slot vs c n I C Hn Hg Hc) as (cb & r & s' & Hr & F).
  exists vs, e, c, cb, s'. split; [reflexivity|split; [assumption|split; [first [assumption|reflexivity]|]]].
  unfold time_wt. cbn [obind]. fold M32. rewrite Hr. destruct F as (F0 & F1 & F). rewrite F1. cbn [obind].
  split; [reflexivity|]. unfold rf_facts. tauto.
Qed.

(** ** del (fixed key) *)
Lemma del_fixed_ok s slot g : TInv s -> FIX <= slot ->
  (exists cb l1 e l2, queue s = l1 ++ e :: l2 /\ e_cb e = cb /\ key_eq g slot e /\ e_slot e = slot /\
     del_fixed s slot g = Some (set_queue s (l1 ++ l2), true) /\ TInv (set_queue s (l1 ++ l2)) /\
     (forall y, In y (l1 ++ l2) <-> In y (queue s) /\ y <> e)) \/
  (Forall (fun x => ~ key_eq g slot x) (queue s) /\ del_fixed s slot g = Some (s, false)).
Proof.
  intros I Hs. unfold del_fixed. unfold DEL_FIXED_BIT. destruct (Z.ltb_spec slot 2147483648) as [L|L]; [unfold FIX in Hs; lia|].
  destruct (q_remove g slot (queue s)) as [[cb r]|] eqn:Hr.
  - left. apply q_remove_Some in Hr. destruct Hr as (l1 & e & l2 & Eq & -> & Hc & Hk & _).
    pose proof (kcmp_Eq_gen _ _ _ _ Hk) as [Es _].
    destruct (ph_detach_gen s l1 e l2 (TInv_PH s I) Eq) as [P1 Hmem].
    exists cb, l1, e, l2.
    split; [assumption|split; [assumption|split; [assumption|split; [auto|split; [reflexivity|split; [|assumption]]]]]].
    eapply TInv_of_PH; [|exact I|reflexivity|reflexivity]. sproj.
    eapply ph_drop; [exact P1|lia].
  - right. split; [apply q_remove_None; assumption|reflexivity].
Qed.

(** ** mod_min *)
Lemma mod_min_ok s slot g ns n : TInv s -> counters_ok s n -> ns < TMAX ->
  let e' := ceil_ns ns in
  (exists vs e c, vget (var s) slot = Some vs /\ gnn vs = g /\ item vs = VMin e c /\
     ((e' < e /\ e' < c /\
       let c' := r75 (now s + 1) (Z.min (Z.max e' (now s + 1)) (now s + WIN)) in
       exists cb r, q_remove (c mod M32) slot (queue s) = Some (cb, r) /\ In (c mod M32, slot, cb) (queue s) /\
         let s' := set_queue (set_var s (vset (var s) slot (mkVS g (VMin e' c')))) (q_insert (c' mod M32) slot cb r) in
         mod_min s slot g ns = Some (s', true) /\ TInv s' /\ counters_ok s' n /\
         (forall y, In y (queue s') <-> y = (c' mod M32, slot, cb) \/ (In y (queue s) /\ y <> (c mod M32, slot, cb))) /\
         now s < c' <= now s + WIN /\ c' <= Z.max e' (now s + 1)) \/
      (e' < e /\ c <= e' /\
       let s' := set_var s (vset (var s) slot (mkVS g (VMin e' c))) in
       mod_min s slot g ns = Some (s', true) /\ TInv s' /\ counters_ok s' n) \/
      (e <= e' /\ mod_min s slot g ns = Some (s, true)))) \/
  ((forall vs e c, vget (var s) slot = Some vs -> gnn vs = g -> item vs <> VMin e c) /\
   mod_min s slot g ns = Some (s, false)).
Proof.
  intros I C Hns e'. destruct (ceil_facts ns Hns) as [He Hel]. fold e' in He, Hel.
  destruct (now_facts _ _ _ (TInv_PH s I)) as [Hnow Hlow].
  unfold mod_min. rewrite (t_ceil_spec ns Hns). cbn [obind]. fold e'.
  destruct (vget (var s) slot) as [vs|] eqn:Hg; [|right; split; [intros; discriminate|reflexivity]].
  destruct (Z.eqb_spec (gnn vs) g) as [Eg|Eg]; [|right; split; [intros vs' e c H; injection H as <-; contradiction|reflexivity]].
  destruct (item vs) as [e c|e c|nx] eqn:Hi;
    [right; split; [intros vs' e0 c0 H; injection H as <-; intros _; congruence|reflexivity]| |
     right; split; [intros vs' e0 c0 H; injection H as <-; intros _; congruence|reflexivity]].
  left. exists vs, e, c. split; [reflexivity|split; [assumption|split; [first [assumption|reflexivity]|]]].
  assert (Hc : curr_of vs = Some c) by (unfold curr_of; rewrite Hi; reflexivity).
  destruct (Z.ltb_spec e' e) as [L1|L1]; [|right; right; split; [lia|reflexivity]].
  destruct (Z.ltb_spec e' c) as [L2|L2].
  - left. split; [assumption|split; [assumption|]]. cbv zeta.
    destruct (cmax_bounds (now s) e' ltac:(lia) Hlow Hel) as (B1 & B2 & B3).
    set (t1 := Z.min (Z.max e' (now s + 1)) (now s + WIN)) in *.
    destruct (r75_range (now s + 1) t1 ltac:(lia) ltac:(lia) B2) as (R1 & R2 & R3).
    set (c' := r75 (now s + 1) t1) in *.
    destruct (rekey_ok s slot vs c (mkVS g (VMin e' c')) c' e' n I C Hg Hc) as (cb & r & Hr & Hin & I' & C' & Hmem);
      try reflexivity; try (symmetry; assumption); try (unfold ex_ok; lia).
    exists cb, r. split; [assumption|split; [assumption|]].
    split; [|split; [assumption|split; [assumption|split; [assumption|lia]]]].
    unfold time_wt. cbn [obind]. fold M32. rewrite Hr. rewrite (inc_now _ Hnow). cbn [obind].
    unfold MOD_MIN_SECS. rewrite (lim_now _ Hnow). cbn [obind]. fold t1.
    rewrite rounded_75point_spec by (unfold WIN in *; lia). cbn [obind]. fold c'. rewrite Eg. reflexivity.
  - right. left. split; [assumption|split; [assumption|]]. cbv zeta. rewrite Eg. split; [reflexivity|].
    apply (set_expiry_ok s slot vs c (mkVS g (VMin e' c)) e' n I C Hg Hc); try reflexivity; try (symmetry; assumption). unfold ex_ok; lia.
Qed.

(** * advance *)

(** one iteration of the loop over the split-off head: the new state and the callbacks pushed *)
Definition ph_step (e : entry) (target : Z) (s : tstate) : option (tstate * list Z) :=
  let slot := e_slot e in
  if slot >=? ADVANCE_FIXED_BIT then Some (s, [e_cb e])
  else
    match vget (var s) slot with
    | None => None
    | Some vs =>
        match item vs with
        | VMax ex c =>
            if ex <=? target then s1 <- free_slot s slot ;; Some (s1, [e_cb e])
            else
              lim <- time_add_secs (now s) ADVANCE_REQUEUE_SECS ;;
              let c' := Z.min ex lim in
              wt <- time_wt c' ;;
              Some (m_requeue s slot (mkVS (gnn vs) (VMax ex c')) wt (e_cb e), [])
        | VMin ex c =>
            if ex <=? target then s1 <- free_slot s slot ;; Some (s1, [e_cb e])
            else
              lim <- time_add_secs (now s) ADVANCE_REQUEUE_SECS ;;
              c' <- rounded_75point (now s) (Z.min ex lim) ;;
              wt <- time_wt c' ;;
              Some (m_requeue s slot (mkVS (gnn vs) (VMin ex c')) wt (e_cb e), [])
        | VFree _ => None
        end
    end.

Lemma process_head_cons e rest target s fired :
  process_head (e :: rest) target s fired =
  match ph_step e target s with
  | Some (s1, d) => process_head rest target s1 (fired ++ d)
  | None => None
  end.
Proof.
  cbn [process_head]. unfold ph_step. destruct (e_slot e >=? ADVANCE_FIXED_BIT); [reflexivity|].
  destruct (vget (var s) (e_slot e)) as [vs|]; [|reflexivity].
  destruct (item vs) as [ex c|ex c|nx]; [| |reflexivity].
  - destruct (ex <=? target).
    + destruct (free_slot s (e_slot e)); reflexivity.
    + destruct (time_add_secs (now s) ADVANCE_REQUEUE_SECS); [|reflexivity]. cbn [obind time_wt]. rewrite app_nil_r. reflexivity.
  - destruct (ex <=? target).
    + destruct (free_slot s (e_slot e)); reflexivity.
    + destruct (time_add_secs (now s) ADVANCE_REQUEUE_SECS); [|reflexivity]. cbn [obind].
      destruct (rounded_75point (now s) (Z.min ex z)); [|reflexivity]. cbn [obind time_wt]. rewrite app_nil_r. reflexivity.
Qed.

(** generic invariant rule for the loop over the head *)
Lemma process_head_inv (P : tstate -> list entry -> list Z -> Prop) target :
  (forall s e hd fired, P s (e :: hd) fired ->
     exists s1 d, ph_step e target s = Some (s1, d) /\ P s1 hd (fired ++ d)) ->
  forall hd s fired, P s hd fired ->
    exists s' fired', process_head hd target s fired = Some (s', fired') /\ P s' [] fired'.
Proof.
  intros Hstep. induction hd as [|e hd IH]; intros s fired HP.
  - exists s, fired. split; [reflexivity|assumption].
  - rewrite process_head_cons. destruct (Hstep s e hd fired HP) as (s1 & d & E & HP1). rewrite E. apply IH. assumption.
Qed.

(** what one iteration does, under the invariant *)
Inductive step_kind (e : entry) (target : Z) (s s1 : tstate) (d : list Z) : Prop :=
| sk_fixed : FIX <= e_slot e -> s1 = s -> d = [e_cb e] -> step_kind e target s s1 d
| sk_fire vs c ex : e_slot e < FIX -> vget (var s) (e_slot e) = Some vs ->
    curr_of vs = Some c -> expiry_of vs = Some ex -> ex <= target ->
    free_slot s (e_slot e) = Some s1 -> d = [e_cb e] ->
    queue s1 = queue s -> seq s1 = seq s ->
    vget (var s1) (e_slot e) = Some (mkVS (gnn vs + 1) (VFree (var_free s))) ->
    (forall j, j <> e_slot e -> vget (var s1) j = vget (var s) j) ->
    step_kind e target s s1 d
| sk_requeue vs c ex c' it' : e_slot e < FIX -> vget (var s) (e_slot e) = Some vs ->
    target < ex ->
    ((item vs = VMax ex c /\ c' = Z.min ex (now s + WIN) /\ it' = VMax ex c') \/
     (item vs = VMin ex c /\ c' = r75 (now s) (Z.min ex (now s + WIN)) /\ it' = VMin ex c')) ->
    now s < c' <= now s + WIN -> c' <= ex ->
    s1 = m_requeue s (e_slot e) (mkVS (gnn vs) it') (c' mod M32) (e_cb e) -> d = [] ->
    (forall y, In y (queue s1) <-> y = (c' mod M32, e_slot e, e_cb e) \/ In y (queue s)) ->
    step_kind e target s s1 d.

Lemma CH_vset n s i vs x : CH n s -> vget (var s) i = Some vs -> gnn x = gnn vs -> is_free x = is_free vs ->
  CH n (set_var s (vset (var s) i x)).
Proof.
  intros (A & B & C) Hg Hgn Hf. split; [exact A|split; [sproj; rewrite vset_length; exact B|]].
  intros j vsj Hj. sproj. rewrite (vget_vset _ _ _ _ _ Hg) in Hj. destruct (i =? j); [|eauto].
  injection Hj as <-. rewrite Hgn, Hf. eauto.
Qed.

Lemma ph_step_ok now0 n target s e hd :
  PH now0 s (e :: hd) -> CH n s -> n < HMAX -> now s <= target ->
  exists s1 d, ph_step e target s = Some (s1, d) /\ PH now0 s1 hd /\ CH n s1 /\
    now s1 = now s /\ cnow s1 = cnow s /\ step_kind e target s s1 d.
Proof.
  intros P C Hn Ht. destruct (now_facts _ _ _ P) as [Hnow Hlow]. unfold ph_step. unfold ADVANCE_FIXED_BIT.
  destruct (Z.geb_spec (e_slot e) 2147483648) as [Hf|Hv].
  - exists s, [e_cb e]. split; [reflexivity|]. split; [eapply ph_drop; [eassumption|unfold FIX; lia]|].
    split; [assumption|split; [reflexivity|split; [reflexivity|]]]. apply sk_fixed; auto; unfold FIX; lia.
  - fold FIX in Hv.
    destruct (var_entry_live _ _ (h_varh _ _ _ P e ltac:(left; reflexivity) Hv)) as (vs & c & Hg & Hc & Hw & Hlive).
    rewrite Hg. destruct (h_slots _ _ _ P _ _ Hg) as [G L]. destruct (curr_live _ _ Hc) as [_ [ex Hex]].
    rewrite Hc, Hex in L. destruct L as [Lex _].
    destruct C as (C1 & C2 & C3). destruct (C3 _ _ Hg) as [G1 G2]. specialize (G2 Hlive).
    assert (Fire : ex <= target ->
      exists s1 d, (s1 <- free_slot s (e_slot e) ;; Some (s1, [e_cb e])) = Some (s1, d) /\ PH now0 s1 hd /\ CH n s1 /\
        now s1 = now s /\ cnow s1 = cnow s /\ step_kind e target s s1 d).
    { intros Hle. destruct (ph_free now0 s e hd vs P Hv Hg ltac:(unfold HMAX, M32 in *; lia))
        as (s1 & Ef & P1 & F1 & F2 & F3 & F4 & F5 & F6 & F7).
      exists s1, [e_cb e]. rewrite Ef. cbn [obind]. split; [reflexivity|split; [assumption|]].
      split; [|split; [assumption|split; [assumption|]]].
      - split; [lia|split; [lia|]]. intros j vsj Hj. destruct (Z.eq_dec j (e_slot e)) as [->|Hne].
        + rewrite F5 in Hj. injection Hj as <-. cbn. split; [lia|discriminate].
        + rewrite F6 in Hj by assumption. apply (C3 _ _ Hj).
      - eapply sk_fire; eauto. }
    assert (Requeue : forall c' it', target < ex -> now s < c' <= now s + WIN -> c' mod 65536 <= 61036 -> c' <= ex ->
      ((item vs = VMax ex c /\ c' = Z.min ex (now s + WIN) /\ it' = VMax ex c') \/
       (item vs = VMin ex c /\ c' = r75 (now s) (Z.min ex (now s + WIN)) /\ it' = VMin ex c')) ->
      let s1 := m_requeue s (e_slot e) (mkVS (gnn vs) it') (c' mod M32) (e_cb e) in
      PH now0 s1 hd /\ CH n s1 /\ now s1 = now s /\ cnow s1 = cnow s /\ step_kind e target s s1 []).
    { intros c' it' Hlt Hc' Hl' Hce Hk s1.
      assert (Hcx : curr_of (mkVS (gnn vs) it') = Some c' /\ expiry_of (mkVS (gnn vs) it') = Some ex /\ is_free (mkVS (gnn vs) it') = false).
      { destruct Hk as [(_ & _ & ->)|(_ & _ & ->)]; cbn; auto. }
      destruct Hcx as (X1 & X2 & X3).
      destruct (ph_requeue now0 s e hd vs (mkVS (gnn vs) it') c' ex P Hv Hg eq_refl X1 X2 Hc' Hl' Lex) as [P1 Hin].
      split; [exact P1|]. split; [|split; [reflexivity|split; [reflexivity|]]].
      - unfold s1, m_requeue. destruct (CH_vset n s (e_slot e) vs (mkVS (gnn vs) it') (conj C1 (conj C2 C3)) Hg eq_refl ltac:(congruence)) as (D1 & D2 & D3).
        split; [exact D1|split; [exact D2|exact D3]].
      - eapply sk_requeue; eauto. }
    destruct Lex as [Lex1 Lex2].
    unfold curr_of in Hc. unfold expiry_of in Hex. unfold ADVANCE_REQUEUE_SECS. rewrite (lim_now _ Hnow). cbn [obind time_wt]. fold M32.
    destruct (item vs) as [ex0 c0|ex0 c0|nx] eqn:Hi; [| |discriminate].
    + injection Hc as ->. injection Hex as ->. destruct (Z.leb_spec ex target) as [Hle|Hgt]; [auto|].
      destruct (cmin_adv_bounds (now s) ex ltac:(lia) Hlow Lex2 ltac:(lia)) as (B1 & B2 & B3).
      eexists _, []. split; [reflexivity|]. apply (Requeue (Z.min ex (now s + WIN)) (VMax ex (Z.min ex (now s + WIN)))); auto.
    + injection Hc as ->. injection Hex as ->. destruct (Z.leb_spec ex target) as [Hle|Hgt]; [auto|].
      destruct (cmin_adv_bounds (now s) ex ltac:(lia) Hlow Lex2 ltac:(lia)) as (B1 & B2 & B3).
      destruct (r75_range (now s) (Z.min ex (now s + WIN)) ltac:(lia) ltac:(lia) B2) as (R1 & R2 & R3).
      rewrite rounded_75point_spec by (unfold WIN in *; lia). cbn [obind].
      eexists _, []. split; [reflexivity|].
      apply (Requeue (r75 (now s) (Z.min ex (now s + WIN))) (VMin ex (r75 (now s) (Z.min ex (now s + WIN))))); auto; lia.
Qed.

(** the loop over the head, with an additional user invariant [X] *)
Lemma process_head_ok (X : tstate -> list entry -> list Z -> Prop) now0 n target :
  n < HMAX ->
  (forall s e hd fired s1 d, PH now0 s (e :: hd) -> CH n s -> now s <= target -> X s (e :: hd) fired ->
     ph_step e target s = Some (s1, d) -> step_kind e target s s1 d -> PH now0 s1 hd -> now s1 = now s ->
     X s1 hd (fired ++ d)) ->
  forall hd s fired, PH now0 s hd -> CH n s -> now s <= target -> X s hd fired ->
    exists s' fired', process_head hd target s fired = Some (s', fired') /\
      PH now0 s' [] /\ CH n s' /\ now s' = now s /\ cnow s' = cnow s /\ X s' [] fired'.
Proof.
  intros Hn HX hd s fired P C Ht Hx.
  destruct (process_head_inv
    (fun s0 hd0 f0 => PH now0 s0 hd0 /\ CH n s0 /\ now s0 = now s /\ cnow s0 = cnow s /\ X s0 hd0 f0) target) with (hd := hd) (s := s) (fired := fired)
    as (s' & f' & E & Q).
  - intros s0 e hd0 f0 (P0 & C0 & N0 & K0 & X0).
    destruct (ph_step_ok now0 n target s0 e hd0 P0 C0 Hn ltac:(lia)) as (s1 & d & E & P1 & C1 & N1 & K1 & SK).
    exists s1, d. split; [assumption|]. split; [assumption|split; [assumption|split; [congruence|split; [congruence|]]]].
    eapply HX; eauto. lia.
  - auto.
  - exists s', f'. tauto.
Qed.

(** one step of the outer loop *)
Definition adv_step (target : Z) (s : tstate) (fired : list Z) : option (tstate * list Z) :=
  stepped <- time_add_secs (now s) ADVANCE_STEP_SECS ;;
  let n := Z.min stepped target in
  w <- time_wt n ;;
  kw <- cadd32 w ADVANCE_SPLIT_INC ;;
  let '(head, rest) := q_split kw 0 (queue s) in
  process_head head target (set_now (set_queue s rest) n) fired.

Lemma advance_loop_S f target s fired :
  advance_loop (S f) target s fired =
  if now s <? target then
    match adv_step target s fired with
    | Some (s1, fired1) => advance_loop f target s1 fired1
    | None => None
    end
  else Some (s, fired).
Proof.
  cbn [advance_loop]. destruct (now s <? target); [|reflexivity]. unfold adv_step.
  destruct (time_add_secs (now s) ADVANCE_STEP_SECS); [|reflexivity]. cbn [obind time_wt].
  destruct (cadd32 _ ADVANCE_SPLIT_INC); [|reflexivity]. cbn [obind].
  destruct (q_split _ 0 (queue s)) as [h t].
  destruct (process_head h target _ fired) as [[s1 f1]|]; reflexivity.
Qed.

Lemma advance_loop_0 target s fired :
  advance_loop 0 target s fired = if now s <? target then None else Some (s, fired).
Proof. reflexivity. Qed.

Lemma advance_loop_rule (Q : tstate -> list Z -> Prop) target :
  (forall s fired, Q s fired -> now s < target ->
     exists s1 f1, adv_step target s fired = Some (s1, f1) /\ Q s1 f1 /\ now s1 = Z.min (now s + WIN) target) ->
  forall fuel s fired, Q s fired -> (now s < target -> target - now s <= (Z.of_nat fuel - 1) * WIN) ->
    exists s' f', advance_loop fuel target s fired = Some (s', f') /\ Q s' f' /\ target <= now s'.
Proof.
  intros Hstep. induction fuel as [|f IH]; intros s fired HQ Hf.
  - rewrite advance_loop_0. destruct (Z.ltb_spec (now s) target) as [L|L].
    + specialize (Hf L). unfold WIN in Hf. lia.
    + exists s, fired. auto.
  - rewrite advance_loop_S. destruct (Z.ltb_spec (now s) target) as [L|L].
    + destruct (Hstep s fired HQ L) as (s1 & f1 & E & HQ1 & N1). rewrite E. apply IH; [assumption|].
      intros L1. specialize (Hf L). unfold WIN in *. lia.
    + exists s, fired. auto.
Qed.

Lemma PH_rebase now0 s : PH now0 s [] -> PH (now s) s [].
Proof.
  intros P. pose proof (PH_now_nonneg _ _ _ P). destruct P. constructor; try assumption; try constructor; unfold WIN; lia.
Qed.

Lemma adv_step_ok (X : tstate -> list entry -> list Z -> Prop) n target s fired :
  PH (now s) s [] -> CH n s -> n < HMAX -> now s < target -> target < 2 ^ 49 -> target mod 65536 <= 61035 ->
  let n' := Z.min (now s + WIN) target in
  (forall h t, queue s = h ++ t -> Forall (fun e => Tof (now s) (e_wt e) <= n') h ->
     Forall (fun e => n' < Tof (now s) (e_wt e)) t -> PH (now s) (set_now (set_queue s t) n') h ->
     X (set_now (set_queue s t) n') h fired) ->
  (forall s0 e hd f0 s1 d, PH (now s) s0 (e :: hd) -> CH n s0 -> now s0 <= target -> X s0 (e :: hd) f0 ->
     ph_step e target s0 = Some (s1, d) -> step_kind e target s0 s1 d -> PH (now s) s1 hd -> now s1 = now s0 ->
     X s1 hd (f0 ++ d)) ->
  exists s1 f1, adv_step target s fired = Some (s1, f1) /\ PH (now s1) s1 [] /\ CH n s1 /\
    now s1 = n' /\ cnow s1 = cnow s /\ X s1 [] f1.
Proof.
  intros P C Hn Hlt Hb Hl n' HX0 HX. destruct (now_facts _ _ _ P) as [Hnow Hlow].
  assert (Hn' : now s < n' <= now s + WIN) by (unfold n', WIN; lia).
  assert (Hl' : n' mod 65536 <= 61035) by (unfold n', WIN; destruct (Z.min_spec (now s + 2147418112) target) as [[? ->]|[? ->]]; lia).
  assert (Hb' : n' < 2 ^ 49) by (unfold n'; lia).
  destruct (ph_split s n' P Hn' Hb' Hl') as (h & t & Es & Eq & P1 & Hh & Ht).
  unfold adv_step. unfold ADVANCE_STEP_SECS. rewrite (lim_now _ Hnow). cbn [obind time_wt]. fold n'.
  unfold ADVANCE_SPLIT_INC. rewrite cadd32_ok by lia. cbn [obind].
  assert (Ek : n' mod 4294967296 + 1 = (n' + 1) mod M32) by (unfold M32; lia).
  rewrite Ek, Es.
  destruct (process_head_ok X (now s) n target Hn HX h (set_now (set_queue s t) n') fired P1)
    as (s1 & f1 & E & P2 & C2 & N2 & K2 & X2).
  - destruct C as (C1 & C2 & C3). split; [exact C1|split; [exact C2|exact C3]].
  - sproj. unfold n'. lia.
  - apply HX0; assumption.
  - exists s1, f1. split; [assumption|]. sproj. split; [apply PH_rebase with (now s); assumption|].
    split; [assumption|split; [assumption|split; assumption]].
Qed.

(** ** the whole of [advance], for the model alone *)
Lemma advance_fuel_enough s target : 0 <= now s -> now s < target ->
  target - now s <= (Z.of_nat (advance_fuel s target) - 1) * WIN.
Proof.
  intros H0 H. unfold advance_fuel, ADVANCE_STEP_SECS. change (Z.max 1 (32767 * 65536)) with WIN.
  rewrite Z2Nat.id by (unfold WIN; lia). unfold WIN. lia.
Qed.

Lemma advance_ok s ns n : TInv s -> counters_ok s n -> n < HMAX -> cnow s < ns < TMAX ->
  exists s' fired, advance (set_cnow s ns) ns = Some (s', fired) /\ TInv s' /\ counters_ok s' (n + 1) /\
    cnow s' = ns /\ now s' = floor_ns ns.
Proof.
  intros I C Hn Hns. pose proof (TInv_PH s I) as P. destruct (now_facts _ _ _ P) as [Hnow Hlow].
  destruct (floor_range ns ltac:(lia)) as [Hf Hfl].
  unfold advance. rewrite (t_floor_spec ns ltac:(lia)). cbn [obind].
  set (target := floor_ns ns) in *.
  assert (Hle : now s <= target).
  { rewrite (i_now s I). unfold target. apply floor_mono. lia. }
  destruct (advance_loop_rule (fun s0 _ => PH (now s0) s0 [] /\ CH n s0 /\ cnow s0 = ns /\ now s0 <= target) target)
    with (fuel := advance_fuel (set_cnow s ns) target) (s := set_cnow s ns) (fired := @nil Z) as (s' & f' & E & (P' & C' & K' & N') & G').
  - intros s0 f0 (P0 & C0 & K0 & N0) L0.
    destruct (adv_step_ok (fun _ _ _ => True) n target s0 f0 P0 C0 Hn L0 ltac:(lia) Hfl) as (s1 & f1 & E1 & P1 & C1 & N1 & K1 & _); auto.
    exists s1, f1. split; [assumption|]. split; [|assumption]. split; [assumption|split; [assumption|split; [congruence|lia]]].
  - split; [|split; [|split]].
    + destruct P. constructor; sproj; assumption.
    + apply counters_CH in C. destruct C as (C1 & C2 & C3). split; [exact C1|split; [exact C2|exact C3]].
    + reflexivity.
    + exact Hle.
  - intros L. apply advance_fuel_enough; sproj; lia.
  - exists s', f'. split; [assumption|]. assert (now s' = target) by lia.
    split; [|split; [apply CH_counters; assumption|split; assumption]].
    pose proof (i_cnow s I). eapply PH_TInv; [eassumption|rewrite K'; lia|rewrite K'; assumption].
Qed.

(** ** next_expiry *)
Lemma next_expiry_ok s : TInv s ->
  match queue s with
  | [] => next_expiry s = Some None
  | e :: _ => next_expiry s = Some (Some (inst (Tof (now s) (e_wt e))))
  end.
Proof.
  intros I. unfold next_expiry. destruct (queue s) as [|e q] eqn:Eq; [reflexivity|].
  destruct (now_facts _ _ _ (TInv_PH s I)) as [Hnow Hlow].
  pose proof (i_entries s I) as F. rewrite Eq in F. inversion F as [|? ? He _]; subst.
  destruct He as (Hw & _ & Hb & _). pose proof (Tof_spec (now s) (e_wt e) ltac:(lia) Hw) as [R _].
  rewrite wraptime_time_spec by (unfold M32 in *; lia). cbn [obind].
  rewrite (unwrap_Tof (now s) (e_wt e)) by (try assumption; lia).
  rewrite t_instant_spec by (unfold WIN in *; lia). reflexivity.
Qed.

(** * The safety / structure theorem *)
Lemma vget_nil i : vget [] i = None.
Proof. unfold vget. destruct (i <? 0); [reflexivity|]. destruct (Z.to_nat i); reflexivity. Qed.

Lemma TInv_init : TInv t_init.
Proof.
  constructor; cbn [t_init now queue var var_free seq cnow length].
  - unfold TMAX. lia.
  - reflexivity.
  - unfold M32. lia.
  - constructor.
  - constructor.
  - intros i vs H. rewrite vget_nil in H. discriminate.
  - intros e [].
  - intros e [].
  - exists []. split; [constructor|split; [constructor|]]. intros i vs H. cbn in H. rewrite vget_nil in H. discriminate.
  - unfold FIX. lia.
Qed.

Lemma counters_init : counters_ok t_init 0.
Proof.
  split; [cbn; lia|split; [|cbn; lia]]. intros i vs H. cbn in H. rewrite vget_nil in H. discriminate.
Qed.

Theorem tstep_safe : forall s o n, TInv s -> counters_ok s n -> n < HMAX -> op_ok s o ->
  exists s' out, tstep s o = Some (s', out) /\ TInv s' /\ counters_ok s' (n + 1).
Proof.
  intros s o n I C Hn Hop. assert (C' : counters_ok s (n + 1)) by (eapply counters_mono; [eassumption|lia]).
  destruct o as [ns cb|dur cb|ns cb|ns cb|kref slot g|kref slot g ns|kref slot g|kref slot g|kref slot g ns|kref slot g|kref slot g|ns| |ns|ns maxdur pend| |v|slot v];
    cbn [tstep op_ok] in *; unfold inst_ok in *.
  - (* OAdd *)
    destruct (add_fixed_ok s ns cb n I C Hn Hop) as [[_ E]|(_ & E & I' & C2 & _)].
    + destruct (add_max_ok s ns cb n I C Hn Hop) as (s1 & i & g & _ & _ & E2 & I2 & C2 & _).
      rewrite E, E2. cbn. eauto.
    + rewrite E. cbn. eauto.
  - (* OAfter *)
    destruct Hop as [_ Hop].
    destruct (add_fixed_ok s (cnow s + dur) cb n I C Hn Hop) as [[_ E]|(_ & E & I' & C2 & _)].
    + destruct (add_max_ok s (cnow s + dur) cb n I C Hn Hop) as (s1 & i & g & _ & _ & E2 & I2 & C2 & _).
      rewrite E, E2. cbn. eauto.
    + rewrite E. cbn. eauto.
  - destruct (add_max_ok s ns cb n I C Hn Hop) as (s1 & i & g & _ & _ & E2 & I2 & C2 & _). rewrite E2. cbn. eauto.
  - destruct (add_min_ok s ns cb n I C Hn Hop) as (s1 & i & g & _ & _ & E2 & I2 & C2 & _). rewrite E2. cbn. eauto.
  - (* ODel *)
    destruct (Z.lt_ge_cases slot FIX) as [L|L].
    + unfold del_fixed, DEL_FIXED_BIT. destruct (Z.ltb_spec slot 2147483648) as [_|L']; [|unfold FIX in L; lia].
      destruct (del_max_ok s slot g n I C Hn) as [(vs & e & c & cb & s' & _ & _ & _ & E & F)|[_ E]]; rewrite E; cbn.
      * destruct F as (_ & I' & C2 & _). eauto.
      * eauto.
    + destruct (del_fixed_ok s slot g I L) as [(cb & l1 & e & l2 & _ & _ & _ & _ & E & I' & _)|[_ E]]; rewrite E; cbn.
      * exists (set_queue s (l1 ++ l2)), (RBool true). split; [reflexivity|split; [assumption|]].
        destruct C' as (A & B & D). split; [exact A|split; [exact B|exact D]].
      * eauto.
  - (* OModMax *)
    destruct (mod_max_ok s slot g ns n I C Hop) as [(vs & e & c & _ & _ & _ & E & I' & C2)|[_ E]]; rewrite E; cbn.
    + eexists _, _. split; [reflexivity|split; [assumption|eapply counters_mono; [eassumption|lia]]].
    + eauto.
  - (* ODelMax *)
    destruct (del_max_ok s slot g n I C Hn) as [(vs & e & c & cb & s' & _ & _ & _ & E & F)|[_ E]]; rewrite E; cbn.
    + destruct F as (_ & I' & C2 & _). eauto.
    + eauto.
  - eauto.
  - (* OModMin *)
    destruct (mod_min_ok s slot g ns n I C Hop) as [(vs & e & c & _ & _ & _ & [(_ & _ & cb & r & _ & _ & E & I' & C2 & _)|[(_ & _ & E & I' & C2)|(_ & E)]])|[_ E]];
      rewrite E; cbn.
    + eexists _, _. split; [reflexivity|split; [assumption|eapply counters_mono; [eassumption|lia]]].
    + eexists _, _. split; [reflexivity|split; [assumption|eapply counters_mono; [eassumption|lia]]].
    + eauto.
    + eauto.
  - (* ODelMin *)
    destruct (del_min_ok s slot g n I C Hn) as [(vs & e & c & cb & s' & _ & _ & _ & E & F)|[_ E]]; rewrite E; cbn.
    + destruct F as (_ & I' & C2 & _). eauto.
    + eauto.
  - eauto.
  - (* ORun *)
    destruct (Z.gtb_spec ns (cnow s)) as [L|L].
    + destruct (advance_ok s ns n I C Hn ltac:(lia)) as (s' & f & E & I' & C2 & _). rewrite E. cbn. eauto.
    + eauto.
  - (* ONextExpiry *)
    pose proof (next_expiry_ok s I) as E. destruct (queue s); rewrite E; cbn; eauto.
  - pose proof (next_expiry_ok s I) as E. destruct (queue s); rewrite E; cbn; eauto.
  - destruct pend; [eauto|]. pose proof (next_expiry_ok s I) as E. destruct (queue s); rewrite E; cbn; eauto.
  - eauto.
  - contradiction.
  - contradiction.
Qed.

(** every history of admissible operations shorter than HMAX runs without a panic, and the
    invariant holds in every state it passes through *)
Fixpoint ops_ok (s : tstate) (ops : list top) : Prop :=
  match ops with
  | [] => True
  | o :: r => op_ok s o /\ match tstep s o with Some (s1, _) => ops_ok s1 r | None => True end
  end.

Theorem trun_safe : forall ops s n, TInv s -> counters_ok s n -> n + Z.of_nat (length ops) <= HMAX -> ops_ok s ops ->
  let '(outs, sf) := trun s ops in
  length outs = length ops /\ Forall (fun o => o <> None) outs /\ TInv sf /\ counters_ok sf (n + Z.of_nat (length ops)).
Proof.
  induction ops as [|o r IH]; intros s n I C Hlen Hok.
  - cbn. split; [reflexivity|split; [constructor|split; [assumption|]]]. replace (n + 0) with n by lia. assumption.
  - cbn [trun]. destruct Hok as [Ho Hr]. cbn [length] in Hlen.
    destruct (tstep_safe s o n I C ltac:(lia) Ho) as (s1 & out & E & I1 & C1). rewrite E in *.
    specialize (IH s1 (n + 1) I1 C1 ltac:(lia) Hr). destruct (trun s1 r) as [l sf].
    destruct IH as (L & F & If & Cf). cbn [length]. split; [lia|split; [constructor; [discriminate|assumption]|split; [assumption|]]].
    replace (n + Z.of_nat (S (length r))) with (n + 1 + Z.of_nat (length r)) by lia. assumption.
Qed.

(** ** corollaries for histories from the initial state *)
Theorem no_panic_from_init : forall ops, Z.of_nat (length ops) <= HMAX -> ops_ok t_init ops ->
  let '(outs, sf) := trun t_init ops in
  length outs = length ops /\ Forall (fun o => o <> None) outs /\ TInv sf.
Proof.
  intros ops Hl Hok. pose proof (trun_safe ops t_init 0 TInv_init counters_init ltac:(lia) Hok) as H.
  destruct (trun t_init ops) as [outs sf]. tauto.
Qed.

Lemma next_expiry_after_now s : TInv s ->
  exists r, next_expiry s = Some r /\ (r = None <-> queue s = []) /\ (forall t, r = Some t -> cnow s < t).
Proof.
  intros I. pose proof (next_expiry_ok s I) as E. destruct (queue s) as [|e q] eqn:Eq.
  - exists None. split; [assumption|split; [tauto|discriminate]].
  - eexists. split; [exact E|split; [split; discriminate|]]. intros t Ht. injection Ht as <-.
    pose proof (i_entries s I) as F. rewrite Eq in F. inversion F as [|? ? He _]; subst.
    pose proof (i_cnow s I). destruct (now_facts _ _ _ (TInv_PH s I)) as [Hnow _].
    destruct (entry_T_range (now s) e ltac:(lia) He) as [R _].
    apply inst_after; [lia|]. rewrite <- (i_now s I). assumption.
Qed.

Theorem next_expiry_after_now_reachable : forall ops, Z.of_nat (length ops) <= HMAX -> ops_ok t_init ops ->
  let sf := snd (trun t_init ops) in
  exists r, next_expiry sf = Some r /\ (r = None <-> queue sf = []) /\ (forall t, r = Some t -> cnow sf < t).
Proof.
  intros ops Hl Hok. pose proof (no_panic_from_init ops Hl Hok) as H. cbv zeta.
  destruct (trun t_init ops) as [outs sf]. cbn [snd]. apply next_expiry_after_now. tauto.
Qed.
