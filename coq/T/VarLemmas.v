(** Layer T: the Vec of var slots and its free list; t_ceil / t_floor as integer functions. *)
From Coq Require Import ZArith List Bool Lia Sorting.Sorted.
From Stk Require Import Lib.U Gen.SrcTimers T.Bits T.Model T.Quant T.Ticks T.Inv.
Import ListNotations.
Local Open Scope Z_scope.
Ltac Zify.zify_post_hook ::= Z.div_mod_to_equations.

(** ** vget / vset *)
Lemma nth_vset_nat v i x j :
  nth_error (vset_nat v i x) j =
  if Nat.eqb i j then (if Nat.ltb i (length v) then Some x else None) else nth_error v j.
Proof.
  revert i j. induction v as [|y v IH]; intros i j; cbn [vset_nat length].
  - destruct i; cbn [Nat.ltb Nat.leb]; destruct (Nat.eqb _ j); destruct j; reflexivity.
  - destruct i as [|i]; destruct j as [|j]; cbn [nth_error Nat.eqb]; try reflexivity.
    rewrite IH. destruct (Nat.eqb i j); [|reflexivity].
    change (Nat.ltb (S i) (S (length v))) with (Nat.ltb i (length v)). reflexivity.
Qed.

Lemma vset_nat_length v i x : length (vset_nat v i x) = length v.
Proof. revert i. induction v as [|y v IH]; intros [|i]; cbn [vset_nat length]; auto. Qed.

Lemma vset_length v i x : length (vset v i x) = length v.
Proof. apply vset_nat_length. Qed.

Lemma vget_Some_range v i x : vget v i = Some x -> 0 <= i < Z.of_nat (length v).
Proof.
  unfold vget. destruct (i <? 0) eqn:C; [discriminate|]. intros H.
  assert (nth_error v (Z.to_nat i) <> None) by congruence. apply nth_error_Some in H0. lia.
Qed.

Lemma vget_in_range v i : 0 <= i < Z.of_nat (length v) -> exists x, vget v i = Some x.
Proof.
  intros H. unfold vget. destruct (i <? 0) eqn:C; [lia|].
  destruct (nth_error v (Z.to_nat i)) eqn:E; [eauto|]. apply nth_error_None in E. lia.
Qed.

Lemma vget_vset_same v i x y : vget v i = Some x -> vget (vset v i y) i = Some y.
Proof.
  intros H. pose proof (vget_Some_range _ _ _ H) as R. unfold vget, vset in *.
  destruct (i <? 0) eqn:C; [discriminate|]. rewrite nth_vset_nat, Nat.eqb_refl.
  destruct (Nat.ltb (Z.to_nat i) (length v)) eqn:L; [reflexivity|]. apply Nat.ltb_ge in L. lia.
Qed.

Lemma vget_vset_other v i j y : 0 <= i -> i <> j -> vget (vset v i y) j = vget v j.
Proof.
  intros Hi Hij. unfold vget, vset. destruct (j <? 0) eqn:C; [reflexivity|]. rewrite nth_vset_nat.
  destruct (Nat.eqb (Z.to_nat i) (Z.to_nat j)) eqn:E; [|reflexivity]. apply Nat.eqb_eq in E. lia.
Qed.

Lemma vget_vset v i j x y : vget v i = Some x ->
  vget (vset v i y) j = if i =? j then Some y else vget v j.
Proof.
  intros H. destruct (i =? j) eqn:E.
  - apply Z.eqb_eq in E. subst j. eapply vget_vset_same; eauto.
  - apply Z.eqb_neq in E. apply vget_vset_other; [|assumption]. apply vget_Some_range in H. lia.
Qed.

Lemma vget_app v x i :
  vget (v ++ [x]) i = if i =? Z.of_nat (length v) then Some x else vget v i.
Proof.
  unfold vget. destruct (i <? 0) eqn:C.
  - destruct (Z.eqb_spec i (Z.of_nat (length v))) as [E|E]; [lia|reflexivity].
  - destruct (i =? Z.of_nat (length v)) eqn:E.
    + apply Z.eqb_eq in E. rewrite nth_error_app2 by lia. replace (Z.to_nat i - length v)%nat with O by lia. reflexivity.
    + apply Z.eqb_neq in E. destruct (Z.lt_ge_cases i (Z.of_nat (length v))) as [L|L].
      * rewrite nth_error_app1 by lia. reflexivity.
      * assert (nth_error (v ++ [x]) (Z.to_nat i) = None) as ->.
        { apply nth_error_None. rewrite app_length. cbn [length]. lia. }
        symmetry. apply nth_error_None. lia.
Qed.

(** ** the free list *)
Lemma chain_ext v v' f l : (forall i, In i l -> vget v' i = vget v i) -> chain v f l -> chain v' f l.
Proof.
  intros H C. induction C as [|i vs nx l Hg Hi C IH]; [constructor|].
  econstructor; [rewrite H; [eassumption|left; reflexivity]|eassumption|].
  apply IH. intros j Hj. apply H. right. assumption.
Qed.

Lemma chain_None v l : chain v None l -> l = [].
Proof. intros C. inversion C. reflexivity. Qed.

Lemma chain_Some v i l : chain v (Some i) l ->
  exists vs nx l', l = i :: l' /\ vget v i = Some vs /\ item vs = VFree nx /\ chain v nx l'.
Proof. intros C. inversion C; subst. eauto 8. Qed.

Lemma chain_range v f l : chain v f l -> forall i, In i l -> 0 <= i.
Proof.
  intros C. induction C as [|i vs nx l Hg Hi C IH]; intros j Hj; [destruct Hj|].
  destruct Hj as [<-|Hj]; [apply vget_Some_range in Hg; lia|auto].
Qed.

(** a live slot is overwritten by a live slot *)
Lemma free_okv_set_live v f i vs x :
  free_okv v f -> vget v i = Some vs -> is_free vs = false -> is_free x = false ->
  free_okv (vset v i x) f.
Proof.
  intros (l & C & N & F) Hg Hl Hx. exists l. split; [|split; [assumption|]].
  - apply chain_ext with v; [|assumption]. intros j Hj. rewrite (vget_vset _ _ _ _ _ Hg).
    destruct (i =? j) eqn:E; [|reflexivity]. apply Z.eqb_eq in E. subst j.
    apply (F i vs Hg) in Hj. congruence.
  - intros j vs' Hj. rewrite (vget_vset _ _ _ _ _ Hg) in Hj. destruct (i =? j) eqn:E.
    + apply Z.eqb_eq in E. subst j. injection Hj as <-. rewrite Hx. split; [discriminate|].
      intros Hin. apply (F i vs Hg) in Hin. congruence.
    + auto.
Qed.

(** free_slot: a live slot becomes the head of the free list *)
Lemma free_okv_free v f i vs g :
  free_okv v f -> vget v i = Some vs -> is_free vs = false ->
  free_okv (vset v i (mkVS g (VFree f))) (Some i).
Proof.
  intros (l & C & N & F) Hg Hl.
  assert (Hni : ~ In i l) by (intros Hin; apply (F i vs Hg) in Hin; congruence).
  exists (i :: l). split; [|split].
  - econstructor; [eapply vget_vset_same; eauto|reflexivity|].
    apply chain_ext with v; [|assumption]. intros j Hj. rewrite (vget_vset _ _ _ _ _ Hg).
    destruct (i =? j) eqn:E; [|reflexivity]. apply Z.eqb_eq in E. subst j. contradiction.
  - constructor; assumption.
  - intros j vs' Hj. rewrite (vget_vset _ _ _ _ _ Hg) in Hj. destruct (i =? j) eqn:E.
    + apply Z.eqb_eq in E. subst j. injection Hj as <-. cbn. split; auto.
    + apply Z.eqb_neq in E. rewrite (F j vs' Hj). cbn [In]. intuition congruence.
Qed.

(** alloc_slot from the free list *)
Lemma free_okv_alloc v i x :
  free_okv v (Some i) -> is_free x = false ->
  exists vs nx, vget v i = Some vs /\ item vs = VFree nx /\ free_okv (vset v i x) nx.
Proof.
  intros (l & C & N & F) Hx. apply chain_Some in C. destruct C as (vs & nx & l' & -> & Hg & Hi & C).
  exists vs, nx. split; [assumption|split; [assumption|]].
  inversion N as [|? ? Hni N']; subst. exists l'. split; [|split; [assumption|]].
  - apply chain_ext with v; [|assumption]. intros j Hj. rewrite (vget_vset _ _ _ _ _ Hg).
    destruct (i =? j) eqn:E; [|reflexivity]. apply Z.eqb_eq in E. subst j. contradiction.
  - intros j vs' Hj. rewrite (vget_vset _ _ _ _ _ Hg) in Hj. destruct (i =? j) eqn:E.
    + apply Z.eqb_eq in E. subst j. injection Hj as <-. rewrite Hx. split; [discriminate|contradiction].
    + apply Z.eqb_neq in E. rewrite (F j vs' Hj). cbn [In]. intuition congruence.
Qed.

(** alloc_slot by push *)
Lemma free_okv_push v x : free_okv v None -> is_free x = false -> free_okv (v ++ [x]) None.
Proof.
  intros (l & C & N & F) Hx. apply chain_None in C. subst l. exists []. split; [constructor|split; [constructor|]].
  intros j vs' Hj. rewrite vget_app in Hj. destruct (j =? Z.of_nat (length v)).
  - injection Hj as <-. rewrite Hx. split; [discriminate|intros []].
  - auto.
Qed.

Lemma free_okv_None_live v i vs : free_okv v None -> vget v i = Some vs -> is_free vs = false.
Proof.
  intros (l & C & N & F) Hg. apply chain_None in C. subst l. destruct (is_free vs) eqn:E; [|reflexivity].
  apply (F i vs Hg) in E. destruct E.
Qed.

(** ** instants to ticks *)
Lemma t_ceil_spec ns : ns < TMAX -> t_ceil ns = Some (ceil_ns ns).
Proof.
  intros H. unfold t_ceil, ceil_ns, dur_secs, dur_nanos, NS, NSs, TMAX in *. apply new_ceil_spec; lia.
Qed.
Lemma t_floor_spec ns : ns < TMAX -> t_floor ns = Some (floor_ns ns).
Proof.
  intros H. unfold t_floor, floor_ns, dur_secs, dur_nanos, NS, NSs, TMAX in *. apply new_floor_spec; lia.
Qed.

Lemma t_instant_spec t : 0 <= t < 2 ^ 63 -> t_instant t = Some (inst t).
Proof. intros H. unfold t_instant. rewrite instant_spec by assumption. reflexivity. Qed.

Lemma lor_fixed_bit sq : 0 <= sq < 2147483648 -> Z.lor sq 2147483648 = sq + 2147483648.
Proof.
  intros H. rewrite Z.lor_comm. change 2147483648 with (1 * 2 ^ 31) at 1.
  rewrite lor_disjoint_add by (change (2 ^ 31) with 2147483648; lia). change (2 ^ 31) with 2147483648. lia.
Qed.

(** WrapTime::time (base = now) agrees with Tof (base = now + 1) inside the window *)
Lemma unwrap_Tof now wt : 0 <= now -> 0 <= wt < M32 -> Tof now wt <= now + WIN -> unwrap wt now = Tof now wt.
Proof.
  intros Hn Hw Hb. unfold Tof, unwrap, M32, WIN in *.
  destruct (now - now mod 4294967296 + wt <? now) eqn:C1; destruct (now + 1 - (now + 1) mod 4294967296 + wt <? now + 1) eqn:C2; lia.
Qed.
