(** Layer T: the relation between the model state (T/Model.v) and the specification state
    (T/Spec.v), the class of histories the property theorems quantify over ([good]), and the
    potential function behind the drain-budget clause of C09.  Definitions only. *)
From Coq Require Import ZArith List Bool Lia.
From Stk Require Import Lib.U Gen.SrcTimers T.Model T.Spec T.Quant T.Ticks T.Inv.
Import ListNotations.
Local Open Scope Z_scope.

(** the latest tick at which the queue key of a pending timer may stand *)
Definition Bt (t : tinfo) : Z := Z.max (ceil_ns (ti_eff t)) (floor_ns (ti_tset t) + 1).

Definition item_for (k : tkind) (ex c : Z) : vitem :=
  match k with KMin => VMin ex c | _ => VMax ex c end.

(** timer [t] of the specification is represented by queue entry [e] *)
Definition tied (now0 : Z) (s : tstate) (t : tinfo) (e : entry) : Prop :=
  ti_id t = e_cb e /\ ti_slot t = e_slot e /\
  ((FIX <= e_slot e /\ ti_kind t = KFixed /\ ti_g t = e_wt e /\ Tof now0 (e_wt e) = Bt t) \/
   (e_slot e < FIX /\
    exists c, vget (var s) (e_slot e) = Some (mkVS (ti_g t) (item_for (ti_kind t) (ceil_ns (ti_eff t)) c)) /\
              c <= Bt t /\ e_wt e = c mod M32)).

Definition is_pend (t : tinfo) : Prop := ti_stat t = Pending.

(** [bf]: the history is free of the near-boundary band (known finding F6) *)
Record RelH (bf : bool) (now0 : Z) (s : tstate) (hd : list entry) (l : list tinfo) : Prop := mkRelH {
  r_q2t : forall e, In e (hd ++ queue s) -> exists t, In t l /\ is_pend t /\ tied now0 s t e;
  r_t2q : forall t, In t l -> is_pend t -> exists e, In e (hd ++ queue s) /\ tied now0 s t e;
  r_ids : NoDup (map ti_id l);
  r_ns : NoDup (map ti_n l);
  r_dead_var : forall t, In t l -> ~ is_pend t -> ti_slot t < FIX ->
               exists vs, vget (var s) (ti_slot t) = Some vs /\ ti_g t < gnn vs;
  r_dead_fix : forall t, In t l -> ~ is_pend t -> FIX <= ti_slot t ->
               forall e, In e (hd ++ queue s) -> e_slot e <> ti_slot t;
  r_fix_seq : forall t, In t l -> FIX <= ti_slot t -> ti_slot t <= seq s + FIX;
  r_fix_mono : forall t1 t2, In t1 l -> In t2 l -> FIX <= ti_slot t1 -> FIX <= ti_slot t2 ->
               ti_n t1 < ti_n t2 -> ti_slot t1 < ti_slot t2;
  r_tset : forall t, In t l -> 0 <= ti_tset t <= cnow s;
  r_fixed_eff : forall t, In t l -> ti_kind t = KFixed -> ti_eff t = ti_eff0 t /\ ti_tset t = ti_t0 t;
  r_band : bf = true -> forall t, In t l -> ti_kind t = KFixed ->
           ti_eff0 t < ti_t0 t + NEAR -> FIX <= ti_slot t
}.

(** ** the drain potential: an upper bound on the number of queue-entry evaluations left *)
Definition phi (d : Z) : Z := Z.log2 (2 * Z.max 0 d + 1) + 1 + (2 * Z.max 0 d) / WIN.

Definition pterm (s : tstate) (t : tinfo) : Z :=
  if FIX <=? ti_slot t then 1
  else match vget (var s) (ti_slot t) with
       | Some vs => match curr_of vs, expiry_of vs with
                    | Some c, Some ex => phi (ex - c)
                    | _, _ => 0
                    end
       | None => 0
       end.

Definition Phi (s : tstate) (l : list tinfo) : Z :=
  fold_right (fun t acc => acc + pterm s t) 0 (pending l).

(** ** the relation at operation boundaries *)
Record Rel (bf : bool) (s : tstate) (sp : sstate) : Prop := mkRel {
  rl_h : RelH bf (now s) s [] (s_timers sp);
  rl_cnow : s_cnow sp = cnow s /\ 0 <= cnow s < 2 ^ 61;
  rl_count : forall t, In t (s_timers sp) -> 0 <= ti_n t < s_count sp;
  rl_ne : forall r, s_last_ne sp = Some r -> next_expiry s = Some r;
  rl_drain : 0 <= s_drain sp /\ 0 <= s_budget sp /\
             (s_drain sp = 0 \/ s_drain sp + Phi s (s_timers sp) <= s_budget sp)
}.

(** ** histories *)
Definition hist (s : tstate) (ops : list top) : list (top * option tout) :=
  combine ops (fst (trun s ops)).

Definition op_cbs (o : top) : list Z :=
  match o with OAdd _ cb | OAfter _ cb | OAddMax _ cb | OAddMin _ cb => [cb] | _ => [] end.
Definition ops_cbs (ops : list top) : list Z := flat_map op_cbs ops.

(** instants and durations below 2^61 ns (durations non-negative) *)
Definition op_bounds (o : top) : Prop :=
  match o with
  | OAdd ns _ | OAddMax ns _ | OAddMin ns _ | OModMax _ _ _ ns | OModMin _ _ _ ns
  | ORun ns | ONextWait ns => ns < 2 ^ 61
  | OAfter dur _ => 0 <= dur < 2 ^ 61
  | ONextWaitMax ns maxdur _ => ns < 2 ^ 61 /\ 0 <= maxdur < 2 ^ 61
  | _ => True
  end.

(** the table of keys issued so far: (op index, kind, slot, g), most recent first *)
Definition kentry := (Z * tkind * Z * Z)%type.
Fixpoint klookup (k : tkind) (kref : Z) (tbl : list kentry) : option (Z * Z) :=
  match tbl with
  | [] => None
  | (n, k', sl, g) :: r => if kind_eqb k' k && (n =? kref) then Some (sl, g) else klookup k kref r
  end.
(** a key op uses the key issued by op [kref] of the right kind, or the Default key with kref = -1 *)
Definition key_ok (k : tkind) (kref slot g : Z) (tbl : list kentry) : bool :=
  match klookup k kref tbl with
  | Some (sl, g') => (slot =? sl) && (g =? g')
  | None => (kref =? -1) && (slot =? 0) && (g =? 0)
  end.
Definition op_key_ok (o : top) (tbl : list kentry) : bool :=
  match o with
  | ODel kref sl g => key_ok KFixed kref sl g tbl
  | OModMax kref sl g _ | ODelMax kref sl g | OActMax kref sl g => key_ok KMax kref sl g tbl
  | OModMin kref sl g _ | ODelMin kref sl g | OActMin kref sl g => key_ok KMin kref sl g tbl
  | _ => true
  end.
Definition tbl_step (n : Z) (o : top) (out : option tout) (tbl : list kentry) : list kentry :=
  match o, out with
  | OAdd _ _, Some (RKey sl g) | OAfter _ _, Some (RKey sl g) => (n, KFixed, sl, g) :: tbl
  | OAddMax _ _, Some (RKey sl g) => (n, KMax, sl, g) :: tbl
  | OAddMin _ _, Some (RKey sl g) => (n, KMin, sl, g) :: tbl
  | _, _ => tbl
  end.
Fixpoint wellkeyed_from (n : Z) (tbl : list kentry) (h : list (top * option tout)) : bool :=
  match h with
  | [] => true
  | (o, out) :: r => op_key_ok o tbl && wellkeyed_from (n + 1) (tbl_step n o out tbl) r
  end.
Definition wellkeyed (h : list (top * option tout)) : bool := wellkeyed_from 0 [] h.

(** the class of histories of the property theorems *)
Definition good (ops : list top) : Prop :=
  Z.of_nat (length ops) < HMAX /\ Forall op_bounds ops /\ uses_poke ops = false /\
  NoDup (ops_cbs ops) /\ wellkeyed (model_history ops) = true.

(** no fixed timer is created within two steps below 32767 s ahead (known finding F6) *)
Definition op_band_ok (cn : Z) (o : top) : bool :=
  match o with
  | OAdd ns _ => negb ((cn + NEAR - 2 * STEP <=? ns) && (ns <? cn + NEAR))
  | OAfter dur _ => negb ((cn + NEAR - 2 * STEP <=? cn + dur) && (cn + dur <? cn + NEAR))
  | _ => true
  end.
Fixpoint band_free_from (cn : Z) (h : list (top * option tout)) : bool :=
  match h with
  | [] => true
  | (o, _) :: r =>
      op_band_ok cn o && band_free_from (match o with ORun ns => Z.max cn ns | _ => cn end) r
  end.
Definition band_free (ops : list top) : Prop := band_free_from 0 (model_history ops) = true.

(** the verdict bits proved for every operation ([v19] only for band-free histories) *)
Definition vgood (bf : bool) (v : verdict) : Prop :=
  v07 v = true /\ v08 v = true /\ v09 v = true /\ v10 v = true /\ v15 v = true /\ (bf = true -> v19 v = true).

Definition ktbl (l : list tinfo) : list kentry := map (fun t => (ti_n t, ti_kind t, ti_slot t, ti_g t)) l.

(** order of fixed-path timers: by key tick, then slot *)
Definition tlt (a b : tinfo) : Prop := Bt a < Bt b \/ (Bt a = Bt b /\ ti_slot a < ti_slot b).
