(** Layer T: witness histories.  The hypotheses of the property theorems are necessary (known
    findings F2, F3, F6 reproduce in the model when the corresponding hypothesis is dropped) and
    satisfiable (a non-trivial good history). *)
From Coq Require Import ZArith List Bool Lia.
From Stk Require Import Lib.U Gen.SrcTimers T.Model T.Spec T.Inv T.InvProofs T.Rel.
Import ListNotations.
Local Open Scope Z_scope.

Ltac nodup_tac := repeat (constructor; [cbn [In]; intuition discriminate|]); constructor.
Ltac bounds_tac := repeat (constructor; [cbn [op_bounds]; try exact I; lia|]); constructor.

(** F2 (GenWrap): corpus/t/F2-genwrap.txt.  The poke stands for the 2^32 - 2 add/delete cycles
    that bring the generation of slot 0 next to its wrap. *)
Definition f2_ops : list top :=
  [OAddMax 100000000000 1; ODelMax 0 0 1; OPokeGnn 0 4294967295; OAddMax 100000000000 2;
   ODelMax 3 0 4294967295; OAddMin 100000000000 3; OActMax 0 0 1].
Lemma F2_witness :
  Z.of_nat (length f2_ops) < HMAX /\ Forall op_bounds f2_ops /\ NoDup (ops_cbs f2_ops) /\
  wellkeyed (model_history f2_ops) = true /\ uses_poke f2_ops = true /\
  v10 (mon_all (model_history f2_ops)) = false.
Proof. split; [vm_compute; reflexivity|split; [unfold f2_ops; bounds_tac|split; [cbn; nodup_tac|vm_compute; auto]]]. Qed.

(** F3 (SeqWrap): corpus/t/F3-seqwrap.txt and F3-seqwrap-alias.txt *)
Definition f3_ops : list top :=
  [OPokeSeq 2147483646; OAdd 100000000000 1; OAdd 100000000000 2; ORun 200000000000].
Lemma F3_witness :
  Z.of_nat (length f3_ops) < HMAX /\ Forall op_bounds f3_ops /\ NoDup (ops_cbs f3_ops) /\
  wellkeyed (model_history f3_ops) = true /\ uses_poke f3_ops = true /\ band_free f3_ops /\
  v19 (mon_all (model_history f3_ops)) = false.
Proof. split; [vm_compute; reflexivity|split; [unfold f3_ops; bounds_tac|split; [cbn; nodup_tac|vm_compute; auto]]]. Qed.

Definition f3a_ops : list top :=
  [OAdd 100000000000 1; ODel 0 2147483649 6553600; OPokeSeq 2147483648; OAdd 100000000000 2;
   ODel 0 2147483649 6553600].
Lemma F3_alias_witness :
  Z.of_nat (length f3a_ops) < HMAX /\ Forall op_bounds f3a_ops /\ NoDup (ops_cbs f3a_ops) /\
  wellkeyed (model_history f3a_ops) = true /\ uses_poke f3a_ops = true /\
  v10 (mon_all (model_history f3a_ops)) = false.
Proof. split; [vm_compute; reflexivity|split; [unfold f3a_ops; bounds_tac|split; [cbn; nodup_tac|vm_compute; auto]]]. Qed.

(** F6 (NearBoundaryVar): corpus/t/F6-nearboundary.txt: a good history, not band-free *)
Definition f6_ops : list top :=
  [ORun 500000000; OAddMax 5000000000 1; OAddMax 5000000000 2; ODelMax 1 0 1; ODelMax 2 1 1;
   OAdd 32767499999950 3; OAdd 32767499999950 4; ORun 32768000000000].
Lemma F6_witness :
  good f6_ops /\ band_free_from 0 (model_history f6_ops) = false /\
  v19 (mon_all (model_history f6_ops)) = false.
Proof.
  split; [|vm_compute; auto].
  split; [vm_compute; reflexivity|split; [unfold f6_ops; bounds_tac|split; [reflexivity|split; [cbn; nodup_tac|vm_compute; reflexivity]]]].
Qed.

(** a non-trivial good, band-free history: all three kinds, updates in both directions (one of
    them a Min update into the past: the fixed finding F1), a long fixed timer that lives in a var
    slot, deletes, a Default key, queries, a run at exactly next_expiry (a drain round that re-queues), runs over several 9-hour periods *)
Definition good_ops : list top :=
  [ ORun 10000000000; OAddMin 100000000000 1; OModMin 1 0 1 5000000000; ONextExpiry; ORun 11000000000;
    OAdd 12000000000 2; OAfter 40000000000000 3; OAddMax 13000000000 4; OModMax 7 1 1 90000000000000;
    OAddMin 500000000000 5; OModMin 9 2 1 20000000000; ODel 5 2147483649 786432; ODelMax (-1) 0 0;
    OActMin 9 2 1; ONextWait 11500000000; ONextWaitMax 11500000000 1000 false;
    ORun 12500000000; ORun 40000000000; ONextExpiry; ORun 32778000000000; ONextExpiry;
    ORun 150000000000000; ONextExpiry; ONow ].
Lemma good_ops_good : good good_ops /\ band_free good_ops.
Proof.
  split; [|vm_compute; reflexivity].
  split; [vm_compute; reflexivity|split; [unfold good_ops; bounds_tac|split; [reflexivity|split; [cbn; nodup_tac|vm_compute; reflexivity]]]].
Qed.
Lemma good_ops_verdict : v_all (mon_all (model_history good_ops)) = true.
Proof. vm_compute. reflexivity. Qed.
Lemma good_ops_outputs :
  fst (trun t_init good_ops) =
  [ Some (RFired []); Some (RKey 0 1); Some (RBool true); Some (ROptNs (Some 10000016384)); Some (RFired [1]);
    Some (RKey 2147483649 786432); Some (RKey 0 2); Some (RKey 1 1); Some (RBool true);
    Some (RKey 2 1); Some (RBool true); Some (RBool true); Some (RBool false);
    Some (RBool true); Some (ROptNs (Some 1500000000)); Some (RNs 1000);
    Some (RFired []); Some (RFired [5]); Some (ROptNs (Some 32778000000000)); Some (RFired []);
    Some (ROptNs (Some 32807000000000)); Some (RFired [4; 3]); Some (ROptNs None); Some (RNs 150000000000000) ].
Proof. vm_compute. reflexivity. Qed.

(** the same history is admissible in the sense of the no-panic theorem (T/InvProofs.v) *)
Lemma good_ops_ops_ok : Z.of_nat (length good_ops) <= HMAX /\ InvProofs.ops_ok t_init good_ops.
Proof. vm_compute. repeat split; try reflexivity; try discriminate. Qed.
