(** Layer T: the relation [RelH] between model and specification is preserved by the moves the
    operations are composed of: re-tying a var timer to a new key / new expiry, retiring a timer
    (fired or deleted), creating a timer, and the bookkeeping steps of [advance]. *)
From Coq Require Import ZArith List Bool Lia Sorting.Sorted.
From Stk Require Import Lib.U Gen.SrcTimers T.Bits T.Model T.Spec T.Quant T.Ticks T.Inv T.QueueLemmas
  T.VarLemmas T.InvProofs T.Rel T.RelArith T.SpecLemmas.
Import ListNotations.
Local Open Scope Z_scope.
Ltac Zify.zify_post_hook ::= Z.div_mod_to_equations.

(** ** entries are determined by their var slot / by the timer tied to them *)
Lemma hd_distinct_unique l a b : hd_distinct l -> In a l -> In b l -> e_slot a = e_slot b -> e_slot a < FIX -> a = b.
Proof.
  induction 1 as [|e l Hd Hl IH]; intros Ha Hb E V; [destruct Ha|].
  destruct Ha as [<-|Ha], Hb as [<-|Hb]; auto.
  - exfalso. eapply (Hd V b Hb). congruence.
  - exfalso. eapply (Hd ltac:(lia) a Ha). congruence.
Qed.

Lemma PH_slot_unique now0 s hd e1 e2 : PH now0 s hd ->
  In e1 (hd ++ queue s) -> In e2 (hd ++ queue s) -> e_slot e1 = e_slot e2 -> e_slot e1 < FIX -> e1 = e2.
Proof.
  intros P H1 H2 E V. apply in_app_or in H1. apply in_app_or in H2. destruct H1 as [H1|H1], H2 as [H2|H2].
  - eapply hd_distinct_unique; eauto. apply (h_dist _ _ _ P).
  - exfalso. eapply (h_disj _ _ _ P e1 e2); eauto.
  - exfalso. eapply (h_disj _ _ _ P e2 e1); eauto. lia.
  - destruct (h_varq _ _ _ P e1 H1 V) as (v1 & c1 & A1 & A2 & A3).
    destruct (h_varq _ _ _ P e2 H2 ltac:(lia)) as (v2 & c2 & B1 & B2 & B3).
    rewrite <- E, A1 in B1. injection B1 as <-. rewrite A2 in B2. injection B2 as <-.
    eapply qok_key_unique; [apply (PH_qok _ _ _ P)|assumption|assumption|]. split; congruence.
Qed.

Lemma tied_inj now0 s hd t e1 e2 : PH now0 s hd -> In e1 (hd ++ queue s) -> In e2 (hd ++ queue s) ->
  tied now0 s t e1 -> tied now0 s t e2 -> e1 = e2.
Proof.
  intros P H1 H2 (I1 & S1 & K1) (I2 & S2 & K2).
  destruct K1 as [(F1 & _ & G1 & _)|(V1 & _)].
  - destruct K2 as [(F2 & _ & G2 & _)|(V2 & _)]; [|lia].
    destruct e1 as [[w1 s1] c1], e2 as [[w2 s2] c2]. cbn [e_wt e_slot e_cb fst snd] in *. congruence.
  - eapply PH_slot_unique; eauto. congruence.
Qed.

Lemma tied_ext now0 s s' t e : vget (var s') (e_slot e) = vget (var s) (e_slot e) -> tied now0 s t e -> tied now0 s' t e.
Proof.
  intros E (I1 & S1 & K). split; [assumption|split; [assumption|]]. destruct K as [K|(V & c & K)]; [left; assumption|].
  right. split; [assumption|]. exists c. rewrite E. assumption.
Qed.

Lemma NoDup_ids_eq l x y : NoDup (map ti_id l) -> In x l -> In y l -> ti_id x = ti_id y -> x = y.
Proof. apply NoDup_map_inj. Qed.

(** ** re-tying a var timer: its slot content, its queue entry and its specification record
    change together; everything else is untouched *)
Lemma relh_retie bf now0 s hd l1 t l2 e s' hd' t' e' :
  RelH bf now0 s hd (l1 ++ t :: l2) -> PH now0 s hd ->
  is_pend t -> tied now0 s t e -> In e (hd ++ queue s) -> e_slot e < FIX ->
  ti_id t' = ti_id t -> ti_slot t' = ti_slot t -> ti_g t' = ti_g t -> ti_kind t' = ti_kind t ->
  ti_n t' = ti_n t -> ti_stat t' = ti_stat t -> ti_eff0 t' = ti_eff0 t -> ti_t0 t' = ti_t0 t ->
  (ti_kind t' = KFixed -> ti_eff t' = ti_eff t /\ ti_tset t' = ti_tset t) ->
  0 <= ti_tset t' <= cnow s' -> cnow s <= cnow s' -> seq s' = seq s ->
  (forall y, In y (hd' ++ queue s') <-> y = e' \/ (In y (hd ++ queue s) /\ y <> e)) ->
  e_slot e' = e_slot e ->
  (forall j, j <> e_slot e -> vget (var s') j = vget (var s) j) ->
  tied now0 s' t' e' ->
  RelH bf now0 s' hd' (l1 ++ t' :: l2).
Proof.
  intros R P Hp Ht He Hv Eid Eslot Eg Ekind En Estat Eeff0 Et0 Efix Hts Hcn Hseq Hmem Hsl Hoth Ht'.
  assert (Hgi : forall x, In x (l1 ++ l2) -> In x (l1 ++ t :: l2)) by (intros x Hx; apply in_mid; right; assumption).
  assert (Htl : In t (l1 ++ t :: l2)) by (apply in_mid; left; reflexivity).
  assert (Hne : forall x, In x (l1 ++ l2) -> ti_id x <> ti_id t) by (apply NoDup_mid_notin; apply (r_ids _ _ _ _ _ R)).
  (* an entry other than e is tied to a timer other than t, and its tie survives *)
  assert (Hkeep : forall x y, In x (l1 ++ l2) -> In y (hd ++ queue s) -> tied now0 s x y -> y <> e /\ tied now0 s' x y).
  { intros x y Hx Hy Hxy. assert (Hye : y <> e).
    { intros ->. apply (Hne x Hx). destruct Hxy as (A & _). destruct Ht as (B & _). congruence. }
    split; [assumption|]. destruct (Z.eq_dec (e_slot y) (e_slot e)) as [Es|Es].
    - exfalso. apply Hye. eapply PH_slot_unique; eauto. lia.
    - eapply tied_ext; [|eassumption]. apply Hoth. assumption. }
  destruct R. constructor.
  - intros y Hy. apply Hmem in Hy. destruct Hy as [->|[Hy Hye]].
    + exists t'. split; [apply in_mid; left; reflexivity|]. split; [unfold is_pend in *; congruence|assumption].
    + destruct (r_q2t y Hy) as (x & Hx & Hxp & Hxy). apply in_mid in Hx. destruct Hx as [->|Hx].
      * exfalso. apply Hye. eapply tied_inj; eauto.
      * exists x. split; [apply in_mid; right; assumption|]. split; [assumption|]. eapply Hkeep; eauto.
  - intros x Hx Hxp. apply in_mid in Hx. destruct Hx as [->|Hx].
    + exists e'. split; [apply Hmem; left; reflexivity|assumption].
    + destruct (r_t2q x (Hgi x Hx) Hxp) as (y & Hy & Hxy). destruct (Hkeep x y Hx Hy Hxy) as [Hye Hxy'].
      exists y. split; [apply Hmem; right; split; assumption|assumption].
  - rewrite (map_replace ti_id l1 t t' l2) by assumption. assumption.
  - rewrite (map_replace ti_n l1 t t' l2) by assumption. assumption.
  - intros x Hx Hxp Hxv. apply in_mid in Hx. destruct Hx as [->|Hx]; [exfalso; apply Hxp; unfold is_pend in *; congruence|].
    destruct (r_dead_var x (Hgi x Hx) Hxp Hxv) as (vs & Hg & Hlt).
    destruct (Z.eq_dec (ti_slot x) (e_slot e)) as [Es|Es]; [|exists vs; rewrite Hoth by assumption; auto].
    destruct Ht as (_ & _ & [(F & _)|(_ & c & Hc & _)]); [lia|].
    destruct Ht' as (_ & _ & [(F & _)|(_ & c' & Hc' & _)]); [lia|].
    rewrite Es, Hc in Hg. injection Hg as <-. cbn [gnn] in Hlt.
    eexists. rewrite Es, <- Hsl. split; [exact Hc'|]. cbn [gnn]. lia.
  - intros x Hx Hxp Hxf y Hy. apply in_mid in Hx. destruct Hx as [->|Hx]; [exfalso; apply Hxp; unfold is_pend in *; congruence|].
    apply Hmem in Hy. destruct Hy as [->|[Hy _]]; [lia|]. apply (r_dead_fix x (Hgi x Hx) Hxp Hxf y Hy).
  - intros x Hx Hxf. rewrite Hseq. apply in_mid in Hx. destruct Hx as [->|Hx]; [rewrite Eslot in *; auto|auto].
  - intros x1 x2 H1 H2. apply in_mid in H1. apply in_mid in H2.
    destruct H1 as [->|H1], H2 as [->|H2]; rewrite ?Eslot, ?En; auto.
  - intros x Hx. apply in_mid in Hx. destruct Hx as [->|Hx]; [assumption|]. specialize (r_tset x (Hgi x Hx)). lia.
  - intros x Hx Hk. apply in_mid in Hx. destruct Hx as [->|Hx]; [|auto].
    destruct (Efix Hk) as [-> ->]. rewrite Eeff0, Et0. apply r_fixed_eff; [assumption|congruence].
  - intros Hb x Hx Hk. apply in_mid in Hx. destruct Hx as [->|Hx]; [|auto].
    rewrite Eeff0, Et0, Eslot. apply r_band; [assumption|assumption|congruence].
Qed.

(** ** retiring a timer (fired or deleted): its entry leaves, its var slot (if any) is freed *)
Lemma relh_kill bf now0 s hd l1 t l2 e s' hd' st :
  RelH bf now0 s hd (l1 ++ t :: l2) -> PH now0 s hd ->
  is_pend t -> tied now0 s t e -> In e (hd ++ queue s) -> st <> Pending ->
  cnow s <= cnow s' -> seq s' = seq s ->
  (forall y, In y (hd' ++ queue s') <-> In y (hd ++ queue s) /\ y <> e) ->
  (forall j, j <> e_slot e \/ FIX <= e_slot e -> vget (var s') j = vget (var s) j) ->
  (e_slot e < FIX -> exists vs', vget (var s') (e_slot e) = Some vs' /\ ti_g t < gnn vs') ->
  RelH bf now0 s' hd' (l1 ++ set_stat st t :: l2).
Proof.
  intros R P Hp Ht He Hst Hcn Hseq Hmem Hoth Hfree.
  set (t' := set_stat st t).
  assert (Hgi : forall x, In x (l1 ++ l2) -> In x (l1 ++ t :: l2)) by (intros x Hx; apply in_mid; right; assumption).
  assert (Htl : In t (l1 ++ t :: l2)) by (apply in_mid; left; reflexivity).
  assert (Hne : forall x, In x (l1 ++ l2) -> ti_id x <> ti_id t) by (apply NoDup_mid_notin; apply (r_ids _ _ _ _ _ R)).
  assert (Hdead : ~ is_pend t') by (unfold is_pend, t'; cbn; assumption).
  assert (Hkeep : forall x y, In x (l1 ++ l2) -> In y (hd ++ queue s) -> tied now0 s x y -> y <> e /\ tied now0 s' x y).
  { intros x y Hx Hy Hxy. assert (Hye : y <> e).
    { intros ->. apply (Hne x Hx). destruct Hxy as (A & _). destruct Ht as (B & _). congruence. }
    split; [assumption|]. eapply tied_ext; [|eassumption]. apply Hoth.
    destruct (Z.eq_dec (e_slot y) (e_slot e)) as [Es|Es]; [|left; assumption].
    destruct (Z.lt_ge_cases (e_slot e) FIX) as [V|F]; [|right; assumption].
    exfalso. apply Hye. eapply PH_slot_unique; eauto. lia. }
  destruct R. constructor.
  - intros y Hy. apply Hmem in Hy. destruct Hy as [Hy Hye].
    destruct (r_q2t y Hy) as (x & Hx & Hxp & Hxy). apply in_mid in Hx. destruct Hx as [->|Hx].
    + exfalso. apply Hye. eapply tied_inj; eauto.
    + exists x. split; [apply in_mid; right; assumption|]. split; [assumption|]. eapply Hkeep; eauto.
  - intros x Hx Hxp. apply in_mid in Hx. destruct Hx as [->|Hx]; [contradiction|].
    destruct (r_t2q x (Hgi x Hx) Hxp) as (y & Hy & Hxy). destruct (Hkeep x y Hx Hy Hxy) as [Hye Hxy'].
    exists y. split; [apply Hmem; split; assumption|assumption].
  - rewrite (map_replace ti_id l1 t t' l2) by reflexivity. assumption.
  - rewrite (map_replace ti_n l1 t t' l2) by reflexivity. assumption.
  - intros x Hx Hxp Hxv. apply in_mid in Hx. destruct Hx as [->|Hx].
    + cbn [t' set_stat ti_slot ti_g] in *. destruct Ht as (_ & Es & _). rewrite Es in *. apply Hfree. assumption.
    + destruct (r_dead_var x (Hgi x Hx) Hxp Hxv) as (vs & Hg & Hlt).
      destruct (Z.eq_dec (ti_slot x) (e_slot e)) as [Es|Es]; [|exists vs; rewrite Hoth by (left; assumption); auto].
      destruct (Hfree ltac:(lia)) as (vs' & Hg' & Hlt').
      destruct Ht as (_ & _ & [(F & _)|(_ & c & Hc & _)]); [lia|].
      rewrite Es, Hc in Hg. injection Hg as <-. cbn [gnn] in Hlt. exists vs'. rewrite Es. split; [assumption|lia].
  - intros x Hx Hxp Hxf y Hy. apply Hmem in Hy. destruct Hy as [Hy Hye]. apply in_mid in Hx. destruct Hx as [->|Hx].
    + cbn [t' set_stat ti_slot] in *. intros Es.
      (* another entry with the same fixed slot would belong to a timer with the same slot *)
      destruct (r_q2t y Hy) as (x & Hx & Hxp' & Hxy). apply in_mid in Hx. destruct Hx as [->|Hx].
      * apply Hye. eapply tied_inj; eauto.
      * destruct Hxy as (_ & Sx & _). destruct Ht as (_ & St & _).
        assert (Sxt : ti_slot x = ti_slot t) by congruence.
        destruct (Z.lt_trichotomy (ti_n x) (ti_n t)) as [L|[L|L]].
        -- pose proof (r_fix_mono x t (Hgi x Hx) Htl ltac:(lia) ltac:(lia) L). lia.
        -- apply (NoDup_mid_notin ti_n l1 t l2 r_ns x Hx L).
        -- pose proof (r_fix_mono t x Htl (Hgi x Hx) ltac:(lia) ltac:(lia) L). lia.
    + apply (r_dead_fix x (Hgi x Hx) Hxp Hxf y Hy).
  - intros x Hx Hxf. rewrite Hseq. apply in_mid in Hx. destruct Hx as [->|Hx]; [apply (r_fix_seq t Htl); assumption|auto].
  - intros x1 x2 H1 H2. apply in_mid in H1. apply in_mid in H2.
    destruct H1 as [->|H1], H2 as [->|H2]; cbn [t' set_stat ti_slot ti_n]; auto.
  - intros x Hx. apply in_mid in Hx. destruct Hx as [->|Hx]; [specialize (r_tset t Htl); cbn; lia|specialize (r_tset x (Hgi x Hx)); lia].
  - intros x Hx Hk. apply in_mid in Hx. destruct Hx as [->|Hx]; [apply (r_fixed_eff t Htl Hk)|auto].
  - intros Hb x Hx Hk. apply in_mid in Hx. destruct Hx as [->|Hx]; [apply (r_band Hb t Htl Hk)|auto].
Qed.

(** ** creating a timer *)
Lemma relh_add bf now0 s l s' tn en :
  RelH bf now0 s [] l ->
  ti_stat tn = Pending -> tied now0 s' tn en ->
  (forall x, In x l -> ti_id x <> ti_id tn) -> (forall x, In x l -> ti_n x < ti_n tn) ->
  (forall y, In y (queue s') <-> y = en \/ In y (queue s)) ->
  cnow s' = cnow s -> 0 <= ti_tset tn <= cnow s ->
  (ti_kind tn = KFixed -> ti_eff tn = ti_eff0 tn /\ ti_tset tn = ti_t0 tn) ->
  (bf = true -> ti_kind tn = KFixed -> ti_eff0 tn < ti_t0 tn + NEAR -> FIX <= ti_slot tn) ->
  ((e_slot en < FIX /\ seq s' = seq s /\ (forall j, j <> e_slot en -> vget (var s') j = vget (var s) j) /\
    (vget (var s) (e_slot en) = None \/
     exists vs, vget (var s) (e_slot en) = Some vs /\ is_free vs = true /\ gnn vs = ti_g tn)) \/
   (e_slot en = seq s + 1 + FIX /\ seq s' = seq s + 1 /\ (forall j, vget (var s') j = vget (var s) j))) ->
  RelH bf now0 s' [] (tn :: l).
Proof.
  intros R Hp Htn Hid Hn Hmem Hcn Hts Hfx Hbd Hcase. cbn [app] in *.
  assert (Hkeep : forall x y, In y (queue s) -> tied now0 s x y -> tied now0 s' x y).
  { intros x y Hy Hxy. eapply tied_ext; [|eassumption]. destruct Hcase as [(V & _ & Hoth & Hwas)|(_ & _ & Hall)]; [|apply Hall].
    apply Hoth. intros Es. destruct Hxy as (_ & _ & [(F & _)|(_ & c & Hc & _)]); [lia|]. rewrite Es in Hc.
    destruct Hwas as [Hw|(vs & Hw & Hf & _)]; rewrite Hw in Hc; [discriminate|]. injection Hc as ->.
    unfold is_free in Hf. cbn [item] in Hf. destruct (ti_kind x); discriminate. }
  assert (Hsl : ti_slot tn = e_slot en) by (destruct Htn as (_ & S & _); exact S).
  destruct R. cbn [app] in *. constructor; cbn [app].
  - intros y Hy. apply Hmem in Hy. destruct Hy as [->|Hy].
    + exists tn. split; [left; reflexivity|split; assumption].
    + destruct (r_q2t y Hy) as (x & Hx & Hxp & Hxy). exists x. split; [right; assumption|split; [assumption|eauto]].
  - intros x [<-|Hx] Hxp.
    + exists en. split; [apply Hmem; left; reflexivity|assumption].
    + destruct (r_t2q x Hx Hxp) as (y & Hy & Hxy). exists y. split; [apply Hmem; right; assumption|eauto].
  - cbn [map]. constructor; [|assumption]. intros Hin. apply in_map_iff in Hin. destruct Hin as (x & Ex & Hx). eapply Hid; eauto.
  - cbn [map]. constructor; [|assumption]. intros Hin. apply in_map_iff in Hin. destruct Hin as (x & Ex & Hx). specialize (Hn x Hx). lia.
  - intros x [<-|Hx] Hxp Hxv; [contradiction|]. destruct (r_dead_var x Hx Hxp Hxv) as (vs & Hg & Hlt).
    destruct Hcase as [(V & _ & Hoth & Hwas)|(_ & _ & Hall)]; [|exists vs; rewrite Hall; auto].
    destruct (Z.eq_dec (ti_slot x) (e_slot en)) as [Es|Es]; [|exists vs; rewrite Hoth by assumption; auto].
    rewrite Es in Hg. destruct Hwas as [Hw|(vs0 & Hw & _ & Hgn)]; rewrite Hw in Hg; [discriminate|]. injection Hg as <-.
    destruct Htn as (_ & _ & [(F & _)|(_ & c & Hc & _)]); [lia|]. eexists. rewrite Es. split; [exact Hc|]. cbn [gnn]. lia.
  - intros x [<-|Hx] Hxp Hxf y Hy; [contradiction|]. apply Hmem in Hy. destruct Hy as [->|Hy]; [|eauto].
    destruct Hcase as [(V & _)|(Es & _)]; [lia|]. specialize (r_fix_seq x Hx Hxf). lia.
  - intros x [<-|Hx] Hxf.
    + destruct Hcase as [(V & _)|(Es & Hs & _)]; lia.
    + specialize (r_fix_seq x Hx Hxf). destruct Hcase as [(_ & Hs & _)|(_ & Hs & _)]; lia.
  - intros x1 x2 [<-|H1] [<-|H2] F1 F2 L; try lia; try (specialize (Hn x2 H2); lia);
      try (specialize (r_fix_seq x1 H1 F1); destruct Hcase as [(V & _)|(Es & _)]; lia); auto.
  - intros x [<-|Hx]; [lia|]. specialize (r_tset x Hx). lia.
  - intros x [<-|Hx]; auto.
  - intros Hb x [<-|Hx]; auto.
Qed.

(** ** bookkeeping: same entries, same slots *)
Lemma relh_same bf now0 s hd s' hd' l :
  RelH bf now0 s hd l -> (forall y, In y (hd' ++ queue s') <-> In y (hd ++ queue s)) ->
  (forall j, vget (var s') j = vget (var s) j) -> seq s' = seq s -> cnow s <= cnow s' ->
  RelH bf now0 s' hd' l.
Proof.
  intros R Hmem Hv Hs Hc. destruct R. constructor; auto.
  - intros y Hy. apply Hmem in Hy. destruct (r_q2t y Hy) as (x & Hx & Hp & Hxy). exists x. split; [assumption|split; [assumption|]].
    eapply tied_ext; [|eassumption]. apply Hv.
  - intros x Hx Hp. destruct (r_t2q x Hx Hp) as (y & Hy & Hxy). exists y. split; [apply Hmem; assumption|].
    eapply tied_ext; [|eassumption]. apply Hv.
  - intros x Hx Hp Hxv. destruct (r_dead_var x Hx Hp Hxv) as (vs & Hg & Hlt). exists vs. rewrite Hv. auto.
  - intros x Hx Hp Hf y Hy. apply Hmem in Hy. eauto.
  - intros x Hx Hf. rewrite Hs. auto.
  - intros x Hx. specialize (r_tset x Hx). lia.
Qed.

Lemma Tof_rebase now0 n e : 0 <= now0 <= n -> n <= now0 + WIN -> entry_ok n e -> Tof now0 (e_wt e) = Tof n (e_wt e).
Proof.
  intros H1 H2 He. destruct (entry_T_range n e ltac:(lia) He) as [A B]. destruct He as (Hw & _).
  destruct (Tof_spec n (e_wt e) ltac:(lia) Hw) as [_ Em]. rewrite <- Em at 1.
  apply Tof_unique; [lia|]. unfold WIN, M32 in *. lia.
Qed.

Lemma relh_rebase bf now0 s l : RelH bf now0 s [] l -> PH now0 s [] -> RelH bf (now s) s [] l.
Proof.
  intros R P. pose proof (h_now0 _ _ _ P) as Hn. pose proof (h_entries _ _ _ P) as He. rewrite Forall_forall in He.
  assert (Hk : forall x y, In y (queue s) -> tied now0 s x y -> tied (now s) s x y).
  { intros x y Hy (A & B & K). split; [assumption|split; [assumption|]]. destruct K as [(F & K1 & K2 & K3)|K]; [|right; assumption].
    left. rewrite <- (Tof_rebase now0 (now s) y) by (try lia; auto). auto. }
  destruct R. cbn [app] in *. constructor; cbn [app]; auto.
  - intros y Hy. destruct (r_q2t y Hy) as (x & Hx & Hp & Hxy). exists x. auto.
  - intros x Hx Hp. destruct (r_t2q x Hx Hp) as (y & Hy & Hxy). exists y. auto.
Qed.
