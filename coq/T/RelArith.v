(** Layer T: arithmetic facts about tick quantisation and the drain potential [phi] that the
    relation proofs (T/Rel.v) rest on.  Pure Z arithmetic, no model state. *)
From Coq Require Import ZArith List Bool Lia.
From Stk Require Import Lib.U Gen.SrcTimers T.Model T.Spec T.Quant T.Ticks T.Inv T.Rel.
Local Open Scope Z_scope.
Ltac Zify.zify_post_hook ::= Z.div_mod_to_equations.

(** ** ticks versus nanoseconds *)

(** NEAR is exactly 32767 seconds, i.e. exactly WIN ticks *)
Lemma floor_add_near x k : 0 <= x -> 0 <= k -> floor_ns (x + k * NEAR) = floor_ns x + k * WIN.
Proof.
  intros Hx Hk. unfold floor_ns, floor_t, NSs, NEAR, WIN.
  rewrite !Z.max_l by lia.
  replace (x + k * (32767 * 1000000000)) with (x + (k * 32767) * 1000000000) by lia.
  rewrite Z.div_add by lia. rewrite Z.mod_add by lia. lia.
Qed.

Lemma late_bound eff tset cn : 0 <= tset -> Z.max eff tset + STEP <= cn ->
  Z.max (ceil_ns eff) (floor_ns tset + 1) <= floor_ns cn.
Proof.
  intros Ht H. unfold STEP in *.
  pose proof (step_ceil_le_floor eff cn ltac:(lia)).
  pose proof (step_floor_lt_floor tset cn ltac:(lia) Ht).
  lia.
Qed.

Lemma ne_upper T eff tset : 0 <= T -> T mod 65536 <= 61036 -> 0 <= tset ->
  T <= Z.max (ceil_ns eff) (floor_ns tset + 1) -> inst T <= Z.max eff tset + STEP.
Proof.
  intros HT Hl Hts H. unfold STEP.
  destruct (Z.le_gt_cases T (ceil_ns eff)) as [C|C].
  - pose proof (inst_le_ceil T eff HT Hl C). lia.
  - assert (C' : T <= floor_ns tset + 1) by lia.
    pose proof (inst_le_floor1 T tset HT Hl C'). lia.
Qed.

Lemma band_fixed_path eff0 t0 : 0 <= t0 -> eff0 + 2 * STEP <= t0 + NEAR ->
  Z.max (ceil_ns eff0) (floor_ns t0 + 1) < floor_ns t0 + WIN.
Proof.
  intros Ht H. unfold STEP in *.
  pose proof (step_ceil_le_floor eff0 (eff0 + 16384) ltac:(lia)).
  pose proof (floor_mono (eff0 + 16384) (t0 + NEAR - 16384) ltac:(lia)).
  pose proof (step_floor_lt_floor (t0 + NEAR - 16384) (t0 + NEAR) ltac:(lia) ltac:(unfold NEAR; lia)).
  pose proof (floor_add_near t0 1 Ht ltac:(lia)) as E.
  replace (t0 + 1 * NEAR) with (t0 + NEAR) in E by lia.
  unfold WIN in *. lia.
Qed.

Lemma key_near_deadline eff t0 : 0 <= t0 ->
  floor_ns (Z.max eff t0) <= Z.max (ceil_ns eff) (floor_ns t0 + 1) <= floor_ns (Z.max eff t0) + 1.
Proof.
  intros Ht.
  pose proof (floor_le_ceil eff). pose proof (floor_le_ceil t0).
  destruct (Z.le_gt_cases t0 eff) as [C|C].
  - rewrite (Z.max_l eff t0) by lia. pose proof (floor_mono t0 eff C). lia.
  - rewrite (Z.max_r eff t0) by lia. pose proof (ceil_mono eff t0 ltac:(lia)). lia.
Qed.

Lemma two_steps Db Da : 0 <= Db -> Db + 2 * STEP <= Da -> floor_ns Db + 2 <= floor_ns Da.
Proof.
  intros Hb H. unfold STEP in *.
  pose proof (step_floor_lt_floor Db (Db + 16384) ltac:(lia) Hb).
  pose proof (step_floor_lt_floor (Db + 16384) Da ltac:(lia) ltac:(lia)).
  lia.
Qed.

(** consequence used for C19: keys in order imply deadlines not inverted by two steps *)
Lemma key_order_deadline effa ta effb tb : 0 <= ta -> 0 <= tb ->
  Z.max (ceil_ns effa) (floor_ns ta + 1) <= Z.max (ceil_ns effb) (floor_ns tb + 1) ->
  ~ (Z.max effb tb + 2 * STEP <= Z.max effa ta).
Proof.
  intros Ha Hb H C.
  pose proof (key_near_deadline effa ta Ha). pose proof (key_near_deadline effb tb Hb).
  pose proof (two_steps (Z.max effb tb) (Z.max effa ta) ltac:(lia) C).
  lia.
Qed.

Lemma floor_inst_ge T : 0 <= T -> T mod 65536 <= 61036 -> T <= floor_ns (inst T).
Proof.
  intros HT Hl. qunf. split_t T q l.
  assert (Hq : 0 <= q) by lia.
  rewrite Z.max_l by lia.
  assert (Hc : l <= 61035 \/ l = 61036) by lia. destruct Hc as [Hc|Hc].
  - replace (q * 1000000000 + l * 16384) with (l * 16384 + q * 1000000000) by lia.
    rewrite Z.div_add by lia. rewrite Z.mod_add by lia. lia.
  - subst l.
    replace (q * 1000000000 + 61036 * 16384) with (13824 + (q + 1) * 1000000000) by lia.
    rewrite Z.div_add by lia. rewrite Z.mod_add by lia. lia.
Qed.

Lemma ceil_max a b : ceil_ns (Z.max a b) = Z.max (ceil_ns a) (ceil_ns b).
Proof.
  destruct (Z.le_gt_cases a b) as [C|C].
  - pose proof (ceil_mono a b C). rewrite (Z.max_r a b) by lia. lia.
  - pose proof (ceil_mono b a ltac:(lia)). rewrite (Z.max_l a b) by lia. lia.
Qed.

Lemma ceil_min a b : ceil_ns (Z.min a b) = Z.min (ceil_ns a) (ceil_ns b).
Proof.
  destruct (Z.le_gt_cases a b) as [C|C].
  - pose proof (ceil_mono a b C). rewrite (Z.min_l a b) by lia. lia.
  - pose proof (ceil_mono b a ltac:(lia)). rewrite (Z.min_r a b) by lia. lia.
Qed.

(** ** the potential phi of T/Rel.v *)

Lemma log2_odd_step a b : 0 <= a -> 2 * (2 * a + 1) <= 2 * b + 1 ->
  Z.log2 (2 * a + 1) + 1 <= Z.log2 (2 * b + 1).
Proof.
  intros Ha H.
  pose proof (Z.log2_double (2 * a + 1) ltac:(lia)) as E. unfold Z.succ in E.
  pose proof (Z.log2_le_mono (2 * (2 * a + 1)) (2 * b + 1) H).
  lia.
Qed.

Lemma phi_pos d : 1 <= phi d.
Proof.
  unfold phi, WIN. pose proof (Z.log2_nonneg (2 * Z.max 0 d + 1)). lia.
Qed.

Lemma phi_mono d1 d2 : d1 <= d2 -> phi d1 <= phi d2.
Proof.
  intros H. unfold phi, WIN.
  pose proof (Z.log2_le_mono (2 * Z.max 0 d1 + 1) (2 * Z.max 0 d2 + 1) ltac:(lia)).
  lia.
Qed.

Lemma phi_nonpos d : d <= 0 -> phi d = 1.
Proof.
  intros H. unfold phi, WIN. rewrite (Z.max_l 0 d) by lia. reflexivity.
Qed.

Lemma phi_zero_drop d' d : d' <= 0 -> 0 < d -> phi d' + 1 <= phi d.
Proof.
  intros H' H. rewrite (phi_nonpos d' H'). unfold phi, WIN.
  pose proof (Z.log2_le_mono 2 (2 * Z.max 0 d + 1) ltac:(lia)) as L.
  change (Z.log2 2) with 1 in L. lia.
Qed.

Lemma phi_quarter d' d : 32768 <= d -> d' <= d / 4 + 1 -> phi d' + 1 <= phi d.
Proof.
  intros Hd H. unfold phi, WIN.
  rewrite (Z.max_r 0 d) by lia.
  pose proof (log2_odd_step (Z.max 0 d') d ltac:(lia) ltac:(lia)).
  lia.
Qed.

Lemma phi_far d' d : 0 < d' -> d' + 1073709056 <= d -> phi d' + 1 <= phi d.
Proof.
  intros H' H. unfold phi, WIN.
  rewrite (Z.max_r 0 d) by lia. rewrite (Z.max_r 0 d') by lia.
  pose proof (Z.log2_le_mono (2 * d' + 1) (2 * d + 1) ltac:(lia)).
  lia.
Qed.

Lemma phi_bound d k : 0 <= k -> d <= (k + 1) * WIN -> d < 2 ^ 49 -> phi d <= 64 + 32 * (k + 1).
Proof.
  intros Hk H Hb. unfold phi, WIN in *.
  set (m := Z.max 0 d). assert (Hm : 0 <= m /\ m <= (k + 1) * 2147418112 /\ m < 2 ^ 49) by (unfold m; lia).
  clearbody m.
  assert (L : Z.log2 (2 * m + 1) < 50).
  { apply Z.log2_lt_pow2; [lia|]. change (2 ^ 50) with (2 * 2 ^ 49). lia. }
  lia.
Qed.

(** ** rounded_75point is at or above the 75% point *)
Lemma r75_ge_p75 t0 t1 : 0 <= t0 -> 32768 <= t1 - t0 -> (t0 + 3 * t1) / 4 <= r75 t0 t1.
Proof.
  intros H0 Hg. unfold r75.
  destruct (t1 - t0 <? 32768) eqn:C; [lia|]. clear C.
  destruct (log2_facts (t1 - t0) Hg) as (HL & [Hlo Hhi] & H8).
  set (L := Z.log2 (t1 - t0)) in *. set (R := 2 ^ (L - 3)) in *.
  assert (HR : 0 < R) by (apply pow2_pos; lia).
  set (p75 := (t0 + 3 * t1) / 4).
  assert (Hp : 4 * p75 <= t0 + 3 * t1 < 4 * p75 + 4) by (unfold p75; lia).
  pose proof (roundup_bounds p75 R HR ltac:(lia)) as Hrv.
  set (rv := ((p75 - 1) / R + 1) * R) in *. clearbody rv.
  destruct (rv mod 65536 >=? 61036); lia.
Qed.

(** ** re-queueing a Max / Min timer whose key c has been reached (c <= n < ex) lowers its potential *)
Lemma max_requeue_phi c n ex : c <= n -> n < ex ->
  phi (ex - Z.min ex (n + WIN)) + 1 <= phi (ex - c).
Proof.
  intros Hc Hex.
  destruct (Z.le_gt_cases ex (n + WIN)) as [C|C].
  - rewrite (Z.min_l ex (n + WIN)) by lia. apply phi_zero_drop; lia.
  - rewrite (Z.min_r ex (n + WIN)) by lia. apply phi_far; unfold WIN in *; lia.
Qed.

Lemma min_requeue_phi c n ex : 0 <= n -> c <= n -> n < ex ->
  phi (ex - r75 n (Z.min ex (n + WIN))) + 1 <= phi (ex - c).
Proof.
  intros Hn Hc Hex.
  set (t1 := Z.min ex (n + WIN)).
  assert (Ht1 : n < t1 <= ex) by (unfold t1, WIN; lia).
  destruct (r75_bounds n t1 Hn ltac:(lia)) as [Hs Hb].
  destruct (Z.lt_ge_cases (t1 - n) 32768) as [G|G].
  - rewrite (Hs G). assert (E : t1 = ex) by (unfold t1, WIN in *; lia).
    rewrite E. apply phi_zero_drop; lia.
  - specialize (Hb G). pose proof (r75_ge_p75 n t1 Hn G) as Hp.
    set (c' := r75 n t1) in *. clearbody c'.
    destruct (Z.le_gt_cases ex (n + WIN)) as [C|C].
    + assert (E : t1 = ex) by (unfold t1; lia). rewrite E in *.
      apply phi_quarter; lia.
    + assert (E : t1 = n + WIN) by (unfold t1; lia). rewrite E in *.
      apply phi_far; unfold WIN in *; lia.
Qed.

(** ** the per-timer summand of Spec.drain_budget dominates the potential of a var timer *)
Lemma pterm_bound eff cn c : 0 <= cn -> eff < 2 ^ 62 -> floor_ns cn < c ->
  phi (ceil_ns eff - c) <= 64 + 32 * (Z.max 0 (eff - cn) / NEAR + 1).
Proof.
  intros Hcn He Hc.
  set (k := Z.max 0 (eff - cn) / NEAR).
  assert (Hk : 0 <= k) by (unfold k, NEAR; lia).
  assert (Hle : eff <= cn + (k + 1) * NEAR) by (unfold k, NEAR; lia).
  clearbody k.
  pose proof (ceil_mono _ _ Hle).
  pose proof (floor_le_ceil (cn + (k + 1) * NEAR)).
  pose proof (floor_add_near cn (k + 1) Hcn ltac:(lia)).
  pose proof (ceil_bound eff He).
  pose proof (floor_low16 cn) as [_ ?].
  apply phi_bound; unfold WIN in *; lia.
Qed.
