(** Characterisation of the GENERATED machine arithmetic (coq/Gen/SrcTimers.v) by plain
    integer functions, under explicit range hypotheses.  These lemmas are re-proved against
    whatever the Rust source says on every run: editing a shift, mask, constant or comparison
    in src/timers/mod.rs changes the generated definitions and breaks the lemma that states
    what it must compute. *)
From Coq Require Import ZArith Lia Bool List.
From Stk Require Import Lib.U Gen.SrcTimers T.Bits.
Local Open Scope Z_scope.
Ltac Zify.zify_post_hook ::= Z.div_mod_to_equations.

(** ** the checked operations *)
Lemma shl64_ok a k : 0 <= k < 64 -> 0 <= a -> a * 2 ^ k < 18446744073709551616 -> shl64 a k = Some (a * 2 ^ k).
Proof. intros Hk Ha Hlt. unfold shl64. destruct (k <? 64) eqn:E; [|lia]. rewrite Z.mod_small; auto. split; [|lia]. apply Z.mul_nonneg_nonneg; [lia|]. apply Z.pow_nonneg; lia. Qed.
Lemma shl32_ok a k : 0 <= k < 32 -> 0 <= a -> a * 2 ^ k < 4294967296 -> shl32 a k = Some (a * 2 ^ k).
Proof. intros Hk Ha Hlt. unfold shl32. destruct (k <? 32) eqn:E; [|lia]. rewrite Z.mod_small; auto. split; [|lia]. apply Z.mul_nonneg_nonneg; [lia|]. apply Z.pow_nonneg; lia. Qed.
Lemma shr64_ok a k : 0 <= k < 64 -> shr64 a k = Some (a / 2 ^ k).
Proof. intros Hk. unfold shr64. destruct (k <? 64) eqn:E; [reflexivity|lia]. Qed.
Lemma shr32_ok a k : 0 <= k < 32 -> shr32 a k = Some (a / 2 ^ k).
Proof. intros Hk. unfold shr32. destruct (k <? 32) eqn:E; [reflexivity|lia]. Qed.
Lemma cadd32_ok a b : a + b < 4294967296 -> cadd32 a b = Some (a + b).
Proof. intros. unfold cadd32. destruct (a + b <? 4294967296) eqn:E; [reflexivity|lia]. Qed.
Lemma cadd64_ok a b : a + b < 18446744073709551616 -> cadd64 a b = Some (a + b).
Proof. intros. unfold cadd64. destruct (a + b <? 18446744073709551616) eqn:E; [reflexivity|lia]. Qed.
Lemma cmul64_ok a b : a * b < 18446744073709551616 -> cmul64 a b = Some (a * b).
Proof. intros. unfold cmul64. destruct (a * b <? 18446744073709551616) eqn:E; [reflexivity|lia]. Qed.
Lemma csub_ok a b : b <= a -> csub a b = Some (a - b).
Proof. intros. unfold csub. destruct (b <=? a) eqn:E; [reflexivity|lia]. Qed.
Lemma csub_fail a b : a < b -> csub a b = None.
Proof. intros. unfold csub. destruct (b <=? a) eqn:E; [lia|reflexivity]. Qed.

Definition P16 : 2 ^ 16 = 65536 := eq_refl.
Definition P14 : 2 ^ 14 = 16384 := eq_refl.
Definition P32 : 2 ^ 32 = 4294967296 := eq_refl.
Definition P64 : 2 ^ 64 = 18446744073709551616 := eq_refl.

(** ** Time::new_ceil / new_floor as integer functions of (secs, nanos) *)
Definition ceil_t (s n : Z) : Z := s * 65536 + (n + 16383) / 16384.
Definition floor_t (s n : Z) : Z := s * 65536 + n / 16384.

Lemma new_ceil_spec s n : 0 <= s < 2 ^ 47 -> 0 <= n < 1000000000 ->
  time_new_ceil s n = Some (ceil_t s n).
Proof.
  intros Hs Hn. unfold time_new_ceil, ceil_t.
  rewrite shl64_ok by lia. cbn [obind]. rewrite shl32_ok by lia. cbn [obind].
  rewrite cadd32_ok by lia. cbn [obind]. rewrite csub_ok by lia. cbn [obind].
  rewrite shr32_ok by lia. cbn [obind].
  rewrite P16, P14. rewrite <- P16 at 1. rewrite lor_disjoint_add by lia. rewrite P16.
  do 2 f_equal. lia.
Qed.

Lemma new_floor_spec s n : 0 <= s < 2 ^ 47 -> 0 <= n < 1000000000 ->
  time_new_floor s n = Some (floor_t s n).
Proof.
  intros Hs Hn. unfold time_new_floor, floor_t.
  rewrite shl64_ok by lia. cbn [obind]. rewrite shr32_ok by lia. cbn [obind].
  rewrite P14. rewrite lor_disjoint_add by lia. rewrite P16. reflexivity.
Qed.

Lemma add_secs_spec t k : 0 <= t -> 0 <= k < 65536 -> t < 2 ^ 62 ->
  time_add_secs t k = Some (t + k * 65536).
Proof.
  intros Ht Hk Hb. unfold time_add_secs. rewrite shl64_ok by lia. cbn [obind].
  rewrite cadd64_ok by lia. cbn [obind]. rewrite P16. reflexivity.
Qed.

Lemma inc_spec t : 0 <= t < 2 ^ 63 -> time_inc t = Some (t + 1).
Proof. intros. unfold time_inc. rewrite cadd64_ok by lia. reflexivity. Qed.

Lemma wt_spec t : time_wt t = Some (t mod 4294967296).
Proof. reflexivity. Qed.

(** Time::instant: (secs, nanos) to add to t0 *)
Lemma instant_spec t : 0 <= t < 2 ^ 63 ->
  time_instant t = Some (t / 65536, (t mod 65536) * 16384).
Proof.
  intros Ht. unfold time_instant. rewrite shr64_ok by lia. cbn [obind].
  replace 65535 with (2 ^ 16 - 1) by reflexivity. rewrite land_ones_mod by lia.
  rewrite P16. rewrite (Z.mod_small (t mod 65536)) by lia.
  rewrite shl32_ok by lia. cbn [obind]. rewrite ?P16, ?P14. reflexivity.
Qed.

(** WrapTime::time: the value congruent to w (mod 2^32) in [base, base + 2^32) *)
Definition unwrap (w base : Z) : Z :=
  let v := base - base mod 4294967296 + w in if v <? base then v + 4294967296 else v.

Lemma wraptime_time_spec w base : 0 <= w < 4294967296 -> 0 <= base < 2 ^ 62 ->
  wraptime_time w base = Some (unwrap w base).
Proof.
  intros Hw Hb. unfold wraptime_time, unwrap.
  assert (H : Z.lor (Z.land base (lnot64 4294967295)) w = base - base mod 4294967296 + w).
  { change (lnot64 4294967295) with (2 ^ 64 - 2 ^ 32).
    rewrite land_high_mask by lia. rewrite P32.
    assert (E : base - base mod 4294967296 = (base / 4294967296) * 2 ^ 32) by (rewrite P32; lia).
    rewrite E. rewrite lor_disjoint_add by lia. reflexivity. }
  rewrite H. cbv zeta.
  destruct (base - base mod 4294967296 + w <? base) eqn:C; [|reflexivity].
  rewrite cadd64_ok by lia. reflexivity.
Qed.

Lemma unwrap_range w base : 0 <= w < 4294967296 -> 0 <= base ->
  base <= unwrap w base < base + 4294967296 /\ unwrap w base mod 4294967296 = w.
Proof.
  intros Hw Hb. unfold unwrap. destruct (_ <? base) eqn:C; lia.
Qed.

(** if T is in [base, base + 2^32) then unwrapping its low 32 bits gives T back *)
Lemma unwrap_unique T base : 0 <= base -> base <= T < base + 4294967296 ->
  unwrap (T mod 4294967296) base = T.
Proof.
  intros Hb HT. unfold unwrap. destruct (_ <? base) eqn:C; lia.
Qed.

(** ** the cyclic comparison agrees with the numeric one inside a window of less than 2^31 *)
Lemma wraptime_cmp_window a b : - 2147483648 <= a - b < 2147483648 ->
  wraptime_cmp (a mod 4294967296) (b mod 4294967296) = Some (Z.compare a b).
Proof.
  intros H. unfold wraptime_cmp, as_i32. f_equal.
  assert (E : (a mod 4294967296 - b mod 4294967296) mod 4294967296 = (a - b) mod 4294967296).
  { rewrite <- Zminus_mod. reflexivity. }
  rewrite E.
  destruct (Z.compare_spec a b) as [Heq|Hlt|Hgt].
  - subst. replace (b - b) with 0 by lia. reflexivity.
  - destruct ((a - b) mod 4294967296 <? 2147483648) eqn:C; apply Z.compare_lt_iff; lia.
  - destruct ((a - b) mod 4294967296 <? 2147483648) eqn:C; apply Z.compare_gt_iff; lia.
Qed.

Lemma timerkey_cmp_window a s1 b s2 : - 2147483648 <= a - b < 2147483648 ->
  timerkey_cmp (a mod 4294967296) s1 (b mod 4294967296) s2 =
  Some (match Z.compare a b with Eq => Z.compare s1 s2 | c => c end).
Proof.
  intros H. unfold timerkey_cmp. rewrite wraptime_cmp_window by exact H. cbn [obind]. destruct (a ?= b); reflexivity.
Qed.

(** ** rounded_75point *)
Lemma pow2_pos k : 0 <= k -> 0 < 2 ^ k.
Proof. intros. apply Z.pow_pos_nonneg; lia. Qed.

Lemma ones_div_pow2 a b : 0 <= b <= a -> (2 ^ a - 1) / 2 ^ b = 2 ^ (a - b) - 1.
Proof.
  intros H. pose proof (pow2_pos b ltac:(lia)) as Hb. pose proof (pow2_pos (a - b) ltac:(lia)) as Hab.
  replace (2 ^ a - 1) with ((2 ^ (a - b) - 1) * 2 ^ b + (2 ^ b - 1)).
  2:{ rewrite Z.mul_sub_distr_r, <- Z.pow_add_r by lia. replace (a - b + b) with a by lia. lia. }
  rewrite Z.div_add_l by lia. rewrite Z.div_small by lia. lia.
Qed.

Lemma roundup_bounds p R : 0 < R -> 1 <= p ->
  p <= ((p - 1) / R + 1) * R <= p - 1 + R.
Proof. intros HR Hp. pose proof (Z.div_mod (p - 1) R ltac:(lia)). pose proof (Z.mod_pos_bound (p - 1) R HR). nia. Qed.

(** the pure function computed by rounded_75point *)
Definition r75 (t0 t1 : Z) : Z :=
  let p75 := (t0 + 3 * t1) / 4 in
  let gap := t1 - t0 in
  if gap <? 32768 then t1
  else
    let R := 2 ^ (Z.log2 gap - 3) in
    let rv := ((p75 - 1) / R + 1) * R in
    if rv mod 65536 >=? 61036 then rv - rv mod 65536 + 65536 else rv.

Lemma log2_facts gap : 32768 <= gap ->
  15 <= Z.log2 gap /\ 2 ^ Z.log2 gap <= gap < 2 ^ (Z.log2 gap + 1) /\ 8 * 2 ^ (Z.log2 gap - 3) = 2 ^ Z.log2 gap.
Proof.
  intros H. pose proof (Z.log2_spec gap ltac:(lia)) as [H1 H2]. unfold Z.succ in H2.
  assert (15 <= Z.log2 gap) by (change 15 with (Z.log2 32768); apply Z.log2_le_mono; lia).
  repeat split; try assumption.
  change 8 with (2 ^ 3). rewrite <- Z.pow_add_r by lia. f_equal. lia.
Qed.

Lemma r75_bounds t0 t1 : 0 <= t0 -> t0 <= t1 ->
  (t1 - t0 < 32768 -> r75 t0 t1 = t1) /\
  (32768 <= t1 - t0 -> t0 < r75 t0 t1 <= t1).
Proof.
  intros H0 H1. unfold r75. split; intros Hg.
  - destruct (t1 - t0 <? 32768) eqn:C; [reflexivity|lia].
  - destruct (t1 - t0 <? 32768) eqn:C; [lia|]. clear C.
    destruct (log2_facts (t1 - t0) Hg) as (HL & [Hlo Hhi] & H8).
    set (L := Z.log2 (t1 - t0)) in *. set (R := 2 ^ (L - 3)) in *.
    assert (HR : 0 < R) by (apply pow2_pos; lia).
    set (p75 := (t0 + 3 * t1) / 4).
    assert (Hp : 4 * p75 <= t0 + 3 * t1 < 4 * p75 + 4) by (unfold p75; lia).
    pose proof (roundup_bounds p75 R HR ltac:(lia)) as Hrv.
    set (rv := ((p75 - 1) / R + 1) * R) in *.
    assert (H16 : 2 ^ (L + 1) = 16 * R) by (rewrite Z.pow_add_r by lia; lia).
    destruct (rv mod 65536 >=? 61036) eqn:Cb; [|lia].
    (* the bump: rv is a multiple of R *)
    assert (Hq : rv = ((p75 - 1) / R + 1) * R) by reflexivity.
    set (q := (p75 - 1) / R + 1) in *.
    assert (HLc : L = 15 \/ L = 16 \/ L = 17 \/ L = 18 \/ 19 <= L) by lia.
    destruct HLc as [E|[E|[E|[E|E]]]].
    1-4: assert (ER : R = 2 ^ (L - 3)) by reflexivity; rewrite E in ER, H16, H8; cbn in ER; lia.
    exfalso.
    assert (ER : R = 2 ^ (L - 19) * 65536).
    { unfold R. change 65536 with (2 ^ 16). rewrite <- Z.pow_add_r by lia. f_equal. lia. }
    assert (rv mod 65536 = 0).
    { rewrite Hq, ER, Z.mul_assoc. apply Z.mod_mul. lia. }
    lia.
Qed.

Lemma r75_low16 t0 t1 : 0 <= t0 -> t0 <= t1 -> t1 mod 65536 <= 61036 -> r75 t0 t1 mod 65536 <= 61036.
Proof.
  intros H0 H1 Hl. unfold r75. destruct (t1 - t0 <? 32768); [exact Hl|].
  match goal with |- context [if ?c then _ else _] => destruct c eqn:C end; [|lia].
  set (rv := _ * _) in *. replace (rv - rv mod 65536 + 65536) with ((rv / 65536 + 1) * 65536) by lia.
  rewrite Z.mod_mul; lia.
Qed.

Lemma leading_zeros64_spec g : 0 < g -> leading_zeros64 g = 63 - Z.log2 g.
Proof. intros. unfold leading_zeros64. destruct (g <=? 0) eqn:C; lia. Qed.

Lemma rounded_75point_spec t0 t1 : 0 <= t0 -> t0 <= t1 -> t1 < 2 ^ 61 ->
  rounded_75point t0 t1 = Some (r75 t0 t1).
Proof.
  intros H0 H1 Hb. unfold rounded_75point, r75.
  rewrite cmul64_ok by lia. cbn [obind]. rewrite cadd64_ok by lia. cbn [obind].
  rewrite shr64_ok by lia. cbn [obind]. rewrite csub_ok by lia. cbn [obind]. cbv zeta.
  change (2 ^ 2) with 4.
  destruct (t1 - t0 <? 32768) eqn:Cg; [reflexivity|].
  assert (Hg : 32768 <= t1 - t0) by lia.
  destruct (log2_facts (t1 - t0) Hg) as (HL & [Hlo Hhi] & H8).
  rewrite leading_zeros64_spec by lia.
  set (L := Z.log2 (t1 - t0)) in *.
  assert (HLu : L <= 61).
  { assert (2 ^ L < 2 ^ 61) by lia. apply Z.pow_lt_mono_r_iff in H; lia. }
  rewrite shr64_ok by lia. cbn [obind].
  change 18446744073709551615 with (2 ^ 64 - 1). rewrite ones_div_pow2 by lia.
  rewrite shr64_ok by lia. cbn [obind]. rewrite ones_div_pow2 by lia.
  replace (64 - (63 - L) - 4) with (L - 3) by lia.
  set (R := 2 ^ (L - 3)) in *.
  assert (HR : 0 < R) by (apply pow2_pos; lia).
  set (p75 := (t0 + 3 * t1) / 4).
  assert (Hp : 4 * p75 <= t0 + 3 * t1 < 4 * p75 + 4) by (unfold p75; lia).
  rewrite csub_ok by lia. cbn [obind].
  pose proof (roundup_bounds p75 R HR ltac:(lia)) as Hrv.
  assert (Hl : Z.lor (p75 - 1) (R - 1) + 1 = ((p75 - 1) / R + 1) * R).
  { unfold R. rewrite lor_ones_roundup by lia. reflexivity. }
  set (rv := ((p75 - 1) / R + 1) * R) in *.
  assert (H16 : 2 ^ (L + 1) = 16 * R) by (rewrite Z.pow_add_r by lia; lia).
  assert (Hrvb : 0 <= rv < 2 ^ 62) by lia.
  rewrite cadd64_ok by (rewrite Hl; lia). cbn [obind]. cbv zeta. rewrite Hl.
  assert (Hm : Z.land rv (lnot64 65535) = rv - rv mod 65536).
  { change (lnot64 65535) with (2 ^ 64 - 2 ^ 16). rewrite land_high_mask by lia. rewrite P16. reflexivity. }
  assert (Hm2 : Z.land rv 65535 = rv mod 65536).
  { change 65535 with (2 ^ 16 - 1). rewrite land_ones_mod by lia. rewrite P16. reflexivity. }
  rewrite Hm, Hm2.
  destruct (rv mod 65536 >=? 61036) eqn:Cb; [|reflexivity].
  rewrite cadd64_ok by lia. reflexivity.
Qed.
