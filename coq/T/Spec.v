(** Layer T: the reference specification of the timer API ("the simplest possible object")
    and the executable monitors C07/C08/C09/C10/C15t/C19 over histories of API calls and their
    observed results.  The same monitor is (1) proved true of every model run (T/Proofs*.v),
    (2) evaluated on the results observed from the real crate, (3) the oracle of the search
    for a failing input.

    The specification knows nothing about ticks, slots, wrap-around or the BTreeMap: a timer
    is {id; kind; effective expiry (ns); time its expiry was last set (ns); status; the key the
    API handed out}. *)
From Coq Require Import ZArith List Bool.
From Stk Require Import T.Model.
Import ListNotations.
Local Open Scope Z_scope.

Inductive tkind := KFixed | KMax | KMin.
Inductive tstat := Pending | Fired | Deleted.

Definition kind_eqb (a b : tkind) : bool :=
  match a, b with KFixed, KFixed | KMax, KMax | KMin, KMin => true | _, _ => false end.
Definition is_pending (s : tstat) : bool := match s with Pending => true | _ => false end.

Record tinfo := mkTI {
  ti_id : Z;        (* callback id *)
  ti_kind : tkind;
  ti_eff : Z;       (* effective expiry: given / greatest given / smallest given instant *)
  ti_tset : Z;      (* Core::now when ti_eff was last set *)
  ti_stat : tstat;
  ti_slot : Z;      (* the key returned by the API *)
  ti_g : Z;
  ti_n : Z;         (* index of the creating op in the history *)
  ti_eff0 : Z;      (* instant given at creation *)
  ti_t0 : Z         (* Core::now at creation *)
}.

Definition STEP : Z := 16384.                       (* one timer-resolution step, 2^14 ns *)
Definition NEAR : Z := 32767 * 1000000000.          (* "less than 32767 s ahead" *)

Definition deadline (t : tinfo) : Z := Z.max (ti_eff t) (ti_tset t).

Record verdict := mkV { v07 : bool; v08 : bool; v09 : bool; v10 : bool; v15 : bool; v19 : bool }.
Definition v_ok := mkV true true true true true true.
Definition v_and (a b : verdict) :=
  mkV (v07 a && v07 b) (v08 a && v08 b) (v09 a && v09 b) (v10 a && v10 b) (v15 a && v15 b) (v19 a && v19 b).
Definition v_all (v : verdict) := v07 v && v08 v && v09 v && v10 v && v15 v && v19 v.

Record sstate := mkS {
  s_cnow : Z;
  s_timers : list tinfo;              (* most recent first *)
  s_count : Z;                        (* ops observed so far (index of the next op) *)
  s_last_ne : option (option Z);      (* result of next_expiry if it was the previous op *)
  s_drain : Z;                        (* consecutive (next_expiry; run at exactly that instant) rounds *)
  s_budget : Z                        (* round budget fixed when such a drain loop starts *)
}.
Definition s_init := mkS 0 [] 0 None 0 0.

(** the timer whose key was issued by op number [kref] (a key of the wrong kind cannot be written
    in Rust; a Default key has kref = -1 and denotes no timer) *)
Fixpoint lookup (k : tkind) (kref : Z) (l : list tinfo) : option tinfo :=
  match l with
  | [] => None
  | t :: r => if kind_eqb (ti_kind t) k && (ti_n t =? kref) then Some t else lookup k kref r
  end.

Definition key_pending (k : tkind) (kref : Z) (l : list tinfo) : bool :=
  match lookup k kref l with Some t => is_pending (ti_stat t) | None => false end.

Fixpoint update (k : tkind) (kref : Z) (f : tinfo -> tinfo) (l : list tinfo) : list tinfo :=
  match l with
  | [] => []
  | t :: r => if kind_eqb (ti_kind t) k && (ti_n t =? kref) then f t :: r else t :: update k kref f r
  end.

Definition set_stat (st : tstat) (t : tinfo) :=
  mkTI (ti_id t) (ti_kind t) (ti_eff t) (ti_tset t) st (ti_slot t) (ti_g t) (ti_n t) (ti_eff0 t) (ti_t0 t).
Definition set_eff (e ts : Z) (t : tinfo) :=
  mkTI (ti_id t) (ti_kind t) e ts (ti_stat t) (ti_slot t) (ti_g t) (ti_n t) (ti_eff0 t) (ti_t0 t).

Fixpoint find_id (id : Z) (l : list tinfo) : option tinfo :=
  match l with
  | [] => None
  | t :: r => if ti_id t =? id then Some t else find_id id r
  end.
Fixpoint update_id (id : Z) (f : tinfo -> tinfo) (l : list tinfo) : list tinfo :=
  match l with
  | [] => []
  | t :: r => if ti_id t =? id then f t :: r else t :: update_id id f r
  end.

Definition pending (l : list tinfo) : list tinfo := filter (fun t => is_pending (ti_stat t)) l.

(** least deadline among the pending timers *)
Definition min_deadline (l : list tinfo) : option Z :=
  fold_right (fun t acc => match acc with None => Some (deadline t) | Some d => Some (Z.min d (deadline t)) end)
             None (pending l).

(** C09: r is an admissible answer of next_expiry *)
Definition ne_ok (cnow : Z) (l : list tinfo) (r : option Z) : bool :=
  match r, min_deadline l with
  | None, None => true
  | Some t, Some d => (cnow <? t) && (t <=? d + STEP)
  | _, _ => false
  end.

(** C19 on one run: fired fixed timers that were created less than 32767 s ahead *)
Definition near_fixed (t : tinfo) : bool :=
  match ti_kind t with KFixed => ti_eff0 t <? ti_t0 t + NEAR | _ => false end.
(** [a] ran before [b]: forbidden when b's deadline is two steps or more earlier, or when both were
    given the identical instant at the same time and b was created first *)
Definition order_ok (a b : tinfo) : bool :=
  negb (deadline b + 2 * STEP <=? deadline a)
  && negb ((ti_eff0 a =? ti_eff0 b) && (ti_t0 a =? ti_t0 b) && (ti_n b <? ti_n a)).
Fixpoint all_order_ok (l : list tinfo) : bool :=
  match l with
  | [] => true
  | a :: r => forallb (order_ok a) r && all_order_ok r
  end.

(** budget for a drain loop `while let Some(t) = next_expiry() { run(t) }` *)
Definition drain_budget (cnow : Z) (l : list tinfo) : Z :=
  fold_right (fun t acc => acc + 64 + 32 * (Z.max 0 (ti_eff t - cnow) / NEAR + 1)) 8 (pending l).

(** process the list of fired ids of one run *)
Fixpoint fire_all (cnow' : Z) (ids : list Z) (l : list tinfo) (v : verdict) (firedinfo : list tinfo)
  : list tinfo * verdict * list tinfo :=
  match ids with
  | [] => (l, v, firedinfo)
  | id :: r =>
      match find_id id l with
      | None => (* a callback nobody registered *)
          fire_all cnow' r l (v_and v (mkV true false true true true true)) firedinfo
      | Some t =>
          let v1 := match ti_stat t with
                    | Pending => mkV (ti_eff t <=? cnow') true true true true true
                    | Fired => mkV true false true true true true          (* fired twice *)
                    | Deleted => mkV true true true false true true        (* fired after successful delete *)
                    end in
          fire_all cnow' r (update_id id (set_stat Fired) l) (v_and v v1) (firedinfo ++ [t])
      end
  end.

Definition due (cnow' : Z) (t : tinfo) : bool := is_pending (ti_stat t) && (deadline t + STEP <=? cnow').

Definition new_timer (s : sstate) (k : tkind) (ns cb slot g : Z) : sstate :=
  mkS (s_cnow s)
      (mkTI cb k ns (s_cnow s) Pending slot g (s_count s) ns (s_cnow s) :: s_timers s)
      (s_count s) None 0 0.

Definition bool_op (s : sstate) (expected b : bool) (l' : list tinfo) : sstate * verdict :=
  (mkS (s_cnow s) l' (s_count s) None 0 0, mkV true true true (Bool.eqb expected b) true true).

(** one observed step.  [out = None] is a panic. *)
Definition mon_step0 (s : sstate) (o : top) (out : option tout) : sstate * verdict :=
  let bad08 := (mkS (s_cnow s) (s_timers s) (s_count s) None 0 0, mkV true false true true true true) in
  let malformed := (mkS (s_cnow s) (s_timers s) (s_count s) None 0 0, mkV false false false false false false) in
  match out with
  | None => bad08                                     (* C08: no call sequence panics *)
  | Some out =>
  match o, out with
  | OAdd ns cb, RKey slot g => (new_timer s KFixed ns cb slot g, v_ok)
  | OAfter dur cb, RKey slot g => (new_timer s KFixed (s_cnow s + dur) cb slot g, v_ok)
  | OAddMax ns cb, RKey slot g => (new_timer s KMax ns cb slot g, v_ok)
  | OAddMin ns cb, RKey slot g => (new_timer s KMin ns cb slot g, v_ok)
  | ODel kref _ _, RBool b =>
      let e := key_pending KFixed kref (s_timers s) in
      bool_op s e b (if e then update KFixed kref (set_stat Deleted) (s_timers s) else s_timers s)
  | ODelMax kref _ _, RBool b =>
      let e := key_pending KMax kref (s_timers s) in
      bool_op s e b (if e then update KMax kref (set_stat Deleted) (s_timers s) else s_timers s)
  | ODelMin kref _ _, RBool b =>
      let e := key_pending KMin kref (s_timers s) in
      bool_op s e b (if e then update KMin kref (set_stat Deleted) (s_timers s) else s_timers s)
  | OActMax kref _ _, RBool b => bool_op s (key_pending KMax kref (s_timers s)) b (s_timers s)
  | OActMin kref _ _, RBool b => bool_op s (key_pending KMin kref (s_timers s)) b (s_timers s)
  | OModMax kref _ _ ns, RBool b =>
      let e := key_pending KMax kref (s_timers s) in
      bool_op s e b (if e then update KMax kref
                                 (fun t => if ti_eff t <? ns then set_eff ns (s_cnow s) t else t) (s_timers s)
                     else s_timers s)
  | OModMin kref _ _ ns, RBool b =>
      let e := key_pending KMin kref (s_timers s) in
      bool_op s e b (if e then update KMin kref
                                 (fun t => if ns <? ti_eff t then set_eff ns (s_cnow s) t else t) (s_timers s)
                     else s_timers s)
  | ORun ns, RFired ids =>
      let advanced := ns >? s_cnow s in
      let cnow' := Z.max (s_cnow s) ns in
      let '(l1, v1, finfo) := fire_all cnow' ids (s_timers s) v_ok [] in
      (* C08: after a run that advances time nothing that is due remains pending *)
      let late := if advanced then existsb (due cnow') l1 else false in
      (* C15: nothing is evaluated unless time advances *)
      let idle_fire := negb advanced && negb (match ids with [] => true | _ => false end) in
      (* C09 progress: a run at exactly the announced next expiry *)
      let at_ne := match s_last_ne s with Some (Some t) => t =? ns | _ => false end in
      let rounds := if at_ne then s_drain s + 1 else 0 in
      let budget := if s_drain s =? 0 then drain_budget (s_cnow s) (s_timers s) else s_budget s in
      let vprog := rounds <=? budget in
      let v19' := all_order_ok (filter near_fixed finfo) in
      (mkS cnow' l1 (s_count s) None rounds budget,
       v_and v1 (mkV true (negb late) vprog true (negb idle_fire) v19'))
  | ONextExpiry, ROptNs r =>
      (mkS (s_cnow s) (s_timers s) (s_count s) (Some r) (s_drain s) (s_budget s),
       mkV true true (ne_ok (s_cnow s) (s_timers s) r) true true true)
  | ONextWait ns, ROptNs r =>
      let ok := match s_last_ne s with
                | Some ne => match ne, r with
                             | None, None => true
                             | Some t, Some d => d =? Z.max 0 (t - ns)
                             | _, _ => false
                             end
                | None => match r with
                          | None => ne_ok (s_cnow s) (s_timers s) None
                          | Some d => if 0 <? d then ne_ok (s_cnow s) (s_timers s) (Some (ns + d))
                                      else (d =? 0) && (s_cnow s <? ns)
                          end
                end in
      (mkS (s_cnow s) (s_timers s) (s_count s) (s_last_ne s) (s_drain s) (s_budget s), mkV true true ok true true true)
  | ONextWaitMax ns maxdur pend, RNs d =>
      let ok := if pend then d =? 0
                else match s_last_ne s with
                     | Some (Some t) => d =? Z.min (Z.max 0 (t - ns)) maxdur
                     | Some None => d =? maxdur
                     | None => (0 <=? d) && (d <=? Z.max 0 maxdur)
                     end in
      (mkS (s_cnow s) (s_timers s) (s_count s) (s_last_ne s) (s_drain s) (s_budget s), mkV true true ok true true true)
  | ONow, RNs v =>
      (mkS (s_cnow s) (s_timers s) (s_count s) (s_last_ne s) (s_drain s) (s_budget s), mkV true true true true (v =? s_cnow s) true)
  | OPokeSeq _, RUnit => (mkS (s_cnow s) (s_timers s) (s_count s) None 0 0, v_ok)
  | OPokeGnn _ _, RUnit => (mkS (s_cnow s) (s_timers s) (s_count s) None 0 0, v_ok)
  | _, _ => malformed
  end
  end.

Definition mon_step (s : sstate) (o : top) (out : option tout) : sstate * verdict :=
  let '(s1, v) := mon_step0 s o out in
  (mkS (s_cnow s1) (s_timers s1) (s_count s + 1) (s_last_ne s1) (s_drain s1) (s_budget s1), v).

Fixpoint mon_run (s : sstate) (h : list (top * option tout)) : list verdict :=
  match h with
  | [] => []
  | (o, out) :: r => let '(s1, v) := mon_step s o out in v :: mon_run s1 r
  end.

Definition mon_all (h : list (top * option tout)) : verdict :=
  fold_right v_and v_ok (mon_run s_init h).

(** history of a model run *)
Definition model_history (ops : list top) : list (top * option tout) :=
  let outs := fst (trun t_init ops) in
  combine (firstn (length outs) ops) outs.

(** classes of the known findings F2/F3 (predicates on the program): the verification-hook
    poke ops stand for the 2^32 (resp. 2^31) honest add/delete cycles that bring the 32-bit
    generation (resp. 31-bit sequence) counters next to their wrap *)
Definition uses_poke (ops : list top) : bool :=
  existsb (fun o => match o with OPokeSeq _ | OPokeGnn _ _ => true | _ => false end) ops.
