(** Quantisation: instants in nanoseconds versus ticks (secs * 65536 + nanos / 16384). *)
From Coq Require Import ZArith Lia Bool.
From Stk Require Import T.Quant.
Local Open Scope Z_scope.
Ltac Zify.zify_post_hook ::= Z.div_mod_to_equations.

Definition NSs : Z := 1000000000.
Definition floor_ns (ns : Z) : Z := floor_t (Z.max ns 0 / NSs) (Z.max ns 0 mod NSs).
Definition ceil_ns (ns : Z) : Z := ceil_t (Z.max ns 0 / NSs) (Z.max ns 0 mod NSs).
(** Time::instant in ns *)
Definition inst (t : Z) : Z := (t / 65536) * NSs + (t mod 65536) * 16384.

Ltac qunf := unfold floor_ns, ceil_ns, floor_t, ceil_t, inst, NSs in *.

(** name seconds / nanoseconds / sub-second ticks of an instant and record their ranges *)
Ltac split_ns x m s n f c :=
  set (m := Z.max x 0) in *;
  assert (0 <= m) by (unfold m; lia);
  assert (x <= m) by (unfold m; lia);
  assert (0 <= x -> m = x) by (unfold m; lia);
  assert (x <= 0 -> m = 0) by (unfold m; lia);
  clearbody m;
  pose proof (Z.div_mod m 1000000000 ltac:(lia));
  pose proof (Z.mod_pos_bound m 1000000000 ltac:(lia));
  set (s := m / 1000000000) in *; set (n := m mod 1000000000) in *;
  assert (0 <= s) by (unfold s; apply Z.div_pos; lia);
  clearbody s n;
  pose proof (Z.div_mod n 16384 ltac:(lia));
  pose proof (Z.mod_pos_bound n 16384 ltac:(lia));
  pose proof (Z.div_mod (n + 16383) 16384 ltac:(lia));
  pose proof (Z.mod_pos_bound (n + 16383) 16384 ltac:(lia));
  set (f := n / 16384) in *; set (c := (n + 16383) / 16384) in *;
  assert (0 <= f <= 61035) by (unfold f; lia);
  assert (f <= c <= f + 1 /\ c <= 61036) by (unfold f, c; lia);
  clearbody f c;
  let r1 := fresh "r" in let r2 := fresh "r" in
  set (r1 := n mod 16384) in *; set (r2 := (n + 16383) mod 16384) in *; clearbody r1 r2.
Ltac split_t T q l :=
  pose proof (Z.div_mod T 65536 ltac:(lia));
  pose proof (Z.mod_pos_bound T 65536 ltac:(lia));
  set (q := T / 65536) in *; set (l := T mod 65536) in *; clearbody q l.
Ltac tri a b := assert (a < b \/ a = b \/ a > b) as [?|[?|?]] by lia.

Lemma floor_low16 x : (floor_ns x) mod 65536 <= 61035 /\ 0 <= floor_ns x.
Proof. qunf. lia. Qed.
Lemma ceil_low16 x : (ceil_ns x) mod 65536 <= 61036 /\ 0 <= ceil_ns x.
Proof. qunf. lia. Qed.
Lemma floor_le_ceil x : floor_ns x <= ceil_ns x <= floor_ns x + 1.
Proof. qunf. lia. Qed.
Lemma floor_mono x y : x <= y -> floor_ns x <= floor_ns y.
Proof. qunf. lia. Qed.
Lemma ceil_mono x y : x <= y -> ceil_ns x <= ceil_ns y.
Proof. qunf. lia. Qed.
Lemma floor_bound x : x < 2 ^ 62 -> floor_ns x < 2 ^ 49.
Proof. qunf. lia. Qed.
Lemma ceil_bound x : x < 2 ^ 62 -> ceil_ns x < 2 ^ 49.
Proof. qunf. lia. Qed.

(** no early firing: an expiry tick at or before the current tick means the instant has passed *)
Lemma ceil_le_floor e n : ceil_ns e <= floor_ns n -> e <= Z.max n 0.
Proof. qunf. intros H. split_ns e m1 s1 n1 f1 c1. split_ns n m2 s2 n2 f2 c2. tri s1 s2; lia. Qed.
(** on time: one full step later the tick has been reached *)
Lemma step_ceil_le_floor e n : e + 16384 <= n -> ceil_ns e <= floor_ns n.
Proof. qunf. intros H. split_ns e m1 s1 n1 f1 c1. split_ns n m2 s2 n2 f2 c2. tri s1 s2; lia. Qed.
Lemma step_floor_lt_floor t n : t + 16384 <= n -> 0 <= t -> floor_ns t + 1 <= floor_ns n.
Proof. qunf. intros H Hn. split_ns t m1 s1 n1 f1 c1. split_ns n m2 s2 n2 f2 c2. tri s1 s2; lia. Qed.

(** next_expiry bounds *)
Lemma inst_after c T : 0 <= c -> floor_ns c < T -> c < inst T.
Proof. qunf. intros Hc H. split_ns c m1 s1 n1 f1 c1. split_t T q l. tri s1 q; lia. Qed.
Lemma inst_le_ceil T e : 0 <= T -> T mod 65536 <= 61036 -> T <= ceil_ns e -> inst T < Z.max e 0 + 16384.
Proof. qunf. intros HT Hl H. split_ns e m1 s1 n1 f1 c1. split_t T q l. tri s1 q; lia. Qed.
Lemma inst_le_floor1 T d : 0 <= T -> T mod 65536 <= 61036 -> T <= floor_ns d + 1 -> inst T <= Z.max d 0 + 16384.
Proof. qunf. intros HT Hl H. split_ns d m1 s1 n1 f1 c1. split_t T q l. tri s1 q; lia. Qed.
