(** Extraction of the Layer T model and monitors for the correspondence check.
    ExtrOcamlBasic only: Z stays the Coq datatype. *)
From Coq Require Import Extraction ExtrOcamlBasic ZArith List.
From Stk Require Import Lib.U Gen.SrcTimers T.Model T.Spec.
Extraction Language OCaml.
Extraction "extracted/t_model.ml" tstep t_init mon_step s_init v_ok v_and Z.of_nat Z.to_nat.
