(** Machine-integer operations used by the generated code (coq/Gen): an overflow-checking
    option monad over Z.  [None] is the panic a debug build raises on arithmetic overflow;
    whenever the result is [Some v], a release build computes the same [v]. *)
From Coq Require Import ZArith Bool List.
Local Open Scope Z_scope.

Definition obind {A B} (o : option A) (f : A -> option B) : option B :=
  match o with Some x => f x | None => None end.
Notation "x <- e ;; k" := (obind e (fun x => k)) (at level 61, e at next level, right associativity).
Notation "' p <- e ;; k" := (obind e (fun x => match x with p => k end))
  (at level 61, p pattern, e at next level, right associativity).

Definition cadd32 (a b : Z) : option Z := if a + b <? 4294967296 then Some (a + b) else None.
Definition cadd64 (a b : Z) : option Z := if a + b <? 18446744073709551616 then Some (a + b) else None.
Definition csub (a b : Z) : option Z := if b <=? a then Some (a - b) else None.
Definition cmul32 (a b : Z) : option Z := if a * b <? 4294967296 then Some (a * b) else None.
Definition cmul64 (a b : Z) : option Z := if a * b <? 18446744073709551616 then Some (a * b) else None.
Definition cdiv (a b : Z) : option Z := if b =? 0 then None else Some (a / b).
Definition cmod (a b : Z) : option Z := if b =? 0 then None else Some (a mod b).
(* Rust checks only the shift amount; bits shifted out are lost silently *)
Definition shl32 (a k : Z) : option Z := if k <? 32 then Some ((a * 2 ^ k) mod 4294967296) else None.
Definition shl64 (a k : Z) : option Z := if k <? 64 then Some ((a * 2 ^ k) mod 18446744073709551616) else None.
Definition shr32 (a k : Z) : option Z := if k <? 32 then Some (a / 2 ^ k) else None.
Definition shr64 (a k : Z) : option Z := if k <? 64 then Some (a / 2 ^ k) else None.
Definition lnot32 (a : Z) : Z := 4294967295 - a.
Definition lnot64 (a : Z) : Z := 18446744073709551615 - a.
Definition as_i32 (a : Z) : Z := if a <? 2147483648 then a else a - 4294967296.
Definition leading_zeros64 (a : Z) : Z := if a <=? 0 then 64 else 63 - Z.log2 a.
Definition leading_zeros32 (a : Z) : Z := if a <=? 0 then 32 else 31 - Z.log2 a.
Definition next_pow2_64 (a : Z) : option Z :=
  let r := if a <=? 1 then 1 else 2 ^ Z.log2_up a in
  if r <? 18446744073709551616 then Some r else None.

Definition oget (d : Z) (o : option Z) : Z := match o with Some v => v | None => d end.
