(** Property C17: the flat (unsafe) queue is observationally identical to the boxed queue.
    Only the property theorems live here; each is closed by [exact] of a lemma of coq/Q. *)
From Coq Require Import ZArith List Bool Lia.
From Stk Require Import Lib.U Gen.SrcFlat Q.Monitor Q.Arith Q.Flat Q.Boxed Q.Sys Q.FlatProofs Q.SysProofs Q.FlatSafety.
Import ListNotations.
Local Open Scope Z_scope.

(** Main theorem.  For every number of queues [n], every behaviour [prog] of running closures (the
    pushes a closure performs onto other queues when it runs, as a function of the closure AS READ BACK
    from the queue), every sequence [ops] of push / push_box / execute / is_empty / drop over closures
    of any size, any power-of-two alignment, any captured bytes, with any 8-aligned address answered by
    the allocator for every buffer: if the flat queue completes the sequence with events [evs] and
    final states [fs], then the boxed queue completes it with exactly the same events (same closures
    run in the same order with bit-identical captured bytes, same closures dropped un-run, same
    is_empty answers), ends in the abstraction [map abs fs], and every flat queue still delivers
    exactly its abstraction. *)
Theorem flat_refines_boxed :
  forall (prog : entry -> list pushreq) (n : nat) (ops : list op) (evs : list ev) (fs : list fq),
  prog_wf prog -> Forall op_wf ops ->
  run flat_impl prog (init flat_impl n) ops = Ok (evs, fs) ->
  run boxed_impl prog (init boxed_impl n) ops = Ok (evs, map abs fs) /\
  Forall (fun q => fq_drop q = Ok (abs q) /\ fq_is_empty q = bq_is_empty (abs q)) fs.
Proof. exact flat_refines_boxed_run. Qed.
Print Assumptions flat_refines_boxed.

(** The geometry monitor: what verif_geometry() may report in any reachable state (apply to prefixes of
    [ops] for the intermediate states).  [geom_ok] is the predicate evaluated on the REAL traces. *)
Theorem flat_geometry_ok :
  forall (prog : entry -> list pushreq) (n : nat) (ops : list op) (evs : list ev) (fs : list fq),
  prog_wf prog -> Forall op_wf ops ->
  run flat_impl prog (init flat_impl n) ops = Ok (evs, fs) ->
  Forall (fun q => geom_ok (fq_geometry q) = true) fs.
Proof. exact flat_geom_ok_run. Qed.
Print Assumptions flat_geometry_ok.

(** The flat queue never stops for a reason of its own: the only errors of the model on any operation
    sequence are arithmetic overflow / Layout failure (excluded under size bounds by
    [flat_push_total]) and misuse of the test API (bad queue index, push onto the executing queue).
    So the assertion of expand_storage, the debug assertions, the bounds checks and the
    "cell read back is what was written" checks never fail. *)
Theorem flat_no_bug_error :
  forall (prog : entry -> list pushreq) (n : nat) (ops : list op) (er : err),
  prog_wf prog -> Forall op_wf ops ->
  run flat_impl prog (init flat_impl n) ops = Err er ->
  (er = EOverflow \/ er = ELayout) \/ er = ENestedSelf \/ er = EBadQueue.
Proof. exact flat_no_bug. Qed.
Print Assumptions flat_no_bug_error.

(** No arithmetic overflow under explicit size hypotheses (capacity <= 2^61, closure size <= 2^60,
    alignment <= 2^59, allocator answers <= 2^62, current buffer inside the address space). *)
Theorem flat_push_total :
  forall (q : fq) (ents : list entry) (e : entry) (nb : Z),
  fq_inv q ents -> entry_wf e -> base_ok nb -> push_small q e nb ->
  exists q', fq_push q e nb = Ok q' /\ fq_inv q' (ents ++ [e]) /\
    hv_base (fq_cur q') + hv_cap (fq_cur q') < W64.
Proof. exact push_total. Qed.
Print Assumptions flat_push_total.

(** Execution order of the flat queue = push order, for any push sequence (reused by C01). *)
Theorem flat_exec_order_eq :
  forall (l : list (entry * Z)) (q : fq),
  Forall (fun '(e, nb) => entry_wf e /\ base_ok nb) l ->
  push_all fq_new l = Ok q ->
  exists q', fq_execute q = Ok (map fst l, q') /\ fq_is_empty q' = true.
Proof. exact exec_order_eq. Qed.
Print Assumptions flat_exec_order_eq.

(** Every VP/data access of a reachable buffer is inside the allocation and aligned; regions of
    distinct accesses are disjoint (reused by C16). *)
Theorem flat_accesses_ok :
  forall (h : hvec) (items : list bitem), hv_wf h ->
  repr (hv_mem h) (hv_base h) items (hv_base h + hv_len h) ->
  let acc := accesses (hv_base h) items in
  Forall (fun '(a, n, al) => flat_access_ok h a n al = true /\ a + n <= hv_base h + hv_len h) acc /\
  (forall i j a n al a' n' al', (i < j)%nat ->
     nth_error acc i = Some (a, n, al) -> nth_error acc j = Some (a', n', al') -> a + n <= a').
Proof. exact accesses_ok. Qed.
Print Assumptions flat_accesses_ok.

(** The mask expression of hvec::align, as generated from the source: for every power of two and
    every address 1 <= p < 2^64 it is the least multiple of the alignment that is >= p (or the
    overflow panic when that is not a usize). *)
Theorem align_ptr_is_round_up :
  forall k p, 0 <= k -> 1 <= p < W64 ->
  align_ptr p (2 ^ k) = if up p (2 ^ k) <? W64 then Some (up p (2 ^ k)) else None.
Proof. exact align_ptr_spec. Qed.
Print Assumptions align_ptr_is_round_up.

Theorem up_is_least_multiple :
  forall p a, 0 < a -> up p a mod a = 0 /\ p <= up p a /\ forall m, m mod a = 0 -> p <= m -> up p a <= m.
Proof. exact up_is_least. Qed.
Print Assumptions up_is_least_multiple.

(** [req] (generated) is an upper bound of what a push consumes from an 8-aligned fill level. *)
Theorem req_bounds_consumption :
  forall p size k r, 0 <= k -> 0 <= size -> p mod 8 = 0 -> push_req size (2 ^ k) = Some r ->
  up (up (p + 8) (2 ^ k) + size) 8 <= p + r.
Proof. exact req_bounds. Qed.
Print Assumptions req_bounds_consumption.

(** The new allocation of expand_storage (generated): a power of two >= INITIAL_ALLOCATION, larger than
    the old capacity and the requirement, at most twice the larger of them. *)
Theorem expand_size_is_next_pow2 :
  forall cap req2 s, 0 <= cap -> 0 <= req2 -> expand_size cap req2 = Some s ->
  exists j, 0 <= j /\ s = 2 ^ j /\ INITIAL_ALLOCATION <= s /\ cap < s /\ req2 < s /\
    s <= Z.max (2 * INITIAL_ALLOCATION) (2 * Z.max cap req2) /\ s < W64.
Proof. exact expand_size_some. Qed.
Print Assumptions expand_size_is_next_pow2.

(* ------------------------------------------------------------------ *)
(** Satisfiability of the hypotheses: a non-trivial run with two queues, a closure with a 64-byte
    alignment, a zero-sized closure, a push_box, a 2000-byte closure that forces an expansion with
    the old buffer chained, a nested push onto the other queue, is_empty, execute, drop. *)
Definition ex_entry (id size align : Z) : entry :=
  {| e_id := id; e_size := size; e_align := align; e_data := repeat id (Z.to_nat size) |}.

Lemma ex_entry_wf id size k : 0 <= size -> 0 <= k -> entry_wf (ex_entry id size (2 ^ k)).
Proof.
  intros Hs Hk. unfold entry_wf, ex_entry. cbn [e_size e_align e_data].
  split; [assumption|]. split; [eauto|]. rewrite repeat_length. lia.
Qed.

Definition ex_push (q : nat) (bx : bool) (e : entry) (b : Z) : pushreq :=
  {| p_queue := q; p_boxed := bx; p_entry := e; p_base := b |}.

Definition ex_prog (e : entry) : list pushreq :=
  if e_id e =? 2 then [ex_push 1 false (ex_entry 7 5 (2 ^ 0)) 65544] else [].

Definition ex_ops : list op :=
  [ OPush (ex_push 0 false (ex_entry 1 3 (2 ^ 0)) 4096);
    OPush (ex_push 0 false (ex_entry 2 100 (2 ^ 6)) 4096);
    OPush (ex_push 0 false (ex_entry 3 0 (2 ^ 4)) 4096);
    OPush (ex_push 0 true (ex_entry 4 16 (2 ^ 3)) 4096);
    OPush (ex_push 0 false (ex_entry 5 2000 (2 ^ 2)) 8200);
    OIsEmpty 0; OIsEmpty 1;
    OExecute 0;
    OIsEmpty 0; OIsEmpty 1;
    OPush (ex_push 1 false (ex_entry 6 9 (2 ^ 7)) 65544);
    ODrop 1 ].

Example ex_prog_wf : prog_wf ex_prog.
Proof.
  intros e. unfold ex_prog. destruct (e_id e =? 2); constructor; [|constructor].
  unfold pushreq_wf, base_ok, pushed_entry, ex_push. cbn [p_base p_boxed p_entry].
  split; [split; [lia|reflexivity]|]. apply ex_entry_wf; lia.
Qed.

Example ex_ops_wf : Forall op_wf ex_ops.
Proof.
  assert (Hbox : entry_wf (box_wrap (ex_entry 4 16 (2 ^ 3)))).
  { unfold entry_wf, box_wrap. cbn. split; [lia|]. split; [exists 3; split; [lia|reflexivity]|reflexivity]. }
  unfold ex_ops.
  repeat (apply Forall_cons;
    [ first [ exact I
            | unfold op_wf, pushreq_wf, base_ok, pushed_entry, ex_push; cbn [p_base p_boxed p_entry];
              split; [split; [lia|reflexivity]|]; first [exact Hbox | apply ex_entry_wf; lia] ] | ]).
  apply Forall_nil.
Qed.

Example ex_run_completes :
  exists fs, run flat_impl ex_prog (init flat_impl 2) ex_ops =
    Ok ([ EvEmpty false; EvEmpty true;
          EvRun (ex_entry 1 3 1); EvRun (ex_entry 2 100 64); EvRun (ex_entry 3 0 16);
          EvRun (box_wrap (ex_entry 4 16 8)); EvRun (ex_entry 5 2000 4);
          EvEmpty true; EvEmpty false;
          EvDrop (ex_entry 7 5 1); EvDrop (ex_entry 6 9 128) ], fs)
    /\ map fq_is_empty fs = [ true; true ].
Proof. eexists. split; vm_compute; reflexivity. Qed.

(** the hypotheses of [flat_push_total] hold for the empty queue and a 4 KiB, 128-aligned closure *)
Example ex_push_small : fq_inv fq_new [] /\ entry_wf (ex_entry 9 4096 (2 ^ 7)) /\ base_ok 4096 /\
  push_small fq_new (ex_entry 9 4096 (2 ^ 7)) 4096.
Proof.
  split; [apply fq_inv_new|]. split; [apply ex_entry_wf; lia|]. split; [split; [lia|reflexivity]|].
  unfold push_small, SMALL, W64. cbn. lia.
Qed.
