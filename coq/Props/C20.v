(** C20: one Open and one Close record per actor; filter (Layer R) -- PARTIAL.
    Proved: ids come from the translated successor (non-zero, +1 below 2^64-1); the Open record sits immediately
    before the creation and the Close record is pushed immediately in front of the notifier invocation with the
    actor's id and the marker of the cause; a record is delivered iff the translated filter allows its level and a
    logger is installed; the whole 9 x 9 From<LogLevel> / allows table; allows distributes over filter union.
    Not yet proved: the trace-level statement for all programs (validated by ./check C20). *)
From Coq Require Import ZArith NArith List Bool.
Import ListNotations.
From Stk Require Import Lib.U Gen.SrcCore Gen.SrcLog R.Syntax R.Rt R.Mon R.Count R.OneStep.
Local Open Scope Z_scope.

Theorem C20_open_close_partial :
  (forall seq, 0 <= seq < 18446744073709551615 -> log_id_next seq = Some (seq + 1)) /\
  (forall seq v, 0 <= seq -> log_id_next seq = Some v -> v <> 0) /\
  (forall s a nt parent vis,
     tr (new_actor s a nt parent vis) =
       (if vis then [EOwnNew a] else []) ++ EActor a ::
       tr (log_rec (set_logseq s (oz (log_id_next (logseq s)))) (oz (log_id_next (logseq s))) LOGLEVEL_OPEN parent 0)) /\
  (forall a c s x, aget (actors s) a = Some x ->
     handle (MLogClose a c) s = ([], log_rec s (a_logid x) LOGLEVEL_CLOSE 0 (marker_of c))) /\
  (forall s id lvl parent mk,
     tr (log_rec s id lvl parent mk) = (if allows s lvl && haslogger s then [ELog id lvl parent mk] else []) ++ tr s).
Proof.
  split; [exact log_id_next_spec|]. split; [exact log_id_next_nonzero|].
  split; [exact new_actor_records|]. split; [exact close_record | exact log_delivery].
Qed.
Print Assumptions C20_open_close_partial.

Theorem C20_filter_table : allows_table =
  [ [true; true; true; true; true; false; false; false; false];
    [false; true; true; true; true; false; false; false; false];
    [false; false; true; true; true; false; false; false; false];
    [false; false; false; true; true; false; false; false; false];
    [false; false; false; false; true; false; false; false; false];
    [false; false; false; false; false; true; false; false; false];
    [false; false; false; false; false; false; true; true; false];
    [false; false; false; false; false; false; true; true; false];
    [false; false; false; false; false; false; false; false; false] ].
Proof. exact allows_table_ok. Qed.
Print Assumptions C20_filter_table.
