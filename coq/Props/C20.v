(** C20: one Open and one Close record per actor, fresh LogIDs, parent ids, the filter is respected (Layer R). *)
From Coq Require Import ZArith NArith List Bool.
Import ListNotations.
From Stk Require Import Lib.U Gen.SrcCore Gen.SrcLog R.Syntax R.Rt R.Mon R.Count R.C20Proofs.
Local Open Scope Z_scope.

(* For every program, fuel and deferrer kind: the monitor C20_ok (R/Mon.v) holds of the observable part of the trace
   of a terminated execution of the model.  [observable] removes exactly the events that exist only on the model
   side (printed with a leading '~': class flags and the marker of the field phase of Stakker::drop); the real
   interpreter never prints them.  C20_ok says: every actor creation is immediately preceded by its Open record iff a
   logger is installed and the filter allows Open; the record's id is non-zero and greater than every id handed out
   before in this Stakker; its parent is the id of the actor whose method is running (0 at top level); a
   termination notification with a cause is immediately preceded by the Close record with the same id and the
   marker of the cause iff the filter allows Close; Core::log delivers a record iff the filter allows the level;
   no other records appear; LogFilter queries agree with the translated filter functions.
   The bound: LogIDs are u64 counters (wrapping_add(1).max(1) in the code, translated in Gen/SrcLog.v): the statement
   is for executions that emit fewer than 2^64 - 1 events. *)
Theorem C20_open_close_filter : forall (d : dkind) (p : list top) (fuel : nat) (t : list ev),
  exec d fuel p = Done t -> Z.of_nat (length t) < 18446744073709551615 -> C20_ok (observable t) = true.
Proof. exact C20_proved. Qed.
Print Assumptions C20_open_close_filter.

(* the hypotheses are satisfiable and the statement is not vacuous: a parent and a child actor, Open records with
   and without parent id, a Close record, user records delivered / filtered *)
Example C20_example :
  exists t, exec DGlobal 600
    [TNew 0; TSetLogger [2; 6; 7];
     TDo [ANewActor 1 1 None; ACallPrep 1 (Clo 1 0 0 [] [ALog 2; ALog 1]) true;
          ACall 1 (Clo 2 0 0 [] [ANewActor 2 2 None; ACallPrep 2 (Clo 3 0 0 [] []) true; AStop])];
     TRun 2 false] = Done t
    /\ Z.of_nat (length t) < 18446744073709551615
    /\ In (ELog 1 LOGLEVEL_OPEN 0 0) t /\ In (ELog 2 LOGLEVEL_OPEN 1 0) t /\ In (ELog 1 LOGLEVEL_CLOSE 0 0) t
    /\ In (ELog 1 LOGLEVEL_INFO 0 0) t /\ ~ In (ELog 1 LOGLEVEL_DEBUG 0 0) t.
Proof. exact C20_nontrivial. Qed.

(* the whole From<LogLevel> / allows table of the translated filter functions *)
Theorem C20_filter_table : allows_table =
  [ [true; true; true; true; true; false; false; false; false];
    [false; true; true; true; true; false; false; false; false];
    [false; false; true; true; true; false; false; false; false];
    [false; false; false; true; true; false; false; false; false];
    [false; false; false; false; true; false; false; false; false];
    [false; false; false; false; false; true; false; false; false];
    [false; false; false; false; false; false; true; true; false];
    [false; false; false; false; false; false; true; true; false];
    [false; false; false; false; false; false; false; false; false] ].
Proof. exact allows_table_ok. Qed.
Print Assumptions C20_filter_table.
