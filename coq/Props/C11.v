(** C11 - Waker: no wake-up is ever lost, and it publishes the waker's writes.

    Model: coq/W/Waker.v (interleaving semantics of sync/waker.rs with the generated index arithmetic
    and ORDERING constant of coq/Gen/SrcWaker.v).  All theorems quantify over every script family,
    any number of threads and wakers, and every schedule ([reachable] = reachable by [wrun] from [winit]).
    Assumption A-SC (DESIGN.md, section 6/C11): executions of the real code are sequentially consistent
    interleavings of its atomic operations; proof level for the hardware memory model: partial. *)
From Coq Require Import ZArith List Bool.
From Stk Require Import Lib.U Gen.SrcWaker W.Waker W.WakerCore W.WakerRefine W.WakerProofs.
Import ListNotations.
Local Open Scope Z_scope.

(** The coverage invariant: every set leaf bit is covered by its summary bit, or by the main thread's
    pending-to-visit set, or by an identified in-flight [wake] between its two fetch_ors; likewise
    summary -> top; top non-zero => notified, or the main thread is about to swap it, or an in-flight
    [wake] that invokes the callback unconditionally on its remaining path; an owed wake-up is a set
    leaf bit of the handler's slot, a collected bit whose handler call is pending, or a pending call. *)
Theorem C11_coverage_invariant : forall st, reachable st -> coverage st.
Proof. exact coverage_invariant. Qed.
Print Assumptions C11_coverage_invariant.

(** In every reachable state with no [BitMap::set] in flight, the main thread outside [poll_wake]
    and no notification unserved, no wake-up is owed to any handler. *)
Theorem C11_not_stranded : forall st, reachable st -> quiescent st -> forall h, ~ owed st h.
Proof. exact not_stranded. Qed.
Print Assumptions C11_not_stranded.

(** The translated ordering of every bitmap operation is at least acquire-release
    (a weaker [ORDERING] in the source makes this fail). *)
Theorem C11_ordering : ordering_ok = true.
Proof. exact ordering_ok_true. Qed.
Print Assumptions C11_ordering.
