(** C11 - Waker: no wake-up is ever lost, and it publishes the waker's writes.

    Model: coq/W/Waker.v (interleaving semantics of sync/waker.rs with the generated index arithmetic
    and ORDERING constant of coq/Gen/SrcWaker.v).  All theorems quantify over every script family,
    any number of threads and wakers, and every schedule ([reachable] = reachable by [wrun] from [winit]).
    Assumption A-SC (DESIGN.md, section 6/C11): executions of the real code are sequentially consistent
    interleavings of its atomic operations; proof level for the hardware memory model: partial. *)
From Coq Require Import ZArith List Bool.
From Stk Require Import Lib.U Gen.SrcWaker W.Waker W.WakerCore W.WakerRefine W.WakerProofs W.WakerGhost W.WakerClock.
Import ListNotations.
Local Open Scope Z_scope.

(** The coverage invariant: every set leaf bit is covered by its summary bit, or by the main thread's
    pending-to-visit set, or by an identified in-flight [wake] between its two fetch_ors; likewise
    summary -> top; top non-zero => notified, or the main thread is about to swap it, or an in-flight
    [wake] that invokes the callback unconditionally on its remaining path; an owed wake-up is a set
    leaf bit of the handler's slot, a collected bit whose handler call is pending, or a pending call. *)
Theorem C11_coverage_invariant : forall st, reachable st -> coverage st.
Proof. exact coverage_invariant. Qed.
Print Assumptions C11_coverage_invariant.

(** In every reachable state with no [BitMap::set] in flight, the main thread outside [poll_wake]
    and no notification unserved, no wake-up is owed to any handler. *)
Theorem C11_not_stranded : forall st, reachable st -> quiescent st -> forall h, ~ owed st h.
Proof. exact not_stranded. Qed.
Print Assumptions C11_not_stranded.

(** The translated ordering of every bitmap operation is at least acquire-release
    (a weaker [ORDERING] in the source makes this fail). *)
Theorem C11_ordering : ordering_ok = true.
Proof. exact ordering_ok_true. Qed.
Print Assumptions C11_ordering.

(** [owed st h] becomes true only in a step that contains the leaf [fetch_or] of a [wake] (its first
    atomic, its linearisation point), and becomes false only in a step in which a call of the handler
    of [h] starts: the handler call that clears an owed wake-up follows the wake's first atomic. *)
Theorem C11_handler_after_wake : forall st t st' ev h,
  wstep st t = (st', ev) ->
  (~ owed st h -> owed st' h -> exists e, In e ev /\ is_leaf_or e) /\
  (owed st h -> ~ owed st' h -> exists d, In (EHandler h d) ev).
Proof. exact handler_after_wake. Qed.
Print Assumptions C11_handler_after_wake.

(** Publication (happens-before on vector clocks; needs the translated ORDERING to be AcqRel or SeqCst):
    the clock of the waking thread at its leaf [fetch_or] is below the clock of the thread that later
    swaps that leaf word, from the swap on - hence at every handler call that follows the collection. *)
Theorem C11_publishes : forall st0 t st1 ev1 w o n ord,
  ordering_ok = true -> (1 <= nthr st0)%nat ->
  wstep st0 t = (st1, ev1) -> In (EAtomic w FetchOr o n ord) ev1 ->
  forall mid u st3 ev3 o' n' ord',
    wstep (fst (wrun st1 mid)) u = (st3, ev3) -> In (EAtomic w Swap o' n' ord') ev3 ->
    (u < nthr (fst (wrun st1 mid)))%nat ->
    forall after, vle (tclk (thr (tick st0 t) t)) (tclk (thr (fst (wrun st3 after)) u)).
Proof. exact publishes. Qed.
Print Assumptions C11_publishes.
