(** C01: deferred calls run exactly once, in submission order (Layer R; queue internals: Layer Q / C17). *)
From Coq Require Import ZArith NArith List.
Import ListNotations.
From Stk Require Import R.Syntax R.Rt R.Mon R.C01Proofs.

(* For every program, fuel and deferrer kind: if the model terminates with trace t and the program is
   outside class DropDepth99 of known finding F4 (the drain loop of Stakker::drop never gives up with closures
   still queued), then the executable predicate C01_ok holds of t: conservation (one outcome per submission),
   FIFO, nothing pending when run returns, nothing runs during Stakker::drop and its drain loop leaves
   nothing queued. *)
Theorem C01_exactly_once_fifo : forall (d : dkind) (p : list top) (fuel : nat) (t : list ev),
  exec d fuel p = Done t -> ~ In (EModel M_DRAINLEFT 0) t -> C01_ok t = true.
Proof. exact C01_proved. Qed.
Print Assumptions C01_exactly_once_fifo.

(* Known finding F4: the class is inhabited and C01_ok fails there (chain of 100 closures each deferring the
   next from its Drop; TEARDOWN_ROUNDS is the translated constant of core.rs). *)
Theorem F4_refuted :
  exists t, exec DGlobal 3000 f4_prog = Done t /\ has_flag t = true /\ C01_ok t = false.
Proof. exact F4_refuted_model. Qed.
Print Assumptions F4_refuted.

(* hypotheses satisfiable by a non-trivial program *)
Example C01_example :
  exists t, exec DGlobal 300 [TNew 0; TDo [ADefer (Clo 1 0 0 [] [ADefer (Clo 2 0 0 [] []); ALazy (Clo 3 0 0 [] [])]);
                                         ADeferD (Clo 4 0 0 [] [])]; TRun 2 false; TDo [ADefer (Clo 5 0 0 [] [])]] = Done t
            /\ ~ In (EModel M_DRAINLEFT 0) t /\ In (ERun 3%N 2%Z QMain) t /\ In (EDrop 5%N (Some QMain) false) t.
Proof. exact C01_nontrivial. Qed.
