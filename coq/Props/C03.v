(** C03: an actor terminates once (Layer R) -- PARTIAL.
    Proved: one termination makes the cell a Zombie and takes the notifier (so a later termination cannot notify
    again), the Close record and the notifier invocation are pushed together, stop/fail is first-writer-wins.
    Not yet proved: the trace-level statement for all programs (validated by ./check C03); known findings F5/F7. *)
From Coq Require Import ZArith NArith List.
Import ListNotations.
From Stk Require Import Lib.U R.Syntax R.Rt R.Mon R.Eff R.Count R.OneStep.

Theorem C03_once_partial :
  (forall a c s pre s' x,
     terminate a c s = (pre, s') -> aget (actors s) a = Some x ->
     (exists x', aget (actors s') a = Some x' /\ a_state x' = SZombie /\ a_notify x' = None) /\
     match a_notify x with
     | Some nt => exists dl, pre = dl ++ [MLogClose a c; MRetInvoke nt (Some (MCause c))] /\ poppers dl = []
     | None => poppers pre = [] /\ forall nt m, In (MRetInvoke nt m) pre -> False
     end) /\
  (forall a p loc d rest s pre s' act,
     frames s = mkFrame (XCx a p) loc (Some d) :: rest -> (act = AStop \/ exists e, act = AFail e) ->
     do_act act s = (pre, s') -> exists loc', frames s' = mkFrame (XCx a p) loc' (Some d) :: rest).
Proof.
  split.
  - intros. split; [eapply terminate_zombie; eauto | eapply terminate_notifies_once; eauto].
  - exact die_first_wins.
Qed.
Print Assumptions C03_once_partial.
