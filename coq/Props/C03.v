(** C03: an actor terminates once (Layer R) -- PARTIAL (lifecycle conjunct proved for all programs).
    The C03 monitor is the exact product of two monitors (R/LinC03Mon.v, [C03_decomposition]): L (lifecycle) and
    K (cause).  Proved for every program, deferrer kind and fuel ([C03_lifecycle]): if the trace reports no leaked
    closure / actor value / notifier (decidable on the trace; false only inside F5 / F7 and the two situations listed
    with C05: self-reference cycle, inline-deferrer leftover) then L accepts it: every actor moves Prep -> Ready ->
    Zombie or Prep -> Zombie and never leaves Zombie, is_zombie() is true from the notification on, the notifier is
    invoked exactly once, the actor's own value is dropped exactly once, only after Ready and not after a notification
    with a cause, and neither a notifier nor a value is owed at the end.
    Also kept: the one-step facts [C03_once_partial].
    Not yet proved: K (the cause notified is the first stop/fail of the body / a requested kill / Dropped; the value
    is not dropped while a method of the actor runs): validated by ./check C03; known findings F5/F7. *)
From Coq Require Import ZArith NArith List Bool.
Import ListNotations.
From Stk Require Import Lib.U R.Syntax R.Rt R.Mon R.Eff R.Count R.OneStep.
From Stk Require Import R.LinC05Core R.C05Proofs R.LinC03Mon R.C03Proofs.

Theorem C03_once_partial :
  (forall a c s pre s' x,
     terminate a c s = (pre, s') -> aget (actors s) a = Some x ->
     (exists x', aget (actors s') a = Some x' /\ a_state x' = SZombie /\ a_notify x' = None) /\
     match a_notify x with
     | Some nt => exists dl, pre = dl ++ [MLogClose a c; MRetInvoke nt (Some (MCause c))] /\ poppers dl = []
     | None => poppers pre = [] /\ forall nt m, In (MRetInvoke nt m) pre -> False
     end) /\
  (forall a p loc d rest s pre s' act,
     frames s = mkFrame (XCx a p) loc (Some d) :: rest -> (act = AStop \/ exists e, act = AFail e) ->
     do_act act s = (pre, s') -> exists loc', frames s' = mkFrame (XCx a p) loc' (Some d) :: rest).
Proof.
  split.
  - intros. split; [eapply terminate_zombie; eauto | eapply terminate_notifies_once; eauto].
  - exact die_first_wins.
Qed.
Print Assumptions C03_once_partial.

(* C03_ok is implied by the lifecycle monitor and the cause monitor together *)
Theorem C03_decomposition : forall t : list ev, okL t = true -> okK t = true -> C03_ok t = true.
Proof. exact C03_split. Qed.
Check C03_decomposition.
Print Assumptions C03_decomposition.

(* the lifecycle conjunct, for every program, deferrer kind and fuel *)
Theorem C03_lifecycle : forall (d : dkind) (p : list top) (fuel : nat) (t : list ev),
  exec d fuel p = Done t -> no_container_leak t -> okL t = true.
Proof. exact C03_lifecycle_proved. Qed.
Check C03_lifecycle.
Print Assumptions C03_lifecycle.

(* boolean form of the hypothesis, as evaluated by the check on the real traces *)
Theorem C03_lifecycle_checked : forall (d : dkind) (p : list top) (fuel : nat) (t : list ev),
  exec d fuel p = Done t -> ncl_b t = true -> okL t = true.
Proof. intros d p fuel t H B. exact (C03_lifecycle_proved d p fuel t H (ncl_of_b t B)). Qed.
Print Assumptions C03_lifecycle_checked.

(* satisfiable, non-trivially: stop + fail in one body, kill of a Prep actor holding a call, owner drop, is_zombie *)
Example C03_example :
  exists t, exec DGlobal 3000 c03_prog = Done t /\ ncl_b t = true /\ okL t = true /\ C03_ok t = true /\
            In (ENotify 1 (Some CStop)) t /\ In (ENotify 2 (Some (CKill 9))) t /\ In (ENotify 3 (Some CDrop)) t /\
            In (EValDrop 1) t /\ In (EValDrop 3) t /\ In (EIsZombie 1 true) t.
Proof. exact C03_lifecycle_nontrivial. Qed.
