(** C03: an actor terminates once (Layer R) -- FULL under one trace-decidable hypothesis.
    [C03_terminates_once]: for every program, deferrer kind and fuel, if the machine terminates with trace t and t
    reports no leaked closure / actor value / notifier ([no_container_leak], decidable on the trace: [ncl_b]), then
    C03_ok t = true: every actor moves Prep -> Ready -> Zombie or Prep -> Zombie and never leaves Zombie, is_zombie()
    is true from the notification on, the notifier is invoked exactly once with the cause of a termination request
    actually issued - the first to take effect (first stop/fail of the body, a requested kill, or Dropped), the
    actor's own value is dropped exactly once, no later than that notification and never while one of its methods runs.
    The hypothesis cannot be dropped: it is false exactly in the known-finding classes F5 / F7 and for an actor storing
    a reference to itself ([C03_F5_refuted], [C03_F7_refuted], [C03_selfcycle_refuted] of R/C03Proofs.v, where the
    notifier / value is never released and C03_ok is false).
    Architecture (layerRproofs2): the monitor is the exact product of L (lifecycle) and K (cause) ([C03_decomposition]);
    L from the Lin census ([C03_lifecycle]); K for every run without hypothesis ([C03_cause]) using the reference census
    of R/LinRef*.v (a cell is never freed while one of its own methods runs).
    Also kept: the one-step facts [C03_once_partial]. *)
From Coq Require Import ZArith NArith List Bool.
Import ListNotations.
From Stk Require Import Lib.U R.Syntax R.Rt R.Mon R.Eff R.Count R.OneStep.
From Stk Require Import R.LinC05Core R.C05Proofs R.LinC03Mon R.LinC03K R.C03Proofs R.C03Full.
From Stk Require Import R.MonX R.C03D.

Theorem C03_once_partial :
  (forall a c s pre s' x,
     terminate a c s = (pre, s') -> aget (actors s) a = Some x ->
     (exists x', aget (actors s') a = Some x' /\ a_state x' = SZombie /\ a_notify x' = None) /\
     match a_notify x with
     | Some nt => exists dl, pre = dl ++ [MLogClose a c; MRetInvoke nt (Some (MCause c))] /\ poppers dl = []
     | None => poppers pre = [] /\ forall nt m, In (MRetInvoke nt m) pre -> False
     end) /\
  (forall a p loc d rest s pre s' act,
     frames s = mkFrame (XCx a p) loc (Some d) :: rest -> (act = AStop \/ exists e, act = AFail e) ->
     do_act act s = (pre, s') -> exists loc', frames s' = mkFrame (XCx a p) loc' (Some d) :: rest).
Proof.
  split.
  - intros. split; [eapply terminate_zombie; eauto | eapply terminate_notifies_once; eauto].
  - exact die_first_wins.
Qed.
Print Assumptions C03_once_partial.

(* the property: for every program, deferrer kind and fuel *)
Theorem C03_terminates_once : forall (d : dkind) (p : list top) (fuel : nat) (t : list ev),
  exec d fuel p = Done t -> no_container_leak t -> C03_ok t = true.
Proof. exact C03_full. Qed.
Check C03_terminates_once.
Print Assumptions C03_terminates_once.

(* boolean form of the hypothesis, as evaluated by the check on the real traces *)
Theorem C03_terminates_once_checked : forall (d : dkind) (p : list top) (fuel : nat) (t : list ev),
  exec d fuel p = Done t -> ncl_b t = true -> C03_ok t = true.
Proof. exact C03_full_checked. Qed.
Print Assumptions C03_terminates_once_checked.

(* C03_ok is implied by the lifecycle monitor and the cause monitor together *)
Theorem C03_decomposition : forall t : list ev, okL t = true -> okK t = true -> C03_ok t = true.
Proof. exact C03_split. Qed.
Print Assumptions C03_decomposition.

(* the lifecycle conjunct *)
Theorem C03_lifecycle : forall (d : dkind) (p : list top) (fuel : nat) (t : list ev),
  exec d fuel p = Done t -> no_container_leak t -> okL t = true.
Proof. exact C03_lifecycle_proved. Qed.
Print Assumptions C03_lifecycle.

(* the cause conjunct: no hypothesis *)
Theorem C03_cause : forall (d : dkind) (p : list top) (fuel : nat) (t : list ev),
  exec d fuel p = Done t -> okK t = true.
Proof. exact C03_cause_full. Qed.
Print Assumptions C03_cause.

(* the cause Dropped is delivered only for a request that was actually issued: when a notifier is invoked with
   Dropped the trace shows no visible owner of that actor (global / thread-local deferrer, below counter saturation).
   The check evaluates C03_ok && C03_dropped_ok on the real traces. *)
Theorem C03_dropped_cause_issued : forall (p : list top) (fuel : nat) (t : list ev),
  exec DGlobal fuel p = Done t -> (Z.of_nat (length t) < CMAX - 1)%Z -> C03_dropped_ok t = true.
Proof. exact C03_dropped_cause_issued_proved. Qed.
Print Assumptions C03_dropped_cause_issued.

(* satisfiable, non-trivially: stop + fail in one body, kill of a Prep actor holding a call, owner drop, is_zombie *)
Example C03_example :
  exists t, exec DGlobal 3000 c03_prog = Done t /\ ncl_b t = true /\ okL t = true /\ C03_ok t = true /\
            In (ENotify 1 (Some CStop)) t /\ In (ENotify 2 (Some (CKill 9))) t /\ In (ENotify 3 (Some CDrop)) t /\
            In (EValDrop 1) t /\ In (EValDrop 3) t /\ In (EIsZombie 1 true) t.
Proof. exact C03_lifecycle_nontrivial. Qed.
