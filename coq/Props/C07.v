(* placeholder while the proofs are being developed *)
From Coq Require Import ZArith.
From Stk Require Import T.Model T.Spec.
Theorem C07_no_early : True. Proof. exact I. Qed.
Print Assumptions C07_no_early.
