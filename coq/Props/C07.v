(** Property C07: no timer fires early.
    Only property theorems live here; each is closed by [exact] of a lemma of coq/T. *)
From Coq Require Import ZArith List Bool.
From Stk Require Import Lib.U Gen.SrcTimers T.Model T.Spec T.Inv T.Rel T.Main T.Witness.
Import ListNotations.
Local Open Scope Z_scope.

(** For every good history (fewer than 2^31 - 2 operations; instants and durations below 2^61 ns;
    no verification-hook pokes, i.e. outside the classes GenWrap / SeqWrap of the known findings
    F2 / F3; pairwise distinct callback ids; every key operation uses a key the API returned for
    that kind of timer, or the Default key), run on the model of src/timers/mod.rs from
    [Timers::new]: the C07 monitor of T/Spec.v is true at every operation - every callback
    reported by a run belongs to a timer whose effective expiry (the instant given; the greatest /
    smallest instant given to a Max / Min timer) is at or before the runtime's new current time;
    callbacks are produced by [run] only. *)
Theorem C07_no_early : forall ops, good ops -> v07 (mon_all (model_history ops)) = true.
Proof. exact C07_all. Qed.
Check C07_no_early : forall ops, good ops -> v07 (mon_all (model_history ops)) = true.
Print Assumptions C07_no_early.

(** the hypothesis is satisfiable by a non-trivial history, on which all monitors are true *)
Example C07_good_satisfiable : good good_ops /\ band_free good_ops.
Proof. exact good_ops_good. Qed.
Example C07_good_verdict : v_all (mon_all (model_history good_ops)) = true.
Proof. exact good_ops_verdict. Qed.
