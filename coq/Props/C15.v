(** C15: virtual time is monotone and uniform within a run (Layer R). *)
From Coq Require Import ZArith List.
Import ListNotations.
From Stk Require Import R.Syntax R.Rt R.Mon R.C15Proofs.

(* For every program, fuel and deferrer kind: the trace of a terminated execution of the model satisfies
   the executable predicate C15_ok (the same predicate is evaluated on the real traces by ./check C15). *)
Theorem C15_time : forall (d : dkind) (p : list top) (fuel : nat) (t : list ev),
  exec d fuel p = Done t -> C15_ok t = true.
Proof. exact C15_time_proved. Qed.
Print Assumptions C15_time.

(* hypotheses satisfiable by a non-trivial program *)
Example C15_example :
  exists t, exec DGlobal 200 [TNew 0; TDo [ADefer (Clo 1 0 0 [] [ANow]); AIdle (Clo 2 0 0 [] [ANow])]; TRun 5 false; TRun 9 true] = Done t
            /\ In (ERun 2%N 5%Z QIdle) t /\ In (ENum TAG_NOW 5%Z) t.
Proof. exact C15_nontrivial. Qed.
