(** C14 - PipedThread: ordered exactly-once traffic both ways, one termination notice.

    Model: coq/W/Waker.v (PipedThread::spawn/send/drop, PipedLink::send/recv/cancel, the worker's exit
    path with panic capture, the wake handler; mutex + condvar as SC lock + wait set, check-and-wait atomic).
    The executable monitor [C14_ok] (coq/W/Monitors.v) states the full property on traces and is
    evaluated on the REAL traces by the check.  Proved here, for every script, number of threads/pipes and
    schedule: the monitor itself on every model run ([C14_trace]), and (invariants [RvInv], [PqInv] of coq/W/Pipe.v)
    a blocked recv is never left sleeping, no reply is stranded, the reply wake-up reaches the pipe's own live handler. *)
From Coq Require Import ZArith List Bool.
From Stk Require Import Lib.U Gen.SrcWaker W.Waker W.WakerCore W.WakerRefine W.WakerProofs W.WakerGhost W.Pipe W.Monitors W.MonC14 W.MonC14b.
Import ListNotations.
Local Open Scope Z_scope.

(** FULL STATEMENT, trace form: the executable monitor [C14_ok] (coq/W/Monitors.v; the one the check evaluates on the
    REAL traces) is true on the trace of EVERY run of the model: all scripts, all numbers of threads and pipes, all
    schedules.  [C14_ok]: what [recv] returns to a worker is a prefix of what the main thread sent to its pipe, in
    order, nothing invented or duplicated; what [fwd_recv] gets is a prefix of what the worker sent, in order;
    nothing is forwarded after [fwd_term]; [fwd_term] at most once per pipe, with [panicked] = the worker ran
    [panic]; a [recv] / [send] / [cancel] that begins after the [PipedThread] was dropped answers
    None / false / true; in a quiescent state every worker [send] that returned has been forwarded and every worker
    that exited has had its [fwd_term].  Hypothesis [pnew_ok]: the [pnew] commands of the run name non-negative
    pipes (negative ids mean "no pipe" in the harness and the model).  Proof: coq/W/MonC14.v (relation [ERel]: the
    replies / termination half), coq/W/MonC14b.v (relation [FRel]: the half checked at command returns; [bad_split]
    and [wrun_EF]: the monitor's own step function never raises the flag). *)
Theorem C14_trace : forall scr sched,
  pnew_ok (flatten (wtrace scr sched)) -> C14_ok (flatten (wtrace scr sched)) false = true.
Proof. exact C14_monitor. Qed.
Print Assumptions C14_trace.

(** The replies / termination half on its own (used by [C14_trace]).  [C14r_ok] (coq/W/MonC14.v) is [C14_ok] for runs that are not aborted, over the
    step function [m14r_step]: every field of the monitor state is computed by the monitor's own [m14_step]; the flag
    is raised only by the checks made at [EFwdRecv] and [ETerm] events (the checks made at command returns - order of
    [recv] against the sends of the main thread, answers of [recv]/[send]/[cancel] after the drop - keep the old
    flag).  On every run of the model - all scripts, threads, pipes, schedules:
    what [fwd_recv] gets for pipe [p] is at every moment a prefix of the replies the worker of [p] queued with
    [send], in order, nothing invented, nothing twice; nothing is forwarded for [p] after its [fwd_term];
    [fwd_term] is called at most once per pipe, with [panicked] = the worker ran [panic]; and in a quiescent state
    every worker [send] that returned has been forwarded and every worker that exited has had its [fwd_term].
    Hypothesis [pnew_ok]: the [pnew] commands of the run name non-negative pipes (negative ids are "no pipe" in
    the harness and the model). *)
Theorem C14_replies_partial : forall scr sched,
  pnew_ok (flatten (wtrace scr sched)) -> C14r_ok (flatten (wtrace scr sched)) = true.
Proof. exact C14r_monitor. Qed.
Print Assumptions C14_replies_partial.

(** A blocked [recv] always wakes for a new message or for cancellation: a worker that waits on the condition
    variable of pipe [p] and has not been notified has nothing to receive and is not cancelled - unless a
    [notify] for [p] is about to be executed by some thread. *)
Theorem C14_recv_not_lost : forall st t p r0,
  reachable st -> tcont (thr st t) = ICvReacq p :: r0 -> twaiting (thr st t) = true ->
  (forall u, ~ In (INotify p) (tcont (thr st u))) ->
  psendq (pps st p) = [] /\ pcancel (pps st p) = false.
Proof. exact recv_not_lost. Qed.
Print Assumptions C14_recv_not_lost.

(** The decision to wait is taken under the mutex with nothing available, and the mutex is still held when the
    wait starts (check-and-wait is atomic with respect to [PipedThread::send] and the drop). *)
Theorem C14_recv_wait_decided : forall st t p r0,
  reachable st -> tcont (thr st t) = ICvWait p :: r0 ->
  psendq (pps st p) = [] /\ pcancel (pps st p) = false /\ owner st (MPq p) = Some t.
Proof. exact recv_wait_decided. Qed.
Print Assumptions C14_recv_wait_decided.

(** A non-empty reply queue always has a wake-up owed to the pipe's handler, or the worker is on its way to the
    leaf [fetch_or] of the pipe's slot. *)
Theorem C14_reply_queue_owed : forall st p,
  reachable st -> precvq (pps st p) <> [] ->
  owed st (HPipe p) \/ exists t bm a b, In (IClimb (KLeaf bm a b (Some (HPipe p)))) (tcont (thr st t)).
Proof. exact reply_queue_owed. Qed.
Print Assumptions C14_reply_queue_owed.

(** No reply is stranded: in a quiescent state in which no thread has a wake of pipe [p] left to do, every reply
    pushed with [PipedLink::send] has been taken by the pipe's handler (which forwards it to fwd_recv). *)
Theorem C14_replies_not_stranded : forall st p,
  reachable st -> quiescent st ->
  (forall t bm a b, ~ In (IClimb (KLeaf bm a b (Some (HPipe p)))) (tcont (thr st t))) ->
  precvq (pps st p) = [].
Proof. exact replies_not_stranded. Qed.
Print Assumptions C14_replies_not_stranded.

(** The wake of a reply is aimed at the pipe's own slot, and that slot still holds the pipe's handler: the worker
    drops its Waker (= the termination notice) only in its exit sequence, after its last command. *)
Theorem C14_reply_wake_hits_handler : forall st t bm a b p,
  reachable st -> In (IClimb (KLeaf bm a b (Some (HPipe p)))) (tcont (thr st t)) ->
  4096 * bm + 64 * a + b = wbit (pw (pps st p)) /\ slab_get (sl st) (wbit (pw (pps st p))) = Some (HPipe p).
Proof. exact reply_wake_hits_handler. Qed.
Print Assumptions C14_reply_wake_hits_handler.

(** No wake-up of a piped thread's handler is stranded (neither the one for a reply pushed on an empty
    queue nor the one of the worker's exit, which is the Waker drop): in every reachable quiescent state
    nothing is owed to the handler of pipe [p] or to the drop handler; an owed wake-up is only discharged
    by a step in which that handler starts. *)
Theorem C14_piped_partial : forall st p,
  reachable st ->
  (quiescent st -> ~ owed st (HPipe p) /\ ~ owed st HReserved) /\
  (forall t st' ev, wstep st t = (st', ev) -> owed st (HPipe p) -> ~ owed st' (HPipe p) ->
                    exists d, In (EHandler (HPipe p) d) ev).
Proof.
  intros st p R. split.
  - intro Q. split; [exact (not_stranded st R Q (HPipe p))|exact (not_stranded st R Q HReserved)].
  - intros t st' ev H. exact (proj2 (handler_after_wake st t st' ev (HPipe p) H)).
Qed.
Print Assumptions C14_piped_partial.
