(** C14 - PipedThread: ordered exactly-once traffic both ways, one termination notice.

    Model: coq/W/Waker.v (PipedThread::spawn/send/drop, PipedLink::send/recv/cancel, the worker's exit
    path with panic capture, the wake handler; mutex + condvar as SC lock + wait set, check-and-wait atomic).
    The executable monitor [C14_ok] (coq/W/Monitors.v) states the full property on traces and is
    evaluated on the REAL traces by the check.  Proved here so far (see docs/layer_w.md): the wake-up side. *)
From Coq Require Import ZArith List Bool.
From Stk Require Import Lib.U Gen.SrcWaker W.Waker W.WakerCore W.WakerRefine W.WakerProofs W.WakerGhost.
Import ListNotations.
Local Open Scope Z_scope.

(* FULL STATEMENT (not yet closed):
   forall scr sched, C14_ok (flatten (wtrace scr sched)) false = true *)

(** No wake-up of a piped thread's handler is stranded (neither the one for a reply pushed on an empty
    queue nor the one of the worker's exit, which is the Waker drop): in every reachable quiescent state
    nothing is owed to the handler of pipe [p] or to the drop handler; an owed wake-up is only discharged
    by a step in which that handler starts. *)
Theorem C14_piped_partial : forall st p,
  reachable st ->
  (quiescent st -> ~ owed st (HPipe p) /\ ~ owed st HReserved) /\
  (forall t st' ev, wstep st t = (st', ev) -> owed st (HPipe p) -> ~ owed st' (HPipe p) ->
                    exists d, In (EHandler (HPipe p) d) ev).
Proof.
  intros st p R. split.
  - intro Q. split; [exact (not_stranded st R Q (HPipe p))|exact (not_stranded st R Q HReserved)].
  - intros t st' ev H. exact (proj2 (handler_after_wake st t st' ev (HPipe p) H)).
Qed.
Print Assumptions C14_piped_partial.
