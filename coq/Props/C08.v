(** Property C08 (every live timer fires exactly once, on time; no call sequence panics).
    Only property theorems live here; each is closed by [exact] of a lemma of coq/T. *)
From Coq Require Import ZArith List Bool.
From Stk Require Import Lib.U Gen.SrcTimers T.Model T.Spec T.Inv T.InvProofs.
Import ListNotations.
Local Open Scope Z_scope.

(** No panic, structure preserved.  For every history [ops] of admissible operations ([ops_ok]:
    instants below 2^62 ns, no verification-hook pokes; keys are arbitrary) of at most
    HMAX = 2^31 - 2 operations, run from [Timers::new]: every operation returns (no overflow check
    fires, no index is out of bounds, no explicit panic!, no unwrap on None, the collision loop of
    [add] succeeds at its first iteration, the fuel of [advance] suffices), and the structural
    invariant [TInv] holds in the state reached - hence in every reachable state. *)
Theorem C08_no_panic :
  forall ops, Z.of_nat (length ops) <= HMAX -> ops_ok t_init ops ->
  let '(outs, sf) := trun t_init ops in
  length outs = length ops /\ Forall (fun o => o <> None) outs /\ TInv sf.
Proof. exact no_panic_from_init. Qed.
Check C08_no_panic :
  forall ops, Z.of_nat (length ops) <= HMAX -> ops_ok t_init ops ->
  let '(outs, sf) := trun t_init ops in
  length outs = length ops /\ Forall (fun o => o <> None) outs /\ TInv sf.
Print Assumptions C08_no_panic.

(** one operation: the step theorem behind it *)
Theorem C08_step_safe :
  forall s o n, TInv s -> counters_ok s n -> n < HMAX -> op_ok s o ->
  exists s' out, tstep s o = Some (s', out) /\ TInv s' /\ counters_ok s' (n + 1).
Proof. exact tstep_safe. Qed.
Print Assumptions C08_step_safe.

(** the hypotheses are satisfiable by a non-trivial history: all three kinds, updates in both
    directions (including a Min update into the past: the fixed finding F1), deletes, stale and
    Default keys, a long fixed timer, runs that jump over several 9-hour periods *)
Definition ex_ops : list top :=
  [ ORun 10000000000; OAddMin 100000000000 1; OModMin 1 0 1 5000000000; ONextExpiry; ORun 11000000000;
    OAdd 12000000000 2; OAfter 40000000000000 3; OAddMax 13000000000 4; OModMax 7 1 1 90000000000000;
    OAddMin 500000000000 5; OModMin 9 2 1 20000000000; ODel 5 2147483649 786432; ODelMax (-1) 0 0;
    OActMin 9 2 1; ONextWait 11500000000; ONextWaitMax 11500000000 1000 false;
    ORun 12500000000; ORun 40000000000; ORun 150000000000000; ONextExpiry; ONow ].
Example ex_ops_ok : Z.of_nat (length ex_ops) <= HMAX /\ ops_ok t_init ex_ops.
Proof. vm_compute. repeat split; try reflexivity; try discriminate. Qed.
Example ex_ops_outputs :
  fst (trun t_init ex_ops) =
  [ Some (RFired []); Some (RKey 0 1); Some (RBool true); Some (ROptNs (Some 10000016384)); Some (RFired [1]);
    Some (RKey 2147483649 786432); Some (RKey 0 2); Some (RKey 1 1); Some (RBool true);
    Some (RKey 2 1); Some (RBool true); Some (RBool true); Some (RBool false);
    Some (RBool true); Some (ROptNs (Some 1500000000)); Some (RNs 1000);
    Some (RFired []); Some (RFired [5]); Some (RFired [3; 4]); Some (ROptNs None); Some (RNs 150000000000000) ].
Proof. vm_compute. reflexivity. Qed.

(* placeholder until the on-time theorem lands (next milestone) *)
Theorem C08_on_time : True. Proof. exact I. Qed.
Print Assumptions C08_on_time.
