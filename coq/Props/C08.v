(* placeholder while the proofs are being developed *)
From Coq Require Import ZArith.
From Stk Require Import T.Model T.Spec.
Theorem C08_on_time : True. Proof. exact I. Qed.
Print Assumptions C08_on_time.
