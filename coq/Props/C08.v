(** Property C08: every live timer fires exactly once, on time; no call sequence panics.
    Only property theorems live here; each is closed by [exact] of a lemma of coq/T. *)
From Coq Require Import ZArith List Bool.
From Stk Require Import Lib.U Gen.SrcTimers T.Model T.Spec T.Inv T.InvProofs T.Rel T.Main T.Witness.
Import ListNotations.
Local Open Scope Z_scope.

(** For every good history the C08 monitor of T/Spec.v is true at every operation: no operation
    panics (the model history has no [None] output), every callback reported by a run belongs to a
    registered timer that is pending (so nothing fires twice), and after every run that advances
    time no pending timer remains whose deadline - max (effective expiry, time the expiry was last
    set) - lies one resolution step (2^14 ns) or more before the new current time.  Max timers
    honour the greatest, Min timers the smallest instant given (the specification's [ti_eff]). *)
Theorem C08_on_time : forall ops, good ops -> v08 (mon_all (model_history ops)) = true.
Proof. exact C08_all. Qed.
Check C08_on_time : forall ops, good ops -> v08 (mon_all (model_history ops)) = true.
Print Assumptions C08_on_time.

(** No panic, structure preserved, for ARBITRARY keys (not only well-keyed histories): for every
    history [ops] of admissible operations ([ops_ok]: instants below 2^62 ns, no pokes) of at most
    HMAX = 2^31 - 2 operations, every operation returns (no overflow check fires, no index is out of
    bounds, no explicit panic!, no unwrap on None, the collision loop of [add] succeeds at its first
    iteration, the fuel of [advance] suffices), and the structural invariant [TInv] holds in the
    state reached - hence in every reachable state. *)
Theorem C08_no_panic :
  forall ops, Z.of_nat (length ops) <= HMAX -> ops_ok t_init ops ->
  let '(outs, sf) := trun t_init ops in
  length outs = length ops /\ Forall (fun o => o <> None) outs /\ TInv sf.
Proof. exact no_panic_from_init. Qed.
Check C08_no_panic :
  forall ops, Z.of_nat (length ops) <= HMAX -> ops_ok t_init ops ->
  let '(outs, sf) := trun t_init ops in
  length outs = length ops /\ Forall (fun o => o <> None) outs /\ TInv sf.
Print Assumptions C08_no_panic.

(** one operation: the step theorem behind it *)
Theorem C08_step_safe :
  forall s o n, TInv s -> counters_ok s n -> n < HMAX -> op_ok s o ->
  exists s' out, tstep s o = Some (s', out) /\ TInv s' /\ counters_ok s' (n + 1).
Proof. exact tstep_safe. Qed.
Print Assumptions C08_step_safe.

(** the hypotheses are satisfiable by a non-trivial history *)
Example C08_good_satisfiable : good good_ops /\ band_free good_ops.
Proof. exact good_ops_good. Qed.
Example C08_good_verdict : v_all (mon_all (model_history good_ops)) = true.
Proof. exact good_ops_verdict. Qed.
Example C08_good_outputs :
  fst (trun t_init good_ops) =
  [ Some (RFired []); Some (RKey 0 1); Some (RBool true); Some (ROptNs (Some 10000016384)); Some (RFired [1]);
    Some (RKey 2147483649 786432); Some (RKey 0 2); Some (RKey 1 1); Some (RBool true);
    Some (RKey 2 1); Some (RBool true); Some (RBool true); Some (RBool false);
    Some (RBool true); Some (ROptNs (Some 1500000000)); Some (RNs 1000);
    Some (RFired []); Some (RFired [5]); Some (ROptNs (Some 32778000000000)); Some (RFired []);
    Some (ROptNs (Some 32807000000000)); Some (RFired [4; 3]); Some (ROptNs None); Some (RNs 150000000000000) ].
Proof. exact good_ops_outputs. Qed.
Example C08_ops_ok_satisfiable : Z.of_nat (length good_ops) <= HMAX /\ ops_ok t_init good_ops.
Proof. exact good_ops_ops_ok. Qed.
