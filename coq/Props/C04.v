(** C04: last owner gone => Dropped; never while owned (Layer R) -- PARTIAL.
    Proved: the translated strong count (rc/count.rs) is an exact counter below its saturation point: inc then dec
    returns to the same word and reports "went to zero" exactly for the last owner; dropping an owner queues the
    deferred terminate(Dropped) at the END of the main queue exactly in that case.  Not yet proved: the trace-level
    statement for all programs (validated by ./check C04); known finding F7. *)
From Coq Require Import ZArith NArith List.
Import ListNotations.
From Stk Require Import Lib.U Gen.SrcCount R.Syntax R.Rt R.Mon R.Count R.OneStep.
Local Open Scope Z_scope.

Theorem C04_owner_count_partial :
  (forall c st, 0 <= c < CMAX - 1 -> 0 <= st < 4 ->
     exists v, count_inc (pack c st) = Some v /\ count_dec v = Some (pack c st, c =? 0)) /\
  (forall c st, 0 < c < CMAX -> 0 <= st < 4 -> count_dec (pack c st) = Some (pack (c - 1) st, c =? 1)) /\
  (forall a lg s pre s' x v z,
     drop_own a lg s = (pre, s') -> aget (actors (if lg then emit s (EOwnDrop a) else s)) a = Some x ->
     count_dec (a_strong x) = Some (v, z) ->
     pre = [MDropRef a] /\ mainq s' = if z then mainq s ++ [CI 0 0 (KTerm a) [] None] else mainq s).
Proof.
  split; [exact count_inc_dec|]. split; [exact count_dec_spec | exact drop_own_defers].
Qed.
Print Assumptions C04_owner_count_partial.
