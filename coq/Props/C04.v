(** C04: last owner gone => Dropped; never while owned (Layer R) -- FULL for the global / thread-local deferrer.
    [C04_last_owner_dropped]: for every program and fuel, if the machine (global / thread-local deferrer) terminates
    with a trace t of fewer than CMAX-1 events, then C04_ok t = true.
    The two hypotheses are decidable on the trace / the build and cannot be dropped:
      - the inline deferrer is outside the claim: a kill! queued while no Stakker exists parks an owner that is never
        released ([C04_inline_deferrer_refuted]: C04_ok is false on the model trace);
      - the packed owner count saturates at CMAX = 2^62-1 and never comes down again ([C04_saturation]); a trace
        shorter than that cannot reach it.
    C04_ok (rev t) = okx chkN t && okx chkR t && okx chkS t  ([C04_monitor_split]: the monitor is a total state
    function [st04] plus three checks):
      [C04_notify_check]   at `notify a Dropped`: the trace shows no visible owner of a ([C04_never_dropped_while_owned])
          and every call to a that was pending when its last visible owner went has been started or discarded - the
          termination takes the drop's place in the main queue ([C04_drop_takes_queue_place]);
      [C04_runret_check]   at `runret`: every actor that lost its last visible owner (owned(), anon() and named handles)
          since the Stakker was created is notified ([C04_last_owner_terminates]), and so are the slab children
          (ActorOwnSlab) of every notified parent ([C04_slab_children_terminate]);
      [C04_slab_len]       at `slablen p n`: n is at least the number of children of p not yet notified and at most the
          number not notified at the last runret.
    Behind them ([C04_owner_census]): in every reachable configuration the count field of a cell's packed
    CountAndState word (generated count_inc / count_dec) = number of owner handles of that actor anywhere in the
    configuration (environment, frames, closure captures, Ret captures, actor state, slabs, held queues, queues,
    timers, queued kill! items, pending owner drops) = invisible owners (slab entries, kill! items, un-logged drops)
    + EOwnNew - EOwnDrop of the trace; the deferred terminate(Dropped) is queued exactly when it goes 1 -> 0.
    For the slab clauses (R/C04W*.v, C04K*.v, C04S*.v): a wrapper notifier refers to the slab entry that holds its
    child; at most one slab-removal item per entry, made only by that wrapper, run only inside run and never dropped
    un-run; a child occupies one entry of one parent, is not freed while it sits there (reference census of
    R/LinRef*.v), and when run returns no child in a slab is notified. *)
From Coq Require Import ZArith NArith List Bool.
Import ListNotations.
From Stk Require Import Lib.U Gen.SrcCount R.Syntax R.Rt R.Mon R.Count R.OneStep.
From Stk Require Import R.Own R.OwnLaw R.OwnVis R.C04Mon R.C04Base R.C04A3 R.C04B2 R.C04N R.C04K2 R.C04S2.
Local Open Scope Z_scope.

Theorem C04_owner_count_partial :
  (forall c st, 0 <= c < CMAX - 1 -> 0 <= st < 4 ->
     exists v, count_inc (pack c st) = Some v /\ count_dec v = Some (pack c st, c =? 0)) /\
  (forall c st, 0 < c < CMAX -> 0 <= st < 4 -> count_dec (pack c st) = Some (pack (c - 1) st, c =? 1)) /\
  (forall a lg s pre s' x v z,
     drop_own a lg s = (pre, s') -> aget (actors (if lg then emit s (EOwnDrop a) else s)) a = Some x ->
     count_dec (a_strong x) = Some (v, z) ->
     pre = [MDropRef a] /\ mainq s' = if z then mainq s ++ [CI 0 0 (KTerm a) [] None] else mainq s).
Proof.
  split; [exact count_inc_dec|]. split; [exact count_dec_spec | exact drop_own_defers].
Qed.
Print Assumptions C04_owner_count_partial.

(* the monitor = total state function + three checks *)
Theorem C04_monitor_split : forall t : list ev, C04_ok (rev t) = okx chkN t && okx chkR t && okx chkS t.
Proof. exact C04_ok_rev. Qed.
Print Assumptions C04_monitor_split.

(* the owner census is an invariant of every step *)
Theorem C04_owner_census : forall k s k' s',
  CallInv.KS s -> dk s = DGlobal -> Z.of_nat (length (tr s)) < CMAX - 1 -> OI k s -> step k s = Some (k', s') -> OI k' s'.
Proof. exact step_OI. Qed.
Print Assumptions C04_owner_census.

(* never notified Dropped while a visible owner exists *)
Theorem C04_never_dropped_while_owned : forall (p : list top) (fuel : nat) (t : list ev),
  exec DGlobal fuel p = Done t -> Z.of_nat (length t) < CMAX - 1 ->
  forall t1 a t2, t = t1 ++ ENotify a (Some CDrop) :: t2 -> vis a (rev t1) <= 0.
Proof. exact C04_never_while_owned_spec. Qed.
Print Assumptions C04_never_dropped_while_owned.

Theorem C04_never_dropped_while_owned_chk : forall (p : list top) (fuel : nat) (t : list ev),
  exec DGlobal fuel p = Done t -> Z.of_nat (length t) < CMAX - 1 -> okx chkN1 (rev t) = true.
Proof. exact C04_never_while_owned_proved. Qed.
Print Assumptions C04_never_dropped_while_owned_chk.


(* the termination takes the drop's place in the main queue: calls pending when the last visible owner went are
   processed before the Dropped notification; with the previous theorem: the whole check made at `notify a Dropped` *)
Theorem C04_drop_takes_queue_place : forall (p : list top) (fuel : nat) (t : list ev),
  exec DGlobal fuel p = Done t -> Z.of_nat (length t) < CMAX - 1 -> okx chkN2 (rev t) = true.
Proof. exact C04_drop_takes_queue_place_proved. Qed.
Print Assumptions C04_drop_takes_queue_place.

Theorem C04_notify_check : forall (p : list top) (fuel : nat) (t : list ev),
  exec DGlobal fuel p = Done t -> Z.of_nat (length t) < CMAX - 1 -> okx chkN (rev t) = true.
Proof. exact C04_notify_check_proved. Qed.
Print Assumptions C04_notify_check.

(* last owner gone => notified by the time run returns *)
Theorem C04_last_owner_terminates : forall (p : list top) (fuel : nat) (t : list ev),
  exec DGlobal fuel p = Done t -> Z.of_nat (length t) < CMAX - 1 -> okx chkR1 (rev t) = true.
Proof. exact C04_last_owner_terminates_proved. Qed.
Print Assumptions C04_last_owner_terminates.

(* the slab children of a notified parent are notified by the time run returns *)
Theorem C04_slab_children_terminate : forall (p : list top) (fuel : nat) (t : list ev),
  exec DGlobal fuel p = Done t -> Z.of_nat (length t) < CMAX - 1 -> okx chkR2 (rev t) = true.
Proof. exact C04_slab_children_terminate_proved. Qed.
Print Assumptions C04_slab_children_terminate.

(* the whole check made when run returns *)
Theorem C04_runret_check : forall (p : list top) (fuel : nat) (t : list ev),
  exec DGlobal fuel p = Done t -> Z.of_nat (length t) < CMAX - 1 -> okx chkR (rev t) = true.
Proof. exact C04_runret_check_proved. Qed.
Check C04_runret_check.
Print Assumptions C04_runret_check.

(* slab.len(): between the children not yet notified and those not notified at the last runret *)
Theorem C04_slab_len : forall (p : list top) (fuel : nat) (t : list ev),
  exec DGlobal fuel p = Done t -> Z.of_nat (length t) < CMAX - 1 -> okx chkS (rev t) = true.
Proof. exact C04_slab_len_proved. Qed.
Print Assumptions C04_slab_len.

(* the property: for every program and fuel, global / thread-local deferrer, below the saturation point *)
Theorem C04_last_owner_dropped : forall (p : list top) (fuel : nat) (t : list ev),
  exec DGlobal fuel p = Done t -> Z.of_nat (length t) < CMAX - 1 -> C04_ok t = true.
Proof. exact C04_proved. Qed.
Check C04_last_owner_dropped.
Print Assumptions C04_last_owner_dropped.

(* chkR is the conjunction of its two clauses *)
Theorem C04_runret_split : forall t, okx chkR t = okx chkR1 t && okx chkR2 t.
Proof. exact chkR_okx. Qed.
Print Assumptions C04_runret_split.

(* satisfiable, non-trivially: a parent with two slab children stops, both children are notified Dropped in the same run;
   a parent with one slab child loses its last owner *)
Definition c04_slab : list top :=
  [TNew 0;
   TDo [ANewActor 1 1 None; ACallPrep 1 (Clo 1 0 0 [] []) true;
        ACall 1 (Clo 2 0 0 [] [ASlabAdd 5 2 None; ASlabAdd 6 3 None; ASlabLen; AStop])];
   TRun 1 false;
   TDo [ANewActor 7 4 None; ACallPrep 7 (Clo 3 0 0 [] []) true; ACall 7 (Clo 4 0 0 [] [ASlabAdd 8 5 None; ASlabLen])];
   TRun 2 false;
   TDo [ADropH 7];
   TRun 3 false].

Example C04_slab_example :
  exists t, exec DGlobal 3000 c04_slab = Done t /\ Z.of_nat (length t) < CMAX - 1 /\ C04_ok t = true /\
            In (ESlabAdd 1 2) t /\ In (ESlabAdd 1 3) t /\ In (ESlabLen 1 2) t /\ In (ENotify 1 (Some CStop)) t /\
            In (ENotify 2 (Some CDrop)) t /\ In (ENotify 3 (Some CDrop)) t /\
            In (ESlabAdd 4 5) t /\ In (ENotify 4 (Some CDrop)) t /\ In (ENotify 5 (Some CDrop)) t /\
            okx chkR2 (rev t) = true.
Proof.
  eexists. split; [vm_compute; reflexivity|]. split; [vm_compute; reflexivity|]. split; [vm_compute; reflexivity|].
  repeat (split; [simpl; tauto|]). vm_compute; reflexivity.
Qed.

(* satisfiable, non-trivially: owned() / anon() owners dropped in any order with a call pending, a kill! holding a hidden
   owner past the last visible one *)
Definition c04_prog : list top :=
  [TNew 0;
   TDo [ANewActor 1 1 None; ACallPrep 1 (Clo 1 0 0 [] []) true; AOwned 1 2; AAnon 2 3; ACall 1 (Clo 2 0 0 [] []);
        ADropH 1; ADropH 3];
   TRun 1 false;
   TDo [ANewActor 4 2 None; AKillAsync 4 7; ADropH 4];
   TRun 2 false].

Example C04_example :
  exists t, exec DGlobal 3000 c04_prog = Done t /\ Z.of_nat (length t) < CMAX - 1 /\ C04_ok t = true /\
            In (ENotify 1 (Some CDrop)) t /\ In (ENotify 2 (Some (CKill 7))) t /\
            okx chkN1 (rev t) = true /\ okx chkR1 (rev t) = true.
Proof.
  eexists. split; [vm_compute; reflexivity|]. split; [vm_compute; reflexivity|]. split; [vm_compute; reflexivity|].
  split; [simpl; tauto|]. split; [simpl; tauto|]. split; vm_compute; reflexivity.
Qed.

(* the inline deferrer is outside the claim: a kill! queued while no Stakker exists is forgotten with its owner *)
Definition c04_inline : list top :=
  [TNew 0; TDo [ANewActor 1 1 None]; TDropStakker; TDo [AKillAsync 1 5]; TNew 0; TDo [ADropH 1]; TRun 0 false].

Example C04_inline_deferrer_refuted :
  (exists t, exec DInline 2000 c04_inline = Done t /\ C04_ok t = false /\ okx chkR1 (rev t) = false) /\
  (exists t, exec DGlobal 2000 c04_inline = Done t /\ C04_ok t = true).
Proof. split; eexists; (split; [vm_compute; reflexivity|]); repeat split; vm_compute; reflexivity. Qed.

(* the bound: at CMAX the generated count saturates (inc is the identity) and never comes down again *)
Example C04_saturation :
  count_inc (pack CMAX 0) = Some (pack CMAX 0) /\ count_dec (pack CMAX 0) = Some (pack CMAX 0, false) /\
  count_inc (pack (CMAX - 1) 0) = Some (pack CMAX 0).
Proof. vm_compute. repeat split. Qed.
