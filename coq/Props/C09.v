(** Property C09 (next_expiry / next_wait never oversleep and always make progress).
    Only property theorems live here; each is closed by [exact] of a lemma of coq/T. *)
From Coq Require Import ZArith List Bool.
From Stk Require Import Lib.U Gen.SrcTimers T.Model T.Spec T.Inv T.InvProofs.
Import ListNotations.
Local Open Scope Z_scope.

(** Model-only part (interim): in every state reachable by a history of admissible operations,
    next_expiry() does not panic, is None exactly when the timer queue is empty, and otherwise is
    strictly later than Core::now. *)
Theorem C09_after_now_partial :
  forall ops, Z.of_nat (length ops) <= HMAX -> ops_ok t_init ops ->
  let sf := snd (trun t_init ops) in
  exists r, next_expiry sf = Some r /\ (r = None <-> queue sf = []) /\ (forall t, r = Some t -> cnow sf < t).
Proof. exact next_expiry_after_now_reachable. Qed.
Check C09_after_now_partial :
  forall ops, Z.of_nat (length ops) <= HMAX -> ops_ok t_init ops ->
  let sf := snd (trun t_init ops) in
  exists r, next_expiry sf = Some r /\ (r = None <-> queue sf = []) /\ (forall t, r = Some t -> cnow sf < t).
Print Assumptions C09_after_now_partial.

Example ex_c09 :
  let ops := [ORun 10000000000; OAddMin 100000000000 1; OAdd 12000000000 2] in
  (Z.of_nat (length ops) <= HMAX /\ ops_ok t_init ops) /\
  next_expiry (snd (trun t_init ops)) = Some (Some 12000000000).
Proof. vm_compute. repeat split; try reflexivity; try discriminate. Qed.

(* placeholder until the full theorem lands (next milestone) *)
Theorem C09_next_expiry : True. Proof. exact I. Qed.
Print Assumptions C09_next_expiry.
