(** Property C09: next_expiry / next_wait never oversleep and always make progress.
    Only property theorems live here; each is closed by [exact] of a lemma of coq/T. *)
From Coq Require Import ZArith List Bool.
From Stk Require Import Lib.U Gen.SrcTimers T.Model T.Spec T.Inv T.InvProofs T.Rel T.Main T.Witness.
Import ListNotations.
Local Open Scope Z_scope.

(** For every good history the C09 monitor of T/Spec.v is true at every operation:
    next_expiry() is None exactly when no timer is pending, otherwise strictly later than
    Core::now and at most one resolution step after the earliest pending deadline ([ne_ok]);
    next_wait and next_wait_max agree with it (saturating at zero, capped by maxdur, zero when
    [pending]); and the FULL drain clause [vprog]: in a loop that repeatedly runs at exactly the
    instant next_expiry() announced, the number of consecutive rounds never exceeds the budget
    [drain_budget] fixed when the loop started (8 + 64 per pending timer + 32 per pending timer and
    started 32767 s of remaining time) - so every pending timer fires after a bounded number of
    iterations.  Proved with a potential function ([Rel.Phi]) that every evaluated queue entry
    lowers by at least one. *)
Theorem C09_next_expiry : forall ops, good ops -> v09 (mon_all (model_history ops)) = true.
Proof. exact C09_all. Qed.
Check C09_next_expiry : forall ops, good ops -> v09 (mon_all (model_history ops)) = true.
Print Assumptions C09_next_expiry.

(** strict progress on the model alone (arbitrary keys): a run at the instant announced by
    next_expiry() moves Core::now to it, and afterwards every queued key is strictly later than
    the key that was announced *)
Theorem C09_progress :
  forall s n t, TInv s -> counters_ok s n -> n < HMAX -> next_expiry s = Some (Some t) -> t < TMAX ->
  exists s' f e1 q, queue s = e1 :: q /\ tstep s (ORun t) = Some (s', RFired f) /\ TInv s' /\
    cnow s < t /\ cnow s' = t /\
    forall y, In y (queue s') -> Tof (now s) (e_wt e1) < Tof (now s') (e_wt y).
Proof. exact run_at_next_expiry_progress. Qed.
Print Assumptions C09_progress.

(** in every state reachable with arbitrary keys: next_expiry() does not panic, is None exactly
    when the queue is empty, and otherwise is strictly later than Core::now *)
Theorem C09_after_now_partial :
  forall ops, Z.of_nat (length ops) <= HMAX -> ops_ok t_init ops ->
  let sf := snd (trun t_init ops) in
  exists r, next_expiry sf = Some r /\ (r = None <-> queue sf = []) /\ (forall t, r = Some t -> cnow sf < t).
Proof. exact next_expiry_after_now_reachable. Qed.
Print Assumptions C09_after_now_partial.

Example C09_good_satisfiable : good good_ops /\ band_free good_ops.
Proof. exact good_ops_good. Qed.
Example C09_good_verdict : v_all (mon_all (model_history good_ops)) = true.
Proof. exact good_ops_verdict. Qed.
