(* placeholder while the proofs are being developed *)
From Coq Require Import ZArith.
From Stk Require Import T.Model T.Spec.
Theorem C09_next_expiry : True. Proof. exact I. Qed.
Print Assumptions C09_next_expiry.
