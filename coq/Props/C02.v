(** C02: calls to an actor run in the order made, gated by its lifecycle (Layer R).
    Proved for every program of the DSL and every amount of fuel (global / thread-local deferrer): the monitor
    C02_ok (coq/R/Mon.v) holds of the trace of a terminated execution.  That is:
    - a method call starts (EMeth a u) only while actor a is Ready, only if u is the OLDEST call to a that was
      queued and has neither started nor been dropped (calls held while a was in Prep included), and only once;
    - a Prep call starts (EPrep a u) only while a is in Prep, once;
    - an actor becomes Ready (EReady a) only from Prep;
    - a queued call is discarded (EDrop u (Some _) true) only if its target has been notified as terminated, or
      the queues are being torn down (Stakker created / dropped), or else the termination notification of the
      target comes before anything else starts and before run returns.
    (With the inline deferrer a call submitted while no Stakker exists is forgotten without a drop event, so
    the statement is for DGlobal, as for the calls conjunct of C06.)
    See coq/R/C02Proofs.v and docs/layer_r.md. *)
From Coq Require Import ZArith NArith List.
Import ListNotations.
From Stk Require Import Lib.U Gen.SrcCount R.Syntax R.Rt R.Mon R.Count R.OneStep R.C02Proofs.
Local Open Scope Z_scope.

Theorem C02_fifo_lifecycle : forall (p : list top) (fuel : nat) (t : list ev),
  exec DGlobal fuel p = Done t -> C02_ok t = true.
Proof. exact C02_proved. Qed.
Print Assumptions C02_fifo_lifecycle.

Example C02_example :
  exists t, exec DGlobal 600
    [TNew 0;
     TDo [ANewActor 1 1 None; ACall 1 (Clo 1 0 0 [] []); ACall 1 (Clo 2 0 0 [] []); ACallPrep 1 (Clo 3 0 0 [] []) true;
          ANewActor 2 2 None; ACall 2 (Clo 4 0 0 [] []); ACallPrep 2 (Clo 5 0 0 [] [AFail 7]) false];
     TRun 2 false] = Done t
    /\ In (EReady 1%N) t /\ In (EMeth 1%N 1%N 2) t /\ In (EMeth 1%N 2%N 2) t
    /\ In (EDrop 4%N (Some QMain) true) t /\ In (ENotify 2%N (Some (CFail 7%N))) t.
Proof. exact C02_nontrivial. Qed.

(* the monitor rejects: a call overtaking an earlier one; a method started on an actor that is not Ready; a
   discarded call without the termination notification of its target before run returns *)
Example C02_monitor_table :
  C02_ok [EActor 1; ETarget 1 1 false; ETarget 2 1 false; ESub QMain 1 true; ESub QMain 2 true; EReady 1; EMeth 1 1 0; EMeth 1 2 0] = true /\
  C02_ok [EActor 1; ETarget 1 1 false; ETarget 2 1 false; ESub QMain 1 true; ESub QMain 2 true; EReady 1; EMeth 1 2 0; EMeth 1 1 0] = false /\
  C02_ok [EActor 1; ETarget 1 1 false; ESub QMain 1 true; EMeth 1 1 0] = false /\
  C02_ok [EActor 1; ETarget 1 1 false; ESub QMain 1 true; EReady 1; EDrop 1 (Some QMain) true; ERunRet false] = false /\
  C02_ok [EActor 1; ETarget 1 1 false; ESub QMain 1 true; EReady 1; EDrop 1 (Some QMain) true; ENotify 1 None; ERunRet false] = true.
Proof. exact C02_monitor_rejects. Qed.

(* one-item facts about the machine (kept from the earlier partial result) *)
Theorem C02_order_gating_partial :
  (* a Ready call starts only on a Ready actor, is held at the END of the held list of a Prep actor, and is
     discarded for a Zombie *)
  (forall u i a b arg caps q s pre s',
     run_item (CI u i (KMeth a b arg) caps q) s = (pre, s') ->
     match aget (actors s) a with
     | Some x =>
         match a_state x with
         | SReady _ _ _ => tr s' = EMeth a u (now s) :: tr s
         | SPrep held => tr s' = tr s /\ pre = [] /\
                         exists x', aget (actors s') a = Some x' /\ a_state x' = SPrep (held ++ [CI u i (KMeth a b arg) caps q])
         | SZombie => tr s' = tr s /\ pre = [MDropInner (CI u i (KMeth a b arg) caps q); MDropRef a]
         end
     | None => True
     end) /\
  (* becoming Ready runs the held calls at once, in the order they were held *)
  (forall a s pre s' x held,
     handle (MToReady a) s = (pre, s') -> aget (actors s) a = Some x -> a_state x = SPrep held ->
     pre = map MRunItem held /\ tr s' = EReady a :: tr s /\
     exists x', aget (actors s') a = Some x' /\ a_state x' = SReady [] [] 0%N) /\
  (* the packed bits answer is_prep / is_zombie exactly as the state of the (count, state) pair *)
  (forall c st, 0 <= c <= CMAX -> 0 <= st < 4 ->
     count_is_prep (pack c st) = Some (st =? 0) /\ count_is_zombie (pack c st) = Some (st =? 2)).
Proof.
  split; [exact call_gating|]. split; [exact to_ready_flush|].
  intros c st Hc Hs. split; [apply is_prep_spec | apply is_zombie_spec]; auto.
Qed.
Print Assumptions C02_order_gating_partial.
