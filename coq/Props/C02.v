(** C02: calls to an actor run in the order made, gated by its lifecycle (Layer R) -- PARTIAL.
    Proved: the gating and ordering facts of the machine at the level of one queue item, and the agreement of the
    packed state bits (translated rc/count.rs) with the (count, state) pair.  Not yet proved: the trace-level
    statement [forall p fuel t, exec d fuel p = Done t -> C02_ok t = true] (validated by ./check C02 on every real
    and model trace).  See docs/layer_r.md. *)
From Coq Require Import ZArith NArith List.
Import ListNotations.
From Stk Require Import Lib.U Gen.SrcCount R.Syntax R.Rt R.Mon R.Count R.OneStep.
Local Open Scope Z_scope.

Theorem C02_order_gating_partial :
  (* a Ready call starts only on a Ready actor, is held at the END of the held list of a Prep actor, and is
     discarded for a Zombie *)
  (forall u i a b arg caps q s pre s',
     run_item (CI u i (KMeth a b arg) caps q) s = (pre, s') ->
     match aget (actors s) a with
     | Some x =>
         match a_state x with
         | SReady _ _ _ => tr s' = EMeth a u (now s) :: tr s
         | SPrep held => tr s' = tr s /\ pre = [] /\
                         exists x', aget (actors s') a = Some x' /\ a_state x' = SPrep (held ++ [CI u i (KMeth a b arg) caps q])
         | SZombie => tr s' = tr s /\ pre = [MDropInner (CI u i (KMeth a b arg) caps q); MDropRef a]
         end
     | None => True
     end) /\
  (* becoming Ready runs the held calls at once, in the order they were held *)
  (forall a s pre s' x held,
     handle (MToReady a) s = (pre, s') -> aget (actors s) a = Some x -> a_state x = SPrep held ->
     pre = map MRunItem held /\ tr s' = EReady a :: tr s /\
     exists x', aget (actors s') a = Some x' /\ a_state x' = SReady [] [] 0%N) /\
  (* the packed bits answer is_prep / is_zombie exactly as the state of the (count, state) pair *)
  (forall c st, 0 <= c <= CMAX -> 0 <= st < 4 ->
     count_is_prep (pack c st) = Some (st =? 0) /\ count_is_zombie (pack c st) = Some (st =? 2)).
Proof.
  split; [exact call_gating|]. split; [exact to_ready_flush|].
  intros c st Hc Hs. split; [apply is_prep_spec | apply is_zombie_spec]; auto.
Qed.
Print Assumptions C02_order_gating_partial.
