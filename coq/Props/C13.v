(** C13 - Channel delivers each message once, in per-sender order, until closed.

    Model: coq/W/Waker.v (Channel::new/send/is_closed/close and the channel's wake handler are part of
    the same interleaving machine as the wake bitmap; the channel mutex is a modelled SC lock).
    The executable monitor [C13_ok] (coq/W/Monitors.v) states the full property on traces and is
    evaluated on the REAL traces by the check.  Proved here, for every script, number of threads and
    schedule: the monitor itself on every model run ([C13_trace], coq/W/MonC13.v), and the state form of
    "no accepted message is lost or stranded" and of the close semantics (invariant [ChInv], coq/W/Chan.v). *)
From Coq Require Import ZArith List Bool.
From Stk Require Import Lib.U Gen.SrcWaker W.Waker W.WakerCore W.WakerRefine W.WakerProofs W.WakerGhost W.Chan W.Monitors W.MonC13.
Import ListNotations.
Local Open Scope Z_scope.

(** FULL STATEMENT, trace form: the executable monitor [C13_ok] (every accepted message forwarded exactly once, never
    twice, never after the close has completed, in per-sender order; after the close [send] is not accepted and
    [is_closed] answers true; at quiescence every accepted message has been forwarded or its channel's close has
    begun) is true on the trace of EVERY run of the model: all scripts, all numbers of threads and channels, all
    schedules.  Hypothesis: the send commands of the run carry pairwise distinct (channel, message) pairs - the
    monitor identifies a message by this pair (the check's generators produce distinct messages).
    [send_keys tr] = the (channel, message) pairs of the [ECmd (CSend c x)] events of [tr], in order. *)
Theorem C13_trace : forall scr sched,
  NoDup (send_keys (flatten (wtrace scr sched))) ->
  C13_ok (flatten (wtrace scr sched)) false = true.
Proof. exact C13_monitor. Qed.
Print Assumptions C13_trace.

(** While the channel is open, a non-empty queue always has a wake-up owed to the channel's handler. *)
Theorem C13_queue_owed : forall st c,
  reachable st -> copen (chs st c) = true -> cq (chs st c) <> [] -> owed st (HChan c).
Proof. exact chan_queue_owed. Qed.
Print Assumptions C13_queue_owed.

(** No accepted message is stranded: in every reachable quiescent state the queue of an open channel has been
    taken by its handler, and no sender is left between its decision to push and the push. *)
Theorem C13_not_stranded : forall st c,
  reachable st -> quiescent st -> copen (chs st c) = true ->
  cq (chs st c) = [] /\ forall t m, ~ In (IUnlock (MCh c) (UChPush c m)) (tcont (thr st t)).
Proof. exact chan_not_stranded. Qed.
Print Assumptions C13_not_stranded.

(** Once the close has completed (no thread is about to clear the queue under the mutex), the queue of a closed
    channel is empty: nothing can be forwarded from it any more, and [send] on it pushes nothing. *)
Theorem C13_closed_empty : forall st c,
  reachable st -> copen (chs st c) = false ->
  (forall t, ~ In (IUnlock (MCh c) (UChClear c)) (tcont (thr st t))) -> cq (chs st c) = [].
Proof. exact chan_closed_empty. Qed.
Print Assumptions C13_closed_empty.

(** No wake-up of a channel's handler is ever stranded: in every reachable quiescent state nothing is
    owed to the handler of channel [c]; and an owed wake-up of that handler is only discharged by a
    step in which the handler (which takes the whole queue under the lock) starts. *)
Theorem C13_channel_partial : forall st c,
  reachable st ->
  (quiescent st -> ~ owed st (HChan c)) /\
  (forall t st' ev, wstep st t = (st', ev) -> owed st (HChan c) -> ~ owed st' (HChan c) ->
                    exists d, In (EHandler (HChan c) d) ev).
Proof.
  intros st c R. split.
  - intro Q. exact (not_stranded st R Q (HChan c)).
  - intros t st' ev H. exact (proj2 (handler_after_wake st t st' ev (HChan c) H)).
Qed.
Print Assumptions C13_channel_partial.
