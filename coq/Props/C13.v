(** C13 - Channel delivers each message once, in per-sender order, until closed.

    Model: coq/W/Waker.v (Channel::new/send/is_closed/close and the channel's wake handler are part of
    the same interleaving machine as the wake bitmap; the channel mutex is a modelled SC lock).
    The executable monitor [C13_ok] (coq/W/Monitors.v) states the full property on traces and is
    evaluated on the REAL traces by the check.  Proved here so far (see docs/layer_w.md for what is
    missing): the wake-up side of the property. *)
From Coq Require Import ZArith List Bool.
From Stk Require Import Lib.U Gen.SrcWaker W.Waker W.WakerCore W.WakerRefine W.WakerProofs W.WakerGhost.
Import ListNotations.
Local Open Scope Z_scope.

(* FULL STATEMENT (not yet closed):
   forall scr sched, C13_ok (flatten (wtrace scr sched)) false = true
   together with the state invariant  cq (chs st c) <> [] -> owed st (HChan c). *)

(** No wake-up of a channel's handler is ever stranded: in every reachable quiescent state nothing is
    owed to the handler of channel [c]; and an owed wake-up of that handler is only discharged by a
    step in which the handler (which takes the whole queue under the lock) starts. *)
Theorem C13_channel_partial : forall st c,
  reachable st ->
  (quiescent st -> ~ owed st (HChan c)) /\
  (forall t st' ev, wstep st t = (st', ev) -> owed st (HChan c) -> ~ owed st' (HChan c) ->
                    exists d, In (EHandler (HChan c) d) ev).
Proof.
  intros st c R. split.
  - intro Q. exact (not_stranded st R Q (HChan c)).
  - intros t st' ev H. exact (proj2 (handler_after_wake st t st' ev (HChan c) H)).
Qed.
Print Assumptions C13_channel_partial.
