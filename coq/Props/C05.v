(** C05: a Ret handler is invoked exactly once (Layer R) -- PARTIAL.
    Proved: invoking a Ret consumes the value and produces its event first (RetInvoke / Notify), a slab wrapper
    passes the message on to the wrapped notifier.  Not yet proved: linearity of Ret values across the whole
    configuration (each Ret sits in exactly one place), which gives the trace-level statement; validated by
    ./check C05; known findings F5/F7. *)
From Coq Require Import ZArith NArith List.
Import ListNotations.
From Stk Require Import Lib.U R.Syntax R.Rt R.Mon R.OneStep.

Theorem C05_ret_once_partial : forall r k m s pre s',
  ret_invoke (Ret r k) m s = (pre, s') ->
  match k with
  | RKClos _ _ | RKTo _ _ | RKSomeTo _ _ => exists evs, tr s' = evs ++ ERet r (msg_num m) :: tr s
  | RKNotify a _ => exists evs, tr s' = evs ++ ENotify a (msg_cause m) :: tr s
  | RKSlab _ _ inner => In (MRetInvoke inner m) pre
  end.
Proof. exact ret_invoke_event. Qed.
Print Assumptions C05_ret_once_partial.
