(** C05: a Ret handler is invoked exactly once (Layer R).
    Proved for every program of the DSL, either deferrer kind and every amount of fuel: the monitor C05_ok
    (coq/R/Mon.v: every Ret created once, invoked exactly once -- with the value sent, or with None where it is
    dropped: with a discarded call, a killed Prep actor's held queue, a deleted timer closure, a closure dropped
    with the Stakker, ... -- never twice, none missing at the end) holds of the trace of a terminated execution,
    under two hypotheses that are decidable on the trace itself:
    - the program gives distinct ids to its Rets ([NoDup (ret_ids t)]: the monitor identifies a Ret by its id;
      the generators of the check always do, and the check evaluates the hypothesis on every trace);
    - the run leaks no container ([no_container_leak t]: no `leak` report of a closure, an actor value or a
      notifier): a leaked container keeps the Rets it captured for ever.  Leaks happen only in the classes of the
      known findings F5 / F7, and in two situations outside any class (an actor storing a reference to itself;
      inline deferrer: a closure deferred by a Drop handler after the last Stakker is gone) -- all refuted below
      at model level (C05_ok is false there).
    The proof (layerRproofs2: coq/R/Lin*.v, LinC05*.v, C05Proofs.v) rests on the linearity census of Lin.v.
    The check ./check C05 also evaluates a second monitor, C05_calls_ok (the call behind a ret_to!-style Ret is not
    lost: it is discarded only if its target is terminated -- notified before anything else starts -- or the
    queues are torn down).  It is proved for every program with the global / thread-local deferrer
    ([C05_calls_not_lost], coq/R/C05cProofs.v, by simulation from C02_ok); [C05_as_checked] is the conjunction the
    check evaluates.  See docs/layer_r.md. *)
From Coq Require Import ZArith NArith List Bool.
Import ListNotations.
From Stk Require Import Lib.U R.Syntax R.Rt R.Mon R.OneStep R.LinC05Core R.C05Proofs R.C05cProofs.

Theorem C05_ret_exactly_once : forall (d : dkind) (p : list top) (fuel : nat) (t : list ev),
  exec d fuel p = Done t -> NoDup (ret_ids t) -> no_container_leak t -> C05_ok t = true.
Proof. exact C05_proved. Qed.
Print Assumptions C05_ret_exactly_once.

(* the same with the hypotheses as a boolean function of the trace (what the check evaluates) *)
Theorem C05_ret_exactly_once_checked : forall (d : dkind) (p : list top) (fuel : nat) (t : list ev),
  exec d fuel p = Done t -> hyp05 t = true -> C05_ok t = true.
Proof. exact C05_checked. Qed.
Print Assumptions C05_ret_exactly_once_checked.

(* the second monitor: the call behind a ret_to!-style Ret is not lost *)
Theorem C05_calls_not_lost : forall (p : list top) (fuel : nat) (t : list ev),
  exec DGlobal fuel p = Done t -> C05_calls_ok t = true.
Proof. exact C05_calls_proved. Qed.
Print Assumptions C05_calls_not_lost.

(* what ./check C05 evaluates on every trace *)
Theorem C05_as_checked : forall (p : list top) (fuel : nat) (t : list ev),
  exec DGlobal fuel p = Done t -> NoDup (ret_ids t) -> no_container_leak t -> C05_ok t && C05_calls_ok t = true.
Proof. intros p fuel t H N L. rewrite (C05_proved _ _ _ _ H N L), (C05_calls_proved _ _ _ H). reflexivity. Qed.
Print Assumptions C05_as_checked.

Example C05_calls_table :
  C05_calls_ok [EActor 1; EReady 1; ETarget 5 1 false; ERetTo 9 5 false; ESub QMain 5 true; EDrop 5 (Some QMain) true; ERunRet false] = false /\
  C05_calls_ok [EActor 1; EReady 1; ETarget 5 1 false; ERetTo 9 5 false; ESub QMain 5 true; EDrop 5 (Some QMain) true; ENotify 1 None; ERunRet false] = true /\
  C05_calls_ok [EActor 1; EReady 1; ETarget 5 1 false; ESub QMain 5 true; EDrop 5 (Some QMain) true; ERunRet false] = true.
Proof. exact C05_calls_rejects. Qed.

(* not vacuous: Rets sent, dropped with a discarded call to a Zombie, held in the Prep queue of a killed actor,
   captured by a deleted timer closure, by a lazy closure dropped with the Stakker, ret_some_to dropped, ret_to sent *)
Example C05_example :
  exists t, exec DGlobal 2000 c05_prog = Done t /\ hyp05 t = true /\ C05_ok t = true /\
            In (ERet 1 (Some 7%N)) t /\ In (ERet 3 None) t /\ In (ERet 4 None) t /\ In (ERet 5 None) t /\
            In (ERet 6 None) t /\ In (ERet 7 None) t /\ In (ERet 8 (Some 3%N)) t /\ In (ETimerDel TMax 1 true) t.
Proof. exact C05_nontrivial. Qed.

(* the hypotheses cannot be dropped: known findings F5 and F7, the two unclassified leak situations, duplicate ids *)
Example C05_F5_model :
  exists t, exec DGlobal 2000 f5_prog = Done t /\ In (EModel M_PREPHELD 1) t /\ In (ELeak LK_CLO 1) t /\
            ncl_b t = false /\ C05_ok t = false.
Proof. exact C05_F5_refuted. Qed.
Example C05_F7_model :
  exists t, exec DGlobal 2000 f7_prog = Done t /\ In (EModel M_CHILDCYCLE 1) t /\ In (ELeak LK_VAL 1) t /\
            ncl_b t = false /\ C05_ok t = false.
Proof. exact C05_F7_refuted. Qed.
Example C05_selfcycle_model :
  exists t, exec DGlobal 2000 selfcycle_prog = Done t /\
            existsb (fun e => match e with EModel c _ => N.eqb c M_PREPHELD || N.eqb c M_CHILDCYCLE | _ => false end) t = false /\
            In (ELeak LK_VAL 1) t /\ ncl_b t = false /\ C05_ok t = false.
Proof. exact C05_selfcycle_refuted. Qed.
Example C05_inline_leftover_model :
  exists t, exec DInline 2000 inline_left_prog = Done t /\
            existsb (fun e => match e with EModel _ _ => true | _ => false end) t = false /\
            In (ELeak LK_CLO 1) t /\ ncl_b t = false /\ C05_ok t = false.
Proof. exact C05_inline_leftover_refuted. Qed.

(* one-step fact kept from the earlier partial result *)
Theorem C05_ret_once_partial : forall r k m s pre s',
  ret_invoke (Ret r k) m s = (pre, s') ->
  match k with
  | RKClos _ _ | RKTo _ _ | RKSomeTo _ _ => exists evs, tr s' = evs ++ ERet r (msg_num m) :: tr s
  | RKNotify a _ => exists evs, tr s' = evs ++ ENotify a (msg_cause m) :: tr s
  | RKSlab _ _ inner => In (MRetInvoke inner m) pre
  end.
Proof. exact ret_invoke_event. Qed.
Print Assumptions C05_ret_once_partial.
