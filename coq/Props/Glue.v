(** Cross-layer glue: Layer R's abstract timer rule is what Layer T's faithful model does on the
    domain Layer R uses.  Only property theorems live here; each is closed by [exact] of a lemma of
    coq/Glue. *)
From Coq Require Import ZArith List Bool.
From Stk Require Import Lib.U Gen.SrcTimers T.Model T.Spec T.Inv T.Rel
  Glue.TimersAbs Glue.TimersAbsProofs Glue.TimersAbsWitness Glue.TimersAbsR.
Import ListNotations.
Local Open Scope Z_scope.

(** For EVERY history [ops] of fixed-timer operations (timer_add, after, timer_del, run, now) that is
    - good in the sense of Layer T (fewer than 2^31 - 2 operations, instants below 2^61 ns, distinct
      callback ids, keys used as the API returned them), and
    - in the domain [adom ainit ops]: every instant and duration is a whole number of milliseconds, every
      timer is created less than 32767 s ahead of Core::now, and no run that advances time is at exactly
      the expiry of a pending timer,
    the faithful model of src/timers/mod.rs (ticks of 2^14 ns, ceil/floor rounding, 32-bit wrapped keys,
    BTreeMap order, the stepping loop of `advance`) started from [t_init] never panics and returns, operation
    by operation, exactly what the abstract machine of Layer R returns ([arun ainit], Glue/TimersAbs.v:
    "a timer fires in the first advancing run whose instant is >= its expiry; timers firing in one run are
    ordered by clamped expiry max(expiry, Core::now at creation), then by creation"): the list of callbacks
    of every run IN ORDER, the boolean of every timer_del, the value of every Core::now.  [obs] only forgets
    the (slot, generation) representation of the keys returned by timer_add / after. *)
Theorem glue_fixed_timers : forall ops, ms_aligned ops ->
  map (option_map obs) (fst (trun t_init ops)) = map Some (fst (arun ainit ops)).
Proof. exact glue_fixed_timers_proved. Qed.
Check glue_fixed_timers : forall ops, good ops /\ adom ainit ops ->
  map (option_map obs) (fst (trun t_init ops)) = map Some (fst (arun ainit ops)).
Print Assumptions glue_fixed_timers.

(** The static discipline of Layer R's program generator (tools/checks/layer_r.py, class Gen): run instants
    are even milliseconds, timer instants and `after` durations are odd milliseconds, timers less than
    32767 s ahead.  Such histories are in the domain. *)
Theorem glue_parity : forall ops, good ops -> pdom ainit ops ->
  map (option_map obs) (fst (trun t_init ops)) = map Some (fst (arun ainit ops)).
Proof. exact glue_parity_proved. Qed.
Check glue_parity : forall ops, good ops -> pdom ainit ops ->
  map (option_map obs) (fst (trun t_init ops)) = map Some (fst (arun ainit ops)).
Print Assumptions glue_parity.

(** the hypotheses are satisfiable by a non-trivial history (20 operations; six timers firing in one run
    in two groups of equal clamped expiry; past / pre-t0 / long expiries; deletes of pending, deleted,
    fired timers and with the Default key; a backwards run) *)
Example glue_domain_satisfiable : ms_aligned glue_ops.
Proof. exact glue_ops_domain. Qed.
Example glue_example_outputs :
  fst (arun ainit glue_ops) =
  [ AKey; AKey; AKey; AFired []; AKey; AKey; AKey; AKey; AKey; AKey;
    ABool true; ABool false; ABool false; ANs 2000000;
    AFired [5; 6; 7; 2; 3; 4]; AFired []; AFired [1]; ABool false; AFired [8]; ANs 20000001000000 ] /\
  map (option_map obs) (fst (trun t_init glue_ops)) = map Some (fst (arun ainit glue_ops)).
Proof. exact glue_ops_outputs. Qed.
Example glue_parity_satisfiable : good parity_ops /\ pdom ainit parity_ops.
Proof. exact parity_ops_domain. Qed.

(** each clause of the domain is necessary: the two machines differ on good histories that violate it.
    (1) A run at exactly the expiry of a pending timer, 5 ms: the code does not fire it in that run (5 ms is
        not a whole number of 2^14 ns ticks), Layer R's rule `expiry <= instant` does. *)
Example glue_boundary_model : fst (trun t_init boundary_ops) = [ Some (RKey 2147483649 306); Some (RFired []); Some (RFired [1]) ].
Proof. exact boundary_not_fired. Qed.
Example glue_boundary_abstract : fst (arun ainit boundary_ops) = [ AKey; AFired [1]; AFired [] ].
Proof. exact boundary_abstract_fires. Qed.
Example glue_boundary_outside : good boundary_ops /\ adom_b ainit boundary_ops = false /\ adom_b ainit [ OAdd (5 * ms) 1 ] = true.
Proof. exact boundary_outside_domain. Qed.
Example glue_boundary_tick_aligned :
  map (option_map obs) (fst (trun t_init [ OAdd (256 * ms) 1; ORun (256 * ms); ORun (257 * ms) ])) =
  [ Some AKey; Some (AFired [1]); Some (AFired []) ] /\
  fst (arun ainit [ OAdd (256 * ms) 1; ORun (256 * ms); ORun (257 * ms) ]) = [ AKey; AFired [1]; AFired [] ].
Proof. exact boundary_tick_aligned. Qed.
(** (2) instants that are not whole milliseconds: firing time and order differ *)
Example glue_unaligned_time :
  map (option_map obs) (fst (trun t_init unaligned_ops)) = [ Some AKey; Some (AFired []); Some (AFired [1]) ] /\
  fst (arun ainit unaligned_ops) = [ AKey; AFired [1]; AFired [] ] /\
  good unaligned_ops /\ adom_b ainit unaligned_ops = false.
Proof. exact unaligned_differs. Qed.
Example glue_unaligned_order :
  map (option_map obs) (fst (trun t_init unaligned_order_ops)) = [ Some AKey; Some AKey; Some (AFired [1; 2]) ] /\
  fst (arun ainit unaligned_order_ops) = [ AKey; AKey; AFired [2; 1] ] /\
  good unaligned_order_ops /\ adom_b ainit unaligned_order_ops = false.
Proof. exact unaligned_order_differs. Qed.
(** (3) timers 32767 s or more ahead (var slots): order differs *)
Example glue_far_order :
  map (option_map obs) (fst (trun t_init far_ops)) = [ Some AKey; Some AKey; Some (AFired [1; 2]) ] /\
  fst (arun ainit far_ops) = [ AKey; AKey; AFired [2; 1] ] /\
  good far_ops /\ adom_b ainit far_ops = false.
Proof. exact far_differs. Qed.

(** The abstract machine is Layer R's: under [enc] (milliseconds -> nanoseconds, timer counter -> creation
    index, closure uid -> callback id) the advance inside `Stakker::run` of coq/R/Rt.v ([fire], called by
    MRunMain after `now := t` when `t > now`) is the [ORun] case of [astep]: same fired closures in the same
    order, same remaining timers; [timer_add] of a fixed timer is [a_add]. *)
Theorem glue_rt_fire : forall t s cnt, Rt.now s < t ->
  let a := mkA (Rt.now s * MS) (map enc (Rt.timers s)) cnt in
  let '(fired, s') := Rt.fire t (Rt.set_now s t) in
  astep a (ORun (t * MS)) =
    (mkA (t * MS) (map enc (Rt.timers s')) (cnt + 1), AFired (map (fun c => Z.of_N (Syntax.ci_uid c)) fired)).
Proof. exact fire_is_astep_run. Qed.
Print Assumptions glue_rt_fire.
Theorem glue_rt_timer_add : forall s v t ci,
  map enc (Rt.timers (Rt.timer_add s Syntax.TFixed v t ci)) =
  a_pend (a_add (mkA (Rt.now s * MS) (map enc (Rt.timers s)) (Z.of_N (Rt.tnext s))) (t * MS) (Z.of_N (Syntax.ci_uid ci))) /\
  Rt.tnext (Rt.timer_add s Syntax.TFixed v t ci) = (Rt.tnext s + 1)%N.
Proof. exact timer_add_is_a_add. Qed.
Print Assumptions glue_rt_timer_add.

(* ================================================================== *)
(** * Glue Layer R / Layer Q: the list treatment of the FnOnceQueues in coq/R/Rt.v is the `boxed` semantics
    that C17 proves the flat byte-buffer queue of src/queue/flat.rs refines (docs/glue.md, second part). *)
From Stk Require Import Q.Flat Q.Boxed Q.Sys Q.FlatProofs Q.SysProofs Q.FlatSafety R.Syntax R.Rt
  Glue.QueuesAbs Glue.QueuesAbsSwap Glue.QueuesAbsWitness.

(** Definitional ties.  [encq L c] is the Layer Q entry of the closure item [c] of Rt.v: id = uid, layout and
    captured bytes given by the parameter [L] (Rt.v is independent of the layout: it does not even record the
    size / alignment class of an instance).  Every append Rt.v performs on a queue field -- Core::defer,
    Deferrer::defer and call! ([push_main], [submit _ QMain]), lazy! ([submit _ QLazy]) -- is [bq_push]. *)
Theorem glue_rt_push : forall L s c,
  map (encq L) (Rt.mainq (Rt.push_main s c)) = bq_push (map (encq L) (Rt.mainq s)) (encq L c) /\
  map (encq L) (Rt.mainq (Rt.submit s QMain c)) = bq_push (map (encq L) (Rt.mainq s)) (encq L c) /\
  map (encq L) (Rt.lazyq (Rt.submit s QLazy c)) = bq_push (map (encq L) (Rt.lazyq s)) (encq L c).
Proof. exact rt_push_is_bq_push. Qed.
Check glue_rt_push : forall L s c,
  map (encq L) (Rt.mainq (Rt.push_main s c)) = bq_push (map (encq L) (Rt.mainq s)) (encq L c) /\
  map (encq L) (Rt.mainq (Rt.submit s QMain c)) = bq_push (map (encq L) (Rt.mainq s)) (encq L c) /\
  map (encq L) (Rt.lazyq (Rt.submit s QLazy c)) = bq_push (map (encq L) (Rt.lazyq s)) (encq L c).
Print Assumptions glue_rt_push.

(** a call that reaches a Prep actor is pushed at the end of the actor's held queue (`prep.queue.push`) *)
Theorem glue_rt_hold : forall L s uid cid a body arg caps sq x held,
  Rt.aget (Rt.actors s) a = Some x -> Rt.a_state x = Rt.SPrep held ->
  let ci := CI uid cid (KMeth a body arg) caps sq in
  exists held', Rt.run_item ci s = ([], Rt.upd_actor s a (Rt.with_state x (Rt.SPrep held'))) /\
    map (encq L) held' = bq_push (map (encq L) held) (encq L ci).
Proof. exact rt_hold_is_bq_push. Qed.
Print Assumptions glue_rt_hold.

(** execute: the loop of Stakker::run (MLoop) on a non-empty main queue hands over, as micro-ops in order,
    exactly the entries [bq_execute] delivers and leaves the queue [bq_execute] leaves; likewise the lazy queue *)
Theorem glue_rt_execute : forall L t s, rq_is_empty (Rt.mainq s) = false ->
  let '(es, q') := bq_execute (map (encq L) (Rt.mainq s)) in
  exists items,
    Rt.handle (Rt.MLoop t) s = (map Rt.MRunItem items ++ [Rt.MLoop t], Rt.set_mainq s (snd (rq_execute (Rt.mainq s)))) /\
    map (encq L) items = es /\ map (encq L) (Rt.mainq (Rt.set_mainq s (snd (rq_execute (Rt.mainq s))))) = q'.
Proof. exact rt_execute_is_bq_execute. Qed.
Print Assumptions glue_rt_execute.
Theorem glue_rt_execute_lazy : forall L t s, rq_is_empty (Rt.mainq s) = true -> rq_is_empty (Rt.lazyq s) = false ->
  let '(es, q') := bq_execute (map (encq L) (Rt.lazyq s)) in
  exists items,
    Rt.handle (Rt.MLoop t) s = (map Rt.MRunItem items ++ [Rt.MLoop t], Rt.set_lazyq s (snd (rq_execute (Rt.lazyq s)))) /\
    map (encq L) items = es /\ map (encq L) (Rt.lazyq (Rt.set_lazyq s (snd (rq_execute (Rt.lazyq s))))) = q'.
Proof. exact rt_execute_lazy_is_bq_execute. Qed.
Print Assumptions glue_rt_execute_lazy.
(** the other executes: first execute of Stakker::run without / with fired timers pushed behind the batch
    (Timers::advance(now, &mut alt_main)), Prep -> Ready *)
Theorem glue_rt_execute_first : forall t s, (t >? Rt.now s) = false ->
  Rt.handle (Rt.MRunMain t) s =
    (map Rt.MRunItem (fst (rq_execute (Rt.mainq s))), Rt.set_mainq s (snd (rq_execute (Rt.mainq s)))).
Proof. exact rt_run_main_noadv. Qed.
Theorem glue_rt_execute_first_timers : forall t s, (t >? Rt.now s) = true ->
  let '(fired, s2) := Rt.fire t (Rt.set_now (Rt.set_mainq s (snd (rq_execute (Rt.mainq s)))) t) in
  Rt.handle (Rt.MRunMain t) s = (map Rt.MRunItem (fold_left rq_push fired (fst (rq_execute (Rt.mainq s)))), s2) /\
  Rt.mainq s2 = rq_new.
Proof. exact rt_run_main_adv. Qed.
Theorem glue_rt_to_ready : forall s a x held, Rt.aget (Rt.actors s) a = Some x -> Rt.a_state x = Rt.SPrep held ->
  fst (Rt.handle (Rt.MToReady a) s) = map Rt.MRunItem (fst (rq_execute held)).
Proof. exact rt_to_ready. Qed.
Print Assumptions glue_rt_execute_first_timers.

(** drop: a round of Stakker::drop (MDrain) drops, as micro-ops in order, exactly what [bq_drop] delivers and
    installs the fresh queue; the lazy queue is the first field dropped; a dying Prep actor drops its held queue;
    Core::new drops the leftovers of the global deferrer queue *)
Theorem glue_rt_drop : forall L i s, (i >=? Gen.SrcCore.TEARDOWN_ROUNDS) = false -> rq_is_empty (Rt.mainq s) = false ->
  exists items, Rt.handle (Rt.MDrain i) s = (map Rt.MDropItem items ++ [Rt.MDrain (i + 1)], Rt.set_mainq s rq_new) /\
    map (encq L) items = bq_drop (map (encq L) (Rt.mainq s)) /\ map (encq L) (Rt.mainq (Rt.set_mainq s rq_new)) = bq_new.
Proof. exact rt_drop_is_bq_drop. Qed.
Print Assumptions glue_rt_drop.
Theorem glue_rt_drop_fields : forall s, exists rest s1,
  Rt.handle Rt.MDropFields s = (map Rt.MDropItem (rq_drop (Rt.lazyq s)) ++ rest, s1) /\ Rt.lazyq s1 = rq_new.
Proof. exact rt_drop_fields. Qed.
Theorem glue_rt_drop_held : forall a held s, Rt.state_drops a (Rt.SPrep held) s = (map Rt.MDropItem (rq_drop held), s).
Proof. exact rt_state_drops. Qed.
Theorem glue_rt_drop_leftovers : forall t s, Rt.dk s = Rt.DGlobal ->
  fst (Rt.handle (Rt.MNew t) s) = map Rt.MDropItem (rq_drop (Rt.mainq s)) /\ Rt.mainq (snd (Rt.handle (Rt.MNew t) s)) = rq_new.
Proof. exact rt_new_drops. Qed.

(** is_empty; and "recreate the queues" (core.rs 149-155): the loop ends only when both queues are empty, so
    replacing them by FnOnceQueue::new() changes no list -- Rt.v only moves the deadline *)
Theorem glue_rt_is_empty : forall L s,
  rq_is_empty (Rt.mainq s) = bq_is_empty (map (encq L) (Rt.mainq s)) /\
  rq_is_empty (Rt.lazyq s) = bq_is_empty (map (encq L) (Rt.lazyq s)).
Proof. exact rt_is_empty_is_bq_is_empty. Qed.
Print Assumptions glue_rt_is_empty.
Theorem glue_rt_recreate : forall t s, rq_is_empty (Rt.mainq s) = true -> rq_is_empty (Rt.lazyq s) = true ->
  fst (Rt.handle (Rt.MLoop t) s) = [] /\
  Rt.mainq (snd (Rt.handle (Rt.MLoop t) s)) = rq_new /\ Rt.lazyq (snd (Rt.handle (Rt.MLoop t) s)) = rq_new.
Proof. exact rt_loop_end. Qed.
Print Assumptions glue_rt_recreate.
(** `swap_queue(&mut alt_main); alt_main.execute(..)` with alt_main empty is Rt.v's "take the list, leave []" *)
Theorem glue_rt_swap_execute : forall q : list citem,
  let '(dq, alt) := rq_swap q rq_new in
  let '(batch, alt') := rq_execute alt in
  (batch, dq, alt') = (fst (rq_execute q), snd (rq_execute q), rq_new).
Proof. exact swap_execute_is_take. Qed.

(** The composition theorem.  For EVERY layout [L] (any size, any power-of-two alignment, any captured bytes per
    closure instance; [class_layout] = the 8 x 8 capture classes of Layer R's generator is an instance), every
    behaviour [rprog] of running closures (the pushes instance [u] performs when it runs, onto other queues,
    with any 8-aligned allocator answers), every number [n] of queues and EVERY sequence [ops] of
    push / execute / is_empty / drop / recreate (any 8-aligned allocator answers) that Layer R's list machine
    [lrun] performs from empty queues with events [revs] and final lists [st']: the SAME sequence on the
    byte-level model of src/queue/flat.rs ([Sys.run flat_impl], Layer Q) either completes with EXACTLY the
    events of the list machine (same closure instances run in the same order, same instances dropped un-run in
    the same order, same is_empty answers), every flat queue then holding exactly Layer R's list; or stops
    because the address space is exhausted (EOverflow / ELayout; excluded under size bounds by
    [flat_push_total]) -- never an assertion, never an out-of-bounds / misaligned access, never a clobbered cell.
    Proof: lists = boxed run by computation ([b_run]), composed with C17's [flat_refines_boxed] and
    [flat_no_bug_error]. *)
Theorem glue_queue_ops : forall L rprog n ops revs st',
  lay_wf L -> rprog_wf rprog -> Forall rop_wf ops ->
  lrun rprog (repeat rq_new n) ops = Some (revs, st') ->
  match Sys.run flat_impl (cprog L rprog) (Sys.init flat_impl n) (map (cop L) ops) with
  | Flat.Ok (evs, fs) =>
      evs = map (cev L) revs /\ map abs fs = encs L st' /\
      Forall (fun q => fq_drop q = Flat.Ok (abs q) /\ fq_is_empty q = bq_is_empty (abs q)) fs
  | Flat.Err e => e = Flat.EOverflow \/ e = Flat.ELayout
  end.
Proof. exact glue_queue_ops_proved. Qed.
Check glue_queue_ops : forall L rprog n ops revs st',
  (forall u, 0 <= l_size L u /\ 0 <= l_log L u /\ Z.of_nat (length (l_bytes L u)) = l_size L u) ->
  (forall u, Forall (fun p => 0 <= rp_base p /\ rp_base p mod 8 = 0) (rprog u)) ->
  Forall (fun o => match o with RPush p => 0 <= rp_base p /\ rp_base p mod 8 = 0 | _ => True end) ops ->
  lrun rprog (repeat [] n) ops = Some (revs, st') ->
  match Sys.run flat_impl (cprog L rprog) (Sys.init flat_impl n) (map (cop L) ops) with
  | Flat.Ok (evs, fs) =>
      evs = map (cev L) revs /\ map abs fs = map (map (encq L)) st' /\
      Forall (fun q => fq_drop q = Flat.Ok (abs q) /\ fq_is_empty q = bq_is_empty (abs q)) fs
  | Flat.Err e => e = Flat.EOverflow \/ e = Flat.ELayout
  end.
Print Assumptions glue_queue_ops.

(** one queue, closures that push nothing: "push* / execute / drop / is_empty / recreate in any order" *)
Theorem glue_one_queue : forall L ops revs q',
  lay_wf L -> Forall rop_wf ops ->
  lrun (fun _ => []) [rq_new] ops = Some (revs, [q']) ->
  match Sys.run flat_impl (fun _ => []) (Sys.init flat_impl 1) (map (cop L) ops) with
  | Flat.Ok (evs, fs) =>
      evs = map (cev L) revs /\
      exists f, fs = [f] /\ fq_drop f = Flat.Ok (map (encq L) q') /\ fq_is_empty f = rq_is_empty q'
  | Flat.Err e => e = Flat.EOverflow \/ e = Flat.ELayout
  end.
Proof. exact glue_one_queue_proved. Qed.
Print Assumptions glue_one_queue.

(** the same with `mem::swap` of two places as an operation of both machines ([xrun] = [Sys.run] + swap of two
    queue values; without swaps it is [Sys.run]): the form in which core.rs uses the queues -- closures push
    onto the place of the deferrer queue / lazy_queue, the place executed is the local alt_main / alt_lazy *)
Theorem glue_queue_ops_swap : forall L rprog n ops revs st',
  lay_wf L -> rprog_wf rprog -> Forall rxop_wf ops ->
  lxrun rprog (repeat rq_new n) ops = Some (revs, st') ->
  match xrun flat_impl (cprog L rprog) (Sys.init flat_impl n) (map (cxop L) ops) with
  | Flat.Ok (evs, fs) =>
      evs = map (cev L) revs /\ map abs fs = encs L st' /\
      Forall (fun q => fq_drop q = Flat.Ok (abs q) /\ fq_is_empty q = bq_is_empty (abs q)) fs
  | Flat.Err e => e = Flat.EOverflow \/ e = Flat.ELayout
  end.
Proof. exact glue_queue_ops_swap_proved. Qed.
Print Assumptions glue_queue_ops_swap.
Theorem glue_xrun_noswap : forall (S : Type) (I : qimpl S) prog ops st,
  xrun I prog st (map QOp ops) = Sys.run I prog st ops.
Proof. exact @xrun_noswap. Qed.
Theorem glue_lxrun_noswap : forall rprog ops st, lxrun rprog st (map XOp ops) = lrun rprog st ops.
Proof. exact lxrun_noswap. Qed.

(** the capture classes of Layer R's generator are a layout *)
Theorem glue_class_layout_wf : forall cls fill, lay_wf (class_layout cls fill).
Proof. exact class_layout_wf. Qed.

(** Non-vacuity.  (1) One queue: closures of 100 B / align 64, 0 B / align 16, 2000 B / align 4, 4096 B / align 128
    pushed with two buffer growths (1024 -> 2048 -> 8192 bytes, the two old buffers chained), is_empty, execute,
    is_empty, recreate, three more pushes, DROP OF THE NON-EMPTY QUEUE, is_empty: hypotheses hold, the list
    machine and the flat model both complete with the same ten events. *)
Example glue_queue_example_hyps : lay_wf exL /\ Forall rop_wf ex1_ops /\
  lrun (fun _ => []) [rq_new] ex1_ops = Some (ex1_revs, [rq_new]).
Proof. exact (conj exL_wf (conj ex1_wf ex1_list)). Qed.
Example glue_queue_example_flat : exists fs,
  Sys.run flat_impl (fun _ => []) (Sys.init flat_impl 1) (map (cop exL) ex1_ops) = Flat.Ok (map (cev exL) ex1_revs, fs) /\
  map fq_geometry fs = [ (0, 0, 0) ].
Proof. exact ex1_flat. Qed.
Example glue_queue_example_growth :
  ex1_geometry 4 = Some [ ((65544, 4216, 8192), [ (8200, 2040, 2048); (4096, 176, 1024) ]) ] /\
  ex1_geometry 7 = Some [ ((65544, 0, 8192), []) ] /\
  ex1_geometry 8 = Some [ ((0, 0, 0), []) ] /\
  lrun (fun _ => []) [rq_new] (firstn 7 ex1_ops) = lrun (fun _ => []) [rq_new] (firstn 8 ex1_ops).
Proof. exact ex1_growth_chain. Qed.
(** (2) The places of core.rs (0 deferrer queue, 1 alt_main, 2 lazy_queue, 3 alt_lazy, 4 local of Stakker::drop):
    the sequence `Stakker::run` + `Stakker::drop` perform for the Layer R program [ex2_prog], with nested pushes
    from running closures; the list machine, the flat model AND the Layer R machine itself ([Rt.exec]) run /
    drop the same instances in the same order. *)
Example glue_places_example_hyps : (Forall rxop_wf ex2_ops /\ rprog_wf ex2_rprog) /\
  lxrun ex2_rprog (repeat rq_new 5) ex2_ops = Some (ex2_revs, repeat rq_new 5).
Proof. exact (conj ex2_wf ex2_list). Qed.
Example glue_places_example_flat : exists fs,
  xrun flat_impl (cprog exL ex2_rprog) (Sys.init flat_impl 5) (map (cxop exL) ex2_ops) = Flat.Ok (map (cev exL) ex2_revs, fs) /\
  map fq_is_empty fs = [ true; true; true; true; true ].
Proof. exact ex2_flat. Qed.
Example glue_places_example_rt : exists t, Rt.exec Rt.DGlobal 300 ex2_prog = Rt.Done t /\ obs_rt t = obs_l ex2_revs.
Proof. exact ex2_rt_machine. Qed.
(** (3) what the list machine rejects is what Layer Q rejects (a push onto the place being executed) *)
Example glue_nested_self_rejected :
  lrun (fun u => if (u =? 1)%N then [ rp 0 2 8200 ] else []) [rq_new] [ RPush (rp 0 1 4096); RExecute 0 ] = None /\
  Sys.run flat_impl (cprog exL (fun u => if (u =? 1)%N then [ rp 0 2 8200 ] else [])) (Sys.init flat_impl 1)
    (map (cop exL) [ RPush (rp 0 1 4096); RExecute 0 ]) = Flat.Err Flat.ENestedSelf.
Proof. exact ex3_nested_self. Qed.
