(** Cross-layer glue: Layer R's abstract timer rule is what Layer T's faithful model does on the
    domain Layer R uses.  Only property theorems live here; each is closed by [exact] of a lemma of
    coq/Glue. *)
From Coq Require Import ZArith List Bool.
From Stk Require Import Lib.U Gen.SrcTimers T.Model T.Spec T.Inv T.Rel
  Glue.TimersAbs Glue.TimersAbsProofs Glue.TimersAbsWitness Glue.TimersAbsR.
Import ListNotations.
Local Open Scope Z_scope.

(** For EVERY history [ops] of fixed-timer operations (timer_add, after, timer_del, run, now) that is
    - good in the sense of Layer T (fewer than 2^31 - 2 operations, instants below 2^61 ns, distinct
      callback ids, keys used as the API returned them), and
    - in the domain [adom ainit ops]: every instant and duration is a whole number of milliseconds, every
      timer is created less than 32767 s ahead of Core::now, and no run that advances time is at exactly
      the expiry of a pending timer,
    the faithful model of src/timers/mod.rs (ticks of 2^14 ns, ceil/floor rounding, 32-bit wrapped keys,
    BTreeMap order, the stepping loop of `advance`) started from [t_init] never panics and returns, operation
    by operation, exactly what the abstract machine of Layer R returns ([arun ainit], Glue/TimersAbs.v:
    "a timer fires in the first advancing run whose instant is >= its expiry; timers firing in one run are
    ordered by clamped expiry max(expiry, Core::now at creation), then by creation"): the list of callbacks
    of every run IN ORDER, the boolean of every timer_del, the value of every Core::now.  [obs] only forgets
    the (slot, generation) representation of the keys returned by timer_add / after. *)
Theorem glue_fixed_timers : forall ops, ms_aligned ops ->
  map (option_map obs) (fst (trun t_init ops)) = map Some (fst (arun ainit ops)).
Proof. exact glue_fixed_timers_proved. Qed.
Check glue_fixed_timers : forall ops, good ops /\ adom ainit ops ->
  map (option_map obs) (fst (trun t_init ops)) = map Some (fst (arun ainit ops)).
Print Assumptions glue_fixed_timers.

(** The static discipline of Layer R's program generator (tools/checks/layer_r.py, class Gen): run instants
    are even milliseconds, timer instants and `after` durations are odd milliseconds, timers less than
    32767 s ahead.  Such histories are in the domain. *)
Theorem glue_parity : forall ops, good ops -> pdom ainit ops ->
  map (option_map obs) (fst (trun t_init ops)) = map Some (fst (arun ainit ops)).
Proof. exact glue_parity_proved. Qed.
Check glue_parity : forall ops, good ops -> pdom ainit ops ->
  map (option_map obs) (fst (trun t_init ops)) = map Some (fst (arun ainit ops)).
Print Assumptions glue_parity.

(** the hypotheses are satisfiable by a non-trivial history (20 operations; six timers firing in one run
    in two groups of equal clamped expiry; past / pre-t0 / long expiries; deletes of pending, deleted,
    fired timers and with the Default key; a backwards run) *)
Example glue_domain_satisfiable : ms_aligned glue_ops.
Proof. exact glue_ops_domain. Qed.
Example glue_example_outputs :
  fst (arun ainit glue_ops) =
  [ AKey; AKey; AKey; AFired []; AKey; AKey; AKey; AKey; AKey; AKey;
    ABool true; ABool false; ABool false; ANs 2000000;
    AFired [5; 6; 7; 2; 3; 4]; AFired []; AFired [1]; ABool false; AFired [8]; ANs 20000001000000 ] /\
  map (option_map obs) (fst (trun t_init glue_ops)) = map Some (fst (arun ainit glue_ops)).
Proof. exact glue_ops_outputs. Qed.
Example glue_parity_satisfiable : good parity_ops /\ pdom ainit parity_ops.
Proof. exact parity_ops_domain. Qed.

(** each clause of the domain is necessary: the two machines differ on good histories that violate it.
    (1) A run at exactly the expiry of a pending timer, 5 ms: the code does not fire it in that run (5 ms is
        not a whole number of 2^14 ns ticks), Layer R's rule `expiry <= instant` does. *)
Example glue_boundary_model : fst (trun t_init boundary_ops) = [ Some (RKey 2147483649 306); Some (RFired []); Some (RFired [1]) ].
Proof. exact boundary_not_fired. Qed.
Example glue_boundary_abstract : fst (arun ainit boundary_ops) = [ AKey; AFired [1]; AFired [] ].
Proof. exact boundary_abstract_fires. Qed.
Example glue_boundary_outside : good boundary_ops /\ adom_b ainit boundary_ops = false /\ adom_b ainit [ OAdd (5 * ms) 1 ] = true.
Proof. exact boundary_outside_domain. Qed.
Example glue_boundary_tick_aligned :
  map (option_map obs) (fst (trun t_init [ OAdd (256 * ms) 1; ORun (256 * ms); ORun (257 * ms) ])) =
  [ Some AKey; Some (AFired [1]); Some (AFired []) ] /\
  fst (arun ainit [ OAdd (256 * ms) 1; ORun (256 * ms); ORun (257 * ms) ]) = [ AKey; AFired [1]; AFired [] ].
Proof. exact boundary_tick_aligned. Qed.
(** (2) instants that are not whole milliseconds: firing time and order differ *)
Example glue_unaligned_time :
  map (option_map obs) (fst (trun t_init unaligned_ops)) = [ Some AKey; Some (AFired []); Some (AFired [1]) ] /\
  fst (arun ainit unaligned_ops) = [ AKey; AFired [1]; AFired [] ] /\
  good unaligned_ops /\ adom_b ainit unaligned_ops = false.
Proof. exact unaligned_differs. Qed.
Example glue_unaligned_order :
  map (option_map obs) (fst (trun t_init unaligned_order_ops)) = [ Some AKey; Some AKey; Some (AFired [1; 2]) ] /\
  fst (arun ainit unaligned_order_ops) = [ AKey; AKey; AFired [2; 1] ] /\
  good unaligned_order_ops /\ adom_b ainit unaligned_order_ops = false.
Proof. exact unaligned_order_differs. Qed.
(** (3) timers 32767 s or more ahead (var slots): order differs *)
Example glue_far_order :
  map (option_map obs) (fst (trun t_init far_ops)) = [ Some AKey; Some AKey; Some (AFired [1; 2]) ] /\
  fst (arun ainit far_ops) = [ AKey; AKey; AFired [2; 1] ] /\
  good far_ops /\ adom_b ainit far_ops = false.
Proof. exact far_differs. Qed.

(** The abstract machine is Layer R's: under [enc] (milliseconds -> nanoseconds, timer counter -> creation
    index, closure uid -> callback id) the advance inside `Stakker::run` of coq/R/Rt.v ([fire], called by
    MRunMain after `now := t` when `t > now`) is the [ORun] case of [astep]: same fired closures in the same
    order, same remaining timers; [timer_add] of a fixed timer is [a_add]. *)
Theorem glue_rt_fire : forall t s cnt, Rt.now s < t ->
  let a := mkA (Rt.now s * MS) (map enc (Rt.timers s)) cnt in
  let '(fired, s') := Rt.fire t (Rt.set_now s t) in
  astep a (ORun (t * MS)) =
    (mkA (t * MS) (map enc (Rt.timers s')) (cnt + 1), AFired (map (fun c => Z.of_N (Syntax.ci_uid c)) fired)).
Proof. exact fire_is_astep_run. Qed.
Print Assumptions glue_rt_fire.
Theorem glue_rt_timer_add : forall s v t ci,
  map enc (Rt.timers (Rt.timer_add s Syntax.TFixed v t ci)) =
  a_pend (a_add (mkA (Rt.now s * MS) (map enc (Rt.timers s)) (Z.of_N (Rt.tnext s))) (t * MS) (Z.of_N (Syntax.ci_uid ci))) /\
  Rt.tnext (Rt.timer_add s Syntax.TFixed v t ci) = (Rt.tnext s + 1)%N.
Proof. exact timer_add_is_a_add. Qed.
Print Assumptions glue_rt_timer_add.
