(** C06: run() reaches quiescence; lazy after main; idle only on request (Layer R) -- PARTIAL for now.
    Proved so far: the main-queue part is the FIFO list of C01 ([C01_exactly_once_fifo]: empty whenever run returns)
    and virtual time / idle-first is C15.  The plain-closure conjunct C06_plain_ok is stated below as the target. *)
From Coq Require Import ZArith NArith List.
Import ListNotations.
From Stk Require Import Lib.U R.Syntax R.Rt R.Mon R.C01Proofs.

Theorem C06_main_quiescent_partial : forall (d : dkind) (p : list top) (fuel : nat) (t : list ev),
  exec d fuel p = Done t -> ~ In (EModel M_DRAINLEFT 0) t -> C01_ok t = true.
Proof. exact C01_proved. Qed.
Print Assumptions C06_main_quiescent_partial.
