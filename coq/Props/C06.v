(** C06: run() reaches quiescence; lazy after main; idle only on request (Layer R). *)
From Coq Require Import ZArith NArith List.
Import ListNotations.
From Stk Require Import Lib.U R.Syntax R.Rt R.Mon R.C06Proofs R.C06cProofs.

(* For every program and every amount of fuel, with the global / thread-local deferrer: the monitor C06_ok (R/Mon.v)
   holds of the trace of a terminated execution of the model.  C06_ok = C06_plain_ok && C06_calls_ok:
   - plain closures: the main, lazy and idle queues are FIFO lists; main and lazy are empty whenever run returns
     (including work created while it ran); a lazy closure starts only with the main queue empty or inside a lazy
     batch whose items made the pending work; the idle closure runs only with idle=true, at most one, before
     anything else; run returns true exactly when idle closures remain;
   - actor calls: a call that went through the main queue and has neither started nor been dropped is pending
     main-queue work unless its target is still in Prep (then it waits in the Prep queue); no such call is pending
     when run returns, nor when a lazy closure starts (except those the lazy batch itself submitted). *)
Theorem C06_quiescence_lazy_idle : forall (p : list top) (fuel : nat) (t : list ev),
  exec DGlobal fuel p = Done t -> C06_ok t = true.
Proof. exact C06_proved. Qed.
Print Assumptions C06_quiescence_lazy_idle.

(* The plain-closure conjunct holds for the inline deferrer as well.  (The calls conjunct is stated for DGlobal:
   with the inline deferrer a call submitted while no Stakker exists, or left queued by the field phase of
   Stakker::drop, is never touched again and would count as pending for ever.) *)
Theorem C06_plain_any_deferrer : forall (d : dkind) (p : list top) (fuel : nat) (t : list ev),
  exec d fuel p = Done t -> C06_plain_ok t = true.
Proof. exact C06_plain_proved. Qed.
Print Assumptions C06_plain_any_deferrer.

Example C06_example :
  exists t, exec DGlobal 600
    [TNew 0;
     TDo [ANewActor 1 1 None; ACall 1 (Clo 1 0 0 [] []);
          ALazy (Clo 2 0 0 [] [ACall 1 (Clo 3 0 0 [] [])])];
     TRun 2 false;
     TDo [ACallPrep 1 (Clo 4 0 0 [] []) true]; TRun 4 false] = Done t
    /\ In (ERun 2%N 2%Z QLazy) t /\ In (ERunRet false) t /\ In (EMeth 1%N 1%N 4%Z) t /\ In (EMeth 1%N 3%N 4%Z) t.
Proof. exact C06_calls_nontrivial. Qed.
