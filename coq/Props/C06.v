(** C06: run() reaches quiescence; lazy after main; idle only on request (Layer R). *)
From Coq Require Import ZArith NArith List.
Import ListNotations.
From Stk Require Import Lib.U R.Syntax R.Rt R.Mon R.C06Proofs.

(* For every program, fuel and deferrer kind: the plain-closure conjunct of C06 holds of the trace of a terminated
   execution of the model: the main, lazy and idle queues are FIFO lists; main and lazy are empty whenever run returns
   (including work created while it ran); a lazy closure starts only with the main queue empty or inside a lazy batch
   whose items made the pending work; the idle closure runs only with idle=true, at most one, before anything else; and
   run returns true exactly when idle closures remain.
   PARTIAL with respect to C06_ok = C06_plain_ok && C06_calls_ok: the second conjunct (actor calls travelling through
   the main queue count as pending main-queue work unless their target is still in Prep) is validated on every real
   and model trace by ./check C06 but not proved. *)
Theorem C06_quiescence_lazy_idle_partial : forall (d : dkind) (p : list top) (fuel : nat) (t : list ev),
  exec d fuel p = Done t -> C06_plain_ok t = true.
Proof. exact C06_plain_proved. Qed.
Print Assumptions C06_quiescence_lazy_idle_partial.

Example C06_example :
  exists t, exec DGlobal 400 [TNew 0; TDo [ALazy (Clo 1 0 0 [] [ADefer (Clo 2 0 0 [] []); ALazy (Clo 3 0 0 [] [])]);
                                         AIdle (Clo 4 0 0 [] []); AIdle (Clo 5 0 0 [] []); ADefer (Clo 6 0 0 [] [])];
                                  TRun 2 false; TRun 4 true] = Done t
            /\ In (ERunRet true) t /\ In (ERun 1%N 2%Z QLazy) t /\ In (ERun 6%N 2%Z QLazy) t /\ In (ERun 2%N 2%Z QIdle) t.
Proof. exact C06_nontrivial. Qed.
