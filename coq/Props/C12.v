(** C12 - Waker drop is reported exactly once, last; slots recycle cleanly.

    Model: coq/W/Waker.v.  [reachable] = reachable by [wrun] from [winit] for any scripts and schedule.
    The slab follows the exact key policy of the [slab] crate (LIFO free list, else next index); the
    reserved-slot guard of [del] and the index arithmetic of [add] are the GENERATED functions of
    coq/Gen/SrcWaker.v.  Same assumption A-SC as C11. *)
From Coq Require Import ZArith List Bool.
From Stk Require Import Lib.U Gen.SrcWaker W.Waker W.WakerCore W.WakerRefine W.WakerProofs W.WakerDrop W.WakerSlot W.Monitors W.MonC12.
Import ListNotations.
Local Open Scope Z_scope.

(** FULL STATEMENT, trace form: the executable monitor [C12_ok] (coq/W/Monitors.v; the one the check evaluates on
    the REAL traces) is true on the trace of EVERY run of the model: all scripts, all numbers of threads and
    wakers, all schedules.  [C12_ok]: (1) the handler of a plain waker is never called again after its
    [deleted = true] call (so [deleted = true] comes last and at most once); (2) a [deleted = true] call only
    happens for a waker whose [drop] command has begun - never for a live waker, whatever other wakers are woken
    or dropped and whichever slot gets reused; (3) in a quiescent state (no command in progress, every thread
    finished, no poll-wake pending) every [drop] that returned has had its [deleted = true] call.  No hypothesis. *)
Theorem C12_trace : forall scr sched, C12_ok (flatten (wtrace scr sched)) false = true.
Proof. exact C12_monitor. Qed.
Print Assumptions C12_trace.

(** In every reachable state: exactly the slots [k mod 4096 = 0] hold the drop handler, the free list
    is a duplicate-free chain through exactly the vacant entries, a bitmap exists exactly for every
    range of 4096 keys that has been entered (one bitmap per range, with base [4096 * range]). *)
Theorem C12_slots : forall st, reachable st -> SInv (core st).
Proof. exact slots_invariant. Qed.
Print Assumptions C12_slots.

(** [del] never removes a reserved ([bit mod 4096 = 0]) or vacant slot. *)
Theorem C12_del_guard : forall s b h s',
  wh_del s b = Some (h, s') -> b mod 4096 <> 0 /\ slab_get s b = Some h /\ s' = slab_remove s b.
Proof. exact del_guard. Qed.
Print Assumptions C12_del_guard.

Theorem C12_del_not_reserved : forall st b h s',
  reachable st -> wh_del (sl st) b = Some (h, s') -> h <> HReserved.
Proof. exact del_not_reserved. Qed.
Print Assumptions C12_del_not_reserved.

(** [add] (with the loop that re-homes a handler landing on a reserved slot): the new handler gets a
    fresh non-reserved slot in the bitmap the Waker refers to; no other handler moves or disappears,
    so a waker reusing a freed slot never inherits a handler (nor a pending [deleted] call) of the old one. *)
Theorem C12_add_slots : forall st h st1 wi,
  reachable st -> h <> HReserved -> wh_add st h = Some (st1, wi) ->
  (0 <= wbit wi < 4294967296 /\ wbit wi mod 4096 <> 0) /\ wbm wi = wbit wi / 4096 /\
  slab_get (sl st) (wbit wi) = None /\ slab_get (sl st1) (wbit wi) = Some h /\
  (forall x h', slab_get (sl st) x = Some h' -> slab_get (sl st1) x = Some h') /\
  (forall x h', slab_get (sl st1) x = Some h' -> slab_get (sl st) x = Some h' \/ (x = wbit wi /\ h' = h) \/ h' = HReserved).
Proof. exact add_slots. Qed.
Print Assumptions C12_add_slots.

(** No drop notification is stranded.  Invariant [RInv] (every reachable state): if the drop list is
    non-empty then a wake-up is owed to the drop handler (the reserved-slot handler, which runs
    [process_waker_drops]) or the pushing thread is still about to set the reserved bit.  Hence, with C11:
    in a quiescent state the drop list is empty - every drop that was pushed has been taken (and, the main
    thread being outside [poll_wake], deleted and its handler called with deleted=true). *)
Theorem C12_drop_list_covered : forall st, reachable st -> RInv st.
Proof. exact reachable_R. Qed.
Print Assumptions C12_drop_list_covered.

Theorem C12_drops_not_stranded : forall st, reachable st -> quiescent st -> dl st = [].
Proof. exact drops_not_stranded. Qed.
Print Assumptions C12_drops_not_stranded.

(** Identity of Wakers (invariant [SlInv], coq/W/WakerSlot.v).  A slot is *claimed* by a handler identity while
    its Waker is live: a registered plain waker, an open channel, or a Waker whose [drop] has not pushed the slot
    to the drop list yet.  [pipeline st] = drop list ++ the drops the main thread has taken and not yet deleted.

    A live Waker keeps its slot and its handler, and the slot is not queued for deletion: dropping or waking
    another Waker never removes, replaces or deletes its handler. *)
Theorem C12_live_waker_keeps_slot : forall st x h,
  reachable st -> claimed st x h -> slab_get (sl st) x = Some h /\ ~ In x (pipeline st).
Proof. exact live_waker_keeps_slot. Qed.
Print Assumptions C12_live_waker_keeps_slot.

(** Only slots of dropped Wakers are queued for deletion, each once, and they are still occupied when [del]
    reaches them: [deleted = true] goes to the dropped Waker's own handler, exactly once, and a Waker that
    later reuses the slot is a different, fresh entry ([C12_add_slots]). *)
Theorem C12_deleted_only_dropped : forall st x,
  reachable st -> In x (pipeline st) ->
  (forall h, ~ claimed st x h) /\ (exists h, slab_get (sl st) x = Some h) /\ NoDup (pipeline st).
Proof. exact deleted_only_dropped. Qed.
Print Assumptions C12_deleted_only_dropped.

(** A Waker identity is live at most once and its drop is pushed at most once. *)
Theorem C12_dropped_at_most_once : forall st h, reachable st -> (regsrc st h + npush st h <= 1)%nat.
Proof. exact dropped_at_most_once. Qed.
Print Assumptions C12_dropped_at_most_once.
