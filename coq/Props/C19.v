(* placeholder while the proofs are being developed *)
From Coq Require Import ZArith.
From Stk Require Import T.Model T.Spec.
Theorem C19_order : True. Proof. exact I. Qed.
Print Assumptions C19_order.
