(** Property C19: fixed timers firing in one run execute in deadline order.
    Only property theorems live here; each is closed by [exact] of a lemma of coq/T. *)
From Coq Require Import ZArith List Bool.
From Stk Require Import Lib.U Gen.SrcTimers T.Model T.Spec T.Inv T.Rel T.Main T.Witness.
Import ListNotations.
Local Open Scope Z_scope.

(** For every good history that is band-free (no fixed timer is created with an expiry e such that
    now + 32767 s - 2 * 2^14 ns <= e < now + 32767 s: the class NearBoundaryVar of known finding F6)
    the C19 monitor of T/Spec.v is true at every run: among the fixed timers created less than
    32767 s ahead that fire in one run, no timer runs before another whose deadline
    (max (expiry, creation time)) is two resolution steps or more earlier, and timers given the
    identical instant at the same time run in creation order. *)
Theorem C19_order : forall ops, good ops -> band_free ops -> v19 (mon_all (model_history ops)) = true.
Proof. exact C19_all. Qed.
Check C19_order : forall ops, good ops -> band_free ops -> v19 (mon_all (model_history ops)) = true.
Print Assumptions C19_order.

(** the excluded classes are necessary.  F3 (SeqWrap): with the fixed-timer sequence at its 31-bit
    wrap two timers given the identical instant run in reverse creation order *)
Theorem F3_refuted :
  Z.of_nat (length f3_ops) < HMAX /\ Forall op_bounds f3_ops /\ NoDup (ops_cbs f3_ops) /\
  wellkeyed (model_history f3_ops) = true /\ uses_poke f3_ops = true /\ band_free f3_ops /\
  v19 (mon_all (model_history f3_ops)) = false.
Proof. exact F3_witness. Qed.
(** F6 (NearBoundaryVar): a good history inside the band, no poke needed *)
Theorem F6_refuted :
  good f6_ops /\ band_free_from 0 (model_history f6_ops) = false /\
  v19 (mon_all (model_history f6_ops)) = false.
Proof. exact F6_witness. Qed.
Print Assumptions F6_refuted.

Example C19_good_satisfiable : good good_ops /\ band_free good_ops.
Proof. exact good_ops_good. Qed.
Example C19_good_verdict : v_all (mon_all (model_history good_ops)) = true.
Proof. exact good_ops_verdict. Qed.
