(** C16: everything is released exactly once, safely (Layer R logic part; flat queue memory: Layer Q) -- PARTIAL.
    Proved: the translated MinRc table frees exactly on 1 -> 0 and never underflows; clone then drop returns to the
    same count; the actor cell of the model is freed exactly when that table says so; closure instances of the main
    queue are consumed exactly once (C01).  Sampled: machine-level memory safety under AddressSanitizer (thorough
    tier).  Not yet proved: [C16_ok] for all programs outside the classes of F4/F5/F7. *)
From Coq Require Import ZArith NArith List.
Import ListNotations.
From Stk Require Import Lib.U Gen.SrcCount R.Syntax R.Rt R.Mon R.Count R.OneStep.
Local Open Scope Z_scope.

Theorem C16_heap_partial :
  (forall c, 0 <= c < 18446744073709551615 -> minrc_drop c = Some (Z.max 0 (c - 1), c =? 1)) /\
  (forall c, 0 < c < 18446744073709551614 -> exists v, minrc_clone c = Some v /\ minrc_drop v = Some (c, false)) /\
  (forall a s pre s' x v z,
     drop_ref a s = (pre, s') -> aget (actors s) a = Some x -> a_freed x = false -> minrc_drop (a_rc x) = Some (v, z) ->
     exists x', aget (actors s') a = Some x' /\ a_freed x' = z /\ a_rc x' = v).
Proof. split; [exact minrc_drop_spec|]. split; [exact minrc_clone_drop | exact drop_ref_frees]. Qed.
Print Assumptions C16_heap_partial.
