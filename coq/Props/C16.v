(** C16: everything is released exactly once, safely (Layer R logic part; flat queue memory: Layer Q) -- PARTIAL.
    Proved: the translated MinRc table frees exactly on 1 -> 0 and never underflows; clone then drop returns to the
    same count; the actor cell of the model is freed exactly when that table says so; closure instances of the main
    queue are consumed exactly once (C01).  Sampled: machine-level memory safety under AddressSanitizer (thorough
    tier).
    Proved for every program (any deferrer kind, any fuel): the at-most-once / not-before-creation part of C16_ok
    for closure instances, actor values, user Rets and termination notifiers ([C16_released_once_partial]), where
    [C16_decomposition] shows that C16_ok is exactly the conjunction of the flag check (no leak report, no
    impossible code, no use of a freed cell) and the at-most-once monitors of these kinds and of the others.
    Proved for every program (layerRproofs2, R/LinRef*.v, LinUaf*.v, LinFlags.v): the flag check except its leak
    conjunct -- no access to an actor cell that is gone (neither "not in the table" nor "already freed": [C16_no_uaf],
    from the reference census: a holder exists => the cell is in the table, not freed, MinRc count >= 1; a freed cell
    keeps count 0) and no "impossible" code ([C16_flags_no_leak_part]); hence C16_flags_ok holds as soon as the trace
    reports no leak ([C16_flags_of_no_leak]).
    Proved for every program (layerRproofs2, R/LinOnce*.v, LinTok*.v): at-most-once / not-before-creation for the
    remaining kinds -- tokens (token census), Fwd closures, orphaned value tokens ([C16_released_once_rest]).
    Hence [C16_of_no_leak]: for every program, deferrer kind and fuel, C16_ok t = true as soon as the trace reports no
    leak (decidable on the trace); the hypothesis is necessary ([C16_leak_refuted]: F5).
    Not yet proved: the leak conjunct itself (nothing leaks outside the classes of F4/F5/F7, the self-referencing
    actor and the documented 'defer after the Stakker is dropped' case): it needs the final-configuration argument
    (after the flush rounds of the epilogue everything counted by the censuses has been dropped). *)
From Coq Require Import ZArith NArith List Bool.
Import ListNotations.
From Stk Require Import Lib.U Gen.SrcCount R.Syntax R.Rt R.Mon R.Count R.OneStep R.C16Proofs R.LinUafInv R.LinFlags R.LinOnce3 R.C05Proofs R.F8Witness.
Local Open Scope Z_scope.

Theorem C16_heap_partial :
  (forall c, 0 <= c < 18446744073709551615 -> minrc_drop c = Some (Z.max 0 (c - 1), c =? 1)) /\
  (forall c, 0 < c < 18446744073709551614 -> exists v, minrc_clone c = Some v /\ minrc_drop v = Some (c, false)) /\
  (forall a s pre s' x v z,
     drop_ref a s = (pre, s') -> aget (actors s) a = Some x -> a_freed x = false -> minrc_drop (a_rc x) = Some (v, z) ->
     exists x', aget (actors s') a = Some x' /\ a_freed x' = z /\ a_rc x' = v).
Proof. split; [exact minrc_drop_spec|]. split; [exact minrc_clone_drop | exact drop_ref_frees]. Qed.
Print Assumptions C16_heap_partial.

(* C16_ok splits into the flag check and the at-most-once monitors of any two complementary sets of object kinds *)
Theorem C16_decomposition : forall (K : N -> bool) (t : list ev),
  C16_ok t = C16_flags_ok t && C16_once_ok K t && C16_once_ok (fun k => negb (K k)) t.
Proof. exact C16_split. Qed.
Print Assumptions C16_decomposition.

(* closures, actor values, user Rets, termination notifiers: consumed only if created before and not yet consumed *)
Theorem C16_released_once_partial : forall (d : dkind) (p : list top) (fuel : nat) (t : list ev),
  exec d fuel p = Done t -> C16_once_ok K16_lin t = true.
Proof. exact C16_lin_proved. Qed.
Print Assumptions C16_released_once_partial.

Example C16_once_table :
  C16_once_ok K16_lin [EClo 1 0; ERun 1 0 QMain] = true /\
  C16_once_ok K16_lin [EClo 1 0; ERun 1 0 QMain; EDrop 1 None false] = false /\
  C16_once_ok K16_lin [ERun 1 0 QMain; EClo 1 0] = false /\
  C16_once_ok K16_lin [ERetNew 7; ERet 7 None; ERet 7 (Some 3%N)] = false /\
  C16_once_ok K16_lin [EActor 2; EReady 2; EValDrop 2; ENotify 2 None] = true /\
  C16_once_ok K16_lin [EActor 2; ENotify 2 None; ENotify 2 None] = false.
Proof. exact C16_once_rejects. Qed.

(* no access to an actor cell that is gone: the model's defensive M_UAF branches are unreachable, for every program *)
Theorem C16_no_uaf : forall (d : dkind) (p : list top) (fuel : nat) (t : list ev),
  exec d fuel p = Done t ->
  forallb (fun e => match e with EModel c _ => negb (N.eqb c M_UAF) | _ => true end) t = true.
Proof. exact no_uaf. Qed.
Print Assumptions C16_no_uaf.

(* the flag check without its leak conjunct *)
Theorem C16_flags_no_leak_part : forall (d : dkind) (p : list top) (fuel : nat) (t : list ev),
  exec d fuel p = Done t -> forallb flag16_nl t = true.
Proof. exact C16_flags_noleak. Qed.
Print Assumptions C16_flags_no_leak_part.

Theorem C16_flags_of_no_leak : forall (d : dkind) (p : list top) (fuel : nat) (t : list ev),
  exec d fuel p = Done t -> (forall k i, ~ In (ELeak k i) t) -> C16_flags_ok t = true.
Proof. exact C16_flags_of_noleak. Qed.
Print Assumptions C16_flags_of_no_leak.

(* tokens, Fwd closures, orphaned value tokens: released only if created before and not yet released *)
Theorem C16_released_once_rest : forall (d : dkind) (p : list top) (fuel : nat) (t : list ev),
  exec d fuel p = Done t -> C16_once_ok (fun k => negb (K16_lin k)) t = true.
Proof. exact C16_once_rest_proved. Qed.
Print Assumptions C16_released_once_rest.

(* the property, given that the trace reports no leak *)
Theorem C16_of_no_leak : forall (d : dkind) (p : list top) (fuel : nat) (t : list ev),
  exec d fuel p = Done t -> (forall k i, ~ In (ELeak k i) t) -> C16_ok t = true.
Proof.
  intros d p fuel t E NL. rewrite (C16_split K16_lin).
  rewrite (C16_flags_of_noleak d p fuel t E NL), (C16_lin_proved d p fuel t E), (C16_once_rest_proved d p fuel t E).
  reflexivity.
Qed.
Check C16_of_no_leak.
Print Assumptions C16_of_no_leak.

(* the hypothesis is necessary: known finding F5 (a closure held by an actor that never leaves Prep is leaked) *)
Example C16_leak_refuted :
  exists t, exec DGlobal 2000 f5_prog = Done t /\ In (ELeak LK_CLO 1) t /\ C16_ok t = false /\
            C16_once_ok K16_lin t = true /\ C16_once_ok (fun k => negb (K16_lin k)) t = true.
Proof. eexists. split; [vm_compute; reflexivity|]. split; [vm_compute; tauto|]. repeat split; vm_compute; reflexivity. Qed.

(* known finding F8 (PendingTermRefCycle), at model level: a Ready actor whose state holds a non-owning reference to an
   actor whose notifier refers back to it, owners dropped after the last run, Stakker dropped: both values and both
   notifiers leak, no class flag of the model fires (the check decides this class on the program text); with a run
   before the Stakker drop everything is released *)
Example F8_refuted :
  exists t, exec DGlobal 3000 f8_prog = Done t /\ no_class_flag t = true /\
            In (ELeak LK_VAL 2) t /\ In (ELeak LK_VAL 3) t /\ In (ELeak LK_NOTIFY 2) t /\ In (ELeak LK_NOTIFY 3) t /\
            C16_ok t = false /\ C03_ok t = false.
Proof. exact F8_refuted_proved. Qed.
Example F8_control :
  exists t, exec DGlobal 3000 f8_control = Done t /\ C16_ok t = true /\ C03_ok t = true /\
            In (ENotify 2 (Some CDrop)) t /\ In (ENotify 3 (Some CDrop)) t.
Proof. exact F8_control_proved. Qed.

(** The leak conjunct: final-configuration argument (R/C16Leak.v, C16Leak2.v, C16Leak3.v, C16LeakEx.v).
    Proved: the configuration in which the leak report is computed ([C16_final_state], both deferrer kinds: no Stakker
    alive, empty environment / frame stack / lazy queue / idle queue / timers; closure instances left in the main queue
    were parked after the last Core::new); with the global / thread-local deferrer every reported leak of a closure
    instance / user Ret / termination notifier / actor value is an object of that main queue or of an actor cell still in
    the table ([C16_leak_located], exact census); hence nothing of these four kinds leaks in a run that creates no actor
    and whose last flush round parks nothing ([C16_no_container_leak_settled]; both hypotheses decidable on the trace), and
    C16_ok holds for such a run if moreover it creates no token / Fwd closure / orphaned value ([C16_no_leak_settled]).
    "No actor at all" alone is NOT sufficient: [C16_epilogue_depth] (a chain of Ret Drop handlers longer than the two
    flush rounds of the epilogue leaves a parked closure; no class flag).
    Not proved: the same for runs with actors whose cells are all freed (reference-cycle-free programs): needs the
    reference census of LinRef*.v as an EQUALITY (count = holders, below saturation) and an exact token / Fwd-object census. *)
From Stk Require Import R.Lin R.LinStep R.LinLive R.C16Leak R.C16Leak2 R.C16Leak3 R.C16LeakEx.

Theorem C16_exec_final : forall (d : dkind) (p : list top) (fuel : nat) (t : list ev),
  exec d fuel p = Done t -> exists s, LinStep.reach d p [MLeaks] s /\ t = final_of s.
Proof. exact exec_final. Qed.
Print Assumptions C16_exec_final.

Theorem C16_final_state : forall (d : dkind) (p : list top) (s : st), LinStep.reach d p [MLeaks] s ->
  alive s = false /\ env s = [] /\ frames s = [] /\ lazyq s = [] /\ idleq s = [] /\ timers s = [] /\
  (has_real (mainq s) = true -> sub_since_new (tr s) = true) /\ nlk (tr s) = true.
Proof. exact final_state. Qed.
Print Assumptions C16_final_state.

Theorem C16_leak_located : forall (p : list top) (s : st) (x : res) (k i : N),
  LinStep.reach DGlobal p [MLeaks] s -> tok x = Some (k, i) ->
  In (ELeak k i) (final_of s) -> 1 <= cq x (mainq s) + cacts x (actors s).
Proof. exact leak_located. Qed.
Print Assumptions C16_leak_located.

Theorem C16_no_container_leak_settled : forall (p : list top) (fuel : nat) (t : list ev),
  exec DGlobal fuel p = Done t -> settled t = true -> no_actor t = true ->
  forall k i, In (ELeak k i) t -> K16_lin k = false.
Proof. exact no_lin_leak. Qed.
Print Assumptions C16_no_container_leak_settled.

Theorem C16_no_leak_settled : forall (p : list top) (fuel : nat) (t : list ev),
  exec DGlobal fuel p = Done t -> settled t = true -> no_actor t = true -> simple16 t = true -> C16_ok t = true.
Proof. exact C16_ok_settled. Qed.
Print Assumptions C16_no_leak_settled.

Example C16_no_leak_example :
  exists t, exec DGlobal 3000 plain_prog = Done t /\
            settled t = true /\ no_actor t = true /\ simple16 t = true /\
            (forall k i, ~ In (ELeak k i) t) /\ C16_ok t = true /\
            has (fun e => match e with ESub QMain _ false => true | _ => false end) t = true /\
            has (fun e => match e with ESub QLazy _ false => true | _ => false end) t = true /\
            has (fun e => match e with ESub QIdle _ false => true | _ => false end) t = true /\
            has (fun e => match e with ESub QTimer _ false => true | _ => false end) t = true /\
            has (fun e => match e with ETimerDel TMax _ true => true | _ => false end) t = true /\
            has (fun e => match e with ERet _ (Some _) => true | _ => false end) t = true /\
            has (fun e => match e with ERet _ None => true | _ => false end) t = true /\
            has (fun e => match e with ERun _ _ QTimer => true | _ => false end) t = true /\
            has (fun e => match e with EDrop _ (Some QTimer) _ => true | _ => false end) t = true /\
            has (fun e => match e with EDrop _ (Some QIdle) _ => true | _ => false end) t = true /\
            has (fun e => match e with EDrop _ (Some QMain) _ => true | _ => false end) t = true /\
            (10 <=? Z.of_nat (length (filter (fun e => match e with EClo _ _ => true | _ => false end) t))) = true.
Proof. exact no_leak_nontrivial. Qed.

(* finding EpilogueDepth: a program without any actor leaks a parked closure; no class flag *)
Example C16_epilogue_depth :
  exists t, exec DGlobal 3000 deep_prog = Done t /\ no_actor t = true /\ simple16 t = true /\ no_class_flag t = true /\
            settled t = false /\ has (fun e => match e with ELeak 0 3 => true | _ => false end) t = true /\ C16_ok t = false.
Proof. exact EpilogueDepth_refuted. Qed.
