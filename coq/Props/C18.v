(** C18: the cfg-selected alternatives implement one interface (model-level statements; the
    equality across real builds is the per-configuration correspondence run by ./check C18). *)
From Coq Require Import ZArith Lia Bool.
From Stk Require Import Lib.U Gen.SrcCount T.Bits.
Local Open Scope Z_scope.

(** CountAndState (used by BOTH ActorRc variants, packed and std): the packed word is a faithful
    pair (count, state): state bits survive inc/dec, set_state keeps the count. *)
Definition cs_count (w : Z) : Z := w / COUNT_INC.
Definition cs_state (w : Z) : Z := w mod COUNT_INC.

Lemma count_roundtrip w st :
  0 <= w < 18446744073709551616 -> 0 <= st < 4 ->
  match count_set_state w st with
  | Some w' => cs_count w' = cs_count w /\ cs_state w' = st
  | None => False
  end.
Proof.
  intros Hw Hs. unfold count_set_state, cs_count, cs_state.
  change COUNT_MASK with (2 ^ 64 - 2 ^ 2). change COUNT_INC with 4.
  assert (E : Z.land w (2 ^ 64 - 2 ^ 2) = (w / 4) * 2 ^ 2).
  { rewrite land_high_mask by (change (2 ^ 64) with 18446744073709551616; lia).
    change (2 ^ 2) with 4. pose proof (Z.div_mod w 4 ltac:(lia)). lia. }
  rewrite E. rewrite lor_disjoint_add by (change (2 ^ 2) with 4; lia).
  change (2 ^ 2) with 4. split.
  - rewrite Z.div_add_l by lia. rewrite (Z.div_small st 4) by lia. lia.
  - rewrite Z.add_comm, Z.mod_add by lia. apply Z.mod_small; lia.
Qed.

Theorem C18_count_roundtrip : forall w st,
  0 <= w < 18446744073709551616 -> 0 <= st < 4 ->
  match count_set_state w st with
  | Some w' => cs_count w' = cs_count w /\ cs_state w' = st
  | None => False
  end.
Proof. exact count_roundtrip. Qed.
Print Assumptions C18_count_roundtrip.

(** Layer R's part: the count interfaces the runtime model uses (coq/R/Count.v).  The packed CountAndState word
    IS the (count, state) pair for every operation of rc/count.rs (inc / dec / set_state / is_prep / is_zombie),
    used identically by rc/actorrc_packed.rs and rc/actorrc_std.rs; the hand-rolled MinRc count (rc/minrc.rs; the
    no-unsafe builds use std::rc::Rc) counts like Rc and frees exactly on 1 -> 0. *)
From Stk Require Import R.Count.

Theorem C18_count_interface :
  (forall v, 0 <= v -> pack (cnt v) (sta v) = v) /\
  (forall c st, 0 <= st < 4 -> cnt (pack c st) = c /\ sta (pack c st) = st) /\
  count_new = Some (pack 0 STATE_PREP) /\
  (forall c st, 0 <= c < CMAX -> 0 <= st < 4 -> count_inc (pack c st) = Some (pack (c + 1) st)) /\
  (forall c st, 0 < c < CMAX -> 0 <= st < 4 -> count_dec (pack c st) = Some (pack (c - 1) st, c =? 1)) /\
  (forall st, 0 <= st < 4 -> count_dec (pack 0 st) = Some (pack 0 st, false)) /\
  (forall c st st', 0 <= c <= CMAX -> 0 <= st < 4 -> 0 <= st' < 4 -> count_set_state (pack c st) st' = Some (pack c st')) /\
  (forall c st, 0 <= c <= CMAX -> 0 <= st < 4 -> count_is_prep (pack c st) = Some (st =? 0)) /\
  (forall c st, 0 <= c <= CMAX -> 0 <= st < 4 -> count_is_zombie (pack c st) = Some (st =? 2)).
Proof.
  repeat split; intros; auto using pack_unpack, count_inc_spec, count_dec_spec, count_dec_zero, count_set_state_spec,
    is_prep_spec, is_zombie_spec; try (apply unpack_pack; auto).
Qed.
Print Assumptions C18_count_interface.

Theorem C18_minrc_interface :
  MINRC_INIT = 1 /\
  (forall c, 0 <= c < 18446744073709551615 -> minrc_clone c = Some (c + 1)) /\
  (forall c, 0 <= c < 18446744073709551615 -> minrc_drop c = Some (Z.max 0 (c - 1), c =? 1)).
Proof. split; [reflexivity|]. split; [exact minrc_clone_spec | exact minrc_drop_spec]. Qed.
Print Assumptions C18_minrc_interface.

(** Layer R's part, continued: the deferrer variants.  The runtime machine [exec d fuel p] carries the deferrer kind
    [d] ([DGlobal]: the global and thread-local deferrers, whose queue survives the Stakker and is dropped by the next
    [Core::new]; [DInline]: the inline deferrer selected by the features inline-deferrer / multi-stakker, whose queue
    dies with the last Deferrer clone).  [dk s] is read by one micro-op only, [MNew], and matters only when the
    previous instance left something queued (R/Dkind.v: [handle_dk], every handler commutes with a change of [dk]
    otherwise); R/DkindSim.v is the lock-step simulation.  [upto_dropend t] is the prefix of the trace up to and
    including the first [dropend] event, i.e. what tools/checks/layer_r.py [cfg_compare] compares for the
    inline-deferrer configurations. *)
From Coq Require Import List.
Import ListNotations.
From Stk Require Import R.Syntax R.Rt R.Dkind R.DkindSim.

(* For EVERY program that creates its Stakker first (every program of the harness does; with the real crate a
   Deferrer can only be obtained from a Stakker) and any amounts of fuel: until the first Stakker instance has been
   torn down the two deferrer variants produce exactly the same events. *)
Theorem C18_deferrer_prefix : forall (t0 : Z) (p : list top) (fuelG fuelI : nat) (tG tI : list ev),
  exec DGlobal fuelG (TNew t0 :: p) = Done tG -> exec DInline fuelI (TNew t0 :: p) = Done tI ->
  upto_dropend tG = upto_dropend tI.
Proof. exact deferrer_prefix. Qed.
Print Assumptions C18_deferrer_prefix.

(* For every program whatsoever: the same events up to and including the first [new].  This is exact: a closure
   deferred through a Deferrer before any Stakker exists is dropped by the first Core::new of the global variant only
   (C18_deferrer_new_first_needed: the traces then differ right after the first [new], before any [dropend]). *)
Theorem C18_deferrer_prefix_any : forall (p : list top) (fuelG fuelI : nat) (tG tI : list ev),
  exec DGlobal fuelG p = Done tG -> exec DInline fuelI p = Done tI -> upto_new tG = upto_new tI.
Proof. exact deferrer_prefix_any. Qed.
Print Assumptions C18_deferrer_prefix_any.

(* The whole trace: if every Core::new of the global run finds the deferrer queue empty ([news_clean], a computable
   predicate on the model run: nothing left in limbo by a teardown, nothing deferred while no Stakker exists), the
   two variants produce the same trace. *)
Theorem C18_deferrer_full : forall (p : list top) (fuelG fuelI : nat) (tG tI : list ev),
  news_clean fuelG (map MTop p ++ [MEpilogue]) (init DGlobal) = true ->
  exec DGlobal fuelG p = Done tG -> exec DInline fuelI p = Done tI -> tG = tI.
Proof. exact deferrer_full. Qed.
Print Assumptions C18_deferrer_full.

(* Not vacuous, and sharp: a program with closures, an actor, timers and a token whose Drop handler defers during the
   field phase of Stakker::drop (limbo, model flag 4): both runs finish, the prefixes (40 events) agree, the full
   traces differ right after the next [new] (global: the limbo closure is dropped; inline: it leaks). *)
Theorem C18_deferrer_example :
  exists tG tI,
    exec DGlobal 400 ex_prog = Done tG /\ exec DInline 400 ex_prog = Done tI /\
    upto_dropend tG = upto_dropend tI /\ length (upto_dropend tG) = 40%nat /\
    existsb (fun e => match e with EModel 4 0 => true | _ => false end) (upto_dropend tG) = true /\
    nth 41 tG EEpilogue = EDrop 6 (Some QMain) false /\ nth 41 tI EEpilogue = ERunBegin 30 false /\
    existsb (fun e => match e with ELeak 0 6 => true | _ => false end) tI = true /\
    existsb (fun e => match e with ELeak _ _ => true | _ => false end) tG = false /\
    tG <> tI.
Proof. exact deferrer_prefix_example. Qed.
Print Assumptions C18_deferrer_example.

Theorem C18_deferrer_new_first_needed :
  exists tG tI,
    exec DGlobal 100 pre_prog = Done tG /\ exec DInline 100 pre_prog = Done tI /\
    upto_new tG = upto_new tI /\ length (upto_new tG) = 3%nat /\
    nth 3 tG (ENew 0) = EDrop 1 (Some QMain) false /\ nth 3 tI (ENew 0) = EEpilogue /\
    upto_dropend tG <> upto_dropend tI.
Proof. exact deferrer_prefix_needs_new_first. Qed.
Print Assumptions C18_deferrer_new_first_needed.

Theorem C18_deferrer_full_example :
  news_clean 400 (map MTop clean_prog ++ [MEpilogue]) (init DGlobal) = true /\
  exists t, exec DGlobal 400 clean_prog = Done t /\ exec DInline 400 clean_prog = Done t /\ length t = 54%nat /\
            news_clean 400 (map MTop ex_prog ++ [MEpilogue]) (init DGlobal) = false.
Proof. exact deferrer_full_example. Qed.
Print Assumptions C18_deferrer_full_example.

(* Why the hypothesis of C18_deferrer_full is [news_clean] and not just "no limbo flag in the trace": an owner handle
   that outlives the Stakker queues terminate(Dropped) while no Stakker exists (no [~model 4] flag); the next [new]
   drops the item and frees the actor under the global deferrer only. *)
Theorem C18_deferrer_limbo_flag_insufficient :
  exists tG tI,
    exec DGlobal 200 own_prog = Done tG /\ exec DInline 200 own_prog = Done tI /\
    existsb (fun e => match e with EModel 4 _ => true | _ => false end) tG = false /\
    upto_dropend tG = upto_dropend tI /\
    nth 17 tG EEpilogue = EModel 1 1 /\ nth 17 tI EEpilogue = EDropBegin /\
    existsb (fun e => match e with ELeak 1 1 => true | _ => false end) tI = true /\
    tG <> tI.
Proof. exact deferrer_limbo_flag_insufficient. Qed.
Print Assumptions C18_deferrer_limbo_flag_insufficient.
