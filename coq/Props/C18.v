(** C18: the cfg-selected alternatives implement one interface (model-level statements; the
    equality across real builds is the per-configuration correspondence run by ./check C18). *)
From Coq Require Import ZArith Lia Bool.
From Stk Require Import Lib.U Gen.SrcCount T.Bits.
Local Open Scope Z_scope.

(** CountAndState (used by BOTH ActorRc variants, packed and std): the packed word is a faithful
    pair (count, state): state bits survive inc/dec, set_state keeps the count. *)
Definition cs_count (w : Z) : Z := w / COUNT_INC.
Definition cs_state (w : Z) : Z := w mod COUNT_INC.

Lemma count_roundtrip w st :
  0 <= w < 18446744073709551616 -> 0 <= st < 4 ->
  match count_set_state w st with
  | Some w' => cs_count w' = cs_count w /\ cs_state w' = st
  | None => False
  end.
Proof.
  intros Hw Hs. unfold count_set_state, cs_count, cs_state.
  change COUNT_MASK with (2 ^ 64 - 2 ^ 2). change COUNT_INC with 4.
  assert (E : Z.land w (2 ^ 64 - 2 ^ 2) = (w / 4) * 2 ^ 2).
  { rewrite land_high_mask by (change (2 ^ 64) with 18446744073709551616; lia).
    change (2 ^ 2) with 4. pose proof (Z.div_mod w 4 ltac:(lia)). lia. }
  rewrite E. rewrite lor_disjoint_add by (change (2 ^ 2) with 4; lia).
  change (2 ^ 2) with 4. split.
  - rewrite Z.div_add_l by lia. rewrite (Z.div_small st 4) by lia. lia.
  - rewrite Z.add_comm, Z.mod_add by lia. apply Z.mod_small; lia.
Qed.

Theorem C18_count_roundtrip : forall w st,
  0 <= w < 18446744073709551616 -> 0 <= st < 4 ->
  match count_set_state w st with
  | Some w' => cs_count w' = cs_count w /\ cs_state w' = st
  | None => False
  end.
Proof. exact count_roundtrip. Qed.
Print Assumptions C18_count_roundtrip.

(** Layer R's part: the count interfaces the runtime model uses (coq/R/Count.v).  The packed CountAndState word
    IS the (count, state) pair for every operation of rc/count.rs (inc / dec / set_state / is_prep / is_zombie),
    used identically by rc/actorrc_packed.rs and rc/actorrc_std.rs; the hand-rolled MinRc count (rc/minrc.rs; the
    no-unsafe builds use std::rc::Rc) counts like Rc and frees exactly on 1 -> 0. *)
From Stk Require Import R.Count.

Theorem C18_count_interface :
  (forall v, 0 <= v -> pack (cnt v) (sta v) = v) /\
  (forall c st, 0 <= st < 4 -> cnt (pack c st) = c /\ sta (pack c st) = st) /\
  count_new = Some (pack 0 STATE_PREP) /\
  (forall c st, 0 <= c < CMAX -> 0 <= st < 4 -> count_inc (pack c st) = Some (pack (c + 1) st)) /\
  (forall c st, 0 < c < CMAX -> 0 <= st < 4 -> count_dec (pack c st) = Some (pack (c - 1) st, c =? 1)) /\
  (forall st, 0 <= st < 4 -> count_dec (pack 0 st) = Some (pack 0 st, false)) /\
  (forall c st st', 0 <= c <= CMAX -> 0 <= st < 4 -> 0 <= st' < 4 -> count_set_state (pack c st) st' = Some (pack c st')) /\
  (forall c st, 0 <= c <= CMAX -> 0 <= st < 4 -> count_is_prep (pack c st) = Some (st =? 0)) /\
  (forall c st, 0 <= c <= CMAX -> 0 <= st < 4 -> count_is_zombie (pack c st) = Some (st =? 2)).
Proof.
  repeat split; intros; auto using pack_unpack, count_inc_spec, count_dec_spec, count_dec_zero, count_set_state_spec,
    is_prep_spec, is_zombie_spec; try (apply unpack_pack; auto).
Qed.
Print Assumptions C18_count_interface.

Theorem C18_minrc_interface :
  MINRC_INIT = 1 /\
  (forall c, 0 <= c < 18446744073709551615 -> minrc_clone c = Some (c + 1)) /\
  (forall c, 0 <= c < 18446744073709551615 -> minrc_drop c = Some (Z.max 0 (c - 1), c =? 1)).
Proof. split; [reflexivity|]. split; [exact minrc_clone_spec | exact minrc_drop_spec]. Qed.
Print Assumptions C18_minrc_interface.
