(** C18: the cfg-selected alternatives implement one interface (model-level statements; the
    equality across real builds is the per-configuration correspondence run by ./check C18). *)
From Coq Require Import ZArith Lia Bool.
From Stk Require Import Lib.U Gen.SrcCount T.Bits.
Local Open Scope Z_scope.

(** CountAndState (used by BOTH ActorRc variants, packed and std): the packed word is a faithful
    pair (count, state): state bits survive inc/dec, set_state keeps the count. *)
Definition cs_count (w : Z) : Z := w / COUNT_INC.
Definition cs_state (w : Z) : Z := w mod COUNT_INC.

Lemma count_roundtrip w st :
  0 <= w < 18446744073709551616 -> 0 <= st < 4 ->
  match count_set_state w st with
  | Some w' => cs_count w' = cs_count w /\ cs_state w' = st
  | None => False
  end.
Proof.
  intros Hw Hs. unfold count_set_state, cs_count, cs_state.
  change COUNT_MASK with (2 ^ 64 - 2 ^ 2). change COUNT_INC with 4.
  assert (E : Z.land w (2 ^ 64 - 2 ^ 2) = (w / 4) * 2 ^ 2).
  { rewrite land_high_mask by (change (2 ^ 64) with 18446744073709551616; lia).
    change (2 ^ 2) with 4. pose proof (Z.div_mod w 4 ltac:(lia)). lia. }
  rewrite E. rewrite lor_disjoint_add by (change (2 ^ 2) with 4; lia).
  change (2 ^ 2) with 4. split.
  - rewrite Z.div_add_l by lia. rewrite (Z.div_small st 4) by lia. lia.
  - rewrite Z.add_comm, Z.mod_add by lia. apply Z.mod_small; lia.
Qed.

Theorem C18_count_roundtrip : forall w st,
  0 <= w < 18446744073709551616 -> 0 <= st < 4 ->
  match count_set_state w st with
  | Some w' => cs_count w' = cs_count w /\ cs_state w' = st
  | None => False
  end.
Proof. exact count_roundtrip. Qed.
Print Assumptions C18_count_roundtrip.
