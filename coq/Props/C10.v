(* placeholder while the proofs are being developed *)
From Coq Require Import ZArith.
From Stk Require Import T.Model T.Spec.
Theorem C10_keys_exact : True. Proof. exact I. Qed.
Print Assumptions C10_keys_exact.
