(** Property C10: timer keys are exact; stale and Default keys are inert.
    Only property theorems live here; each is closed by [exact] of a lemma of coq/T. *)
From Coq Require Import ZArith List Bool.
From Stk Require Import Lib.U Gen.SrcTimers T.Model T.Spec T.Inv T.Rel T.Main T.Witness.
Import ListNotations.
Local Open Scope Z_scope.

(** For every good history the C10 monitor of T/Spec.v is true at every operation: timer_del,
    timer_max_del/upd/active and timer_min_del/upd/active answer true exactly when the timer
    created by the operation that issued the key is still pending (so a key answers false forever
    after its timer fired or was deleted, whatever reuse its slot has seen, and the Default key
    always answers false), and no callback of a successfully deleted timer is ever reported. *)
Theorem C10_keys_exact : forall ops, good ops -> v10 (mon_all (model_history ops)) = true.
Proof. exact C10_all. Qed.
Check C10_keys_exact : forall ops, good ops -> v10 (mon_all (model_history ops)) = true.
Print Assumptions C10_keys_exact.

(** the excluded classes are necessary: with the generation of a slot brought next to its 32-bit
    wrap (known finding F2, class GenWrap; the poke stands for 2^32 - 2 add/delete cycles) a stale
    Max key reports a newer Min timer as active *)
Theorem F2_refuted :
  Z.of_nat (length f2_ops) < HMAX /\ Forall op_bounds f2_ops /\ NoDup (ops_cbs f2_ops) /\
  wellkeyed (model_history f2_ops) = true /\ uses_poke f2_ops = true /\
  v10 (mon_all (model_history f2_ops)) = false.
Proof. exact F2_witness. Qed.
(** with the fixed-timer sequence at its 31-bit wrap (known finding F3, class SeqWrap) a stale
    FixedTimerKey deletes a newer timer *)
Theorem F3_alias_refuted :
  Z.of_nat (length f3a_ops) < HMAX /\ Forall op_bounds f3a_ops /\ NoDup (ops_cbs f3a_ops) /\
  wellkeyed (model_history f3a_ops) = true /\ uses_poke f3a_ops = true /\
  v10 (mon_all (model_history f3a_ops)) = false.
Proof. exact F3_alias_witness. Qed.
Print Assumptions F2_refuted.

Example C10_good_satisfiable : good good_ops /\ band_free good_ops.
Proof. exact good_ops_good. Qed.
Example C10_good_verdict : v_all (mon_all (model_history good_ops)) = true.
Proof. exact good_ops_verdict. Qed.
