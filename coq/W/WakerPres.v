(** * Layer W: every transition of the core machine preserves the coverage invariant [CInv]. *)
From Coq Require Import ZArith List Bool Arith Lia.
From Stk Require Import Lib.U Gen.SrcWaker W.Waker W.WakerArith W.WakerCore W.WakerSlab.
Import ListNotations.
Local Open Scope Z_scope.
Ltac Zify.zify_post_hook ::= Z.div_mod_to_equations.

(** ** bits *)
Lemma testbit_lor_shift : forall old b, 0 <= b -> Z.testbit (Z.lor old (Z.shiftl 1 b)) b = true.
Proof.
  intros. rewrite Z.lor_spec, Z.shiftl_spec by lia. replace (b - b) with 0 by lia.
  change (Z.testbit 1 0) with true. apply orb_true_r.
Qed.
Lemma testbit_lor_keep : forall old m i, Z.testbit old i = true -> Z.testbit (Z.lor old m) i = true.
Proof. intros. rewrite Z.lor_spec, H. reflexivity. Qed.
Lemma lor_shift_nonzero : forall old b, 0 <= b -> Z.lor old (Z.shiftl 1 b) <> 0.
Proof.
  intros old b Hb E. pose proof (testbit_lor_shift old b Hb) as T. rewrite E in T.
  rewrite Z.bits_0 in T. discriminate.
Qed.

(** ** continuations *)
Lemma in_updT_keep : forall (f : tid -> list instr) t i r new j u,
  f t = i :: r -> In j (f u) -> (u = t /\ j = i) \/ In j (updT f t (new ++ r) u).
Proof.
  intros. destruct (Nat.eq_dec u t) as [->|Hn].
  - rewrite updT_same. rewrite H in H0. destruct H0 as [<-|Hr]; [left; auto | right; apply in_or_app; auto].
  - right. rewrite updT_other by auto. auto.
Qed.
Lemma in_updT_new : forall (f : tid -> list instr) t i r new j u,
  f t = i :: r -> In j (updT f t (new ++ r) u) -> In j (f u) \/ (u = t /\ In j new).
Proof.
  intros. destruct (Nat.eq_dec u t) as [->|Hn].
  - rewrite updT_same in H0. apply in_app_or in H0. destruct H0; [right; auto | left; rewrite H; right; auto].
  - rewrite updT_other in H0 by auto. auto.
Qed.

Lemma okfinal_c_mono : forall c d i,
  (forall bm, creg c bm = true -> creg d bm = true) -> okfinal_c c i -> okfinal_c d i.
Proof.
  intros c d i H W. destruct i as [k| | | | | | |m a|m a| | | |h dl| |]; simpl in *; auto.
  destruct a; simpl in *; auto.
Qed.

Lemma wfinstr_mono : forall c d i,
  (forall bm, creg c bm = true -> creg d bm = true) -> wfinstr c i -> wfinstr d i.
Proof.
  intros c d i H W. destruct i as [k| | | | | | |m a|m a| | | |h dl| |]; simpl in *; auto.
  - destruct k; simpl in *; intuition.
  - destruct a; simpl in *; auto.
Qed.

Lemma SInv_same : forall c d,
  c_sl d = c_sl c -> (forall s, c_vlen d s = c_vlen c s) -> (forall bm, c_base d bm = c_base c bm) ->
  SInv c -> SInv d.
Proof.
  intros c d Hs Hv Hb [].
  assert (Hreg : forall bm, creg d bm = creg c bm) by (intro; unfold creg; rewrite Hv; reflexivity).
  constructor; rewrite ?Hs; auto.
  - intros. rewrite Hv. auto.
  - intros bm Hr. rewrite Hreg in Hr. rewrite Hb. auto.
  - intros. rewrite Hv. auto.
Qed.

Lemma drain_ok_app_nd : forall new r, (forall j, In j new -> is_drain j = false) -> drain_ok r -> drain_ok (new ++ r).
Proof.
  induction new as [|j new IH]; simpl; intros r Hn Hr; auto.
  split.
  - intro Hd. rewrite Hn in Hd by auto. discriminate.
  - apply IH; auto.
Qed.
Lemma drain_ok_tail : forall i r, drain_ok (i :: r) -> drain_ok r.
Proof. simpl; tauto. Qed.

(** the range of a registered bitmap lies below 2^32 *)
Lemma creg_bound : forall c bm, SInv c -> creg c bm = true -> 0 <= bm /\ 4096 * bm + 4096 <= 4294967296.
Proof.
  intros c bm S Hr. unfold creg in Hr. rewrite usize_bits in Hr. apply andb_true_iff in Hr. destruct Hr as [H0 H1].
  apply Z.leb_le in H0. apply Z.ltb_lt in H1.
  destruct S as [[_ Hlen] _ _ Hbm _ _].
  assert (Hb : 4096 * (bm mod 64 + 64 * (bm / 64)) < slen (c_sl c)).
  { apply Hbm; lia. }
  replace (bm mod 64 + 64 * (bm / 64)) with bm in Hb by lia. lia.
Qed.


(** ** Steps that replace the head [i] of thread [t]'s continuation by [new] and leave the slab alone *)
Section HeadStep.
  Variables (c c' : cst) (t : tid) (pre r new : list instr).
  Hypothesis I : CInv c.
  Hypothesis Hc : c_cont c t = pre ++ r.
  Hypothesis Hpre : forall j, In j pre -> j <> IRun /\ (forall l, j <> IHandlers l).
  Hypothesis Hc' : forall u, c_cont c' u = updT (c_cont c) t (new ++ r) u.
  Hypothesis Hsl : c_sl c' = c_sl c.
  Hypothesis Hvl : forall s, c_vlen c' s = c_vlen c s.
  Hypothesis Hbs : forall bm, c_base c' bm = c_base c bm.
  Hypothesis Hacc : c_acc c' = c_acc c.
  Hypothesis Hfin : forall u, c_final c' u = c_final c u.
  Hypothesis Hnew_wf : forall j, In j new -> wfinstr c j.
  Hypothesis Hnew_mo : forall j, In j new -> t <> main -> main_only j = false.
  Hypothesis Hnew_dr : t = main -> drain_ok (new ++ r).

  Lemma hs_creg : forall bm, creg c' bm = creg c bm.
  Proof. intro. unfold creg. rewrite Hvl. reflexivity. Qed.

  Lemma hs_keep : forall j u, In j (c_cont c u) -> (u = t /\ In j pre) \/ In j (c_cont c' u).
  Proof.
    intros j u Hj. rewrite Hc'. destruct (Nat.eq_dec u t) as [->|Hn].
    - rewrite updT_same. rewrite Hc in Hj. apply in_app_or in Hj. destruct Hj; [left; auto|right; apply in_or_app; auto].
    - right. rewrite updT_other by auto. auto.
  Qed.

  Lemma hs_new : forall j u, In j (c_cont c' u) -> In j (c_cont c u) \/ (u = t /\ In j new).
  Proof.
    intros j u Hj. rewrite Hc' in Hj. destruct (Nat.eq_dec u t) as [->|Hn].
    - rewrite updT_same in Hj. apply in_app_or in Hj. destruct Hj; [right; auto|left; rewrite Hc; apply in_or_app; auto].
    - rewrite updT_other in Hj by auto. auto.
  Qed.

  Lemma hs_other : forall u, u <> t -> c_cont c' u = c_cont c u.
  Proof. intros. rewrite Hc'. apply updT_other; auto. Qed.

  Lemma hs_wf : forall u j, In j (c_cont c' u) -> wfinstr c' j.
  Proof.
    intros u j Hj.
    assert (W : wfinstr c j).
    { destruct (hs_new j u Hj) as [H|[_ H]]; [eapply i_wf; eauto | apply Hnew_wf; auto]. }
    eapply wfinstr_mono; [|exact W]. intros bm Hb. rewrite hs_creg. exact Hb.
  Qed.

  Lemma hs_drain : drain_ok (c_cont c' main).
  Proof.
    pose proof (i_drain c I) as D. rewrite Hc'. destruct (Nat.eq_dec main t) as [E|Hn].
    - rewrite <- E. rewrite updT_same. apply Hnew_dr. auto.
    - rewrite updT_other by auto. auto.
  Qed.

  Lemma hs_acc : c_acc c' <> [] -> In IRun (c_cont c' main).
  Proof.
    rewrite Hacc. intro A. pose proof (i_acc c I A) as R.
    destruct (hs_keep _ _ R) as [[_ B]|]; auto. apply Hpre in B. destruct B as [B _]. congruence.
  Qed.

  Lemma hs_mainonly : forall u, u <> main -> forall j, In j (c_cont c' u) -> main_only j = false.
  Proof.
    intros u Hu j Hj. destruct (hs_new j u Hj) as [H|[-> H]].
    - eapply i_mainonly; eauto.
    - apply Hnew_mo; auto.
  Qed.

  Lemma hs_final : forall u j, In j (c_final c' u) -> okfinal_c c' j.
  Proof.
    intros u j Hj. rewrite Hfin in Hj. apply (i_final c I) in Hj.
    destruct j as [k| | | | | | |m a|m a| | | |h dl| |]; simpl in *; auto. destruct a; simpl in *; auto.
    rewrite hs_creg. auto.
  Qed.

  Lemma hs_slab : SInv c'.
  Proof. eapply SInv_same; eauto. apply i_slab; auto. Qed.

  (** pending sets of the main thread: kept unless consumed *)
  Lemma hs_pend_bit : forall x, cpend_bit c x -> cpend_bit c' x.
  Proof.
    intros x [A|[l [A B]]]; [left; rewrite Hacc; auto|].
    right. exists l. split; auto. destruct (hs_keep _ _ A) as [[_ P]|]; auto.
    apply Hpre in P. destruct P as [_ P]. exfalso. eapply P; eauto.
  Qed.

  Lemma hs_in_main : forall j, In j (c_cont c main) -> ~ In j pre -> In j (c_cont c' main).
  Proof. intros j Hj Hn. destruct (hs_keep _ _ Hj) as [[_ P]|]; auto. contradiction. Qed.

  Lemma hs_chpend : forall h d, chpend c h d -> (forall j, In j pre -> ~ hstart j h d) -> chpend c' h d.
  Proof.
    intros h d [j [A B]] Hn. exists j. split; auto. apply hs_in_main; auto. intro P. eapply Hn; eauto.
  Qed.

  Lemma hs_climbing_other : forall u k, cclimbing c u k -> u <> t -> cclimbing c' u k.
  Proof. intros u k [r' H] Hn. exists r'. rewrite hs_other; auto. Qed.
End HeadStep.

Lemma drain_ok_drop : forall pre r, drain_ok (pre ++ r) -> drain_ok r.
Proof. induction pre; simpl; intros; auto. apply IHpre. tauto. Qed.

Lemma drain_replace : forall c t pre r new,
  CInv c -> c_cont c t = pre ++ r -> (forall j, In j new -> is_drain j = false) -> t = main -> drain_ok (new ++ r).
Proof.
  intros c t pre r new I Hc Hn ->. apply drain_ok_app_nd; auto.
  pose proof (i_drain c I) as D. rewrite Hc in D. eapply drain_ok_drop; eauto.
Qed.

Ltac inv_pre H := simpl in H; destruct H as [<-|[]].

(** *** [BitMap::set] *)
Lemma climbing_head_eq : forall c u k i r, cclimbing c u k -> c_cont c u = i :: r -> i = IClimb k.
Proof. intros c u k i r [r' H] H2. rewrite H in H2. inversion H2; auto. Qed.

Lemma climb_eq_dec : forall x y : climb, {x = y} + {x <> y}.
Proof. repeat decide equality. Qed.

Lemma pres_leaf_or : forall c t bm a b w r,
  CInv c -> c_cont c t = IClimb (KLeaf bm a b w) :: r -> CInv (f_leaf_or c t bm a b r).
Proof.
  intros c t bm a b w r I Hc.
  pose proof (i_wf c I t _ ltac:(rewrite Hc; left; reflexivity)) as Hwf. simpl in Hwf. destruct Hwf as [Hreg [Ha Hb]].
  pose proof (i_slab c I) as S.
  set (old := c_leaf c bm a).
  set (new := if old =? 0 then [IClimb (KSum bm a)] else []).
  set (c' := f_leaf_or c t bm a b r).
  assert (Hc0 : c_cont c t = [IClimb (KLeaf bm a b w)] ++ r) by exact Hc.
  assert (Hpre : forall j, In j [IClimb (KLeaf bm a b w)] -> j <> IRun /\ (forall l, j <> IHandlers l)).
  { intros j Hj. inv_pre Hj. split; intros; discriminate. }
  assert (Hc' : forall u, c_cont c' u = updT (c_cont c) t (new ++ r) u).
  { intro u. unfold c', f_leaf_or, new. simpl. fold old. destruct (old =? 0); reflexivity. }
  assert (Hnew : forall j, In j new -> wfinstr c j /\ is_drain j = false /\ (t <> main -> main_only j = false)).
  { intros j Hj. unfold new in Hj. destruct (old =? 0); [inv_pre Hj|destruct Hj]. simpl. auto. }
  assert (Hleaf : forall x y, c_leaf c' x y = if (x =? bm) && (y =? a) then Z.lor old (Z.shiftl 1 b) else c_leaf c x y) by reflexivity.
  assert (Hbit : forall x, bitset c x -> bitset c' x).
  { intros x. unfold bitset. rewrite Hleaf. destruct ((x / 4096 =? bm) && (x mod 4096 / 64 =? a)) eqn:E; auto.
    apply andb_true_iff in E. destruct E as [E1 E2]. apply Z.eqb_eq in E1, E2. rewrite E1, E2. fold old.
    apply testbit_lor_keep. }
  assert (Hkeepc : forall u k, cclimbing c u k -> (forall w', k <> KLeaf bm a b w') -> cclimbing c' u k).
  { intros u k Hk Hne. destruct (Nat.eq_dec u t) as [->|Hn].
    - apply (climbing_head_eq _ _ _ _ _ Hk) in Hc. inversion Hc. exfalso. eapply Hne; eauto.
    - eapply hs_climbing_other; eauto. }
  assert (Hin : forall j, In j (c_cont c main) -> (forall k, j <> IClimb k) -> In j (c_cont c' main)).
  { intros j Hj Hn. eapply hs_in_main; eauto. intro P. inv_pre P. eapply Hn; eauto. }
  constructor.
  - (* i_new *)
    intros h Hh. unfold c', f_leaf_or in Hh. simpl in Hh.
    assert (Hold : c_new c h = true -> chpend c' h true \/ exists x, slab_get (c_sl c') x = Some h /\ bitset c' x).
    { intro Hn. destruct (i_new c I h Hn) as [A|[x [A B]]].
      - left. eapply hs_chpend; eauto. intros j Hj. inv_pre Hj. simpl. tauto.
      - right. exists x. split; auto. }
    destruct (credit c bm a b) as [h0|] eqn:Ecr; auto.
    destruct (hkind_eqb h h0) eqn:Eh; auto.
    apply hkind_eqb_eq in Eh. subst h0. right.
    unfold credit in Ecr. rewrite (s_base c S bm Hreg) in Ecr.
    destruct (creg_bound c bm S Hreg) as [Hbm0 Hbm1].
    rewrite bitmap_join_spec in Ecr by lia.
    exists (64 * a + b + 4096 * bm). split; auto.
    unfold bitset. rewrite Hleaf.
    replace ((64 * a + b + 4096 * bm) / 4096) with bm by lia.
    replace ((64 * a + b + 4096 * bm) mod 4096 / 64) with a by lia.
    replace ((64 * a + b + 4096 * bm) mod 64) with b by lia.
    rewrite !Z.eqb_refl. simpl. apply testbit_lor_shift. lia.
  - (* i_col *)
    intros h Hh. change (c_col c' h) with (c_col c h) in Hh.
    destruct (i_col c I h Hh) as [[d A]|[x [A B]]].
    + left. exists d. eapply hs_chpend; eauto. intros j Hj. inv_pre Hj. simpl. tauto.
    + right. exists x. split; auto. eapply hs_pend_bit; eauto.
  - (* i_leaf *)
    intros bm' a' Hl. rewrite Hleaf in Hl. change (c_summ c' bm') with (c_summ c bm').
    assert (Hold : c_leaf c bm' a' <> 0 ->
                   Z.testbit (c_summ c bm') a' = true \/ cpend_leaf c' bm' a' \/ exists u, cclimbing c' u (KSum bm' a')).
    { intro Hn. destruct (i_leaf c I bm' a' Hn) as [A|[[l [A B]]|[u A]]]; auto.
      - right; left. exists l. split; auto. apply Hin; auto. discriminate.
      - right; right. exists u. apply Hkeepc; auto. discriminate. }
    destruct ((bm' =? bm) && (a' =? a)) eqn:E; auto.
    apply andb_true_iff in E. destruct E as [E1 E2]. apply Z.eqb_eq in E1, E2. subst bm' a'.
    destruct (Z.eq_dec old 0) as [E0|E0].
    + right; right. exists t. exists r. rewrite Hc', updT_same. unfold new. rewrite E0. reflexivity.
    + apply Hold. exact E0.
  - (* i_summ *)
    intros bm' Hs. change (c_summ c' bm') with (c_summ c bm') in Hs. change (c_top c') with (c_top c).
    destruct (i_summ c I bm' Hs) as [A|[[l [A B]]|[u A]]]; auto.
    + right; left. exists l. split; auto. apply Hin; auto. discriminate.
    + right; right. exists u. apply Hkeepc; auto. discriminate.
  - (* i_top *)
    intros Ht. change (c_top c') with (c_top c) in Ht. change (c_notif c') with (c_notif c).
    destruct (i_top c I Ht) as [A|[A|[u A]]]; auto.
    + right; left. apply Hin; auto. discriminate.
    + right; right. exists u. apply Hkeepc; auto. discriminate.
  - (* i_leafwf *)
    intros bm' a' Hl. rewrite Hleaf in Hl. rewrite (hs_creg c c') by reflexivity.
    destruct ((bm' =? bm) && (a' =? a)) eqn:E.
    + apply andb_true_iff in E. destruct E as [E1 E2]. apply Z.eqb_eq in E1, E2. subst. auto.
    + apply (i_leafwf c I); auto.
  - intros bm' Hs. rewrite (hs_creg c c') by reflexivity. apply (i_summwf c I); auto.
  - eapply (hs_wf c c' t); eauto; try reflexivity. intros j Hj; apply Hnew; auto.
  - eapply (hs_drain c c' t); eauto. eapply drain_replace; eauto. intros j Hj; apply Hnew; auto.
  - eapply (hs_acc c c' t); eauto; reflexivity.
  - eapply (hs_mainonly c c' t); eauto. intros j Hj; apply Hnew; auto.
  - eapply (hs_final c c'); eauto; reflexivity.
  - eapply (hs_slab c c'); eauto; reflexivity.
Qed.

Lemma pres_summ_or : forall c t bm a r,
  CInv c -> c_cont c t = IClimb (KSum bm a) :: r -> CInv (f_summ_or c t bm a r).
Proof.
  intros c t bm a r I Hc.
  pose proof (i_wf c I t _ ltac:(rewrite Hc; left; reflexivity)) as Hwf. simpl in Hwf. destruct Hwf as [Hreg Ha].
  set (old := c_summ c bm).
  set (new := if old =? 0 then [IClimb (KTop bm)] else []).
  set (c' := f_summ_or c t bm a r).
  assert (Hc0 : c_cont c t = [IClimb (KSum bm a)] ++ r) by exact Hc.
  assert (Hpre : forall j, In j [IClimb (KSum bm a)] -> j <> IRun /\ (forall l, j <> IHandlers l)).
  { intros j Hj. inv_pre Hj. split; intros; discriminate. }
  assert (Hc' : forall u, c_cont c' u = updT (c_cont c) t (new ++ r) u).
  { intro u. unfold c', f_summ_or, new. simpl. fold old. destruct (old =? 0); reflexivity. }
  assert (Hnew : forall j, In j new -> wfinstr c j /\ is_drain j = false /\ (t <> main -> main_only j = false)).
  { intros j Hj. unfold new in Hj. destruct (old =? 0); [inv_pre Hj|destruct Hj]. simpl. auto. }
  assert (Hsumm : forall x, c_summ c' x = if x =? bm then Z.lor old (Z.shiftl 1 a) else c_summ c x) by reflexivity.
  assert (Hkeepc : forall u k, cclimbing c u k -> k <> KSum bm a -> cclimbing c' u k).
  { intros u k Hk Hne. destruct (Nat.eq_dec u t) as [->|Hn].
    - apply (climbing_head_eq _ _ _ _ _ Hk) in Hc. inversion Hc. congruence.
    - eapply hs_climbing_other; eauto. }
  assert (Hin : forall j, In j (c_cont c main) -> (forall k, j <> IClimb k) -> In j (c_cont c' main)).
  { intros j Hj Hn. eapply hs_in_main; eauto. intro P. inv_pre P. eapply Hn; eauto. }
  constructor.
  - intros h Hh. change (c_new c' h) with (c_new c h) in Hh.
    destruct (i_new c I h Hh) as [A|[x [A B]]].
    + left. eapply hs_chpend; eauto. intros j Hj. inv_pre Hj. simpl. tauto.
    + right. exists x. split; auto.
  - intros h Hh. change (c_col c' h) with (c_col c h) in Hh.
    destruct (i_col c I h Hh) as [[d A]|[x [A B]]].
    + left. exists d. eapply hs_chpend; eauto. intros j Hj. inv_pre Hj. simpl. tauto.
    + right. exists x. split; auto. eapply hs_pend_bit; eauto.
  - intros bm' a' Hl. change (c_leaf c' bm' a') with (c_leaf c bm' a') in Hl. rewrite Hsumm.
    destruct (i_leaf c I bm' a' Hl) as [A|[[l [A B]]|[u A]]].
    + left. destruct (bm' =? bm) eqn:E; auto. apply Z.eqb_eq in E. subst. apply testbit_lor_keep. exact A.
    + right; left. exists l. split; auto. apply Hin; auto. discriminate.
    + destruct (climb_eq_dec (KSum bm' a') (KSum bm a)) as [E|E].
      * inversion E; subst. left. rewrite Z.eqb_refl. apply testbit_lor_shift. lia.
      * right; right. exists u. apply Hkeepc; auto.
  - intros bm' Hs. rewrite Hsumm in Hs. change (c_top c') with (c_top c).
    assert (Hold : c_summ c bm' <> 0 ->
                   Z.testbit (c_top c) (bm' mod 64) = true \/ cpend_bm c' bm' \/ exists u, cclimbing c' u (KTop bm')).
    { intro Hn. destruct (i_summ c I bm' Hn) as [A|[[l [A B]]|[u A]]]; auto.
      - right; left. exists l. split; auto. apply Hin; auto. discriminate.
      - right; right. exists u. apply Hkeepc; auto. discriminate. }
    destruct (bm' =? bm) eqn:E; auto. apply Z.eqb_eq in E. subst bm'.
    destruct (Z.eq_dec old 0) as [E0|E0].
    + right; right. exists t. exists r. rewrite Hc', updT_same. unfold new. rewrite E0. reflexivity.
    + apply Hold. exact E0.
  - intros Ht. change (c_top c') with (c_top c) in Ht. change (c_notif c') with (c_notif c).
    destruct (i_top c I Ht) as [A|[A|[u A]]]; auto.
    + right; left. apply Hin; auto. discriminate.
    + right; right. exists u. apply Hkeepc; auto. discriminate.
  - intros bm' a' Hl. rewrite (hs_creg c c') by reflexivity. apply (i_leafwf c I); auto.
  - intros bm' Hs. rewrite Hsumm in Hs. rewrite (hs_creg c c') by reflexivity.
    destruct (bm' =? bm) eqn:E.
    + apply Z.eqb_eq in E. subst. auto.
    + apply (i_summwf c I); auto.
  - eapply (hs_wf c c' t); eauto; try reflexivity. intros j Hj; apply Hnew; auto.
  - eapply (hs_drain c c' t); eauto. eapply drain_replace; eauto. intros j Hj; apply Hnew; auto.
  - eapply (hs_acc c c' t); eauto; reflexivity.
  - eapply (hs_mainonly c c' t); eauto. intros j Hj; apply Hnew; auto.
  - eapply (hs_final c c'); eauto; reflexivity.
  - eapply (hs_slab c c'); eauto; reflexivity.
Qed.

Lemma pres_top_or : forall c t bm r,
  CInv c -> c_cont c t = IClimb (KTop bm) :: r -> CInv (f_top_or c t bm r).
Proof.
  intros c t bm r I Hc.
  pose proof (i_wf c I t _ ltac:(rewrite Hc; left; reflexivity)) as Hwf. simpl in Hwf.
  set (old := c_top c).
  set (new := if old =? 0 then [IClimb KCb] else []).
  set (c' := f_top_or c t bm r).
  assert (Hc0 : c_cont c t = [IClimb (KTop bm)] ++ r) by exact Hc.
  assert (Hpre : forall j, In j [IClimb (KTop bm)] -> j <> IRun /\ (forall l, j <> IHandlers l)).
  { intros j Hj. inv_pre Hj. split; intros; discriminate. }
  assert (Hc' : forall u, c_cont c' u = updT (c_cont c) t (new ++ r) u).
  { intro u. unfold c', f_top_or, new. simpl. fold old. destruct (old =? 0); reflexivity. }
  assert (Hnew : forall j, In j new -> wfinstr c j /\ is_drain j = false /\ (t <> main -> main_only j = false)).
  { intros j Hj. unfold new in Hj. destruct (old =? 0); [inv_pre Hj|destruct Hj]. simpl. auto. }
  assert (Htop : c_top c' = Z.lor old (Z.shiftl 1 (bm mod 64))) by reflexivity.
  assert (Hkeepc : forall u k, cclimbing c u k -> k <> KTop bm -> cclimbing c' u k).
  { intros u k Hk Hne. destruct (Nat.eq_dec u t) as [->|Hn].
    - apply (climbing_head_eq _ _ _ _ _ Hk) in Hc. inversion Hc. congruence.
    - eapply hs_climbing_other; eauto. }
  assert (Hin : forall j, In j (c_cont c main) -> (forall k, j <> IClimb k) -> In j (c_cont c' main)).
  { intros j Hj Hn. eapply hs_in_main; eauto. intro P. inv_pre P. eapply Hn; eauto. }
  constructor.
  - intros h Hh. change (c_new c' h) with (c_new c h) in Hh.
    destruct (i_new c I h Hh) as [A|[x [A B]]].
    + left. eapply hs_chpend; eauto. intros j Hj. inv_pre Hj. simpl. tauto.
    + right. exists x. split; auto.
  - intros h Hh. change (c_col c' h) with (c_col c h) in Hh.
    destruct (i_col c I h Hh) as [[d A]|[x [A B]]].
    + left. exists d. eapply hs_chpend; eauto. intros j Hj. inv_pre Hj. simpl. tauto.
    + right. exists x. split; auto. eapply hs_pend_bit; eauto.
  - intros bm' a' Hl. change (c_leaf c' bm' a') with (c_leaf c bm' a') in Hl. change (c_summ c' bm') with (c_summ c bm').
    destruct (i_leaf c I bm' a' Hl) as [A|[[l [A B]]|[u A]]]; auto.
    + right; left. exists l. split; auto. apply Hin; auto. discriminate.
    + right; right. exists u. apply Hkeepc; auto. discriminate.
  - intros bm' Hs. change (c_summ c' bm') with (c_summ c bm') in Hs. rewrite Htop.
    destruct (i_summ c I bm' Hs) as [A|[[l [A B]]|[u A]]].
    + left. apply testbit_lor_keep. exact A.
    + right; left. exists l. split; auto. apply Hin; auto. discriminate.
    + destruct (climb_eq_dec (KTop bm') (KTop bm)) as [E|E].
      * inversion E; subst. left. apply testbit_lor_shift. lia.
      * right; right. exists u. apply Hkeepc; auto.
  - intros Ht. change (c_notif c') with (c_notif c).
    destruct (Z.eq_dec old 0) as [E0|E0].
    + right; right. exists t. exists r. rewrite Hc', updT_same. unfold new. rewrite E0. reflexivity.
    + destruct (i_top c I E0) as [A|[A|[u A]]]; auto.
      * right; left. apply Hin; auto. discriminate.
      * right; right. exists u. apply Hkeepc; auto. discriminate.
  - intros bm' a' Hl. rewrite (hs_creg c c') by reflexivity. apply (i_leafwf c I); auto.
  - intros bm' Hs. rewrite (hs_creg c c') by reflexivity. apply (i_summwf c I); auto.
  - eapply (hs_wf c c' t); eauto; try reflexivity. intros j Hj; apply Hnew; auto.
  - eapply (hs_drain c c' t); eauto. eapply drain_replace; eauto. intros j Hj; apply Hnew; auto.
  - eapply (hs_acc c c' t); eauto; reflexivity.
  - eapply (hs_mainonly c c' t); eauto. intros j Hj; apply Hnew; auto.
  - eapply (hs_final c c'); eauto; reflexivity.
  - eapply (hs_slab c c'); eauto; reflexivity.
Qed.

Lemma pres_cb : forall c t r,
  CInv c -> c_cont c t = IClimb KCb :: r -> CInv (f_cb c t r).
Proof.
  intros c t r I Hc.
  set (c' := f_cb c t r).
  assert (Hc0 : c_cont c t = [IClimb KCb] ++ r) by exact Hc.
  assert (Hpre : forall j, In j [IClimb KCb] -> j <> IRun /\ (forall l, j <> IHandlers l)).
  { intros j Hj. inv_pre Hj. split; intros; discriminate. }
  assert (Hc' : forall u, c_cont c' u = updT (c_cont c) t ([] ++ r) u) by reflexivity.
  assert (Hnew : forall j, In j (@nil instr) -> wfinstr c j /\ is_drain j = false /\ (t <> main -> main_only j = false)).
  { intros j []. }
  assert (Hkeepc : forall u k, cclimbing c u k -> k <> KCb -> cclimbing c' u k).
  { intros u k Hk Hne. destruct (Nat.eq_dec u t) as [->|Hn].
    - apply (climbing_head_eq _ _ _ _ _ Hk) in Hc. inversion Hc. congruence.
    - eapply hs_climbing_other; eauto. }
  assert (Hin : forall j, In j (c_cont c main) -> (forall k, j <> IClimb k) -> In j (c_cont c' main)).
  { intros j Hj Hn. eapply hs_in_main; eauto. intro P. inv_pre P. eapply Hn; eauto. }
  constructor.
  - intros h Hh. change (c_new c' h) with (c_new c h) in Hh.
    destruct (i_new c I h Hh) as [A|[x [A B]]].
    + left. eapply hs_chpend; eauto. intros j Hj. inv_pre Hj. simpl. tauto.
    + right. exists x. split; auto.
  - intros h Hh. change (c_col c' h) with (c_col c h) in Hh.
    destruct (i_col c I h Hh) as [[d A]|[x [A B]]].
    + left. exists d. eapply hs_chpend; eauto. intros j Hj. inv_pre Hj. simpl. tauto.
    + right. exists x. split; auto. eapply hs_pend_bit; eauto.
  - intros bm' a' Hl. change (c_leaf c' bm' a') with (c_leaf c bm' a') in Hl. change (c_summ c' bm') with (c_summ c bm').
    destruct (i_leaf c I bm' a' Hl) as [A|[[l [A B]]|[u A]]]; auto.
    + right; left. exists l. split; auto. apply Hin; auto. discriminate.
    + right; right. exists u. apply Hkeepc; auto. discriminate.
  - intros bm' Hs. change (c_summ c' bm') with (c_summ c bm') in Hs. change (c_top c') with (c_top c).
    destruct (i_summ c I bm' Hs) as [A|[[l [A B]]|[u A]]]; auto.
    + right; left. exists l. split; auto. apply Hin; auto. discriminate.
    + right; right. exists u. apply Hkeepc; auto. discriminate.
  - intros _. left. reflexivity.
  - intros bm' a' Hl. rewrite (hs_creg c c') by reflexivity. apply (i_leafwf c I); auto.
  - intros bm' Hs. rewrite (hs_creg c c') by reflexivity. apply (i_summwf c I); auto.
  - eapply (hs_wf c c' t); eauto; try reflexivity. intros j Hj; apply Hnew; auto.
  - eapply (hs_drain c c' t); eauto. eapply drain_replace; eauto. intros j Hj; apply Hnew; auto.
  - eapply (hs_acc c c' t); eauto; reflexivity.
  - eapply (hs_mainonly c c' t); eauto. intros j Hj; apply Hnew; auto.
  - eapply (hs_final c c'); eauto; reflexivity.
  - eapply (hs_slab c c'); eauto; reflexivity.
Qed.

(** ** [wake_list]: the drain *)
Lemma instr_IBms_dec : forall l l' : list Z, {l = l'} + {l <> l'}.
Proof. apply list_eq_dec. apply Z.eq_dec. Qed.

Lemma bits_of_spec : forall v i, In i (bits_of v) <-> (0 <= i < 64 /\ Z.testbit v i = true).
Proof.
  intros v i. unfold bits_of. rewrite filter_In, in_map_iff. rewrite usize_bits. split.
  - intros [[n [<- Hn]] Ht]. apply in_seq in Hn. split; auto. lia.
  - intros [Hr Ht]. split; auto. exists (Z.to_nat i). split; [lia|]. apply in_seq. lia.
Qed.

Lemma cbms_in : forall c bm, creg c bm = true -> In bm (cbms_of_slot c (bm mod 64)).
Proof.
  intros c bm Hr. unfold creg in Hr. rewrite usize_bits in Hr. apply andb_true_iff in Hr.
  rewrite Z.leb_le, Z.ltb_lt in Hr. destruct Hr as [H0 H1].
  unfold cbms_of_slot. rewrite usize_bits. apply in_map_iff. exists (Z.to_nat (bm / 64)). split; [lia|].
  apply in_seq. lia.
Qed.

Lemma collect_spec : forall base a old,
  0 <= a < 64 -> 0 <= base -> base + 4096 <= 4294967296 ->
  collect base a old = (map (fun b => 64 * a + b + base) (bits_of old), true).
Proof.
  intros base a old Ha Hb Hb2. unfold collect.
  assert (H : forall l, (forall b, In b l -> 0 <= b < 64) ->
              fold_right (fun b r => match bitmap_join a b base with
                                     | Some x => (x :: fst r, snd r) | None => (fst r, false) end) ([], true) l
              = (map (fun b => 64 * a + b + base) l, true)).
  { induction l as [|b l IH]; intros Hl; simpl; auto.
    rewrite IH by (intros; apply Hl; right; auto).
    rewrite bitmap_join_spec by (auto; apply Hl; left; auto). reflexivity. }
  apply H. intros b Hbb. apply bits_of_spec in Hbb. tauto.
Qed.

Lemma pres_top_swap : forall c r,
  CInv c -> c_cont c main = ITopSwap :: r -> CInv (f_top_swap c r).
Proof.
  intros c r I Hc.
  set (new := [IBms (flat_map (cbms_of_slot c) (bits_of (c_top c)))]).
  set (c' := f_top_swap c r).
  assert (Hc0 : c_cont c main = [ITopSwap] ++ r) by exact Hc.
  assert (Hpre : forall j, In j [ITopSwap] -> j <> IRun /\ (forall l, j <> IHandlers l)).
  { intros j Hj. inv_pre Hj. split; intros; discriminate. }
  assert (Hc' : forall u, c_cont c' u = updT (c_cont c) main (new ++ r) u) by reflexivity.
  assert (Hkeepc : forall u k, cclimbing c u k -> cclimbing c' u k).
  { intros u k Hk. destruct (Nat.eq_dec u main) as [->|Hn].
    - apply (climbing_head_eq _ _ _ _ _ Hk) in Hc. discriminate.
    - eapply hs_climbing_other; eauto. }
  assert (Hin : forall j, In j (c_cont c main) -> j <> ITopSwap -> In j (c_cont c' main)).
  { intros j Hj Hn. eapply hs_in_main; eauto. intro P. inv_pre P. congruence. }
  assert (Hrun : In IRun r).
  { pose proof (i_drain c I) as D. rewrite Hc in D. simpl in D. apply D. reflexivity. }
  constructor.
  - intros h Hh. change (c_new c' h) with (c_new c h) in Hh.
    destruct (i_new c I h Hh) as [A|[x [A B]]].
    + left. eapply hs_chpend; eauto. intros j Hj. inv_pre Hj. simpl. tauto.
    + right. exists x. split; auto.
  - intros h Hh. change (c_col c' h) with (c_col c h) in Hh.
    destruct (i_col c I h Hh) as [[d A]|[x [A B]]].
    + left. exists d. eapply hs_chpend; eauto. intros j Hj. inv_pre Hj. simpl. tauto.
    + right. exists x. split; auto. eapply hs_pend_bit; eauto.
  - intros bm' a' Hl. change (c_leaf c' bm' a') with (c_leaf c bm' a') in Hl. change (c_summ c' bm') with (c_summ c bm').
    destruct (i_leaf c I bm' a' Hl) as [A|[[l [A B]]|[u A]]]; auto.
    + right; left. exists l. split; auto. apply Hin; auto. discriminate.
    + right; right. exists u. apply Hkeepc; auto.
  - intros bm' Hs. change (c_summ c' bm') with (c_summ c bm') in Hs.
    destruct (i_summ c I bm' Hs) as [A|[[l [A B]]|[u A]]].
    + right; left. exists (flat_map (cbms_of_slot c) (bits_of (c_top c))). split.
      * rewrite Hc', updT_same. left. reflexivity.
      * apply in_flat_map. exists (bm' mod 64). split.
        -- apply bits_of_spec. split; auto. lia.
        -- apply cbms_in. apply (i_summwf c I); auto.
    + right; left. exists l. split; auto. apply Hin; auto. discriminate.
    + right; right. exists u. apply Hkeepc; auto.
  - intros Ht. exfalso. apply Ht. reflexivity.
  - intros bm' a' Hl. rewrite (hs_creg c c') by reflexivity. apply (i_leafwf c I); auto.
  - intros bm' Hs. rewrite (hs_creg c c') by reflexivity. apply (i_summwf c I); auto.
  - eapply (hs_wf c c' main); eauto; try reflexivity. intros j Hj. inv_pre Hj. exact Logic.I.
  - eapply (hs_drain c c' main); eauto. intros _. simpl. split; auto.
    pose proof (i_drain c I) as D. rewrite Hc in D. simpl in D. tauto.
  - eapply (hs_acc c c' main); eauto; reflexivity.
  - eapply (hs_mainonly c c' main); eauto. intros j Hj Hn. congruence.
  - eapply (hs_final c c'); eauto; reflexivity.
  - eapply (hs_slab c c'); eauto; reflexivity.
Qed.

Lemma pres_summ_swap : forall c bm bms r,
  CInv c -> c_cont c main = IBms (bm :: bms) :: r -> CInv (f_summ_swap c bm bms r).
Proof.
  intros c bm bms r I Hc.
  set (new := [ILeaves bm (bits_of (c_summ c bm)); IBms bms]).
  set (c' := f_summ_swap c bm bms r).
  assert (Hc0 : c_cont c main = [IBms (bm :: bms)] ++ r) by exact Hc.
  assert (Hpre : forall j, In j [IBms (bm :: bms)] -> j <> IRun /\ (forall l, j <> IHandlers l)).
  { intros j Hj. inv_pre Hj. split; intros; discriminate. }
  assert (Hc' : forall u, c_cont c' u = updT (c_cont c) main (new ++ r) u) by reflexivity.
  assert (Hsumm : forall x, c_summ c' x = if x =? bm then 0 else c_summ c x) by reflexivity.
  assert (Hkeepc : forall u k, cclimbing c u k -> cclimbing c' u k).
  { intros u k Hk. destruct (Nat.eq_dec u main) as [->|Hn].
    - apply (climbing_head_eq _ _ _ _ _ Hk) in Hc. discriminate.
    - eapply hs_climbing_other; eauto. }
  assert (Hin : forall j, In j (c_cont c main) -> j <> IBms (bm :: bms) -> In j (c_cont c' main)).
  { intros j Hj Hn. eapply hs_in_main; eauto. intro P. inv_pre P. congruence. }
  assert (Hrun : In IRun r).
  { pose proof (i_drain c I) as D. rewrite Hc in D. simpl in D. apply D. reflexivity. }
  constructor.
  - intros h Hh. change (c_new c' h) with (c_new c h) in Hh.
    destruct (i_new c I h Hh) as [A|[x [A B]]].
    + left. eapply hs_chpend; eauto. intros j Hj. inv_pre Hj. simpl. tauto.
    + right. exists x. split; auto.
  - intros h Hh. change (c_col c' h) with (c_col c h) in Hh.
    destruct (i_col c I h Hh) as [[d A]|[x [A B]]].
    + left. exists d. eapply hs_chpend; eauto. intros j Hj. inv_pre Hj. simpl. tauto.
    + right. exists x. split; auto. eapply hs_pend_bit; eauto.
  - intros bm' a' Hl. change (c_leaf c' bm' a') with (c_leaf c bm' a') in Hl. rewrite Hsumm.
    destruct (i_leaf c I bm' a' Hl) as [A|[[l [A B]]|[u A]]].
    + destruct (Z.eqb_spec bm' bm) as [->|]; auto.
      right; left. exists (bits_of (c_summ c bm)). split.
      * rewrite Hc', updT_same. left. reflexivity.
      * apply bits_of_spec. split; auto. apply (i_leafwf c I bm a'); auto.
    + right; left. exists l. split; auto. apply Hin; auto. discriminate.
    + right; right. exists u. apply Hkeepc; auto.
  - intros bm' Hs. rewrite Hsumm in Hs. change (c_top c') with (c_top c).
    destruct (Z.eq_dec bm' bm) as [E|Hne]; [subst bm'; rewrite Z.eqb_refl in Hs; congruence|].
    rewrite (proj2 (Z.eqb_neq _ _) Hne) in Hs.
    destruct (i_summ c I bm' Hs) as [A|[[l [A B]]|[u A]]]; auto.
    + right; left. destruct (instr_IBms_dec l (bm :: bms)) as [->|Hd].
      * exists bms. split; [rewrite Hc', updT_same; right; left; reflexivity|].
        destruct B; [congruence|auto].
      * exists l. split; auto. apply Hin; auto. congruence.
    + right; right. exists u. apply Hkeepc; auto.
  - intros Ht. change (c_top c') with (c_top c) in Ht. change (c_notif c') with (c_notif c).
    destruct (i_top c I Ht) as [A|[A|[u A]]]; auto.
    + right; left. apply Hin; auto. discriminate.
    + right; right. exists u. apply Hkeepc; auto.
  - intros bm' a' Hl. rewrite (hs_creg c c') by reflexivity. apply (i_leafwf c I); auto.
  - intros bm' Hs. rewrite Hsumm in Hs. rewrite (hs_creg c c') by reflexivity.
    destruct (bm' =? bm); [congruence|]. apply (i_summwf c I); auto.
  - eapply (hs_wf c c' main); eauto; try reflexivity. intros j Hj. simpl in Hj. destruct Hj as [<-|[<-|[]]]; exact Logic.I.
  - eapply (hs_drain c c' main); eauto. intros _. simpl.
    pose proof (i_drain c I) as D. rewrite Hc in D. simpl in D. repeat split; auto; try tauto.
  - eapply (hs_acc c c' main); eauto; reflexivity.
  - eapply (hs_mainonly c c' main); eauto. intros j Hj Hn. congruence.
  - eapply (hs_final c c'); eauto; reflexivity.
  - eapply (hs_slab c c'); eauto; reflexivity.
Qed.

Lemma cg_collect_new : forall s bits g h,
  fst (cg_collect s bits g) h = true -> fst g h = true /\ forall x, In x bits -> slab_get s x <> Some h.
Proof.
  induction bits as [|b bits IH]; intros g h H; simpl in *; auto.
  destruct (slab_get s b) as [h0|] eqn:E.
  - apply IH in H. simpl in H. destruct H as [H1 H2].
    destruct (hkind_eqb h h0) eqn:Eh.
    + apply hkind_eqb_eq in Eh. subst. rewrite updH_same in H1. discriminate.
    + assert (h <> h0) by (intro; subst; rewrite hkind_eqb_refl in Eh; discriminate).
      rewrite updH_other in H1 by auto. split; auto.
      intros x [<-|Hx]; auto. rewrite E. congruence.
  - apply IH in H. destruct H as [H1 H2]. split; auto.
    intros x [<-|Hx]; auto. rewrite E. discriminate.
Qed.

Lemma cg_collect_col : forall s bits g h,
  snd (cg_collect s bits g) h = true -> snd g h = true \/ exists x, In x bits /\ slab_get s x = Some h.
Proof.
  induction bits as [|b bits IH]; intros g h H; simpl in *; auto.
  destruct (slab_get s b) as [h0|] eqn:E.
  - apply IH in H. simpl in H. destruct H as [H|[x [A B]]]; [|right; exists x; auto].
    destruct (hkind_eqb h h0) eqn:Eh.
    + apply hkind_eqb_eq in Eh. subst. right. exists b. auto.
    + assert (h <> h0) by (intro; subst; rewrite hkind_eqb_refl in Eh; discriminate).
      rewrite updH_other in H by auto. auto.
  - apply IH in H. destruct H as [H|[x [A B]]]; auto. right. exists x. auto.
Qed.

Lemma slot_decomp : forall x, 0 <= x -> 64 * (x mod 4096 / 64) + x mod 64 + 4096 * (x / 4096) = x.
Proof. intros. lia. Qed.

(** every occupied slot of a leaf whose bit is set is among the bits collected from that leaf *)
Lemma collected_in : forall c x h, SInv c -> slab_get (c_sl c) x = Some h -> bitset c x ->
  In x (fst (collect (c_base c (x / 4096)) (x mod 4096 / 64) (c_leaf c (x / 4096) (x mod 4096 / 64)))).
Proof.
  intros c x h S Hg Hb. apply slab_get_some in Hg. destruct Hg as [Hx _].
  assert (Hreg : creg c (x / 4096) = true) by (apply creg_iff; auto; lia).
  destruct (creg_bound c _ S Hreg) as [Hb0 Hb1].
  rewrite (s_base c S _ Hreg). rewrite collect_spec by lia. cbn [fst].
  apply in_map_iff. exists (x mod 64). split; [apply slot_decomp; lia|].
  apply bits_of_spec. split; [lia|]. exact Hb.
Qed.

Lemma f_leaf_swap_new : forall c bm a ls r h,
  c_new (f_leaf_swap c bm a ls r) h =
  fst (cg_collect (c_sl c) (fst (collect (c_base c bm) a (c_leaf c bm a))) (c_new c, c_col c)) h.
Proof. reflexivity. Qed.
Lemma f_leaf_swap_col : forall c bm a ls r h,
  c_col (f_leaf_swap c bm a ls r) h =
  snd (cg_collect (c_sl c) (fst (collect (c_base c bm) a (c_leaf c bm a))) (c_new c, c_col c)) h.
Proof. reflexivity. Qed.
Lemma f_leaf_swap_acc : forall c bm a ls r,
  c_acc (f_leaf_swap c bm a ls r) = c_acc c ++ fst (collect (c_base c bm) a (c_leaf c bm a)).
Proof. reflexivity. Qed.

Lemma pres_leaf_swap : forall c bm a ls r,
  CInv c -> c_cont c main = ILeaves bm (a :: ls) :: r -> CInv (f_leaf_swap c bm a ls r).
Proof.
  intros c bm a ls r I Hc.
  pose proof (i_slab c I) as S.
  set (old := c_leaf c bm a).
  set (bits := fst (collect (c_base c bm) a old)).
  set (new := [ILeaves bm ls]).
  set (c' := f_leaf_swap c bm a ls r).
  assert (Hc0 : c_cont c main = [ILeaves bm (a :: ls)] ++ r) by exact Hc.
  assert (Hpre : forall j, In j [ILeaves bm (a :: ls)] -> j <> IRun /\ (forall l, j <> IHandlers l)).
  { intros j Hj. inv_pre Hj. split; intros; discriminate. }
  assert (Hc' : forall u, c_cont c' u = updT (c_cont c) main (new ++ r) u) by reflexivity.
  assert (Hleaf : forall x y, c_leaf c' x y = if (x =? bm) && (y =? a) then 0 else c_leaf c x y) by reflexivity.
  assert (Hacc : c_acc c' = c_acc c ++ bits) by apply f_leaf_swap_acc.
  assert (Hkeepc : forall u k, cclimbing c u k -> cclimbing c' u k).
  { intros u k Hk. destruct (Nat.eq_dec u main) as [->|Hn].
    - apply (climbing_head_eq _ _ _ _ _ Hk) in Hc. discriminate.
    - eapply hs_climbing_other; eauto. }
  assert (Hin : forall j, In j (c_cont c main) -> j <> ILeaves bm (a :: ls) -> In j (c_cont c' main)).
  { intros j Hj Hn. eapply hs_in_main; eauto. intro P. inv_pre P. congruence. }
  assert (Hrun : In IRun r).
  { pose proof (i_drain c I) as D. rewrite Hc in D. simpl in D. apply D. reflexivity. }
  assert (Hpb : forall x, cpend_bit c x -> cpend_bit c' x).
  { intros x [A|[l [A B]]]; [left; rewrite Hacc; apply in_or_app; auto|].
    right. exists l. split; auto. apply Hin; auto. discriminate. }
  assert (Hcollected : forall x h, slab_get (c_sl c) x = Some h -> bitset c x ->
                                   x / 4096 = bm -> x mod 4096 / 64 = a -> In x bits).
  { intros x h Hg Hb E1 E2. unfold bits, old. subst bm a. eapply collected_in; eauto. }
  constructor.
  - intros h Hh. unfold c' in Hh. rewrite f_leaf_swap_new in Hh.
    apply cg_collect_new in Hh. cbn [fst] in Hh. destruct Hh as [Hn Hnot].
    destruct (i_new c I h Hn) as [A|[x [A B]]].
    + left. eapply hs_chpend; eauto. intros j Hj. inv_pre Hj. simpl. tauto.
    + right. exists x. split; auto. unfold bitset. rewrite Hleaf.
      destruct ((x / 4096 =? bm) && (x mod 4096 / 64 =? a)) eqn:E; auto.
      apply andb_true_iff in E. destruct E as [E1 E2]. apply Z.eqb_eq in E1, E2.
      exfalso. apply (Hnot x); auto. eapply Hcollected; eauto.
  - intros h Hh. unfold c' in Hh. rewrite f_leaf_swap_col in Hh.
    apply cg_collect_col in Hh. cbn [snd] in Hh. destruct Hh as [Hcol|[x [A B]]].
    + destruct (i_col c I h Hcol) as [[d A]|[x [A B]]].
      * left. exists d. eapply hs_chpend; eauto. intros j Hj. inv_pre Hj. simpl. tauto.
      * right. exists x. split; auto.
    + right. exists x. split; auto. left. rewrite Hacc. apply in_or_app. auto.
  - intros bm' a' Hl. rewrite Hleaf in Hl. change (c_summ c' bm') with (c_summ c bm').
    destruct ((bm' =? bm) && (a' =? a)) eqn:E; [congruence|].
    destruct (i_leaf c I bm' a' Hl) as [A|[[l [A B]]|[u A]]]; auto.
    + right; left. destruct (instr_IBms_dec l (a :: ls)) as [->|Hd].
      * destruct (Z.eq_dec bm' bm) as [->|Hnb].
        -- exists ls. split; [rewrite Hc', updT_same; left; reflexivity|].
           destruct B as [<-|B]; auto. rewrite !Z.eqb_refl in E. discriminate.
        -- exists (a :: ls). split; auto. apply Hin; auto. congruence.
      * exists l. split; auto. apply Hin; auto. congruence.
    + right; right. exists u. apply Hkeepc; auto.
  - intros bm' Hs. change (c_summ c' bm') with (c_summ c bm') in Hs. change (c_top c') with (c_top c).
    destruct (i_summ c I bm' Hs) as [A|[[l [A B]]|[u A]]]; auto.
    + right; left. exists l. split; auto. apply Hin; auto. discriminate.
    + right; right. exists u. apply Hkeepc; auto.
  - intros Ht. change (c_top c') with (c_top c) in Ht. change (c_notif c') with (c_notif c).
    destruct (i_top c I Ht) as [A|[A|[u A]]]; auto.
    + right; left. apply Hin; auto. discriminate.
    + right; right. exists u. apply Hkeepc; auto.
  - intros bm' a' Hl. rewrite Hleaf in Hl. rewrite (hs_creg c c') by reflexivity.
    destruct ((bm' =? bm) && (a' =? a)); [congruence|]. apply (i_leafwf c I); auto.
  - intros bm' Hs. rewrite (hs_creg c c') by reflexivity. apply (i_summwf c I); auto.
  - eapply (hs_wf c c' main); eauto; try reflexivity. intros j Hj. inv_pre Hj. exact Logic.I.
  - eapply (hs_drain c c' main); eauto. intros _. simpl.
    pose proof (i_drain c I) as D. rewrite Hc in D. simpl in D. tauto.
  - intros _. rewrite Hc', updT_same. simpl. right. auto.
  - eapply (hs_mainonly c c' main); eauto. intros j Hj Hn. congruence.
  - eapply (hs_final c c'); eauto; reflexivity.
  - eapply (hs_slab c c'); eauto; reflexivity.
Qed.

(** ** start of [poll_wake] *)
Lemma pres_poll_begin : forall c, CInv c -> c_cont c main = [] -> CInv (f_poll_begin c).
Proof.
  intros c I Hc.
  set (c' := f_poll_begin c).
  assert (Hc' : forall u, c_cont c' u = updT (c_cont c) main [ITopSwap; IRun] u) by reflexivity.
  assert (Hacc0 : c_acc c = []).
  { destruct (c_acc c) eqn:E; auto. exfalso. assert (A : c_acc c <> []) by congruence.
    apply (i_acc c I) in A. rewrite Hc in A. destruct A. }
  assert (Hkeepc : forall u k, cclimbing c u k -> cclimbing c' u k).
  { intros u k [r' Hk]. destruct (Nat.eq_dec u main) as [->|Hn]; [rewrite Hc in Hk; discriminate|].
    exists r'. rewrite Hc', updT_other by auto. auto. }
  assert (Hnomain : forall j, ~ In j (c_cont c main)) by (intro j; rewrite Hc; auto).
  constructor.
  - intros h Hh. change (c_new c' h) with (c_new c h) in Hh.
    destruct (i_new c I h Hh) as [[j [A _]]|[x [A B]]]; [exfalso; eapply Hnomain; eauto|].
    right. exists x. split; auto.
  - intros h Hh. change (c_col c' h) with (c_col c h) in Hh.
    destruct (i_col c I h Hh) as [[d [j [A _]]]|[x [A [B|[l [B _]]]]]]; exfalso.
    + eapply Hnomain; eauto.
    + rewrite Hacc0 in B. destruct B.
    + eapply Hnomain; eauto.
  - intros bm' a' Hl. change (c_leaf c' bm' a') with (c_leaf c bm' a') in Hl. change (c_summ c' bm') with (c_summ c bm').
    destruct (i_leaf c I bm' a' Hl) as [A|[[l [A B]]|[u A]]]; auto.
    + exfalso; eapply Hnomain; eauto.
    + right; right. exists u. auto.
  - intros bm' Hs. change (c_summ c' bm') with (c_summ c bm') in Hs. change (c_top c') with (c_top c).
    destruct (i_summ c I bm' Hs) as [A|[[l [A B]]|[u A]]]; auto.
    + exfalso; eapply Hnomain; eauto.
    + right; right. exists u. auto.
  - intros _. right; left. unfold cpend_top. rewrite Hc', updT_same. left. reflexivity.
  - intros bm' a' Hl. apply (i_leafwf c I); auto.
  - intros bm' Hs. apply (i_summwf c I); auto.
  - intros t i Hi. rewrite Hc' in Hi. destruct (Nat.eq_dec t main) as [->|Hn].
    + rewrite updT_same in Hi. simpl in Hi. destruct Hi as [<-|[<-|[]]]; exact Logic.I.
    + rewrite updT_other in Hi by auto. apply (i_wf c I t i Hi).
  - rewrite Hc', updT_same. simpl. repeat split; auto; discriminate.
  - intros A. exfalso. apply A. reflexivity.
  - intros t Ht i Hi. rewrite Hc', updT_other in Hi by auto. eapply (i_mainonly c I); eauto.
  - apply (i_final c I).
  - eapply SInv_same; [| | |apply (i_slab c I)]; reflexivity.
Qed.

(** ** generic step: the head of one continuation is replaced by instructions that do not belong
    to the bitmap protocol; ghost flags may only be cleared *)
Lemma hstart_hinstrs : forall h d, h <> HReserved \/ d = false -> exists i, In i (hinstrs h d) /\ hstart i h d.
Proof.
  intros [w| |ch|p] d Hd; simpl; eexists; (split; [left; reflexivity|]); simpl; auto.
  destruct Hd; [congruence|auto].
Qed.

Lemma pres_benign : forall c t pre r new gn gc,
  CInv c ->
  c_cont c t = pre ++ r ->
  ((pre = [] /\ r = []) \/ exists i, pre = [i] /\ consumable i) ->
  (forall j, In j new -> newok c t j) ->
  (forall h, gn h = true -> c_new c h = true) ->
  (forall h, gc h = true -> c_col c h = true) ->
  (forall i h d, In i pre -> hstart i h d -> gc h = false /\ (d = true -> gn h = false)) ->
  CInv (f_benign c t (new ++ r) gn gc).
Proof.
  intros c t pre r new gn gc I Hc Hshape Hnew Hgn Hgc Hclr.
  set (c' := f_benign c t (new ++ r) gn gc).
  assert (Hpre : forall j, In j pre -> j <> IRun /\ (forall l, j <> IHandlers l)).
  { intros j Hj. destruct Hshape as [[-> _]|[i [-> Hi]]]; [destruct Hj|]. inv_pre Hj.
    destruct i; simpl in Hi; try contradiction; split; intros; discriminate. }
  assert (Hprec : forall j, In j pre -> consumable j).
  { intros j Hj. destruct Hshape as [[-> _]|[i [-> Hi]]]; [destruct Hj|]. inv_pre Hj. auto. }
  assert (Hc' : forall u, c_cont c' u = updT (c_cont c) t (new ++ r) u) by reflexivity.
  assert (Hnoclimb : forall u k, cclimbing c u k -> u <> t).
  { intros u k [r' Hk] ->. rewrite Hc in Hk.
    destruct Hshape as [[-> ->]|[i [-> Hi]]]; [discriminate|]. simpl in Hk. inversion Hk; subst. exact Hi. }
  assert (Hkeepc : forall u k, cclimbing c u k -> cclimbing c' u k).
  { intros u k Hk. eapply hs_climbing_other; eauto. }
  assert (Hin : forall j, In j (c_cont c main) -> ~ consumable j -> In j (c_cont c' main)).
  { intros j Hj Hn. eapply hs_in_main; eauto. }
  assert (Hnewwf : forall j, In j new -> wfinstr c j).
  { intros j Hj. apply Hnew in Hj. destruct j as [k| | | | | | |m a|m a| | | |h0 dl| |]; simpl in *; try tauto.
    destruct k; simpl in *; tauto. }
  assert (Hnewnd : forall j, In j new -> is_drain j = false).
  { intros j Hj. apply Hnew in Hj. destruct j as [k| | | | | | |m a|m a| | | |h0 dl| |]; simpl in *; try tauto; auto. }
  assert (Hnewmo : forall j, In j new -> t <> main -> main_only j = false).
  { intros j Hj Hn. apply Hnew in Hj. destruct j as [k| | | | | | |m a|m a| | | |h0 dl| |]; simpl in *; try tauto; auto. }
  constructor.
  - intros h Hh. change (c_new c' h) with (gn h) in Hh. pose proof (Hgn h Hh) as Hn.
    destruct (i_new c I h Hn) as [[j [A B]]|[x [A B]]].
    + left. exists j. split; auto. eapply hs_in_main; eauto. intro P.
      destruct (Hclr j h true P B) as [_ C]. rewrite C in Hh by auto. discriminate.
    + right. exists x. split; auto.
  - intros h Hh. change (c_col c' h) with (gc h) in Hh. pose proof (Hgc h Hh) as Hn.
    destruct (i_col c I h Hn) as [[d [j [A B]]]|[x [A B]]].
    + left. exists d. exists j. split; auto. eapply hs_in_main; eauto. intro P.
      destruct (Hclr j h d P B) as [C _]. rewrite C in Hh. discriminate.
    + right. exists x. split; auto. eapply hs_pend_bit; eauto.
  - intros bm' a' Hl. change (c_leaf c' bm' a') with (c_leaf c bm' a') in Hl. change (c_summ c' bm') with (c_summ c bm').
    destruct (i_leaf c I bm' a' Hl) as [A|[[l [A B]]|[u A]]]; auto.
    + right; left. exists l. split; auto.
    + right; right. exists u. auto.
  - intros bm' Hs. change (c_summ c' bm') with (c_summ c bm') in Hs. change (c_top c') with (c_top c).
    destruct (i_summ c I bm' Hs) as [A|[[l [A B]]|[u A]]]; auto.
    + right; left. exists l. split; auto.
    + right; right. exists u. auto.
  - intros Ht. change (c_top c') with (c_top c) in Ht. change (c_notif c') with (c_notif c).
    destruct (i_top c I Ht) as [A|[A|[u A]]]; auto.
    + right; left. apply Hin; auto.
    + right; right. exists u. auto.
  - intros bm' a' Hl. apply (i_leafwf c I); auto.
  - intros bm' Hs. apply (i_summwf c I); auto.
  - eapply (hs_wf c c' t); eauto; reflexivity.
  - eapply (hs_drain c c' t); eauto. eapply drain_replace; eauto.
  - eapply (hs_acc c c' t); eauto; reflexivity.
  - eapply (hs_mainonly c c' t); eauto.
  - eapply (hs_final c c'); eauto; reflexivity.
  - eapply (hs_slab c c'); eauto; reflexivity.
Qed.

(** ** thread-local normalisation of the main thread (one rewriting step) *)
Definition normable (j : instr) : Prop :=
  match j with
  | IRun | IHandlers _ | IDels _ | IBms [] | ILeaves _ [] => True
  | _ => False
  end.
Definition norm_new_ok (j : instr) : Prop :=
  match j with
  | IClimb _ | ITopSwap | IBms _ | ILeaves _ _ | IRun => False
  | ILock _ (LPush _ _ _) => False
  | IYieldH HReserved _ => False
  | _ => True
  end.

Lemma pres_main_rewrite : forall c s' acc' i r new,
  CInv c ->
  c_cont c main = i :: r ->
  normable i ->
  (forall j, In j new -> norm_new_ok j) ->
  let c' := set_norm c s' acc' (new ++ r) in
  (forall h x, slab_get (c_sl c) x = Some h -> slab_get s' x = Some h \/ chpend c' h true) ->
  (forall x h, cpend_bit c x -> slab_get (c_sl c) x = Some h ->
               (cpend_bit c' x /\ slab_get s' x = Some h) \/ exists d, chpend c' h d) ->
  (acc' <> [] -> In IRun (new ++ r)) ->
  SInv c' ->
  CInv c'.
Proof.
  intros c s' acc' i r new I Hc Hi Hnew c' Hsl Hpb Hacc S'.
  assert (Hc0 : c_cont c main = [i] ++ r) by exact Hc.
  assert (Hc' : forall u, c_cont c' u = updT (c_cont c) main (new ++ r) u) by reflexivity.
  assert (Hkeepc : forall u k, cclimbing c u k -> cclimbing c' u k).
  { intros u k Hk. destruct (Nat.eq_dec u main) as [->|Hn].
    - apply (climbing_head_eq _ _ _ _ _ Hk) in Hc. subst i. destruct Hi.
    - destruct Hk as [r' Hk]. exists r'. rewrite Hc', updT_other by auto. auto. }
  assert (Hin : forall j, In j (c_cont c main) -> j <> i -> In j (c_cont c' main)).
  { intros j Hj Hn. rewrite Hc', updT_same. rewrite Hc in Hj. destruct Hj as [->|Hj]; [congruence|].
    apply in_or_app. auto. }
  assert (Hhp : forall h d, chpend c h d -> chpend c' h d).
  { intros h d [j [A B]]. exists j. split; auto. apply Hin; auto. intro; subst j.
    destruct i as [k| |[|]|? [|]| | | |? []|? []| | | | | |]; simpl in Hi, B; try contradiction. }
  assert (Hcreg : forall bm, creg c' bm = creg c bm) by reflexivity.
  constructor.
  - intros h Hh. change (c_new c' h) with (c_new c h) in Hh.
    destruct (i_new c I h Hh) as [A|[x [A B]]]; auto.
    destruct (Hsl h x A) as [C|C]; auto. right. exists x. split; auto.
  - intros h Hh. change (c_col c' h) with (c_col c h) in Hh.
    destruct (i_col c I h Hh) as [[d A]|[x [A B]]]; [left; exists d; auto|].
    destruct (Hpb x h B A) as [[C D]|C]; auto. right. exists x. split; auto.
  - intros bm' a' Hl. change (c_leaf c' bm' a') with (c_leaf c bm' a') in Hl. change (c_summ c' bm') with (c_summ c bm').
    destruct (i_leaf c I bm' a' Hl) as [A|[[l [A B]]|[u A]]]; auto.
    + right; left. exists l. split; auto. apply Hin; auto. intro; subst i.
      destruct l; simpl in Hi; [destruct B|contradiction].
    + right; right. exists u. auto.
  - intros bm' Hs. change (c_summ c' bm') with (c_summ c bm') in Hs. change (c_top c') with (c_top c).
    destruct (i_summ c I bm' Hs) as [A|[[l [A B]]|[u A]]]; auto.
    + right; left. exists l. split; auto. apply Hin; auto. intro; subst i.
      destruct l; simpl in Hi; [destruct B|contradiction].
    + right; right. exists u. auto.
  - intros Ht. change (c_top c') with (c_top c) in Ht. change (c_notif c') with (c_notif c).
    destruct (i_top c I Ht) as [A|[A|[u A]]]; auto.
    + right; left. apply Hin; auto. intro; subst i. destruct Hi.
    + right; right. exists u. auto.
  - intros bm' a' Hl. rewrite Hcreg. apply (i_leafwf c I); auto.
  - intros bm' Hs. rewrite Hcreg. apply (i_summwf c I); auto.
  - intros t j Hj. rewrite Hc' in Hj.
    assert (W : wfinstr c j).
    { destruct (Nat.eq_dec t main) as [->|Hn].
      - rewrite updT_same in Hj. apply in_app_or in Hj. destruct Hj as [Hj|Hj].
        + apply Hnew in Hj. destruct j as [k| | | | | | |m a|m a| | | |h0 dl| |]; simpl in *; auto; try contradiction;
            try (destruct a; auto; contradiction); try (destruct h0; auto; contradiction).
        + apply (i_wf c I main). rewrite Hc. right. auto.
      - rewrite updT_other in Hj by auto. apply (i_wf c I t j Hj). }
    eapply wfinstr_mono; [|exact W]. intros bm Hb. rewrite Hcreg. exact Hb.
  - rewrite Hc', updT_same. apply drain_ok_app_nd.
    + intros j Hj. apply Hnew in Hj. destruct j; simpl in *; auto; contradiction.
    + pose proof (i_drain c I) as D. rewrite Hc in D. simpl in D. tauto.
  - change (c_acc c') with acc'. rewrite Hc', updT_same. exact Hacc.
  - intros t Ht j Hj. rewrite Hc', updT_other in Hj by auto. eapply (i_mainonly c I); eauto.
  - apply (i_final c I).
  - exact S'.
Qed.

Lemma set_norm_cont_main : forall c s acc k, c_cont (set_norm c s acc k) main = k.
Proof. intros. unfold set_norm. simpl. apply updT_same. Qed.

Lemma pend_bit_keep : forall c s i r new x,
  c_cont c main = i :: r -> (forall l, i <> IHandlers l) ->
  cpend_bit c x -> cpend_bit (set_norm c s (c_acc c) (new ++ r)) x.
Proof.
  intros c s i r new x Hc Hi [A|[l [A B]]]; [left; auto|].
  right. exists l. split; auto. rewrite set_norm_cont_main. rewrite Hc in A.
  destruct A as [->|A]; [exfalso; eapply Hi; eauto|]. apply in_or_app. auto.
Qed.

Lemma chpend_new : forall c s acc new r h d,
  (exists i, In i new /\ hstart i h d) -> chpend (set_norm c s acc (new ++ r)) h d.
Proof.
  intros c s acc new r h d [i [A B]]. exists i. split; auto. rewrite set_norm_cont_main. apply in_or_app. auto.
Qed.

Lemma hinstrs_ok : forall h d j, In j (hinstrs h d) -> norm_new_ok j.
Proof. intros [w| |ch|p] d j Hj; simpl in Hj; destruct Hj as [<-|[]]; exact Logic.I. Qed.

Lemma pres_norm1 : forall c c', CInv c -> f_norm1 c = Some c' -> CInv c'.
Proof.
  intros c c' I H. unfold f_norm1 in H.
  pose proof (i_slab c I) as S.
  assert (Sany : forall acc k, SInv (set_norm c (c_sl c) acc k)).
  { intros. eapply SInv_same; [| | |exact S]; reflexivity. }
  destruct (c_cont c main) as [|i r] eqn:Hc; [discriminate|].
  destruct i as [k| |[|bm bms]|bm [|a ls]| |[|b bs]|[|b bs]| | | | | | | |]; try discriminate.
  - (* IBms [] *)
    inversion H; subst c'; clear H.
    apply (pres_main_rewrite c (c_sl c) (c_acc c) (IBms []) r []); auto; try exact Logic.I.
    + intros j [].
    + intros x h Hp Hg. left. split; auto. apply (pend_bit_keep c (c_sl c) _ r [] x Hc); auto. discriminate.
    + intro A. apply (i_acc c I) in A. rewrite Hc in A. destruct A; [discriminate|auto].
  - (* ILeaves _ [] *)
    inversion H; subst c'; clear H.
    apply (pres_main_rewrite c (c_sl c) (c_acc c) (ILeaves bm []) r []); auto; try exact Logic.I.
    + intros j [].
    + intros x h Hp Hg. left. split; auto. apply (pend_bit_keep c (c_sl c) _ r [] x Hc); auto. discriminate.
    + intro A. apply (i_acc c I) in A. rewrite Hc in A. destruct A; [discriminate|auto].
  - (* IRun *)
    inversion H; subst c'; clear H.
    apply (pres_main_rewrite c (c_sl c) [] IRun r [IHandlers (c_acc c)]); auto; try exact Logic.I.
    + intros j Hj. inv_pre Hj. exact Logic.I.
    + intros x h Hp Hg. left. split; auto. right. destruct Hp as [A|[l [A B]]].
      * exists (c_acc c). split; auto. rewrite set_norm_cont_main. left. reflexivity.
      * exists l. split; auto. rewrite set_norm_cont_main. rewrite Hc in A. destruct A as [A|A]; [discriminate|]. right. auto.
    + intro A. exfalso. apply A. reflexivity.
  - (* IHandlers [] *)
    inversion H; subst c'; clear H.
    apply (pres_main_rewrite c (c_sl c) (c_acc c) (IHandlers []) r []); auto; try exact Logic.I.
    + intros j [].
    + intros x h Hp Hg. left. split; auto. destruct Hp as [A|[l [A B]]]; [left; auto|].
      right. exists l. split; auto. rewrite set_norm_cont_main. rewrite Hc in A.
      destruct A as [A|A]; auto. inversion A; subst. destruct B.
    + intro A. apply (i_acc c I) in A. rewrite Hc in A. destruct A; [discriminate|auto].
  - (* IHandlers (b :: bs) *)
    destruct (slab_get (c_sl c) b) as [h|] eqn:Hg; inversion H; subst c'; clear H.
    + replace (hinstrs h false ++ IHandlers bs :: r) with ((hinstrs h false ++ [IHandlers bs]) ++ r)
        by (rewrite <- app_assoc; reflexivity).
      apply (pres_main_rewrite c (c_sl c) (c_acc c) (IHandlers (b :: bs)) r (hinstrs h false ++ [IHandlers bs])); auto; try exact Logic.I.
      * intros j Hj. apply in_app_or in Hj. destruct Hj as [Hj|Hj]; [eapply hinstrs_ok; eauto|inv_pre Hj; exact Logic.I].
      * intros x h' Hp Hg'. destruct Hp as [A|[l [A B]]]; [left; split; auto; left; auto|].
        rewrite Hc in A. destruct A as [A|A].
        -- inversion A; subst l. destruct B as [<-|B].
           ++ right. exists false. apply chpend_new.
              assert (h' = h) by congruence. subst h'.
              destruct (hstart_hinstrs h false) as [i [P Q]]; auto. exists i. split; auto. apply in_or_app. auto.
           ++ left. split; auto. right. exists bs. split; auto. rewrite set_norm_cont_main.
              apply in_or_app. left. apply in_or_app. right. left. reflexivity.
        -- left. split; auto. right. exists l. split; auto. rewrite set_norm_cont_main. apply in_or_app. auto.
      * intro A. apply (i_acc c I) in A. rewrite Hc in A. destruct A; [discriminate|]. apply in_or_app. auto.
    + apply (pres_main_rewrite c (c_sl c) (c_acc c) (IHandlers (b :: bs)) r [IHandlers bs]); auto; try exact Logic.I.
      * intros j Hj. inv_pre Hj. exact Logic.I.
      * intros x h' Hp Hg'. left. split; auto. destruct Hp as [A|[l [A B]]]; [left; auto|].
        right. rewrite Hc in A. destruct A as [A|A].
        -- inversion A; subst l. destruct B as [<-|B]; [congruence|].
           exists bs. split; auto. rewrite set_norm_cont_main. left. reflexivity.
        -- exists l. split; auto. rewrite set_norm_cont_main. right. auto.
      * intro A. apply (i_acc c I) in A. rewrite Hc in A. destruct A; [discriminate|]. right. auto.
  - (* IDels [] *)
    inversion H; subst c'; clear H.
    apply (pres_main_rewrite c (c_sl c) (c_acc c) (IDels []) r []); auto; try exact Logic.I.
    + intros j [].
    + intros x h Hp Hg. left. split; auto. apply (pend_bit_keep c (c_sl c) _ r [] x Hc); auto. discriminate.
    + intro A. apply (i_acc c I) in A. rewrite Hc in A. destruct A; [discriminate|auto].
  - (* IDels (b :: bs) *)
    destruct (wh_del (c_sl c) b) as [[h s']|] eqn:Hd; inversion H; subst c'; clear H.
    + apply wh_del_some in Hd. destruct Hd as [Hbm [Hg ->]].
      assert (Hres : h <> HReserved) by (eapply occ_not_reserved; eauto).
      replace (hinstrs h true ++ IDels bs :: r) with ((hinstrs h true ++ [IDels bs]) ++ r)
        by (rewrite <- app_assoc; reflexivity).
      assert (Hhp : chpend (set_norm c (slab_remove (c_sl c) b) (c_acc c) ((hinstrs h true ++ [IDels bs]) ++ r)) h true).
      { apply chpend_new. destruct (hstart_hinstrs h true) as [i [P Q]]; auto. exists i. split; auto. apply in_or_app. auto. }
      apply (pres_main_rewrite c (slab_remove (c_sl c) b) (c_acc c) (IDels (b :: bs)) r (hinstrs h true ++ [IDels bs])); auto; try exact Logic.I.
      * intros j Hj. apply in_app_or in Hj. destruct Hj as [Hj|Hj]; [eapply hinstrs_ok; eauto|inv_pre Hj; exact Logic.I].
      * intros h' x Hg'. destruct (Z.eq_dec x b) as [->|Hne].
        -- right. assert (h' = h) by congruence. subst. exact Hhp.
        -- left. rewrite slab_get_remove_other; auto.
      * intros x h' Hp Hg'. destruct (Z.eq_dec x b) as [->|Hne].
        -- right. exists true. assert (h' = h) by congruence. subst. exact Hhp.
        -- left. split; [|rewrite slab_get_remove_other; auto].
           apply (pend_bit_keep c _ _ r _ x Hc); auto. discriminate.
      * intro A. apply (i_acc c I) in A. rewrite Hc in A. destruct A; [discriminate|]. apply in_or_app. auto.
      * eapply (SInv_remove c); eauto; reflexivity.
    + apply (pres_main_rewrite c (c_sl c) (c_acc c) (IDels (b :: bs)) r [IDels bs]); auto; try exact Logic.I.
      * intros j Hj. inv_pre Hj. exact Logic.I.
      * intros x h' Hp Hg'. left. split; auto. apply (pend_bit_keep c (c_sl c) _ r [IDels bs] x Hc); auto. discriminate.
      * intro A. apply (i_acc c I) in A. rewrite Hc in A. destruct A; [discriminate|]. right. auto.
Qed.

(** ** [WakeHandlers::add] *)
Lemma c_add_same : forall c h c' wi, c_add c h = Some (c', wi) ->
  c_top c' = c_top c /\ c_summ c' = c_summ c /\ c_leaf c' = c_leaf c /\ c_notif c' = c_notif c /\
  c_new c' = c_new c /\ c_col c' = c_col c /\ c_cont c' = c_cont c /\ c_acc c' = c_acc c /\ c_final c' = c_final c.
Proof.
  intros c h c' wi H. unfold c_add in H.
  destruct (slab_insert (c_sl c) h) as [bit0 s0].
  destruct (add_loop 2 s0 h bit0) as [[[bit base] s1]|]; [|discriminate].
  destruct (waker_vec_index bit); [|discriminate]. destruct (waker_slot bit); [|discriminate].
  inversion H; subst. cbn. repeat split; reflexivity.
Qed.

Lemma pres_add : forall c h c' wi, CInv c -> h <> HReserved -> c_add c h = Some (c', wi) -> CInv c'.
Proof.
  intros c h c' wi I Hh Ha.
  pose proof (i_slab c I) as S.
  pose proof (c_add_spec c h c' wi S Hh Ha) as P.
  destruct (c_add_same c h c' wi Ha) as [Et [Es [El [En [Eg1 [Eg2 [Ec [Ea Ef]]]]]]]].
  pose proof (ap_inv _ _ _ _ P) as S'.
  assert (Hreg : forall bm, creg c bm = true -> creg c' bm = true).
  { intros bm Hr. apply creg_iff; auto. apply creg_iff in Hr; auto. pose proof (ap_len _ _ _ _ P). lia. }
  assert (Hcl : forall t k, cclimbing c' t k <-> cclimbing c t k) by (intros; unfold cclimbing; rewrite Ec; tauto).
  assert (Hbs : forall x, bitset c' x <-> bitset c x) by (intros; unfold bitset; rewrite El; tauto).
  assert (Hhp : forall h0 d, chpend c' h0 d <-> chpend c h0 d) by (intros; unfold chpend; rewrite Ec; tauto).
  assert (Hpb : forall x, cpend_bit c' x <-> cpend_bit c x) by (intros; unfold cpend_bit; rewrite Ec, Ea; tauto).
  constructor.
  - intros h0 H0. rewrite Eg1 in H0. destruct (i_new c I h0 H0) as [A|[x [A B]]].
    + left. apply Hhp; auto.
    + right. exists x. split; [apply (ap_old _ _ _ _ P); auto|apply Hbs; auto].
  - intros h0 H0. rewrite Eg2 in H0. destruct (i_col c I h0 H0) as [[d A]|[x [A B]]].
    + left. exists d. apply Hhp; auto.
    + right. exists x. split; [apply (ap_old _ _ _ _ P); auto|apply Hpb; auto].
  - intros bm a Hl. rewrite El in Hl. rewrite Es.
    destruct (i_leaf c I bm a Hl) as [A|[A|[t A]]]; auto.
    + right; left. unfold cpend_leaf in *. rewrite Ec. auto.
    + right; right. exists t. apply Hcl; auto.
  - intros bm Hs. rewrite Es in Hs. rewrite Et.
    destruct (i_summ c I bm Hs) as [A|[A|[t A]]]; auto.
    + right; left. unfold cpend_bm in *. rewrite Ec. auto.
    + right; right. exists t. apply Hcl; auto.
  - intros Ht. rewrite Et in Ht. rewrite En.
    destruct (i_top c I Ht) as [A|[A|[t A]]]; auto.
    + right; left. unfold cpend_top in *. rewrite Ec. auto.
    + right; right. exists t. apply Hcl; auto.
  - intros bm a Hl. rewrite El in Hl. destruct (i_leafwf c I bm a Hl). split; auto.
  - intros bm Hs. rewrite Es in Hs. apply Hreg. apply (i_summwf c I); auto.
  - intros t i Hi. rewrite Ec in Hi. pose proof (i_wf c I t i Hi) as W.
    eapply wfinstr_mono; eauto.
  - rewrite Ec. apply (i_drain c I).
  - rewrite Ea, Ec. apply (i_acc c I).
  - intros t Ht i Hi. rewrite Ec in Hi. eapply (i_mainonly c I); eauto.
  - intros t i Hi. rewrite Ef in Hi. eapply okfinal_c_mono; [exact Hreg|]. eapply (i_final c I); eauto.
  - exact S'.
Qed.

(** ** exit sequence of a piped worker *)
Lemma okfinal_props : forall c i, okfinal_c c i -> wfinstr c i /\ is_drain i = false /\ main_only i = false /\ consumable i.
Proof.
  intros c i H. destruct i; simpl in *; try contradiction. destruct a; simpl in *; auto; contradiction.
Qed.

Lemma pres_final : forall c t, CInv c -> c_cont c t = [] -> CInv (f_final c t).
Proof.
  intros c t I Hc.
  set (c' := f_final c t).
  set (new := c_final c t).
  assert (Hc0 : c_cont c t = [] ++ []) by exact Hc.
  assert (Hc' : forall u, c_cont c' u = updT (c_cont c) t (new ++ []) u).
  { intro u. unfold c', f_final, new. simpl. rewrite app_nil_r. reflexivity. }
  assert (Hpre : forall j, In j (@nil instr) -> j <> IRun /\ (forall l, j <> IHandlers l)) by (intros j []).
  assert (Hnewok : forall j, In j new -> okfinal_c c j) by (intros j Hj; apply (i_final c I t j Hj)).
  assert (Hkeepc : forall u k, cclimbing c u k -> cclimbing c' u k).
  { intros u k Hk. destruct (Nat.eq_dec u t) as [->|Hn].
    - destruct Hk as [r' Hk]. rewrite Hc in Hk. discriminate.
    - eapply hs_climbing_other; eauto. }
  assert (Hin : forall j, In j (c_cont c main) -> In j (c_cont c' main)).
  { intros j Hj. eapply hs_in_main; eauto. }
  constructor.
  - intros h Hh. change (c_new c' h) with (c_new c h) in Hh.
    destruct (i_new c I h Hh) as [[j [A B]]|[x [A B]]].
    + left. exists j. split; auto.
    + right. exists x. split; auto.
  - intros h Hh. change (c_col c' h) with (c_col c h) in Hh.
    destruct (i_col c I h Hh) as [[d [j [A B]]]|[x [A B]]].
    + left. exists d, j. split; auto.
    + right. exists x. split; auto. eapply hs_pend_bit; eauto; reflexivity.
  - intros bm' a' Hl. change (c_leaf c' bm' a') with (c_leaf c bm' a') in Hl. change (c_summ c' bm') with (c_summ c bm').
    destruct (i_leaf c I bm' a' Hl) as [A|[[l [A B]]|[u A]]]; auto.
    + right; left. exists l. split; auto.
    + right; right. exists u. auto.
  - intros bm' Hs. change (c_summ c' bm') with (c_summ c bm') in Hs. change (c_top c') with (c_top c).
    destruct (i_summ c I bm' Hs) as [A|[[l [A B]]|[u A]]]; auto.
    + right; left. exists l. split; auto.
    + right; right. exists u. auto.
  - intros Ht. change (c_top c') with (c_top c) in Ht. change (c_notif c') with (c_notif c).
    destruct (i_top c I Ht) as [A|[A|[u A]]]; auto.
    + right; left. apply Hin; auto.
    + right; right. exists u. auto.
  - intros bm' a' Hl. apply (i_leafwf c I); auto.
  - intros bm' Hs. apply (i_summwf c I); auto.
  - eapply (hs_wf c c' t); eauto; try reflexivity. intros j Hj. apply (okfinal_props c j). auto.
  - eapply (hs_drain c c' t); eauto. intros ->.
    apply (drain_ok_app_nd new []); [|exact Logic.I]. intros j Hj. apply (okfinal_props c j). auto.
  - eapply (hs_acc c c' t); eauto; reflexivity.
  - eapply (hs_mainonly c c' t); eauto. intros j Hj _. apply (okfinal_props c j). auto.
  - intros u j Hj. unfold c', f_final in Hj. simpl in Hj. unfold updT in Hj.
    destruct (Nat.eqb u t); [destruct Hj|].
    eapply okfinal_c_mono; [|eapply (i_final c I); eauto]. auto.
  - eapply (hs_slab c c'); eauto; reflexivity.
Qed.

Lemma pres_setfinal : forall c t f, CInv c -> (forall i, In i f -> okfinal_c c i) -> CInv (f_setfinal c t f).
Proof.
  intros c t f I Hf.
  pose proof (i_final c I) as Hfin. pose proof (i_slab c I) as S.
  constructor; try (apply I; fail).
  - intros u j Hj. unfold f_setfinal in Hj. simpl in Hj. unfold updT in Hj.
    assert (W : okfinal_c c j) by (destruct (Nat.eqb u t); auto; eapply Hfin; eauto).
    eapply okfinal_c_mono; [|exact W]. auto.
  - eapply SInv_same; [| | |exact S]; reflexivity.
Qed.

(** ** Main theorem of this file *)
Theorem cstep_inv : forall c c', CInv c -> cstep c c' -> CInv c'.
Proof.
  intros c c' I H. induction H.
  - eapply pres_leaf_or; eauto.
  - eapply pres_summ_or; eauto.
  - eapply pres_top_or; eauto.
  - eapply pres_cb; eauto.
  - eapply pres_top_swap; eauto.
  - eapply pres_summ_swap; eauto.
  - eapply pres_leaf_swap; eauto.
  - eapply pres_poll_begin; eauto.
  - eapply pres_norm1; eauto.
  - eapply pres_benign; eauto.
  - eapply pres_add; eauto.
  - eapply pres_final; eauto.
  - eapply pres_setfinal; eauto.
  - eapply CInv_ceq; eauto.
Qed.
