(** * Layer W: every transition of the core machine preserves the coverage invariant [CInv]. *)
From Coq Require Import ZArith List Bool Arith Lia.
From Stk Require Import Lib.U Gen.SrcWaker W.Waker W.WakerArith W.WakerCore.
Import ListNotations.
Local Open Scope Z_scope.
Ltac Zify.zify_post_hook ::= Z.div_mod_to_equations.

(** ** bits *)
Lemma testbit_lor_shift : forall old b, 0 <= b -> Z.testbit (Z.lor old (Z.shiftl 1 b)) b = true.
Proof.
  intros. rewrite Z.lor_spec, Z.shiftl_spec by lia. replace (b - b) with 0 by lia.
  change (Z.testbit 1 0) with true. apply orb_true_r.
Qed.
Lemma testbit_lor_keep : forall old m i, Z.testbit old i = true -> Z.testbit (Z.lor old m) i = true.
Proof. intros. rewrite Z.lor_spec, H. reflexivity. Qed.
Lemma lor_shift_nonzero : forall old b, 0 <= b -> Z.lor old (Z.shiftl 1 b) <> 0.
Proof.
  intros old b Hb E. pose proof (testbit_lor_shift old b Hb) as T. rewrite E in T.
  rewrite Z.bits_0 in T. discriminate.
Qed.

(** ** continuations *)
Lemma in_updT_keep : forall (f : tid -> list instr) t i r new j u,
  f t = i :: r -> In j (f u) -> (u = t /\ j = i) \/ In j (updT f t (new ++ r) u).
Proof.
  intros. destruct (Nat.eq_dec u t) as [->|Hn].
  - rewrite updT_same. rewrite H in H0. destruct H0 as [<-|Hr]; [left; auto | right; apply in_or_app; auto].
  - right. rewrite updT_other by auto. auto.
Qed.
Lemma in_updT_new : forall (f : tid -> list instr) t i r new j u,
  f t = i :: r -> In j (updT f t (new ++ r) u) -> In j (f u) \/ (u = t /\ In j new).
Proof.
  intros. destruct (Nat.eq_dec u t) as [->|Hn].
  - rewrite updT_same in H0. apply in_app_or in H0. destruct H0; [right; auto | left; rewrite H; right; auto].
  - rewrite updT_other in H0 by auto. auto.
Qed.

Lemma SInv_same : forall c d,
  c_sl d = c_sl c -> (forall s, c_vlen d s = c_vlen c s) -> (forall bm, c_base d bm = c_base c bm) ->
  SInv c -> SInv d.
Proof.
  intros c d Hs Hv Hb [].
  assert (Hreg : forall bm, creg d bm = creg c bm) by (intro; unfold creg; rewrite Hv; reflexivity).
  constructor; rewrite ?Hs; auto.
  - intros. rewrite Hv. auto.
  - intros bm Hr. rewrite Hreg in Hr. rewrite Hb. auto.
  - intros. rewrite Hv. auto.
Qed.

Lemma drain_ok_app_nd : forall new r, (forall j, In j new -> is_drain j = false) -> drain_ok r -> drain_ok (new ++ r).
Proof.
  induction new as [|j new IH]; simpl; intros r Hn Hr; auto.
  split.
  - intro Hd. rewrite Hn in Hd by auto. discriminate.
  - apply IH; auto.
Qed.
Lemma drain_ok_tail : forall i r, drain_ok (i :: r) -> drain_ok r.
Proof. simpl; tauto. Qed.

(** the range of a registered bitmap lies below 2^32 *)
Lemma creg_bound : forall c bm, SInv c -> creg c bm = true -> 0 <= bm /\ 4096 * bm + 4096 <= 4294967296.
Proof.
  intros c bm S Hr. unfold creg in Hr. rewrite usize_bits in Hr. apply andb_true_iff in Hr. destruct Hr as [H0 H1].
  apply Z.leb_le in H0. apply Z.ltb_lt in H1.
  destruct S as [[_ Hlen] _ _ Hbm _ _].
  assert (Hb : 4096 * (bm mod 64 + 64 * (bm / 64)) < slen (c_sl c)).
  { apply Hbm; lia. }
  replace (bm mod 64 + 64 * (bm / 64)) with bm in Hb by lia. lia.
Qed.


(** ** Steps that replace the head [i] of thread [t]'s continuation by [new] and leave the slab alone *)
Section HeadStep.
  Variables (c c' : cst) (t : tid) (pre r new : list instr).
  Hypothesis I : CInv c.
  Hypothesis Hc : c_cont c t = pre ++ r.
  Hypothesis Hpre : forall j, In j pre -> j <> IRun /\ (forall l, j <> IHandlers l).
  Hypothesis Hc' : forall u, c_cont c' u = updT (c_cont c) t (new ++ r) u.
  Hypothesis Hsl : c_sl c' = c_sl c.
  Hypothesis Hvl : forall s, c_vlen c' s = c_vlen c s.
  Hypothesis Hbs : forall bm, c_base c' bm = c_base c bm.
  Hypothesis Hacc : c_acc c' = c_acc c.
  Hypothesis Hfin : forall u, c_final c' u = c_final c u.
  Hypothesis Hnew : forall j, In j new -> wfinstr c j /\ is_drain j = false /\ (t <> main -> main_only j = false).

  Lemma hs_creg : forall bm, creg c' bm = creg c bm.
  Proof. intro. unfold creg. rewrite Hvl. reflexivity. Qed.

  Lemma hs_keep : forall j u, In j (c_cont c u) -> (u = t /\ In j pre) \/ In j (c_cont c' u).
  Proof.
    intros j u Hj. rewrite Hc'. destruct (Nat.eq_dec u t) as [->|Hn].
    - rewrite updT_same. rewrite Hc in Hj. apply in_app_or in Hj. destruct Hj; [left; auto|right; apply in_or_app; auto].
    - right. rewrite updT_other by auto. auto.
  Qed.

  Lemma hs_new : forall j u, In j (c_cont c' u) -> In j (c_cont c u) \/ (u = t /\ In j new).
  Proof.
    intros j u Hj. rewrite Hc' in Hj. destruct (Nat.eq_dec u t) as [->|Hn].
    - rewrite updT_same in Hj. apply in_app_or in Hj. destruct Hj; [right; auto|left; rewrite Hc; apply in_or_app; auto].
    - rewrite updT_other in Hj by auto. auto.
  Qed.

  Lemma hs_other : forall u, u <> t -> c_cont c' u = c_cont c u.
  Proof. intros. rewrite Hc'. apply updT_other; auto. Qed.

  Lemma hs_wf : forall u j, In j (c_cont c' u) -> wfinstr c' j.
  Proof.
    intros u j Hj.
    assert (W : wfinstr c j).
    { destruct (hs_new j u Hj) as [H|[_ H]]; [eapply i_wf; eauto | apply Hnew; auto]. }
    destruct j as [k| | | | | | | | | | | | |]; simpl in *; auto. destruct k; simpl in *; rewrite ?hs_creg; auto.
  Qed.

  Lemma hs_drain : drain_ok (c_cont c' main).
  Proof.
    pose proof (i_drain c I) as D. rewrite Hc'. destruct (Nat.eq_dec main t) as [E|Hn].
    - rewrite <- E in *. rewrite updT_same. rewrite Hc in D.
      apply drain_ok_app_nd; [intros; apply Hnew; auto|].
      clear - D. induction pre; simpl in *; auto. apply IHl. tauto.
    - rewrite updT_other by auto. auto.
  Qed.

  Lemma hs_acc : c_acc c' <> [] -> In IRun (c_cont c' main).
  Proof.
    rewrite Hacc. intro A. pose proof (i_acc c I A) as R.
    destruct (hs_keep _ _ R) as [[_ B]|]; auto. apply Hpre in B. destruct B as [B _]. congruence.
  Qed.

  Lemma hs_mainonly : forall u, u <> main -> forall j, In j (c_cont c' u) -> main_only j = false.
  Proof.
    intros u Hu j Hj. destruct (hs_new j u Hj) as [H|[-> H]].
    - eapply i_mainonly; eauto.
    - apply Hnew; auto.
  Qed.

  Lemma hs_final : forall u j, In j (c_final c' u) -> okfinal j.
  Proof. intros u j. rewrite Hfin. apply i_final; auto. Qed.

  Lemma hs_slab : SInv c'.
  Proof. eapply SInv_same; eauto. apply i_slab; auto. Qed.

  (** pending sets of the main thread: kept unless consumed *)
  Lemma hs_pend_bit : forall x, cpend_bit c x -> cpend_bit c' x.
  Proof.
    intros x [A|[l [A B]]]; [left; rewrite Hacc; auto|].
    right. exists l. split; auto. destruct (hs_keep _ _ A) as [[_ P]|]; auto.
    apply Hpre in P. destruct P as [_ P]. exfalso. eapply P; eauto.
  Qed.

  Lemma hs_in_main : forall j, In j (c_cont c main) -> ~ In j pre -> In j (c_cont c' main).
  Proof. intros j Hj Hn. destruct (hs_keep _ _ Hj) as [[_ P]|]; auto. contradiction. Qed.

  Lemma hs_chpend : forall h d, chpend c h d -> (forall j, In j pre -> ~ hstart j h d) -> chpend c' h d.
  Proof.
    intros h d [j [A B]] Hn. exists j. split; auto. apply hs_in_main; auto. intro P. eapply Hn; eauto.
  Qed.

  Lemma hs_climbing_other : forall u k, cclimbing c u k -> u <> t -> cclimbing c' u k.
  Proof. intros u k [r' H] Hn. exists r'. rewrite hs_other; auto. Qed.
End HeadStep.

Ltac inv_pre H := simpl in H; destruct H as [<-|[]].

(** *** [BitMap::set] *)
Lemma climbing_head_eq : forall c u k i r, cclimbing c u k -> c_cont c u = i :: r -> i = IClimb k.
Proof. intros c u k i r [r' H] H2. rewrite H in H2. inversion H2; auto. Qed.

Lemma climb_eq_dec : forall x y : climb, {x = y} + {x <> y}.
Proof. repeat decide equality. Qed.

Lemma pres_leaf_or : forall c t bm a b w r,
  CInv c -> c_cont c t = IClimb (KLeaf bm a b w) :: r -> CInv (f_leaf_or c t bm a b r).
Proof.
  intros c t bm a b w r I Hc.
  pose proof (i_wf c I t _ ltac:(rewrite Hc; left; reflexivity)) as Hwf. simpl in Hwf. destruct Hwf as [Hreg [Ha Hb]].
  pose proof (i_slab c I) as S.
  set (old := c_leaf c bm a).
  set (new := if old =? 0 then [IClimb (KSum bm a)] else []).
  set (c' := f_leaf_or c t bm a b r).
  assert (Hc0 : c_cont c t = [IClimb (KLeaf bm a b w)] ++ r) by exact Hc.
  assert (Hpre : forall j, In j [IClimb (KLeaf bm a b w)] -> j <> IRun /\ (forall l, j <> IHandlers l)).
  { intros j Hj. inv_pre Hj. split; intros; discriminate. }
  assert (Hc' : forall u, c_cont c' u = updT (c_cont c) t (new ++ r) u).
  { intro u. unfold c', f_leaf_or, new. simpl. fold old. destruct (old =? 0); reflexivity. }
  assert (Hnew : forall j, In j new -> wfinstr c j /\ is_drain j = false /\ (t <> main -> main_only j = false)).
  { intros j Hj. unfold new in Hj. destruct (old =? 0); [inv_pre Hj|destruct Hj]. simpl. auto. }
  assert (Hleaf : forall x y, c_leaf c' x y = if (x =? bm) && (y =? a) then Z.lor old (Z.shiftl 1 b) else c_leaf c x y) by reflexivity.
  assert (Hbit : forall x, bitset c x -> bitset c' x).
  { intros x. unfold bitset. rewrite Hleaf. destruct ((x / 4096 =? bm) && (x mod 4096 / 64 =? a)) eqn:E; auto.
    apply andb_true_iff in E. destruct E as [E1 E2]. apply Z.eqb_eq in E1, E2. rewrite E1, E2. fold old.
    apply testbit_lor_keep. }
  assert (Hkeepc : forall u k, cclimbing c u k -> (forall w', k <> KLeaf bm a b w') -> cclimbing c' u k).
  { intros u k Hk Hne. destruct (Nat.eq_dec u t) as [->|Hn].
    - apply (climbing_head_eq _ _ _ _ _ Hk) in Hc. inversion Hc. exfalso. eapply Hne; eauto.
    - eapply hs_climbing_other; eauto. }
  assert (Hin : forall j, In j (c_cont c main) -> (forall k, j <> IClimb k) -> In j (c_cont c' main)).
  { intros j Hj Hn. eapply hs_in_main; eauto. intro P. inv_pre P. eapply Hn; eauto. }
  constructor.
  - (* i_new *)
    intros h Hh. unfold c', f_leaf_or in Hh. simpl in Hh.
    assert (Hold : c_new c h = true -> chpend c' h true \/ exists x, slab_get (c_sl c') x = Some h /\ bitset c' x).
    { intro Hn. destruct (i_new c I h Hn) as [A|[x [A B]]].
      - left. eapply hs_chpend; eauto. intros j Hj. inv_pre Hj. simpl. tauto.
      - right. exists x. split; auto. }
    destruct (credit c bm a b) as [h0|] eqn:Ecr; auto.
    destruct (hkind_eqb h h0) eqn:Eh; auto.
    apply hkind_eqb_eq in Eh. subst h0. right.
    unfold credit in Ecr. rewrite (s_base c S bm Hreg) in Ecr.
    destruct (creg_bound c bm S Hreg) as [Hbm0 Hbm1].
    rewrite bitmap_join_spec in Ecr by lia.
    exists (64 * a + b + 4096 * bm). split; auto.
    unfold bitset. rewrite Hleaf.
    replace ((64 * a + b + 4096 * bm) / 4096) with bm by lia.
    replace ((64 * a + b + 4096 * bm) mod 4096 / 64) with a by lia.
    replace ((64 * a + b + 4096 * bm) mod 64) with b by lia.
    rewrite !Z.eqb_refl. simpl. apply testbit_lor_shift. lia.
  - (* i_col *)
    intros h Hh. change (c_col c' h) with (c_col c h) in Hh.
    destruct (i_col c I h Hh) as [[d A]|[x [A B]]].
    + left. exists d. eapply hs_chpend; eauto. intros j Hj. inv_pre Hj. simpl. tauto.
    + right. exists x. split; auto. eapply hs_pend_bit; eauto.
  - (* i_leaf *)
    intros bm' a' Hl. rewrite Hleaf in Hl. change (c_summ c' bm') with (c_summ c bm').
    assert (Hold : c_leaf c bm' a' <> 0 ->
                   Z.testbit (c_summ c bm') a' = true \/ cpend_leaf c' bm' a' \/ exists u, cclimbing c' u (KSum bm' a')).
    { intro Hn. destruct (i_leaf c I bm' a' Hn) as [A|[[l [A B]]|[u A]]]; auto.
      - right; left. exists l. split; auto. apply Hin; auto. discriminate.
      - right; right. exists u. apply Hkeepc; auto. discriminate. }
    destruct ((bm' =? bm) && (a' =? a)) eqn:E; auto.
    apply andb_true_iff in E. destruct E as [E1 E2]. apply Z.eqb_eq in E1, E2. subst bm' a'.
    destruct (Z.eq_dec old 0) as [E0|E0].
    + right; right. exists t. exists r. rewrite Hc', updT_same. unfold new. rewrite E0. reflexivity.
    + apply Hold. exact E0.
  - (* i_summ *)
    intros bm' Hs. change (c_summ c' bm') with (c_summ c bm') in Hs. change (c_top c') with (c_top c).
    destruct (i_summ c I bm' Hs) as [A|[[l [A B]]|[u A]]]; auto.
    + right; left. exists l. split; auto. apply Hin; auto. discriminate.
    + right; right. exists u. apply Hkeepc; auto. discriminate.
  - (* i_top *)
    intros Ht. change (c_top c') with (c_top c) in Ht. change (c_notif c') with (c_notif c).
    destruct (i_top c I Ht) as [A|[A|[u A]]]; auto.
    + right; left. apply Hin; auto. discriminate.
    + right; right. exists u. apply Hkeepc; auto. discriminate.
  - (* i_leafwf *)
    intros bm' a' Hl. rewrite Hleaf in Hl. rewrite (hs_creg c c') by reflexivity.
    destruct ((bm' =? bm) && (a' =? a)) eqn:E.
    + apply andb_true_iff in E. destruct E as [E1 E2]. apply Z.eqb_eq in E1, E2. subst. auto.
    + apply (i_leafwf c I); auto.
  - intros bm' Hs. rewrite (hs_creg c c') by reflexivity. apply (i_summwf c I); auto.
  - eapply (hs_wf c c' t); eauto; reflexivity.
  - eapply (hs_drain c c' t); eauto.
  - eapply (hs_acc c c' t); eauto; reflexivity.
  - eapply (hs_mainonly c c' t); eauto.
  - eapply (hs_final c c'); eauto; reflexivity.
  - eapply (hs_slab c c'); eauto; reflexivity.
Qed.

Lemma pres_summ_or : forall c t bm a r,
  CInv c -> c_cont c t = IClimb (KSum bm a) :: r -> CInv (f_summ_or c t bm a r).
Proof.
  intros c t bm a r I Hc.
  pose proof (i_wf c I t _ ltac:(rewrite Hc; left; reflexivity)) as Hwf. simpl in Hwf. destruct Hwf as [Hreg Ha].
  set (old := c_summ c bm).
  set (new := if old =? 0 then [IClimb (KTop bm)] else []).
  set (c' := f_summ_or c t bm a r).
  assert (Hc0 : c_cont c t = [IClimb (KSum bm a)] ++ r) by exact Hc.
  assert (Hpre : forall j, In j [IClimb (KSum bm a)] -> j <> IRun /\ (forall l, j <> IHandlers l)).
  { intros j Hj. inv_pre Hj. split; intros; discriminate. }
  assert (Hc' : forall u, c_cont c' u = updT (c_cont c) t (new ++ r) u).
  { intro u. unfold c', f_summ_or, new. simpl. fold old. destruct (old =? 0); reflexivity. }
  assert (Hnew : forall j, In j new -> wfinstr c j /\ is_drain j = false /\ (t <> main -> main_only j = false)).
  { intros j Hj. unfold new in Hj. destruct (old =? 0); [inv_pre Hj|destruct Hj]. simpl. auto. }
  assert (Hsumm : forall x, c_summ c' x = if x =? bm then Z.lor old (Z.shiftl 1 a) else c_summ c x) by reflexivity.
  assert (Hkeepc : forall u k, cclimbing c u k -> k <> KSum bm a -> cclimbing c' u k).
  { intros u k Hk Hne. destruct (Nat.eq_dec u t) as [->|Hn].
    - apply (climbing_head_eq _ _ _ _ _ Hk) in Hc. inversion Hc. congruence.
    - eapply hs_climbing_other; eauto. }
  assert (Hin : forall j, In j (c_cont c main) -> (forall k, j <> IClimb k) -> In j (c_cont c' main)).
  { intros j Hj Hn. eapply hs_in_main; eauto. intro P. inv_pre P. eapply Hn; eauto. }
  constructor.
  - intros h Hh. change (c_new c' h) with (c_new c h) in Hh.
    destruct (i_new c I h Hh) as [A|[x [A B]]].
    + left. eapply hs_chpend; eauto. intros j Hj. inv_pre Hj. simpl. tauto.
    + right. exists x. split; auto.
  - intros h Hh. change (c_col c' h) with (c_col c h) in Hh.
    destruct (i_col c I h Hh) as [[d A]|[x [A B]]].
    + left. exists d. eapply hs_chpend; eauto. intros j Hj. inv_pre Hj. simpl. tauto.
    + right. exists x. split; auto. eapply hs_pend_bit; eauto.
  - intros bm' a' Hl. change (c_leaf c' bm' a') with (c_leaf c bm' a') in Hl. rewrite Hsumm.
    destruct (i_leaf c I bm' a' Hl) as [A|[[l [A B]]|[u A]]].
    + left. destruct (bm' =? bm) eqn:E; auto. apply Z.eqb_eq in E. subst. apply testbit_lor_keep. exact A.
    + right; left. exists l. split; auto. apply Hin; auto. discriminate.
    + destruct (climb_eq_dec (KSum bm' a') (KSum bm a)) as [E|E].
      * inversion E; subst. left. rewrite Z.eqb_refl. apply testbit_lor_shift. lia.
      * right; right. exists u. apply Hkeepc; auto.
  - intros bm' Hs. rewrite Hsumm in Hs. change (c_top c') with (c_top c).
    assert (Hold : c_summ c bm' <> 0 ->
                   Z.testbit (c_top c) (bm' mod 64) = true \/ cpend_bm c' bm' \/ exists u, cclimbing c' u (KTop bm')).
    { intro Hn. destruct (i_summ c I bm' Hn) as [A|[[l [A B]]|[u A]]]; auto.
      - right; left. exists l. split; auto. apply Hin; auto. discriminate.
      - right; right. exists u. apply Hkeepc; auto. discriminate. }
    destruct (bm' =? bm) eqn:E; auto. apply Z.eqb_eq in E. subst bm'.
    destruct (Z.eq_dec old 0) as [E0|E0].
    + right; right. exists t. exists r. rewrite Hc', updT_same. unfold new. rewrite E0. reflexivity.
    + apply Hold. exact E0.
  - intros Ht. change (c_top c') with (c_top c) in Ht. change (c_notif c') with (c_notif c).
    destruct (i_top c I Ht) as [A|[A|[u A]]]; auto.
    + right; left. apply Hin; auto. discriminate.
    + right; right. exists u. apply Hkeepc; auto. discriminate.
  - intros bm' a' Hl. rewrite (hs_creg c c') by reflexivity. apply (i_leafwf c I); auto.
  - intros bm' Hs. rewrite Hsumm in Hs. rewrite (hs_creg c c') by reflexivity.
    destruct (bm' =? bm) eqn:E.
    + apply Z.eqb_eq in E. subst. auto.
    + apply (i_summwf c I); auto.
  - eapply (hs_wf c c' t); eauto; reflexivity.
  - eapply (hs_drain c c' t); eauto.
  - eapply (hs_acc c c' t); eauto; reflexivity.
  - eapply (hs_mainonly c c' t); eauto.
  - eapply (hs_final c c'); eauto; reflexivity.
  - eapply (hs_slab c c'); eauto; reflexivity.
Qed.

Lemma pres_top_or : forall c t bm r,
  CInv c -> c_cont c t = IClimb (KTop bm) :: r -> CInv (f_top_or c t bm r).
Proof.
  intros c t bm r I Hc.
  pose proof (i_wf c I t _ ltac:(rewrite Hc; left; reflexivity)) as Hwf. simpl in Hwf.
  set (old := c_top c).
  set (new := if old =? 0 then [IClimb KCb] else []).
  set (c' := f_top_or c t bm r).
  assert (Hc0 : c_cont c t = [IClimb (KTop bm)] ++ r) by exact Hc.
  assert (Hpre : forall j, In j [IClimb (KTop bm)] -> j <> IRun /\ (forall l, j <> IHandlers l)).
  { intros j Hj. inv_pre Hj. split; intros; discriminate. }
  assert (Hc' : forall u, c_cont c' u = updT (c_cont c) t (new ++ r) u).
  { intro u. unfold c', f_top_or, new. simpl. fold old. destruct (old =? 0); reflexivity. }
  assert (Hnew : forall j, In j new -> wfinstr c j /\ is_drain j = false /\ (t <> main -> main_only j = false)).
  { intros j Hj. unfold new in Hj. destruct (old =? 0); [inv_pre Hj|destruct Hj]. simpl. auto. }
  assert (Htop : c_top c' = Z.lor old (Z.shiftl 1 (bm mod 64))) by reflexivity.
  assert (Hkeepc : forall u k, cclimbing c u k -> k <> KTop bm -> cclimbing c' u k).
  { intros u k Hk Hne. destruct (Nat.eq_dec u t) as [->|Hn].
    - apply (climbing_head_eq _ _ _ _ _ Hk) in Hc. inversion Hc. congruence.
    - eapply hs_climbing_other; eauto. }
  assert (Hin : forall j, In j (c_cont c main) -> (forall k, j <> IClimb k) -> In j (c_cont c' main)).
  { intros j Hj Hn. eapply hs_in_main; eauto. intro P. inv_pre P. eapply Hn; eauto. }
  constructor.
  - intros h Hh. change (c_new c' h) with (c_new c h) in Hh.
    destruct (i_new c I h Hh) as [A|[x [A B]]].
    + left. eapply hs_chpend; eauto. intros j Hj. inv_pre Hj. simpl. tauto.
    + right. exists x. split; auto.
  - intros h Hh. change (c_col c' h) with (c_col c h) in Hh.
    destruct (i_col c I h Hh) as [[d A]|[x [A B]]].
    + left. exists d. eapply hs_chpend; eauto. intros j Hj. inv_pre Hj. simpl. tauto.
    + right. exists x. split; auto. eapply hs_pend_bit; eauto.
  - intros bm' a' Hl. change (c_leaf c' bm' a') with (c_leaf c bm' a') in Hl. change (c_summ c' bm') with (c_summ c bm').
    destruct (i_leaf c I bm' a' Hl) as [A|[[l [A B]]|[u A]]]; auto.
    + right; left. exists l. split; auto. apply Hin; auto. discriminate.
    + right; right. exists u. apply Hkeepc; auto. discriminate.
  - intros bm' Hs. change (c_summ c' bm') with (c_summ c bm') in Hs. rewrite Htop.
    destruct (i_summ c I bm' Hs) as [A|[[l [A B]]|[u A]]].
    + left. apply testbit_lor_keep. exact A.
    + right; left. exists l. split; auto. apply Hin; auto. discriminate.
    + destruct (climb_eq_dec (KTop bm') (KTop bm)) as [E|E].
      * inversion E; subst. left. apply testbit_lor_shift. lia.
      * right; right. exists u. apply Hkeepc; auto.
  - intros Ht. change (c_notif c') with (c_notif c).
    destruct (Z.eq_dec old 0) as [E0|E0].
    + right; right. exists t. exists r. rewrite Hc', updT_same. unfold new. rewrite E0. reflexivity.
    + destruct (i_top c I E0) as [A|[A|[u A]]]; auto.
      * right; left. apply Hin; auto. discriminate.
      * right; right. exists u. apply Hkeepc; auto. discriminate.
  - intros bm' a' Hl. rewrite (hs_creg c c') by reflexivity. apply (i_leafwf c I); auto.
  - intros bm' Hs. rewrite (hs_creg c c') by reflexivity. apply (i_summwf c I); auto.
  - eapply (hs_wf c c' t); eauto; reflexivity.
  - eapply (hs_drain c c' t); eauto.
  - eapply (hs_acc c c' t); eauto; reflexivity.
  - eapply (hs_mainonly c c' t); eauto.
  - eapply (hs_final c c'); eauto; reflexivity.
  - eapply (hs_slab c c'); eauto; reflexivity.
Qed.

Lemma pres_cb : forall c t r,
  CInv c -> c_cont c t = IClimb KCb :: r -> CInv (f_cb c t r).
Proof.
  intros c t r I Hc.
  set (c' := f_cb c t r).
  assert (Hc0 : c_cont c t = [IClimb KCb] ++ r) by exact Hc.
  assert (Hpre : forall j, In j [IClimb KCb] -> j <> IRun /\ (forall l, j <> IHandlers l)).
  { intros j Hj. inv_pre Hj. split; intros; discriminate. }
  assert (Hc' : forall u, c_cont c' u = updT (c_cont c) t ([] ++ r) u) by reflexivity.
  assert (Hnew : forall j, In j (@nil instr) -> wfinstr c j /\ is_drain j = false /\ (t <> main -> main_only j = false)).
  { intros j []. }
  assert (Hkeepc : forall u k, cclimbing c u k -> k <> KCb -> cclimbing c' u k).
  { intros u k Hk Hne. destruct (Nat.eq_dec u t) as [->|Hn].
    - apply (climbing_head_eq _ _ _ _ _ Hk) in Hc. inversion Hc. congruence.
    - eapply hs_climbing_other; eauto. }
  assert (Hin : forall j, In j (c_cont c main) -> (forall k, j <> IClimb k) -> In j (c_cont c' main)).
  { intros j Hj Hn. eapply hs_in_main; eauto. intro P. inv_pre P. eapply Hn; eauto. }
  constructor.
  - intros h Hh. change (c_new c' h) with (c_new c h) in Hh.
    destruct (i_new c I h Hh) as [A|[x [A B]]].
    + left. eapply hs_chpend; eauto. intros j Hj. inv_pre Hj. simpl. tauto.
    + right. exists x. split; auto.
  - intros h Hh. change (c_col c' h) with (c_col c h) in Hh.
    destruct (i_col c I h Hh) as [[d A]|[x [A B]]].
    + left. exists d. eapply hs_chpend; eauto. intros j Hj. inv_pre Hj. simpl. tauto.
    + right. exists x. split; auto. eapply hs_pend_bit; eauto.
  - intros bm' a' Hl. change (c_leaf c' bm' a') with (c_leaf c bm' a') in Hl. change (c_summ c' bm') with (c_summ c bm').
    destruct (i_leaf c I bm' a' Hl) as [A|[[l [A B]]|[u A]]]; auto.
    + right; left. exists l. split; auto. apply Hin; auto. discriminate.
    + right; right. exists u. apply Hkeepc; auto. discriminate.
  - intros bm' Hs. change (c_summ c' bm') with (c_summ c bm') in Hs. change (c_top c') with (c_top c).
    destruct (i_summ c I bm' Hs) as [A|[[l [A B]]|[u A]]]; auto.
    + right; left. exists l. split; auto. apply Hin; auto. discriminate.
    + right; right. exists u. apply Hkeepc; auto. discriminate.
  - intros _. left. reflexivity.
  - intros bm' a' Hl. rewrite (hs_creg c c') by reflexivity. apply (i_leafwf c I); auto.
  - intros bm' Hs. rewrite (hs_creg c c') by reflexivity. apply (i_summwf c I); auto.
  - eapply (hs_wf c c' t); eauto; reflexivity.
  - eapply (hs_drain c c' t); eauto.
  - eapply (hs_acc c c' t); eauto; reflexivity.
  - eapply (hs_mainonly c c' t); eauto.
  - eapply (hs_final c c'); eauto; reflexivity.
  - eapply (hs_slab c c'); eauto; reflexivity.
Qed.
