(** * Layer W: the abstract core machine of the wake bitmap and the coverage invariant (C11).

    [core st] projects a model state onto what the coverage invariant speaks about: the bitmap words,
    the handler slab with its bitmaps, the ghost "owed" flags, and the continuations of the threads.
    [cstep] is a small nondeterministic machine over these projections (the transition kinds of the
    bitmap protocol); [CInv] is the inductive invariant, proved preserved by every [cstep] here.
    WakerRefine.v shows that every step of the full model [wstep] is a sequence of [cstep]s. *)
From Coq Require Import ZArith List Bool Arith Lia.
From Stk Require Import Lib.U Gen.SrcWaker W.Waker W.WakerArith.
Import ListNotations.
Local Open Scope Z_scope.
Ltac Zify.zify_post_hook ::= Z.div_mod_to_equations.

Definition main : tid := O.

Record cst := mkC {
  c_top : Z; c_summ : Z -> Z; c_leaf : Z -> Z -> Z;
  c_sl : slabt; c_vlen : Z -> Z; c_base : Z -> Z;
  c_notif : bool;
  c_new : hkind -> bool;              (* a wake hit the slot of this handler and the bit is not collected yet *)
  c_col : hkind -> bool;              (* the bit has been collected, the handler call is pending *)
  c_cont : tid -> list instr;
  c_acc : list Z;                     (* bits collected by the main thread in the current poll_wake *)
  c_final : tid -> list instr }.

Definition osome {A} (o : option A) : bool := negb (isnone o).

Definition core (st : wstate) : cst :=
  mkC (top st) (summ st) (leaf st) (sl st) (vlen st) (bmbase st) (gnotified st)
      (fun h => osome (gnew st h)) (fun h => osome (gcol st h))
      (fun t => tcont (thr st t)) (tacc (thr st main)) (fun t => tfinal (thr st t)).

(** pointwise equality of core states *)
Record ceq (c d : cst) : Prop := {
  q_top : c_top c = c_top d;
  q_summ : forall x, c_summ c x = c_summ d x;
  q_leaf : forall x y, c_leaf c x y = c_leaf d x y;
  q_sl : c_sl c = c_sl d;
  q_vlen : forall x, c_vlen c x = c_vlen d x;
  q_base : forall x, c_base c x = c_base d x;
  q_notif : c_notif c = c_notif d;
  q_new : forall h, c_new c h = c_new d h;
  q_col : forall h, c_col c h = c_col d h;
  q_cont : forall t, c_cont c t = c_cont d t;
  q_acc : c_acc c = c_acc d;
  q_final : forall t, c_final c t = c_final d t }.

Lemma ceq_refl : forall c, ceq c c.
Proof. intros; constructor; auto. Qed.
Lemma ceq_sym : forall c d, ceq c d -> ceq d c.
Proof. intros c d []; constructor; intros; symmetry; auto. Qed.
Lemma ceq_trans : forall c d e, ceq c d -> ceq d e -> ceq c e.
Proof. intros c d e [] []; constructor; intros; etransitivity; eauto. Qed.

(** ** Vocabulary of the invariant *)
Definition creg (c : cst) (bm : Z) : bool := (0 <=? bm) && (bm / USIZE_BITS <? c_vlen c (bm mod USIZE_BITS)).
Definition cbms_of_slot (c : cst) (s : Z) : list Z :=
  map (fun vi => s + USIZE_BITS * Z.of_nat vi) (seq 0 (Z.to_nat (c_vlen c s))).

Definition cclimbing (c : cst) (t : tid) (k : climb) : Prop := exists r, c_cont c t = IClimb k :: r.
Definition cpend_top (c : cst) : Prop := In ITopSwap (c_cont c main).
Definition cpend_bm (c : cst) (bm : Z) : Prop := exists l, In (IBms l) (c_cont c main) /\ In bm l.
Definition cpend_leaf (c : cst) (bm a : Z) : Prop := exists l, In (ILeaves bm l) (c_cont c main) /\ In a l.
Definition cpend_bit (c : cst) (x : Z) : Prop :=
  In x (c_acc c) \/ exists l, In (IHandlers l) (c_cont c main) /\ In x l.

(** [i] is the first instruction of a call of the handler of [h] with [deleted = del] *)
Definition hstart (i : instr) (h : hkind) (del : bool) : Prop :=
  match i with
  | IYieldH h' d => h' = h /\ d = del
  | ILock _ LTake => h = HReserved /\ del = false
  | ILock _ (LChHandler c d) => h = HChan c /\ d = del
  | ILock _ (LPqHandler p d) => h = HPipe p /\ d = del
  | _ => False
  end.
Definition chpend (c : cst) (h : hkind) (del : bool) : Prop := exists i, In i (c_cont c main) /\ hstart i h del.

(** the leaf bit of handler slot [x] *)
Definition bitset (c : cst) (x : Z) : Prop :=
  Z.testbit (c_leaf c (x / 4096) ((x mod 4096) / 64)) (x mod 64) = true.

Definition wfclimb (c : cst) (k : climb) : Prop :=
  match k with
  | KLeaf bm a b _ => creg c bm = true /\ 0 <= a < 64 /\ 0 <= b < 64
  | KSum bm a => creg c bm = true /\ 0 <= a < 64
  | KTop bm => creg c bm = true
  | KCb => True
  end.
Definition wfinstr (c : cst) (i : instr) : Prop :=
  match i with
  | IClimb k => wfclimb c k
  | ILock _ (LPush _ bm _) => creg c bm = true        (* the Waker holds an Arc of its bitmap *)
  | IYieldH HReserved _ => False                      (* the drop handler is never a harness closure *)
  | _ => True
  end.

Definition is_drain (i : instr) : bool := match i with ITopSwap | IBms _ | ILeaves _ _ => true | _ => false end.
Fixpoint drain_ok (k : list instr) : Prop :=
  match k with
  | [] => True
  | i :: r => (is_drain i = true -> In IRun r) /\ drain_ok r
  end.

(** instructions only the main thread may hold *)
Definition main_only (i : instr) : bool :=
  match i with
  | ITopSwap | IBms _ | ILeaves _ _ | IRun | IHandlers _ | IDels _ => true
  | ILock _ LTake => true
  | IUnlock _ (UDels _) => true
  | _ => false
  end.

Definition okfinal (i : instr) : Prop :=
  match i with ILock _ a => match a with LTake | LPush _ _ _ => False | _ => True end | _ => False end.
(** [okfinal] for a state: the exit sequence of a piped worker may also contain the drop of its Waker *)
Definition okfinal_c (c : cst) (i : instr) : Prop :=
  match i with ILock _ (LPush _ bm _) => creg c bm = true | _ => okfinal i end.

(** ** The slab and its bitmaps (touched by the main thread only) *)
Fixpoint chain (se : Z -> sentry) (hd : Z) (l : list Z) (endp : Z) : Prop :=
  match l with
  | [] => hd = endp
  | k :: l' => hd = k /\ exists n, se k = SVac n /\ chain se n l' endp
  end.

Record SInv (c : cst) : Prop := {
  s_len : 0 <= slen (c_sl c) <= 4294967296;
  s_free : exists l, chain (sent (c_sl c)) (snext (c_sl c)) l (slen (c_sl c)) /\ NoDup l /\
                     forall k, In k l <-> (0 <= k < slen (c_sl c) /\ exists n, sent (c_sl c) k = SVac n);
  s_res : forall k, 0 <= k < slen (c_sl c) -> (k mod 4096 = 0 <-> sent (c_sl c) k = SOcc HReserved);
  s_bm : forall s vi, 0 <= s < 64 -> 0 <= vi -> (vi < c_vlen c s <-> 4096 * (s + 64 * vi) < slen (c_sl c));
  s_base : forall bm, creg c bm = true -> c_base c bm = 4096 * bm;
  s_vpos : forall s, 0 <= c_vlen c s }.

(** ** The invariant *)
Record CInv (c : cst) : Prop := {
  (* coverage, clause 0: an owed wake is visible as a set leaf bit / a collected bit / a pending handler call *)
  i_new : forall h, c_new c h = true ->
          chpend c h true \/ exists x, slab_get (c_sl c) x = Some h /\ bitset c x;
  i_col : forall h, c_col c h = true ->
          (exists d, chpend c h d) \/ exists x, slab_get (c_sl c) x = Some h /\ cpend_bit c x;
  (* clause 1: leaf -> summary *)
  i_leaf : forall bm a, c_leaf c bm a <> 0 ->
           Z.testbit (c_summ c bm) a = true \/ cpend_leaf c bm a \/ exists t, cclimbing c t (KSum bm a);
  (* clause 2: summary -> top *)
  i_summ : forall bm, c_summ c bm <> 0 ->
           Z.testbit (c_top c) (bm mod 64) = true \/ cpend_bm c bm \/ exists t, cclimbing c t (KTop bm);
  (* clause 3: top -> notification *)
  i_top : c_top c <> 0 -> c_notif c = true \/ cpend_top c \/ exists t, cclimbing c t KCb;
  (* supporting facts *)
  i_leafwf : forall bm a, c_leaf c bm a <> 0 -> creg c bm = true /\ 0 <= a < 64;
  i_summwf : forall bm, c_summ c bm <> 0 -> creg c bm = true;
  i_wf : forall t i, In i (c_cont c t) -> wfinstr c i;
  i_drain : drain_ok (c_cont c main);
  i_acc : c_acc c <> [] -> In IRun (c_cont c main);
  i_mainonly : forall t, t <> main -> forall i, In i (c_cont c t) -> main_only i = false;
  i_final : forall t i, In i (c_final c t) -> okfinal_c c i;
  i_slab : SInv c }.

(** ** Operations of the core machine *)
Definition updT (f : tid -> list instr) (t : tid) (k : list instr) : tid -> list instr :=
  fun u => if Nat.eqb u t then k else f u.

Definition set_ccont (c : cst) (t : tid) (k : list instr) : cst :=
  mkC (c_top c) (c_summ c) (c_leaf c) (c_sl c) (c_vlen c) (c_base c) (c_notif c) (c_new c) (c_col c)
      (updT (c_cont c) t k) (c_acc c) (c_final c).

Definition credit (c : cst) (bm a b : Z) : option hkind :=
  match bitmap_join a b (c_base c bm) with Some x => slab_get (c_sl c) x | None => None end.

Definition f_leaf_or (c : cst) (t : tid) (bm a b : Z) (r : list instr) : cst :=
  let old := c_leaf c bm a in
  mkC (c_top c) (c_summ c)
      (fun x y => if (x =? bm) && (y =? a) then Z.lor old (Z.shiftl 1 b) else c_leaf c x y)
      (c_sl c) (c_vlen c) (c_base c) (c_notif c)
      (fun h => match credit c bm a b with Some h0 => if hkind_eqb h h0 then true else c_new c h | None => c_new c h end)
      (c_col c)
      (updT (c_cont c) t (if old =? 0 then IClimb (KSum bm a) :: r else r)) (c_acc c) (c_final c).

Definition f_summ_or (c : cst) (t : tid) (bm a : Z) (r : list instr) : cst :=
  let old := c_summ c bm in
  mkC (c_top c) (updZ (c_summ c) bm (Z.lor old (Z.shiftl 1 a))) (c_leaf c)
      (c_sl c) (c_vlen c) (c_base c) (c_notif c) (c_new c) (c_col c)
      (updT (c_cont c) t (if old =? 0 then IClimb (KTop bm) :: r else r)) (c_acc c) (c_final c).

Definition f_top_or (c : cst) (t : tid) (bm : Z) (r : list instr) : cst :=
  let old := c_top c in
  mkC (Z.lor old (Z.shiftl 1 (bm mod USIZE_BITS))) (c_summ c) (c_leaf c)
      (c_sl c) (c_vlen c) (c_base c) (c_notif c) (c_new c) (c_col c)
      (updT (c_cont c) t (if old =? 0 then IClimb KCb :: r else r)) (c_acc c) (c_final c).

Definition f_cb (c : cst) (t : tid) (r : list instr) : cst :=
  mkC (c_top c) (c_summ c) (c_leaf c) (c_sl c) (c_vlen c) (c_base c) true (c_new c) (c_col c)
      (updT (c_cont c) t r) (c_acc c) (c_final c).

Definition f_top_swap (c : cst) (r : list instr) : cst :=
  mkC 0 (c_summ c) (c_leaf c) (c_sl c) (c_vlen c) (c_base c) (c_notif c) (c_new c) (c_col c)
      (updT (c_cont c) main (IBms (flat_map (cbms_of_slot c) (bits_of (c_top c))) :: r)) (c_acc c) (c_final c).

Definition f_summ_swap (c : cst) (bm : Z) (bms : list Z) (r : list instr) : cst :=
  mkC (c_top c) (updZ (c_summ c) bm 0) (c_leaf c) (c_sl c) (c_vlen c) (c_base c) (c_notif c) (c_new c) (c_col c)
      (updT (c_cont c) main (ILeaves bm (bits_of (c_summ c bm)) :: IBms bms :: r)) (c_acc c) (c_final c).

(** ghost: the occupants of the collected slots move from "new" to "collected" *)
Definition cg_collect (s : slabt) (bits : list Z) (g : (hkind -> bool) * (hkind -> bool)) : (hkind -> bool) * (hkind -> bool) :=
  fold_left (fun g x => match slab_get s x with
                        | Some h => (updH (fst g) h false, updH (snd g) h (snd g h || fst g h))
                        | None => g
                        end) bits g.

Definition f_leaf_swap (c : cst) (bm a : Z) (ls : list Z) (r : list instr) : cst :=
  let old := c_leaf c bm a in
  let bits := fst (collect (c_base c bm) a old) in
  let g := cg_collect (c_sl c) bits (c_new c, c_col c) in
  mkC (c_top c) (c_summ c) (fun x y => if (x =? bm) && (y =? a) then 0 else c_leaf c x y)
      (c_sl c) (c_vlen c) (c_base c) (c_notif c) (fst g) (snd g)
      (updT (c_cont c) main (ILeaves bm ls :: r)) (c_acc c ++ bits) (c_final c).

Definition f_poll_begin (c : cst) : cst :=
  mkC (c_top c) (c_summ c) (c_leaf c) (c_sl c) (c_vlen c) (c_base c) false (c_new c) (c_col c)
      (updT (c_cont c) main [ITopSwap; IRun]) [] (c_final c).

Definition set_norm (c : cst) (s : slabt) (acc : list Z) (k : list instr) : cst :=
  mkC (c_top c) (c_summ c) (c_leaf c) s (c_vlen c) (c_base c) (c_notif c) (c_new c) (c_col c)
      (updT (c_cont c) main k) acc (c_final c).

(** one rewriting step of the thread-local normalisation (main thread) *)
Definition f_norm1 (c : cst) : option cst :=
  match c_cont c main with
  | IRun :: r => Some (set_norm c (c_sl c) [] (IHandlers (c_acc c) :: r))
  | IHandlers [] :: r => Some (set_norm c (c_sl c) (c_acc c) r)
  | IHandlers (b :: bs) :: r =>
      match slab_get (c_sl c) b with
      | Some h => Some (set_norm c (c_sl c) (c_acc c) (hinstrs h false ++ IHandlers bs :: r))
      | None => Some (set_norm c (c_sl c) (c_acc c) (IHandlers bs :: r))
      end
  | IDels [] :: r => Some (set_norm c (c_sl c) (c_acc c) r)
  | IDels (b :: bs) :: r =>
      match wh_del (c_sl c) b with
      | Some (h, s') => Some (set_norm c s' (c_acc c) (hinstrs h true ++ IDels bs :: r))
      | None => Some (set_norm c (c_sl c) (c_acc c) (IDels bs :: r))
      end
  | IBms [] :: r => Some (set_norm c (c_sl c) (c_acc c) r)
  | ILeaves _ [] :: r => Some (set_norm c (c_sl c) (c_acc c) r)
  | _ => None
  end.

Definition consumable (i : instr) : Prop :=
  match i with
  | IClimb _ | ITopSwap | IBms _ | ILeaves _ _ | IRun | IHandlers _ | IDels _ => False
  | _ => True
  end.

Definition newok (c : cst) (t : tid) (j : instr) : Prop :=
  match j with
  | IClimb (KLeaf bm a b w) => wfclimb c (KLeaf bm a b w)
  | IClimb _ => False
  | ITopSwap | IBms _ | ILeaves _ _ | IRun | IHandlers _ => False
  | _ => wfinstr c j /\ (t <> main -> main_only j = false)
  end.

Definition f_benign (c : cst) (t : tid) (k : list instr) (gn gc : hkind -> bool) : cst :=
  mkC (c_top c) (c_summ c) (c_leaf c) (c_sl c) (c_vlen c) (c_base c) (c_notif c) gn gc
      (updT (c_cont c) t k) (c_acc c) (c_final c).

(** [WakeHandlers::add] on the core state *)
Definition c_add (c : cst) (h : hkind) : option (cst * winfo) :=
  let '(bit0, s0) := slab_insert (c_sl c) h in
  match add_loop 2 s0 h bit0 with
  | None => None
  | Some (bit, base, s1) =>
    match waker_vec_index bit, waker_slot bit with
    | Some vi, Some slot =>
      let n := Z.to_nat (vi + 1 - c_vlen c slot) in
      Some (mkC (c_top c) (c_summ c) (c_leaf c) s1
                (updZ (c_vlen c) slot (Z.max (c_vlen c slot) (vi + 1)))
                (push_bms n (c_vlen c slot) slot base (c_base c))
                (c_notif c) (c_new c) (c_col c) (c_cont c) (c_acc c) (c_final c),
            mkWinfo bit (slot + USIZE_BITS * vi))
    | _, _ => None
    end
  end.

Definition f_final (c : cst) (t : tid) : cst :=
  mkC (c_top c) (c_summ c) (c_leaf c) (c_sl c) (c_vlen c) (c_base c) (c_notif c) (c_new c) (c_col c)
      (updT (c_cont c) t (c_final c t)) (c_acc c) (updT (c_final c) t []).

Definition f_setfinal (c : cst) (t : tid) (f : list instr) : cst :=
  mkC (c_top c) (c_summ c) (c_leaf c) (c_sl c) (c_vlen c) (c_base c) (c_notif c) (c_new c) (c_col c)
      (c_cont c) (c_acc c) (updT (c_final c) t f).

Inductive cstep : cst -> cst -> Prop :=
| cs_leaf_or : forall c t bm a b w r,
    c_cont c t = IClimb (KLeaf bm a b w) :: r -> cstep c (f_leaf_or c t bm a b r)
| cs_summ_or : forall c t bm a r,
    c_cont c t = IClimb (KSum bm a) :: r -> cstep c (f_summ_or c t bm a r)
| cs_top_or : forall c t bm r,
    c_cont c t = IClimb (KTop bm) :: r -> cstep c (f_top_or c t bm r)
| cs_cb : forall c t r,
    c_cont c t = IClimb KCb :: r -> cstep c (f_cb c t r)
| cs_top_swap : forall c r,
    c_cont c main = ITopSwap :: r -> cstep c (f_top_swap c r)
| cs_summ_swap : forall c bm bms r,
    c_cont c main = IBms (bm :: bms) :: r -> cstep c (f_summ_swap c bm bms r)
| cs_leaf_swap : forall c bm a ls r,
    c_cont c main = ILeaves bm (a :: ls) :: r -> cstep c (f_leaf_swap c bm a ls r)
| cs_poll_begin : forall c,
    c_cont c main = [] -> cstep c (f_poll_begin c)
| cs_norm : forall c c',
    f_norm1 c = Some c' -> cstep c c'
| cs_benign : forall c t pre r new gn gc,
    c_cont c t = pre ++ r ->
    ((pre = [] /\ r = []) \/ exists i, pre = [i] /\ consumable i) ->
    (forall j, In j new -> newok c t j) ->
    (forall h, gn h = true -> c_new c h = true) ->
    (forall h, gc h = true -> c_col c h = true) ->
    (forall i h d, In i pre -> hstart i h d -> gc h = false /\ (d = true -> gn h = false)) ->
    cstep c (f_benign c t (new ++ r) gn gc)
| cs_add : forall c h c' wi,
    h <> HReserved -> c_add c h = Some (c', wi) -> cstep c c'
| cs_final : forall c t,
    c_cont c t = [] -> cstep c (f_final c t)
| cs_setfinal : forall c t f,
    (forall i, In i f -> okfinal_c c i) -> cstep c (f_setfinal c t f)
| cs_ceq : forall c c1 c2, cstep c c1 -> ceq c1 c2 -> cstep c c2.


(** ** Basic facts *)
Lemma updT_same : forall f t k, updT f t k t = k.
Proof. intros. unfold updT. rewrite Nat.eqb_refl. reflexivity. Qed.
Lemma updT_other : forall f t k u, u <> t -> updT f t k u = f u.
Proof. intros. unfold updT. destruct (Nat.eqb_spec u t); congruence. Qed.

Lemma hkind_eqb_eq : forall x y, hkind_eqb x y = true <-> x = y.
Proof.
  destruct x, y; simpl; split; intro H; try discriminate; try reflexivity;
    try (apply Z.eqb_eq in H; subst; reflexivity); try (inversion H; subst; apply Z.eqb_refl).
Qed.
Lemma hkind_eqb_refl : forall x, hkind_eqb x x = true.
Proof. intros. apply hkind_eqb_eq. reflexivity. Qed.
Lemma updH_same : forall A (f : hkind -> A) k v, updH f k v k = v.
Proof. intros. unfold updH. rewrite hkind_eqb_refl. reflexivity. Qed.
Lemma updH_other : forall A (f : hkind -> A) k v x, x <> k -> updH f k v x = f x.
Proof.
  intros. unfold updH. destruct (hkind_eqb x k) eqn:E; auto. apply hkind_eqb_eq in E. congruence.
Qed.

Lemma CInv_ceq : forall c d, ceq c d -> CInv c -> CInv d.
Proof.
  intros c d Q H. destruct Q. destruct H.
  assert (Hreg : forall bm, creg d bm = creg c bm) by (intro; unfold creg; rewrite q_vlen0; reflexivity).
  assert (Hcl : forall t k, cclimbing d t k <-> cclimbing c t k) by (intros; unfold cclimbing; rewrite q_cont0; tauto).
  assert (Hbs : forall x, bitset d x <-> bitset c x) by (intros; unfold bitset; rewrite q_leaf0; tauto).
  assert (Hhp : forall h dl, chpend d h dl <-> chpend c h dl) by (intros; unfold chpend; rewrite q_cont0; tauto).
  assert (Hpb : forall x, cpend_bit d x <-> cpend_bit c x) by (intros; unfold cpend_bit; rewrite q_cont0, q_acc0; tauto).
  assert (Hwf : forall i, wfinstr d i <-> wfinstr c i).
  { intros [k| | | | | | |m a|m a| | | |h dl| |]; simpl; try tauto.
    - destruct k; simpl; rewrite ?Hreg; tauto.
    - destruct a; simpl; rewrite ?Hreg; tauto. }
  constructor.
  - intros h Hh. rewrite <- q_new0 in Hh. destruct (i_new0 h Hh) as [A|[x [A B]]].
    + left. apply Hhp; auto.
    + right. exists x. rewrite <- q_sl0. split; auto. apply Hbs; auto.
  - intros h Hh. rewrite <- q_col0 in Hh. destruct (i_col0 h Hh) as [[dl A]|[x [A B]]].
    + left. exists dl. apply Hhp; auto.
    + right. exists x. rewrite <- q_sl0. split; auto. apply Hpb; auto.
  - intros bm a Hl. rewrite <- q_leaf0 in Hl. rewrite <- q_summ0.
    destruct (i_leaf0 bm a Hl) as [A|[A|[t A]]]; [left; auto | right; left | right; right; exists t; apply Hcl; auto].
    unfold cpend_leaf in *. rewrite <- q_cont0. auto.
  - intros bm Hs. rewrite <- q_summ0 in Hs. rewrite <- q_top0.
    destruct (i_summ0 bm Hs) as [A|[A|[t A]]]; [left; auto | right; left | right; right; exists t; apply Hcl; auto].
    unfold cpend_bm in *. rewrite <- q_cont0. auto.
  - intros Ht. rewrite <- q_top0 in Ht. rewrite <- q_notif0.
    destruct (i_top0 Ht) as [A|[A|[t A]]]; [left; auto | right; left | right; right; exists t; apply Hcl; auto].
    unfold cpend_top in *. rewrite <- q_cont0. auto.
  - intros bm a Hl. rewrite <- q_leaf0 in Hl. rewrite Hreg. auto.
  - intros bm Hs. rewrite <- q_summ0 in Hs. rewrite Hreg. auto.
  - intros t i Hi. rewrite <- q_cont0 in Hi. apply Hwf. eauto.
  - rewrite <- q_cont0. auto.
  - rewrite <- q_acc0, <- q_cont0. auto.
  - intros t Ht i Hi. rewrite <- q_cont0 in Hi. eauto.
  - intros t i Hi. rewrite <- q_final0 in Hi. apply i_final0 in Hi.
    destruct i as [k| | | | | | |m a|m a| | | |h dl| |]; simpl in *; auto. destruct a; simpl in *; rewrite ?Hreg; auto.
  - destruct i_slab0. constructor.
    + rewrite <- q_sl0; auto.
    + rewrite <- q_sl0; auto.
    + rewrite <- q_sl0; auto.
    + intros. rewrite <- q_sl0, <- q_vlen0. auto.
    + intros bm Hb. rewrite Hreg in Hb. rewrite <- q_base0. auto.
    + intros. rewrite <- q_vlen0. auto.
Qed.
