(** * Layer W: publication (C11_publishes) as a happens-before statement on vector clocks.

    Ghost clocks: every thread ticks its own component at each step; an atomic operation of ordering
    [o] on a word joins the word's clock into the thread's clock if [o] is acquire-or-stronger and joins
    the thread's clock into the word's clock if [o] is release-or-stronger (a read-modify-write never breaks
    a release sequence, so the word's clock only grows); lock/unlock do the same through the mutex.
    The orderings come from the TRANSLATED constant [ORDERING]. *)
From Coq Require Import ZArith List Bool Arith Lia.
From Stk Require Import Lib.U Gen.SrcWaker W.Waker W.WakerArith W.WakerCore W.WakerSlab W.WakerPres W.WakerRefine W.WakerProofs W.WakerGhost.
Import ListNotations.
Local Open Scope Z_scope.

(** ** vector clocks *)
Lemma vget_nil : forall t, vget [] t = O.
Proof. intros [|t]; reflexivity. Qed.

Lemma vget_vjoin : forall a b t, vget (vjoin a b) t = Nat.max (vget a t) (vget b t).
Proof.
  induction a as [|x a IH]; intros b t.
  - cbn [vjoin]. rewrite vget_nil. reflexivity.
  - destruct b as [|y b]; [cbn [vjoin]; rewrite vget_nil, Nat.max_0_r; reflexivity|].
    cbn [vjoin]. destruct t as [|t]; [reflexivity|]. unfold vget in *. cbn [nth]. apply IH.
Qed.

Lemma vget_vtick_ge : forall t c u, (vget c u <= vget (vtick t c) u)%nat.
Proof.
  induction t as [|t IH]; intros c u.
  - destruct c as [|x c]; [rewrite vget_nil; lia|].
    destruct u as [|u]; unfold vget; cbn [vtick nth]; lia.
  - destruct c as [|x c]; [rewrite vget_nil; lia|].
    destruct u as [|u]; unfold vget; cbn [vtick nth]; [lia|]. apply IH.
Qed.

Lemma vle_refl : forall a, vle a a.
Proof. intros a t. lia. Qed.
Lemma vle_trans : forall a b c, vle a b -> vle b c -> vle a c.
Proof. intros a b c H1 H2 t. specialize (H1 t). specialize (H2 t). lia. Qed.
Lemma vle_join_l : forall a b, vle a (vjoin a b).
Proof. intros a b t. rewrite vget_vjoin. lia. Qed.
Lemma vle_join_r : forall a b, vle b (vjoin a b).
Proof. intros a b t. rewrite vget_vjoin. lia. Qed.
Lemma vle_tick : forall t a, vle a (vtick t a).
Proof. intros t a u. apply vget_vtick_ge. Qed.
Lemma vle_nil : forall a, vle [] a.
Proof. intros a t. rewrite vget_nil. lia. Qed.

(** ** clocks only grow *)
Definition clk_ok (st st' : wstate) : Prop :=
  (forall w, vle (wclk st w) (wclk st' w)) /\
  (forall u, (u < nthr st)%nat -> vle (tclk (thr st u)) (tclk (thr st' u))) /\
  (nthr st <= nthr st')%nat.

Lemma clk_ok_refl : forall st, clk_ok st st.
Proof. intro st. repeat split; intros; try apply vle_refl; lia. Qed.

Lemma clk_ok_trans : forall a b c, clk_ok a b -> clk_ok b c -> clk_ok a c.
Proof.
  intros a b c [A1 [A2 A3]] [B1 [B2 B3]]. repeat split.
  - intro w. eapply vle_trans; eauto.
  - intros u Hu. eapply vle_trans; [apply A2; auto|apply B2; lia].
  - lia.
Qed.

Lemma clk_ok_same : forall st st',
  wclk st' = wclk st -> (forall u, tclk (thr st' u) = tclk (thr st u)) -> nthr st' = nthr st -> clk_ok st st'.
Proof.
  intros st st' H1 H2 H3. repeat split.
  - intro w. rewrite H1. apply vle_refl.
  - intros u _. rewrite H2. apply vle_refl.
  - lia.
Qed.

Ltac csame := apply clk_ok_same; [reflexivity | thr_simpl | reflexivity].

Lemma exec_lact_clk : forall st t a r st' ev, exec_lact st t a r = (st', ev) -> clk_ok st st'.
Proof.
  intros st t a r st' ev H.
  destruct a; cbn [exec_lact] in H; unfold ghost_handler in H; destr_all H; inversion H; subst; clear H; csame.
Qed.

Lemma exec_uact_clk : forall st t a r st' ev, exec_uact st t a r = (st', ev) -> clk_ok st st'.
Proof.
  intros st t a r st' ev H. destruct a; cbn [exec_uact] in H; inversion H; subst; clear H; csame.
Qed.

(** ** atomic operations *)
Lemma word_eqb_eq : forall x y, word_eqb x y = true <-> x = y.
Proof.
  destruct x, y; simpl; split; intro H; try discriminate; try reflexivity.
  - apply Z.eqb_eq in H. subst; reflexivity.
  - inversion H; subst. apply Z.eqb_refl.
  - apply andb_true_iff in H. destruct H as [H1 H2]. apply Z.eqb_eq in H1, H2. subst; reflexivity.
  - inversion H; subst. rewrite !Z.eqb_refl. reflexivity.
Qed.
Lemma word_eqb_refl : forall x, word_eqb x x = true.
Proof. intro x. apply word_eqb_eq. reflexivity. Qed.

Lemma rmw_clk_spec : forall st t w,
  let s := rmw_clk st t w in
  (forall w', vle (wclk st w') (wclk s w')) /\
  (forall u, vle (tclk (thr st u)) (tclk (thr s u))) /\
  nthr s = nthr st /\
  (ordering_rel ORDERING = true -> vle (tclk (thr st t)) (wclk s w)) /\
  (ordering_acq ORDERING = true -> vle (wclk st w) (tclk (thr s t))).
Proof.
  intros st t w. unfold rmw_clk, rel_word, acq_word.
  destruct (ordering_acq ORDERING) eqn:Ea; destruct (ordering_rel ORDERING) eqn:Er; cbn -[ORDERING];
    unfold updN, updW, th; cbn -[ORDERING]; rewrite ?word_eqb_refl, ?Nat.eqb_refl; cbn -[ORDERING];
    repeat split; intros; try discriminate;
    repeat match goal with
           | |- context [word_eqb ?a ?b] => destruct (word_eqb a b) eqn:?
           | |- context [Nat.eqb ?a ?b] => destruct (Nat.eqb_spec a b); subst
           end; cbn -[ORDERING];
    repeat match goal with H : word_eqb _ _ = true |- _ => apply word_eqb_eq in H; subst end;
    try apply vle_refl;
    try (apply vle_join_l); try (apply vle_join_r);
    try (eapply vle_trans; [|apply vle_join_r]; apply vle_join_l).
Qed.

Local Opaque rmw_clk.

Definition atomic_pub (st st' : wstate) (t : tid) (ev : list wevent) : Prop :=
  forall w op o n ord, In (EAtomic w op o n ord) ev ->
    (ordering_rel ORDERING = true -> vle (tclk (thr st t)) (wclk st' w)) /\
    (ordering_acq ORDERING = true -> vle (wclk st w) (tclk (thr st' t))).

(** a state that differs from [rmw_clk st t w] only in fields that carry no clock, and in the
    continuation / collected bits of thread [t] *)
Lemma rmw_step : forall st st' t w ev,
  wclk st' = wclk (rmw_clk st t w) ->
  (forall u, tclk (thr st' u) = tclk (thr (rmw_clk st t w) u)) ->
  nthr st' = nthr (rmw_clk st t w) ->
  (forall w' op o n ord, In (EAtomic w' op o n ord) ev -> w' = w) ->
  clk_ok st st' /\ atomic_pub st st' t ev.
Proof.
  intros st st' t w ev H1 H2 H3 Hev.
  destruct (rmw_clk_spec st t w) as [A1 [A2 [A3 [A4 A5]]]]. cbn zeta in *.
  split.
  - repeat split.
    + intro w'. rewrite H1. apply A1.
    + intros u _. rewrite H2. apply A2.
    + lia.
  - intros w' op o n ord Hin. apply Hev in Hin. subst w'. split; intro Ho.
    + rewrite H1. apply A4; auto.
    + rewrite H2. apply A5; auto.
Qed.

Ltac ev1 :=
  intros ? ? ? ? ? Hin; simpl in Hin;
  repeat match type of Hin with
         | _ \/ _ => destruct Hin as [Hin|Hin]; [try (inversion Hin; subst; reflexivity); try discriminate|]
         | In _ (if ?b then _ else _) => destruct b; simpl in Hin
         end; try contradiction.

Lemma no_atomic : forall st st' t ev, (forall w op o n ord, ~ In (EAtomic w op o n ord) ev) -> atomic_pub st st' t ev.
Proof. intros st st' t ev H w op o n ord Hin. exfalso. eapply H; eauto. Qed.

Lemma ghost_collect_wclk : forall bits S, wclk (ghost_collect S bits) = wclk S.
Proof.
  unfold ghost_collect. induction bits as [|b bits IH]; intro S; [reflexivity|]. cbn [fold_left].
  destruct (slab_get (sl S) b); rewrite IH; reflexivity.
Qed.

Lemma exec_instr_clk : forall st t i r st' ev,
  (t < nthr st)%nat ->
  exec_instr st t i r = (st', ev) -> clk_ok st st' /\ atomic_pub st st' t ev.
Proof.
  intros st t i r st' ev Ht H. destruct i; cbn [exec_instr] in H.
  - destruct k; cbn [exec_climb] in H; inversion H; subst; clear H.
    + apply (rmw_step st _ t (WLeaf bm a)).
      * destruct (bitmap_join a b (bmbase st bm)); [destruct (slab_get (sl st) z)|]; reflexivity.
      * intro u. destruct (bitmap_join a b (bmbase st bm)); [destruct (slab_get (sl st) z)|];
          cbn; unfold updN, th; cbn; destruct (Nat.eqb_spec u t); subst; reflexivity.
      * destruct (bitmap_join a b (bmbase st bm)); [destruct (slab_get (sl st) z)|]; reflexivity.
      * ev1.
    + apply (rmw_step st _ t (WSum bm)); try reflexivity; [|ev1].
      intro u. cbn. unfold updN, th. cbn. destruct (Nat.eqb_spec u t); subst; reflexivity.
    + apply (rmw_step st _ t WTop); try reflexivity; [|ev1].
      intro u. cbn. unfold updN, th. cbn. destruct (Nat.eqb_spec u t); subst; reflexivity.
    + split; [csame|apply no_atomic; intros w op o n ord [Hin|[]]; discriminate].
  - inversion H; subst; clear H. apply (rmw_step st _ t WTop); try reflexivity; [|ev1].
    intro u. cbn. unfold updN, th. cbn. destruct (Nat.eqb_spec u t); subst; reflexivity.
  - destruct bms; inversion H; subst; clear H.
    + split; [apply clk_ok_refl|apply no_atomic; intros w op o n ord [Hin|[]]; discriminate].
    + apply (rmw_step st _ t (WSum z)); try reflexivity; [|ev1].
      intro u. cbn. unfold updN, th. cbn. destruct (Nat.eqb_spec u t); subst; reflexivity.
  - destruct ls; [inversion H; subst; split; [apply clk_ok_refl|apply no_atomic; intros w op o n ord [Hin|[]]; discriminate]|].
    destruct (collect (bmbase st bm) z (leaf st bm z)) as [bits ok].
    match type of H with context [ghost_collect ?S bits] => destruct (ghost_collect_frame bits S) as [A B]; remember (ghost_collect S bits) as s3 eqn:Es3 end.
    assert (Hw : wclk s3 = wclk (rmw_clk st t (WLeaf bm z))).
    { subst s3. rewrite ghost_collect_wclk. reflexivity. }
    inversion H; subst st' ev; clear H.
    apply (rmw_step st _ t (WLeaf bm z)).
    + cbn. exact Hw.
    + intro u. cbn. unfold updN, th. rewrite B. cbn -[Nat.eqb]. unfold updN. destruct (Nat.eqb_spec u t); subst; rewrite ?Nat.eqb_refl; reflexivity.
    + cbn. rewrite A. reflexivity.
    + ev1.
  - inversion H; subst; split; [apply clk_ok_refl|apply no_atomic; intros w op o n ord [Hin|[]]; discriminate].
  - inversion H; subst; split; [apply clk_ok_refl|apply no_atomic; intros w op o n ord [Hin|[]]; discriminate].
  - inversion H; subst; split; [apply clk_ok_refl|apply no_atomic; intros w op o n ord [Hin|[]]; discriminate].
  - match type of H with context [exec_lact ?S t ?aa ?rr] => destruct (exec_lact S t aa rr) as [s2 e2] eqn:E; set (s1 := S) in * end.
    inversion H; subst; clear H. split.
    + eapply clk_ok_trans; [|eapply exec_lact_clk; eauto].
      unfold s1, acq_mtx. repeat split; try (intro; apply vle_refl); try (cbn; lia).
      intros u _. cbn. unfold updN, th. cbn. destruct (Nat.eqb_spec u t); subst; cbn; [apply vle_join_l|apply vle_refl].
    + apply no_atomic. intros w op o n ord [Hin|Hin]; [discriminate|].
      clear - E Hin. destruct a; cbn [exec_lact] in E; unfold ghost_handler in E; destr_all E; inversion E; subst; clear E;
        simpl in Hin; repeat (destruct Hin as [Hin|Hin]; try discriminate); try contradiction;
        try (induction (if copen (chs st c) then cq (chs st c) else []); simpl in Hin; intuition discriminate).
  - destruct (exec_uact st t a r) as [s1 e1] eqn:E. inversion H; subst; clear H. split.
    + eapply clk_ok_trans; [eapply exec_uact_clk; eauto|]. unfold rel_mtx. csame.
    + apply no_atomic. intros w op o n ord [Hin|Hin]; [discriminate|].
      clear - E Hin. destruct a; cbn [exec_uact] in E; inversion E; subst; clear E; simpl in Hin; try contradiction.
      * induction msgs; simpl in Hin; [contradiction|]. destruct Hin; [discriminate|auto].
      * apply in_app_or in Hin. destruct Hin as [Hin|Hin].
        -- induction msgs; simpl in Hin; [contradiction|]. destruct Hin; [discriminate|auto].
        -- destruct term; simpl in Hin; [destruct Hin; [discriminate|contradiction]|contradiction].
  - inversion H; subst; clear H. split; [unfold rel_mtx; csame|apply no_atomic; intros w op o n ord [Hin|[]]; discriminate].
  - match type of H with context [exec_lact ?S t ?aa ?rr] => destruct (exec_lact S t aa rr) as [s2 e2] eqn:E; set (s1 := S) in * end.
    inversion H; subst; clear H. split.
    + eapply clk_ok_trans; [|eapply exec_lact_clk; eauto].
      unfold s1, acq_mtx. repeat split; try (intro; apply vle_refl); try (cbn; lia).
      intros u _. cbn. unfold updN, th. cbn. destruct (Nat.eqb_spec u t); subst; cbn; [apply vle_join_l|apply vle_refl].
    + apply no_atomic. intros w op o n ord [Hin|Hin]; [discriminate|].
      clear - E Hin. cbn [exec_lact] in E; destr_all E; inversion E; subst; clear E;
        simpl in Hin; repeat (destruct Hin as [Hin|Hin]; try discriminate); try contradiction.
  - inversion H; subst st' ev; clear H. split; [|apply no_atomic; intros w op o n ord [Hin|[]]; discriminate].
    match goal with |- clk_ok st (set_cont (fold_left ?f ?us st) t r) => set (s1 := fold_left f us st) end.
    assert (F : wclk s1 = wclk st /\ nthr s1 = nthr st /\ forall u, tclk (thr s1 u) = tclk (thr st u)).
    { unfold s1. clear. match goal with |- context [fold_left ?f ?us st] => generalize us end.
      intro us. revert st. induction us as [|v us IH]; intro st; [repeat split; reflexivity|].
      cbn [fold_left]. destruct (IH (upd_th st v (set_twaiting (th st v) false))) as [A [B C]].
      rewrite A, B. repeat split; try reflexivity. intro u. rewrite C. cbn. unfold updN, th.
      destruct (Nat.eqb_spec u v); subst; reflexivity. }
    destruct F as [F1 [F2 F3]]. apply clk_ok_same; cbn; auto.
    intro u. unfold updN, th. destruct (Nat.eqb_spec u t); subst; cbn; auto.
  - unfold ghost_handler in H. inversion H; subst; clear H.
    split; [destruct del; csame|apply no_atomic; intros w op o n ord [Hin|[Hin|[]]]; discriminate].
  - inversion H; subst; clear H. split; [|apply no_atomic; intros w op o n ord [Hin|[]]; discriminate].
    repeat split; try (intro; apply vle_refl); try (cbn; lia).
    intros u _. cbn -[Nat.eqb]. unfold updN, th. cbn -[Nat.eqb]. destruct (Nat.eqb_spec u t); subst; [|apply vle_refl].
    rewrite Nat.eqb_refl. cbn [tclk set_tclk].
    assert (G : forall l c0, vle c0 (fold_left (fun c u => vjoin c (tclk (th st u))) l c0)).
    { induction l as [|v l IH]; intro c0; cbn [fold_left]; [apply vle_refl|].
      eapply vle_trans; [apply vle_join_l|apply IH]. }
    apply (G (seq 0 (nthr st)) (tclk (thr st t))).
  - inversion H; subst; clear H. split; [csame|apply no_atomic; intros w op o n ord [Hin|[]]; discriminate].
Qed.

Lemma wh_add_clk : forall st h st1 wi, wh_add st h = Some (st1, wi) ->
  wclk st1 = wclk st /\ thr st1 = thr st /\ nthr st1 = nthr st.
Proof.
  intros st h st1 wi H. unfold wh_add in H.
  destruct (slab_insert (sl st) h) as [bit0 s0].
  destruct (add_loop 2 s0 h bit0) as [[[bit base] s1]|]; [|discriminate].
  destruct (waker_vec_index bit); [|discriminate]. destruct (waker_slot bit); [|discriminate].
  inversion H; subst. repeat split; reflexivity.
Qed.

Lemma fill_loop_clk : forall n st ev st' ev', fill_loop n st ev = (st', ev') ->
  wclk st' = wclk st /\ thr st' = thr st /\ nthr st' = nthr st.
Proof.
  induction n as [|n IH]; intros st ev st' ev' H; cbn [fill_loop] in H.
  - inversion H; subst; auto.
  - destruct (wh_add st (HPlain (1000000 + nfill st))) as [[st1 wi]|] eqn:E.
    + apply wh_add_clk in E. destruct E as [E1 [E2 E3]]. apply IH in H. cbn in H. destruct H as [H1 [H2 H3]].
      repeat split; congruence.
    + inversion H; subst; auto.
Qed.

Lemma spawn_clk : forall st t p f, (1 <= nthr st)%nat -> clk_ok st (spawn_thread st t p f).
Proof.
  intros st t p f Hn. repeat split.
  - intro w. apply vle_refl.
  - intros u Hu. cbn. unfold updN, th. destruct (Nat.eqb_spec u (nthr st)); [lia|apply vle_refl].
  - cbn. lia.
Qed.

Lemma begin_cmd_clk : forall st t c st' ev done,
  (1 <= nthr st)%nat -> begin_cmd st t c = (st', ev, done) ->
  clk_ok st st' /\ forall w op o n ord, ~ In (EAtomic w op o n ord) ev.
Proof.
  intros st t c st' ev done Hn H.
  assert (NA : forall (l : list wevent), (forall e, In e l -> match e with EAtomic _ _ _ _ _ => False | _ => True end) ->
               forall w op o n ord, ~ In (EAtomic w op o n ord) l).
  { intros l Hl w op o n ord Hin. apply Hl in Hin. exact Hin. }
  destruct c; cbn [begin_cmd] in H;
    try (destr_all H; inversion H; subst; clear H;
         (split; [first [solve [apply clk_ok_refl] | solve [csame]] | intros ? ? ? ? ? Hin; simpl in Hin; intuition discriminate]); fail).
  - (* CNew *)
    destruct (negb (is_main t) || wused st w || (1000000 <=? w) || (w <? 0)); [inversion H; subst; split; [apply clk_ok_refl|intros ? ? ? ? ? []]|].
    destruct (wh_add st (HPlain w)) as [[st1 wi]|] eqn:E; inversion H; subst; clear H.
    + apply wh_add_clk in E. destruct E as [E1 [E2 E3]]. split; [|intros ? ? ? ? ? [Hin|[]]; discriminate].
      apply clk_ok_same; cbn; auto. intro u. rewrite E2. reflexivity.
    + split; [apply clk_ok_refl|intros ? ? ? ? ? [Hin|[]]; discriminate].
  - (* CFill *)
    destruct (negb (is_main t)); [inversion H; subst; split; [apply clk_ok_refl|intros ? ? ? ? ? []]|].
    destruct (fill_loop (Z.to_nat n) st []) as [st1 ev1] eqn:E. inversion H; subst; clear H.
    pose proof (fill_loop_clk _ _ _ _ _ E) as [E1 [E2 E3]]. split.
    + apply clk_ok_same; auto. intro u. rewrite E2. reflexivity.
    + clear - E. intros w op o n1 ord Hin.
      assert (G : forall n st ev st' ev', fill_loop n st ev = (st', ev') ->
                  (forall e, In e ev -> match e with EAtomic _ _ _ _ _ => False | _ => True end) ->
                  forall e, In e ev' -> match e with EAtomic _ _ _ _ _ => False | _ => True end).
      { induction n0 as [|k IH]; intros s e s' e' H He; cbn [fill_loop] in H.
        - inversion H; subst; auto.
        - destruct (wh_add s (HPlain (1000000 + nfill s))) as [[s1 wi]|].
          + eapply IH; eauto. intros x Hx. apply in_app_or in Hx. destruct Hx as [Hx|[<-|[]]]; [exact (He x Hx)|exact Logic.I].
          + inversion H; subst. intros x Hx. apply in_app_or in Hx. destruct Hx as [Hx|[<-|[]]]; [exact (He x Hx)|exact Logic.I]. }
      apply (G _ _ _ _ _ E (fun _ F => match F with end)) in Hin. exact Hin.
  - (* CSpawn *)
    destruct (negb (is_main t)); inversion H; subst; clear H.
    + split; [apply clk_ok_refl|intros ? ? ? ? ? []].
    + split; [apply spawn_clk; auto|intros ? ? ? ? ? []].
  - (* CCNew *)
    destruct (negb (is_main t) || cexists (chs st c)); [inversion H; subst; split; [apply clk_ok_refl|intros ? ? ? ? ? []]|].
    destruct (wh_add st (HChan c)) as [[st1 wi]|] eqn:E; inversion H; subst; clear H.
    + apply wh_add_clk in E. destruct E as [E1 [E2 E3]]. split; [|intros ? ? ? ? ? [Hin|[]]; discriminate].
      apply clk_ok_same; cbn; auto. intro u. unfold updN, th. rewrite E2. destruct (Nat.eqb_spec u t); subst; reflexivity.
    + split; [apply clk_ok_refl|intros ? ? ? ? ? [Hin|[]]; discriminate].
  - (* CPNew *)
    destruct (negb (is_main t) || pexists (pps st p)); [inversion H; subst; split; [apply clk_ok_refl|intros ? ? ? ? ? []]|].
    destruct (wh_add st (HPipe p)) as [[st1 wi]|] eqn:E; inversion H; subst; clear H.
    + apply wh_add_clk in E. destruct E as [E1 [E2 E3]]. split; [|intros ? ? ? ? ? [Hin|[]]; discriminate].
      eapply clk_ok_trans; [|apply spawn_clk; cbn; lia].
      apply clk_ok_same; cbn; auto. intro u. rewrite E2. reflexivity.
    + split; [apply clk_ok_refl|intros ? ? ? ? ? [Hin|[]]; discriminate].
Qed.

Lemma norm_no_atomic : forall fuel s acc k ev s1 acc1 k1 ev1,
  norm fuel s acc k ev = (s1, acc1, k1, ev1) ->
  forall w op o n ord, In (EAtomic w op o n ord) ev1 -> In (EAtomic w op o n ord) ev.
Proof.
  induction fuel as [|f IH]; intros s acc k ev s1 acc1 k1 ev1 H w op o n ord Hin; cbn [norm] in H.
  - inversion H; subst; auto.
  - destruct k as [|i r]; [inversion H; subst; auto|].
    destruct i as [c| |[|bm bms]|bm [|a ls]| |[|b bs]|[|b bs]| | | | | | | |];
      try (inversion H; subst; auto; fail); try (eapply IH; eauto; fail).
    + destruct (slab_get s b); [inversion H; subst; auto|eapply IH; eauto].
    + destruct (wh_del s b) as [[h s']|]; [|eapply IH; eauto].
      inversion H; subst. apply in_app_or in Hin. destruct Hin as [Hin|[Hin|[]]]; [auto|discriminate].
Qed.

Lemma settle_clk : forall st t ev done st' ev',
  settle st t ev done = (st', ev') ->
  wclk st' = wclk st /\ (forall u, tclk (thr st' u) = tclk (thr st u)) /\ nthr st' = nthr st /\
  forall w op o n ord, In (EAtomic w op o n ord) ev' -> In (EAtomic w op o n ord) ev.
Proof.
  intros st t ev done st' ev' H. unfold settle in H.
  destruct (norm (2 * (cont_size (tcont (th st t)) + length (tacc (th st t))) + 2) (sl st) (tacc (th st t)) (tcont (th st t)) ev)
    as [[[s1 acc1] k1] ev1] eqn:En.
  pose proof (norm_no_atomic _ _ _ _ _ _ _ _ _ En) as Hev.
  cbn zeta in H.
  match type of H with (let '(st2, ev2) := ?E in _) = _ => destruct E as [st2 ev2] eqn:E2 end.
  assert (G2 : wclk st2 = wclk st /\ (forall u, tclk (thr st2 u) = tclk (thr st u)) /\ nthr st2 = nthr st /\
               forall w op o n ord, In (EAtomic w op o n ord) ev2 -> In (EAtomic w op o n ord) ev1).
  { destruct done as [v|].
    - inversion E2; subst. repeat split; auto; [thr_simpl|]. intros w op o n ord Hin.
      apply in_app_or in Hin. destruct Hin as [Hin|[Hin|[]]]; [auto|discriminate].
    - destruct k1.
      + destruct (tcur _) as [c|] eqn:Ec; inversion E2; subst.
        * destruct c; (repeat split; auto; [thr_simpl|]); intros ? ? ? ? ? Hin;
            apply in_app_or in Hin; destruct Hin as [Hin|[Hin|[]]]; auto; discriminate.
        * repeat split; auto. thr_simpl.
      + inversion E2; subst. repeat split; auto. thr_simpl. }
  destruct G2 as [A [B [C D]]].
  assert (Fin : forall st3 ev3, (st3 = st2 \/ exists f, st3 = upd_th st2 t (set_tfinal (set_tcont (th st2 t) f) [])) ->
                (ev3 = ev2 \/ ev3 = ev2 ++ [EExit]) ->
                wclk st3 = wclk st /\ (forall u, tclk (thr st3 u) = tclk (thr st u)) /\ nthr st3 = nthr st /\
                forall w op o n ord, In (EAtomic w op o n ord) ev3 -> In (EAtomic w op o n ord) ev).
  { intros st3 ev3 Hs He. repeat split.
    - destruct Hs as [->|[f ->]]; auto.
    - intro u. destruct Hs as [->|[f ->]]; auto. rewrite <- B. cbn. unfold updN, th. destruct (Nat.eqb_spec u t); subst; reflexivity.
    - destruct Hs as [->|[f ->]]; auto.
    - intros w op o n ord Hin. apply Hev. apply D. destruct He as [->| ->]; auto.
      apply in_app_or in Hin. destruct Hin as [Hin|[Hin|[]]]; [auto|discriminate]. }
  destruct (tcont (th st2 t)); [|inversion H; subst; apply Fin; auto].
  destruct (tscript (th st2 t)); [|inversion H; subst; apply Fin; auto].
  destruct (tcur (th st2 t)); [inversion H; subst; apply Fin; auto|].
  destruct (tfinal (th st2 t)); inversion H; subst; apply Fin; eauto.
  destruct (is_main t); auto.
Qed.

Theorem wstep_clk : forall st t st' ev,
  (1 <= nthr st)%nat -> wstep st t = (st', ev) ->
  clk_ok st st' /\ atomic_pub (tick st t) st' t ev.
Proof.
  intros st t st' ev Hn H. unfold wstep in H.
  destruct (enabled st t) eqn:En; cbn [negb] in H.
  2:{ inversion H; subst. split; [apply clk_ok_refl|apply no_atomic; intros ? ? ? ? ? [Hin|[]]; discriminate]. }
  assert (Ht : (t < nthr st)%nat).
  { unfold enabled in En. apply andb_true_iff in En. destruct En as [En _]. apply Nat.ltb_lt in En. exact En. }
  assert (T : clk_ok st (tick st t)).
  { unfold tick. repeat split; try (intro; apply vle_refl); try (cbn; lia).
    intros u _. cbn. unfold updN, th. destruct (Nat.eqb_spec u t); subst; cbn; [apply vle_tick|apply vle_refl]. }
  assert (Htt : (t < nthr (tick st t))%nat) by exact Ht.
  assert (Hnt : (1 <= nthr (tick st t))%nat) by exact Hn.
  set (s0 := tick st t) in *. clearbody s0.
  destruct (tstarted (th s0 t)); cbn [negb] in H.
  - destruct (tcont (th s0 t)) as [|i r].
    + destruct (tscript (th s0 t)) as [|c0 cs].
      { inversion H; subst. split; [apply clk_ok_refl|apply no_atomic; intros ? ? ? ? ? [Hin|[]]; discriminate]. }
      match type of H with context [begin_cmd ?S t ?cc] =>
        destruct (begin_cmd S t cc) as [[st2 ev0] done] eqn:Eb; set (s1 := S) in * end.
      assert (C1 : clk_ok s0 s1) by (unfold s1; csame).
      apply begin_cmd_clk in Eb; [|exact Hnt]. destruct Eb as [C2 NA].
      apply settle_clk in H. destruct H as [S1 [S2 [S3 S4]]].
      split.
      * eapply clk_ok_trans; [exact T|]. eapply clk_ok_trans; [exact C1|]. eapply clk_ok_trans; [exact C2|].
        apply clk_ok_same; auto.
      * apply no_atomic. intros w op o n ord Hin. apply S4 in Hin. destruct Hin as [Hin|Hin]; [discriminate|].
        eapply NA; eauto.
    + destruct (exec_instr s0 t i r) as [st1 ev1] eqn:Ee.
      apply exec_instr_clk in Ee; [|exact Htt]. destruct Ee as [C1 P1].
      apply settle_clk in H. destruct H as [S1 [S2 [S3 S4]]].
      split.
      * eapply clk_ok_trans; [exact T|]. eapply clk_ok_trans; [exact C1|]. apply clk_ok_same; auto.
      * intros w op o n ord Hin. apply S4 in Hin. destruct (P1 w op o n ord Hin) as [A B]. split; intro Ho.
        -- rewrite S1. apply A; auto.
        -- rewrite S2. apply B; auto.
  - apply settle_clk in H. destruct H as [S1 [S2 [S3 S4]]]. split.
    + eapply clk_ok_trans; [exact T|]. apply clk_ok_same; auto. intro u. rewrite S2. thr_simpl.
    + apply no_atomic. intros w op o n ord Hin. apply S4 in Hin. destruct Hin as [Hin|[]]; discriminate.
Qed.

Lemma wrun_clk : forall sched st, (1 <= nthr st)%nat -> clk_ok st (fst (wrun st sched)).
Proof.
  induction sched as [|t rest IH]; intros st Hn; cbn [wrun]; [apply clk_ok_refl|].
  destruct (wstep st t) as [st1 ev] eqn:E. destruct (wstep_clk _ _ _ _ Hn E) as [C _].
  assert (Hn1 : (1 <= nthr st1)%nat) by (destruct C as [_ [_ C3]]; lia).
  specialize (IH st1 Hn1). destruct (wrun st1 rest) as [st2 tr]. cbn [fst] in *.
  eapply clk_ok_trans; eauto.
Qed.

(** ** C11_publishes: everything the waking thread did before its leaf [fetch_or] (its clock at that step)
    is below the clock of the thread that later swaps that leaf word - from the swap on, hence at every
    later handler call on that thread.  Needs [ORDERING] to be acquire-release or stronger. *)
Theorem publishes : forall st0 t st1 ev1 w o n ord,
  ordering_ok = true -> (1 <= nthr st0)%nat ->
  wstep st0 t = (st1, ev1) -> In (EAtomic w FetchOr o n ord) ev1 ->
  forall mid u st3 ev3 o' n' ord',
    wstep (fst (wrun st1 mid)) u = (st3, ev3) -> In (EAtomic w Swap o' n' ord') ev3 ->
    (u < nthr (fst (wrun st1 mid)))%nat ->
    forall after, vle (tclk (thr (tick st0 t) t)) (tclk (thr (fst (wrun st3 after)) u)).
Proof.
  intros st0 t st1 ev1 w o n ord Hok Hn H1 I1 mid u st3 ev3 o' n' ord' H3 I3 Hu after.
  unfold ordering_ok in Hok. apply andb_true_iff in Hok. destruct Hok as [Hacq Hrel].
  destruct (wstep_clk _ _ _ _ Hn H1) as [C1 P1].
  destruct (P1 _ _ _ _ _ I1) as [R _]. specialize (R Hrel).
  assert (Hn1 : (1 <= nthr st1)%nat) by (destruct C1 as [_ [_ C]]; lia).
  pose proof (wrun_clk mid st1 Hn1) as C2.
  set (st2 := fst (wrun st1 mid)) in *.
  assert (Hn2 : (1 <= nthr st2)%nat) by (destruct C2 as [_ [_ C]]; lia).
  destruct (wstep_clk _ _ _ _ Hn2 H3) as [C3 P3].
  destruct (P3 _ _ _ _ _ I3) as [_ A]. specialize (A Hacq).
  assert (Hn3 : (1 <= nthr st3)%nat) by (destruct C3 as [_ [_ C]]; lia).
  pose proof (wrun_clk after st3 Hn3) as C4.
  eapply vle_trans; [exact R|]. eapply vle_trans; [apply C2|].
  eapply vle_trans; [|apply C4; destruct C3 as [_ [_ C]]; lia].
  eapply vle_trans; [|exact A].
  (* wclk st2 w <= wclk (tick st2 u) w : tick does not change word clocks *)
  apply vle_refl.
Qed.
