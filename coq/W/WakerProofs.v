(** * Layer W: theorems about the wake bitmap (properties C11, C12) for ALL schedules.

    Everything here is a consequence of [reachable_inv] (WakerRefine.v): every state reachable by
    [wrun] from [winit], for any scripts, any number of threads and wakers and any schedule,
    satisfies the coverage invariant [CInv]. *)
From Coq Require Import ZArith List Bool Arith Lia.
From Stk Require Import Lib.U Gen.SrcWaker W.Waker W.WakerArith W.WakerCore W.WakerSlab W.WakerPres W.WakerRefine.
Import ListNotations.
Local Open Scope Z_scope.

(** ** Vocabulary on model states *)
Definition climbing (st : wstate) (t : tid) (k : climb) : Prop := exists r, tcont (thr st t) = IClimb k :: r.
Definition mcont (st : wstate) : list instr := tcont (thr st main).
Definition pend_top (st : wstate) : Prop := In ITopSwap (mcont st).
Definition pend_bm (st : wstate) (bm : Z) : Prop := exists l, In (IBms l) (mcont st) /\ In bm l.
Definition pend_leaf (st : wstate) (bm a : Z) : Prop := exists l, In (ILeaves bm l) (mcont st) /\ In a l.
Definition pend_bit (st : wstate) (x : Z) : Prop :=
  In x (tacc (thr st main)) \/ exists l, In (IHandlers l) (mcont st) /\ In x l.
Definition hpend (st : wstate) (h : hkind) (del : bool) : Prop := exists i, In i (mcont st) /\ hstart i h del.
(** the leaf bit of handler slot [x] is set *)
Definition slot_bit (st : wstate) (x : Z) : Prop :=
  Z.testbit (leaf st (x / 4096) ((x mod 4096) / 64)) (x mod 64) = true.

(** a wake-up is owed to the handler [h] *)
Definition owed (st : wstate) (h : hkind) : Prop := gnew st h <> None \/ gcol st h <> None.

(** ** The coverage invariant (DESIGN.md section 6, C11), in every reachable state *)
Record coverage (st : wstate) : Prop := {
  cov_owed_new : forall h, gnew st h <> None ->
      hpend st h true \/ exists x, slab_get (sl st) x = Some h /\ slot_bit st x;
  cov_owed_col : forall h, gcol st h <> None ->
      (exists d, hpend st h d) \/ exists x, slab_get (sl st) x = Some h /\ pend_bit st x;
  cov_leaf : forall bm a, leaf st bm a <> 0 ->
      Z.testbit (summ st bm) a = true \/ pend_leaf st bm a \/ exists t, climbing st t (KSum bm a);
  cov_summ : forall bm, summ st bm <> 0 ->
      Z.testbit (top st) (bm mod 64) = true \/ pend_bm st bm \/ exists t, climbing st t (KTop bm);
  cov_top : top st <> 0 ->
      gnotified st = true \/ pend_top st \/ exists t, climbing st t KCb }.

Lemma osome_true : forall A (o : option A), osome o = true <-> o <> None.
Proof. intros A [x|]; cbn; split; intro H; try discriminate; try congruence; auto. Qed.

Theorem coverage_invariant : forall st, reachable st -> coverage st.
Proof.
  intros st R. pose proof (reachable_inv st R) as I. constructor.
  - intros h H. apply osome_true in H. exact (i_new _ I h H).
  - intros h H. apply osome_true in H. exact (i_col _ I h H).
  - exact (i_leaf _ I).
  - exact (i_summ _ I).
  - exact (i_top _ I).
Qed.

(** ** No wake-up is stranded *)
(** no [BitMap::set] in flight after its leaf step, main thread outside [poll_wake] and every
    notification served *)
Definition quiescent (st : wstate) : Prop :=
  (forall t k, ~ climbing st t k) /\ mcont st = [] /\ gnotified st = false.

Theorem not_stranded : forall st, reachable st -> quiescent st -> forall h, ~ owed st h.
Proof.
  intros st R [Hnc [Hm Hn]] h.
  pose proof (reachable_inv st R) as I.
  assert (Htop : top st = 0).
  { destruct (Z.eq_dec (top st) 0) as [|Ht]; auto. exfalso.
    destruct (i_top _ I Ht) as [A|[A|[t A]]].
    - cbn in A. congruence.
    - unfold cpend_top in A. cbn in A. unfold mcont in Hm. rewrite Hm in A. destruct A.
    - eapply Hnc. exact A. }
  assert (Hsumm : forall bm, summ st bm = 0).
  { intro bm. destruct (Z.eq_dec (summ st bm) 0) as [|Hs]; auto. exfalso.
    destruct (i_summ _ I bm Hs) as [A|[[l [A _]]|[t A]]].
    - cbn in A. rewrite Htop, Z.bits_0 in A. discriminate.
    - cbn in A. unfold mcont in Hm. rewrite Hm in A. destruct A.
    - eapply Hnc. exact A. }
  assert (Hleaf : forall bm a, leaf st bm a = 0).
  { intros bm a. destruct (Z.eq_dec (leaf st bm a) 0) as [|Hl]; auto. exfalso.
    destruct (i_leaf _ I bm a Hl) as [A|[[l [A _]]|[t A]]].
    - cbn in A. rewrite Hsumm, Z.bits_0 in A. discriminate.
    - cbn in A. unfold mcont in Hm. rewrite Hm in A. destruct A.
    - eapply Hnc. exact A. }
  assert (Hacc : tacc (thr st main) = []).
  { destruct (tacc (thr st main)) eqn:E; auto. exfalso.
    assert (A : c_acc (core st) <> []) by (cbn; congruence).
    apply (i_acc _ I) in A. cbn in A. unfold mcont in Hm. rewrite Hm in A. destruct A. }
  intros [H|H]; apply osome_true in H.
  - destruct (i_new _ I h H) as [[i [A _]]|[x [_ A]]].
    + cbn in A. unfold mcont in Hm. rewrite Hm in A. destruct A.
    + unfold bitset in A. cbn in A. rewrite Hleaf, Z.bits_0 in A. discriminate.
  - destruct (i_col _ I h H) as [[d [i [A _]]]|[x [_ [A|[l [A _]]]]]].
    + cbn in A. unfold mcont in Hm. rewrite Hm in A. destruct A.
    + cbn in A. rewrite Hacc in A. destruct A.
    + cbn in A. unfold mcont in Hm. rewrite Hm in A. destruct A.
Qed.

(** the translated [ORDERING] constant is at least acquire-release *)
Lemma ordering_ok_true : ordering_ok = true.
Proof. reflexivity. Qed.

(** ** A boolean version of [quiescent] (used by examples and monitors) *)
Definition head_is_climb (k : list instr) : bool := match k with IClimb _ :: _ => true | _ => false end.
Definition quiescentb (st : wstate) : bool :=
  forallb (fun t => negb (head_is_climb (tcont (thr st t)))) (seq 0 (nthr st)) &&
  match mcont st with [] => true | _ => false end && negb (gnotified st).

Lemma reachable_minv : forall st, reachable st -> MInv st.
Proof. intros st [scr [sched ->]]. apply wrun_inv. apply MInv_init. Qed.

Lemma quiescentb_sound : forall st, reachable st -> quiescentb st = true -> quiescent st.
Proof.
  intros st R H. destruct (reachable_minv st R) as [_ [[_ P] _]].
  unfold quiescentb in H. apply andb_true_iff in H. destruct H as [H H3].
  apply andb_true_iff in H. destruct H as [H1 H2].
  split; [|split].
  - intros t k [r Hc]. destruct (Nat.lt_ge_cases t (nthr st)) as [Hlt|Hge].
    + rewrite forallb_forall in H1. specialize (H1 t). rewrite Hc in H1. cbn in H1.
      assert (In t (seq 0 (nthr st))) by (apply in_seq; lia). apply H1 in H. discriminate.
    + destruct (P t Hge) as [Pc _]. congruence.
  - destruct (mcont st); [reflexivity|discriminate].
  - destruct (gnotified st); [discriminate|reflexivity].
Qed.

(** ** Example: a run in which a wake-up was delivered and the final state is quiescent *)
Definition ex_scripts (t : tid) : list cmd :=
  match t with
  | O => [CNew 1; CSpawn; CPoll; CJoin; CPoll]
  | S O => [CWake 1]
  | _ => []
  end.
Definition ex_sched : list tid :=
  [0; 0; 0; 1; 1; 0; 0; 1; 1; 1; 1; 0; 0; 0; 0; 0; 0]%nat.

Example example_reachable_quiescent :
  let st := fst (wrun (winit ex_scripts) ex_sched) in
  reachable st /\ quiescent st /\
  In (EHandler (HPlain 1) false) (flat_map snd (snd (wrun (winit ex_scripts) ex_sched))).
Proof.
  cbn zeta. split; [exists ex_scripts, ex_sched; reflexivity|]. split.
  - apply quiescentb_sound; [exists ex_scripts, ex_sched; reflexivity|]. vm_compute. reflexivity.
  - vm_compute. tauto.
Qed.

(** ** C12: handler slots *)
(** [del] refuses reserved slots (generated guard) and vacant slots *)
Theorem del_guard : forall s b h s',
  wh_del s b = Some (h, s') -> b mod 4096 <> 0 /\ slab_get s b = Some h /\ s' = slab_remove s b.
Proof. exact wh_del_some. Qed.

(** the slab / bitmap structure in every reachable state: reserved slots (and only they) hold the
    drop handler, the free list is a duplicate-free chain through exactly the vacant entries, a bitmap
    exists exactly for the ranges of 4096 keys that have been entered - one per range - with the right base *)
Theorem slots_invariant : forall st, reachable st -> SInv (core st).
Proof. intros st R. exact (i_slab _ (reachable_inv st R)). Qed.

(** [add]: the new handler lands on a fresh non-reserved slot of the bitmap the Waker points to; no
    existing handler moves or disappears; only the reserved handler may appear besides it *)
Theorem add_slots : forall st h st1 wi,
  reachable st -> h <> HReserved -> wh_add st h = Some (st1, wi) ->
  (0 <= wbit wi < 4294967296 /\ wbit wi mod 4096 <> 0) /\ wbm wi = wbit wi / 4096 /\
  slab_get (sl st) (wbit wi) = None /\ slab_get (sl st1) (wbit wi) = Some h /\
  (forall x h', slab_get (sl st) x = Some h' -> slab_get (sl st1) x = Some h') /\
  (forall x h', slab_get (sl st1) x = Some h' -> slab_get (sl st) x = Some h' \/ (x = wbit wi /\ h' = h) \/ h' = HReserved).
Proof.
  intros st h st1 wi R Hh H. pose proof (slots_invariant st R) as S.
  destruct (wh_add_core st h st1 wi H) as [c1 [A [B _]]].
  pose proof (c_add_spec (core st) h c1 wi S Hh A) as P.
  assert (Es : c_sl c1 = sl st1) by (destruct B; auto).
  destruct P as [P1 P2 P3 P4 P5 P6 P7 P8]. rewrite Es in *. cbn [core c_sl] in *.
  repeat split; auto; try apply P1.
Qed.

(** a deleted handler is not the reserved one, and its slot is reused only through the free list *)
Theorem del_not_reserved : forall st b h s',
  reachable st -> wh_del (sl st) b = Some (h, s') -> h <> HReserved.
Proof.
  intros st b h s' R H. apply wh_del_some in H. destruct H as [Hb [Hg _]].
  eapply (occ_not_reserved (core st)); eauto. apply slots_invariant; auto.
Qed.
