(** * Layer W: the Wakers stored in the registry, in channels and in piped threads are well formed.

    [wfw st wi]: the bitmap recorded in the Waker is the bitmap of the range of its slot, and it exists.
    Consequence ([climb_start_ok]): [Waker::wake] of a stored Waker never hits the index panic; it starts with
    the leaf [fetch_or] of exactly the bit of its slot. *)
From Coq Require Import ZArith List Bool Arith Lia.
From Stk Require Import Lib.U Gen.SrcWaker W.Waker W.WakerArith W.WakerCore W.WakerSlab W.WakerPres W.WakerRefine W.WakerSlot.
Import ListNotations.
Local Open Scope Z_scope.

Definition wfw (st : wstate) (wi : winfo) : Prop :=
  0 <= wbit wi /\ wbm wi = wbit wi / 4096 /\ registered st (wbm wi) = true.

Record WInv (st : wstate) : Prop := {
  ww_reg : forall w wi, wreg st w = Some wi -> wfw st wi;
  ww_ch : forall c, cexists (chs st c) = true -> wfw st (cw (chs st c));
  ww_pp : forall p, pexists (pps st p) = true -> wfw st (pw (pps st p)) }.

Lemma wfw_mono : forall st st' wi,
  (forall bm, registered st bm = true -> registered st' bm = true) -> wfw st wi -> wfw st' wi.
Proof. intros st st' wi Hr [A [B C]]. repeat split; auto. Qed.

Lemma ww_frame : forall st st',
  WInv st ->
  (forall bm, registered st bm = true -> registered st' bm = true) ->
  (forall w wi, wreg st' w = Some wi -> wreg st w = Some wi) ->
  (forall c, cexists (chs st' c) = cexists (chs st c) /\ cw (chs st' c) = cw (chs st c)) ->
  (forall p, pexists (pps st' p) = pexists (pps st p) /\ pw (pps st' p) = pw (pps st p)) ->
  WInv st'.
Proof.
  intros st st' W Hr Hw Hc Hp. constructor.
  - intros w wi H. apply (wfw_mono st); auto. apply (ww_reg st W w). auto.
  - intros c H. destruct (Hc c) as [A B]. rewrite B. apply (wfw_mono st); auto. apply (ww_ch st W). congruence.
  - intros p H. destruct (Hp p) as [A B]. rewrite B. apply (wfw_mono st); auto. apply (ww_pp st W). congruence.
Qed.

Lemma ww_eq : forall st st',
  vlen st' = vlen st -> wreg st' = wreg st -> chs st' = chs st -> pps st' = pps st -> WInv st -> WInv st'.
Proof.
  intros st st' Hv Hw Hc Hp W. apply (ww_frame st); auto.
  - intros bm. unfold registered. rewrite Hv. auto.
  - intros w wi. rewrite Hw. auto.
  - intro c. rewrite Hc. auto.
  - intro p. rewrite Hp. auto.
Qed.

Ltac ww_same st := apply (ww_frame st); auto; intros; cbn in *; unfold updZ in *; cbn in *;
  repeat match goal with
         | |- context [?a =? ?b] => destruct (Z.eqb_spec a b); subst
         | H : context [?a =? ?b] |- _ => destruct (Z.eqb_spec a b); subst
         end; cbn in *; auto; try congruence; try (repeat split; auto; congruence).

Ltac ww_refl W := (eapply ww_eq; [| | | |exact W]; reflexivity).

Lemma exec_lact_ww : forall st t a r st' ev, WInv st -> exec_lact st t a r = (st', ev) -> WInv st'.
Proof.
  intros st t a r st' ev W H.
  destruct a; cbn [exec_lact] in H; unfold ghost_handler in H; destr_all H; inversion H; subst; clear H;
    try (ww_same st; fail).
Qed.

Lemma exec_uact_ww : forall st t a r st' ev, WInv st -> exec_uact st t a r = (st', ev) -> WInv st'.
Proof.
  intros st t a r st' ev W H.
  destruct a; cbn [exec_uact] in H; inversion H; subst; clear H; ww_same st.
Qed.

Lemma notify_fold_pps : forall us st,
  pps (fold_left (fun s u => upd_th s u (set_twaiting (th s u) false)) us st) = pps st.
Proof.
  induction us as [|v us IH]; intro st; [reflexivity|]. cbn [fold_left]. rewrite IH. reflexivity.
Qed.

Lemma exec_instr_ww : forall st t i r st' ev, WInv st -> exec_instr st t i r = (st', ev) -> WInv st'.
Proof.
  intros st t i r st' ev W H. destruct i; cbn [exec_instr] in H.
  - destruct k; cbn [exec_climb] in H; destr_all H; inversion H; subst; clear H; ww_refl W.
  - inversion H; subst; clear H. ww_refl W.
  - destruct bms; inversion H; subst; clear H; [exact W|]. ww_refl W.
  - destruct ls; [inversion H; subst; exact W|].
    destruct (collect (bmbase st bm) z (leaf st bm z)) as [bits ok].
    match type of H with context [ghost_collect ?S bits] =>
      destruct (ghost_collect_reg bits S) as [A [B C]];
      destruct (ghost_collect_sl bits S) as [_ [_ [_ [_ [_ [_ [D _]]]]]]]; remember (ghost_collect S bits) as s3 eqn:Es3 end.
    inversion H; subst st' ev; clear H. eapply ww_eq; [| | | |exact W]; cbn; [rewrite A|rewrite B|rewrite C|rewrite D]; reflexivity.
  - inversion H; subst; exact W.
  - inversion H; subst; exact W.
  - inversion H; subst; exact W.
  - match type of H with context [exec_lact ?S t ?aa ?rr] => destruct (exec_lact S t aa rr) as [s2 e2] eqn:E end.
    inversion H; subst; clear H. eapply exec_lact_ww; [|exact E]. ww_refl W.
  - destruct (exec_uact st t a r) as [s1 e1] eqn:E. inversion H; subst; clear H.
    apply exec_uact_ww in E; auto. ww_refl E.
  - inversion H; subst; clear H. ww_refl W.
  - match type of H with context [exec_lact ?S t ?aa ?rr] => destruct (exec_lact S t aa rr) as [s2 e2] eqn:E end.
    inversion H; subst; clear H. eapply exec_lact_ww; [|exact E]. ww_refl W.
  - inversion H; subst st' ev; clear H.
    match goal with |- WInv (set_cont (fold_left ?f ?us st) t r) =>
      destruct (notify_fold_reg us st) as [A [B C]]; pose proof (notify_fold_pps us st) as D end.
    cbn zeta in *. eapply ww_eq; [| | | |exact W]; cbn; auto.
  - unfold ghost_handler in H. inversion H; subst; clear H. destruct del; ww_refl W.
  - inversion H; subst; clear H. ww_refl W.
  - inversion H; subst; clear H. ww_refl W.
Qed.

Lemma settle_ww : forall st t ev done st' ev', WInv st -> settle st t ev done = (st', ev') -> WInv st'.
Proof.
  intros st t ev done st' ev' W H. unfold settle in H.
  destruct (norm (2 * (cont_size (tcont (th st t)) + length (tacc (th st t))) + 2) (sl st) (tacc (th st t)) (tcont (th st t)) ev)
    as [[[s1 acc1] k1] ev1] eqn:En.
  cbn zeta in H.
  match type of H with (let '(st2, ev2) := ?E in _) = _ => destruct E as [st2 ev2] eqn:E2 end.
  assert (W2 : WInv st2).
  { destruct done as [v|].
    - inversion E2; subst. ww_refl W.
    - destruct k1.
      + destruct (tcur _) as [c|]; inversion E2; subst.
        * destruct c; ww_refl W.
        * ww_refl W.
      + inversion E2; subst. ww_refl W. }
  destruct (tcont (th st2 t)); [|inversion H; subst; auto].
  destruct (tscript (th st2 t)); [|inversion H; subst; auto].
  destruct (tcur (th st2 t)); [inversion H; subst; auto|].
  destruct (tfinal (th st2 t)); inversion H; subst; auto. ww_refl W2.
Qed.

Lemma wh_add_ww : forall st h st1 wi,
  CInv (core st) -> h <> HReserved -> wh_add st h = Some (st1, wi) -> WInv st ->
  WInv st1 /\ wfw st1 wi.
Proof.
  intros st h st1 wi I Hh E W. pose proof (i_slab _ I) as S.
  destruct (wh_add_core _ _ _ _ E) as [c1 [A [B [C1 [C2 [C3 [C4 [C5 [C6 [C7 C8]]]]]]]]]].
  destruct (wh_add_reg st h st1 wi I Hh E) as [R1 R2].
  pose proof (c_add_spec (core st) h c1 wi S Hh A) as P.
  split.
  - apply (ww_frame st); auto.
    + intros w wi0. rewrite C5. auto.
    + intro c. rewrite C7. auto.
    + intro p. rewrite C8. auto.
  - destruct (ap_bit _ _ _ _ P) as [[Hb _] _]. split; [exact Hb|]. split; [exact (ap_bm _ _ _ _ P)|exact R2].
Qed.

Lemma fill_loop_ww : forall n st ev st' ev',
  CInv (core st) -> wfi st -> WInv st -> fill_loop n st ev = (st', ev') -> WInv st'.
Proof.
  induction n as [|n IH]; intros st ev st' ev' I Wf W H; cbn [fill_loop] in H.
  - inversion H; subst. exact W.
  - destruct (wh_add st (HPlain (1000000 + nfill st))) as [[st1 wi]|] eqn:E; [|inversion H; subst; exact W].
    destruct (wh_add_ww st (HPlain (1000000 + nfill st)) st1 wi I ltac:(discriminate) E W) as [W1 _].
    destruct (wh_add_core _ _ _ _ E) as [c1 [A [B [C1 [C2 [C3 [C4 [C5 [C6 [C7 C8]]]]]]]]]].
    assert (I1 : CInv (core st1)) by (eapply (add_model st _ st1 wi I); [|exact E]; discriminate).
    eapply IH; [| | |exact H].
    + eapply CInv_ceq; [|exact I1]. same_core.
    + destruct (wh_add_reg st (HPlain (1000000 + nfill st)) st1 wi I ltac:(discriminate) E) as [R _].
      destruct Wf as [W1' [W2 W3]]. split; [|split].
      * intros w0 wi0. cbn. rewrite C5. intro E0. apply R. eapply W1'; eauto.
      * intros c0. cbn. rewrite C7. intro E0. apply R. apply W2; auto.
      * intros c0. cbn. rewrite C7. apply W3.
    + ww_refl W1.
Qed.

Lemma begin_cmd_ww : forall st t c st' ev done,
  CInv (core st) -> wfi st -> WInv st -> begin_cmd st t c = (st', ev, done) -> WInv st'.
Proof.
  intros st t c st' ev done I Wf W H.
  destruct c; cbn [begin_cmd] in H.
  - destruct (wreg st w) as [wi|]; [|inversion H; subst; auto].
    destruct (climb_start st wi (Some (HPlain w))) as [i|] eqn:E; inversion H; subst; clear H; [|auto]. ww_refl W.
  - destruct (wreg st w) as [wi|] eqn:Ew; [|inversion H; subst; auto].
    destruct (wbusy st w); inversion H; subst; clear H; ww_same st; discriminate.
  - destruct (Waker.creg (chs st c)); inversion H; subst; clear H; [|auto]. ww_refl W.
  - destruct (Waker.creg (chs st c)); inversion H; subst; clear H; [|auto]. ww_refl W.
  - destruct (negb (is_main t) || wused st w || (1000000 <=? w) || (w <? 0)); [inversion H; subst; auto|].
    destruct (wh_add st (HPlain w)) as [[st1 wi]|] eqn:E; inversion H; subst; clear H; [|auto].
    destruct (wh_add_ww st (HPlain w) st1 wi I ltac:(discriminate) E W) as [W1 F1].
    constructor.
    + intros w0 wi0. cbn. unfold updZ. destruct (Z.eqb_spec w0 w); subst.
      * intro E0. inversion E0; subst. exact F1.
      * apply (ww_reg st1 W1).
    + apply (ww_ch st1 W1).
    + apply (ww_pp st1 W1).
  - destruct (negb (is_main t)); [inversion H; subst; auto|].
    destruct (fill_loop (Z.to_nat n) st []) as [st1 ev1] eqn:E. inversion H; subst; clear H.
    eapply fill_loop_ww; eauto.
  - destruct (negb (is_main t)); inversion H; subst; clear H; [auto|]. ww_refl W.
  - destruct (negb (is_main t)); [inversion H; subst; auto|].
    destruct (gnotified st); inversion H; subst; clear H; [|auto]. ww_refl W.
  - destruct (negb (is_main t)); inversion H; subst; clear H; [auto|]. ww_refl W.
  - destruct (negb (is_main t)); inversion H; subst; clear H; [auto|]. ww_refl W.
  - destruct (negb (is_main t)); inversion H; subst; clear H; [auto|]. ww_refl W.
  - destruct (negb (is_main t) || cexists (chs st c)) eqn:Eg; [inversion H; subst; auto|].
    destruct (wh_add st (HChan c)) as [[st1 wi]|] eqn:E; inversion H; subst; clear H; [|auto].
    destruct (wh_add_ww st (HChan c) st1 wi I ltac:(discriminate) E W) as [W1 F1].
    constructor.
    + apply (ww_reg st1 W1).
    + intros c0. cbn. unfold updZ. destruct (Z.eqb_spec c0 c); subst; cbn; [intros _; exact F1|]. apply (ww_ch st1 W1).
    + apply (ww_pp st1 W1).
  - destruct (negb (is_main t) || negb (cguard (chs st c))); inversion H; subst; clear H; [auto|]. ww_same st.
  - destruct (negb (is_main t) || pexists (pps st p)); [inversion H; subst; auto|].
    destruct (wh_add st (HPipe p)) as [[st1 wi]|] eqn:E; inversion H; subst; clear H; [|auto].
    destruct (wh_add_ww st (HPipe p) st1 wi I ltac:(discriminate) E W) as [W1 F1].
    constructor.
    + apply (ww_reg st1 W1).
    + apply (ww_ch st1 W1).
    + intros q. cbn. unfold updZ. destruct (Z.eqb_spec q p); subst; cbn; [intros _; exact F1|]. apply (ww_pp st1 W1).
  - destruct (negb (is_main t) || negb (phandle (pps st p))); inversion H; subst; clear H; [auto|]. ww_refl W.
  - destruct (negb (is_main t) || negb (phandle (pps st p))); inversion H; subst; clear H; [auto|]. ww_same st.
  - destruct (tpipe (th st t) <? 0); inversion H; subst; clear H; [auto|]. ww_refl W.
  - destruct (tpipe (th st t) <? 0); inversion H; subst; clear H; [auto|]. ww_refl W.
  - destruct (tpipe (th st t) <? 0); inversion H; subst; clear H; [auto|]. ww_refl W.
  - destruct (tpipe (th st t) <? 0); inversion H; subst; clear H; [auto|]. ww_refl W.
Qed.

Theorem wstep_ww : forall st t st' ev, MInv st -> WInv st -> wstep st t = (st', ev) -> WInv st'.
Proof.
  intros st t st' ev [I [P Wf]] W H. unfold wstep in H.
  destruct (enabled st t) eqn:En; cbn [negb] in H; [|inversion H; subst; exact W].
  assert (Ht : (t < nthr st)%nat).
  { unfold enabled in En. apply andb_true_iff in En. destruct En as [En _]. apply Nat.ltb_lt in En. exact En. }
  assert (It : CInv (core (tick st t))) by (eapply CInv_ceq; [|exact I]; unfold tick; same_core).
  assert (Wt : wfi (tick st t)) by (eapply wfi_eq; [| | |exact Wf]; reflexivity).
  assert (Wwt : WInv (tick st t)) by (unfold tick; ww_refl W).
  set (s0 := tick st t) in *. clearbody s0. clear En.
  destruct (tstarted (th s0 t)); cbn [negb] in H.
  - destruct (tcont (th s0 t)) as [|i r] eqn:Ec.
    + destruct (tscript (th s0 t)) as [|c0 cs] eqn:Es; [inversion H; subst; exact W|].
      match type of H with context [begin_cmd ?S0 t ?cc] =>
        destruct (begin_cmd S0 t cc) as [[st2 ev0] done] eqn:Eb; set (s1 := S0) in * end.
      assert (I1 : CInv (core s1)) by (eapply CInv_ceq; [|exact It]; unfold s1; same_core).
      assert (W1 : wfi s1) by (eapply wfi_eq; [| | |exact Wt]; reflexivity).
      assert (Ww1 : WInv s1) by (unfold s1; ww_refl Wwt).
      eapply settle_ww; [|exact H]. exact (begin_cmd_ww s1 t c0 st2 ev0 done I1 W1 Ww1 Eb).
    + destruct (exec_instr s0 t i r) as [st1 ev1] eqn:Ee.
      eapply settle_ww; [|exact H]. exact (exec_instr_ww s0 t i r st1 ev1 Wwt Ee).
  - eapply settle_ww; [|exact H]. ww_refl Wwt.
Qed.

Lemma WInv_init : forall scr, WInv (winit scr).
Proof. intro scr. constructor; cbn; intros; discriminate. Qed.

Lemma wrun_ww : forall sched st, MInv st -> WInv st -> WInv (fst (wrun st sched)).
Proof.
  induction sched as [|t rest IH]; intros st M S; cbn [wrun]; auto.
  destruct (wstep st t) as [st1 ev] eqn:E.
  specialize (IH st1 (wstep_inv _ _ _ _ M E) (wstep_ww _ _ _ _ M S E)).
  destruct (wrun st1 rest) as [st2 tr]. exact IH.
Qed.

Theorem reachable_ww : forall st, reachable st -> WInv st.
Proof. intros st [scr [sched ->]]. apply wrun_ww; [apply MInv_init|apply WInv_init]. Qed.

(** ** [wake] of a well-formed Waker starts with the leaf [fetch_or] of the bit of its slot *)
Lemma climb_start_ok : forall st wi who,
  CInv (core st) -> wfw st wi ->
  exists a b, climb_start st wi who = Some (IClimb (KLeaf (wbm wi) a b who)) /\
              0 <= a < 64 /\ 0 <= b < 64 /\ 4096 * wbm wi + 64 * a + b = wbit wi.
Proof.
  intros st wi who I [Hb [Hm Hr]]. pose proof (i_slab _ I) as S.
  pose proof (s_base _ S (wbm wi) Hr) as Hbase. cbn [core c_base] in Hbase.
  unfold climb_start, climb_at. rewrite Hbase.
  assert (Hle : 4096 * wbm wi <= wbit wi) by (rewrite Hm; apply Z.mul_div_le; lia).
  assert (Hlt : wbit wi < 4096 * wbm wi + 4096).
  { rewrite Hm. pose proof (Z.mul_succ_div_gt (wbit wi) 4096 ltac:(lia)). lia. }
  assert (H0 : 0 <= 4096 * wbm wi) by (rewrite Hm; pose proof (Z.div_pos (wbit wi) 4096 Hb ltac:(lia)); lia).
  rewrite bitmap_split_spec by lia.
  set (d := wbit wi - 4096 * wbm wi) in *.
  assert (Hd : 0 <= d < 4096) by (unfold d; lia).
  exists (d / 64), (d mod 64).
  rewrite usize_bits.
  assert (Ha : 0 <= d / 64 < 64) by (split; [apply Z.div_pos; lia|apply Z.div_lt_upper_bound; lia]).
  replace (d / 64 <? 64) with true by (symmetry; apply Z.ltb_lt; lia).
  rewrite Hr. cbn [andb]. split; [reflexivity|]. split; [exact Ha|]. split; [apply Z.mod_pos_bound; lia|].
  pose proof (Z.div_mod d 64 ltac:(lia)). unfold d in *. lia.
Qed.
