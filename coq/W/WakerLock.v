(** * Layer W: the mutexes are used as mutexes.

    A thread "holds" [m] when its continuation contains the matching [IUnlock m] (or the [ICvWait] that will
    release it).  [LKInv]: a holder is the owner, nobody holds twice, lock instructions name the mutex
    their action works on.  Used by the channel and piped-thread invariants (critical sections). *)
From Coq Require Import ZArith List Bool Arith Lia.
From Stk Require Import Lib.U Gen.SrcWaker W.Waker W.WakerArith W.WakerCore W.WakerSlab W.WakerPres W.WakerRefine W.WakerProofs W.WakerGhost.
Import ListNotations.
Local Open Scope Z_scope.

Definition lact_mtx (a : lact) : mtx :=
  match a with
  | LPush _ _ _ | LTake => MDL
  | LChInit c | LChSend c _ | LChClosed c | LChClose c | LChHandler c _ => MCh c
  | LPqHandler p _ | LPqSend p _ | LPqCancelSet p | LPqRecv p | LPqLSend p _ | LPqCancelGet p | LPqPanic p => MPq p
  end.

Definition holdb (m : mtx) (i : instr) : bool :=
  match i with
  | IUnlock m' _ => mtx_eqb m' m
  | ICvWait p => mtx_eqb (MPq p) m
  | _ => false
  end.
Definition nhold (k : list instr) (m : mtx) : nat := length (filter (holdb m) k).

Definition lockwf (i : instr) : Prop := match i with ILock m a => m = lact_mtx a | _ => True end.

Record LKInv (st : wstate) : Prop := {
  lk_own : forall t m, (0 < nhold (tcont (thr st t)) m)%nat -> owner st m = Some t;
  lk_nd : forall t m, (nhold (tcont (thr st t)) m <= 1)%nat;
  lk_fin : forall t m, nhold (tfinal (thr st t)) m = O;
  lk_wf : forall t i, In i (tcont (thr st t) ++ tfinal (thr st t)) -> lockwf i }.

Lemma mtx_eqb_eq : forall x y, mtx_eqb x y = true <-> x = y.
Proof.
  destruct x, y; simpl; split; intro H; try discriminate; try reflexivity;
    try (apply Z.eqb_eq in H; subst; reflexivity); try (inversion H; subst; apply Z.eqb_refl).
Qed.
Lemma mtx_eqb_refl : forall x, mtx_eqb x x = true.
Proof. intro x. apply mtx_eqb_eq. reflexivity. Qed.
Lemma mtx_eqb_neq : forall x y, x <> y -> mtx_eqb x y = false.
Proof. intros x y H. destruct (mtx_eqb x y) eqn:E; auto. apply mtx_eqb_eq in E. contradiction. Qed.
Lemma updM_same : forall A (f : mtx -> A) k v, updM f k v k = v.
Proof. intros. unfold updM. rewrite mtx_eqb_refl. reflexivity. Qed.
Lemma updM_other : forall A (f : mtx -> A) k v x, x <> k -> updM f k v x = f x.
Proof. intros. unfold updM. rewrite mtx_eqb_neq; auto. Qed.

Lemma nhold_app : forall a b m, nhold (a ++ b) m = (nhold a m + nhold b m)%nat.
Proof. intros. unfold nhold. rewrite filter_app, app_length. reflexivity. Qed.
Lemma nhold_cons : forall i k m, nhold (i :: k) m = ((if holdb m i then 1 else 0) + nhold k m)%nat.
Proof. intros. unfold nhold. simpl. destruct (holdb m i); reflexivity. Qed.

(** what a lock action leaves in the continuation *)
Definition lact_res_ok (a : lact) (res : list instr) : Prop :=
  nhold res (lact_mtx a) = 1%nat /\ (forall m', m' <> lact_mtx a -> nhold res m' = O) /\
  (forall i, In i res -> lockwf i).

Lemma climb_at_climb : forall st bit bm w i, climb_at st bit bm w = Some i -> exists k, i = IClimb k.
Proof.
  intros st bit bm w i H. unfold climb_at in H.
  destruct (bitmap_split bit (bmbase st bm)) as [[a b]|]; [|discriminate].
  destruct ((a <? USIZE_BITS) && registered st bm); inversion H; eauto.
Qed.

Ltac nh0 :=
  let m' := fresh "m'" in let Hm := fresh "Hm" in
  intros m' Hm; destruct m' as [|?|?]; cbn; try reflexivity; try congruence;
  repeat match goal with |- context [?a =? ?b] => destruct (Z.eqb_spec a b); subst end;
  try reflexivity; try congruence.

Ltac res_ok :=
  unfold lact_res_ok, nhold; cbn; rewrite ?Z.eqb_refl; cbn;
  split; [reflexivity|split; [nh0|intros ? Hi; cbn in Hi; repeat (destruct Hi as [<-|Hi]); try contradiction; cbn; auto]].

Lemma exec_lact_lk : forall st t a r st' ev,
  exec_lact st t a r = (st', ev) ->
  owner st' = owner st /\
  (forall u, u <> t -> thr st' u = thr st u) /\ tfinal (thr st' t) = tfinal (thr st t) /\
  exists res, tcont (thr st' t) = res ++ r /\ lact_res_ok a res.
Proof.
  intros st t a r st' ev H.
  destruct a; cbn [exec_lact] in H; unfold ghost_handler in H; destr_all H;
    repeat match goal with
           | E : climb_reserved _ _ = Some _ |- _ => apply climb_at_climb in E; destruct E as [? ->]
           | E : climb_start _ _ _ = Some _ |- _ => apply climb_at_climb in E; destruct E as [? ->]
           end;
    inversion H; subst; clear H;
    (split; [reflexivity|split; [thr_simpl|split; [thr_simpl|]]]);
    cbn -[Nat.eqb]; unfold updN, th; rewrite Nat.eqb_refl; cbn -[Nat.eqb].
  all: first [ eexists (cons _ nil); split; [reflexivity|]; res_ok; fail
             | eexists (cons _ (cons _ nil)); split; [reflexivity|]; res_ok; fail
             | idtac ].
  destruct (climb_start st (pw (pps st p)) (Some (HPipe p))) as [i|] eqn:E; cbn [olist app].
  - apply climb_at_climb in E. destruct E as [k ->]. eexists (cons _ (cons _ nil)); split; [reflexivity|]; res_ok.
  - eexists (cons _ nil); split; [reflexivity|]; res_ok.
Qed.

Lemma mtx_eq_dec : forall x y : mtx, {x = y} + {x <> y}.
Proof. decide equality; apply Z.eq_dec. Qed.

Definition noholds (k : list instr) : Prop := forall m, nhold k m = O.
Definition lockwfs (k : list instr) : Prop := forall i, In i k -> lockwf i.

Lemma noholds_nil : noholds [].
Proof. intro m. reflexivity. Qed.

(** thread [t] replaces the head [i] of its continuation by [new]; nothing else that matters changes *)
Section LkStep.
  Variables (st st' : wstate) (t : tid) (pre r new : list instr).
  Hypothesis L : LKInv st.
  Hypothesis Hc : tcont (thr st t) = pre ++ r.
  Hypothesis Hc' : tcont (thr st' t) = new ++ r.
  Hypothesis Ho : forall u, u <> t -> tcont (thr st' u) = tcont (thr st u) /\ tfinal (thr st' u) = tfinal (thr st u).
  Hypothesis Hf : tfinal (thr st' t) = tfinal (thr st t).
  Hypothesis Hw : lockwfs new.

  Lemma lk_wf' : forall u i, In i (tcont (thr st' u) ++ tfinal (thr st' u)) -> lockwf i.
  Proof.
    intros u i Hi. destruct (Nat.eq_dec u t) as [->|Hn].
    - rewrite Hc', Hf in Hi. apply in_app_or in Hi. destruct Hi as [Hi|Hi].
      + apply in_app_or in Hi. destruct Hi as [Hi|Hi]; [apply Hw; auto|].
        apply (lk_wf st L t). rewrite Hc. apply in_or_app. left. apply in_or_app. auto.
      + apply (lk_wf st L t). apply in_or_app. auto.
    - destruct (Ho u Hn) as [A B]. rewrite A, B in Hi. apply (lk_wf st L u). exact Hi.
  Qed.

  Lemma lk_fin' : forall u m, nhold (tfinal (thr st' u)) m = O.
  Proof.
    intros u m. destruct (Nat.eq_dec u t) as [->|Hn]; [rewrite Hf|destruct (Ho u Hn) as [_ B]; rewrite B]; apply (lk_fin st L).
  Qed.

  (** no mutex changes hands *)
  Lemma lk_neutral : noholds pre -> noholds new -> owner st' = owner st -> LKInv st'.
  Proof.
    intros Hp Hn He. constructor; [| |apply lk_fin'|apply lk_wf'].
    - intros u m Hh. rewrite He. destruct (Nat.eq_dec u t) as [->|Hu].
      + apply (lk_own st L). rewrite Hc', nhold_app, Hn in Hh. rewrite Hc, nhold_app, Hp. exact Hh.
      + destruct (Ho u Hu) as [A _]. rewrite A in Hh. apply (lk_own st L); auto.
    - intros u m. destruct (Nat.eq_dec u t) as [->|Hu].
      + rewrite Hc', nhold_app, Hn. pose proof (lk_nd st L t m) as N. rewrite Hc, nhold_app, Hp in N. exact N.
      + destruct (Ho u Hu) as [A _]. rewrite A. apply (lk_nd st L).
  Qed.

  (** [t] acquires the free mutex [m] *)
  Lemma lk_acquire : forall m,
    noholds pre -> owner st m = None -> owner st' = updM (owner st) m (Some t) ->
    nhold new m = 1%nat -> (forall m', m' <> m -> nhold new m' = O) -> LKInv st'.
  Proof.
    intros m Hp Hfree He Hn1 Hn0.
    assert (Hr : nhold r m = O).
    { destruct (nhold r m) eqn:E; auto. exfalso.
      assert (A : (0 < nhold (tcont (thr st t)) m)%nat) by (rewrite Hc, nhold_app; lia).
      apply (lk_own st L) in A. congruence. }
    constructor; [| |apply lk_fin'|apply lk_wf'].
    - intros u m0 Hh. rewrite He. destruct (Nat.eq_dec u t) as [->|Hu].
      + destruct (mtx_eq_dec m0 m) as [->|Hm]; [apply updM_same|].
        rewrite updM_other by auto. apply (lk_own st L). rewrite Hc', nhold_app, Hn0 in Hh by auto.
        rewrite Hc, nhold_app, Hp. exact Hh.
      + destruct (Ho u Hu) as [A _]. rewrite A in Hh. pose proof (lk_own st L u m0 Hh) as O.
        destruct (mtx_eq_dec m0 m) as [->|Hm]; [congruence|]. rewrite updM_other by auto. exact O.
    - intros u m0. destruct (Nat.eq_dec u t) as [->|Hu].
      + rewrite Hc', nhold_app. destruct (mtx_eq_dec m0 m) as [->|Hm].
        * rewrite Hn1, Hr. lia.
        * rewrite Hn0 by auto. pose proof (lk_nd st L t m0) as N. rewrite Hc, nhold_app, Hp in N. exact N.
      + destruct (Ho u Hu) as [A _]. rewrite A. apply (lk_nd st L).
  Qed.

  (** [t] releases [m]: the consumed instruction is its (only) hold of [m] *)
  Lemma lk_release : forall m,
    nhold pre m = 1%nat -> (forall m', m' <> m -> nhold pre m' = O) -> noholds new ->
    owner st' = updM (owner st) m None -> LKInv st'.
  Proof.
    intros m Hp1 Hp0 Hn He.
    assert (Hown : owner st m = Some t).
    { apply (lk_own st L). rewrite Hc, nhold_app, Hp1. lia. }
    assert (Hr : nhold r m = O).
    { pose proof (lk_nd st L t m) as N. rewrite Hc, nhold_app, Hp1 in N. lia. }
    constructor; [| |apply lk_fin'|apply lk_wf'].
    - intros u m0 Hh. rewrite He. destruct (Nat.eq_dec u t) as [->|Hu].
      + rewrite Hc', nhold_app, Hn in Hh. destruct (mtx_eq_dec m0 m) as [->|Hm]; [lia|].
        rewrite updM_other by auto. apply (lk_own st L). rewrite Hc, nhold_app. lia.
      + destruct (Ho u Hu) as [A _]. rewrite A in Hh. pose proof (lk_own st L u m0 Hh) as O.
        destruct (mtx_eq_dec m0 m) as [->|Hm]; [congruence|]. rewrite updM_other by auto. exact O.
    - intros u m0. destruct (Nat.eq_dec u t) as [->|Hu].
      + rewrite Hc', nhold_app, Hn. pose proof (lk_nd st L t m0) as N. rewrite Hc, nhold_app in N. lia.
      + destruct (Ho u Hu) as [A _]. rewrite A. apply (lk_nd st L).
  Qed.
End LkStep.

Lemma noholds_1 : forall i, (forall m, holdb m i = false) -> noholds [i].
Proof. intros i H m. unfold nhold. cbn. rewrite H. reflexivity. Qed.

Ltac nohold1 := apply noholds_1; intro; reflexivity.
Ltac others_same := intros; split; thr_simpl.
Ltac lwf := intros ? Hi; cbn in Hi; repeat (destruct Hi as [<-|Hi]); try contradiction; cbn; auto.

Lemma exec_climb_LK : forall st t k r st' ev,
  LKInv st -> tcont (thr st t) = IClimb k :: r -> exec_climb st t k r = (st', ev) -> LKInv st'.
Proof.
  intros st t k r st' ev L Hc H.
  destruct k; cbn [exec_climb] in H; inversion H; subst; clear H.
  - destruct (leaf st bm a =? 0);
      [eapply (lk_neutral st _ t [IClimb (KLeaf bm a b who)] r [IClimb (KSum bm a)])
      |eapply (lk_neutral st _ t [IClimb (KLeaf bm a b who)] r [])]; eauto;
      try nohold1; try apply noholds_nil; try lwf;
      destruct (bitmap_join a b (bmbase st bm)); try destruct (slab_get (sl st) z); try reflexivity; try (others_same; fail); try thr_simpl.
  - destruct (summ st bm =? 0);
      [eapply (lk_neutral st _ t [IClimb (KSum bm a)] r [IClimb (KTop bm)])
      |eapply (lk_neutral st _ t [IClimb (KSum bm a)] r [])]; eauto;
      try nohold1; try apply noholds_nil; try lwf; try reflexivity; try (others_same; fail); try thr_simpl.
  - destruct (top st =? 0);
      [eapply (lk_neutral st _ t [IClimb (KTop bm)] r [IClimb KCb])
      |eapply (lk_neutral st _ t [IClimb (KTop bm)] r [])]; eauto;
      try nohold1; try apply noholds_nil; try lwf; try reflexivity; try (others_same; fail); try thr_simpl.
  - eapply (lk_neutral st _ t [IClimb KCb] r []); eauto;
      try nohold1; try apply noholds_nil; try lwf; try reflexivity; try (others_same; fail); try thr_simpl.
Qed.

Ltac neutral st t i r new :=
  eapply (lk_neutral st _ t [i] r new); eauto;
  try nohold1; try apply noholds_nil; try lwf; try reflexivity; try (others_same; fail); try thr_simpl.

Lemma exec_uact_lk : forall st t a r st' ev,
  exec_uact st t a r = (st', ev) ->
  owner st' = owner st /\ (forall u, u <> t -> thr st' u = thr st u) /\ tfinal (thr st' t) = tfinal (thr st t) /\
  exists new, tcont (thr st' t) = new ++ r /\ noholds new /\ lockwfs new.
Proof.
  intros st t a r st' ev H.
  destruct a; cbn [exec_uact] in H; inversion H; subst; clear H;
    (split; [reflexivity|split; [thr_simpl|split; [thr_simpl|]]]);
    cbn -[Nat.eqb]; unfold updN, th; rewrite Nat.eqb_refl; cbn -[Nat.eqb];
    first [ exists (@nil instr); split; [reflexivity|split; [apply noholds_nil|intros ? []]]
          | eexists (cons _ nil); split; [reflexivity|split; [nohold1|lwf]] ].
Qed.

Lemma holdb_unlock : forall m a m', holdb m' (IUnlock m a) = mtx_eqb m m'.
Proof. reflexivity. Qed.

Definition wants (i : instr) (m : mtx) : Prop :=
  match i with ILock m' _ => m' = m | ICvReacq p => MPq p = m | _ => False end.

Lemma exec_instr_LK : forall st t i r st' ev,
  LKInv st -> tcont (thr st t) = i :: r -> (forall m, wants i m -> owner st m = None) ->
  exec_instr st t i r = (st', ev) -> LKInv st'.
Proof.
  intros st t i r st' ev L Hc En H. destruct i; cbn [exec_instr] in H.
  - eapply exec_climb_LK; eauto.
  - inversion H; subst; clear H. neutral st t ITopSwap r [IBms (flat_map (bms_of_slot st) (bits_of (top st)))].
  - destruct bms; inversion H; subst; clear H; [exact L|].
    neutral st t (IBms (z :: bms)) r [ILeaves z (bits_of (summ st z)); IBms bms].
    all: try (intro m; unfold nhold; reflexivity).
  - destruct ls; [inversion H; subst; exact L|].
    destruct (collect (bmbase st bm) z (leaf st bm z)) as [bits ok].
    match type of H with context [ghost_collect ?S bits] =>
      destruct (ghost_collect_frame bits S) as [A B];
      assert (O : owner (ghost_collect S bits) = owner S);
      [clear; generalize S; unfold ghost_collect; induction bits as [|b bits IH]; intro S0; [reflexivity|];
       cbn [fold_left]; destruct (slab_get (sl S0) b); rewrite IH; reflexivity|];
      remember (ghost_collect S bits) as s3 eqn:Es3 end.
    inversion H; subst st' ev; clear H.
    match goal with |- LKInv ?S' => set (st' := S') end.
    assert (C1 : tcont (thr st' t) = [ILeaves bm ls] ++ r).
    { unfold st'. cbn -[Nat.eqb]. unfold updN, th. rewrite B. cbn -[Nat.eqb]. unfold updN, th. rewrite !Nat.eqb_refl. reflexivity. }
    assert (C2 : forall u, u <> t -> tcont (thr st' u) = tcont (thr st u) /\ tfinal (thr st' u) = tfinal (thr st u)).
    { intros u Hu. unfold st'. cbn -[Nat.eqb]. unfold updN, th. rewrite B. cbn -[Nat.eqb]. unfold updN, th.
      destruct (Nat.eqb_spec u t); [congruence|]. split; reflexivity. }
    assert (C3 : tfinal (thr st' t) = tfinal (thr st t)).
    { unfold st'. cbn -[Nat.eqb]. unfold updN, th. rewrite B. cbn -[Nat.eqb]. unfold updN, th. rewrite !Nat.eqb_refl. reflexivity. }
    assert (C4 : owner st' = owner st) by (unfold st'; cbn; rewrite O; subst s3; reflexivity).
    apply (lk_neutral st st' t [ILeaves bm (z :: ls)] r [ILeaves bm ls] L Hc C1 C2 C3); auto; try nohold1; lwf.
  - inversion H; subst; exact L.
  - inversion H; subst; exact L.
  - inversion H; subst; exact L.
  - (* ILock *)
    assert (Hm : m = lact_mtx a).
    { apply (lk_wf st L t (ILock m a)). rewrite Hc. left. reflexivity. }
    assert (Hfree : owner st m = None) by (apply En; reflexivity).
    match type of H with context [exec_lact ?S t ?aa ?rr] => destruct (exec_lact S t aa rr) as [s2 e2] eqn:E; set (s1 := S) in * end.
    inversion H; subst st' ev; clear H.
    destruct (exec_lact_lk _ _ _ _ _ _ E) as [O [Oth [Fin [res [Rc [R1 [R0 Rw]]]]]]].
    assert (C2 : forall u, u <> t -> tcont (thr s2 u) = tcont (thr st u) /\ tfinal (thr s2 u) = tfinal (thr st u)).
    { intros u Hu. rewrite (Oth u Hu). unfold s1. split; thr_simpl. }
    assert (C3 : tfinal (thr s2 t) = tfinal (thr st t)) by (rewrite Fin; unfold s1; thr_simpl).
    assert (C4 : owner s2 = updM (owner st) m (Some t)) by (rewrite O; reflexivity).
    apply (lk_acquire st s2 t [ILock m a] r res L Hc Rc C2 C3 Rw m);
      [nohold1 | exact Hfree | exact C4 | rewrite Hm; exact R1 | intros m' Hm'; apply R0; congruence].
  - (* IUnlock *)
    destruct (exec_uact st t a r) as [s1 e1] eqn:E. inversion H; subst st' ev; clear H.
    destruct (exec_uact_lk _ _ _ _ _ _ E) as [O [Oth [Fin [new [Rc [Rn Rw]]]]]].
    match goal with |- LKInv ?S' => set (st' := S') end.
    assert (C1 : tcont (thr st' t) = new ++ r) by (unfold st'; cbn; exact Rc).
    assert (C2 : forall u, u <> t -> tcont (thr st' u) = tcont (thr st u) /\ tfinal (thr st' u) = tfinal (thr st u)).
    { intros u Hu. unfold st'. cbn. rewrite (Oth u Hu). split; reflexivity. }
    assert (C3 : tfinal (thr st' t) = tfinal (thr st t)) by (unfold st'; cbn; exact Fin).
    assert (C4 : owner st' = updM (owner st) m None) by (unfold st'; cbn; rewrite O; reflexivity).
    apply (lk_release st st' t [IUnlock m a] r new L Hc C1 C2 C3 Rw m); auto.
    + unfold nhold. cbn [filter holdb]. rewrite mtx_eqb_refl. reflexivity.
    + intros m' Hm'. unfold nhold. cbn [filter holdb]. rewrite mtx_eqb_neq by congruence. reflexivity.
  - (* ICvWait *)
    inversion H; subst; clear H.
    match goal with |- LKInv ?S' => set (st' := S') end.
    assert (C1 : tcont (thr st' t) = [] ++ r) by (unfold st'; thr_simpl).
    assert (C2 : forall u, u <> t -> tcont (thr st' u) = tcont (thr st u) /\ tfinal (thr st' u) = tfinal (thr st u)).
    { unfold st'. others_same. }
    assert (C3 : tfinal (thr st' t) = tfinal (thr st t)) by (unfold st'; thr_simpl).
    assert (C4 : owner st' = updM (owner st) (MPq p) None) by reflexivity.
    apply (lk_release st st' t [ICvWait p] r [] L Hc C1 C2 C3 ltac:(intros ? []) (MPq p)); auto; try apply noholds_nil.
    + unfold nhold. cbn [filter holdb]. rewrite mtx_eqb_refl. reflexivity.
    + intros m' Hm'. unfold nhold. cbn [filter holdb]. rewrite mtx_eqb_neq by congruence. reflexivity.
  - (* ICvReacq *)
    assert (Hfree : owner st (MPq p) = None) by (apply En; reflexivity).
    match type of H with context [exec_lact ?S t ?aa ?rr] => destruct (exec_lact S t aa rr) as [s2 e2] eqn:E; set (s1 := S) in * end.
    inversion H; subst st' ev; clear H.
    destruct (exec_lact_lk _ _ _ _ _ _ E) as [O [Oth [Fin [res [Rc [R1 [R0 Rw]]]]]]].
    assert (C2 : forall u, u <> t -> tcont (thr s2 u) = tcont (thr st u) /\ tfinal (thr s2 u) = tfinal (thr st u)).
    { intros u Hu. rewrite (Oth u Hu). unfold s1. split; thr_simpl. }
    assert (C3 : tfinal (thr s2 t) = tfinal (thr st t)) by (rewrite Fin; unfold s1; thr_simpl).
    assert (C4 : owner s2 = updM (owner st) (MPq p) (Some t)) by (rewrite O; reflexivity).
    apply (lk_acquire st s2 t [ICvReacq p] r res L Hc Rc C2 C3 Rw (MPq p));
      [nohold1 | exact Hfree | exact C4 | exact R1 | intros m' Hm'; apply R0; exact Hm'].
  - (* INotify *)
    inversion H; subst st' ev; clear H.
    match goal with |- LKInv (set_cont (fold_left ?f ?us st) t r) =>
      destruct (notify_fold_spec us st) as [A1 [A2 [A3 [A4 [A5 [A6 [A7 [A8 [A9 [A10 [A11 A12]]]]]]]]]]];
      assert (O : owner (fold_left f us st) = owner st);
      [clear; generalize us; intro us0; revert st; induction us0 as [|v us0 IH]; intro st; [reflexivity|];
       cbn [fold_left]; rewrite IH; reflexivity|] end.
    cbn zeta in *.
    match goal with |- LKInv ?S' => set (st' := S') end.
    assert (C1 : tcont (thr st' t) = [] ++ r) by (unfold st'; thr_simpl).
    assert (C2 : forall u, u <> t -> tcont (thr st' u) = tcont (thr st u) /\ tfinal (thr st' u) = tfinal (thr st u)).
    { intros u Hu. unfold st'. cbn. unfold updN, th. destruct (Nat.eqb_spec u t); [congruence|]. split; [apply A10|apply A12]. }
    assert (C3 : tfinal (thr st' t) = tfinal (thr st t)).
    { unfold st'. cbn. unfold updN, th. rewrite Nat.eqb_refl. cbn. apply A12. }
    assert (C4 : owner st' = owner st) by (unfold st'; cbn; exact O).
    apply (lk_neutral st st' t [INotify p] r [] L Hc C1 C2 C3 ltac:(intros ? [])); auto; [nohold1|apply noholds_nil].
  - unfold ghost_handler in H. inversion H; subst; clear H.
    destruct del; [neutral st t (IYieldH h true) r (@nil instr) | neutral st t (IYieldH h false) r (@nil instr)].
  - inversion H; subst; clear H. neutral st t IJoin r (@nil instr).
  - inversion H; subst; clear H. neutral st t IIdle r (@nil instr).
Qed.

(** spawning a thread and changing one's own exit sequence *)
Lemma LK_spawn : forall st t p f,
  LKInv st -> pristine st -> noholds f -> lockwfs f -> LKInv (spawn_thread st t p f).
Proof.
  intros st t p f L [P0 P] Hn Hw. destruct (P (nthr st) (le_n _)) as [Pc Pf].
  constructor.
  - intros u m Hh. cbn in *. unfold updN, th in *. destruct (Nat.eqb_spec u (nthr st)); subst; cbn in *; [lia|].
    apply (lk_own st L); auto.
  - intros u m. cbn. unfold updN, th. destruct (Nat.eqb_spec u (nthr st)); subst; cbn; [lia|apply (lk_nd st L)].
  - intros u m. cbn. unfold updN, th. destruct (Nat.eqb_spec u (nthr st)); subst; cbn; [apply Hn|apply (lk_fin st L)].
  - intros u i Hi. cbn in Hi. unfold updN, th in Hi. destruct (Nat.eqb_spec u (nthr st)); subst; cbn in Hi; [apply Hw; auto|].
    apply (lk_wf st L u); auto.
Qed.

Lemma LK_eq : forall st st',
  owner st' = owner st -> (forall u, tcont (thr st' u) = tcont (thr st u) /\ tfinal (thr st' u) = tfinal (thr st u)) ->
  LKInv st -> LKInv st'.
Proof.
  intros st st' Ho Ht L. constructor.
  - intros u m Hh. rewrite Ho. destruct (Ht u) as [A _]. rewrite A in Hh. apply (lk_own st L); auto.
  - intros u m. destruct (Ht u) as [A _]. rewrite A. apply (lk_nd st L).
  - intros u m. destruct (Ht u) as [_ B]. rewrite B. apply (lk_fin st L).
  - intros u i Hi. destruct (Ht u) as [A B]. rewrite A, B in Hi. apply (lk_wf st L u); auto.
Qed.

Ltac lk_same st := apply (LK_eq st); [reflexivity|intro; split; thr_simpl|assumption].

Lemma wh_add_lk : forall st h st1 wi, wh_add st h = Some (st1, wi) -> owner st1 = owner st /\ thr st1 = thr st.
Proof.
  intros st h st1 wi H. unfold wh_add in H.
  destruct (slab_insert (sl st) h) as [bit0 s0].
  destruct (add_loop 2 s0 h bit0) as [[[bit base] s1]|]; [|discriminate].
  destruct (waker_vec_index bit); [|discriminate]. destruct (waker_slot bit); [|discriminate].
  inversion H; subst. split; reflexivity.
Qed.

Lemma fill_loop_lk : forall n st ev st' ev', fill_loop n st ev = (st', ev') -> owner st' = owner st /\ thr st' = thr st.
Proof.
  induction n as [|n IH]; intros st ev st' ev' H; cbn [fill_loop] in H.
  - inversion H; subst; auto.
  - destruct (wh_add st (HPlain (1000000 + nfill st))) as [[st1 wi]|] eqn:E.
    + apply wh_add_lk in E. destruct E as [E1 E2]. apply IH in H. cbn in H. destruct H as [H1 H2]. split; congruence.
    + inversion H; subst; auto.
Qed.

Ltac begin1 st t new :=
  eapply (lk_neutral st _ t [] [] new); eauto;
  try apply noholds_nil; try nohold1; try lwf; try reflexivity; try (others_same; fail); try thr_simpl.

Lemma begin_cmd_LK : forall st t c st' ev done,
  LKInv st -> pristine st -> tcont (thr st t) = [] ->
  begin_cmd st t c = (st', ev, done) -> LKInv st'.
Proof.
  intros st t c st' ev done L P Hc H.
  assert (Hc0 : tcont (thr st t) = [] ++ []) by exact Hc.
  destruct c; cbn [begin_cmd] in H.
  - destruct (wreg st w) as [wi|]; [|inversion H; subst; auto].
    destruct (climb_start st wi (Some (HPlain w))) as [i|] eqn:E; inversion H; subst; clear H; [|auto].
    apply climb_at_climb in E. destruct E as [k ->]. begin1 st t [IClimb k].
  - destruct (wreg st w) as [wi|]; [|inversion H; subst; auto].
    destruct (wbusy st w); inversion H; subst; clear H.
    + begin1 st t [ILock MDL (LPush (wbit wi) (wbm wi) (HPlain w))].
    + lk_same st.
  - destruct (Waker.creg (chs st c)); inversion H; subst; clear H; [|auto]. begin1 st t [ILock (MCh c) (LChSend c m)].
  - destruct (Waker.creg (chs st c)); inversion H; subst; clear H; [|auto]. begin1 st t [ILock (MCh c) (LChClosed c)].
  - destruct (negb (is_main t) || wused st w || (1000000 <=? w) || (w <? 0)); [inversion H; subst; auto|].
    destruct (wh_add st (HPlain w)) as [[st1 wi]|] eqn:E; inversion H; subst; clear H; [|auto].
    apply wh_add_lk in E. destruct E as [E1 E2]. apply (LK_eq st); auto. intro u. cbn. rewrite E2. split; reflexivity.
  - destruct (negb (is_main t)); [inversion H; subst; auto|].
    destruct (fill_loop (Z.to_nat n) st []) as [st1 ev1] eqn:E. inversion H; subst; clear H.
    apply fill_loop_lk in E. destruct E as [E1 E2]. apply (LK_eq st); auto. intro u. rewrite E2. split; reflexivity.
  - destruct (negb (is_main t)); inversion H; subst; clear H; [auto|]. begin1 st t [ITopSwap; IRun].
    all: try (intro m; reflexivity).
  - destruct (negb (is_main t)); [inversion H; subst; auto|].
    destruct (gnotified st); inversion H; subst; clear H; [|auto]. begin1 st t [ITopSwap; IRun].
    all: try (intro m; reflexivity).
  - destruct (negb (is_main t)); inversion H; subst; clear H; [auto|].
    apply LK_spawn; auto; [apply noholds_nil|intros ? []].
  - destruct (negb (is_main t)); inversion H; subst; clear H; [auto|]. begin1 st t [IJoin].
  - destruct (negb (is_main t)); inversion H; subst; clear H; [auto|]. begin1 st t [IIdle].
  - destruct (negb (is_main t) || cexists (chs st c)); [inversion H; subst; auto|].
    destruct (wh_add st (HChan c)) as [[st1 wi]|] eqn:E; inversion H; subst; clear H; [|auto].
    apply wh_add_lk in E. destruct E as [E1 E2].
    assert (L1 : LKInv st1) by (apply (LK_eq st); auto; intro u; rewrite E2; split; reflexivity).
    assert (Hc1 : tcont (thr st1 t) = [] ++ []) by (rewrite E2; exact Hc).
    eapply (lk_neutral st1 _ t [] [] [ILock (MCh c) (LChInit c)] L1 Hc1); eauto;
      try apply noholds_nil; try nohold1; try lwf; try reflexivity; try (others_same; fail); try thr_simpl.
  - destruct (negb (is_main t) || negb (cguard (chs st c))); inversion H; subst; clear H; [auto|].
    begin1 st t [ILock (MCh c) (LChClose c)].
  - destruct (negb (is_main t) || pexists (pps st p)); [inversion H; subst; auto|].
    destruct (wh_add st (HPipe p)) as [[st1 wi]|] eqn:E; inversion H; subst; clear H; [|auto].
    assert (Hn : nthr st1 = nthr st) by (destruct (wh_add_core _ _ _ _ E) as [? [? [? [? [? ?]]]]]; auto).
    apply wh_add_lk in E. destruct E as [E1 E2].
    apply LK_spawn.
    + apply (LK_eq st); auto. intro u. cbn. rewrite E2. split; reflexivity.
    + destruct P as [P0 P]. split; cbn; rewrite ?Hn; auto. intros u Hu. rewrite E2. apply P. lia.
    + nohold1.
    + lwf.
  - destruct (negb (is_main t) || negb (phandle (pps st p))); inversion H; subst; clear H; [auto|].
    begin1 st t [ILock (MPq p) (LPqSend p m)].
  - destruct (negb (is_main t) || negb (phandle (pps st p))); inversion H; subst; clear H; [auto|].
    begin1 st t [ILock (MPq p) (LPqCancelSet p)].
  - destruct (tpipe (th st t) <? 0); inversion H; subst; clear H; [auto|]. begin1 st t [ILock (MPq (tpipe (th st t))) (LPqRecv (tpipe (th st t)))].
  - destruct (tpipe (th st t) <? 0); inversion H; subst; clear H; [auto|]. begin1 st t [ILock (MPq (tpipe (th st t))) (LPqLSend (tpipe (th st t)) m)].
  - destruct (tpipe (th st t) <? 0); inversion H; subst; clear H; [auto|]. begin1 st t [ILock (MPq (tpipe (th st t))) (LPqCancelGet (tpipe (th st t)))].
  - destruct (tpipe (th st t) <? 0); inversion H; subst; clear H; [auto|].
    constructor.
    + intros u m Hh. cbn in *. unfold updN, th in *. destruct (Nat.eqb_spec u t); subst; cbn in *; apply (lk_own st L); auto.
    + intros u m. cbn. unfold updN, th. destruct (Nat.eqb_spec u t); subst; cbn; apply (lk_nd st L).
    + intros u m. cbn. unfold updN, th. destruct (Nat.eqb_spec u t); subst; cbn; [|apply (lk_fin st L)].
      unfold nhold. cbn [filter holdb]. apply (lk_fin st L).
    + intros u i Hi. cbn in Hi. unfold updN, th in Hi. destruct (Nat.eqb_spec u t); subst; cbn in Hi.
      * apply in_app_or in Hi. destruct Hi as [Hi|[<-|Hi]]; [|reflexivity|].
        -- apply (lk_wf st L t). apply in_or_app. auto.
        -- apply (lk_wf st L t). apply in_or_app. auto.
      * apply (lk_wf st L u); auto.
Qed.

Lemma hinstrs_noholds : forall h d, noholds (hinstrs h d) /\ lockwfs (hinstrs h d).
Proof. intros [w| |c|p] d; split; try nohold1; lwf. Qed.

Lemma norm_lk : forall fuel s acc k ev s1 acc1 k1 ev1,
  norm fuel s acc k ev = (s1, acc1, k1, ev1) ->
  (forall m, nhold k1 m = nhold k m) /\ (lockwfs k -> lockwfs k1).
Proof.
  induction fuel as [|f IH]; intros s acc k ev s1 acc1 k1 ev1 H; cbn [norm] in H.
  - inversion H; subst. split; auto.
  - destruct k as [|i r]; [inversion H; subst; split; auto|].
    assert (Drop : forall j r0, (forall m, holdb m j = false) ->
              (forall m, nhold r0 m = nhold (j :: r0) m) /\ (lockwfs (j :: r0) -> lockwfs r0)).
    { intros j r0 Hj. split; [intro m; rewrite nhold_cons, Hj; reflexivity|intros W x Hx; apply W; right; auto]. }
    assert (Tr : forall a b c : list instr, ((forall m, nhold a m = nhold b m) /\ (lockwfs b -> lockwfs a)) ->
                                             ((forall m, nhold b m = nhold c m) /\ (lockwfs c -> lockwfs b)) ->
                                             ((forall m, nhold a m = nhold c m) /\ (lockwfs c -> lockwfs a))).
    { intros a b c [A1 A2] [B1 B2]. split; [intro m; rewrite A1; auto|auto]. }
    destruct i as [c| |[|bm bms]|bm [|a ls]| |[|b bs]|[|b bs]| | | | | | | |];
      try (inversion H; subst; split; auto; fail).
    + eapply Tr; [eapply IH; eauto|]. apply Drop. reflexivity.
    + eapply Tr; [eapply IH; eauto|]. apply Drop. reflexivity.
    + eapply Tr; [eapply IH; eauto|].
      split; [intro m; rewrite !nhold_cons; reflexivity|].
      intros W x [<-|Hx]; [exact Logic.I|apply W; right; auto].
    + eapply Tr; [eapply IH; eauto|]. apply Drop. reflexivity.
    + destruct (slab_get s b) as [h|].
      * inversion H; subst. destruct (hinstrs_noholds h false) as [N W].
        split; [intro m; rewrite nhold_app, N, !nhold_cons; reflexivity|].
        intros W0 x Hx. apply in_app_or in Hx. destruct Hx as [Hx|[<-|Hx]]; [apply W; auto|exact Logic.I|apply W0; right; auto].
      * eapply Tr; [eapply IH; eauto|].
        split; [intro m; rewrite !nhold_cons; reflexivity|].
        intros W x [<-|Hx]; [exact Logic.I|apply W; right; auto].
    + eapply Tr; [eapply IH; eauto|]. apply Drop. reflexivity.
    + destruct (wh_del s b) as [[h s']|].
      * inversion H; subst. destruct (hinstrs_noholds h true) as [N W].
        split; [intro m; rewrite nhold_app, N, !nhold_cons; reflexivity|].
        intros W0 x Hx. apply in_app_or in Hx. destruct Hx as [Hx|[<-|Hx]]; [apply W; auto|exact Logic.I|apply W0; right; auto].
      * eapply Tr; [eapply IH; eauto|].
        split; [intro m; rewrite !nhold_cons; reflexivity|].
        intros W x [<-|Hx]; [exact Logic.I|apply W; right; auto].
Qed.

Lemma settle_LK : forall st t ev done st' ev', LKInv st -> settle st t ev done = (st', ev') -> LKInv st'.
Proof.
  intros st t ev done st' ev' L H. unfold settle in H.
  destruct (norm (2 * (cont_size (tcont (th st t)) + length (tacc (th st t))) + 2) (sl st) (tacc (th st t)) (tcont (th st t)) ev)
    as [[[s1 acc1] k1] ev1] eqn:En.
  destruct (norm_lk _ _ _ _ _ _ _ _ _ En) as [N W].
  cbn zeta in H.
  set (st1 := set_sl (upd_th st t (set_tacc (set_tcont (th st t) k1) acc1)) s1) in *.
  assert (T1 : tcont (thr st1 t) = k1 /\ tfinal (thr st1 t) = tfinal (thr st t)) by (unfold st1; split; thr_simpl).
  assert (O1 : forall u, u <> t -> tcont (thr st1 u) = tcont (thr st u) /\ tfinal (thr st1 u) = tfinal (thr st u)).
  { unfold st1. others_same. }
  assert (Ow : owner st1 = owner st) by reflexivity.
  assert (L1 : LKInv st1).
  { destruct T1 as [T1 T2]. constructor.
    - intros u m Hh. rewrite Ow. destruct (Nat.eq_dec u t) as [->|Hu].
      + rewrite T1, N in Hh. apply (lk_own st L); auto.
      + destruct (O1 u Hu) as [A _]. rewrite A in Hh. apply (lk_own st L); auto.
    - intros u m. destruct (Nat.eq_dec u t) as [->|Hu].
      + rewrite T1, N. apply (lk_nd st L).
      + destruct (O1 u Hu) as [A _]. rewrite A. apply (lk_nd st L).
    - intros u m. destruct (Nat.eq_dec u t) as [->|Hu].
      + rewrite T2. apply (lk_fin st L).
      + destruct (O1 u Hu) as [_ B]. rewrite B. apply (lk_fin st L).
    - intros u i Hi. destruct (Nat.eq_dec u t) as [->|Hu].
      + rewrite T1, T2 in Hi. apply in_app_or in Hi. destruct Hi as [Hi|Hi].
        * apply W; auto. intros x Hx. apply (lk_wf st L t). apply in_or_app. auto.
        * apply (lk_wf st L t). apply in_or_app. auto.
      + destruct (O1 u Hu) as [A B]. rewrite A, B in Hi. apply (lk_wf st L u); auto. }
  clear T1 O1 Ow.
  clearbody st1.
  match type of H with (let '(st2, ev2) := ?E in _) = _ => destruct E as [st2 ev2] eqn:E2 end.
  assert (L2 : LKInv st2).
  { destruct done as [v|].
    - inversion E2; subst. lk_same st1.
    - destruct k1.
      + destruct (tcur (th st1 t)) as [c|]; inversion E2; subst; [|exact L1].
        destruct c; lk_same st1.
      + inversion E2; subst. exact L1. }
  destruct (tcont (th st2 t)) eqn:Ec; [|inversion H; subst; exact L2].
  destruct (tscript (th st2 t)); [|inversion H; subst; exact L2].
  destruct (tcur (th st2 t)); [inversion H; subst; exact L2|].
  destruct (tfinal (th st2 t)) eqn:Ef; inversion H; subst; [exact L2|].
  match goal with |- LKInv ?S' => set (s3 := S') end.
  assert (T1 : tcont (thr s3 t) = tfinal (thr st2 t) /\ tfinal (thr s3 t) = []).
  { unfold s3. split; thr_simpl. unfold th in Ef. rewrite Ef. reflexivity. }
  assert (O1 : forall u, u <> t -> tcont (thr s3 u) = tcont (thr st2 u) /\ tfinal (thr s3 u) = tfinal (thr st2 u)).
  { unfold s3. others_same. }
  assert (Ow : owner s3 = owner st2) by reflexivity.
  destruct T1 as [T1 T2]. constructor.
  - intros u m Hh. rewrite Ow. destruct (Nat.eq_dec u t) as [->|Hu].
    + rewrite T1, (lk_fin st2 L2 t m) in Hh. lia.
    + destruct (O1 u Hu) as [A _]. rewrite A in Hh. apply (lk_own st2 L2); auto.
  - intros u m. destruct (Nat.eq_dec u t) as [->|Hu].
    + rewrite T1, (lk_fin st2 L2 t m). lia.
    + destruct (O1 u Hu) as [A _]. rewrite A. apply (lk_nd st2 L2).
  - intros u m. destruct (Nat.eq_dec u t) as [->|Hu].
    + rewrite T2. reflexivity.
    + destruct (O1 u Hu) as [_ B]. rewrite B. apply (lk_fin st2 L2).
  - intros u x Hx. destruct (Nat.eq_dec u t) as [->|Hu].
    + rewrite T1, T2, app_nil_r in Hx. apply (lk_wf st2 L2 t). apply in_or_app. auto.
    + destruct (O1 u Hu) as [A B]. rewrite A, B in Hx. apply (lk_wf st2 L2 u); auto.
Qed.

Theorem wstep_LK : forall st t st' ev,
  MInv st -> LKInv st -> wstep st t = (st', ev) -> LKInv st'.
Proof.
  intros st t st' ev [I [P Wf]] L H. unfold wstep in H.
  destruct (enabled st t) eqn:En; cbn [negb] in H; [|inversion H; subst; exact L].
  assert (Ht : (t < nthr st)%nat).
  { unfold enabled in En. apply andb_true_iff in En. destruct En as [En _]. apply Nat.ltb_lt in En. exact En. }
  assert (Lt : LKInv (tick st t)) by (unfold tick; lk_same st).
  assert (Pt : pristine (tick st t)) by (unfold tick; prist st t).
  assert (Es' : tstarted (th (tick st t) t) = tstarted (th st t)) by (unfold tick; thr_simpl).
  assert (Ec' : tcont (th (tick st t) t) = tcont (th st t)) by (unfold tick; thr_simpl).
  assert (Sc' : tscript (th (tick st t) t) = tscript (th st t)) by (unfold tick; thr_simpl).
  assert (Ow : owner (tick st t) = owner st) by reflexivity.
  rewrite Es', Ec', Sc' in H.
  destruct (tstarted (th st t)) eqn:Es; cbn [negb] in H.
  - destruct (tcont (th st t)) as [|i r] eqn:Ec.
    + destruct (tscript (th st t)) as [|c0 cs]; [inversion H; subst; exact L|].
      match type of H with context [begin_cmd ?S t ?cc] =>
        destruct (begin_cmd S t cc) as [[st2 ev0] done] eqn:Eb; set (s1 := S) in * end.
      assert (L1 : LKInv s1) by (unfold s1; lk_same (tick st t)).
      assert (P1 : pristine s1) by (unfold s1; prist (tick st t) t).
      assert (Hc1 : tcont (thr s1 t) = []).
      { unfold s1. cbn -[Nat.eqb]. unfold updN, th. rewrite Nat.eqb_refl. cbn. unfold th in Ec. first [exact Ec | rewrite Nat.eqb_refl; cbn; exact Ec]. }
      eapply settle_LK; [|exact H]. eapply begin_cmd_LK; eauto.
    + destruct (exec_instr (tick st t) t i r) as [st1 ev1] eqn:Ee.
      eapply settle_LK; [|exact H]. eapply (exec_instr_LK (tick st t) t i r); eauto.
      intros m Hw. rewrite Ow. unfold enabled in En. rewrite Es, Ec in En. cbn [negb] in En.
        apply andb_true_iff in En. destruct En as [_ En].
      destruct i; cbn in Hw; try contradiction; subst; cbn in En.
      * destruct (owner st m); [discriminate|reflexivity].
      * apply andb_true_iff in En. destruct En as [_ En]. destruct (owner st (MPq p)); [discriminate|reflexivity].
  - eapply settle_LK; [|exact H]. lk_same (tick st t).
Qed.

Lemma LK_init : forall scr, LKInv (winit scr).
Proof.
  intro scr. constructor; cbn; intros; try reflexivity; try lia; try contradiction;
    try (unfold nhold in *; cbn in *; lia).
Qed.

Lemma wrun_LK : forall sched st, MInv st -> LKInv st -> LKInv (fst (wrun st sched)).
Proof.
  induction sched as [|t rest IH]; intros st M L; cbn [wrun]; auto.
  destruct (wstep st t) as [st1 ev] eqn:E.
  specialize (IH st1 (wstep_inv _ _ _ _ M E) (wstep_LK _ _ _ _ M L E)).
  destruct (wrun st1 rest) as [st2 tr]. exact IH.
Qed.

Theorem reachable_LK : forall st, reachable st -> LKInv st.
Proof. intros st [scr [sched ->]]. apply wrun_LK; [apply MInv_init|apply LK_init]. Qed.
