(** * Layer W: every step of the model [wstep] preserves the coverage invariant of its core
    projection (each step is a short sequence of transitions of the core machine). *)
From Coq Require Import ZArith List Bool Arith Lia.
From Stk Require Import Lib.U Gen.SrcWaker W.Waker W.WakerArith W.WakerCore W.WakerSlab W.WakerPres.
Import ListNotations.
Local Open Scope Z_scope.

(** threads that have not been spawned yet have nothing to run *)
Definition pristine (st : wstate) : Prop :=
  (1 <= nthr st)%nat /\ forall u, (nthr st <= u)%nat -> tcont (thr st u) = [] /\ tfinal (thr st u) = [].

(** the Wakers stored in the registry / in channels refer to bitmaps that exist *)
Definition wfi (st : wstate) : Prop :=
  (forall w wi, wreg st w = Some wi -> registered st (wbm wi) = true) /\
  (forall c, cexists (chs st c) = true -> registered st (wbm (cw (chs st c))) = true) /\
  (forall c, copen (chs st c) = true -> cexists (chs st c) = true).

Lemma wfi_frame : forall st st',
  (forall bm, registered st bm = true -> registered st' bm = true) ->
  (forall w wi, wreg st' w = Some wi -> wreg st w = Some wi) ->
  (forall c, cexists (chs st' c) = cexists (chs st c) /\ cw (chs st' c) = cw (chs st c) /\
             (copen (chs st' c) = true -> copen (chs st c) = true \/ cexists (chs st c) = true)) ->
  wfi st -> wfi st'.
Proof.
  intros st st' Hr Hw Hc [W1 [W2 W3]]. split; [|split].
  - intros w wi H. apply Hr. eapply W1. eauto.
  - intros c H. destruct (Hc c) as [A [B _]]. rewrite B. apply Hr. apply W2. congruence.
  - intros c H. destruct (Hc c) as [A [_ C]]. rewrite A. destruct (C H); auto.
Qed.

Definition MInv (st : wstate) : Prop := CInv (core st) /\ pristine st /\ wfi st.

Ltac eqbs :=
  repeat match goal with
         | |- context [Nat.eqb ?a ?b] => destruct (Nat.eqb_spec a b); subst
         end.

Ltac ceq_auto :=
  constructor; intros; cbn; unfold updN, updT, th; cbn; eqbs; cbn; try reflexivity; try congruence.

(** ** the generic step, at the level of the model *)
Lemma benign_model : forall st st' t pre r new,
  CInv (core st) ->
  tcont (thr st t) = pre ++ r ->
  ((pre = [] /\ r = []) \/ exists i, pre = [i] /\ consumable i) ->
  top st' = top st -> summ st' = summ st -> leaf st' = leaf st -> sl st' = sl st ->
  vlen st' = vlen st -> bmbase st' = bmbase st -> gnotified st' = gnotified st ->
  (forall h, osome (gnew st' h) = true -> osome (gnew st h) = true) ->
  (forall h, osome (gcol st' h) = true -> osome (gcol st h) = true) ->
  (forall i h d, In i pre -> hstart i h d -> osome (gcol st' h) = false /\ (d = true -> osome (gnew st' h) = false)) ->
  (forall u, u <> t -> tcont (thr st' u) = tcont (thr st u)) ->
  tcont (thr st' t) = new ++ r ->
  tacc (thr st' main) = tacc (thr st main) ->
  (forall u, tfinal (thr st' u) = tfinal (thr st u)) ->
  (forall j, In j new -> newok (core st) t j) ->
  CInv (core st').
Proof.
  intros st st' t pre r new I Hc Hsh Et Es El Esl Ev Eb En Hgn Hgc Hclr Ho Hn Ha Hf Hnew.
  eapply CInv_ceq; [|eapply (pres_benign (core st) t pre r new (c_new (core st')) (c_col (core st'))); eauto].
  constructor; intros; cbn; try congruence.
  unfold updT. destruct (Nat.eqb_spec t0 t); subst; auto. rewrite Ho; auto.
Qed.

Lemma benign_model' : forall st st' t pre r,
  CInv (core st) ->
  tcont (thr st t) = pre ++ r ->
  ((pre = [] /\ r = []) \/ exists i, pre = [i] /\ consumable i) ->
  top st' = top st -> summ st' = summ st -> leaf st' = leaf st -> sl st' = sl st ->
  vlen st' = vlen st -> bmbase st' = bmbase st -> gnotified st' = gnotified st ->
  (forall h, osome (gnew st' h) = true -> osome (gnew st h) = true) ->
  (forall h, osome (gcol st' h) = true -> osome (gcol st h) = true) ->
  (forall i h d, In i pre -> hstart i h d -> osome (gcol st' h) = false /\ (d = true -> osome (gnew st' h) = false)) ->
  (forall u, u <> t -> tcont (thr st' u) = tcont (thr st u)) ->
  tacc (thr st' main) = tacc (thr st main) ->
  (forall u, tfinal (thr st' u) = tfinal (thr st u)) ->
  (exists new, tcont (thr st' t) = new ++ r /\ forall j, In j new -> newok (core st) t j) ->
  CInv (core st').
Proof.
  intros. destruct H15 as [new [A B]]. eapply benign_model; eauto.
Qed.

(** the instruction produced by [climb_at] is well formed *)
Lemma climb_at_ok : forall st bit bm w i t,
  SInv (core st) -> climb_at st bit bm w = Some i -> newok (core st) t i.
Proof.
  intros st bit bm w i t S H. unfold climb_at in H.
  destruct (bitmap_split bit (bmbase st bm)) as [[a b]|] eqn:E; [|discriminate].
  destruct ((a <? USIZE_BITS) && registered st bm) eqn:E2; [|discriminate].
  inversion H; subst. apply andb_true_iff in E2. destruct E2 as [E2 E3].
  rewrite usize_bits in E2. apply Z.ltb_lt in E2.
  assert (Hreg : creg (core st) bm = true) by exact E3.
  assert (Hb : bmbase st bm = 4096 * bm) by (apply (s_base (core st) S bm Hreg)).
  destruct (creg_bound (core st) bm S Hreg) as [B0 B1].
  apply bitmap_split_range in E; [|lia]. rewrite usize_bits in E.
  simpl. split; auto. lia.
Qed.

Ltac pick_new :=
  first [ exists (@nil instr); split; [reflexivity|]
        | eexists (cons _ nil); split; [reflexivity|]
        | eexists (cons _ (cons _ nil)); split; [reflexivity|]
        | eexists (cons _ (cons _ (cons _ nil))); split; [reflexivity|] ].

Ltac newok_tac :=
  let j := fresh "j" in let Hj := fresh "Hj" in
  intros j Hj; simpl in Hj;
  repeat (destruct Hj as [<-|Hj]); try contradiction; simpl;
  try (split; [try exact Logic.I; auto | auto; try congruence]); auto; try congruence.

Lemma osome_updH_none : forall (f : hkind -> option vclock) k h,
  osome (updH f k None h) = true -> osome (f h) = true.
Proof. intros f k h. unfold updH. destruct (hkind_eqb h k); auto. discriminate. Qed.

Lemma ghost_handler_spec : forall st t h del st' ev,
  ghost_handler st t h del = (st', ev) ->
  top st' = top st /\ summ st' = summ st /\ leaf st' = leaf st /\ sl st' = sl st /\ vlen st' = vlen st /\
  bmbase st' = bmbase st /\ gnotified st' = gnotified st /\ thr st' = thr st /\ dl st' = dl st /\
  chs st' = chs st /\ pps st' = pps st /\ owner st' = owner st /\ nthr st' = nthr st /\
  (forall h0, osome (gnew st' h0) = true -> osome (gnew st h0) = true) /\
  (forall h0, osome (gcol st' h0) = true -> osome (gcol st h0) = true) /\
  osome (gcol st' h) = false /\ (del = true -> osome (gnew st' h) = false).
Proof.
  intros st t h del st' ev H. unfold ghost_handler in H. inversion H; subst; clear H.
  destruct del; cbn; repeat split; auto; intros; try (eapply osome_updH_none; eauto; fail);
    try (rewrite updH_same; reflexivity); try discriminate.
Qed.

Ltac thr_simpl := cbn -[Nat.eqb]; unfold updN, th; cbn -[Nat.eqb]; intros; eqbs; cbn -[Nat.eqb]; try reflexivity; try congruence.

Ltac nohstart :=
  intros;
  repeat match goal with
         | H : In _ (_ :: _) |- _ => simpl in H
         | H : _ \/ False |- _ => destruct H as [H|[]]
         end;
  subst;
  match goal with H : hstart _ _ _ |- _ => simpl in H; try contradiction end.

Ltac ghost_mono :=
  match goal with
  | H : osome (updH _ _ None _) = true |- _ => repeat (apply osome_updH_none in H); exact H
  | H : osome (?f ?h) = true |- osome (?f ?h) = true => exact H
  end.

Ltac hstart_tac :=
  intros;
  repeat match goal with
         | H : In _ (_ :: _) |- _ => simpl in H
         | H : _ \/ False |- _ => destruct H as [H|[]]
         end;
  subst;
  match goal with
  | H : hstart _ _ _ |- _ => simpl in H; try contradiction; destruct H as [? ?]; subst
  end;
  cbn; rewrite ?updH_same; split; [reflexivity | intros; try discriminate; rewrite ?updH_same; reflexivity].

Ltac bm_tac st t pre r :=
  eapply (benign_model' st _ t pre r); eauto; try thr_simpl; try (nohstart; fail); try (ghost_mono; fail);
  try (hstart_tac; fail).

Lemma exec_lact_inv : forall st t m a r st' ev,
  CInv (core st) -> wfi st -> tcont (thr st t) = ILock m a :: r ->
  exec_lact st t a r = (st', ev) -> CInv (core st').
Proof.
  intros st t m a r st' ev I Wf Hc H.
  pose proof (i_slab _ I) as S.
  assert (Hmain : main_only (ILock m a) = true -> t = main).
  { intro M. destruct (Nat.eq_dec t main); auto. exfalso.
    pose proof (i_mainonly _ I t n (ILock m a)) as P. cbn [core c_cont] in P. rewrite Hc in P.
    rewrite P in M by (left; reflexivity). discriminate. }
  assert (Hsh : ([ILock m a] = [] /\ r = []) \/ exists i, [ILock m a] = [i] /\ consumable i).
  { right. eexists. split; [reflexivity|exact Logic.I]. }
  destruct a; cbn [exec_lact] in H.
  - (* LPush *)
    destruct (climb_reserved st bm) as [i|] eqn:Ecl; inversion H; subst; clear H; bm_tac st t [ILock m (LPush bit bm who)] r.
    + pick_new. intros j Hj. simpl in Hj. destruct Hj as [<-|[<-|[]]].
      * eapply climb_at_ok; eauto.
      * simpl. auto.
    + pick_new. newok_tac.
  - (* LTake *)
    assert (t = main) by (apply Hmain; reflexivity). subst t.
    unfold ghost_handler in H. inversion H; subst; clear H.
    bm_tac st main [ILock m LTake] r. pick_new. newok_tac.
  - (* LChInit *)
    inversion H; subst; clear H. bm_tac st t [ILock m (LChInit c)] r. pick_new. newok_tac.
  - (* LChSend *)
    destruct (copen (chs st c)).
    + destruct (cq (chs st c)).
      * destruct (climb_start st (cw (chs st c)) (Some (HChan c))) as [i|] eqn:Ecl; inversion H; subst; clear H;
          bm_tac st t [ILock m (LChSend c m0)] r.
        -- pick_new. intros j Hj. simpl in Hj. destruct Hj as [<-|[<-|[]]]; [eapply climb_at_ok; eauto|simpl; auto].
        -- pick_new. newok_tac.
      * inversion H; subst; clear H. bm_tac st t [ILock m (LChSend c m0)] r. pick_new. newok_tac.
    + inversion H; subst; clear H. bm_tac st t [ILock m (LChSend c m0)] r. pick_new. newok_tac.
  - (* LChClosed *)
    inversion H; subst; clear H. bm_tac st t [ILock m (LChClosed c)] r. pick_new. newok_tac.
  - (* LChClose *)
    destruct (copen (chs st c)) eqn:Eo; inversion H; subst; clear H; bm_tac st t [ILock m (LChClose c)] r; pick_new; newok_tac.
    destruct Wf as [_ [W2 W3]]. apply W2. apply W3. exact Eo.
  - (* LChHandler *)
    unfold ghost_handler in H. inversion H; subst; clear H.
    destruct del; [bm_tac st t [ILock m (LChHandler c true)] r|bm_tac st t [ILock m (LChHandler c false)] r]; pick_new; newok_tac.
  - (* LPqHandler *)
    unfold ghost_handler in H. inversion H; subst; clear H.
    destruct del; [bm_tac st t [ILock m (LPqHandler p true)] r|bm_tac st t [ILock m (LPqHandler p false)] r]; pick_new; newok_tac.
  - (* LPqSend *)
    inversion H; subst; clear H. destruct (psendq (pps st p)); bm_tac st t [ILock m (LPqSend p m0)] r; pick_new; newok_tac.
  - (* LPqCancelSet *)
    inversion H; subst; clear H. bm_tac st t [ILock m (LPqCancelSet p)] r. pick_new. newok_tac.
  - (* LPqRecv *)
    destruct (pcancel (pps st p)); [inversion H; subst; clear H; bm_tac st t [ILock m (LPqRecv p)] r; pick_new; newok_tac|].
    destruct (psendq (pps st p)); inversion H; subst; clear H; bm_tac st t [ILock m (LPqRecv p)] r; pick_new; newok_tac.
  - (* LPqLSend *)
    inversion H; subst; clear H.
    destruct (precvq (pps st p)).
    + destruct (climb_start st (pw (pps st p)) (Some (HPipe p))) as [i|] eqn:Ecl; bm_tac st t [ILock m (LPqLSend p m0)] r.
      * pick_new. intros j Hj. simpl in Hj. destruct Hj as [<-|[<-|[]]]; [simpl; auto|eapply climb_at_ok; eauto].
      * pick_new. newok_tac.
    + bm_tac st t [ILock m (LPqLSend p m0)] r. pick_new. newok_tac.
  - (* LPqCancelGet *)
    inversion H; subst; clear H. bm_tac st t [ILock m (LPqCancelGet p)] r. pick_new. newok_tac.
  - (* LPqPanic *)
    inversion H; subst; clear H. bm_tac st t [ILock m (LPqPanic p)] r. pick_new. newok_tac.
Qed.

Lemma core_ceq_fields : forall st st',
  top st' = top st -> summ st' = summ st -> leaf st' = leaf st -> sl st' = sl st ->
  vlen st' = vlen st -> bmbase st' = bmbase st -> gnotified st' = gnotified st ->
  gnew st' = gnew st -> gcol st' = gcol st ->
  (forall u, tcont (thr st' u) = tcont (thr st u)) ->
  tacc (thr st' main) = tacc (thr st main) ->
  (forall u, tfinal (thr st' u) = tfinal (thr st u)) ->
  ceq (core st) (core st').
Proof.
  intros. constructor; intros; cbn; try congruence.
Qed.

Ltac same_core := apply core_ceq_fields; try reflexivity; thr_simpl.

Lemma exec_uact_inv : forall st t m a r st' ev,
  CInv (core st) -> tcont (thr st t) = IUnlock m a :: r ->
  exec_uact st t a r = (st', ev) -> CInv (core st').
Proof.
  intros st t m a r st' ev I Hc H.
  assert (Hmain : main_only (IUnlock m a) = true -> t = main).
  { intro M. destruct (Nat.eq_dec t main); auto. exfalso.
    pose proof (i_mainonly _ I t n (IUnlock m a)) as P. cbn [core c_cont] in P. rewrite Hc in P.
    rewrite P in M by (left; reflexivity). discriminate. }
  assert (Hsh : ([IUnlock m a] = [] /\ r = []) \/ exists i, [IUnlock m a] = [i] /\ consumable i).
  { right. eexists. split; [reflexivity|exact Logic.I]. }
  destruct a; cbn [exec_uact] in H; inversion H; subst; clear H.
  - bm_tac st t [IUnlock m UNone] r. pick_new. newok_tac.
  - bm_tac st t [IUnlock m (URet v)] r. pick_new. newok_tac.
  - assert (t = main) by (apply Hmain; reflexivity). subst t.
    bm_tac st main [IUnlock m (UDels l)] r. pick_new. newok_tac.
  - bm_tac st t [IUnlock m (UChReg c)] r. pick_new. newok_tac.
  - bm_tac st t [IUnlock m (UChPush c m0)] r. pick_new. newok_tac.
  - bm_tac st t [IUnlock m (UChClear c)] r. pick_new. newok_tac.
  - bm_tac st t [IUnlock m (UFwd c msgs)] r. pick_new. newok_tac.
  - bm_tac st t [IUnlock m (UPqFwd p msgs term)] r. pick_new. newok_tac.
Qed.

(** ** the climb steps *)
Lemma osome_ovjoin : forall a b, osome (ovjoin a b) = true.
Proof. intros [x|] b; reflexivity. Qed.

Lemma exec_climb_inv : forall st t k r st' ev,
  CInv (core st) -> tcont (thr st t) = IClimb k :: r ->
  exec_climb st t k r = (st', ev) -> CInv (core st').
Proof.
  intros st t k r st' ev I Hc H. destruct k; cbn [exec_climb] in H; inversion H; subst; clear H.
  - (* leaf *)
    eapply CInv_ceq; [|eapply (pres_leaf_or (core st) t bm a b who r); eauto].
    assert (Hcr : credit (core st) bm a b =
                  match bitmap_join a b (bmbase st bm) with Some x => slab_get (sl st) x | None => None end) by reflexivity.
    destruct (bitmap_join a b (bmbase st bm)) as [x|] eqn:Ej; [destruct (slab_get (sl st) x) as [h0|] eqn:Eg|];
      (constructor; intros; try (cbn; reflexivity);
       [ cbn [c_new f_leaf_or]; rewrite Hcr; cbn; unfold updH; try destruct (hkind_eqb h h0); rewrite ?osome_ovjoin; reflexivity
       | cbn; destruct (leaf st bm a =? 0); unfold updN, updT, th; cbn -[Nat.eqb]; eqbs; reflexivity
       | cbn; destruct (leaf st bm a =? 0); unfold updN, th; cbn -[Nat.eqb]; eqbs; try reflexivity; congruence
       | cbn; destruct (leaf st bm a =? 0); unfold updN, updT, th; cbn -[Nat.eqb]; eqbs; reflexivity ]).
  - (* summary *)
    eapply CInv_ceq; [|eapply (pres_summ_or (core st) t bm a r); eauto].
    constructor; intros; try (cbn; reflexivity).
    + cbn. destruct (summ st bm =? 0); unfold updN, updT, th; cbn -[Nat.eqb]; eqbs; reflexivity.
    + cbn. destruct (summ st bm =? 0); unfold updN, th; cbn -[Nat.eqb]; eqbs; try reflexivity; congruence.
    + cbn. destruct (summ st bm =? 0); unfold updN, updT, th; cbn -[Nat.eqb]; eqbs; reflexivity.
  - (* top *)
    eapply CInv_ceq; [|eapply (pres_top_or (core st) t bm r); eauto].
    constructor; intros; try (cbn; reflexivity).
    + cbn. destruct (top st =? 0); unfold updN, updT, th; cbn -[Nat.eqb]; eqbs; reflexivity.
    + cbn. destruct (top st =? 0); unfold updN, th; cbn -[Nat.eqb]; eqbs; try reflexivity; congruence.
    + cbn. destruct (top st =? 0); unfold updN, updT, th; cbn -[Nat.eqb]; eqbs; reflexivity.
  - (* callback *)
    eapply CInv_ceq; [|eapply (pres_cb (core st) t r); eauto].
    constructor; intros; try (cbn; reflexivity).
    + cbn. unfold updN, updT, th; cbn -[Nat.eqb]; eqbs; reflexivity.
    + cbn. unfold updN, th; cbn -[Nat.eqb]; eqbs; try reflexivity; congruence.
    + cbn. unfold updN, updT, th; cbn -[Nat.eqb]; eqbs; reflexivity.
Qed.

(** ** the drain steps *)
Lemma osome_oojoin : forall a b, osome (oojoin a b) = osome a || osome b.
Proof. intros [x|] [y|]; reflexivity. Qed.

Lemma ghost_collect_spec : forall bits st g,
  (forall h, fst g h = osome (gnew st h)) -> (forall h, snd g h = osome (gcol st h)) ->
  let st' := ghost_collect st bits in
  top st' = top st /\ summ st' = summ st /\ leaf st' = leaf st /\ sl st' = sl st /\ vlen st' = vlen st /\
  bmbase st' = bmbase st /\ gnotified st' = gnotified st /\ thr st' = thr st /\
  (forall h, osome (gnew st' h) = fst (cg_collect (sl st) bits g) h) /\
  (forall h, osome (gcol st' h) = snd (cg_collect (sl st) bits g) h).
Proof.
  induction bits as [|b bits IH]; intros st g H1 H2; cbn zeta.
  - cbn. repeat split; auto.
  - unfold ghost_collect. cbn [fold_left cg_collect].
    destruct (slab_get (sl st) b) as [h0|] eqn:E.
    + set (st1 := set_gnew (set_gcol st (updH (gcol st) h0 (oojoin (gcol st h0) (gnew st h0)))) (updH (gnew (set_gcol st (updH (gcol st) h0 (oojoin (gcol st h0) (gnew st h0))))) h0 None)).
      specialize (IH st1 (updH (fst g) h0 false, updH (snd g) h0 (snd g h0 || fst g h0))).
      cbn zeta in IH. unfold ghost_collect in IH.
      assert (Hs : sl st1 = sl st) by reflexivity. rewrite Hs in IH.
      destruct IH as [A1 [A2 [A3 [A4 [A5 [A6 [A7 [A8 [A9 A10]]]]]]]]].
      * intro h. cbn. unfold updH. destruct (hkind_eqb h h0); auto.
      * intro h. cbn. unfold updH. destruct (hkind_eqb h h0) eqn:Eh; auto.
        apply hkind_eqb_eq in Eh. subst. rewrite osome_oojoin, H1, H2. reflexivity.
      * repeat split; auto.
    + apply IH; auto.
Qed.

Lemma notify_fold_spec : forall us st,
  let st' := fold_left (fun s u => upd_th s u (set_twaiting (th s u) false)) us st in
  top st' = top st /\ summ st' = summ st /\ leaf st' = leaf st /\ sl st' = sl st /\ vlen st' = vlen st /\
  bmbase st' = bmbase st /\ gnotified st' = gnotified st /\ gnew st' = gnew st /\ gcol st' = gcol st /\
  (forall u, tcont (thr st' u) = tcont (thr st u)) /\ (forall u, tacc (thr st' u) = tacc (thr st u)) /\
  (forall u, tfinal (thr st' u) = tfinal (thr st u)).
Proof.
  induction us as [|v us IH]; intros st; cbn zeta.
  - cbn. repeat split; auto.
  - cbn [fold_left]. specialize (IH (upd_th st v (set_twaiting (th st v) false))). cbn zeta in IH.
    destruct IH as [A1 [A2 [A3 [A4 [A5 [A6 [A7 [A8 [A9 [A10 [A11 A12]]]]]]]]]]].
    repeat split; try (etransitivity; [eassumption|reflexivity]).
    + intro u. rewrite A10. cbn. unfold updN, th. destruct (Nat.eqb_spec u v); subst; reflexivity.
    + intro u. rewrite A11. cbn. unfold updN, th. destruct (Nat.eqb_spec u v); subst; reflexivity.
    + intro u. rewrite A12. cbn. unfold updN, th. destruct (Nat.eqb_spec u v); subst; reflexivity.
Qed.

Lemma main_of_mainonly : forall st t i r,
  CInv (core st) -> tcont (thr st t) = i :: r -> main_only i = true -> t = main.
Proof.
  intros st t i r I Hc M. destruct (Nat.eq_dec t main); auto. exfalso.
  pose proof (i_mainonly _ I t n i) as P. cbn [core c_cont] in P. rewrite Hc in P.
  rewrite P in M by (left; reflexivity). discriminate.
Qed.

Lemma exec_instr_inv : forall st t i r st' ev,
  CInv (core st) -> wfi st -> tcont (thr st t) = i :: r ->
  exec_instr st t i r = (st', ev) -> CInv (core st').
Proof.
  intros st t i r st' ev I Wf Hc H.
  destruct i; cbn [exec_instr] in H.
  - eapply exec_climb_inv; eauto.
  - (* ITopSwap *)
    assert (t = main) by (eapply main_of_mainonly; eauto). subst t.
    inversion H; subst; clear H.
    eapply CInv_ceq; [|eapply (pres_top_swap (core st) r); eauto].
    constructor; intros; try (cbn; reflexivity);
      cbn; unfold updN, updT, th; cbn -[Nat.eqb]; eqbs; try reflexivity; congruence.
  - (* IBms *)
    assert (t = main) by (eapply main_of_mainonly; eauto). subst t.
    destruct bms as [|bm bms]; inversion H; subst; clear H; [exact I|].
    eapply CInv_ceq; [|eapply (pres_summ_swap (core st) bm bms r); eauto].
    constructor; intros; try (cbn; reflexivity);
      cbn; unfold updN, updT, th; cbn -[Nat.eqb]; eqbs; try reflexivity; congruence.
  - (* ILeaves *)
    assert (t = main) by (eapply main_of_mainonly; eauto). subst t.
    destruct ls as [|a ls]; [inversion H; subst; exact I|].
    destruct (collect (bmbase st bm) a (leaf st bm a)) as [bits ok] eqn:Ecol.
    remember (set_leaf (rmw_clk st main (WLeaf bm a))
                  (fun x y => if (x =? bm) && (y =? a) then 0 else leaf (rmw_clk st main (WLeaf bm a)) x y)) as st2 eqn:Est2.
    remember (ghost_collect st2 bits) as st3 eqn:Est3.
    inversion H; subst st' ev; clear H.
    destruct (ghost_collect_spec bits st2 (c_new (core st), c_col (core st)))
      as [A1 [A2 [A3 [A4 [A5 [A6 [A7 [A8 [A9 A10]]]]]]]]]; try (intro; subst st2; reflexivity).
    rewrite <- Est3 in A1, A2, A3, A4, A5, A6, A7, A8, A9, A10.
    assert (Esl : sl st2 = sl st) by (subst st2; reflexivity). rewrite Esl in A9, A10.
    eapply CInv_ceq; [|eapply (pres_leaf_swap (core st) bm a ls r); eauto].
    assert (Eb : fst (collect (c_base (core st) bm) a (c_leaf (core st) bm a)) = bits).
    { change (fst (collect (bmbase st bm) a (leaf st bm a)) = bits). rewrite Ecol. reflexivity. }
    clear Est3.
    constructor; intros.
    + cbn. rewrite A1. subst st2. reflexivity.
    + cbn. rewrite A2. subst st2. reflexivity.
    + cbn. rewrite A3. subst st2. reflexivity.
    + cbn. rewrite A4. subst st2. reflexivity.
    + cbn. rewrite A5. subst st2. reflexivity.
    + cbn. rewrite A6. subst st2. reflexivity.
    + cbn. rewrite A7. subst st2. reflexivity.
    + rewrite f_leaf_swap_new, Eb. cbn. rewrite A9. reflexivity.
    + rewrite f_leaf_swap_col, Eb. cbn. rewrite A10. reflexivity.
    + cbn. unfold updN, updT, th. rewrite A8. subst st2. cbn -[Nat.eqb]. unfold updN, th. cbn -[Nat.eqb]. eqbs; reflexivity.
    + rewrite f_leaf_swap_acc, Eb. cbn. unfold updN, th. rewrite A8. subst st2. cbn. unfold updN, th. cbn. reflexivity.
    + cbn. unfold updN, th. rewrite A8. subst st2. cbn -[Nat.eqb]. unfold updN, th. cbn -[Nat.eqb]. eqbs; reflexivity.
  - (* IRun *) inversion H; subst; exact I.
  - (* IHandlers *) inversion H; subst; exact I.
  - (* IDels *) inversion H; subst; exact I.
  - (* ILock *)
    destruct (exec_lact (acq_mtx (set_owner st (updM (owner st) m (Some t))) t m) t a r) as [st2 ev2] eqn:E.
    inversion H; subst; clear H.
    eapply (exec_lact_inv _ t m a r); [| | |exact E].
    + eapply CInv_ceq; [|exact I]. same_core.
    + exact Wf.
    + thr_simpl.
  - (* IUnlock *)
    destruct (exec_uact st t a r) as [st1 ev1] eqn:E. inversion H; subst; clear H.
    eapply CInv_ceq; [|eapply (exec_uact_inv st t m a r); eauto]. same_core.
  - (* ICvWait *)
    inversion H; subst; clear H.
    eapply (benign_model' st _ t [ICvWait p] r); eauto; try thr_simpl; try (nohstart; fail).
    + right. eexists. split; [reflexivity|exact Logic.I].
    + pick_new. newok_tac.
  - (* ICvReacq *)
    cbn [exec_lact] in H.
    assert (Hsh : ([ICvReacq p] = [] /\ r = []) \/ exists i, [ICvReacq p] = [i] /\ consumable i).
    { right. eexists. split; [reflexivity|exact Logic.I]. }
    unfold acq_mtx in H. cbn -[Nat.eqb] in H.
    destruct (pcancel (pps st p)).
    + inversion H; subst; clear H. bm_tac st t [ICvReacq p] r. pick_new. newok_tac.
    + destruct (psendq (pps st p)); inversion H; subst; clear H; bm_tac st t [ICvReacq p] r; pick_new; newok_tac.
  - (* INotify *)
    inversion H; subst; clear H.
    match goal with |- CInv (core (set_cont (fold_left ?f ?us st) t r)) =>
      destruct (notify_fold_spec us st) as [A1 [A2 [A3 [A4 [A5 [A6 [A7 [A8 [A9 [A10 [A11 A12]]]]]]]]]]];
      set (st1 := fold_left f us st) in * end.
    eapply (benign_model' st _ t [INotify p] r); eauto; try (cbn; congruence).
    + right. eexists. split; [reflexivity|exact Logic.I].
    + nohstart.
    + intros u Hu. cbn. unfold updN, th. destruct (Nat.eqb_spec u t); [congruence|]. apply A10.
    + cbn. unfold updN, th. destruct (Nat.eqb_spec main t); subst; cbn; apply A11.
    + intros u. cbn. unfold updN, th. destruct (Nat.eqb_spec u t); subst; cbn; apply A12.
    + cbn. unfold updN, th. rewrite Nat.eqb_refl. cbn. pick_new. newok_tac.
  - (* IYieldH *)
    unfold ghost_handler in H. inversion H; subst; clear H.
    assert (Hsh : forall d, ([IYieldH h d] = [] /\ r = []) \/ exists i, [IYieldH h d] = [i] /\ consumable i).
    { intro d. right. eexists. split; [reflexivity|exact Logic.I]. }
    destruct del; [bm_tac st t [IYieldH h true] r|bm_tac st t [IYieldH h false] r]; pick_new; newok_tac.
  - (* IJoin *)
    inversion H; subst; clear H.
    eapply (benign_model' st _ t [IJoin] r); eauto; try thr_simpl; try (nohstart; fail).
    + right. eexists. split; [reflexivity|exact Logic.I].
    + pick_new. newok_tac.
  - (* IIdle *)
    inversion H; subst; clear H.
    eapply (benign_model' st _ t [IIdle] r); eauto; try thr_simpl; try (nohstart; fail).
    + right. eexists. split; [reflexivity|exact Logic.I].
    + pick_new. newok_tac.
Qed.

(** ** start of a command *)
Lemma wh_add_core : forall st h st1 wi,
  wh_add st h = Some (st1, wi) ->
  exists c1, c_add (core st) h = Some (c1, wi) /\ ceq c1 (core st1) /\
             thr st1 = thr st /\ nthr st1 = nthr st /\ scripts st1 = scripts st /\ nfill st1 = nfill st /\
             wreg st1 = wreg st /\ wused st1 = wused st /\ chs st1 = chs st /\ pps st1 = pps st.
Proof.
  intros st h st1 wi H. unfold wh_add in H. unfold c_add. cbn [core c_sl c_vlen c_base].
  destruct (slab_insert (sl st) h) as [bit0 s0].
  destruct (add_loop 2 s0 h bit0) as [[[bit base] s1]|]; [|discriminate].
  destruct (waker_vec_index bit) as [vi|]; [|discriminate].
  destruct (waker_slot bit) as [slot|]; [|discriminate].
  inversion H; subst; clear H.
  eexists. split; [reflexivity|]. split; [|repeat split; reflexivity].
  constructor; intros; cbn; reflexivity.
Qed.

Lemma add_model : forall st h st1 wi,
  CInv (core st) -> h <> HReserved -> wh_add st h = Some (st1, wi) -> CInv (core st1).
Proof.
  intros st h st1 wi I Hh H. destruct (wh_add_core st h st1 wi H) as [c1 [A [B _]]].
  eapply CInv_ceq; [exact B|]. eapply pres_add; eauto.
Qed.

(** [add] and the registry *)
Lemma wh_add_reg : forall st h st1 wi,
  CInv (core st) -> h <> HReserved -> wh_add st h = Some (st1, wi) ->
  (forall bm, registered st bm = true -> registered st1 bm = true) /\ registered st1 (wbm wi) = true.
Proof.
  intros st h st1 wi I Hh H.
  pose proof (i_slab _ I) as S.
  destruct (wh_add_core st h st1 wi H) as [c1 [A [B _]]].
  pose proof (c_add_spec (core st) h c1 wi S Hh A) as P.
  assert (S1 : SInv (core st1)).
  { eapply (i_slab (core st1)). eapply CInv_ceq; [exact B|]. eapply pres_add; eauto. }
  assert (El : slen (c_sl c1) = slen (sl st1)) by (destruct B as [? ? ? Q ? ? ? ? ? ? ? ?]; rewrite Q; reflexivity).
  split.
  - intros bm Hr. change (creg (core st1) bm = true). apply creg_iff; auto.
    change (creg (core st) bm = true) in Hr. apply creg_iff in Hr; auto.
    pose proof (ap_len _ _ _ _ P). cbn [core c_sl] in *. lia.
  - change (creg (core st1) (wbm wi) = true). apply creg_iff; auto.
    rewrite (ap_bm _ _ _ _ P). destruct (ap_bit _ _ _ _ P) as [[Hb0 Hb1] _].
    pose proof (ap_get _ _ _ _ P) as G. apply slab_get_some in G. destruct G as [G _].
    cbn [core c_sl]. rewrite <- El. split; [apply Z.div_pos; lia|].
    assert (4096 * (wbit wi / 4096) <= wbit wi) by (apply Z.mul_div_le; lia). lia.
Qed.

Lemma fill_loop_inv : forall n st ev st' ev',
  CInv (core st) -> wfi st -> fill_loop n st ev = (st', ev') ->
  CInv (core st') /\ thr st' = thr st /\ nthr st' = nthr st /\ wfi st'.
Proof.
  induction n as [|n IH]; intros st ev st' ev' I Wf H; cbn [fill_loop] in H.
  - inversion H; subst. auto.
  - destruct (wh_add st (HPlain (1000000 + nfill st))) as [[st1 wi]|] eqn:E.
    + destruct (wh_add_core _ _ _ _ E) as [c1 [A [B [C1 [C2 [C3 [C4 [C5 [C6 [C7 C8]]]]]]]]]].
      assert (I1 : CInv (core st1)) by (eapply (add_model st _ st1 wi I); [|exact E]; discriminate).
      apply IH in H.
      * destruct H as [H1 [H2 [H3 H4]]]. split; auto. cbn in H2, H3. split; [congruence|]. split; [congruence|auto].
      * eapply CInv_ceq; [|exact I1]. same_core.
      * destruct (wh_add_reg st (HPlain (1000000 + nfill st)) st1 wi I ltac:(discriminate) E) as [R _].
        destruct Wf as [W1 [W2 W3]]. split; [|split].
        -- intros w0 wi0. cbn. rewrite C5. intro E0. apply R. eapply W1; eauto.
        -- intros c0. cbn. rewrite C7. intro E0. apply R. apply W2; auto.
        -- intros c0. cbn. rewrite C7. apply W3.
    + inversion H; subst. auto.
Qed.

Lemma spawn_inv : forall st t p final,
  CInv (core st) -> pristine st -> (forall i, In i final -> okfinal_c (core st) i) ->
  CInv (core (spawn_thread st t p final)) /\ pristine (spawn_thread st t p final).
Proof.
  intros st t p final I [P0 P] Hf. split.
  - eapply CInv_ceq; [|eapply (pres_setfinal (core st) (nthr st) final); eauto].
    destruct (P (nthr st) (le_n _)) as [Pc Pf].
    constructor; intros; try (cbn; reflexivity).
    + cbn. unfold updN, th. destruct (Nat.eqb_spec t0 (nthr st)); subst; cbn; auto.
    + cbn. unfold updN, th. destruct (Nat.eqb_spec main (nthr st)) as [E|E]; [unfold main in E; lia|reflexivity].
    + cbn. unfold updN, updT, th. destruct (Nat.eqb_spec t0 (nthr st)); subst; cbn; auto.
  - split; [cbn; lia|]. intros u Hu. cbn in Hu. cbn. unfold updN, th.
    destruct (Nat.eqb_spec u (nthr st)); [lia|]. apply P. lia.
Qed.

Lemma pristine_upd : forall st st' t,
  pristine st -> (t < nthr st)%nat -> nthr st' = nthr st ->
  (forall u, u <> t -> thr st' u = thr st u) -> pristine st'.
Proof.
  intros st st' t [P0 P] Ht Hn Ho. split; [lia|]. intros u Hu. rewrite Ho by lia. apply P. lia.
Qed.

Ltac prist st t := eapply (pristine_upd st _ t); eauto; thr_simpl.

Ltac bm0 st t :=
  eapply (benign_model' st _ t [] []); eauto; try (intros ? ? ? []; fail); try thr_simpl; try (nohstart; fail).

Ltac wfi_same st := apply (wfi_frame st); auto; intros; cbn in *; unfold updZ in *; cbn in *;
  repeat match goal with
         | |- context [?a =? ?b] => destruct (Z.eqb_spec a b); subst
         | H : context [?a =? ?b] |- _ => destruct (Z.eqb_spec a b); subst
         end; cbn in *; auto; try congruence; try (repeat split; auto; congruence).

Lemma begin_cmd_inv : forall st t c st' ev done,
  CInv (core st) -> pristine st -> wfi st -> tcont (thr st t) = [] -> (t < nthr st)%nat ->
  begin_cmd st t c = (st', ev, done) -> CInv (core st') /\ pristine st' /\ wfi st'.
Proof.
  intros st t c st' ev done I P Wf Hc Ht H.
  pose proof (i_slab _ I) as S.
  assert (Hc0 : tcont (thr st t) = [] ++ []) by exact Hc.
  assert (Hsh : ((@nil instr) = [] /\ (@nil instr) = []) \/ exists i, (@nil instr) = [i] /\ consumable i) by (left; auto).
  destruct c; cbn [begin_cmd] in H.
  - (* CWake *)
    destruct (wreg st w) as [wi|]; [|inversion H; subst; auto].
    destruct (climb_start st wi (Some (HPlain w))) as [i|] eqn:E; inversion H; subst; clear H; [|auto].
    split; [|split; [prist st t|wfi_same st]].
    bm0 st t. pick_new. intros j Hj. inv_pre Hj. eapply climb_at_ok; eauto.
  - (* CDropW *)
    destruct (wreg st w) as [wi|] eqn:Ew; [|inversion H; subst; auto].
    destruct (wbusy st w); inversion H; subst; clear H.
    + split; [|split; [prist st t|wfi_same st; try discriminate]].
      bm0 st t. pick_new. newok_tac. destruct Wf as [W1 _]. eapply W1; eauto.
    + split; [|split; [prist st t|wfi_same st; try discriminate]]. eapply CInv_ceq; [|exact I]. same_core.
  - (* CSend *)
    destruct (Waker.creg (chs st c)); inversion H; subst; clear H; [|auto].
    split; [|split; [prist st t|wfi_same st]]. bm0 st t. pick_new. newok_tac.
  - (* CClosed *)
    destruct (Waker.creg (chs st c)); inversion H; subst; clear H; [|auto].
    split; [|split; [prist st t|wfi_same st]]. bm0 st t. pick_new. newok_tac.
  - (* CNew *)
    destruct (negb (is_main t) || wused st w || (1000000 <=? w) || (w <? 0)); [inversion H; subst; auto|].
    destruct (wh_add st (HPlain w)) as [[st1 wi]|] eqn:E; inversion H; subst; clear H; [|auto].
    destruct (wh_add_core _ _ _ _ E) as [c1 [A [B [C1 [C2 [C3 [C4 [C5 [C6 [C7 C8]]]]]]]]]].
    destruct (wh_add_reg st (HPlain w) st1 wi I ltac:(discriminate) E) as [R1 R2].
    split; [|split].
    + eapply CInv_ceq; [|eapply (add_model st _ st1 wi I); [|exact E]; discriminate]. same_core.
    + destruct P as [P0 P]. split; cbn; rewrite ?C2; auto. intros u Hu. rewrite C1. apply P. lia.
    + destruct Wf as [W1 [W2 W3]]. split; [|split].
      * intros w0 wi0. cbn. unfold updZ. destruct (Z.eqb_spec w0 w); subst.
        -- intro E0. inversion E0; subst. exact R2.
        -- rewrite C5. intro E0. apply R1. eapply W1; eauto.
      * intros c0. cbn. rewrite C7. intro E0. apply R1. apply W2; auto.
      * intros c0. cbn. rewrite C7. apply W3.
  - (* CFill *)
    destruct (negb (is_main t)); [inversion H; subst; auto|].
    destruct (fill_loop (Z.to_nat n) st []) as [st1 ev1] eqn:E. inversion H; subst; clear H.
    destruct (fill_loop_inv _ _ _ _ _ I Wf E) as [A [B [C D]]]. split; auto. split; auto.
    destruct P as [P0 P]. split; rewrite ?C; auto. intros u Hu. rewrite B. apply P. lia.
  - (* CPoll *)
    destruct (is_main t) eqn:Em; cbn [negb] in H; inversion H; subst; clear H; [|auto].
    unfold is_main in Em. apply Nat.eqb_eq in Em. subst t.
    split; [|split; [prist st 0%nat|wfi_same st]].
    eapply CInv_ceq; [|eapply (pres_poll_begin (core st)); eauto].
    constructor; intros; try (cbn; reflexivity);
      cbn; unfold updN, updT, th, main; cbn -[Nat.eqb]; eqbs; try reflexivity; congruence.
  - (* CPollIf *)
    destruct (is_main t) eqn:Em; cbn [negb] in H; [|inversion H; subst; auto].
    destruct (gnotified st); inversion H; subst; clear H; [|auto].
    unfold is_main in Em. apply Nat.eqb_eq in Em. subst t.
    split; [|split; [prist st 0%nat|wfi_same st]].
    eapply CInv_ceq; [|eapply (pres_poll_begin (core st)); eauto].
    constructor; intros; try (cbn; reflexivity);
      cbn; unfold updN, updT, th, main; cbn -[Nat.eqb]; eqbs; try reflexivity; congruence.
  - (* CSpawn *)
    destruct (negb (is_main t)); inversion H; subst; clear H; [auto|].
    destruct (spawn_inv st t (-1) [] I P) as [A B]; [intros i []|]. split; auto.
  - (* CJoin *)
    destruct (negb (is_main t)); inversion H; subst; clear H; [auto|].
    split; [|split; [prist st t|wfi_same st]]. bm0 st t. pick_new. newok_tac.
  - (* CWaitIdle *)
    destruct (negb (is_main t)); inversion H; subst; clear H; [auto|].
    split; [|split; [prist st t|wfi_same st]]. bm0 st t. pick_new. newok_tac.
  - (* CCNew *)
    destruct (negb (is_main t) || cexists (chs st c)) eqn:Eg; [inversion H; subst; auto|].
    destruct (wh_add st (HChan c)) as [[st1 wi]|] eqn:E; inversion H; subst; clear H; [|auto].
    destruct (wh_add_core _ _ _ _ E) as [c1 [A [B [C1 [C2 [C3 [C4 [C5 [C6 [C7 C8]]]]]]]]]].
    destruct (wh_add_reg st (HChan c) st1 wi I ltac:(discriminate) E) as [R1 R2].
    assert (I1 : CInv (core st1)) by (eapply (add_model st _ st1 wi I); [|exact E]; discriminate).
    split; [|split].
    + eapply (benign_model' st1 _ t [] []); eauto; try (intros ? ? ? []; fail); try thr_simpl.
      pick_new. newok_tac.
    + destruct P as [P0 P]. split; cbn; rewrite ?C2; auto. intros u Hu. unfold updN, th.
      destruct (Nat.eqb_spec u t); [lia|]. rewrite C1. apply P. lia.
    + destruct Wf as [W1 [W2 W3]]. apply orb_false_iff in Eg. destruct Eg as [_ Eg]. split; [|split].
      * intros w0 wi0. cbn. rewrite C5. intro E0. apply R1. eapply W1; eauto.
      * intros c0. cbn. unfold updZ. rewrite C7. destruct (Z.eqb_spec c0 c); subst; cbn; [intros _; exact R2|].
        intro E0. apply R1. apply W2; auto.
      * intros c0. cbn. unfold updZ. rewrite C7. destruct (Z.eqb_spec c0 c); subst; cbn; [auto|]. apply W3.
  - (* CCDrop *)
    destruct (negb (is_main t) || negb (cguard (chs st c))); inversion H; subst; clear H; [auto|].
    split; [|split; [prist st t|wfi_same st]]. bm0 st t. pick_new. newok_tac.
  - (* CPNew *)
    destruct (negb (is_main t) || pexists (pps st p)); [inversion H; subst; auto|].
    destruct (wh_add st (HPipe p)) as [[st1 wi]|] eqn:E; inversion H; subst; clear H; [|auto].
    destruct (wh_add_core _ _ _ _ E) as [c1 [A [B [C1 [C2 [C3 [C4 [C5 [C6 [C7 C8]]]]]]]]]].
    destruct (wh_add_reg st (HPipe p) st1 wi I ltac:(discriminate) E) as [R1 R2].
    assert (I1 : CInv (core st1)) by (eapply (add_model st _ st1 wi I); [|exact E]; discriminate).
    match goal with |- CInv (core (spawn_thread ?S t p ?F)) /\ _ => destruct (spawn_inv S t p F) as [X Y] end.
    + eapply CInv_ceq; [|exact I1]. same_core.
    + destruct P as [P0 P]. split; cbn; rewrite ?C2; auto. intros u Hu. rewrite C1. apply P. lia.
    + intros i Hi. inv_pre Hi. exact R2.
    + split; auto. split; auto.
      destruct Wf as [W1 [W2 W3]]. split; [|split].
      * intros w0 wi0. cbn. rewrite C5. intro E0. apply R1. eapply W1; eauto.
      * intros c0. cbn. rewrite C7. intro E0. apply R1. apply W2; auto.
      * intros c0. cbn. rewrite C7. apply W3.
  - (* CPSend *)
    destruct (negb (is_main t) || negb (phandle (pps st p))); inversion H; subst; clear H; [auto|].
    split; [|split; [prist st t|wfi_same st]]. bm0 st t. pick_new. newok_tac.
  - (* CPDrop *)
    destruct (negb (is_main t) || negb (phandle (pps st p))); inversion H; subst; clear H; [auto|].
    split; [|split; [prist st t|wfi_same st]]. bm0 st t. pick_new. newok_tac.
  - (* CRecv *)
    destruct (tpipe (th st t) <? 0); inversion H; subst; clear H; [auto|].
    split; [|split; [prist st t|wfi_same st]]. bm0 st t. pick_new. newok_tac.
  - (* CLSend *)
    destruct (tpipe (th st t) <? 0); inversion H; subst; clear H; [auto|].
    split; [|split; [prist st t|wfi_same st]]. bm0 st t. pick_new. newok_tac.
  - (* CCancel *)
    destruct (tpipe (th st t) <? 0); inversion H; subst; clear H; [auto|].
    split; [|split; [prist st t|wfi_same st]]. bm0 st t. pick_new. newok_tac.
  - (* CPanic *)
    destruct (tpipe (th st t) <? 0); inversion H; subst; clear H; [auto|].
    split; [|split].
    + eapply CInv_ceq; [|eapply (pres_setfinal (core st) t (ILock (MPq (tpipe (th st t))) (LPqPanic (tpipe (th st t))) :: tfinal (th st t))); eauto].
      * constructor; intros; try (cbn; reflexivity);
          cbn; unfold updN, updT, th; cbn -[Nat.eqb]; eqbs; try reflexivity; congruence.
      * intros i [<-|Hi]; [exact Logic.I|]. eapply (i_final _ I t); eauto.
    + destruct P as [P0 P]. split; auto. intros u Hu. cbn in Hu. cbn. unfold updN, th.
      destruct (Nat.eqb_spec u t); [lia|]. apply P; auto.
    + wfi_same st.
Qed.

(** ** end of a step: normalisation, completion, exit sequence *)
Definition NS (st : wstate) (s : slabt) (acc : list Z) (k : list instr) : wstate :=
  set_sl (upd_th st main (set_tacc (set_tcont (th st main) k) acc)) s.

Lemma NS_ceq : forall st s acc k,
  ceq (set_norm (core st) s acc k) (core (NS st s acc k)).
Proof.
  intros. constructor; intros; try (cbn; reflexivity);
    cbn; unfold updN, updT, th, main; cbn -[Nat.eqb]; eqbs; try reflexivity; congruence.
Qed.

Lemma NS_NS : forall st s acc k s' acc' k',
  ceq (core (NS (NS st s acc k) s' acc' k')) (core (NS st s' acc' k')).
Proof.
  intros. constructor; intros; try (cbn; reflexivity);
    cbn; unfold updN, updT, th, main; cbn -[Nat.eqb]; eqbs; try reflexivity; congruence.
Qed.

Lemma norm_main_inv : forall fuel st s acc k ev s1 acc1 k1 ev1,
  CInv (core (NS st s acc k)) -> norm fuel s acc k ev = (s1, acc1, k1, ev1) ->
  CInv (core (NS st s1 acc1 k1)).
Proof.
  induction fuel as [|f IH]; intros st s acc k ev s1 acc1 k1 ev1 I H; cbn [norm] in H.
  - inversion H; subst. exact I.
  - assert (Step : forall s' acc' k', f_norm1 (core (NS st s acc k)) = Some (set_norm (core (NS st s acc k)) s' acc' k') ->
                                      CInv (core (NS st s' acc' k'))).
    { intros s' acc' k' E. eapply pres_norm1 in E; eauto.
      eapply CInv_ceq; [|exact E]. eapply ceq_trans; [apply NS_ceq|apply NS_NS]. }
    destruct k as [|i r]; [inversion H; subst; exact I|].
    destruct i as [c| |[|bm bms]|bm [|a ls]| |[|b bs]|[|b bs]| | | | | | | |];
      try (inversion H; subst; exact I).
    + eapply IH; [|exact H]. apply Step. reflexivity.
    + eapply IH; [|exact H]. apply Step. reflexivity.
    + eapply IH; [|exact H]. apply Step. reflexivity.
    + eapply IH; [|exact H]. apply Step. reflexivity.
    + destruct (slab_get s b) as [h|] eqn:E.
      * inversion H; subst. apply Step. cbn. unfold updN, th, main. cbn. rewrite E. reflexivity.
      * eapply IH; [|exact H]. apply Step. cbn. unfold updN, th, main. cbn. rewrite E. reflexivity.
    + eapply IH; [|exact H]. apply Step. reflexivity.
    + destruct (wh_del s b) as [[h s']|] eqn:E.
      * inversion H; subst. apply Step. cbn. unfold updN, th, main. cbn. rewrite E. reflexivity.
      * eapply IH; [|exact H]. apply Step. cbn. unfold updN, th, main. cbn. rewrite E. reflexivity.
Qed.

Lemma norm_id : forall fuel s acc k ev,
  (forall i, In i k -> main_only i = false) -> norm fuel s acc k ev = (s, acc, k, ev).
Proof.
  intros fuel s acc k ev Hk. destruct fuel; [reflexivity|]. cbn [norm].
  destruct k as [|i r]; [reflexivity|].
  pose proof (Hk i (or_introl eq_refl)) as M.
  destruct i as [c| |[|bm bms]|bm [|a ls]| |[|b bs]|[|b bs]| | | | | | | |]; try reflexivity; discriminate.
Qed.

Lemma settle_inv : forall st t ev done st' ev',
  CInv (core st) -> pristine st -> (t < nthr st)%nat ->
  settle st t ev done = (st', ev') -> CInv (core st') /\ pristine st'.
Proof.
  intros st t ev done st' ev' I P Ht H. unfold settle in H.
  set (x := th st t) in *.
  destruct (norm (2 * (cont_size (tcont x) + length (tacc x)) + 2) (sl st) (tacc x) (tcont x) ev)
    as [[[s1 acc1] k1] ev1] eqn:En.
  set (st1 := set_sl (upd_th st t (set_tacc (set_tcont x k1) acc1)) s1) in *.
  assert (I1 : CInv (core st1) /\ pristine st1).
  { split.
    - destruct (Nat.eq_dec t main) as [->|Hn].
      + change st1 with (NS st s1 acc1 k1). eapply norm_main_inv; [|exact En].
        eapply CInv_ceq; [|exact I]. unfold NS, x. same_core.
      + rewrite norm_id in En.
        * inversion En; subst s1 acc1 k1 ev1. eapply CInv_ceq; [|exact I]. unfold st1, x. same_core.
        * intros i Hi. eapply (i_mainonly _ I t Hn). exact Hi.
    - unfold st1. prist st t. }
  destruct I1 as [I1 P1].
  assert (Ht1 : (t < nthr st1)%nat) by exact Ht.
  clearbody st1. clear En I P Ht x.
  (* completion *)
  match type of H with (let '(st2, ev2) := ?E in _) = _ => destruct E as [st2 ev2] eqn:E2 end.
  assert (I2 : CInv (core st2) /\ pristine st2 /\ (t < nthr st2)%nat).
  { destruct done as [v|].
    - inversion E2; subst. split; [|split; [prist st1 t|exact Ht1]].
      eapply CInv_ceq; [|exact I1]. same_core.
    - destruct k1 as [|i k1'].
      + destruct (tcur (th st1 t)) as [c|] eqn:Ec.
        * inversion E2; subst st2 ev2; clear E2.
          destruct c; (split; [eapply CInv_ceq; [|exact I1]; same_core | split; [prist st1 t|exact Ht1]]).
        * inversion E2; subst. auto.
      + inversion E2; subst. auto. }
  destruct I2 as [I2 [P2 Ht2]].
  clear E2 I1 P1 Ht1.
  destruct (tcont (th st2 t)) as [|i0 r0] eqn:Ec; [|inversion H; subst; auto].
  destruct (tscript (th st2 t)); [|inversion H; subst; auto].
  destruct (tcur (th st2 t)); [inversion H; subst; auto|].
  destruct (tfinal (th st2 t)) as [|j f] eqn:Ef.
  - inversion H; subst; auto.
  - inversion H; subst st' ev'; clear H. split; [|prist st2 t].
    eapply CInv_ceq; [|eapply (pres_final (core st2) t); eauto].
    constructor; intros; try (cbn; reflexivity);
      cbn; unfold updN, updT, th in *; cbn -[Nat.eqb]; eqbs; try reflexivity; try congruence;
      cbn; rewrite ?Ef; reflexivity.
Qed.

Lemma fill_loop_nthr : forall n st ev st' ev', fill_loop n st ev = (st', ev') -> nthr st' = nthr st.
Proof.
  induction n as [|n IH]; intros st ev st' ev' H; cbn [fill_loop] in H.
  - inversion H; subst; auto.
  - destruct (wh_add st (HPlain (1000000 + nfill st))) as [[st1 wi]|] eqn:E.
    + destruct (wh_add_core _ _ _ _ E) as [c1 [A [B [C1 [C2 _]]]]].
      apply IH in H. cbn in H. congruence.
    + inversion H; subst; auto.
Qed.

Lemma begin_cmd_nthr : forall st t c st' ev done,
  begin_cmd st t c = (st', ev, done) -> (nthr st <= nthr st')%nat.
Proof.
  intros st t c st' ev done H.
  destruct c; cbn [begin_cmd] in H.
  - destruct (wreg st w); [destruct (climb_start st w0 (Some (HPlain w)))|]; inversion H; subst; cbn; lia.
  - destruct (wreg st w); [destruct (wbusy st w)|]; inversion H; subst; cbn; lia.
  - destruct (Waker.creg (chs st c)); inversion H; subst; cbn; lia.
  - destruct (Waker.creg (chs st c)); inversion H; subst; cbn; lia.
  - destruct (negb (is_main t) || wused st w || (1000000 <=? w) || (w <? 0)); [inversion H; subst; lia|].
    destruct (wh_add st (HPlain w)) as [[st1 wi]|] eqn:E; inversion H; subst; [|lia].
    destruct (wh_add_core _ _ _ _ E) as [c1 [A [B [C1 [C2 _]]]]]. cbn. lia.
  - destruct (negb (is_main t)); [inversion H; subst; lia|].
    destruct (fill_loop (Z.to_nat n) st []) as [st1 ev1] eqn:E. inversion H; subst.
    apply fill_loop_nthr in E. lia.
  - destruct (negb (is_main t)); inversion H; subst; cbn; lia.
  - destruct (negb (is_main t)); [|destruct (gnotified st)]; inversion H; subst; cbn; lia.
  - destruct (negb (is_main t)); inversion H; subst; cbn; lia.
  - destruct (negb (is_main t)); inversion H; subst; cbn; lia.
  - destruct (negb (is_main t)); inversion H; subst; cbn; lia.
  - destruct (negb (is_main t) || cexists (chs st c)); [inversion H; subst; lia|].
    destruct (wh_add st (HChan c)) as [[st1 wi]|] eqn:E; inversion H; subst; [|lia].
    destruct (wh_add_core _ _ _ _ E) as [c1 [A [B [C1 [C2 _]]]]]. cbn. lia.
  - destruct (negb (is_main t) || negb (cguard (chs st c))); inversion H; subst; cbn; lia.
  - destruct (negb (is_main t) || pexists (pps st p)); [inversion H; subst; lia|].
    destruct (wh_add st (HPipe p)) as [[st1 wi]|] eqn:E; inversion H; subst; [|lia].
    destruct (wh_add_core _ _ _ _ E) as [c1 [A [B [C1 [C2 _]]]]]. cbn. lia.
  - destruct (negb (is_main t) || negb (phandle (pps st p))); inversion H; subst; cbn; lia.
  - destruct (negb (is_main t) || negb (phandle (pps st p))); inversion H; subst; cbn; lia.
  - destruct (tpipe (th st t) <? 0); inversion H; subst; cbn; lia.
  - destruct (tpipe (th st t) <? 0); inversion H; subst; cbn; lia.
  - destruct (tpipe (th st t) <? 0); inversion H; subst; cbn; lia.
  - destruct (tpipe (th st t) <? 0); inversion H; subst; cbn; lia.
Qed.

Ltac destr_all H :=
  repeat match type of H with
         | context [match ?X with _ => _ end] => destruct X eqn:?
         end.

Lemma exec_lact_frame : forall st t a r st' ev,
  exec_lact st t a r = (st', ev) -> nthr st' = nthr st /\ forall u, u <> t -> thr st' u = thr st u.
Proof.
  intros st t a r st' ev H.
  destruct a; cbn [exec_lact] in H; unfold ghost_handler in H; destr_all H; inversion H; subst; clear H;
    (split; [reflexivity | thr_simpl]).
Qed.

Lemma exec_uact_frame : forall st t a r st' ev,
  exec_uact st t a r = (st', ev) -> nthr st' = nthr st /\ forall u, u <> t -> thr st' u = thr st u.
Proof.
  intros st t a r st' ev H.
  destruct a; cbn [exec_uact] in H; inversion H; subst; clear H; (split; [reflexivity | thr_simpl]).
Qed.

Lemma ghost_collect_frame : forall bits st, nthr (ghost_collect st bits) = nthr st /\ thr (ghost_collect st bits) = thr st.
Proof.
  induction bits as [|b bits IH]; intro st; [split; reflexivity|].
  unfold ghost_collect. cbn [fold_left]. destruct (slab_get (sl st) b).
  - match goal with |- nthr (fold_left _ _ ?S) = _ /\ _ => destruct (IH S) as [A B] end.
    unfold ghost_collect in A, B. rewrite A, B. split; reflexivity.
  - apply IH.
Qed.

Lemma notify_fold_frame : forall us st,
  let st' := fold_left (fun s u => upd_th s u (set_twaiting (th s u) false)) us st in
  nthr st' = nthr st /\ forall u, tcont (thr st' u) = tcont (thr st u) /\ tfinal (thr st' u) = tfinal (thr st u).
Proof.
  intros us st. destruct (notify_fold_spec us st) as [A1 [A2 [A3 [A4 [A5 [A6 [A7 [A8 [A9 [A10 [A11 A12]]]]]]]]]]].
  cbn zeta. split; [|intro u; split; auto].
  clear. revert st. induction us as [|v us IH]; intro st; [reflexivity|]. cbn [fold_left]. rewrite IH. reflexivity.
Qed.

Lemma exec_instr_pristine : forall st t i r st' ev,
  pristine st -> (t < nthr st)%nat -> exec_instr st t i r = (st', ev) ->
  pristine st' /\ (t < nthr st')%nat.
Proof.
  intros st t i r st' ev P Ht H.
  destruct i; cbn [exec_instr] in H.
  - destruct k; cbn [exec_climb] in H; destr_all H; inversion H; subst; clear H; (split; [prist st t|exact Ht]).
  - inversion H; subst; clear H. split; [prist st t|exact Ht].
  - destruct bms; inversion H; subst; clear H; [auto|]. split; [prist st t|exact Ht].
  - destruct ls; [inversion H; subst; auto|].
    destruct (collect (bmbase st bm) z (leaf st bm z)) as [bits ok].
    match type of H with context [ghost_collect ?S bits] => destruct (ghost_collect_frame bits S) as [A B]; set (s3 := ghost_collect S bits) in * end.
    inversion H; subst st' ev; clear H. cbn. rewrite A. split; [|exact Ht].
    destruct P as [P0 P]. split; [cbn; rewrite A; exact P0|]. intros u Hu. cbn in Hu. rewrite A in Hu. cbn in Hu.
    cbn. unfold updN, th. rewrite B. cbn -[Nat.eqb]. unfold updN, th. cbn -[Nat.eqb].
    destruct (Nat.eqb_spec u t); [lia|]. apply P. exact Hu.
  - inversion H; subst; auto.
  - inversion H; subst; auto.
  - inversion H; subst; auto.
  - match type of H with context [exec_lact ?S t ?aa ?rr] => destruct (exec_lact S t aa rr) as [s2 e2] eqn:E end.
    inversion H; subst; clear H. apply exec_lact_frame in E. destruct E as [A B].
    unfold acq_mtx, upd_th in A. cbn in A. split; [|lia]. eapply (pristine_upd st _ t); eauto.
    intros u Hu. rewrite B by auto. unfold acq_mtx. thr_simpl.
  - destruct (exec_uact st t a r) as [s1 e1] eqn:E. rewrite ?E in H. inversion H; subst; clear H.
    apply exec_uact_frame in E. destruct E as [A B]. split; [|cbn; lia].
    eapply (pristine_upd st _ t); eauto; try (intros u Hu; cbn; rewrite B by auto; reflexivity).
  - inversion H; subst; clear H. split; [prist st t|exact Ht].
  - match type of H with context [exec_lact ?S t ?aa ?rr] => destruct (exec_lact S t aa rr) as [s2 e2] eqn:E end.
    inversion H; subst; clear H. apply exec_lact_frame in E. destruct E as [A B].
    unfold acq_mtx, upd_th in A. cbn in A. split; [|lia]. eapply (pristine_upd st _ t); eauto.
    intros u Hu. rewrite B by auto. unfold acq_mtx. thr_simpl.
  - inversion H; subst st' ev; clear H.
    match goal with |- pristine (set_cont (fold_left ?f ?us st) t r) /\ _ =>
      destruct (notify_fold_frame us st) as [A B]; set (s1 := fold_left f us st) in * end.
    cbn zeta in A, B. cbn. rewrite A. split; [|exact Ht].
    destruct P as [P0 P]. split; [cbn; rewrite A; exact P0|]. intros u Hu. cbn in Hu. rewrite A in Hu.
    cbn. unfold updN, th. destruct (Nat.eqb_spec u t); [lia|].
    destruct (B u) as [B1 B2]. rewrite B1, B2. apply P. exact Hu.
  - unfold ghost_handler in H. inversion H; subst; clear H. destruct del; (split; [prist st t|exact Ht]).
  - inversion H; subst; clear H. split; [prist st t|exact Ht].
  - inversion H; subst; clear H. split; [prist st t|exact Ht].
Qed.

(** the registry part of the invariant *)
Lemma wfi_eq : forall st st',
  vlen st' = vlen st -> wreg st' = wreg st -> chs st' = chs st -> wfi st -> wfi st'.
Proof.
  intros st st' Hv Hw Hc [W1 [W2 W3]]. unfold wfi, registered. rewrite Hv, Hw, Hc. auto.
Qed.

Lemma ghost_collect_reg : forall bits st,
  vlen (ghost_collect st bits) = vlen st /\ wreg (ghost_collect st bits) = wreg st /\ chs (ghost_collect st bits) = chs st.
Proof.
  unfold ghost_collect. induction bits as [|b bits IH]; intro st; [repeat split; reflexivity|].
  cbn [fold_left]. destruct (slab_get (sl st) b); [|apply IH].
  match goal with |- vlen (fold_left _ _ ?S) = _ /\ _ => destruct (IH S) as [A [B C]] end.
  rewrite A, B, C. repeat split; reflexivity.
Qed.

Lemma notify_fold_reg : forall us st,
  let st' := fold_left (fun s u => upd_th s u (set_twaiting (th s u) false)) us st in
  vlen st' = vlen st /\ wreg st' = wreg st /\ chs st' = chs st.
Proof.
  induction us as [|v us IH]; intro st; cbn zeta; [repeat split; reflexivity|].
  cbn [fold_left]. destruct (IH (upd_th st v (set_twaiting (th st v) false))) as [A [B C]]. cbn zeta in *.
  rewrite A, B, C. repeat split; reflexivity.
Qed.

Lemma exec_lact_wfi : forall st t a r st' ev, wfi st -> exec_lact st t a r = (st', ev) -> wfi st'.
Proof.
  intros st t a r st' ev Wf H.
  destruct a; cbn [exec_lact] in H; unfold ghost_handler in H; destr_all H; inversion H; subst; clear H;
    try (wfi_same st; fail).
Qed.

Lemma exec_uact_wfi : forall st t a r st' ev, wfi st -> exec_uact st t a r = (st', ev) -> wfi st'.
Proof.
  intros st t a r st' ev Wf H.
  destruct a; cbn [exec_uact] in H; inversion H; subst; clear H; wfi_same st.
Qed.

Lemma exec_instr_wfi : forall st t i r st' ev, wfi st -> exec_instr st t i r = (st', ev) -> wfi st'.
Proof.
  intros st t i r st' ev Wf H. destruct i; cbn [exec_instr] in H.
  - destruct k; cbn [exec_climb] in H; destr_all H; inversion H; subst; clear H;
      (eapply wfi_eq; [| | |exact Wf]; reflexivity).
  - inversion H; subst; clear H. eapply wfi_eq; [| | |exact Wf]; reflexivity.
  - destruct bms; inversion H; subst; clear H; [exact Wf|]. eapply wfi_eq; [| | |exact Wf]; reflexivity.
  - destruct ls; [inversion H; subst; exact Wf|].
    destruct (collect (bmbase st bm) z (leaf st bm z)) as [bits ok].
    match type of H with context [ghost_collect ?S bits] => destruct (ghost_collect_reg bits S) as [A [B C]]; remember (ghost_collect S bits) as s3 eqn:Es3 end.
    inversion H; subst st' ev; clear H. eapply wfi_eq; [| | |exact Wf]; cbn; [rewrite A|rewrite B|rewrite C]; reflexivity.
  - inversion H; subst; exact Wf.
  - inversion H; subst; exact Wf.
  - inversion H; subst; exact Wf.
  - match type of H with context [exec_lact ?S t ?aa ?rr] => destruct (exec_lact S t aa rr) as [s2 e2] eqn:E end.
    inversion H; subst; clear H. eapply exec_lact_wfi; [|exact E]. exact Wf.
  - destruct (exec_uact st t a r) as [s1 e1] eqn:E. inversion H; subst; clear H.
    apply exec_uact_wfi in E; auto.
  - inversion H; subst; clear H. eapply wfi_eq; [| | |exact Wf]; reflexivity.
  - match type of H with context [exec_lact ?S t ?aa ?rr] => destruct (exec_lact S t aa rr) as [s2 e2] eqn:E end.
    inversion H; subst; clear H. eapply exec_lact_wfi; [|exact E]. exact Wf.
  - inversion H; subst st' ev; clear H.
    match goal with |- wfi (set_cont (fold_left ?f ?us st) t r) => destruct (notify_fold_reg us st) as [A [B C]] end.
    cbn zeta in *. eapply wfi_eq; [| | |exact Wf]; cbn; auto.
  - unfold ghost_handler in H. inversion H; subst; clear H. destruct del; (eapply wfi_eq; [| | |exact Wf]; reflexivity).
  - inversion H; subst; clear H. eapply wfi_eq; [| | |exact Wf]; reflexivity.
  - inversion H; subst; clear H. eapply wfi_eq; [| | |exact Wf]; reflexivity.
Qed.

Lemma settle_wfi : forall st t ev done st' ev', wfi st -> settle st t ev done = (st', ev') -> wfi st'.
Proof.
  intros st t ev done st' ev' Wf H. unfold settle in H.
  destruct (norm (2 * (cont_size (tcont (th st t)) + length (tacc (th st t))) + 2) (sl st) (tacc (th st t)) (tcont (th st t)) ev)
    as [[[s1 acc1] k1] ev1] eqn:En.
  cbn zeta in H.
  match type of H with (let '(st2, ev2) := ?E in _) = _ => destruct E as [st2 ev2] eqn:E2 end.
  assert (W2 : wfi st2).
  { destruct done as [v|].
    - inversion E2; subst. eapply wfi_eq; [| | |exact Wf]; reflexivity.
    - destruct k1.
      + destruct (tcur _) as [c|]; inversion E2; subst.
        * destruct c; (eapply wfi_eq; [| | |exact Wf]; reflexivity).
        * eapply wfi_eq; [| | |exact Wf]; reflexivity.
      + inversion E2; subst. eapply wfi_eq; [| | |exact Wf]; reflexivity. }
  destruct (tcont (th st2 t)); [|inversion H; subst; auto].
  destruct (tscript (th st2 t)); [|inversion H; subst; auto].
  destruct (tcur (th st2 t)); [inversion H; subst; auto|].
  destruct (tfinal (th st2 t)); inversion H; subst; auto.
Qed.

(** ** one step of the model *)
Theorem wstep_inv : forall st t st' ev,
  MInv st -> wstep st t = (st', ev) -> MInv st'.
Proof.
  intros st t st' ev [I [P Wf]] H. unfold wstep in H.
  destruct (enabled st t) eqn:En; cbn [negb] in H; [|inversion H; subst; split; [|split]; assumption].
  assert (Ht : (t < nthr st)%nat).
  { unfold enabled in En. apply andb_true_iff in En. destruct En as [En _]. apply Nat.ltb_lt in En. exact En. }
  assert (It : CInv (core (tick st t))).
  { eapply CInv_ceq; [|exact I]. unfold tick. same_core. }
  assert (Pt : pristine (tick st t)) by (unfold tick; prist st t).
  assert (Wt : wfi (tick st t)) by (eapply wfi_eq; [| | |exact Wf]; reflexivity).
  assert (Htt : (t < nthr (tick st t))%nat) by exact Ht.
  set (s0 := tick st t) in *. clearbody s0. clear Ht En.
  destruct (tstarted (th s0 t)); cbn [negb] in H.
  - destruct (tcont (th s0 t)) as [|i r] eqn:Ec.
    + destruct (tscript (th s0 t)) as [|c0 cs] eqn:Es; [inversion H; subst; split; [|split]; assumption|].
      match type of H with context [begin_cmd ?S t ?cc] =>
        destruct (begin_cmd S t cc) as [[st2 ev0] done] eqn:Eb; set (s1 := S) in * end.
      assert (I1 : CInv (core s1)).
      { eapply CInv_ceq; [|exact It]. unfold s1. same_core. }
      assert (P1 : pristine s1) by (unfold s1; prist s0 t).
      assert (W1 : wfi s1) by (eapply wfi_eq; [| | |exact Wt]; reflexivity).
      assert (Hc1 : tcont (thr s1 t) = []) by (unfold s1; thr_simpl; exact Ec).
      assert (Ht1 : (t < nthr s1)%nat) by exact Htt.
      destruct (begin_cmd_inv s1 t c0 st2 ev0 done I1 P1 W1 Hc1 Ht1 Eb) as [I2 [P2 W2]].
      pose proof (begin_cmd_nthr _ _ _ _ _ _ Eb) as Hn.
      pose proof (settle_wfi _ _ _ _ _ _ W2 H) as W3.
      eapply settle_inv in H; eauto; [|lia]. destruct H. split; [|split]; assumption.
    + destruct (exec_instr s0 t i r) as [st1 ev1] eqn:Ee.
      assert (I1 : CInv (core st1)) by (eapply exec_instr_inv; eauto).
      destruct (exec_instr_pristine _ _ _ _ _ _ Pt Htt Ee) as [P1 Ht1].
      pose proof (exec_instr_wfi _ _ _ _ _ _ Wt Ee) as W1.
      pose proof (settle_wfi _ _ _ _ _ _ W1 H) as W3.
      eapply settle_inv in H; eauto. destruct H. split; [|split]; assumption.
  - assert (W1 : wfi (upd_th s0 t (set_tstarted (th s0 t) true))) by (eapply wfi_eq; [| | |exact Wt]; reflexivity).
    pose proof (settle_wfi _ _ _ _ _ _ W1 H) as W3.
    eapply settle_inv in H; eauto.
    + destruct H. split; [|split]; assumption.
    + eapply CInv_ceq; [|exact It]. same_core.
    + prist s0 t.
Qed.

(** ** the initial state, and all reachable states *)
Lemma MInv_init : forall scr, MInv (winit scr).
Proof.
  intro scr. split; [|split].
  - constructor; cbn; try (intros; discriminate); try (intros; contradiction); auto.
    constructor; cbn [core c_sl c_vlen c_base winit sl vlen bmbase slen snext sent].
    + lia.
    + exists []. split; [reflexivity|]. split; [constructor|]. intro k. split; [intros []|]. intros [? ?]. lia.
    + intros k Hk. lia.
    + intros s vi Hs Hvi. lia.
    + intros bm Hr. unfold creg in Hr. cbn [core c_vlen winit vlen] in Hr. rewrite andb_true_iff in Hr. destruct Hr as [H0 Hr].
      apply Z.ltb_lt in Hr. apply Z.leb_le in H0. rewrite usize_bits in Hr. pose proof (Z.div_pos bm 64 H0). lia.
    + intros; lia.
  - split; [cbn; lia|]. intros u Hu. cbn. split; reflexivity.
  - split; [|split]; cbn; intros; discriminate.
Qed.

Definition reachable (st : wstate) : Prop := exists scr sched, st = fst (wrun (winit scr) sched).

Lemma wrun_inv : forall sched st, MInv st -> MInv (fst (wrun st sched)).
Proof.
  induction sched as [|t rest IH]; intros st M; cbn [wrun]; auto.
  destruct (wstep st t) as [st1 ev] eqn:E. specialize (IH st1 (wstep_inv _ _ _ _ M E)).
  destruct (wrun st1 rest) as [st2 tr]. exact IH.
Qed.

Theorem reachable_inv : forall st, reachable st -> CInv (core st).
Proof.
  intros st [scr [sched ->]]. apply wrun_inv. apply MInv_init.
Qed.
