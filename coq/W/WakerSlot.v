(** * Layer W: every live Waker keeps its handler slot (C12: one Waker never removes another's handler).

    A slot is *claimed* by a handler identity while the Waker is live: registered plain waker, open
    channel, or a thread that still has to execute the [Waker::drop] of it.  [SlInv]: a claimed slot holds
    that handler and is not in the drop pipeline (drop list + the drops the main thread has taken but not yet
    deleted); each identity has at most one claim (a Waker is dropped at most once); the pipeline has no
    duplicates and only occupied slots.  Consequently [del] only ever removes handlers whose Waker has been
    dropped, and a Waker that reuses a freed slot is a different identity. *)
From Coq Require Import ZArith List Bool Arith Lia.
From Stk Require Import Lib.U Gen.SrcWaker W.Waker W.WakerArith W.WakerCore W.WakerSlab W.WakerPres W.WakerRefine W.WakerProofs W.WakerGhost W.WakerLock W.WakerDrop.
Import ListNotations.
Local Open Scope Z_scope.

Definition push_of (i : instr) : list (Z * hkind) :=
  match i with ILock _ (LPush x _ h) => [(x, h)] | _ => [] end.
Definition pushes (k : list instr) : list (Z * hkind) := flat_map push_of k.
Definition tpushes (x : thread) : list (Z * hkind) := pushes (tcont x) ++ pushes (tfinal x).
Definition cnt (h : hkind) (l : list (Z * hkind)) : nat := length (filter (fun p => hkind_eqb (snd p) h) l).
Definition tcl (x : thread) (h : hkind) : nat := cnt h (tpushes x).
Definition npush (st : wstate) (h : hkind) : nat :=
  list_sum (map (fun u => tcl (thr st u) h) (seq 0 (nthr st))).
Definition regsrc (st : wstate) (h : hkind) : nat :=
  match h with
  | HPlain w => if isnone (wreg st w) then 0 else 1
  | HChan c => if copen (chs st c) then 1 else 0
  | _ => 0
  end%nat.

Definition dels_of (i : instr) : list Z :=
  match i with IUnlock _ (UDels l) => l | IDels l => l | _ => [] end.
Definition cont_dels (k : list instr) : list Z := flat_map dels_of k.
Definition pipeline (st : wstate) : list Z := dl st ++ cont_dels (tcont (thr st main)).

Definition claimed (st : wstate) (x : Z) (h : hkind) : Prop :=
  (exists w wi, wreg st w = Some wi /\ x = wbit wi /\ h = HPlain w) \/
  (exists c, copen (chs st c) = true /\ x = wbit (cw (chs st c)) /\ h = HChan c) \/
  (exists u, In (x, h) (tpushes (thr st u))).

Record SlInv (st : wstate) : Prop := {
  sl_claim : forall x h, claimed st x h -> slab_get (sl st) x = Some h /\ ~ In x (pipeline st);
  sl_uniq : forall h, (regsrc st h + npush st h <= 1)%nat;
  sl_f1 : forall w, wused st w = false -> wreg st w = None /\ npush st (HPlain w) = O;
  sl_f2 : forall w, (1000000 <= w \/ w < 0) -> wreg st w = None /\ npush st (HPlain w) = O;
  sl_f3 : forall c, cexists (chs st c) = false -> copen (chs st c) = false /\ npush st (HChan c) = O;
  sl_f4 : forall p, pexists (pps st p) = false -> npush st (HPipe p) = O;
  sl_f5 : npush st HReserved = O;
  sl_used : forall w wi, wreg st w = Some wi -> wused st w = true;
  sl_occ : forall x, In x (pipeline st) -> exists h, slab_get (sl st) x = Some h;
  sl_nodup : NoDup (pipeline st) }.

(** ** counting *)
Lemma pushes_app : forall a b, pushes (a ++ b) = pushes a ++ pushes b.
Proof. intros. unfold pushes. apply flat_map_app. Qed.
Lemma cnt_app : forall h a b, cnt h (a ++ b) = (cnt h a + cnt h b)%nat.
Proof. intros. unfold cnt. rewrite filter_app, app_length. reflexivity. Qed.
Lemma cnt_in : forall h x l, In (x, h) l -> (1 <= cnt h l)%nat.
Proof.
  induction l as [|p l IH]; intros Hin; [destruct Hin|]. unfold cnt in *. cbn [filter]. destruct Hin as [->|Hin].
  - cbn [snd]. rewrite hkind_eqb_refl. cbn. lia.
  - specialize (IH Hin). destruct (hkind_eqb (snd p) h); cbn; lia.
Qed.
Lemma cnt_zero_notin : forall h x l, cnt h l = O -> ~ In (x, h) l.
Proof. intros h x l Hz Hin. apply cnt_in in Hin. lia. Qed.

Lemma list_sum_replace : forall (f g : nat -> nat) n t,
  (t < n)%nat -> (forall u, u <> t -> g u = f u) ->
  (list_sum (map g (seq 0 n)) + f t = list_sum (map f (seq 0 n)) + g t)%nat.
Proof.
  intros f g n t Ht Hg.
  assert (G : forall s len, (s <= t < s + len)%nat ->
              (list_sum (map g (seq s len)) + f t = list_sum (map f (seq s len)) + g t)%nat).
  { intros s len. revert s. induction len as [|len IH]; intros s Hs; [lia|]. cbn [seq map list_sum fold_right]. fold (list_sum (map g (seq (S s) len))). fold (list_sum (map f (seq (S s) len))).
    destruct (Nat.eq_dec s t) as [->|Hne].
    - assert (E : map g (seq (S t) len) = map f (seq (S t) len)).
      { apply map_ext_in. intros u Hu. apply in_seq in Hu. apply Hg. lia. }
      rewrite E. lia.
    - rewrite (Hg s Hne). specialize (IH (S s)). lia. }
  apply G. lia.
Qed.

Lemma list_sum_ext : forall (f g : nat -> nat) n, (forall u, (u < n)%nat -> g u = f u) ->
  list_sum (map g (seq 0 n)) = list_sum (map f (seq 0 n)).
Proof. intros. f_equal. apply map_ext_in. intros u Hu. apply in_seq in Hu. apply H. lia. Qed.

(** only thread [t] changes its pending pushes *)
Lemma npush_upd : forall st st' t h,
  nthr st' = nthr st -> (t < nthr st)%nat ->
  (forall u, u <> t -> tcl (thr st' u) h = tcl (thr st u) h) ->
  (npush st' h + tcl (thr st t) h = npush st h + tcl (thr st' t) h)%nat.
Proof.
  intros st st' t h Hn Ht Ho. unfold npush. rewrite Hn.
  apply (list_sum_replace (fun u => tcl (thr st u) h) (fun u => tcl (thr st' u) h)); auto.
Qed.

Lemma npush_same : forall st st' h,
  nthr st' = nthr st -> (forall u, tcl (thr st' u) h = tcl (thr st u) h) -> npush st' h = npush st h.
Proof. intros st st' h Hn Ho. unfold npush. rewrite Hn. apply list_sum_ext. intros; apply Ho. Qed.

Lemma npush_zero_thread : forall st h u, npush st h = O -> (u < nthr st)%nat -> tcl (thr st u) h = O.
Proof.
  intros st h u Hz Hu. unfold npush in Hz.
  assert (G : forall l, list_sum (map (fun u => tcl (thr st u) h) l) = O -> forall u, In u l -> tcl (thr st u) h = O).
  { induction l as [|a l IH]; intros Hs v Hv; [destruct Hv|]. cbn [map list_sum fold_right] in Hs.
    fold (list_sum (map (fun u0 => tcl (thr st u0) h) l)) in Hs. destruct Hv as [<-|Hv]; [lia|apply IH; auto; lia]. }
  apply (G _ Hz). apply in_seq. lia.
Qed.

(** ** frame: nothing this invariant reads changes *)
Lemma claimed_eq : forall st st' x h,
  wreg st' = wreg st ->
  (forall c, copen (chs st' c) = copen (chs st c) /\ cw (chs st' c) = cw (chs st c)) ->
  (forall u, tpushes (thr st' u) = tpushes (thr st u)) ->
  claimed st' x h -> claimed st x h.
Proof.
  intros st st' x h Hw Hc Hp [[w [wi [A [B C]]]]|[[c [A [B C]]]|[u A]]].
  - left. exists w, wi. rewrite <- Hw. auto.
  - right; left. exists c. destruct (Hc c) as [E1 E2]. rewrite <- E1, <- E2. auto.
  - right; right. exists u. rewrite <- Hp. auto.
Qed.

Lemma sl_frame : forall st st',
  SlInv st ->
  sl st' = sl st -> pipeline st' = pipeline st -> wreg st' = wreg st -> wused st' = wused st -> nthr st' = nthr st ->
  (forall c, copen (chs st' c) = copen (chs st c) /\ cw (chs st' c) = cw (chs st c) /\ cexists (chs st' c) = cexists (chs st c)) ->
  (forall p, pexists (pps st' p) = pexists (pps st p)) ->
  (forall u, tpushes (thr st' u) = tpushes (thr st u)) ->
  SlInv st'.
Proof.
  intros st st' S Hs Hp Hw Hu Hn Hc Hx Ht.
  assert (Np : forall h, npush st' h = npush st h).
  { intro h. apply npush_same; auto. intro u. unfold tcl. rewrite Ht. reflexivity. }
  assert (Rs : forall h, regsrc st' h = regsrc st h).
  { intros [w| |c|p]; cbn; auto; [rewrite Hw; reflexivity|destruct (Hc c) as [E _]; rewrite E; reflexivity]. }
  constructor.
  - intros x h Hcl. rewrite Hs, Hp. apply (sl_claim st S).
    eapply claimed_eq; eauto. intro c. destruct (Hc c) as [A [B _]]. auto.
  - intro h. rewrite Rs, Np. apply (sl_uniq st S).
  - intros w. rewrite Hu, Hw, Np. apply (sl_f1 st S).
  - intros w. rewrite Hw, Np. apply (sl_f2 st S).
  - intros c. destruct (Hc c) as [A [B C]]. rewrite A, C, Np. apply (sl_f3 st S).
  - intros p. rewrite Hx, Np. apply (sl_f4 st S).
  - rewrite Np. apply (sl_f5 st S).
  - intros w wi. rewrite Hw, Hu. apply (sl_used st S).
  - intros x. rewrite Hp, Hs. apply (sl_occ st S).
  - rewrite Hp. apply (sl_nodup st S).
Qed.

Lemma pushes_cons : forall i k, pushes (i :: k) = push_of i ++ pushes k.
Proof. reflexivity. Qed.
Lemma cont_dels_cons : forall i k, cont_dels (i :: k) = dels_of i ++ cont_dels k.
Proof. reflexivity. Qed.
Lemma cont_dels_app : forall a b, cont_dels (a ++ b) = cont_dels a ++ cont_dels b.
Proof. intros. unfold cont_dels. apply flat_map_app. Qed.

(** thread [t] replaces the head of its continuation; no pending push and no taken drop is involved *)
Lemma sl_head_frame : forall st st' t pre r new,
  SlInv st ->
  tcont (thr st t) = pre ++ r -> tcont (thr st' t) = new ++ r ->
  pushes pre = [] -> pushes new = [] -> cont_dels pre = [] -> cont_dels new = [] ->
  tfinal (thr st' t) = tfinal (thr st t) ->
  (forall u, u <> t -> tcont (thr st' u) = tcont (thr st u) /\ tfinal (thr st' u) = tfinal (thr st u)) ->
  sl st' = sl st -> dl st' = dl st -> wreg st' = wreg st -> wused st' = wused st -> nthr st' = nthr st ->
  (forall c, copen (chs st' c) = copen (chs st c) /\ cw (chs st' c) = cw (chs st c) /\ cexists (chs st' c) = cexists (chs st c)) ->
  (forall p, pexists (pps st' p) = pexists (pps st p)) ->
  SlInv st'.
Proof.
  intros st st' t pre r new S Hc Hc' P1 P2 D1 D2 Hf Ho Hs Hd Hw Hu Hn Hch Hp.
  apply (sl_frame st st' S); auto.
  - unfold pipeline. rewrite Hd. f_equal. destruct (Nat.eq_dec main t) as [E|E].
    + rewrite E, Hc, Hc', !cont_dels_app, D1, D2. reflexivity.
    + destruct (Ho main E) as [A _]. rewrite A. reflexivity.
  - intro u. unfold tpushes. destruct (Nat.eq_dec u t) as [->|E].
    + rewrite Hc, Hc', Hf, !pushes_app, P1, P2. reflexivity.
    + destruct (Ho u E) as [A B]. rewrite A, B. reflexivity.
Qed.

Ltac chan_tac :=
  let c0 := fresh "c0" in
  intros c0; cbn; unfold updZ;
  repeat match goal with |- context [?a =? ?b] => destruct (Z.eqb_spec a b); subst end; cbn; repeat split; reflexivity.

Ltac slf st t pre r new :=
  eapply (sl_head_frame st _ t pre r new); eauto; try reflexivity; try (others_same; fail); try (chan_tac; fail); try thr_simpl.

Lemma climb_pushes : forall st bit bm w i, climb_at st bit bm w = Some i -> pushes [i] = [] /\ cont_dels [i] = [].
Proof. intros st bit bm w i H. apply climb_at_climb in H. destruct H as [k ->]. split; reflexivity. Qed.

Lemma npush_ge : forall st h u, (u < nthr st)%nat -> (tcl (thr st u) h <= npush st h)%nat.
Proof.
  intros st h u Hu. unfold npush.
  assert (G : forall l, In u l -> (tcl (thr st u) h <= list_sum (map (fun v => tcl (thr st v) h) l))%nat).
  { induction l as [|a l IH]; intros Hin; [destruct Hin|]. cbn [map list_sum fold_right].
    fold (list_sum (map (fun v => tcl (thr st v) h) l)). destruct Hin as [->|Hin]; [lia|]. specialize (IH Hin). lia. }
  apply G. apply in_seq. lia.
Qed.

Lemma pristine_pushes : forall st u, pristine st -> (nthr st <= u)%nat -> tpushes (thr st u) = [].
Proof. intros st u [_ P] Hu. destruct (P u Hu) as [A B]. unfold tpushes. rewrite A, B. reflexivity. Qed.

Lemma claim_counts : forall st x h u, pristine st -> In (x, h) (tpushes (thr st u)) -> (1 <= npush st h)%nat.
Proof.
  intros st x h u P Hin. destruct (Nat.lt_ge_cases u (nthr st)) as [Hu|Hu].
  - pose proof (npush_ge st h u Hu). apply cnt_in in Hin. unfold tcl in *. lia.
  - rewrite (pristine_pushes st u P Hu) in Hin. destruct Hin.
Qed.

(** the drop of a Waker: its bit enters the pipeline, its claim ends *)
Lemma sl_push : forall st st' t m x bm h r new,
  SlInv st -> pristine st' -> (t < nthr st)%nat ->
  tcont (thr st t) = ILock m (LPush x bm h) :: r -> tcont (thr st' t) = new ++ r ->
  pushes new = [] -> cont_dels new = [] ->
  tfinal (thr st' t) = tfinal (thr st t) ->
  (forall u, u <> t -> tcont (thr st' u) = tcont (thr st u) /\ tfinal (thr st' u) = tfinal (thr st u)) ->
  sl st' = sl st -> dl st' = dl st ++ [x] -> wreg st' = wreg st -> wused st' = wused st -> nthr st' = nthr st ->
  (forall c, copen (chs st' c) = copen (chs st c) /\ cw (chs st' c) = cw (chs st c) /\ cexists (chs st' c) = cexists (chs st c)) ->
  (forall p, pexists (pps st' p) = pexists (pps st p)) ->
  SlInv st'.
Proof.
  intros st st' t m x bm h r new S P' Ht Hc Hc' P2 D2 Hf Ho Hs Hd Hw Hu Hn Hch Hp.
  assert (Hmine : In (x, h) (tpushes (thr st t))).
  { unfold tpushes. rewrite Hc. cbn. left. reflexivity. }
  destruct (sl_claim st S x h) as [Cx Nx]; [right; right; exists t; exact Hmine|].
  assert (Tp : forall u, u <> t -> tpushes (thr st' u) = tpushes (thr st u)).
  { intros u E. unfold tpushes. destruct (Ho u E) as [A B]. rewrite A, B. reflexivity. }
  assert (Tt : tpushes (thr st t) = (x, h) :: tpushes (thr st' t)).
  { unfold tpushes. rewrite Hc, Hc', Hf, pushes_cons, pushes_app, P2. reflexivity. }
  assert (Ed : cont_dels (tcont (thr st' main)) = cont_dels (tcont (thr st main))).
  { destruct (Nat.eq_dec main t) as [E|E].
    - rewrite E, Hc, Hc', cont_dels_cons, cont_dels_app, D2. reflexivity.
    - destruct (Ho main E) as [A _]. rewrite A. reflexivity. }
  assert (Pl : forall y, In y (pipeline st') <-> In y (pipeline st) \/ y = x).
  { intro y. unfold pipeline. rewrite Hd, Ed, !in_app_iff. cbn. intuition. }
  assert (Np : forall h0, (npush st' h0 + (if hkind_eqb h h0 then 1 else 0) = npush st h0)%nat).
  { intro h0. pose proof (npush_upd st st' t h0 Hn Ht) as U.
    assert (Uo : forall u, u <> t -> tcl (thr st' u) h0 = tcl (thr st u) h0) by (intros u E; unfold tcl; rewrite Tp; auto).
    specialize (U Uo). unfold tcl in U. rewrite Tt in U. unfold cnt in U. cbn [filter snd] in U.
    destruct (hkind_eqb h h0); cbn [length] in U; lia. }
  assert (Rs : forall h0, regsrc st' h0 = regsrc st h0).
  { intros [w| |c|p]; cbn; auto; [rewrite Hw; reflexivity|destruct (Hch c) as [E _]; rewrite E; reflexivity]. }
  assert (Npl : forall h0, (npush st' h0 <= npush st h0)%nat) by (intro h0; pose proof (Np h0); lia).
  constructor.
  - intros y h0 Hcl.
    assert (Hcl0 : claimed st y h0).
    { destruct Hcl as [[w [wi [A [B C]]]]|[[c [A [B C]]]|[u A]]].
      - left. exists w, wi. rewrite <- Hw. auto.
      - right; left. exists c. destruct (Hch c) as [E1 [E2 _]]. rewrite <- E1, <- E2. auto.
      - right; right. exists u. destruct (Nat.eq_dec u t) as [->|E]; [rewrite Tt; right; auto|rewrite <- Tp; auto]. }
    destruct (sl_claim st S y h0 Hcl0) as [A B]. rewrite Hs. split; auto.
    intro Hin. apply Pl in Hin. destruct Hin as [Hin| ->]; [contradiction|].
    (* a second claim on the slot that is being pushed would be a second claim of the same identity *)
    assert (h0 = h) by congruence. subst h0.
    pose proof (sl_uniq st S h) as U. pose proof (Np h) as N. rewrite hkind_eqb_refl in N.
    destruct Hcl as [[w [wi [A' [B' C']]]]|[[c [A' [B' C']]]|[u A']]].
    + subst h. cbn in U. rewrite <- Hw, A' in U. cbn in U. lia.
    + subst h. cbn in U. destruct (Hch c) as [E1 _]. rewrite <- E1, A' in U. lia.
    + pose proof (claim_counts st' x h u P' A'). lia.
  - intro h0. rewrite Rs. pose proof (sl_uniq st S h0). pose proof (Npl h0). lia.
  - intros w Hw0. rewrite Hu in Hw0. destruct (sl_f1 st S w Hw0) as [A B]. rewrite Hw. split; auto. pose proof (Npl (HPlain w)). lia.
  - intros w Hw0. destruct (sl_f2 st S w Hw0) as [A B]. rewrite Hw. split; auto. pose proof (Npl (HPlain w)). lia.
  - intros c Hc0. destruct (Hch c) as [E1 [E2 E3]]. rewrite E3 in Hc0. destruct (sl_f3 st S c Hc0) as [A B].
    rewrite E1. split; auto. pose proof (Npl (HChan c)). lia.
  - intros p Hp0. rewrite Hp in Hp0. pose proof (sl_f4 st S p Hp0). pose proof (Npl (HPipe p)). lia.
  - pose proof (sl_f5 st S). pose proof (Npl HReserved). lia.
  - intros w wi. rewrite Hw, Hu. apply (sl_used st S).
  - intros y Hy. rewrite Hs. apply Pl in Hy. destruct Hy as [Hy| ->]; [apply (sl_occ st S); auto|eauto].
  - unfold pipeline. rewrite Hd, Ed. pose proof (sl_nodup st S) as N. unfold pipeline in N.
    (* dl ++ [x] ++ dels : x is new *)
    rewrite <- app_assoc.
    assert (G : forall (a b : list Z), NoDup (a ++ b) -> ~ In x (a ++ b) -> NoDup (a ++ [x] ++ b)).
    { induction a as [|y a IH]; intros b Nab Nx0; cbn in *.
      - constructor; auto.
      - inversion Nab; subst. constructor.
        + intro Hin. apply in_app_or in Hin. destruct Hin as [Hin|[Hin|Hin]].
          * apply H1. apply in_or_app. auto.
          * apply Nx0. left. auto.
          * apply H1. apply in_or_app. auto.
        + apply IH; auto. }
    apply G; auto.
Qed.

Lemma hkind_eq_dec : forall x y : hkind, {x = y} + {x <> y}.
Proof. decide equality; apply Z.eq_dec. Qed.

(** registry claims of a state *)
Definition regclaim (st : wstate) (x : Z) (h : hkind) : Prop :=
  (exists w wi, wreg st w = Some wi /\ x = wbit wi /\ h = HPlain w) \/
  (exists c, copen (chs st c) = true /\ x = wbit (cw (chs st c)) /\ h = HChan c).

Lemma claimed_split : forall st x h, claimed st x h <-> regclaim st x h \/ exists u, In (x, h) (tpushes (thr st u)).
Proof. intros. unfold claimed, regclaim. tauto. Qed.

(** a generic update: the slab and the pipeline stay, registry claims and pending pushes may be rearranged
    as long as every new claim was a claim before and the per-identity counts do not grow *)
Lemma sl_rearrange : forall st st',
  SlInv st -> pristine st' ->
  sl st' = sl st -> pipeline st' = pipeline st ->
  (forall x h, claimed st' x h -> claimed st x h) ->
  (forall h, (regsrc st' h + npush st' h <= regsrc st h + npush st h)%nat) ->
  (forall w, wused st' w = false -> wused st w = false) ->
  (forall w wi, wreg st' w = Some wi -> wreg st w = Some wi) ->
  (forall c, cexists (chs st' c) = false -> cexists (chs st c) = false) ->
  (forall c, copen (chs st' c) = true -> copen (chs st c) = true) ->
  (forall p, pexists (pps st' p) = false -> pexists (pps st p) = false) ->
  (forall w wi, wreg st' w = Some wi -> wused st' w = true) ->
  SlInv st'.
Proof.
  intros st st' S P' Hs Hp Hcl Hcnt Hu Hw Hce Hco Hpe Hus.
  assert (Z0 : forall h, (regsrc st h + npush st h = 0)%nat -> npush st' h = O /\ regsrc st' h = O).
  { intros h E. pose proof (Hcnt h). lia. }
  constructor.
  - intros x h C. rewrite Hs, Hp. apply (sl_claim st S). auto.
  - intro h. pose proof (sl_uniq st S h). pose proof (Hcnt h). lia.
  - intros w E. apply Hu in E. destruct (sl_f1 st S w E) as [A B].
    destruct (Z0 (HPlain w)) as [C D]; [cbn; rewrite A; cbn; lia|]. split; auto.
    destruct (wreg st' w) eqn:E2; auto. apply Hw in E2. congruence.
  - intros w E. destruct (sl_f2 st S w E) as [A B].
    destruct (Z0 (HPlain w)) as [C D]; [cbn; rewrite A; cbn; lia|]. split; auto.
    destruct (wreg st' w) eqn:E2; auto. apply Hw in E2. congruence.
  - intros c E. apply Hce in E. destruct (sl_f3 st S c E) as [A B].
    destruct (Z0 (HChan c)) as [C D]; [cbn; rewrite A; lia|]. split; auto.
    destruct (copen (chs st' c)) eqn:E2; auto. apply Hco in E2. congruence.
  - intros p E. apply Hpe in E. pose proof (sl_f4 st S p E) as A.
    destruct (Z0 (HPipe p)) as [C D]; [cbn; lia|]. auto.
  - pose proof (sl_f5 st S) as A. destruct (Z0 HReserved) as [C D]; [cbn; lia|]. auto.
  - exact Hus.
  - intros x Hx. rewrite Hp in Hx. rewrite Hs. apply (sl_occ st S); auto.
  - rewrite Hp. apply (sl_nodup st S).
Qed.

Lemma wh_add_post : forall st h st1 wi,
  CInv (core st) -> h <> HReserved -> wh_add st h = Some (st1, wi) ->
  slab_get (sl st) (wbit wi) = None /\ slab_get (sl st1) (wbit wi) = Some h /\
  (forall x h', slab_get (sl st) x = Some h' -> slab_get (sl st1) x = Some h') /\
  dl st1 = dl st /\ thr st1 = thr st /\ nthr st1 = nthr st /\ wreg st1 = wreg st /\ wused st1 = wused st /\
  chs st1 = chs st /\ pps st1 = pps st.
Proof.
  intros st h st1 wi I Hh H. pose proof (i_slab _ I) as S.
  destruct (wh_add_core st h st1 wi H) as [c1 [A [B [C1 [C2 [C3 [C4 [C5 [C6 [C7 C8]]]]]]]]]].
  pose proof (c_add_spec (core st) h c1 wi S Hh A) as P.
  assert (Es : c_sl c1 = sl st1) by (destruct B; auto).
  destruct P as [P1 P2 P3 P4 P5 P6 P7 P8]. rewrite Es in *. cbn [core c_sl] in *.
  assert (Ed : dl st1 = dl st) by (apply wh_add_R in H; tauto).
  repeat split; auto.
Qed.

(** [add], first half: the slab changes, nothing is registered yet *)
Lemma sl_add_slab : forall st h st1 wi,
  CInv (core st) -> pristine st -> SlInv st -> h <> HReserved -> wh_add st h = Some (st1, wi) ->
  SlInv st1 /\ slab_get (sl st1) (wbit wi) = Some h /\ ~ In (wbit wi) (pipeline st1).
Proof.
  intros st h st1 wi I P S Hh H.
  destruct (wh_add_post st h st1 wi I Hh H) as [Hfresh [Hget [Hold [Ed [Et [En [Ew [Eu [Ec Ep]]]]]]]]].
  assert (Epl : pipeline st1 = pipeline st) by (unfold pipeline; rewrite Ed, Et; reflexivity).
  assert (Np : forall h0, npush st1 h0 = npush st h0) by (intro h0; unfold npush; rewrite En, Et; reflexivity).
  assert (Rs : forall h0, regsrc st1 h0 = regsrc st h0) by (intros [w| |c|p]; cbn; rewrite ?Ew, ?Ec; reflexivity).
  split; [|split; auto].
  - constructor.
    + intros x h0 C. rewrite Epl.
      assert (C0 : claimed st x h0).
      { unfold claimed in *. rewrite Ew, Ec, Et in C. exact C. }
      destruct (sl_claim st S x h0 C0) as [A B]. split; auto.
    + intro h0. rewrite Rs, Np. apply (sl_uniq st S).
    + intro w. rewrite Eu, Ew, Np. apply (sl_f1 st S).
    + intro w. rewrite Ew, Np. apply (sl_f2 st S).
    + intro c. rewrite Ec, Np. apply (sl_f3 st S).
    + intro p. rewrite Ep, Np. apply (sl_f4 st S).
    + rewrite Np. apply (sl_f5 st S).
    + intros w wi0. rewrite Ew, Eu. apply (sl_used st S).
    + intros x Hx. rewrite Epl in Hx. destruct (sl_occ st S x Hx) as [h0 A]. exists h0. auto.
    + rewrite Epl. apply (sl_nodup st S).
  - rewrite Epl. intro Hin. destruct (sl_occ st S _ Hin) as [h0 A]. congruence.
Qed.

(** [add], second half: the new Waker is registered (or handed to the thread that will drop it) *)
Lemma sl_register : forall st st' x h,
  SlInv st -> pristine st' ->
  slab_get (sl st) x = Some h -> ~ In x (pipeline st) ->
  sl st' = sl st -> pipeline st' = pipeline st ->
  (forall y h0, claimed st' y h0 -> claimed st y h0 \/ (y = x /\ h0 = h)) ->
  (forall h0, h0 <> h -> (regsrc st' h0 + npush st' h0 <= regsrc st h0 + npush st h0)%nat) ->
  (regsrc st h + npush st h = 0)%nat -> (regsrc st' h + npush st' h <= 1)%nat ->
  (forall w, wused st' w = false -> wused st w = false /\ h <> HPlain w) ->
  (forall w, (1000000 <= w \/ w < 0) -> h <> HPlain w) ->
  (forall w wi, wreg st' w = Some wi -> wreg st w = Some wi \/ h = HPlain w) ->
  (forall c, cexists (chs st' c) = false -> cexists (chs st c) = false /\ h <> HChan c) ->
  (forall c, copen (chs st' c) = true -> copen (chs st c) = true \/ h = HChan c) ->
  (forall p, pexists (pps st' p) = false -> pexists (pps st p) = false /\ h <> HPipe p) ->
  h <> HReserved ->
  (forall w wi, wreg st' w = Some wi -> wused st' w = true) ->
  SlInv st'.
Proof.
  intros st st' x h S P' Hx Hnx Hs Hp Hcl Hcnt Hz Hone Hu Hfill Hw Hce Hco Hpe Hr Hus.
  assert (Z0 : forall h0, h0 <> h -> (regsrc st h0 + npush st h0 = 0)%nat -> npush st' h0 = O /\ regsrc st' h0 = O).
  { intros h0 Hn E. pose proof (Hcnt h0 Hn). lia. }
  constructor.
  - intros y h0 C. rewrite Hs, Hp. destruct (Hcl y h0 C) as [C0|[-> ->]]; [apply (sl_claim st S); auto|auto].
  - intro h0. destruct (hkind_eq_dec h0 h) as [->|Hn]; [exact Hone|].
    pose proof (sl_uniq st S h0). pose proof (Hcnt h0 Hn). lia.
  - intros w E. destruct (Hu w E) as [E0 Hn]. destruct (sl_f1 st S w E0) as [A B].
    destruct (Z0 (HPlain w)) as [C D]; [congruence|cbn; rewrite A; cbn; lia|]. split; auto.
    destruct (wreg st' w) eqn:E2; auto. destruct (Hw _ _ E2); congruence.
  - intros w E. destruct (sl_f2 st S w E) as [A B]. pose proof (Hfill w E) as Hn.
    destruct (Z0 (HPlain w)) as [C D]; [congruence|cbn; rewrite A; cbn; lia|]. split; auto.
    destruct (wreg st' w) eqn:E2; auto. destruct (Hw _ _ E2); congruence.
  - intros c E. destruct (Hce c E) as [E0 Hn]. destruct (sl_f3 st S c E0) as [A B].
    destruct (Z0 (HChan c)) as [C D]; [congruence|cbn; rewrite A; lia|]. split; auto.
    destruct (copen (chs st' c)) eqn:E2; auto. destruct (Hco _ E2); congruence.
  - intros p E. destruct (Hpe p E) as [E0 Hn]. pose proof (sl_f4 st S p E0) as A.
    destruct (Z0 (HPipe p)) as [C D]; [congruence|cbn; lia|]. auto.
  - pose proof (sl_f5 st S) as A. destruct (Z0 HReserved) as [C D]; [congruence|cbn; lia|]. auto.
  - exact Hus.
  - intros y Hy. rewrite Hp in Hy. rewrite Hs. apply (sl_occ st S); auto.
  - rewrite Hp. apply (sl_nodup st S).
Qed.

(** ** thread-local normalisation of the main thread *)
Lemma NS_fields : forall st s acc k,
  sl (NS st s acc k) = s /\ dl (NS st s acc k) = dl st /\ wreg (NS st s acc k) = wreg st /\ wused (NS st s acc k) = wused st /\
  nthr (NS st s acc k) = nthr st /\ chs (NS st s acc k) = chs st /\ pps (NS st s acc k) = pps st /\
  tcont (thr (NS st s acc k) main) = k /\ tfinal (thr (NS st s acc k) main) = tfinal (thr st main) /\
  (forall u, u <> main -> thr (NS st s acc k) u = thr st u).
Proof.
  intros. unfold NS. repeat split; try reflexivity; thr_simpl.
Qed.

Lemma sl_NS_frame : forall st s acc k acc' k',
  SlInv (NS st s acc k) -> cont_dels k' = cont_dels k -> pushes k' = pushes k -> SlInv (NS st s acc' k').
Proof.
  intros st s acc k acc' k' S Hd Hp.
  destruct (NS_fields st s acc k) as [A1 [A2 [A3 [A4 [A5 [A6 [A7 [A8 [A9 A10]]]]]]]]].
  destruct (NS_fields st s acc' k') as [B1 [B2 [B3 [B4 [B5 [B6 [B7 [B8 [B9 B10]]]]]]]]].
  apply (sl_frame (NS st s acc k)); auto; try congruence.
  - unfold pipeline. rewrite A2, B2, A8, B8, Hd. reflexivity.
  - intro u. destruct (Nat.eq_dec u main) as [->|E].
    + unfold tpushes. rewrite A8, B8, A9, B9, Hp. reflexivity.
    + rewrite A10, B10; auto.
Qed.

Lemma hinstrs_plain : forall h d, cont_dels (hinstrs h d) = [] /\ pushes (hinstrs h d) = [].
Proof. intros [w| |c|p] d; split; reflexivity. Qed.

Lemma sl_NS_del : forall st s acc b bs r k' s',
  SlInv (NS st s acc (IDels (b :: bs) :: r)) ->
  (s' = s \/ s' = slab_remove s b) ->
  cont_dels k' = bs ++ cont_dels r -> pushes k' = pushes r ->
  SlInv (NS st s' acc k').
Proof.
  intros st s acc b bs r k' s' S Hs Hd Hp.
  set (k := IDels (b :: bs) :: r) in *.
  destruct (NS_fields st s acc k) as [A1 [A2 [A3 [A4 [A5 [A6 [A7 [A8 [A9 A10]]]]]]]]].
  destruct (NS_fields st s' acc k') as [B1 [B2 [B3 [B4 [B5 [B6 [B7 [B8 [B9 B10]]]]]]]]].
  assert (Pk : pipeline (NS st s acc k) = dl st ++ b :: bs ++ cont_dels r).
  { unfold pipeline. rewrite A2, A8. unfold k. rewrite cont_dels_cons. cbn [dels_of]. reflexivity. }
  assert (Pk' : pipeline (NS st s' acc k') = dl st ++ bs ++ cont_dels r).
  { unfold pipeline. rewrite B2, B8, Hd. reflexivity. }
  pose proof (sl_nodup _ S) as Nd. rewrite Pk in Nd.
  assert (Hsub : forall y, In y (pipeline (NS st s' acc k')) -> In y (pipeline (NS st s acc k)) /\ y <> b).
  { intros y Hy. rewrite Pk' in Hy. rewrite Pk. split.
    - apply in_app_or in Hy. apply in_or_app. destruct Hy; [left; auto|right; right; auto].
    - intro; subst y. apply NoDup_remove_2 in Nd. apply Nd. exact Hy. }
  assert (Hget : forall y, y <> b -> slab_get s' y = slab_get s y).
  { intros y Hy. destruct Hs as [->| ->]; [reflexivity|apply slab_get_remove_other; auto]. }
  assert (Tp : forall u, tpushes (thr (NS st s' acc k') u) = tpushes (thr (NS st s acc k) u)).
  { intro u. destruct (Nat.eq_dec u main) as [->|E].
    - unfold tpushes. rewrite A8, B8, A9, B9, Hp. unfold k. rewrite pushes_cons. reflexivity.
    - rewrite A10, B10; auto. }
  assert (Np : forall h, npush (NS st s' acc k') h = npush (NS st s acc k) h).
  { intro h. apply npush_same; [congruence|]. intro u. unfold tcl. rewrite Tp. reflexivity. }
  assert (Rs : forall h, regsrc (NS st s' acc k') h = regsrc (NS st s acc k) h).
  { intros [w| |c|p]; cbn [regsrc]; rewrite ?A3, ?B3, ?A6, ?B6; reflexivity. }
  constructor.
  - intros x h C.
    assert (C0 : claimed (NS st s acc k) x h).
    { unfold claimed in *. rewrite A3, A6. rewrite B3, B6 in C.
      destruct C as [C|[C|[u C]]]; auto. right; right. exists u. rewrite <- Tp. exact C. }
    destruct (sl_claim _ S x h C0) as [G N]. rewrite A1 in G. rewrite B1.
    assert (x <> b).
    { intro; subst x. apply N. rewrite Pk. apply in_or_app. right. left. reflexivity. }
    rewrite Hget by auto. split; auto. intro Hin. apply Hsub in Hin. tauto.
  - intro h. rewrite Rs, Np. apply (sl_uniq _ S).
  - intro w. rewrite B4, B3, Np, <- A4, <- A3. apply (sl_f1 _ S).
  - intro w. rewrite B3, Np, <- A3. apply (sl_f2 _ S).
  - intro c. rewrite B6, Np, <- A6. apply (sl_f3 _ S).
  - intro p. rewrite B7, Np, <- A7. apply (sl_f4 _ S).
  - rewrite Np. apply (sl_f5 _ S).
  - intros w wi. rewrite B3, B4, <- A3, <- A4. apply (sl_used _ S).
  - intros y Hy. destruct (Hsub y Hy) as [Hy0 Hne]. destruct (sl_occ _ S y Hy0) as [h G]. rewrite A1 in G.
    exists h. rewrite B1, Hget; auto.
  - rewrite Pk'. apply NoDup_remove_1 in Nd. exact Nd.
Qed.

Lemma norm_sl : forall fuel st s acc k ev s1 acc1 k1 ev1,
  SlInv (NS st s acc k) -> norm fuel s acc k ev = (s1, acc1, k1, ev1) -> SlInv (NS st s1 acc1 k1).
Proof.
  induction fuel as [|f IH]; intros st s acc k ev s1 acc1 k1 ev1 S H; cbn [norm] in H.
  - inversion H; subst. exact S.
  - destruct k as [|i r]; [inversion H; subst; exact S|].
    destruct i as [c| |[|bm bms]|bm [|a ls]| |[|b bs]|[|b bs]| | | | | | | |];
      try (inversion H; subst; exact S).
    + eapply IH; [|exact H]. eapply sl_NS_frame; [exact S| |]; reflexivity.
    + eapply IH; [|exact H]. eapply sl_NS_frame; [exact S| |]; reflexivity.
    + eapply IH; [|exact H]. eapply sl_NS_frame; [exact S| |]; reflexivity.
    + eapply IH; [|exact H]. eapply sl_NS_frame; [exact S| |]; reflexivity.
    + destruct (slab_get s b) as [h|].
      * inversion H; subst. destruct (hinstrs_plain h false) as [D P].
        eapply sl_NS_frame; [exact S| |].
        -- rewrite cont_dels_app, D. reflexivity.
        -- rewrite pushes_app, P. reflexivity.
      * eapply IH; [|exact H]. eapply sl_NS_frame; [exact S| |]; reflexivity.
    + eapply IH; [|exact H]. eapply sl_NS_frame; [exact S| |]; reflexivity.
    + destruct (wh_del s b) as [[h s']|] eqn:E.
      * inversion H; subst. apply wh_del_some in E. destruct E as [_ [_ ->]].
        destruct (hinstrs_plain h true) as [D P].
        eapply (sl_NS_del st s acc1 b bs r); [exact S|right; reflexivity| |].
        -- rewrite cont_dels_app, D, cont_dels_cons. reflexivity.
        -- rewrite pushes_app, P, pushes_cons. reflexivity.
      * eapply IH; [|exact H]. eapply (sl_NS_del st s acc b bs r); [exact S|left; reflexivity| |].
        -- rewrite cont_dels_cons. reflexivity.
        -- rewrite pushes_cons. reflexivity.
Qed.

(** ** the steps *)
Lemma npush_gain : forall st st' t x h h0,
  nthr st' = nthr st -> (t < nthr st)%nat ->
  (forall u, u <> t -> tpushes (thr st' u) = tpushes (thr st u)) ->
  tpushes (thr st' t) = (x, h) :: tpushes (thr st t) ->
  npush st' h0 = (npush st h0 + (if hkind_eqb h h0 then 1 else 0))%nat.
Proof.
  intros st st' t x h h0 Hn Ht Ho Hg.
  pose proof (npush_upd st st' t h0 Hn Ht) as U.
  assert (Uo : forall u, u <> t -> tcl (thr st' u) h0 = tcl (thr st u) h0) by (intros u E; unfold tcl; rewrite Ho; auto).
  specialize (U Uo). unfold tcl in U. rewrite Hg in U. unfold cnt in U. cbn [filter snd] in U.
  destruct (hkind_eqb h h0); cbn [length] in U; lia.
Qed.

Ltac slf0 st t i r new :=
  eapply (sl_head_frame st _ t [i] r new); eauto; try reflexivity; try (others_same; fail); try (chan_tac; fail); try thr_simpl.

Lemma exec_lact_Sl : forall st t m a r st' ev,
  CInv (core st) -> pristine st -> SlInv st -> (t < nthr st)%nat ->
  tcont (thr st t) = ILock m a :: r ->
  exec_lact st t a r = (st', ev) -> SlInv st'.
Proof.
  intros st t m a r st' ev I P S Ht Hc H.
  assert (P' : forall s', nthr s' = nthr st -> (forall u, u <> t -> thr s' u = thr st u) -> pristine s').
  { intros s' Hn Ho. eapply (pristine_upd st s' t); eauto. }
  destruct a; cbn [exec_lact] in H.
  - (* LPush *)
    destruct (climb_reserved st bm) as [i|] eqn:Ecl; inversion H; subst; clear H.
    + destruct (climb_pushes _ _ _ _ _ Ecl) as [Pi Di].
      eapply (sl_push st _ t m bit bm who r [i; IUnlock MDL UNone]); eauto; try reflexivity; try (others_same; fail); try (chan_tac; fail); try thr_simpl.
      all: try (apply P'; [reflexivity|thr_simpl]).
      all: try (change (pushes [i] ++ pushes [IUnlock MDL UNone] = []); rewrite Pi; reflexivity).
      all: try (change (cont_dels [i] ++ cont_dels [IUnlock MDL UNone] = []); rewrite Di; reflexivity).
    + eapply (sl_push st _ t m bit bm who r [IUnlock MDL UNone]); eauto; try reflexivity; try (others_same; fail); try (chan_tac; fail); try thr_simpl.
      apply P'; [reflexivity|thr_simpl].
  - (* LTake *)
    assert (t = main) by (eapply main_of_mainonly; eauto). subst t.
    unfold ghost_handler in H. inversion H; subst; clear H.
    apply (sl_frame st); auto; try reflexivity; try (chan_tac; fail).
    + unfold pipeline. cbn -[Nat.eqb]. unfold updN, th. rewrite Nat.eqb_refl. cbn. unfold th in Hc. rewrite Hc. reflexivity.
    + intro u. unfold tpushes. cbn -[Nat.eqb]. unfold updN, th. destruct (Nat.eqb_spec u main); subst; cbn; [|reflexivity].
      rewrite Hc. reflexivity.
  - inversion H; subst; clear H. slf0 st t (ILock m (LChInit c)) r [IUnlock (MCh c) (UChReg c)].
  - destr_all H; repeat match goal with E : climb_start _ _ _ = Some _ |- _ => destruct (climb_pushes _ _ _ _ _ E) as [Pi Di] end;
      inversion H; subst; clear H.
    + slf0 st t (ILock m (LChSend c m0)) r [i; IUnlock (MCh c) (UChPush c m0)].
      all: try (change (pushes [i] ++ [] = []); rewrite Pi; reflexivity).
      all: try (change (cont_dels [i] ++ [] = []); rewrite Di; reflexivity).
    + slf0 st t (ILock m (LChSend c m0)) r [IUnlock (MCh c) (UChPush c m0)].
    + slf0 st t (ILock m (LChSend c m0)) r [IUnlock (MCh c) (UChPush c m0)].
    + slf0 st t (ILock m (LChSend c m0)) r [IUnlock (MCh c) (URet (RBool false))].
  - inversion H; subst; clear H. slf0 st t (ILock m (LChClosed c)) r [IUnlock (MCh c) (URet (RBool (negb (copen (chs st c)))))].
  - (* LChClose *)
    destruct (copen (chs st c)) eqn:Eo; inversion H; subst; clear H.
    + (* the claim of the open channel is handed to the pending drop *)
      match goal with |- SlInv ?S' => set (st' := S') end.
      assert (Tt : tpushes (thr st' t) = (wbit (cw (chs st c)), HChan c) :: tpushes (thr st t)).
      { unfold st', tpushes. cbn -[Nat.eqb]. unfold updN, th. rewrite Nat.eqb_refl. cbn. rewrite Hc. reflexivity. }
      assert (To : forall u, u <> t -> tpushes (thr st' u) = tpushes (thr st u)).
      { intros u E. unfold st', tpushes. cbn -[Nat.eqb]. unfold updN, th. destruct (Nat.eqb_spec u t); [congruence|reflexivity]. }
      apply (sl_rearrange st st' S); auto.
      * apply P'; [reflexivity|unfold st'; thr_simpl].
      * unfold pipeline, st'. cbn -[Nat.eqb]. unfold updN, th. destruct (Nat.eqb_spec main t) as [E|E]; [|reflexivity].
        rewrite <- E in Hc. cbn. rewrite Hc. reflexivity.
      * intros x h C. apply claimed_split in C. destruct C as [[[w [wi [A [B D]]]]|[c0 [A [B D]]]]|[u A]].
        -- left. exists w, wi. auto.
        -- unfold st' in A, B. cbn in A, B. unfold updZ in A, B. destruct (Z.eqb_spec c0 c); [subst; cbn in A; discriminate|].
           right; left. exists c0. auto.
        -- destruct (Nat.eq_dec u t) as [->|E].
           ++ rewrite Tt in A. destruct A as [A|A]; [inversion A; subst; right; left; exists c; auto|right; right; exists t; auto].
           ++ rewrite To in A by auto. right; right. exists u. auto.
      * intro h. rewrite (npush_gain st st' t (wbit (cw (chs st c))) (HChan c) h eq_refl Ht To Tt).
        destruct h as [w| |c0|p]; cbn [regsrc hkind_eqb]; try lia.
        -- unfold st'. cbn. lia.
        -- unfold st'. cbn. unfold updZ. destruct (Z.eqb_spec c c0) as [->|E].
           ++ rewrite Z.eqb_refl. cbn. rewrite Eo. lia.
           ++ destruct (Z.eqb_spec c0 c); [congruence|]. lia.
      * intros c0. unfold st'. cbn. unfold updZ. destruct (Z.eqb_spec c0 c); subst; cbn; auto.
      * intros c0. unfold st'. cbn. unfold updZ. destruct (Z.eqb_spec c0 c); subst; cbn; auto; discriminate.
      * intros w wi. apply (sl_used st S).
    + slf0 st t (ILock m (LChClose c)) r [IUnlock (MCh c) (UChClear c)].
  - unfold ghost_handler in H. inversion H; subst; clear H.
    destruct del; [slf0 st t (ILock m (LChHandler c true)) r [IUnlock (MCh c) (UFwd c (if copen (chs st c) then cq (chs st c) else []))]
                  |slf0 st t (ILock m (LChHandler c false)) r [IUnlock (MCh c) (UFwd c (if copen (chs st c) then cq (chs st c) else []))]].
  - unfold ghost_handler in H. inversion H; subst; clear H.
    destruct del; [slf0 st t (ILock m (LPqHandler p true)) r [IUnlock (MPq p) (UPqFwd p (precvq (pps st p)) (Some (ppanic (pps st p))))]
                  |slf0 st t (ILock m (LPqHandler p false)) r [IUnlock (MPq p) (UPqFwd p (precvq (pps st p)) None)]].
  - destr_all H; inversion H; subst; clear H.
    + slf0 st t (ILock m (LPqSend p m0)) r [IUnlock (MPq p) UNone; INotify p].
    + slf0 st t (ILock m (LPqSend p m0)) r [IUnlock (MPq p) UNone].
  - inversion H; subst; clear H. slf0 st t (ILock m (LPqCancelSet p)) r [IUnlock (MPq p) UNone; INotify p].
  - destr_all H; inversion H; subst; clear H.
    + slf0 st t (ILock m (LPqRecv p)) r [IUnlock (MPq p) (URet RNoneV)].
    + slf0 st t (ILock m (LPqRecv p)) r [ICvWait p; ICvReacq p].
    + slf0 st t (ILock m (LPqRecv p)) r [IUnlock (MPq p) (URet (RVal z))].
  - inversion H; subst; clear H.
    destruct (precvq (pps st p)).
    + destruct (climb_start st (pw (pps st p)) (Some (HPipe p))) as [i|] eqn:E; cbn [olist app].
      * destruct (climb_pushes _ _ _ _ _ E) as [Pi Di].
        slf0 st t (ILock m (LPqLSend p m0)) r [IUnlock (MPq p) (URet (RBool (negb (pcancel (pps st p))))); i].
        all: try (change ([] ++ pushes [i] = []); rewrite Pi; reflexivity).
        all: try (change ([] ++ cont_dels [i] = []); rewrite Di; reflexivity).
      * slf0 st t (ILock m (LPqLSend p m0)) r [IUnlock (MPq p) (URet (RBool (negb (pcancel (pps st p)))))].
    + slf0 st t (ILock m (LPqLSend p m0)) r [IUnlock (MPq p) (URet (RBool (negb (pcancel (pps st p)))))].
  - inversion H; subst; clear H. slf0 st t (ILock m (LPqCancelGet p)) r [IUnlock (MPq p) (URet (RBool (pcancel (pps st p))))].
  - inversion H; subst; clear H. slf0 st t (ILock m (LPqPanic p)) r [IUnlock (MPq p) UNone].
Qed.

Lemma exec_uact_Sl : forall st t m a r st' ev,
  SlInv st -> tcont (thr st t) = IUnlock m a :: r -> exec_uact st t a r = (st', ev) -> SlInv st'.
Proof.
  intros st t m a r st' ev S Hc H.
  destruct a; cbn [exec_uact] in H; inversion H; subst; clear H.
  - slf0 st t (IUnlock m UNone) r (@nil instr).
  - slf0 st t (IUnlock m (URet v)) r (@nil instr).
  - (* UDels: the taken drops stay in the continuation *)
    apply (sl_frame st); auto; try reflexivity; try (chan_tac; fail).
    + unfold pipeline. cbn -[Nat.eqb]. unfold updN, th. destruct (Nat.eqb_spec main t) as [E|E]; [|reflexivity].
      rewrite <- E in Hc. cbn. rewrite Hc. reflexivity.
    + intro u. unfold tpushes. cbn -[Nat.eqb]. unfold updN, th. destruct (Nat.eqb_spec u t); subst; cbn; [|reflexivity].
      rewrite Hc. reflexivity.
  - slf0 st t (IUnlock m (UChReg c)) r (@nil instr).
  - slf0 st t (IUnlock m (UChPush c m0)) r (@nil instr).
  - slf0 st t (IUnlock m (UChClear c)) r (@nil instr).
  - slf0 st t (IUnlock m (UFwd c msgs)) r (@nil instr).
  - slf0 st t (IUnlock m (UPqFwd p msgs term)) r (@nil instr).
Qed.

(** updates that touch nothing this invariant reads *)
Lemma sl_irrelevant : forall st st',
  SlInv st -> sl st' = sl st -> dl st' = dl st -> wreg st' = wreg st -> wused st' = wused st -> nthr st' = nthr st ->
  chs st' = chs st -> pps st' = pps st ->
  (forall u, tcont (thr st' u) = tcont (thr st u) /\ tfinal (thr st' u) = tfinal (thr st u)) -> SlInv st'.
Proof.
  intros st st' S A1 A2 A3 A4 A5 A6 A7 A8. apply (sl_frame st); auto.
  - unfold pipeline. rewrite A2. destruct (A8 main) as [B _]. rewrite B. reflexivity.
  - intro c. rewrite A6. auto.
  - intro p. rewrite A7. auto.
  - intro u. unfold tpushes. destruct (A8 u) as [B C]. rewrite B, C. reflexivity.
Qed.

Ltac sl_irr st := apply (sl_irrelevant st); [assumption|reflexivity|reflexivity|reflexivity|reflexivity|reflexivity|reflexivity|reflexivity|intro; split; thr_simpl].

Lemma ghost_collect_sl : forall bits st,
  let s := ghost_collect st bits in
  sl s = sl st /\ dl s = dl st /\ wreg s = wreg st /\ wused s = wused st /\ nthr s = nthr st /\ chs s = chs st /\ pps s = pps st /\ thr s = thr st.
Proof.
  unfold ghost_collect. induction bits as [|b bits IH]; intro st; cbn zeta; [repeat split; reflexivity|].
  cbn [fold_left]. destruct (slab_get (sl st) b); [|apply IH].
  match goal with |- sl (fold_left _ _ ?S) = _ /\ _ => destruct (IH S) as [A1 [A2 [A3 [A4 [A5 [A6 [A7 A8]]]]]]] end.
  cbn zeta in *. rewrite A1, A2, A3, A4, A5, A6, A7, A8. repeat split; reflexivity.
Qed.

Lemma exec_instr_Sl : forall st t i r st' ev,
  CInv (core st) -> pristine st -> SlInv st -> (t < nthr st)%nat ->
  tcont (thr st t) = i :: r -> exec_instr st t i r = (st', ev) -> SlInv st'.
Proof.
  intros st t i r st' ev I P S Ht Hc H. destruct i; cbn [exec_instr] in H.
  - destruct k; cbn [exec_climb] in H; inversion H; subst; clear H.
    + destruct (leaf st bm a =? 0);
        [eapply (sl_head_frame st _ t [IClimb (KLeaf bm a b who)] r [IClimb (KSum bm a)])
        |eapply (sl_head_frame st _ t [IClimb (KLeaf bm a b who)] r [])]; eauto;
        destruct (bitmap_join a b (bmbase st bm)); try destruct (slab_get (sl st) z);
        try reflexivity; try (others_same; fail); try (chan_tac; fail); try thr_simpl.
    + destruct (summ st bm =? 0); [slf0 st t (IClimb (KSum bm a)) r [IClimb (KTop bm)]|slf0 st t (IClimb (KSum bm a)) r (@nil instr)].
    + destruct (top st =? 0); [slf0 st t (IClimb (KTop bm)) r [IClimb KCb]|slf0 st t (IClimb (KTop bm)) r (@nil instr)].
    + slf0 st t (IClimb KCb) r (@nil instr).
  - inversion H; subst; clear H. slf0 st t ITopSwap r [IBms (flat_map (bms_of_slot st) (bits_of (top st)))].
  - destruct bms; inversion H; subst; clear H; [exact S|].
    slf0 st t (IBms (z :: bms)) r [ILeaves z (bits_of (summ st z)); IBms bms].
  - destruct ls; [inversion H; subst; exact S|].
    destruct (collect (bmbase st bm) z (leaf st bm z)) as [bits ok].
    match type of H with context [ghost_collect ?S0 bits] =>
      destruct (ghost_collect_sl bits S0) as [A1 [A2 [A3 [A4 [A5 [A6 [A7 A8]]]]]]]; remember (ghost_collect S0 bits) as s3 eqn:Es3 end.
    cbn zeta in *. inversion H; subst st' ev; clear H.
    match goal with |- SlInv ?S' => set (st' := S') end.
    assert (C1 : tcont (thr st' t) = [ILeaves bm ls] ++ r).
    { unfold st'. cbn -[Nat.eqb]. unfold updN, th. rewrite A8. cbn -[Nat.eqb]. unfold updN, th. rewrite !Nat.eqb_refl. reflexivity. }
    assert (C2 : tfinal (thr st' t) = tfinal (thr st t)).
    { unfold st'. cbn -[Nat.eqb]. unfold updN, th. rewrite A8. cbn -[Nat.eqb]. unfold updN, th. rewrite !Nat.eqb_refl. reflexivity. }
    assert (C3 : forall u, u <> t -> tcont (thr st' u) = tcont (thr st u) /\ tfinal (thr st' u) = tfinal (thr st u)).
    { intros u Hu. unfold st'. cbn -[Nat.eqb]. unfold updN, th. rewrite A8. cbn -[Nat.eqb]. unfold updN, th.
      destruct (Nat.eqb_spec u t); [congruence|]. split; reflexivity. }
    apply (sl_head_frame st st' t [ILeaves bm (z :: ls)] r [ILeaves bm ls] S Hc C1); auto; unfold st'; cbn;
      rewrite ?A1, ?A2, ?A3, ?A4, ?A5, ?A6, ?A7; auto.
  - inversion H; subst; exact S.
  - inversion H; subst; exact S.
  - inversion H; subst; exact S.
  - match type of H with context [exec_lact ?S0 t ?aa ?rr] => destruct (exec_lact S0 t aa rr) as [s2 e2] eqn:E; set (s1 := S0) in * end.
    inversion H; subst; clear H.
    eapply (exec_lact_Sl s1 t m a r); [| | | | |exact E].
    + eapply CInv_ceq; [|exact I]. unfold s1. same_core.
    + unfold s1. prist st t.
    + unfold s1. sl_irr st.
    + exact Ht.
    + unfold s1. thr_simpl.
  - destruct (exec_uact st t a r) as [s1 e1] eqn:E. inversion H; subst; clear H.
    pose proof (exec_uact_Sl st t m a r s1 e1 S Hc E) as S1. sl_irr s1.
  - inversion H; subst; clear H. slf0 st t (ICvWait p) r (@nil instr).
  - match type of H with context [exec_lact ?S0 t ?aa ?rr] => destruct (exec_lact S0 t aa rr) as [s2 e2] eqn:E; set (s1 := S0) in * end.
    inversion H; subst; clear H.
    assert (S1 : SlInv s1) by (unfold s1; sl_irr st).
    assert (Hc1 : tcont (thr s1 t) = ICvReacq p :: r) by (unfold s1; thr_simpl).
    clear - S1 Hc1 E. cbn [exec_lact] in E. destr_all E; inversion E; subst; clear E.
    + slf0 s1 t (ICvReacq p) r [IUnlock (MPq p) (URet RNoneV)].
    + slf0 s1 t (ICvReacq p) r [ICvWait p; ICvReacq p].
    + slf0 s1 t (ICvReacq p) r [IUnlock (MPq p) (URet (RVal z))].
  - inversion H; subst st' ev; clear H.
    match goal with |- SlInv (set_cont (fold_left ?f ?us st) t r) =>
      destruct (notify_fold_spec us st) as [A1 [A2 [A3 [A4 [A5 [A6 [A7 [A8 [A9 [A10 [A11 A12]]]]]]]]]]];
      destruct (notify_fold_reg us st) as [B1 [B2 B3]];
      destruct (notify_fold_frame us st) as [C1 C2];
      assert (D : dl (fold_left f us st) = dl st /\ wused (fold_left f us st) = wused st /\ pps (fold_left f us st) = pps st);
      [clear; generalize us; intro us0; revert st; induction us0 as [|v us0 IH]; intro st; [repeat split; reflexivity|];
       cbn [fold_left]; destruct (IH (upd_th st v (set_twaiting (th st v) false))) as [X [Y Z]]; rewrite X, Y, Z; repeat split; reflexivity|];
      set (s1 := fold_left f us st) in * end.
    cbn zeta in *. destruct D as [D1 [D2 D3]].
    match goal with |- SlInv ?S' => set (st' := S') end.
    assert (E1 : tcont (thr st' t) = [] ++ r) by (unfold st'; thr_simpl).
    assert (E2 : tfinal (thr st' t) = tfinal (thr st t)).
    { unfold st'. cbn. unfold updN, th. rewrite Nat.eqb_refl. cbn. apply A12. }
    assert (E3 : forall u, u <> t -> tcont (thr st' u) = tcont (thr st u) /\ tfinal (thr st' u) = tfinal (thr st u)).
    { intros u Hu. unfold st'. cbn. unfold updN, th. destruct (Nat.eqb_spec u t); [congruence|]. split; [apply A10|apply A12]. }
    apply (sl_head_frame st st' t [INotify p] r [] S Hc E1); auto; unfold st'; cbn; auto.
    + intro c. rewrite B3. auto.
    + intro q. rewrite D3. auto.
  - unfold ghost_handler in H. inversion H; subst; clear H.
    destruct del; [slf0 st t (IYieldH h true) r (@nil instr)|slf0 st t (IYieldH h false) r (@nil instr)].
  - inversion H; subst; clear H. slf0 st t IJoin r (@nil instr).
  - inversion H; subst; clear H. slf0 st t IIdle r (@nil instr).
Qed.

Lemma npush_spawn : forall st st' h,
  nthr st' = S (nthr st) -> (forall u, (u < nthr st)%nat -> thr st' u = thr st u) ->
  npush st' h = (npush st h + tcl (thr st' (nthr st)) h)%nat.
Proof.
  intros st st' h Hn Ho. unfold npush. rewrite Hn, seq_S, map_app, list_sum_app. cbn [map list_sum fold_right plus].
  rewrite Nat.add_0_r. f_equal. f_equal. apply map_ext_in. intros u Hu. apply in_seq in Hu. rewrite Ho; [reflexivity|lia].
Qed.

Lemma sl_spawn : forall st t p f,
  SlInv st -> pristine st -> pushes f = [] -> SlInv (spawn_thread st t p f).
Proof.
  intros st t p f S [P0 P] Hf.
  set (st' := spawn_thread st t p f).
  assert (Tp : forall u, tpushes (thr st' u) = tpushes (thr st u)).
  { intro u. unfold st', tpushes. cbn. unfold updN, th. destruct (Nat.eqb_spec u (nthr st)) as [->|E]; [|reflexivity].
    cbn [tcont tfinal]. destruct (P (nthr st) (le_n _)) as [A B]. rewrite A, B, Hf. reflexivity. }
  assert (Np : forall h, npush st' h = npush st h).
  { intro h. rewrite (npush_spawn st st' h); [| reflexivity |].
    - unfold tcl. rewrite Tp. destruct (P (nthr st) (le_n _)) as [A B]. unfold tpushes. rewrite A, B. cbn. lia.
    - intros u Hu. unfold st'. cbn. unfold updN. destruct (Nat.eqb_spec u (nthr st)); [lia|reflexivity]. }
  assert (Ec : tcont (thr st' main) = tcont (thr st main)).
  { unfold st'. cbn. unfold updN, th. destruct (Nat.eqb_spec main (nthr st)) as [E|E]; [unfold main in E; lia|reflexivity]. }
  assert (Rs : forall h, regsrc st' h = regsrc st h) by (intros [w| |c|q]; reflexivity).
  constructor.
  - intros x h C. change (sl st') with (sl st). unfold pipeline. change (dl st') with (dl st). rewrite Ec. apply (sl_claim st S).
    unfold claimed in *. destruct C as [C|[C|[u C]]]; auto. right; right. exists u. rewrite <- Tp. exact C.
  - intro h. rewrite Rs, Np. apply (sl_uniq st S).
  - intro w. rewrite Np. apply (sl_f1 st S).
  - intro w. rewrite Np. apply (sl_f2 st S).
  - intro c. rewrite Np. apply (sl_f3 st S).
  - intro q. rewrite Np. apply (sl_f4 st S).
  - rewrite Np. apply (sl_f5 st S).
  - apply (sl_used st S).
  - intros x. unfold pipeline. change (dl st') with (dl st). rewrite Ec. apply (sl_occ st S).
  - unfold pipeline. change (dl st') with (dl st). rewrite Ec. apply (sl_nodup st S).
Qed.

Ltac slb st t new :=
  eapply (sl_head_frame st _ t [] [] new); eauto; try reflexivity; try (others_same; fail); try (chan_tac; fail); try thr_simpl.

Lemma fill_loop_Sl : forall n st ev st' ev',
  CInv (core st) -> pristine st -> wfi st -> SlInv st -> fill_loop n st ev = (st', ev') -> SlInv st'.
Proof.
  induction n as [|n IH]; intros st ev st' ev' I P Wf S H; cbn [fill_loop] in H.
  - inversion H; subst. exact S.
  - destruct (wh_add st (HPlain (1000000 + nfill st))) as [[st1 wi]|] eqn:E; [|inversion H; subst; exact S].
    destruct (sl_add_slab st (HPlain (1000000 + nfill st)) st1 wi I P S ltac:(discriminate) E) as [S1 _].
    destruct (wh_add_core _ _ _ _ E) as [c1 [A [B [C1 [C2 [C3 [C4 [C5 [C6 [C7 C8]]]]]]]]]].
    assert (I1 : CInv (core st1)) by (eapply (add_model st _ st1 wi I); [|exact E]; discriminate).
    eapply IH; [| | | |exact H].
    + eapply CInv_ceq; [|exact I1]. same_core.
    + destruct P as [P0 P]. split; cbn; rewrite ?C2; auto. intros u Hu. rewrite C1. apply P. lia.
    + destruct (wh_add_reg st (HPlain (1000000 + nfill st)) st1 wi I ltac:(discriminate) E) as [R _].
      destruct Wf as [W1 [W2 W3]]. split; [|split].
      * intros w0 wi0. cbn. rewrite C5. intro E0. apply R. eapply W1; eauto.
      * intros c0. cbn. rewrite C7. intro E0. apply R. apply W2; auto.
      * intros c0. cbn. rewrite C7. apply W3.
    + sl_irr st1.
Qed.

Lemma begin_cmd_Sl : forall st t c st' ev done,
  CInv (core st) -> pristine st -> wfi st -> SlInv st -> tcont (thr st t) = [] -> (t < nthr st)%nat ->
  begin_cmd st t c = (st', ev, done) -> SlInv st'.
Proof.
  intros st t c st' ev done I P Wf S Hc Ht H.
  assert (Hc0 : tcont (thr st t) = [] ++ []) by exact Hc.
  assert (P' : forall s', nthr s' = nthr st -> (forall u, u <> t -> thr s' u = thr st u) -> pristine s').
  { intros s' Hn Ho. eapply (pristine_upd st s' t); eauto. }
  assert (Tt0 : tpushes (thr st t) = pushes (tfinal (thr st t))) by (unfold tpushes; rewrite Hc; reflexivity).
  destruct c; cbn [begin_cmd] in H.
  - (* CWake *)
    destruct (wreg st w) as [wi|]; [|inversion H; subst; auto].
    destruct (climb_start st wi (Some (HPlain w))) as [i|] eqn:E; inversion H; subst; clear H; [|auto].
    destruct (climb_pushes _ _ _ _ _ E) as [Pi Di]. slb st t [i].
  - (* CDropW *)
    destruct (wreg st w) as [wi|] eqn:Ew; [|inversion H; subst; auto].
    destruct (wbusy st w); inversion H; subst; clear H.
    + match goal with |- SlInv ?S' => set (st' := S') end.
      assert (Tt : tpushes (thr st' t) = (wbit wi, HPlain w) :: tpushes (thr st t)).
      { unfold st', tpushes. cbn -[Nat.eqb]. unfold updN, th. rewrite Nat.eqb_refl. cbn. rewrite Hc. reflexivity. }
      assert (To : forall u, u <> t -> tpushes (thr st' u) = tpushes (thr st u)).
      { intros u E. unfold st', tpushes. cbn -[Nat.eqb]. unfold updN, th. destruct (Nat.eqb_spec u t); [congruence|reflexivity]. }
      apply (sl_rearrange st st' S); auto.
      * apply P'; [reflexivity|unfold st'; thr_simpl].
      * unfold pipeline, st'. cbn -[Nat.eqb]. unfold updN, th. destruct (Nat.eqb_spec main t) as [E|E]; [|reflexivity].
        rewrite <- E in Hc. cbn. rewrite Hc. reflexivity.
      * intros x h C. apply claimed_split in C. destruct C as [[[w0 [wi0 [A [B D]]]]|[c0 [A [B D]]]]|[u A]].
        -- unfold st' in A. cbn in A. unfold updZ in A. destruct (Z.eqb_spec w0 w); [discriminate|]. left. exists w0, wi0. auto.
        -- right; left. exists c0. auto.
        -- destruct (Nat.eq_dec u t) as [->|E].
           ++ rewrite Tt in A. destruct A as [A|A]; [inversion A; subst; left; exists w, wi; auto|right; right; exists t; auto].
           ++ rewrite To in A by auto. right; right. exists u. auto.
      * intro h. rewrite (npush_gain st st' t (wbit wi) (HPlain w) h eq_refl Ht To Tt).
        destruct h as [w0| |c0|p]; cbn [regsrc hkind_eqb]; try lia; [|change (chs st' c0) with (chs st c0); lia].
        unfold st'. cbn. unfold updZ. destruct (Z.eqb_spec w w0) as [->|E];
          [rewrite Z.eqb_refl; cbn; rewrite Ew; cbn; lia|destruct (Z.eqb_spec w0 w); [congruence|]; lia].
      * intros w0 wi0. unfold st'. cbn. unfold updZ. destruct (Z.eqb_spec w0 w); [discriminate|auto].
      * intros w0 wi0 E. unfold st' in E. cbn in E. unfold updZ in E. destruct (Z.eqb_spec w0 w); [discriminate|].
        apply (sl_used st S w0 wi0 E).
    + match goal with |- SlInv ?S' => set (st' := S') end.
      assert (Tp : forall u, tpushes (thr st' u) = tpushes (thr st u)) by (intro u; reflexivity).
      apply (sl_rearrange st st' S); auto.
      * intros x h C. apply claimed_split in C. destruct C as [[[w0 [wi0 [A [B D]]]]|[c0 [A [B D]]]]|[u A]].
        -- unfold st' in A. cbn in A. unfold updZ in A. destruct (Z.eqb_spec w0 w); [discriminate|]. left. exists w0, wi0. auto.
        -- right; left. exists c0. auto.
        -- right; right. exists u. auto.
      * intro h. assert (Hnp : npush st' h = npush st h) by reflexivity. rewrite Hnp.
        destruct h as [w0| |c0|p]; cbn [regsrc]; try lia; [|change (chs st' c0) with (chs st c0); lia].
        change (wreg st' w0) with (updZ (wreg st) w None w0). unfold updZ.
        destruct (Z.eqb_spec w0 w); subst; cbn [isnone]; [destruct (isnone (wreg st w)); lia|lia].
      * intros w0 wi0. unfold st'. cbn. unfold updZ. destruct (Z.eqb_spec w0 w); [discriminate|auto].
      * intros w0 wi0 E. unfold st' in E. cbn in E. unfold updZ in E. destruct (Z.eqb_spec w0 w); [discriminate|].
        apply (sl_used st S w0 wi0 E).
  - destruct (Waker.creg (chs st c)); inversion H; subst; clear H; [|auto]. slb st t [ILock (MCh c) (LChSend c m)].
  - destruct (Waker.creg (chs st c)); inversion H; subst; clear H; [|auto]. slb st t [ILock (MCh c) (LChClosed c)].
  - (* CNew *)
    destruct (negb (is_main t) || wused st w || (1000000 <=? w) || (w <? 0)) eqn:Eg; [inversion H; subst; auto|].
    apply orb_false_iff in Eg. destruct Eg as [Eg Eneg]. apply orb_false_iff in Eg. destruct Eg as [Eg Ebig].
    apply orb_false_iff in Eg. destruct Eg as [_ Eused]. apply Z.leb_gt in Ebig. apply Z.ltb_ge in Eneg.
    destruct (wh_add st (HPlain w)) as [[st1 wi]|] eqn:E; inversion H; subst; clear H; [|auto].
    destruct (sl_add_slab st (HPlain w) st1 wi I P S ltac:(discriminate) E) as [S1 [G1 N1]].
    destruct (wh_add_post st (HPlain w) st1 wi I ltac:(discriminate) E) as [_ [_ [_ [Ed [Et [En [Ew [Eu [Ec Ep]]]]]]]]].
    destruct (sl_f1 st S w Eused) as [F1 F2].
    match goal with |- SlInv ?S' => set (st' := S') end.
    apply (sl_register st1 st' (wbit wi) (HPlain w) S1); auto; try discriminate.
    + destruct P as [P0 P]. split; [unfold st'; cbn; lia|]. intros u Hu. unfold st' in *. cbn in *. rewrite Et. apply P. lia.
    + intros y h0 C. apply claimed_split in C. destruct C as [[[w0 [wi0 [A [B D]]]]|[c0 [A [B D]]]]|[u A]].
      * unfold st' in A. cbn in A. unfold updZ in A. destruct (Z.eqb_spec w0 w) as [->|].
        -- inversion A; subst. right. auto.
        -- left. left. exists w0, wi0. auto.
      * left. right; left. exists c0. auto.
      * left. right; right. exists u. auto.
    + intros h0 Hn. assert (Hnp : npush st' h0 = npush st1 h0) by reflexivity. rewrite Hnp.
      destruct h0 as [w0| |c0|p]; cbn [regsrc]; try lia; [|change (chs st' c0) with (chs st1 c0); lia].
      change (wreg st' w0) with (updZ (wreg st1) w (Some wi) w0). unfold updZ.
      destruct (Z.eqb_spec w0 w); [congruence|lia].
    + assert (Hnp : npush st1 (HPlain w) = npush st (HPlain w)) by (unfold npush; rewrite En, Et; reflexivity).
      rewrite Hnp. cbn [regsrc]. rewrite Ew, F1. cbn [isnone]. lia.
    + assert (Hnp : npush st' (HPlain w) = npush st (HPlain w)) by (unfold npush; unfold st'; cbn [nthr thr set_wused set_wreg]; rewrite En, Et; reflexivity).
      rewrite Hnp. cbn [regsrc]. change (wreg st' w) with (updZ (wreg st1) w (Some wi) w). unfold updZ. rewrite Z.eqb_refl. cbn [isnone]. lia.
    + intros w0 E0. unfold st' in E0. cbn in E0. unfold updZ in E0. destruct (Z.eqb_spec w0 w); [discriminate|]. split; [auto|congruence].
    + intros w0 Hw0 E0. inversion E0; subst. lia.
    + intros w0 wi0 E0. unfold st' in E0. cbn in E0. unfold updZ in E0. destruct (Z.eqb_spec w0 w); subst; auto.
    + intros c0 E0. split; [exact E0|discriminate].
    + intros p0 E0. split; [exact E0|discriminate].
    + intros w0 wi0 E0. unfold st' in *. cbn in *. unfold updZ in *. destruct (Z.eqb_spec w0 w); subst; auto.
      rewrite Eu. rewrite Ew in E0. apply (sl_used st S w0 wi0 E0).
  - (* CFill *)
    destruct (negb (is_main t)); [inversion H; subst; auto|].
    destruct (fill_loop (Z.to_nat n) st []) as [st1 ev1] eqn:E. inversion H; subst; clear H.
    eapply fill_loop_Sl; eauto.
  - destruct (negb (is_main t)); inversion H; subst; clear H; [auto|]. slb st t [ITopSwap; IRun].
  - destruct (negb (is_main t)); [inversion H; subst; auto|].
    destruct (gnotified st); inversion H; subst; clear H; [|auto]. slb st t [ITopSwap; IRun].
  - destruct (negb (is_main t)); inversion H; subst; clear H; [auto|]. apply sl_spawn; auto.
  - destruct (negb (is_main t)); inversion H; subst; clear H; [auto|]. slb st t [IJoin].
  - destruct (negb (is_main t)); inversion H; subst; clear H; [auto|]. slb st t [IIdle].
  - (* CCNew *)
    destruct (negb (is_main t) || cexists (chs st c)) eqn:Eg; [inversion H; subst; auto|].
    apply orb_false_iff in Eg. destruct Eg as [_ Eex].
    destruct (wh_add st (HChan c)) as [[st1 wi]|] eqn:E; inversion H; subst; clear H; [|auto].
    destruct (sl_add_slab st (HChan c) st1 wi I P S ltac:(discriminate) E) as [S1 [G1 N1]].
    destruct (wh_add_post st (HChan c) st1 wi I ltac:(discriminate) E) as [_ [_ [_ [Ed [Et [En [Ew [Eu [Ec Ep]]]]]]]]].
    destruct (sl_f3 st S c Eex) as [F1 F2].
    match goal with |- SlInv ?S' => set (st' := S') end.
    assert (Tp : forall u, tpushes (thr st' u) = tpushes (thr st1 u)).
    { intro u. unfold st', tpushes. cbn -[Nat.eqb]. unfold updN, th. destruct (Nat.eqb_spec u t); subst; cbn; [|reflexivity].
      rewrite Et, Hc. reflexivity. }
    assert (Np : forall h0, npush st' h0 = npush st1 h0).
    { intro h0. apply npush_same; [reflexivity|]. intro u. unfold tcl. rewrite Tp. reflexivity. }
    apply (sl_register st1 st' (wbit wi) (HChan c) S1); auto; try discriminate.
    + destruct P as [P0 P]. split; [unfold st'; cbn; lia|]. intros u Hu. unfold st' in *. cbn -[Nat.eqb] in *. unfold updN, th.
      rewrite En in Hu. destruct (Nat.eqb_spec u t); [lia|]. rewrite Et. apply P. lia.
    + unfold pipeline, st'. cbn -[Nat.eqb]. unfold updN, th. destruct (Nat.eqb_spec main t) as [E0|E0]; [|reflexivity].
      cbn. rewrite Et. subst t. rewrite Hc. reflexivity.
    + intros y h0 C. apply claimed_split in C. destruct C as [[[w0 [wi0 [A [B D]]]]|[c0 [A [B D]]]]|[u A]].
      * left. left. exists w0, wi0. auto.
      * unfold st' in A, B. cbn in A, B. unfold updZ in A, B. destruct (Z.eqb_spec c0 c) as [Ecc|Ecc].
        -- cbn in B. subst. right. auto.
        -- left. right; left. exists c0. auto.
      * rewrite Tp in A. left. right; right. exists u. auto.
    + intros h0 Hn. rewrite Np. destruct h0 as [w0| |c0|q]; cbn [regsrc]; try lia.
      * change (wreg st' w0) with (wreg st1 w0). lia.
      * change (chs st' c0) with (updZ (chs st1) c (mkChan true false false true [] wi) c0). unfold updZ.
        destruct (Z.eqb_spec c0 c); [congruence|lia].
    + assert (Hnp : npush st1 (HChan c) = npush st (HChan c)) by (unfold npush; rewrite En, Et; reflexivity).
      rewrite Hnp. cbn [regsrc]. rewrite Ec, F1. lia.
    + rewrite Np. assert (Hnp : npush st1 (HChan c) = npush st (HChan c)) by (unfold npush; rewrite En, Et; reflexivity).
      rewrite Hnp. cbn [regsrc]. change (chs st' c) with (updZ (chs st1) c (mkChan true false false true [] wi) c). unfold updZ.
      rewrite Z.eqb_refl. cbn. lia.
    + intros w0 E0. split; [exact E0|discriminate].
    + intros c0 E0. unfold st' in E0. cbn in E0. unfold updZ in E0. destruct (Z.eqb_spec c0 c); [discriminate|]. split; [auto|congruence].
    + intros c0 E0. unfold st' in E0. cbn in E0. unfold updZ in E0. destruct (Z.eqb_spec c0 c); subst; auto.
    + intros p0 E0. split; [exact E0|discriminate].
    + intros w0 wi0 E0. change (wreg st' w0) with (wreg st1 w0) in E0. change (wused st' w0) with (wused st1 w0).
      rewrite Eu. rewrite Ew in E0. apply (sl_used st S w0 wi0 E0).
  - destruct (negb (is_main t) || negb (cguard (chs st c))); inversion H; subst; clear H; [auto|].
    slb st t [ILock (MCh c) (LChClose c)].
  - (* CPNew *)
    destruct (negb (is_main t) || pexists (pps st p)) eqn:Eg; [inversion H; subst; auto|].
    apply orb_false_iff in Eg. destruct Eg as [_ Eex].
    destruct (wh_add st (HPipe p)) as [[st1 wi]|] eqn:E; inversion H; subst; clear H; [|auto].
    destruct (sl_add_slab st (HPipe p) st1 wi I P S ltac:(discriminate) E) as [S1 [G1 N1]].
    destruct (wh_add_post st (HPipe p) st1 wi I ltac:(discriminate) E) as [_ [_ [_ [Ed [Et [En [Ew [Eu [Ec Ep]]]]]]]]].
    pose proof (sl_f4 st S p Eex) as F1.
    match goal with |- SlInv ?S' => set (st' := S') end.
    destruct P as [P0 P]. destruct (P (nthr st) (le_n _)) as [Pc Pf].
    assert (Tn : tpushes (thr st' (nthr st1)) = [(wbit wi, HPipe p)]).
    { unfold st', tpushes. cbn. unfold updN, th. rewrite Nat.eqb_refl. cbn. reflexivity. }
    assert (To : forall u, u <> nthr st1 -> tpushes (thr st' u) = tpushes (thr st1 u)).
    { intros u E0. unfold st', tpushes. cbn. unfold updN, th. destruct (Nat.eqb_spec u (nthr st1)); [congruence|reflexivity]. }
    assert (T1 : tpushes (thr st1 (nthr st1)) = []).
    { unfold tpushes. rewrite Et, En, Pc, Pf. reflexivity. }
    assert (Np : forall h0, npush st' h0 = (npush st1 h0 + (if hkind_eqb (HPipe p) h0 then 1 else 0))%nat).
    { intro h0. rewrite (npush_spawn st1 st' h0); [|reflexivity|].
      - unfold tcl. rewrite Tn. unfold cnt. cbn [filter snd]. destruct (hkind_eqb (HPipe p) h0); reflexivity.
      - intros u Hu. unfold st'. cbn. unfold updN. destruct (Nat.eqb_spec u (nthr st1)); [lia|reflexivity]. }
    assert (Npst : npush st1 (HPipe p) = npush st (HPipe p)) by (unfold npush; rewrite En, Et; reflexivity).
    apply (sl_register st1 st' (wbit wi) (HPipe p) S1); auto; try discriminate.
    + split; [unfold st'; cbn; lia|]. intros u Hu. unfold st' in *. cbn in *. unfold updN, th.
      destruct (Nat.eqb_spec u (nthr st1)); [lia|]. rewrite Et. apply P. lia.
    + unfold pipeline, st'. cbn. unfold updN, th. destruct (Nat.eqb_spec main (nthr st1)) as [E0|E0]; [|reflexivity].
      exfalso. rewrite En in E0. unfold main in E0. lia.
    + intros y h0 C. apply claimed_split in C. destruct C as [[[w0 [wi0 [A [B D]]]]|[c0 [A [B D]]]]|[u A]].
      * left. left. exists w0, wi0. auto.
      * left. right; left. exists c0. auto.
      * destruct (Nat.eq_dec u (nthr st1)) as [->|E0].
        -- rewrite Tn in A. destruct A as [A|[]]. inversion A; subst. right. auto.
        -- rewrite To in A by auto. left. right; right. exists u. auto.
    + intros h0 Hn. rewrite Np. destruct (hkind_eqb (HPipe p) h0) eqn:Eh; [apply hkind_eqb_eq in Eh; congruence|].
      destruct h0 as [w0| |c0|q]; cbn [regsrc]; try lia.
      * change (wreg st' w0) with (wreg st1 w0). lia.
      * change (chs st' c0) with (chs st1 c0). lia.
    + rewrite Npst. cbn [regsrc]. lia.
    + rewrite Np, hkind_eqb_refl, Npst. cbn [regsrc]. lia.
    + intros w0 E0. split; [exact E0|discriminate].
    + intros c0 E0. split; [exact E0|discriminate].
    + intros q E0. unfold st' in E0. cbn in E0. unfold updZ in E0. destruct (Z.eqb_spec q p); [discriminate|]. split; [auto|congruence].
    + intros w0 wi0 E0. change (wreg st' w0) with (wreg st1 w0) in E0. change (wused st' w0) with (wused st1 w0).
      rewrite Eu. rewrite Ew in E0. apply (sl_used st S w0 wi0 E0).
  - destruct (negb (is_main t) || negb (phandle (pps st p))); inversion H; subst; clear H; [auto|].
    slb st t [ILock (MPq p) (LPqSend p m)].
  - destruct (negb (is_main t) || negb (phandle (pps st p))); inversion H; subst; clear H; [auto|].
    slb st t [ILock (MPq p) (LPqCancelSet p)].
    all: try (intro q; cbn; unfold updZ; destruct (Z.eqb_spec q p); subst; reflexivity).
  - destruct (tpipe (th st t) <? 0); inversion H; subst; clear H; [auto|]. slb st t [ILock (MPq (tpipe (th st t))) (LPqRecv (tpipe (th st t)))].
  - destruct (tpipe (th st t) <? 0); inversion H; subst; clear H; [auto|]. slb st t [ILock (MPq (tpipe (th st t))) (LPqLSend (tpipe (th st t)) m)].
  - destruct (tpipe (th st t) <? 0); inversion H; subst; clear H; [auto|]. slb st t [ILock (MPq (tpipe (th st t))) (LPqCancelGet (tpipe (th st t)))].
  - destruct (tpipe (th st t) <? 0); inversion H; subst; clear H; [auto|].
    apply (sl_frame st); auto; try reflexivity; try (chan_tac; fail).
    + unfold pipeline. cbn -[Nat.eqb]. unfold updN, th. destruct (Nat.eqb_spec main t); subst; reflexivity.
    + intro u. unfold tpushes. cbn -[Nat.eqb]. unfold updN, th. destruct (Nat.eqb_spec u t); subst; reflexivity.
Qed.

Lemma okfinal_dels : forall c k, (forall i, In i k -> okfinal_c c i) -> cont_dels k = [].
Proof.
  induction k as [|i k IH]; intros H; [reflexivity|]. rewrite cont_dels_cons, IH by (intros; apply H; right; auto).
  specialize (H i (or_introl eq_refl)). destruct i; simpl in *; try contradiction. destruct a; reflexivity.
Qed.

Lemma settle_Sl : forall st t ev done st' ev',
  CInv (core st) -> SlInv st -> settle st t ev done = (st', ev') -> SlInv st'.
Proof.
  intros st t ev done st' ev' I S H. unfold settle in H.
  destruct (norm (2 * (cont_size (tcont (th st t)) + length (tacc (th st t))) + 2) (sl st) (tacc (th st t)) (tcont (th st t)) ev)
    as [[[s1 acc1] k1] ev1] eqn:En.
  cbn zeta in H.
  set (st1 := set_sl (upd_th st t (set_tacc (set_tcont (th st t) k1) acc1)) s1) in *.
  assert (S1 : SlInv st1).
  { destruct (Nat.eq_dec t main) as [->|Hn].
    - change st1 with (NS st s1 acc1 k1). eapply norm_sl; [|exact En].
      unfold NS. sl_irr st.
    - rewrite norm_id in En.
      + inversion En; subst s1 acc1 k1 ev1. unfold st1. sl_irr st.
      + intros i Hi. eapply (i_mainonly _ I t Hn). exact Hi. }
  assert (I1f : forall i, In i (tfinal (thr st1 t)) -> okfinal_c (core st) i).
  { intros i Hi. apply (i_final _ I t). revert Hi. unfold st1. cbn -[Nat.eqb]. unfold updN, th. rewrite Nat.eqb_refl. cbn. auto. }
  clearbody st1.
  match type of H with (let '(st2, ev2) := ?E in _) = _ => destruct E as [st2 ev2] eqn:E2 end.
  assert (S2 : SlInv st2 /\ tfinal (thr st2 t) = tfinal (thr st1 t)).
  { destruct done as [v|].
    - inversion E2; subst. split; [sl_irr st1|thr_simpl].
    - destruct k1.
      + destruct (tcur (th st1 t)) as [c|]; inversion E2; subst; [|auto].
        split; [destruct c; sl_irr st1|destruct c; thr_simpl].
      + inversion E2; subst. auto. }
  destruct S2 as [S2 F2].
  destruct (tcont (th st2 t)) eqn:Ec; [|inversion H; subst; exact S2].
  destruct (tscript (th st2 t)); [|inversion H; subst; exact S2].
  destruct (tcur (th st2 t)); [inversion H; subst; exact S2|].
  destruct (tfinal (th st2 t)) eqn:Ef; inversion H; subst; [exact S2|].
  apply (sl_frame st2); auto; try reflexivity; try (chan_tac; fail).
  - unfold pipeline. cbn -[Nat.eqb]. unfold updN, th. destruct (Nat.eqb_spec main t) as [E|E]; [|reflexivity].
    subst t. unfold th in Ec, Ef.
    assert (D : cont_dels (i :: l) = []).
    { apply (okfinal_dels (core st)). intros x Hx. apply I1f. rewrite <- F2, Ef. exact Hx. }
    cbn [thr upd_th set_tcont set_tfinal tcont dl]. rewrite Ec, D. reflexivity.
  - intro u. unfold tpushes. cbn -[Nat.eqb]. unfold updN, th. destruct (Nat.eqb_spec u t); subst; cbn; [|reflexivity].
    unfold th in Ec, Ef. rewrite Ec, Ef. cbn. rewrite app_nil_r. reflexivity.
Qed.

Theorem wstep_Sl : forall st t st' ev,
  MInv st -> SlInv st -> wstep st t = (st', ev) -> SlInv st'.
Proof.
  intros st t st' ev [I [P Wf]] S H. unfold wstep in H.
  destruct (enabled st t) eqn:En; cbn [negb] in H; [|inversion H; subst; exact S].
  assert (Ht : (t < nthr st)%nat).
  { unfold enabled in En. apply andb_true_iff in En. destruct En as [En _]. apply Nat.ltb_lt in En. exact En. }
  assert (It : CInv (core (tick st t))) by (eapply CInv_ceq; [|exact I]; unfold tick; same_core).
  assert (Pt : pristine (tick st t)) by (unfold tick; prist st t).
  assert (Wt : wfi (tick st t)) by (eapply wfi_eq; [| | |exact Wf]; reflexivity).
  assert (St : SlInv (tick st t)) by (unfold tick; sl_irr st).
  assert (Htt : (t < nthr (tick st t))%nat) by exact Ht.
  set (s0 := tick st t) in *. clearbody s0. clear Ht En.
  destruct (tstarted (th s0 t)); cbn [negb] in H.
  - destruct (tcont (th s0 t)) as [|i r] eqn:Ec.
    + destruct (tscript (th s0 t)) as [|c0 cs] eqn:Es; [inversion H; subst; exact S|].
      match type of H with context [begin_cmd ?S0 t ?cc] =>
        destruct (begin_cmd S0 t cc) as [[st2 ev0] done] eqn:Eb; set (s1 := S0) in * end.
      assert (I1 : CInv (core s1)) by (eapply CInv_ceq; [|exact It]; unfold s1; same_core).
      assert (P1 : pristine s1) by (unfold s1; prist s0 t).
      assert (W1 : wfi s1) by (eapply wfi_eq; [| | |exact Wt]; reflexivity).
      assert (S1 : SlInv s1) by (unfold s1; sl_irr s0).
      assert (Hc1 : tcont (thr s1 t) = []) by (unfold s1; thr_simpl; exact Ec).
      assert (Ht1 : (t < nthr s1)%nat) by exact Htt.
      destruct (begin_cmd_inv s1 t c0 st2 ev0 done I1 P1 W1 Hc1 Ht1 Eb) as [I2 [P2 W2]].
      eapply settle_Sl; [exact I2| |exact H].
      exact (begin_cmd_Sl s1 t c0 st2 ev0 done I1 P1 W1 S1 Hc1 Ht1 Eb).
    + destruct (exec_instr s0 t i r) as [st1 ev1] eqn:Ee.
      assert (I1 : CInv (core st1)) by (eapply exec_instr_inv; eauto).
      eapply settle_Sl; [exact I1| |exact H].
      exact (exec_instr_Sl s0 t i r st1 ev1 It Pt St Htt Ec Ee).
  - eapply settle_Sl; [| |exact H].
    + eapply CInv_ceq; [|exact It]. same_core.
    + sl_irr s0.
Qed.

Lemma Sl_init : forall scr, SlInv (winit scr).
Proof.
  intro scr.
  assert (Np : forall h, npush (winit scr) h = O).
  { intro h. unfold npush. cbn. reflexivity. }
  constructor; try (intros; rewrite ?Np; cbn; auto; fail).
  - intros x h [[w [wi [A _]]]|[[c [A _]]|[u A]]]; cbn in A; try discriminate.
    unfold tpushes in A. cbn in A. destruct A.
  - intro h. rewrite Np. destruct h; cbn; lia.
  - intros w wi A. cbn in A. discriminate.
  - intros x []. 
  - constructor.
Qed.

Lemma wrun_Sl : forall sched st, MInv st -> SlInv st -> SlInv (fst (wrun st sched)).
Proof.
  induction sched as [|t rest IH]; intros st M S; cbn [wrun]; auto.
  destruct (wstep st t) as [st1 ev] eqn:E.
  specialize (IH st1 (wstep_inv _ _ _ _ M E) (wstep_Sl _ _ _ _ M S E)).
  destruct (wrun st1 rest) as [st2 tr]. exact IH.
Qed.

Theorem reachable_Sl : forall st, reachable st -> SlInv st.
Proof. intros st [scr [sched ->]]. apply wrun_Sl; [apply MInv_init|apply Sl_init]. Qed.

(** ** C12, identity form *)

(** a live Waker (registered plain waker, open channel, or a Waker whose drop has not been pushed yet) keeps its
    slot and handler, and that slot is not queued for deletion *)
Theorem live_waker_keeps_slot : forall st x h,
  reachable st -> claimed st x h -> slab_get (sl st) x = Some h /\ ~ In x (pipeline st).
Proof. intros st x h R. apply (sl_claim st (reachable_Sl st R)). Qed.

(** only slots of dropped Wakers are ever queued for deletion: a slot in the drop pipeline is claimed by no live
    Waker, is occupied, and occurs once (each dropped Waker gets exactly one [deleted = true] call) *)
Theorem deleted_only_dropped : forall st x,
  reachable st -> In x (pipeline st) ->
  (forall h, ~ claimed st x h) /\ (exists h, slab_get (sl st) x = Some h) /\ NoDup (pipeline st).
Proof.
  intros st x R Hin. pose proof (reachable_Sl st R) as S. split; [|split].
  - intros h C. exact (proj2 (sl_claim st S x h C) Hin).
  - apply (sl_occ st S x Hin).
  - apply (sl_nodup st S).
Qed.

(** a Waker identity is live at most once and is dropped at most once *)
Theorem dropped_at_most_once : forall st h, reachable st -> (regsrc st h + npush st h <= 1)%nat.
Proof. intros st h R. apply (sl_uniq st (reachable_Sl st R)). Qed.
