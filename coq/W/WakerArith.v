(** * Layer W: what the GENERATED index arithmetic of sync/waker.rs computes.
    Every lemma here is about a definition of Gen/SrcWaker.v (regenerated from the Rust source on
    every run), so a change of a shift, mask or constant in the source breaks a lemma here. *)
From Coq Require Import ZArith List Bool Lia.
From Stk Require Import Lib.U Gen.SrcWaker.
Import ListNotations.
Local Open Scope Z_scope.
Ltac Zify.zify_post_hook ::= Z.div_mod_to_equations.

Lemma usize_bits : USIZE_BITS = 64.
Proof. reflexivity. Qed.
Lemma usize_index_bits : USIZE_INDEX_BITS = 6.
Proof. reflexivity. Qed.
Lemma bitmap_size_bits : BITMAP_SIZE_BITS = 12.
Proof. reflexivity. Qed.
Lemma bitmap_size : BITMAP_SIZE = 4096.
Proof. reflexivity. Qed.
(** the assertion of [BitMap::new] *)
Lemma bitmap_new_assert : Z.shiftl 1 USIZE_INDEX_BITS = USIZE_BITS.
Proof. reflexivity. Qed.

Lemma land_ones_mod : forall x n, 0 <= n -> Z.land x (2 ^ n - 1) = x mod 2 ^ n.
Proof.
  intros. replace (2 ^ n - 1) with (Z.ones n) by (rewrite Z.ones_equiv; lia).
  apply Z.land_ones; lia.
Qed.

Lemma land_63 : forall x, Z.land x 63 = x mod 64.
Proof. intros. change 63 with (2 ^ 6 - 1). rewrite land_ones_mod by lia. reflexivity. Qed.
Lemma land_4095 : forall x, Z.land x 4095 = x mod 4096.
Proof. intros. change 4095 with (2 ^ 12 - 1). rewrite land_ones_mod by lia. reflexivity. Qed.

(** [x & !(4095)] on 32 bits *)
Lemma land_not_4095 : forall x, 0 <= x < 4294967296 -> Z.land x (lnot32 4095) = 4096 * (x / 4096).
Proof.
  intros x Hx. unfold lnot32. change (4294967295 - 4095) with (Z.ldiff (Z.ones 32) (Z.ones 12)).
  rewrite Z.ldiff_land, Z.land_assoc, <- Z.ldiff_land.
  rewrite Z.land_ones by lia. rewrite Z.mod_small by (change (2 ^ 32) with 4294967296; lia).
  rewrite Z.ldiff_ones_r by lia. rewrite Z.shiftl_mul_pow2, Z.shiftr_div_pow2 by lia.
  change (2 ^ 12) with 4096. lia.
Qed.

Lemma bitmap_split_spec : forall bit base,
  0 <= base <= bit ->
  bitmap_split bit base = Some ((bit - base) / 64, (bit - base) mod 64).
Proof.
  intros. unfold bitmap_split, csub, shr32, obind.
  rewrite usize_index_bits, usize_bits.
  replace (base <=? bit) with true by (symmetry; apply Z.leb_le; lia).
  cbn [Z.ltb Z.compare Z.leb]. change (6 <? 32) with true. change (1 <=? 64) with true. cbn iota.
  change (64 - 1) with 63. rewrite land_63. change (2 ^ 6) with 64. reflexivity.
Qed.

Lemma bitmap_split_none : forall bit base, bit < base -> bitmap_split bit base = None.
Proof.
  intros. unfold bitmap_split, csub, obind.
  replace (base <=? bit) with false by (symmetry; apply Z.leb_gt; lia). reflexivity.
Qed.

Lemma bitmap_split_range : forall bit base a b,
  0 <= base -> bitmap_split bit base = Some (a, b) -> base <= bit /\ 0 <= a /\ 0 <= b < USIZE_BITS /\ bit = base + 64 * a + b.
Proof.
  intros bit base a b Hb H.
  destruct (Z_lt_le_dec bit base) as [Hlt|Hle].
  - rewrite bitmap_split_none in H by lia. discriminate.
  - rewrite bitmap_split_spec in H by lia. inversion H; subst. rewrite usize_bits. lia.
Qed.

Lemma bitmap_join_spec : forall a b base,
  0 <= a < 64 -> 0 <= b < 64 -> 0 <= base -> base + 4096 <= 4294967296 ->
  bitmap_join a b base = Some (64 * a + b + base).
Proof.
  intros. unfold bitmap_join, shl32, cadd32, obind. rewrite usize_index_bits.
  change (6 <? 32) with true. cbn iota. change (2 ^ 6) with 64.
  rewrite Z.mod_small by lia.
  replace (a * 64 + b <? 4294967296) with true by (symmetry; apply Z.ltb_lt; lia).
  replace (a * 64 + b + base <? 4294967296) with true by (symmetry; apply Z.ltb_lt; lia).
  f_equal. lia.
Qed.

Lemma waker_base_spec : forall bit, 0 <= bit < 4294967296 -> waker_base bit = Some (4096 * (bit / 4096)).
Proof.
  intros. unfold waker_base, csub, obind. rewrite bitmap_size. change (1 <=? 4096) with true. cbn iota.
  change (4096 - 1) with 4095. rewrite land_not_4095 by lia. reflexivity.
Qed.

Lemma waker_vec_index_spec : forall bit, 0 <= bit -> waker_vec_index bit = Some (bit / 262144).
Proof.
  intros. unfold waker_vec_index, cadd32, shr32, obind. rewrite usize_index_bits, bitmap_size_bits.
  change (6 + 12 <? 4294967296) with true. cbn iota. change (6 + 12 <? 32) with true. cbn iota.
  reflexivity.
Qed.

Lemma waker_slot_spec : forall bit, 0 <= bit -> waker_slot bit = Some ((bit / 4096) mod 64).
Proof.
  intros. unfold waker_slot, shr32, csub, obind. rewrite bitmap_size_bits, usize_bits.
  change (12 <? 32) with true. change (1 <=? 64) with true. cbn iota.
  change (64 - 1) with 63. rewrite land_63. try reflexivity.
Qed.

Lemma waker_del_guard_spec : forall bit, waker_del_guard bit = Some (negb (bit mod 4096 =? 0)).
Proof.
  intros. unfold waker_del_guard, csub, obind. rewrite bitmap_size. change (1 <=? 4096) with true. cbn iota.
  change (4096 - 1) with 4095. rewrite land_4095. rewrite (Z.eqb_sym 0). reflexivity.
Qed.

(** slot + 64 * vec_index is the number of the 4096-bit range *)
Lemma range_decomp : forall bit, 0 <= bit -> (bit / 4096) mod 64 + 64 * (bit / 262144) = bit / 4096.
Proof. intros. lia. Qed.
