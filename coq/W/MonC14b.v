(** * Layer W: the piped-thread monitor [C14_ok] on every run of the model - the half checked at command returns, and
    the combination with coq/W/MonC14.v. *)
From Coq Require Import ZArith List Bool Arith Lia.
From Stk Require Import Lib.U Gen.SrcWaker W.Waker W.WakerArith W.WakerCore W.WakerSlab W.WakerPres W.WakerRefine W.WakerProofs W.WakerGhost W.WakerLock W.WakerDrop W.WakerSlot W.WakerWf W.Chan W.Pipe W.Monitors W.MonBase W.MonC13 W.MonC12 W.MonC14.
Import ListNotations.
Local Open Scope Z_scope.

(** ** the flag of the monitor is the disjunction of the flags of its two halves *)
Definition m14s_step (m : m14) (te : tid * wevent) : m14 :=
  let m' := m14_step m te in if is_reply (snd te) then m14_setbad m' (m14_bad m) else m'.

Lemma setbad_setbad : forall m a b, m14_setbad (m14_setbad m a) b = m14_setbad m b.
Proof. reflexivity. Qed.
Lemma setbad_id : forall m, m14_setbad m (m14_bad m) = m.
Proof. intros []. reflexivity. Qed.

(** the step function computes its non-flag fields from non-flag fields, and adds a check to the flag *)
Lemma step_setbad : forall m b te, exists chk,
  m14_step (m14_setbad m b) te = m14_setbad (m14_step m te) (b || chk) /\ m14_bad (m14_step m te) = m14_bad m || chk.
Proof.
  intros m b [t e]. unfold m14_step, m14_setbad. cbn.
  destruct e; try (exists false; rewrite !orb_false_r; split; reflexivity).
  - destruct c; try (exists false; rewrite !orb_false_r; split; reflexivity);
      destruct (get_tid t (m14_owner m)); exists false; rewrite !orb_false_r; split; reflexivity.
  - destruct (get_tid t (b_cur (m14_b m))) as [c|]; [|exists false; rewrite !orb_false_r; split; reflexivity].
    destruct c; try (exists false; rewrite !orb_false_r; split; reflexivity);
      destruct v; try (exists false; rewrite !orb_false_r; split; reflexivity);
      try (destruct (get_tid t (m14_owner m)); try (exists false; rewrite !orb_false_r; split; reflexivity));
      rewrite <- ?orb_assoc; eexists; split; reflexivity.
  - rewrite <- !orb_assoc. eexists; split; reflexivity.
  - rewrite <- !orb_assoc. eexists; split; reflexivity.
  - destruct (get_tid t (m14_owner m)); exists false; rewrite !orb_false_r; split; reflexivity.
Qed.

Lemma bad_split : forall tr m0,
  let A := fold_left m14_step tr m0 in let R := fold_left m14r_step tr m0 in let S := fold_left m14s_step tr m0 in
  R = m14_setbad A (m14_bad R) /\ S = m14_setbad A (m14_bad S) /\ m14_bad A = m14_bad R || m14_bad S || m14_bad m0.
Proof.
  intro tr. induction tr as [|te tr IH] using rev_ind; intro m0; cbn zeta.
  - cbn. rewrite !setbad_id. repeat split; try reflexivity. destruct (m14_bad m0); reflexivity.
  - rewrite !fold_left_app. cbn [fold_left]. destruct (IH m0) as [ER [ES EB]]. cbn zeta in *.
    set (A := fold_left m14_step tr m0) in *. set (R := fold_left m14r_step tr m0) in *. set (S := fold_left m14s_step tr m0) in *.
    destruct (step_setbad A (m14_bad R) te) as [c1 [C1 C2]]. destruct (step_setbad A (m14_bad S) te) as [c2 [D1 D2]].
    assert (HR : m14_step R te = m14_setbad (m14_step A te) (m14_bad R || c1)).
    { replace (m14_step R te) with (m14_step (m14_setbad A (m14_bad R)) te) by (rewrite <- ER; reflexivity). exact C1. }
    assert (HS : m14_step S te = m14_setbad (m14_step A te) (m14_bad S || c2)).
    { replace (m14_step S te) with (m14_step (m14_setbad A (m14_bad S)) te) by (rewrite <- ES; reflexivity). exact D1. }
    unfold m14r_step, m14s_step. rewrite HR, HS.
    destruct (is_reply (snd te)); cbn [m14_bad m14_setbad]; rewrite ?setbad_setbad.
    + split; [reflexivity|]. split; [reflexivity|]. rewrite C2, EB.
      destruct (m14_bad R), (m14_bad S), (m14_bad m0), c1; reflexivity.
    + split; [reflexivity|]. split; [reflexivity|]. rewrite D2, EB.
      destruct (m14_bad R), (m14_bad S), (m14_bad m0), c2; reflexivity.
Qed.

(** ** the half checked at command returns: the relation [FRel] *)
Definition rvals (k : list instr) : list Z :=
  flat_map (fun i => match i with IUnlock _ (URet (RVal v)) => [v] | _ => [] end) k.
Definition spend (q : Z) (k : list instr) : list Z :=
  flat_map (fun i => match i with ILock _ (LPqSend p x) => if p =? q then [x] else [] | _ => [] end) k.
(** instructions that will still produce the return value of a worker command *)
Definition pr (i : instr) : bool :=
  match i with
  | ILock _ (LPqRecv _) | ICvReacq _ | ILock _ (LPqLSend _ _) | ILock _ (LPqCancelGet _) | IUnlock _ (URet _) => true
  | _ => false
  end.
Definition prcount (k : list instr) : nat := length (filter pr k).
Definition wcmd (c : cmd) : Prop := match c with CRecv | CLSend _ | CCancel => True | _ => False end.
(** the value in transit to the worker: taken from the queue, not yet returned by [recv] *)
Definition rtransit (x : thread) : list Z :=
  rvals (tcont x) ++ match tcur x, tret x with Some CRecv, RVal v => [v] | _, _ => [] end.
(** a return value that the monitor flags for a command that began after the drop *)
Definition okret (c : cmd) (v : retv) : Prop :=
  match c, v with CRecv, RVal _ => False | CLSend _, RBool true => False | CCancel, RBool false => False | _, _ => True end.
Definition is_late (m : m14) (t : tid) : Prop := get_tid t (m14_late m) = Some true.

(** pending inside a step: a [psend] / [pdrop] command that fails immediately *)
Inductive fpend := FNone | FSendBad (t : tid) (q x : Z) | FDropBad (t : tid) (q : Z).
Definition dps (p : fpend) (m : m14) : list (Z * Z) :=
  match p with FSendBad _ _ _ => removelast (m14_psend m) | _ => m14_psend m end.

Record FRel (p : fpend) (st : wstate) (m : m14) : Prop := {
  f_psend : forall t q x, p = FSendBad t q x ->
            tcur (thr st t) = Some (CPSend q x) /\ tcont (thr st t) = [] /\ exists old, m14_psend m = old ++ [(q, x)];
  f_pdrop : forall t q, p = FDropBad t q -> tcur (thr st t) = Some (CPDrop q) /\ tcont (thr st t) = [];
  f_noex : forall q, pexists (pps st q) = false ->
           on_pipe q (dps p m) = [] /\ on_pipe q (m14_recvd m) = [] /\ psendq (pps st q) = [] /\ pcancel (pps st q) = false /\
           memZ q (m14_dropped m) = false /\ phandle (pps st q) = false /\ spend q (mcont st) = [];
  f_drop : forall q, memZ q (m14_dropped m) = true -> pcancel (pps st q) = true;
  f_late : forall t, wkr st t -> is_late m t -> pcancel (pps st (tpipe (thr st t))) = true;
  f_ok : forall t c, wkr st t -> is_late m t -> tcur (thr st t) = Some c ->
         okret c (tret (thr st t)) /\ forall m0 v, In (IUnlock m0 (URet v)) (tcont (thr st t)) -> okret c v;
  f_ps : forall u, wkr st u -> let q := tpipe (thr st u) in
         on_pipe q (dps p m) = on_pipe q (m14_recvd m) ++ rtransit (thr st u) ++ psendq (pps st q) ++ spend q (mcont st);
  f_own_send : forall t m0 q x, In (ILock m0 (LPqSend q x)) (tcont (thr st t)) -> t = main /\ tcur (thr st t) = Some (CPSend q x);
  f_sendret : forall t q x, tcur (thr st t) = Some (CPSend q x) -> tret (thr st t) = RUnit;
  f_dropcmd : forall t q, tcur (thr st t) = Some (CPDrop q) -> p <> FDropBad t q ->
              (exists m0, In (ILock m0 (LPqCancelSet q)) (tcont (thr st t))) \/ pcancel (pps st q) = true;
  f_own_cs : forall t m0 q, In (ILock m0 (LPqCancelSet q)) (tcont (thr st t)) -> t = main /\ tcur (thr st t) = Some (CPDrop q) /\ pexists (pps st q) = true;
  f_late_cur : forall t, is_late m t -> exists c, tcur (thr st t) = Some c /\ wcmd c;
  f_late_in : forall t, In t (map fst (m14_late m)) -> (exists c, tcur (thr st t) = Some c /\ wcmd c) /\ wkr st t;
  f_late_nd : NoDup (map fst (m14_late m));
  f_own_ret : forall t m0 v, In (IUnlock m0 (URet v)) (tcont (thr st t)) ->
              (forall q x, tcur (thr st t) <> Some (CPSend q x)) /\ (forall z, v = RVal z -> tcur (thr st t) = Some CRecv /\ wkr st t);
  f_own_pr : forall t i, In i (tcont (thr st t)) ->
             (forall m0 q, i = ILock m0 (LPqRecv q) \/ i = ICvReacq q -> wkr st t /\ tcur (thr st t) = Some CRecv /\ q = tpipe (thr st t)) /\
             (forall m0 q, i = ILock m0 (LPqCancelGet q) -> wkr st t /\ tcur (thr st t) = Some CCancel /\ q = tpipe (thr st t)) /\
             (forall m0 q x, i = ILock m0 (LPqLSend q x) -> wkr st t /\ tcur (thr st t) = Some (CLSend x) /\ q = tpipe (thr st t));
  f_pr : forall t c, tcur (thr st t) = Some c -> wcmd c ->
         (prcount (tcont (thr st t)) <= 1)%nat /\ ((1 <= prcount (tcont (thr st t)))%nat -> tret (thr st t) = RUnit) }.

(** the fields of the monitor this half looks at *)
Record f14_same (m m' : m14) : Prop := {
  fs_psend : m14_psend m' = m14_psend m; fs_recvd : m14_recvd m' = m14_recvd m;
  fs_dropped : m14_dropped m' = m14_dropped m; fs_late : m14_late m' = m14_late m }.
Lemma f14_same_refl : forall m, f14_same m m.
Proof. intro m. constructor; reflexivity. Qed.
Lemma f14_same_trans : forall a b c, f14_same a b -> f14_same b c -> f14_same a c.
Proof. intros a b c [A1 A2 A3 A4] [B1 B2 B3 B4]. constructor; etransitivity; eassumption. Qed.

Definition f14_plain (e : wevent) : Prop :=
  match e with
  | ECmd (CPSend _ _) | ECmd (CLSend _) | ECmd CRecv | ECmd CCancel | ERet _ => False
  | _ => True
  end.
Lemma m14r_fplain_step : forall m t e, f14_plain e -> f14_same m (m14r_step m (t, e)).
Proof.
  intros m t e H. constructor; unfold m14r_step, m14_step; destruct e; cbn in H; try contradiction; cbn; try reflexivity;
    try (destruct c; try contradiction; cbn; try reflexivity; destruct (get_tid t (m14_owner m)); reflexivity);
    try (destruct (get_tid t (m14_owner m)); reflexivity).
Qed.
Lemma m14r_fplain_fold : forall t ev m, (forall e, In e ev -> f14_plain e) -> f14_same m (fold_left m14r_step (evs t ev) m).
Proof.
  induction ev as [|e ev IH]; intros m H; [apply f14_same_refl|]. cbn [evs map fold_left]. fold (evs t ev).
  eapply f14_same_trans; [apply (m14r_fplain_step m t e); apply H; left; reflexivity|]. apply IH. intros; apply H; right; auto.
Qed.

Lemma f_msame : forall p st m m', FRel p st m -> f14_same m m' -> FRel p st m'.
Proof.
  intros p st m m' R [M1 M2 M3 M4].
  assert (Dp : dps p m' = dps p m) by (unfold dps; rewrite M1; reflexivity).
  assert (La : forall t, is_late m' t <-> is_late m t) by (intro t; unfold is_late; rewrite M4; tauto).
  constructor.
  - rewrite M1. apply (f_psend _ _ _ R).
  - apply (f_pdrop _ _ _ R).
  - rewrite Dp, M2, M3. apply (f_noex _ _ _ R).
  - rewrite M3. apply (f_drop _ _ _ R).
  - intros t W L. apply La in L. apply (f_late _ _ _ R t W L).
  - intros t c W L. apply La in L. apply (f_ok _ _ _ R t c W L).
  - rewrite Dp, M2. apply (f_ps _ _ _ R).
  - apply (f_own_send _ _ _ R).
  - apply (f_sendret _ _ _ R).
  - apply (f_dropcmd _ _ _ R).
  - apply (f_own_cs _ _ _ R).
  - intros t L. apply La in L. apply (f_late_cur _ _ _ R t L).
  - rewrite M4. apply (f_late_in _ _ _ R).
  - rewrite M4. apply (f_late_nd _ _ _ R).
  - apply (f_own_ret _ _ _ R).
  - apply (f_own_pr _ _ _ R).
  - apply (f_pr _ _ _ R).
Qed.

(** ** what an instruction that is irrelevant for this half does *)
Definition fq (j : instr) : Prop :=
  match j with
  | ILock _ (LPqSend _ _) | ILock _ (LPqCancelSet _) | ILock _ (LPqRecv _) | ICvReacq _ | ILock _ (LPqLSend _ _)
  | ILock _ (LPqCancelGet _) | IUnlock _ (URet _) | IUnlock _ (UChPush _ _) => False
  | _ => True
  end.
Definition fpsame (st st' : wstate) : Prop :=
  forall q, psendq (pps st' q) = psendq (pps st q) /\ pcancel (pps st' q) = pcancel (pps st q) /\
            phandle (pps st' q) = phandle (pps st q) /\ pexists (pps st' q) = pexists (pps st q).
Definition chan_lock (i : instr) : Prop := (exists m0 c x, i = ILock m0 (LChSend c x)) \/ (exists m0 c, i = ILock m0 (LChClosed c)).
Definition fq' (i j : instr) : Prop :=
  fq j \/ (chan_lock i /\ ((exists m0 b, j = IUnlock m0 (URet (RBool b))) \/ (exists m0 c x, j = IUnlock m0 (UChPush c x)))).

Record feff (st st' : wstate) (t : tid) (i : instr) (r : list instr) : Prop := {
  fe_pp : fpsame st st';
  fe_new : exists new, tcont (thr st' t) = new ++ r /\ forall j, In j new -> fq' i j }.

Ltac fe_pp := let q := fresh "q" in let E := fresh "E" in
  intro q; cbn; unfold updZ; try (destruct (q =? _) eqn:E; [apply Z.eqb_eq in E; subst q|]); cbn; repeat split; reflexivity.
Ltac fe_q := let j := fresh "j" in let Hj := fresh "Hj" in
  intros j Hj; cbn in Hj; repeat (destruct Hj as [<-|Hj]); try contradiction; left; exact Logic.I.
Ltac fe NEW := constructor; [fe_pp | exists NEW; split; [thr_simpl|fe_q]].

Lemma exec_instr_feff : forall st t i r st' ev,
  CInv (core st) -> tcont (thr st t) = i :: r -> fq i -> exec_instr st t i r = (st', ev) -> feff st st' t i r.
Proof.
  intros st t i r st' ev I Hc Hi H.
  destruct i; cbn [exec_instr] in H.
  - destruct k; cbn [exec_climb] in H; inversion H; subst; clear H.
    + destruct (bitmap_join a b (bmbase st bm)) as [x|]; [destruct (slab_get (sl st) x)|];
        (destruct (leaf st bm a =? 0); [fe [IClimb (KSum bm a)]|fe (@nil instr)]).
    + destruct (summ st bm =? 0); [fe [IClimb (KTop bm)]|fe (@nil instr)].
    + destruct (top st =? 0); [fe [IClimb KCb]|fe (@nil instr)].
    + fe (@nil instr).
  - inversion H; subst; clear H. fe [IBms (flat_map (bms_of_slot st) (bits_of (top st)))].
  - destruct bms; inversion H; subst; clear H.
    + fe [IBms []].
    + fe [ILeaves z (bits_of (summ st z)); IBms bms].
  - destruct ls; [inversion H; subst; clear H; fe [ILeaves bm []]|].
    destruct (collect (bmbase st bm) z (leaf st bm z)) as [bits ok].
    match type of H with context [ghost_collect ?S0 bits] =>
      destruct (ghost_collect_sl bits S0) as [A1 [A2 [A3 [A4 [A5 [A6 [A7 A8]]]]]]]; remember (ghost_collect S0 bits) as s3 eqn:Es3 end.
    cbn zeta in *. inversion H; subst st' ev; clear H.
    constructor.
    + intro q. cbn. rewrite A7. cbn. repeat split; reflexivity.
    + exists [ILeaves bm ls]. split; [|fe_q]. cbn -[Nat.eqb]. unfold updN, th. rewrite A8. cbn -[Nat.eqb]. unfold updN, th. rewrite !Nat.eqb_refl. reflexivity.
  - inversion H; subst; clear H. fe [IRun].
  - inversion H; subst; clear H. fe [IHandlers bits].
  - inversion H; subst; clear H. fe [IDels bits].
  - (* lock *)
    match type of H with context [exec_lact ?S0 t ?aa ?rr] => destruct (exec_lact S0 t aa rr) as [s2 e2] eqn:E; set (s1 := S0) in * end.
    inversion H; subst st' ev; clear H.
    destruct a; cbn [exec_lact] in E; cbn in Hi; try contradiction.
    + destruct (climb_reserved s1 bm) as [i0|] eqn:Ecl; inversion E; subst s2 e2.
      * apply climb_at_climb in Ecl. destruct Ecl as [k ->]. unfold s1. fe [IClimb k; IUnlock MDL UNone].
      * unfold s1. fe [IUnlock MDL UNone].
    + unfold ghost_handler in E. inversion E; subst s2 e2. unfold s1. fe [IUnlock MDL (UDels (dl st))].
    + inversion E; subst s2 e2. unfold s1. fe [IUnlock (MCh c) (UChReg c)].
    + assert (Cl : chan_lock (ILock m (LChSend c m0))) by (left; eauto).
      destr_all E; repeat match goal with E0 : climb_start _ _ _ = Some _ |- _ => apply climb_at_climb in E0; destruct E0 as [? ->] end;
        inversion E; subst s2 e2; unfold s1; (constructor; [fe_pp|]).
      * exists [IClimb x; IUnlock (MCh c) (UChPush c m0)]. split; [thr_simpl|]. intros j [<-|[<-|[]]]; [left; exact Logic.I|right; split; [exact Cl|right; eauto]].
      * exists [IUnlock (MCh c) (UChPush c m0)]. split; [thr_simpl|]. intros j [<-|[]]. right; split; [exact Cl|right; eauto].
      * exists [IUnlock (MCh c) (UChPush c m0)]. split; [thr_simpl|]. intros j [<-|[]]. right; split; [exact Cl|right; eauto].
      * exists [IUnlock (MCh c) (URet (RBool false))]. split; [thr_simpl|]. intros j [<-|[]]. right; split; [exact Cl|left; eauto].
    + inversion E; subst s2 e2. unfold s1. constructor; [fe_pp|].
      exists [IUnlock (MCh c) (URet (RBool (negb (copen (chs st c)))))]. split; [thr_simpl|]. intros j [<-|[]]. right; split; [right; eauto|left; eauto].
    + destruct (copen (chs s1 c)) eqn:Eo; inversion E; subst s2 e2; unfold s1.
      * fe [ILock MDL (LPush (wbit (cw (chs st c))) (wbm (cw (chs st c))) (HChan c)); IUnlock (MCh c) (UChClear c)].
      * fe [IUnlock (MCh c) (UChClear c)].
    + unfold ghost_handler in E. inversion E; subst s2 e2. unfold s1.
      destruct del; fe [IUnlock (MCh c) (UFwd c (if copen (chs st c) then cq (chs st c) else []))].
    + unfold ghost_handler in E. inversion E; subst s2 e2. unfold s1.
      destruct del; [fe [IUnlock (MPq p) (UPqFwd p (precvq (pps st p)) (Some (ppanic (pps st p))))]
                    |fe [IUnlock (MPq p) (UPqFwd p (precvq (pps st p)) None)]].
    + inversion E; subst s2 e2. unfold s1. fe [IUnlock (MPq p) UNone].
  - (* unlock *)
    destruct (exec_uact st t a r) as [s1 e1] eqn:E. inversion H; subst st' ev; clear H.
    destruct a; cbn [exec_uact] in E; inversion E; subst s1 e1; clear E; cbn in Hi; try contradiction; try (fe (@nil instr); fail).
    fe [IDels l].
  - inversion H; subst; clear H. fe (@nil instr).
  - destruct Hi.
  - inversion H; subst st' ev; clear H.
    match goal with |- feff st (set_cont (fold_left ?f ?us st) t r) _ _ _ =>
      assert (D : pps (fold_left f us st) = pps st);
      [clear; generalize us; intro us0; revert st; induction us0 as [|v us0 IH]; intro st; [reflexivity|];
       cbn [fold_left]; rewrite IH; reflexivity|];
      set (s1 := fold_left f us st) in * end.
    constructor.
    + intro q. cbn. rewrite D. repeat split; reflexivity.
    + exists (@nil instr). split; [thr_simpl|fe_q].
  - unfold ghost_handler in H. inversion H; subst st' ev; clear H.
    destruct del; constructor; try fe_pp; exists (@nil instr); (split; [thr_simpl|fe_q]).
  - inversion H; subst; clear H. fe (@nil instr).
  - inversion H; subst; clear H. fe (@nil instr).
Qed.

Lemma spend_app : forall q a b, spend q (a ++ b) = spend q a ++ spend q b.
Proof. intros. unfold spend. apply flat_map_app. Qed.
Lemma rvals_app : forall a b, rvals (a ++ b) = rvals a ++ rvals b.
Proof. intros. unfold rvals. apply flat_map_app. Qed.
Lemma prcount_app : forall a b, prcount (a ++ b) = (prcount a + prcount b)%nat.
Proof. intros. unfold prcount. rewrite filter_app, app_length. reflexivity. Qed.

(** ** the generic step of this half: thread [t] replaces the head [i] of its continuation by [new]; what concerns
    thread [t] itself and the pipe [p0] it works on is supplied by the caller *)
Section FStep.
  Variables (p : fpend) (st st' : wstate) (m m' : m14) (t : tid) (i : instr) (r new : list instr) (p0 : Z).
  Hypothesis R : FRel p st m.
  Hypothesis Sm : f14_same m m'.
  Hypothesis F : tframe st st' t.
  Hypothesis Hc : tcont (thr st t) = i :: r.
  Hypothesis Hc' : tcont (thr st' t) = new ++ r.
  Hypothesis Hpp : forall q, phandle (pps st' q) = phandle (pps st q) /\ pexists (pps st' q) = pexists (pps st q) /\
                             (q <> p0 -> psendq (pps st' q) = psendq (pps st q) /\ pcancel (pps st' q) = pcancel (pps st q)).
  Hypothesis Hp0 : (psendq (pps st' p0) = psendq (pps st p0) /\ pcancel (pps st' p0) = pcancel (pps st p0) /\
                    spend p0 (mcont st') = spend p0 (mcont st)) \/ pexists (pps st p0) = true.
  Hypothesis Hcan : pcancel (pps st p0) = true -> pcancel (pps st' p0) = true.
  Hypothesis Htr : forall u, u <> t -> tret (thr st' u) = tret (thr st u).
  Hypothesis Hw : wkr st t -> tpipe (thr st t) = p0.
  Hypothesis Hsp : forall q, q <> p0 -> spend q (mcont st') = spend q (mcont st).
  (* obligations about the pipe [p0] and the thread [t] *)
  Hypothesis O_ps : forall u, wkr st u -> tpipe (thr st u) = p0 ->
    on_pipe p0 (dps p m') = on_pipe p0 (m14_recvd m') ++ rtransit (thr st' u) ++ psendq (pps st' p0) ++ spend p0 (mcont st').
  Hypothesis O_ok : forall c, wkr st t -> is_late m' t -> tcur (thr st' t) = Some c ->
    okret c (tret (thr st' t)) /\ forall m0 v, In (IUnlock m0 (URet v)) (tcont (thr st' t)) -> okret c v.
  Hypothesis O_own_send : forall m0 q x, In (ILock m0 (LPqSend q x)) (tcont (thr st' t)) -> t = main /\ tcur (thr st' t) = Some (CPSend q x).
  Hypothesis O_sendret : forall q x, tcur (thr st' t) = Some (CPSend q x) -> tret (thr st' t) = RUnit.
  Hypothesis O_dropcmd : forall q, tcur (thr st' t) = Some (CPDrop q) ->
    (exists m0, In (ILock m0 (LPqCancelSet q)) (tcont (thr st' t))) \/ pcancel (pps st' q) = true.
  Hypothesis O_own_cs : forall m0 q, In (ILock m0 (LPqCancelSet q)) (tcont (thr st' t)) -> t = main /\ tcur (thr st' t) = Some (CPDrop q) /\ pexists (pps st' q) = true.
  Hypothesis O_own_ret : forall m0 v, In (IUnlock m0 (URet v)) (tcont (thr st' t)) ->
    (forall q x, tcur (thr st' t) <> Some (CPSend q x)) /\ (forall z, v = RVal z -> tcur (thr st' t) = Some CRecv /\ wkr st' t).
  Hypothesis O_own_pr : forall j, In j (tcont (thr st' t)) ->
    (forall m0 q, j = ILock m0 (LPqRecv q) \/ j = ICvReacq q -> wkr st' t /\ tcur (thr st' t) = Some CRecv /\ q = tpipe (thr st' t)) /\
    (forall m0 q, j = ILock m0 (LPqCancelGet q) -> wkr st' t /\ tcur (thr st' t) = Some CCancel /\ q = tpipe (thr st' t)) /\
    (forall m0 q x, j = ILock m0 (LPqLSend q x) -> wkr st' t /\ tcur (thr st' t) = Some (CLSend x) /\ q = tpipe (thr st' t)).
  Hypothesis O_pr : forall c, tcur (thr st' t) = Some c -> wcmd c ->
    (prcount (tcont (thr st' t)) <= 1)%nat /\ ((1 <= prcount (tcont (thr st' t)))%nat -> tret (thr st' t) = RUnit).

  Let Hn : nthr st' = nthr st := proj1 F.
  Let Hf := proj1 (proj2 F).
  Let Ho := proj2 (proj2 F).

  Lemma fs_fields : (forall u, tpipe (thr st' u) = tpipe (thr st u)) /\ (forall u, tcur (thr st' u) = tcur (thr st u)).
  Proof. split; intro u; destruct (Hf u) as [A [B [C [D E]]]]; auto. Qed.
  Lemma fs_wkr : forall u, wkr st' u <-> wkr st u.
  Proof. intro u. unfold wkr. rewrite Hn. destruct fs_fields as [A _]. rewrite A. tauto. Qed.

  Lemma f_step : FRel p st' m'.
  Proof.
    destruct Sm as [M1 M2 M3 M4]. destruct fs_fields as [Tp Cu].
    assert (Dp : dps p m' = dps p m) by (unfold dps; rewrite M1; reflexivity).
    assert (La : forall u, is_late m' u <-> is_late m u) by (intro u; unfold is_late; rewrite M4; tauto).
    assert (Co : forall u, u <> t -> tcont (thr st' u) = tcont (thr st u)) by exact Ho.
    assert (Ph : forall q, phandle (pps st' q) = phandle (pps st q)) by (intro q; apply Hpp).
    assert (Pe : forall q, pexists (pps st' q) = pexists (pps st q)) by (intro q; apply Hpp).
    assert (Pn : forall q, pexists (pps st q) = false -> psendq (pps st' q) = psendq (pps st q) /\ pcancel (pps st' q) = pcancel (pps st q) /\
                            spend q (mcont st') = spend q (mcont st)).
    { intros q Hq. destruct (Z.eq_dec q p0) as [->|Nq].
      - destruct Hp0 as [A|A]; [exact A|rewrite A in Hq; discriminate Hq].
      - destruct (Hpp q) as [_ [_ A]]. destruct (A Nq) as [A1 A2]. split; [exact A1|]. split; [exact A2|apply Hsp; exact Nq]. }
    assert (Pc : forall q, pcancel (pps st q) = true -> pcancel (pps st' q) = true).
    { intros q Hq. destruct (Z.eq_dec q p0) as [->|Nq]; [apply Hcan; exact Hq|]. destruct (Hpp q) as [_ [_ A]]. rewrite (proj2 (A Nq)). exact Hq. }
    assert (Rt : forall u, u <> t -> rtransit (thr st' u) = rtransit (thr st u)).
    { intros u Hu. unfold rtransit. rewrite (Co u Hu), Cu, (Htr u Hu). reflexivity. }
    assert (Pnd : forall u, u <> t -> tcont (thr st u) = [] -> tcont (thr st' u) = []) by (intros u Hu E; rewrite (Co u Hu); exact E).
    assert (Tne : forall u, tcont (thr st u) = [] -> u <> t) by (intros u E ->; rewrite Hc in E; discriminate E).
    constructor.
    - intros u q x E. destruct (f_psend _ _ _ R u q x E) as [A [B C]]. rewrite Cu, M1. split; [exact A|]. split; [apply Pnd; [apply Tne; exact B|exact B]|exact C].
    - intros u q E. destruct (f_pdrop _ _ _ R u q E) as [A B]. rewrite Cu. split; [exact A|apply Pnd; [apply Tne; exact B|exact B]].
    - intros q. rewrite Pe. intro Hq. destruct (Pn q Hq) as [A [B C]]. rewrite Dp, M2, M3, A, B, C, Ph. apply (f_noex _ _ _ R q Hq).
    - intros q. rewrite M3. intro H. apply Pc. apply (f_drop _ _ _ R q H).
    - intros u W L. apply fs_wkr in W. apply La in L. rewrite Tp. apply Pc. apply (f_late _ _ _ R u W L).
    - intros u c W L Hcu. destruct (Nat.eq_dec u t) as [->|Hu]; [apply (O_ok c); [apply fs_wkr; exact W|exact L|exact Hcu]|].
      apply fs_wkr in W. apply La in L. rewrite Cu in Hcu. rewrite (Htr u Hu), (Co u Hu). apply (f_ok _ _ _ R u c W L Hcu).
    - intros u W. cbn zeta. apply fs_wkr in W. rewrite Tp. destruct (Z.eq_dec (tpipe (thr st u)) p0) as [E|E].
      + rewrite E. apply (O_ps u W E).
      + assert (Hu : u <> t) by (intro X; subst u; apply E; apply Hw; exact W).
        destruct (Hpp (tpipe (thr st u))) as [_ [_ A]]. destruct (A E) as [A1 _]. rewrite Dp, M2, (Rt u Hu), A1, (Hsp _ E). apply (f_ps _ _ _ R u W).
    - intros u m0 q x Hin. destruct (Nat.eq_dec u t) as [->|Hu]; [apply (O_own_send m0 q x Hin)|]. rewrite (Co u Hu) in Hin. rewrite Cu. apply (f_own_send _ _ _ R u m0 q x Hin).
    - intros u q x Hcu. destruct (Nat.eq_dec u t) as [->|Hu]; [apply (O_sendret q x Hcu)|]. rewrite Cu in Hcu. rewrite (Htr u Hu). apply (f_sendret _ _ _ R u q x Hcu).
    - intros u q Hcu Np. destruct (Nat.eq_dec u t) as [->|Hu]; [apply (O_dropcmd q Hcu)|]. rewrite Cu in Hcu. rewrite (Co u Hu).
      destruct (f_dropcmd _ _ _ R u q Hcu Np) as [A|A]; [left; exact A|right; apply Pc; exact A].
    - intros u m0 q Hin. destruct (Nat.eq_dec u t) as [->|Hu]; [apply (O_own_cs m0 q Hin)|]. rewrite (Co u Hu) in Hin. rewrite Cu, Pe. apply (f_own_cs _ _ _ R u m0 q Hin).
    - intros u L. apply La in L. rewrite Cu. apply (f_late_cur _ _ _ R u L).
    - intros u. rewrite M4. intro Hin. destruct (f_late_in _ _ _ R u Hin) as [[c0 [A1 A2]] B]. split; [exists c0; rewrite Cu; auto|apply fs_wkr; exact B].
    - rewrite M4. apply (f_late_nd _ _ _ R).
    - intros u m0 v Hin. destruct (Nat.eq_dec u t) as [->|Hu]; [apply (O_own_ret m0 v Hin)|]. rewrite (Co u Hu) in Hin. rewrite Cu. destruct (f_own_ret _ _ _ R u m0 v Hin) as [A B]. split; [exact A|]. intros z Ez. destruct (B z Ez) as [B1 B2]. split; [exact B1|apply fs_wkr; exact B2].
    - intros u j Hin. destruct (Nat.eq_dec u t) as [->|Hu]; [apply (O_own_pr j Hin)|]. rewrite (Co u Hu) in Hin. rewrite Cu, Tp. destruct (f_own_pr _ _ _ R u j Hin) as [A [B C]]. split; [intros m0 q E; destruct (A m0 q E) as [A1 A2]; split; [apply fs_wkr; exact A1|exact A2]|split; [intros m0 q E; destruct (B m0 q E) as [B1 B2]; split; [apply fs_wkr; exact B1|exact B2]|intros m0 q x E; destruct (C m0 q x E) as [C1 C2]; split; [apply fs_wkr; exact C1|exact C2]]].
    - intros u c Hcu Wc. destruct (Nat.eq_dec u t) as [->|Hu]; [apply (O_pr c Hcu Wc)|]. rewrite Cu in Hcu. rewrite (Co u Hu), (Htr u Hu). apply (f_pr _ _ _ R u c Hcu Wc).
  Qed.
End FStep.

Lemma fq_facts : forall j, fq j -> pr j = false /\ (forall q, spend q [j] = []) /\ rvals [j] = [] /\
  (forall m0 q x, j <> ILock m0 (LPqSend q x)) /\ (forall m0 q, j <> ILock m0 (LPqCancelSet q)) /\ (forall m0 v, j <> IUnlock m0 (URet v)) /\
  (forall m0 q, j <> ILock m0 (LPqRecv q)) /\ (forall q, j <> ICvReacq q) /\ (forall m0 q, j <> ILock m0 (LPqCancelGet q)) /\
  (forall m0 q x, j <> ILock m0 (LPqLSend q x)).
Proof.
  intros j H. destruct j; cbn in H; try contradiction; try (repeat split; try reflexivity; intros; discriminate).
  - destruct a; cbn in H; try contradiction; repeat split; try reflexivity; intros; discriminate.
  - destruct a; cbn in H; try contradiction; repeat split; try reflexivity; intros; discriminate.
Qed.

Lemma spend_cons : forall q i r, spend q (i :: r) = spend q [i] ++ spend q r.
Proof. intros. change (i :: r) with ([i] ++ r). apply spend_app. Qed.
Lemma rvals_cons : forall i r, rvals (i :: r) = rvals [i] ++ rvals r.
Proof. intros. change (i :: r) with ([i] ++ r). apply rvals_app. Qed.
Lemma prcount_cons : forall i r, prcount (i :: r) = ((if pr i then 1 else 0) + prcount r)%nat.
Proof. intros. unfold prcount. cbn [filter]. destruct (pr i); reflexivity. Qed.

(** what the continuation gained: quiet instructions, or the return instruction of a channel command *)
Lemma fq'_list : forall i new, (forall j, In j new -> fq' i j) ->
  (forall q, spend q new = []) /\ rvals new = [] /\
  (forall j, In j new -> (forall m0 q x, j <> ILock m0 (LPqSend q x)) /\ (forall m0 q, j <> ILock m0 (LPqCancelSet q)) /\
                         (forall m0 q, j <> ILock m0 (LPqRecv q)) /\ (forall q, j <> ICvReacq q) /\ (forall m0 q, j <> ILock m0 (LPqCancelGet q)) /\
                         (forall m0 z, j <> IUnlock m0 (URet (RVal z))) /\ (forall m0 q x, j <> ILock m0 (LPqLSend q x))) /\
  (~ chan_lock i -> prcount new = O /\ forall m0 v, ~ In (IUnlock m0 (URet v)) new).
Proof.
  intros i new. induction new as [|j k IH]; intro H.
  - split; [reflexivity|]. split; [reflexivity|]. split; [intros j []|]. intros _. split; [reflexivity|intros m0 v []].
  - destruct IH as [A [B [C D]]]; [intros; apply H; right; assumption|].
    assert (Hj : (forall q, spend q [j] = []) /\ rvals [j] = [] /\
                 ((forall m0 q x, j <> ILock m0 (LPqSend q x)) /\ (forall m0 q, j <> ILock m0 (LPqCancelSet q)) /\
                  (forall m0 q, j <> ILock m0 (LPqRecv q)) /\ (forall q, j <> ICvReacq q) /\ (forall m0 q, j <> ILock m0 (LPqCancelGet q)) /\
                  (forall m0 z, j <> IUnlock m0 (URet (RVal z))) /\ (forall m0 q x, j <> ILock m0 (LPqLSend q x))) /\ (~ chan_lock i -> pr j = false /\ forall m0 v, j <> IUnlock m0 (URet v))).
    { destruct (H j (or_introl eq_refl)) as [F|[Cl [[m0 [b ->]]|[m0 [c [x ->]]]]]].
      - destruct (fq_facts j F) as [F1 [F2 [F3 [F4 [F5 [F6 [F7 [F8 [F9 F10]]]]]]]]]. split; [exact F2|]. split; [exact F3|].
        split; [repeat split; auto; intros m0 z E; exact (F6 m0 _ E)|]. intros _. split; [exact F1|exact F6].
      - split; [intro q; reflexivity|]. split; [reflexivity|]. split; [repeat split; intros; discriminate|]. intro N. exfalso. exact (N Cl).
      - split; [intro q; reflexivity|]. split; [reflexivity|]. split; [repeat split; intros; discriminate|]. intro N. exfalso. exact (N Cl). }
    destruct Hj as [J1 [J2 [J3 J4]]].
    split; [intro q; rewrite (spend_cons q j k), J1, A; reflexivity|]. split; [rewrite (rvals_cons j k), J2, B; reflexivity|].
    split; [intros j0 [<-|Hin]; [exact J3|apply C; exact Hin]|].
    intro N. destruct (J4 N) as [K1 K2]. destruct (D N) as [D1 D2]. split; [rewrite prcount_cons, K1, D1; reflexivity|].
    intros m0 v [E|Hin]; [exact (K2 m0 v E)|exact (D2 m0 v Hin)].
Qed.

Lemma chan_lock_cur : forall st t i r, ShInv st -> tcont (thr st t) = i :: r -> chan_lock i ->
  (exists a b, tcur (thr st t) = Some (CSend a b)) \/ (exists a, tcur (thr st t) = Some (CClosed a)).
Proof.
  intros st t i r S Hc [[m0 [c [x ->]]]|[m0 [c ->]]].
  - left. exists c, x. apply (sh_own_ls st S t m0 c x). rewrite Hc. left. reflexivity.
  - right. exists c. apply (sh_own_lc st S t m0 c). rewrite Hc. left. reflexivity.
Qed.

Lemma exec_instr_F_quiet : forall p st m t i r st' ev,
  CInv (core st) -> ShInv st -> FRel p st m -> tcont (thr st t) = i :: r -> fq i -> exec_instr st t i r = (st', ev) ->
  FRel p st' (fold_left m14r_step (evs t ev) m).
Proof.
  intros p st m t i r st' ev I S R Hc Hi H.
  destruct (exec_instr_feff _ _ _ _ _ _ I Hc Hi H) as [Pp [new [Hc' Hnew]]].
  destruct (exec_instr_eff _ _ _ _ _ _ I Hc H) as [F _ _ _ Htret _ Hnoc].
  destruct (fq_facts i Hi) as [I1 [I2 [I3 [I4 [I5 [I6 [I7 [I8 [I9 I10]]]]]]]]].
  destruct (fq'_list i new Hnew) as [N1 [N2 [N3 N4]]].
  assert (Tr : forall u, tret (thr st' u) = tret (thr st u)).
  { apply Htret; [intros m0 v E; exact (I6 m0 v E)|intros m0 c x E; subst i; exact Hi]. }
  assert (Pev : forall e, In e ev -> f14_plain e).
  { intros e He. destruct (Hnoc e He) as [A B]. destruct e; try exact Logic.I; [exfalso; eapply A; reflexivity|exfalso; eapply B; reflexivity]. }
  pose proof F as [Hn [Hf Ho]].
  assert (Cu : forall u, tcur (thr st' u) = tcur (thr st u)) by (intro u; apply Hf).
  assert (Tp : forall u, tpipe (thr st' u) = tpipe (thr st u)) by (intro u; apply Hf).
  assert (Wk : forall u, wkr st' u <-> wkr st u) by (intro u; unfold wkr; rewrite Hn, Tp; tauto).
  assert (Sp : forall q, spend q (mcont st') = spend q (mcont st)).
  { intro q. unfold mcont. destruct (Nat.eq_dec main t) as [E|E]; [|rewrite (Ho main E); reflexivity].
    rewrite E, Hc, Hc', spend_app, (spend_cons q i r), N1, I2. reflexivity. }
  assert (Inr : forall j, In j (tcont (thr st' t)) -> In j new \/ In j (tcont (thr st t))).
  { intros j Hj. rewrite Hc' in Hj. apply in_app_or in Hj. destruct Hj as [Hj|Hj]; [left; exact Hj|right; rewrite Hc; right; exact Hj]. }
  assert (NotChan : forall c, tcur (thr st t) = Some c -> wcmd c \/ (exists q x, c = CPSend q x) -> ~ chan_lock i).
  { intros c Hcu Hw Cl. destruct (chan_lock_cur st t i r S Hc Cl) as [[a [b E]]|[a E]]; rewrite E in Hcu; inversion Hcu; subst c;
      (destruct Hw as [Hw|[q [x Hw]]]; [exact Hw|discriminate Hw]). }
  apply (f_step p st st' m _ t i r (tpipe (thr st t)) R (m14r_fplain_fold t ev m Pev) F Hc).
  - intro q. destruct (Pp q) as [A [B [C D]]]. split; [exact C|]. split; [exact D|]. intros _. split; [exact A|exact B].
  - left. destruct (Pp (tpipe (thr st t))) as [A [B _]]. split; [exact A|]. split; [exact B|apply Sp].
  - destruct (Pp (tpipe (thr st t))) as [_ [B _]]. rewrite B. auto.
  - intros u _. apply Tr.
  - intros _. reflexivity.
  - intros q _. apply Sp.
  - intros u W E. destruct (Pp (tpipe (thr st t))) as [A _]. rewrite A, Sp.
    assert (Rt : rtransit (thr st' u) = rtransit (thr st u)).
    { unfold rtransit. rewrite Cu, Tr. destruct (Nat.eq_dec u t) as [->|Hu]; [|rewrite (Ho u Hu); reflexivity].
      rewrite Hc, Hc', rvals_app, (rvals_cons i r), N2, I3. reflexivity. }
    rewrite Rt. pose proof (f_ps _ _ _ R u W) as L. cbn zeta in L. rewrite E in L.
    destruct (m14r_fplain_fold t ev m Pev) as [M1 M2 M3 M4]. unfold dps. rewrite M1, M2. exact L.
  - intros c W L Hcu. rewrite Cu in Hcu. rewrite Tr.
    assert (L0 : is_late m t) by (destruct (m14r_fplain_fold t ev m Pev) as [_ _ _ M4]; unfold is_late in *; rewrite M4 in L; exact L).
    destruct (f_ok _ _ _ R t c W L0 Hcu) as [A B]. split; [exact A|]. intros m0 v Hin. destruct (Inr _ Hin) as [Hj|Hj]; [|exact (B m0 v Hj)].
    exfalso. destruct (f_late_cur _ _ _ R t L0) as [c0 [E0 W0]]. destruct (N4 (NotChan c0 E0 (or_introl W0))) as [_ Z0]. exact (Z0 m0 v Hj).
  - intros m0 q x Hin. rewrite Cu. destruct (Inr _ Hin) as [Hj|Hj]; [exfalso; destruct (N3 _ Hj) as [Z0 _]; exact (Z0 m0 q x eq_refl)|].
    apply (f_own_send _ _ _ R t m0 q x Hj).
  - intros q x Hcu. rewrite Cu in Hcu. rewrite Tr. apply (f_sendret _ _ _ R t q x Hcu).
  - intros q Hcu. rewrite Cu in Hcu. destruct (Pp q) as [_ [B _]]. rewrite B.
    assert (Np : p <> FDropBad t q) by (intro E; destruct (f_pdrop _ _ _ R t q E) as [_ Z0]; rewrite Hc in Z0; discriminate Z0).
    destruct (f_dropcmd _ _ _ R t q Hcu Np) as [[m0 A]|A]; [|right; exact A]. left. exists m0. rewrite Hc in A. rewrite Hc'.
    destruct A as [A|A]; [exfalso; exact (I5 m0 q A)|apply in_or_app; right; exact A].
  - intros m0 q Hin. rewrite Cu. destruct (Pp q) as [_ [_ [_ D0]]]. rewrite D0. destruct (Inr _ Hin) as [Hj|Hj]; [exfalso; destruct (N3 _ Hj) as [_ [Z0 _]]; exact (Z0 m0 q eq_refl)|].
    apply (f_own_cs _ _ _ R t m0 q Hj).
  - intros m0 v Hin. rewrite Cu. destruct (Inr _ Hin) as [Hj|Hj].
    + split.
      * intros q x Hcu. destruct (N4 (NotChan _ Hcu (or_intror (ex_intro _ q (ex_intro _ x eq_refl))))) as [_ Z0]. exact (Z0 m0 v Hj).
      * intros z ->. exfalso. destruct (N3 _ Hj) as [_ [_ [_ [_ [_ [Z0 _]]]]]]. exact (Z0 m0 z eq_refl).
    + destruct (f_own_ret _ _ _ R t m0 v Hj) as [A B]. split; [exact A|]. intros z Ez. destruct (B z Ez) as [B1 B2]. split; [exact B1|apply Wk; exact B2].
  - intros j Hin. rewrite Cu, Tp. destruct (Inr _ Hin) as [Hj|Hj].
    + destruct (N3 _ Hj) as [_ [_ [Z1 [Z2 [Z3 [_ Z4]]]]]]. split; [|split].
      * intros m0 q [E|E]; exfalso; [exact (Z1 m0 q E)|exact (Z2 q E)].
      * intros m0 q E. exfalso. exact (Z3 m0 q E).
      * intros m0 q x E. exfalso. exact (Z4 m0 q x E).
    + destruct (f_own_pr _ _ _ R t j Hj) as [A [B C]]. split; [intros m0 q E; destruct (A m0 q E) as [A1 A2]; split; [apply Wk; exact A1|exact A2]|split;
        [intros m0 q E; destruct (B m0 q E) as [B1 B2]; split; [apply Wk; exact B1|exact B2]|intros m0 q x E; destruct (C m0 q x E) as [C1 C2]; split; [apply Wk; exact C1|exact C2]]].
  - intros c Hcu Wc. rewrite Cu in Hcu. rewrite Tr, Hc'. destruct (N4 (NotChan c Hcu (or_introl Wc))) as [Z0 _].
    rewrite prcount_app, Z0. cbn [plus]. destruct (f_pr _ _ _ R t c Hcu Wc) as [A B]. rewrite Hc, prcount_cons, I1 in A, B. exact (conj A B).
Qed.

(** the same with a continuation that only gains quiet instructions *)
Lemma f_step_q : forall p st st' m m' t i r new p0,
  FRel p st m -> f14_same m m' -> tframe st st' t -> tcont (thr st t) = i :: r -> tcont (thr st' t) = new ++ r ->
  (forall j, In j new -> fq j) ->
  (forall q, phandle (pps st' q) = phandle (pps st q) /\ pexists (pps st' q) = pexists (pps st q) /\
             (q <> p0 -> psendq (pps st' q) = psendq (pps st q) /\ pcancel (pps st' q) = pcancel (pps st q))) ->
  ((psendq (pps st' p0) = psendq (pps st p0) /\ pcancel (pps st' p0) = pcancel (pps st p0) /\ spend p0 (mcont st') = spend p0 (mcont st)) \/
   pexists (pps st p0) = true) ->
  (pcancel (pps st p0) = true -> pcancel (pps st' p0) = true) ->
  (forall u, u <> t -> tret (thr st' u) = tret (thr st u)) ->
  (wkr st t -> tpipe (thr st t) = p0) ->
  (forall q, q <> p0 -> spend q (mcont st') = spend q (mcont st)) ->
  (forall u, wkr st u -> tpipe (thr st u) = p0 ->
     on_pipe p0 (dps p m') = on_pipe p0 (m14_recvd m') ++ rtransit (thr st' u) ++ psendq (pps st' p0) ++ spend p0 (mcont st')) ->
  (forall c, wkr st t -> is_late m t -> tcur (thr st t) = Some c -> okret c (tret (thr st' t))) ->
  (forall q x, tcur (thr st t) = Some (CPSend q x) -> tret (thr st' t) = RUnit) ->
  (forall q, tcur (thr st t) = Some (CPDrop q) -> (exists m0, In (ILock m0 (LPqCancelSet q)) r) \/ pcancel (pps st' q) = true) ->
  (forall c, tcur (thr st t) = Some c -> wcmd c -> (prcount r <= 1)%nat /\ ((1 <= prcount r)%nat -> tret (thr st' t) = RUnit)) ->
  FRel p st' m'.
Proof.
  intros p st st' m m' t i r new p0 R Sm F Hc Hc' Hnew Hpp Hp0 Hcan Htr Hw Hsp Ops Ook Osr Odc Opr.
  pose proof F as [Hn [Hf Ho]].
  assert (Cu : forall u, tcur (thr st' u) = tcur (thr st u)) by (intro u; apply Hf).
  assert (Tp : forall u, tpipe (thr st' u) = tpipe (thr st u)) by (intro u; apply Hf).
  assert (Wk : forall u, wkr st' u <-> wkr st u) by (intro u; unfold wkr; rewrite Hn, Tp; tauto).
  assert (Nq : forall j, In j (tcont (thr st' t)) -> (fq j /\ In j new) \/ In j r).
  { intros j Hj. rewrite Hc' in Hj. apply in_app_or in Hj. destruct Hj as [Hj|Hj]; [left; split; [apply Hnew; exact Hj|exact Hj]|right; exact Hj]. }
  assert (Inr : forall j, In j r -> In j (tcont (thr st t))) by (intros j Hj; rewrite Hc; right; exact Hj).
  assert (Pz : prcount new = O).
  { clear - Hnew. induction new as [|j k IH]; [reflexivity|]. rewrite prcount_cons, IH by (intros; apply Hnew; right; assumption).
    destruct (fq_facts j (Hnew j (or_introl eq_refl))) as [A _]. rewrite A. reflexivity. }
  apply (f_step p st st' m m' t i r p0 R Sm F Hc Hpp Hp0 Hcan Htr Hw Hsp Ops).
  - intros c W L Hcu. rewrite Cu in Hcu. assert (L0 : is_late m t) by (destruct Sm as [_ _ _ M4]; unfold is_late in *; rewrite M4 in L; exact L).
    split; [apply (Ook c W L0 Hcu)|]. intros m0 v Hin. destruct (Nq _ Hin) as [[Fj _]|Hj]; [exfalso; exact (proj1 (proj2 (proj2 (proj2 (proj2 (proj2 (fq_facts _ Fj)))))) m0 v eq_refl)|].
    apply (proj2 (f_ok _ _ _ R t c W L0 Hcu) m0 v (Inr _ Hj)).
  - intros m0 q x Hin. rewrite Cu. destruct (Nq _ Hin) as [[Fj _]|Hj]; [exfalso; exact (proj1 (proj2 (proj2 (proj2 (fq_facts _ Fj)))) m0 q x eq_refl)|].
    apply (f_own_send _ _ _ R t m0 q x (Inr _ Hj)).
  - intros q x Hcu. rewrite Cu in Hcu. apply (Osr q x Hcu).
  - intros q Hcu. rewrite Cu in Hcu. destruct (Odc q Hcu) as [[m0 A]|A]; [left; exists m0; rewrite Hc'; apply in_or_app; right; exact A|right; exact A].
  - intros m0 q Hin. rewrite Cu. destruct (Hpp q) as [_ [D0 _]]. rewrite D0. destruct (Nq _ Hin) as [[Fj _]|Hj]; [exfalso; exact (proj1 (proj2 (proj2 (proj2 (proj2 (fq_facts _ Fj))))) m0 q eq_refl)|].
    apply (f_own_cs _ _ _ R t m0 q (Inr _ Hj)).
  - intros m0 v Hin. rewrite Cu. destruct (Nq _ Hin) as [[Fj _]|Hj]; [exfalso; exact (proj1 (proj2 (proj2 (proj2 (proj2 (proj2 (fq_facts _ Fj)))))) m0 v eq_refl)|].
    destruct (f_own_ret _ _ _ R t m0 v (Inr _ Hj)) as [A B]. split; [exact A|]. intros z Ez. destruct (B z Ez) as [B1 B2]. split; [exact B1|apply Wk; exact B2].
  - intros j Hin. rewrite Cu, Tp. destruct (Nq _ Hin) as [[Fj _]|Hj].
    + destruct (fq_facts _ Fj) as [_ [_ [_ [_ [_ [_ [Z1 [Z2 [Z3 Z4]]]]]]]]]. split; [intros m0 q [E|E]; exfalso; [exact (Z1 m0 q E)|exact (Z2 q E)]|split; [intros m0 q E; exfalso; exact (Z3 m0 q E)|intros m0 q x E; exfalso; exact (Z4 m0 q x E)]].
    + destruct (f_own_pr _ _ _ R t j (Inr _ Hj)) as [A [B C]]. split; [intros m0 q E; destruct (A m0 q E) as [A1 A2]; split; [apply Wk; exact A1|exact A2]|split;
        [intros m0 q E; destruct (B m0 q E) as [B1 B2]; split; [apply Wk; exact B1|exact B2]|intros m0 q x E; destruct (C m0 q x E) as [C1 C2]; split; [apply Wk; exact C1|exact C2]]].
  - intros c Hcu Wc. rewrite Cu in Hcu. rewrite Hc', prcount_app, Pz. cbn [plus]. apply (Opr c Hcu Wc).
Qed.

Lemma main_not_wkr : forall st, XInv st -> ~ wkr st main.
Proof. intros st X [_ W]. destruct (x_main _ X) as [_ Xm]. lia. Qed.

(** ** the main thread queues a message / sets the cancel flag *)
Lemma exec_psend_F : forall p st m t m0 q x r st' ev,
  CInv (core st) -> XInv st -> FRel p st m ->
  tcont (thr st t) = ILock m0 (LPqSend q x) :: r -> exec_instr st t (ILock m0 (LPqSend q x)) r = (st', ev) ->
  FRel p st' (fold_left m14r_step (evs t ev) m).
Proof.
  intros p st m t m0 q x r st' ev I X R Hc H.
  destruct (f_own_send _ _ _ R t m0 q x) as [Tm Hcu]; [rewrite Hc; left; reflexivity|]. subst t.
  destruct (exec_instr_eff _ _ _ _ _ _ I Hc H) as [F _ _ _ Htret _ _].
  assert (Tr : forall u, tret (thr st' u) = tret (thr st u)) by (apply Htret; intros; discriminate).
  cbn [exec_instr exec_lact] in H.
  set (s1 := acq_mtx (set_owner st (updM (owner st) m0 (Some main))) main m0) in *.
  set (nt := match psendq (pps s1 q) with [] => [INotify q] | _ => [] end) in *.
  assert (Fn : forall j, In j (IUnlock (MPq q) UNone :: nt) -> fq j).
  { intros j [<-|Hj]; [exact Logic.I|]. unfold nt in Hj. destruct (psendq (pps s1 q)); [destruct Hj as [<-|[]]; exact Logic.I|destruct Hj]. }
  inversion H; subst st' ev; clear H.
  assert (Pl : forall e, In e [ELock m0] -> f14_plain e) by (intros e [<-|[]]; exact Logic.I).
  assert (Hm : mcont st = ILock m0 (LPqSend q x) :: r) by exact Hc.
  assert (Ex : pexists (pps st q) = true).
  { destruct (pexists (pps st q)) eqn:E; [reflexivity|exfalso]. destruct (f_noex _ _ _ R q E) as [_ [_ [_ [_ [_ [_ Z0]]]]]].
    rewrite Hm, (spend_cons q _ r) in Z0. cbn in Z0. rewrite Z.eqb_refl in Z0. discriminate Z0. }
  assert (Sn : forall q', spend q' (IUnlock (MPq q) UNone :: nt) = []).
  { intro q'. unfold nt. destruct (psendq (pps s1 q)); reflexivity. }
  match goal with |- FRel p ?S' _ => set (st' := S') end.
  assert (Hc' : tcont (thr st' main) = (IUnlock (MPq q) UNone :: nt) ++ r) by (unfold st', nt, s1; thr_simpl).
  assert (Mc' : mcont st' = (IUnlock (MPq q) UNone :: nt) ++ r) by exact Hc'.
  apply (f_step_q p st st' m _ main _ r (IUnlock (MPq q) UNone :: nt) q R (m14r_fplain_fold main _ m Pl) F Hc Hc' Fn).
  - intro q'. unfold st', s1. cbn. unfold updZ. destruct (Z.eqb_spec q' q) as [->|Nq]; cbn; (split; [reflexivity|split; [reflexivity|]]); [intro Y; exfalso; apply Y; reflexivity|intros _; split; reflexivity].
  - right. exact Ex.
  - unfold st', s1. cbn. unfold updZ. rewrite Z.eqb_refl. cbn. auto.
  - intros u _. apply Tr.
  - intro W. exfalso. exact (main_not_wkr st X W).
  - intros q' Nq. rewrite Mc', Hm, spend_app, Sn, (spend_cons q' _ r). cbn. destruct (Z.eqb_spec q q'); [exfalso; apply Nq; auto|reflexivity].
  - intros u W E. pose proof (f_ps _ _ _ R u W) as L. cbn zeta in L. rewrite E in L.
    destruct (m14r_fplain_fold main [ELock m0] m Pl) as [M1 M2 M3 M4]. unfold dps in *. rewrite M1, M2.
    assert (Hu : u <> main) by (intro Y; subst u; exact (main_not_wkr st X W)).
    assert (Rt : rtransit (thr st' u) = rtransit (thr st u)).
    { unfold rtransit. replace (thr st' u) with (thr st u); [reflexivity|]. unfold st', s1. thr_simpl. }
    rewrite Rt, Mc', spend_app, Sn. cbn [app]. rewrite L, Hm, (spend_cons q _ r). cbn [spend flat_map]. rewrite Z.eqb_refl. cbn [app].
    replace (psendq (pps st' q)) with (psendq (pps st q) ++ [x]); [rewrite <- !app_assoc; reflexivity|].
    unfold st', s1. cbn. unfold updZ. rewrite Z.eqb_refl. reflexivity.
  - intros c W. exfalso. exact (main_not_wkr st X W).
  - intros q' x' Hq. rewrite Tr. apply (f_sendret _ _ _ R main q' x' Hq).
  - intros q' Hq. rewrite Hcu in Hq. discriminate Hq.
  - intros c Hq Wc. rewrite Hcu in Hq. inversion Hq; subst c. destruct Wc.
Qed.


Lemma exec_pcancel_F : forall p st m t m0 q r st' ev,
  CInv (core st) -> XInv st -> FRel p st m ->
  tcont (thr st t) = ILock m0 (LPqCancelSet q) :: r -> exec_instr st t (ILock m0 (LPqCancelSet q)) r = (st', ev) ->
  FRel p st' (fold_left m14r_step (evs t ev) m).
Proof.
  intros p st m t m0 q r st' ev I X R Hc H.
  destruct (f_own_cs _ _ _ R t m0 q) as [Tm [Hcu Ex]]; [rewrite Hc; left; reflexivity|]. subst t.
  destruct (exec_instr_eff _ _ _ _ _ _ I Hc H) as [F _ _ _ Htret _ _].
  assert (Tr : forall u, tret (thr st' u) = tret (thr st u)) by (apply Htret; intros; discriminate).
  cbn [exec_instr exec_lact] in H.
  set (s1 := acq_mtx (set_owner st (updM (owner st) m0 (Some main))) main m0) in *.
  inversion H; subst st' ev; clear H.
  assert (Pl : forall e, In e [ELock m0] -> f14_plain e) by (intros e [<-|[]]; exact Logic.I).
  match goal with |- FRel p ?S' _ => set (st' := S') end.
  assert (Hc' : tcont (thr st' main) = [IUnlock (MPq q) UNone; INotify q] ++ r) by (unfold st', s1; thr_simpl).
  assert (Fn : forall j, In j [IUnlock (MPq q) UNone; INotify q] -> fq j) by (intros j [<-|[<-|[]]]; exact Logic.I).
  assert (Ps : forall q', psendq (pps st' q') = psendq (pps st q')).
  { intro q'. unfold st', s1. cbn. unfold updZ. destruct (Z.eqb_spec q' q) as [->|]; reflexivity. }
  assert (Pc : pcancel (pps st' q) = true) by (unfold st', s1; cbn; unfold updZ; rewrite Z.eqb_refl; reflexivity).
  assert (Sp : forall q', spend q' (mcont st') = spend q' (mcont st)).
  { intro q'. unfold mcont. rewrite Hc, Hc', spend_app, (spend_cons q' _ r). reflexivity. }
  apply (f_step_q p st st' m _ main _ r [IUnlock (MPq q) UNone; INotify q] q R (m14r_fplain_fold main _ m Pl) F Hc Hc' Fn).
  - intro q'. unfold st', s1. cbn. unfold updZ. destruct (Z.eqb_spec q' q) as [->|Nq]; cbn; (split; [reflexivity|split; [reflexivity|]]); [intro Y; exfalso; apply Y; reflexivity|intros _; split; reflexivity].
  - right. exact Ex.
  - intros _. exact Pc.
  - intros u _. apply Tr.
  - intro W. exfalso. exact (main_not_wkr st X W).
  - intros q' _. apply Sp.
  - intros u W E. pose proof (f_ps _ _ _ R u W) as L. cbn zeta in L. rewrite E in L.
    destruct (m14r_fplain_fold main [ELock m0] m Pl) as [M1 M2 M3 M4]. unfold dps in *. rewrite M1, M2.
    assert (Hu : u <> main) by (intro Y; subst u; exact (main_not_wkr st X W)).
    assert (Rt : rtransit (thr st' u) = rtransit (thr st u)).
    { unfold rtransit. replace (thr st' u) with (thr st u); [reflexivity|]. unfold st', s1. thr_simpl. }
    rewrite Rt, Ps, Sp. exact L.
  - intros c W. exfalso. exact (main_not_wkr st X W).
  - intros q' x' Hq. rewrite Hcu in Hq. discriminate Hq.
  - intros q' Hq. rewrite Hcu in Hq. inversion Hq; subst q'. right. exact Pc.
  - intros c Hq Wc. rewrite Hcu in Hq. inversion Hq; subst c. destruct Wc.
Qed.

Lemma prcount0_rvals : forall k, prcount k = O -> rvals k = [] /\ forall m0 v, ~ In (IUnlock m0 (URet v)) k.
Proof.
  induction k as [|j k IH]; intro H; [split; [reflexivity|intros m0 v []]|].
  rewrite prcount_cons in H. destruct (pr j) eqn:Ej; [discriminate H|]. destruct (IH H) as [A B].
  split; [rewrite (rvals_cons j k), A, app_nil_r; destruct j; try reflexivity; destruct a; try reflexivity; discriminate Ej|].
  intros m0 v [E|Hin]; [subst j; discriminate Ej|exact (B m0 v Hin)].
Qed.

Ltac own := cbn -[Nat.eqb]; unfold updN, th; rewrite ?Nat.eqb_refl; cbn -[Nat.eqb]; unfold updN, th; rewrite ?Nat.eqb_refl; cbn -[Nat.eqb]; try reflexivity.
Ltac oth E := cbn -[Nat.eqb]; unfold updN, th; cbn -[Nat.eqb]; unfold updN, th; rewrite ?Nat.eqb_refl;
  repeat match goal with |- context [Nat.eqb ?a ?b] =>
    let Y := fresh "Y" in destruct (Nat.eqb_spec a b) as [Y|Y]; [exfalso; first [exact (E Y)|exact (E (eq_sym Y))]|] end;
  reflexivity.

(** ** a return value is stored *)
Lemma exec_uret_F : forall p st m t m0 v r st' ev,
  CInv (core st) -> FRel p st m ->
  tcont (thr st t) = IUnlock m0 (URet v) :: r -> exec_instr st t (IUnlock m0 (URet v)) r = (st', ev) ->
  FRel p st' (fold_left m14r_step (evs t ev) m).
Proof.
  intros p st m t m0 v r st' ev I R Hc H.
  destruct (f_own_ret _ _ _ R t m0 v) as [Nps Hrv]; [rewrite Hc; left; reflexivity|].
  destruct (exec_instr_eff _ _ _ _ _ _ I Hc H) as [F _ _ _ _ _ _].
  assert (Tro : forall u, u <> t -> tret (thr st' u) = tret (thr st u)) by (intros u Hu; eapply tret_other; eauto).
  cbn [exec_instr exec_uact] in H. inversion H; subst st' ev; clear H.
  assert (Pl : forall e, In e [EUnlock m0] -> f14_plain e) by (intros e [<-|[]]; exact Logic.I).
  match goal with |- FRel p ?S' _ => set (st' := S') end.
  assert (Hc' : tcont (thr st' t) = [] ++ r) by (unfold st'; thr_simpl).
  assert (Tr' : tret (thr st' t) = v) by (unfold st'; thr_simpl).
  assert (Pps : pps st' = pps st) by reflexivity.
  assert (Sp : forall q, spend q (mcont st') = spend q (mcont st)).
  { intro q. unfold mcont. destruct (Nat.eq_dec main t) as [E|E].
    - rewrite E, Hc, Hc', (spend_cons q _ r). reflexivity.
    - replace (thr st' main) with (thr st main); [reflexivity|]. unfold st'. oth E. }
  assert (Cnt : forall c, tcur (thr st t) = Some c -> wcmd c -> prcount r = O /\ tret (thr st t) = RUnit).
  { intros c Hcu Wc. destruct (f_pr _ _ _ R t c Hcu Wc) as [A B]. rewrite Hc, prcount_cons in A, B. cbn [pr] in A, B. split; [lia|apply B; lia]. }
  apply (f_step_q p st st' m _ t _ r [] (tpipe (thr st t)) R (m14r_fplain_fold t _ m Pl) F Hc Hc').
  - intros j [].
  - intro q. rewrite Pps. repeat split; reflexivity.
  - left. rewrite Pps. split; [reflexivity|]. split; [reflexivity|apply Sp].
  - rewrite Pps. auto.
  - exact Tro.
  - intros _. reflexivity.
  - intros q _. apply Sp.
  - intros u W E. pose proof (f_ps _ _ _ R u W) as L. cbn zeta in L. rewrite E in L.
    destruct (m14r_fplain_fold t [EUnlock m0] m Pl) as [M1 M2 M3 M4]. unfold dps in *. rewrite M1, M2, Pps, Sp.
    assert (Rt : rtransit (thr st' u) = rtransit (thr st u)).
    { destruct (Nat.eq_dec u t) as [->|Hu]; [|unfold rtransit; replace (thr st' u) with (thr st u); [reflexivity|unfold st'; cbn -[Nat.eqb]; unfold updN, th; cbn -[Nat.eqb]; unfold updN, th; rewrite ?Nat.eqb_refl; destruct (Nat.eqb_spec u t) as [Y|Y]; [exfalso; exact (Hu Y)|reflexivity]]].
      unfold rtransit. rewrite Hc', Hc, Tr'. replace (tcur (thr st' t)) with (tcur (thr st t)) by (unfold st'; cbn -[Nat.eqb]; unfold updN, th; cbn -[Nat.eqb]; unfold updN, th; rewrite ?Nat.eqb_refl; reflexivity). cbn [app].
      rewrite (rvals_cons _ r).
      assert (Dv : (exists z, v = RVal z) \/ (forall z, v <> RVal z)) by (destruct v; try (right; intros; discriminate); left; eauto).
      destruct Dv as [[z ->]|Nv].
      - destruct (Hrv z eq_refl) as [Hcu _]. destruct (Cnt CRecv Hcu Logic.I) as [Z0 Z1]. destruct (prcount0_rvals r Z0) as [Z2 _].
        rewrite Hcu, Z2, Z1. reflexivity.
      - assert (E1 : rvals [IUnlock m0 (URet v)] = []) by (destruct v; try reflexivity; exfalso; eapply Nv; reflexivity). rewrite E1. cbn [app].
        assert (E2 : match tcur (thr st t), v with Some CRecv, RVal z => [z] | _, _ => [] end = @nil Z).
        { destruct (tcur (thr st t)) as [c|]; [|reflexivity]. destruct c; try reflexivity. destruct v; try reflexivity. exfalso. eapply Nv. reflexivity. }
        assert (E3 : match tcur (thr st t), tret (thr st t) with Some CRecv, RVal z => [z] | _, _ => [] end = @nil Z).
        { destruct (tcur (thr st t)) as [c|] eqn:Hcu; [|reflexivity]. destruct c; try reflexivity. destruct (Cnt CRecv eq_refl Logic.I) as [_ Z1]. rewrite Z1. reflexivity. }
        rewrite E2, E3. reflexivity. }
    rewrite Rt. exact L.
  - intros c W L Hcu. rewrite Tr'. apply (proj2 (f_ok _ _ _ R t c W L Hcu) m0 v). rewrite Hc. left. reflexivity.
  - intros q x Hcu. exfalso. exact (Nps q x Hcu).
  - intros q Hcu. rewrite Pps.
    assert (Np : p <> FDropBad t q) by (intro E; destruct (f_pdrop _ _ _ R t q E) as [_ Z0]; rewrite Hc in Z0; discriminate Z0).
    destruct (f_dropcmd _ _ _ R t q Hcu Np) as [[m1 A]|A]; [|right; exact A]. left. exists m1. rewrite Hc in A. destruct A as [A|A]; [discriminate A|exact A].
  - intros c Hcu Wc. destruct (Cnt c Hcu Wc) as [Z0 _]. rewrite Z0. split; [lia|intro Y; lia].
Qed.

(** the return value of a channel [send] is stored *)
Lemma exec_uchpush_F : forall p st m t m0 c x r st' ev,
  CInv (core st) -> ShInv st -> FRel p st m ->
  tcont (thr st t) = IUnlock m0 (UChPush c x) :: r -> exec_instr st t (IUnlock m0 (UChPush c x)) r = (st', ev) ->
  FRel p st' (fold_left m14r_step (evs t ev) m).
Proof.
  intros p st m t m0 c x r st' ev I S R Hc H.
  assert (Hcu : tcur (thr st t) = Some (CSend c x)) by (apply (sh_own_push st S t m0 c x); rewrite Hc; left; reflexivity).
  destruct (exec_instr_eff _ _ _ _ _ _ I Hc H) as [F _ _ _ _ _ _].
  assert (Tro : forall u, u <> t -> tret (thr st' u) = tret (thr st u)) by (intros u Hu; eapply tret_other; eauto).
  cbn [exec_instr exec_uact] in H. inversion H; subst st' ev; clear H.
  assert (Pl : forall e, In e [EUnlock m0] -> f14_plain e) by (intros e [<-|[]]; exact Logic.I).
  match goal with |- FRel p ?S' _ => set (st' := S') end.
  assert (Hc' : tcont (thr st' t) = [] ++ r) by (unfold st'; thr_simpl).
  assert (Pps : pps st' = pps st) by reflexivity.
  assert (Sp : forall q, spend q (mcont st') = spend q (mcont st)).
  { intro q. unfold mcont. destruct (Nat.eq_dec main t) as [E|E].
    - rewrite E, Hc, Hc', (spend_cons q _ r). reflexivity.
    - replace (thr st' main) with (thr st main); [reflexivity|]. unfold st'. oth E. }
  apply (f_step_q p st st' m _ t _ r [] (tpipe (thr st t)) R (m14r_fplain_fold t _ m Pl) F Hc Hc').
  - intros j [].
  - intro q. rewrite Pps. repeat split; reflexivity.
  - left. rewrite Pps. split; [reflexivity|]. split; [reflexivity|apply Sp].
  - rewrite Pps. auto.
  - exact Tro.
  - intros _. reflexivity.
  - intros q _. apply Sp.
  - intros u W E. pose proof (f_ps _ _ _ R u W) as L. cbn zeta in L. rewrite E in L.
    destruct (m14r_fplain_fold t [EUnlock m0] m Pl) as [M1 M2 M3 M4]. unfold dps in *. rewrite M1, M2, Pps, Sp.
    assert (Rt : rtransit (thr st' u) = rtransit (thr st u)).
    { destruct (Nat.eq_dec u t) as [->|Hu]; [|unfold rtransit; replace (thr st' u) with (thr st u); [reflexivity|unfold st'; oth Hu]].
      unfold rtransit. rewrite Hc', Hc. replace (tcur (thr st' t)) with (tcur (thr st t)) by (unfold st'; cbn -[Nat.eqb]; unfold updN, th; cbn -[Nat.eqb]; unfold updN, th; rewrite ?Nat.eqb_refl; reflexivity). rewrite Hcu. cbn [app]. rewrite (rvals_cons _ r). reflexivity. }
    rewrite Rt. exact L.
  - intros c0 W L Hq. exfalso. destruct (f_late_cur _ _ _ R t L) as [c1 [E1 W1]]. rewrite Hcu in E1. inversion E1; subst c1. destruct W1.
  - intros q x0 Hq. rewrite Hcu in Hq. discriminate Hq.
  - intros q Hq. rewrite Hcu in Hq. discriminate Hq.
  - intros c0 Hq Wc. rewrite Hcu in Hq. inversion Hq; subst c0. destruct Wc.
Qed.

(** ** a worker instruction that leaves exactly one return-producing instruction [a] behind; the pipes do not move *)
Lemma pr_kinds : forall a, pr a = true ->
  (forall q, spend q [a] = []) /\ (forall m0 q x, a <> ILock m0 (LPqSend q x)) /\ (forall m0 q, a <> ILock m0 (LPqCancelSet q)).
Proof.
  intros a H. destruct a; cbn in H; try discriminate H; try (repeat split; try reflexivity; intros; discriminate).
  all: destruct a; cbn in H; try discriminate H; repeat split; try reflexivity; intros; discriminate.
Qed.

Lemma fq_list : forall k, (forall j, In j k -> fq j) ->
  prcount k = O /\ (forall q, spend q k = []) /\ rvals k = [].
Proof.
  induction k as [|j k IH]; intro H; [repeat split; reflexivity|].
  destruct IH as [A [B C]]; [intros; apply H; right; assumption|]. destruct (fq_facts j (H j (or_introl eq_refl))) as [F1 [F2 [F3 _]]].
  split; [rewrite prcount_cons, F1, A; reflexivity|]. split; [intro q; rewrite (spend_cons q j k), F2, B; reflexivity|rewrite (rvals_cons j k), F3, C; reflexivity].
Qed.

Lemma rvals_one : forall a, (forall m0 z, a <> IUnlock m0 (URet (RVal z))) -> rvals [a] = [].
Proof. intros a H. destruct a; try reflexivity. destruct a; try reflexivity. destruct v; try reflexivity. exfalso. eapply H. reflexivity. Qed.

Lemma f_wret : forall p st st' m m' t i r n1 a n2 c,
  FRel p st m -> f14_same m m' -> tframe st st' t -> tcont (thr st t) = i :: r -> tcont (thr st' t) = (n1 ++ a :: n2) ++ r ->
  (forall j, In j n1 -> fq j) -> (forall j, In j n2 -> fq j) -> pr i = true -> (forall m0 v, i <> IUnlock m0 (URet v)) -> pr a = true ->
  wkr st t -> t <> main -> tcur (thr st t) = Some c -> wcmd c ->
  (forall m0 v, a = IUnlock m0 (URet v) -> (forall z, v <> RVal z) /\ (is_late m t -> okret c v)) ->
  ((forall m0 q, a = ILock m0 (LPqRecv q) \/ a = ICvReacq q -> c = CRecv /\ q = tpipe (thr st t)) /\
   (forall m0 q, a = ILock m0 (LPqCancelGet q) -> c = CCancel /\ q = tpipe (thr st t)) /\
   (forall m0 q x, a = ILock m0 (LPqLSend q x) -> c = CLSend x /\ q = tpipe (thr st t))) ->
  fpsame st st' -> (forall u, tret (thr st' u) = tret (thr st u)) ->
  FRel p st' m'.
Proof.
  intros p st st' m m' t i r n1 a n2 c R Sm F Hc Hc' Hn1 Hn2 Hi Hinr Ha W Nm Hcu Wc Haret Haown Pp Tr.
  pose proof F as [Hn [Hf Ho]].
  assert (Cu : forall u, tcur (thr st' u) = tcur (thr st u)) by (intro u; apply Hf).
  assert (Tp : forall u, tpipe (thr st' u) = tpipe (thr st u)) by (intro u; apply Hf).
  assert (Wk : forall u, wkr st' u <-> wkr st u) by (intro u; unfold wkr; rewrite Hn, Tp; tauto).
  destruct (fq_list n1 Hn1) as [C1 [S1 V1]]. destruct (fq_list n2 Hn2) as [C2 [S2 V2]].
  destruct (pr_kinds i Hi) as [Si [Ii1 Ii2]]. destruct (pr_kinds a Ha) as [Sa [Ia1 Ia2]].
  assert (Mc : mcont st' = mcont st) by (unfold mcont; rewrite (Ho main (fun E => Nm (eq_sym E))); reflexivity).
  assert (Cnt : prcount r = O /\ tret (thr st t) = RUnit).
  { destruct (f_pr _ _ _ R t c Hcu Wc) as [A B]. rewrite Hc, prcount_cons, Hi in A, B. split; [lia|apply B; lia]. }
  destruct Cnt as [Cr Tu]. destruct (prcount0_rvals r Cr) as [Vr Nr].
  assert (Va : rvals [a] = []).
  { apply rvals_one. intros m0 z E. destruct (Haret m0 (RVal z) E) as [Z0 _]. eapply Z0. reflexivity. }
  assert (Vi : rvals [i] = []) by (apply rvals_one; intros m0 z E; exact (Hinr m0 _ E)).
  assert (Inn : forall j, In j (tcont (thr st' t)) -> (fq j /\ (In j n1 \/ In j n2)) \/ j = a \/ In j r).
  { intros j Hj. rewrite Hc' in Hj. apply in_app_or in Hj. destruct Hj as [Hj|Hj]; [|right; right; exact Hj].
    apply in_app_or in Hj. destruct Hj as [Hj|[Hj|Hj]]; [left; split; [apply Hn1; exact Hj|left; exact Hj]|right; left; symmetry; exact Hj|left; split; [apply Hn2; exact Hj|right; exact Hj]]. }
  assert (Inr : forall j, In j r -> In j (tcont (thr st t))) by (intros j Hj; rewrite Hc; right; exact Hj).
  apply (f_step p st st' m m' t i r (tpipe (thr st t)) R Sm F Hc).
  - intro q. destruct (Pp q) as [A [B [C D]]]. split; [exact C|]. split; [exact D|]. intros _. split; [exact A|exact B].
  - left. destruct (Pp (tpipe (thr st t))) as [A [B _]]. split; [exact A|]. split; [exact B|rewrite Mc; reflexivity].
  - destruct (Pp (tpipe (thr st t))) as [_ [B _]]. rewrite B. auto.
  - intros u _. apply Tr.
  - intros _. reflexivity.
  - intros q _. rewrite Mc. reflexivity.
  - intros u Wu E. destruct (Pp (tpipe (thr st t))) as [A _]. rewrite A, Mc.
    assert (Rt : rtransit (thr st' u) = rtransit (thr st u)).
    { unfold rtransit. rewrite Cu, Tr. destruct (Nat.eq_dec u t) as [->|Hu]; [|rewrite (Ho u Hu); reflexivity].
      rewrite Hc, Hc', !rvals_app, (rvals_cons a n2), (rvals_cons i r), V1, V2, Va, Vi. reflexivity. }
    rewrite Rt. pose proof (f_ps _ _ _ R u Wu) as L. cbn zeta in L. rewrite E in L.
    destruct Sm as [M1 M2 M3 M4]. unfold dps. rewrite M1, M2. exact L.
  - intros c0 _ L Hc0. rewrite Cu, Hcu in Hc0. inversion Hc0; subst c0. rewrite Tr, Tu.
    assert (L0 : is_late m t) by (destruct Sm as [_ _ _ M4]; unfold is_late in *; rewrite M4 in L; exact L).
    split; [destruct c; exact Logic.I|]. intros m0 v Hin. destruct (Inn _ Hin) as [[Fj _]|[E|Hj]].
    + exfalso. exact (proj1 (proj2 (proj2 (proj2 (proj2 (proj2 (fq_facts _ Fj)))))) m0 v eq_refl).
    + apply (proj2 (Haret m0 v (eq_sym E)) L0).
    + exfalso. exact (Nr m0 v Hj).
  - intros m0 q x Hin. exfalso. destruct (Inn _ Hin) as [[Fj _]|[E|Hj]].
    + exact (proj1 (proj2 (proj2 (proj2 (fq_facts _ Fj)))) m0 q x eq_refl).
    + exact (Ia1 m0 q x (eq_sym E)).
    + destruct (f_own_send _ _ _ R t m0 q x (Inr _ Hj)) as [Z0 _]. exact (Nm Z0).
  - intros q x Hq. rewrite Cu, Hcu in Hq. inversion Hq; subst c. destruct Wc.
  - intros q Hq. rewrite Cu, Hcu in Hq. inversion Hq; subst c. destruct Wc.
  - intros m0 q Hin. exfalso. destruct (Inn _ Hin) as [[Fj _]|[E|Hj]].
    + exact (proj1 (proj2 (proj2 (proj2 (proj2 (fq_facts _ Fj))))) m0 q eq_refl).
    + exact (Ia2 m0 q (eq_sym E)).
    + destruct (f_own_cs _ _ _ R t m0 q (Inr _ Hj)) as [Z0 _]. exact (Nm Z0).
  - intros m0 v Hin. rewrite Cu, Hcu. destruct (Inn _ Hin) as [[Fj _]|[E|Hj]].
    + exfalso. exact (proj1 (proj2 (proj2 (proj2 (proj2 (proj2 (fq_facts _ Fj)))))) m0 v eq_refl).
    + split; [intros q x E0; inversion E0; subst c; destruct Wc|]. intros z Ez. exfalso. destruct (Haret m0 v (eq_sym E)) as [Z0 _]. exact (Z0 z Ez).
    + exfalso. exact (Nr m0 v Hj).
  - intros j Hin. rewrite Cu, Tp, Hcu. destruct Haown as [O1 [O2 O3]]. destruct (Inn _ Hin) as [[Fj _]|[E|Hj]].
    + destruct (fq_facts _ Fj) as [_ [_ [_ [_ [_ [_ [Z1 [Z2 [Z3 Z4]]]]]]]]]. split; [intros m0 q [E|E]; exfalso; [exact (Z1 m0 q E)|exact (Z2 q E)]|split; [intros m0 q E; exfalso; exact (Z3 m0 q E)|intros m0 q x E; exfalso; exact (Z4 m0 q x E)]].
    + subst j. split; [intros m0 q E; destruct (O1 m0 q E) as [-> Eq]; split; [apply Wk; exact W|split; [reflexivity|exact Eq]]|split].
      * intros m0 q E. destruct (O2 m0 q E) as [-> Eq]. split; [apply Wk; exact W|split; [reflexivity|exact Eq]].
      * intros m0 q x E. destruct (O3 m0 q x E) as [-> Eq]. split; [apply Wk; exact W|split; [reflexivity|exact Eq]].
    + assert (Pj : pr j = false).
      { clear - Cr Hj. induction r as [|j0 k IH]; [destruct Hj|]. rewrite prcount_cons in Cr. destruct (pr j0) eqn:Ej; [discriminate Cr|]. destruct Hj as [<-|Hj]; [exact Ej|apply IH; assumption]. }
      split; [intros m0 q [E|E]; subst j; discriminate Pj|split; [intros m0 q E; subst j; discriminate Pj|intros m0 q x E; subst j; discriminate Pj]].
  - intros c0 Hc0 _. rewrite Cu, Hcu in Hc0. inversion Hc0; subst c0. rewrite Tr, Tu, Hc', !prcount_app, (prcount_cons a n2), Ha, C1, C2, Cr. split; [cbn; lia|reflexivity].
Qed.

Lemma exec_cancelget_F : forall p st m t m0 q r st' ev,
  CInv (core st) -> XInv st -> FRel p st m ->
  tcont (thr st t) = ILock m0 (LPqCancelGet q) :: r -> exec_instr st t (ILock m0 (LPqCancelGet q)) r = (st', ev) ->
  FRel p st' (fold_left m14r_step (evs t ev) m).
Proof.
  intros p st m t m0 q r st' ev I X R Hc H.
  destruct (f_own_pr _ _ _ R t (ILock m0 (LPqCancelGet q))) as [_ [O2 _]]; [rewrite Hc; left; reflexivity|].
  destruct (O2 m0 q eq_refl) as [W [Hcu Eq]].
  assert (Nm : t <> main) by (intro E; subst t; exact (main_not_wkr st X W)).
  destruct (exec_instr_eff _ _ _ _ _ _ I Hc H) as [F _ _ _ Htret _ _].
  assert (Tr : forall u, tret (thr st' u) = tret (thr st u)) by (apply Htret; intros; discriminate).
  cbn [exec_instr exec_lact] in H.
  set (s1 := acq_mtx (set_owner st (updM (owner st) m0 (Some t))) t m0) in *.
  inversion H; subst st' ev; clear H.
  assert (Pl : forall e, In e [ELock m0] -> f14_plain e) by (intros e [<-|[]]; exact Logic.I).
  match goal with |- FRel p ?S' _ => set (st' := S') end.
  apply (f_wret p st st' m _ t _ r [] (IUnlock (MPq q) (URet (RBool (pcancel (pps s1 q))))) [] CCancel R (m14r_fplain_fold t _ m Pl) F Hc); auto.
  - unfold st', s1. thr_simpl.
  - intros j [].
  - intros j [].
  - intros m1 v E. discriminate E.
  - exact Logic.I.
  - intros m1 v E. inversion E; subst v. split; [intros z Y; discriminate Y|]. intro L.
    pose proof (f_late _ _ _ R t W L) as Pc. rewrite <- Eq in Pc. unfold s1. cbn. rewrite Pc. exact Logic.I.
  - split; [intros m1 q1 [E|E]; discriminate E|split; [intros m1 q1 E; discriminate E|intros m1 q1 x1 E; discriminate E]].
  - intro q1. repeat split; reflexivity.
Qed.

Lemma exec_wlsend_F : forall p st m t m0 q x r st' ev,
  CInv (core st) -> XInv st -> FRel p st m ->
  tcont (thr st t) = ILock m0 (LPqLSend q x) :: r -> exec_instr st t (ILock m0 (LPqLSend q x)) r = (st', ev) ->
  FRel p st' (fold_left m14r_step (evs t ev) m).
Proof.
  intros p st m t m0 q x r st' ev I X R Hc H.
  destruct (f_own_pr _ _ _ R t (ILock m0 (LPqLSend q x))) as [_ [_ O3]]; [rewrite Hc; left; reflexivity|].
  destruct (O3 m0 q x eq_refl) as [W [Hcu Eq]].
  assert (Nm : t <> main) by (intro E; subst t; exact (main_not_wkr st X W)).
  destruct (exec_instr_eff _ _ _ _ _ _ I Hc H) as [F _ _ _ Htret _ _].
  assert (Tr : forall u, tret (thr st' u) = tret (thr st u)) by (apply Htret; intros; discriminate).
  cbn [exec_instr exec_lact] in H.
  set (s1 := acq_mtx (set_owner st (updM (owner st) m0 (Some t))) t m0) in *.
  set (wake := match precvq (pps s1 q) with [] => olist (climb_start s1 (pw (pps s1 q)) (Some (HPipe q))) | _ => [] end) in *.
  assert (Wkq : forall j, In j wake -> fq j).
  { unfold wake. destruct (precvq (pps s1 q)); [|intros j []].
    destruct (climb_start s1 (pw (pps s1 q)) (Some (HPipe q))) as [i0|] eqn:Ec; [|intros j []].
    apply climb_at_climb in Ec. destruct Ec as [k ->]. intros j [<-|[]]. exact Logic.I. }
  inversion H; subst st' ev; clear H.
  assert (Pl : forall e, In e [ELock m0] -> f14_plain e) by (intros e [<-|[]]; exact Logic.I).
  match goal with |- FRel p ?S' _ => set (st' := S') end.
  apply (f_wret p st st' m _ t _ r [] (IUnlock (MPq q) (URet (RBool (negb (pcancel (pps s1 q)))))) wake (CLSend x) R (m14r_fplain_fold t _ m Pl) F Hc); auto.
  - unfold st', s1. thr_simpl.
  - intros j [].
  - intros m1 v E. discriminate E.
  - exact Logic.I.
  - intros m1 v E. inversion E; subst v. split; [intros z Y; discriminate Y|]. intro L.
    pose proof (f_late _ _ _ R t W L) as Pc. rewrite <- Eq in Pc. unfold s1. cbn. rewrite Pc. exact Logic.I.
  - split; [intros m1 q1 [E|E]; discriminate E|split; [intros m1 q1 E; discriminate E|intros m1 q1 x1 E; discriminate E]].
  - intro q1. unfold st', s1. cbn. unfold updZ. destruct (Z.eqb_spec q1 q) as [->|]; repeat split; reflexivity.
Qed.

(** ** the worker looks at the queue of its pipe *)
Lemma exec_recv_F : forall p pe st m t i q r st' ev,
  CInv (core st) -> XInv st -> ERel pe st m -> FRel p st m ->
  ((exists m0, i = ILock m0 (LPqRecv q)) \/ i = ICvReacq q) ->
  tcont (thr st t) = i :: r -> exec_instr st t i r = (st', ev) ->
  FRel p st' (fold_left m14r_step (evs t ev) m).
Proof.
  intros p pe st m t i q r st' ev I X E R Hi Hc H.
  destruct (f_own_pr _ _ _ R t i) as [O1 _]; [rewrite Hc; left; reflexivity|].
  assert (Ow : wkr st t /\ tcur (thr st t) = Some CRecv /\ q = tpipe (thr st t)).
  { destruct Hi as [[m0 ->]| ->]; [apply (O1 m0 q); left; reflexivity|apply (O1 MDL q); right; reflexivity]. }
  destruct Ow as [W [Hcu Eq]].
  assert (Nm : t <> main) by (intro Y; subst t; exact (main_not_wkr st X W)).
  assert (Pri : pr i = true) by (destruct Hi as [[m0 ->]| ->]; reflexivity).
  assert (Nui : forall m1 v, i <> IUnlock m1 (URet v)) by (intros m1 v Y; destruct Hi as [[m0 ->]| ->]; discriminate Y).
  destruct (exec_instr_eff _ _ _ _ _ _ I Hc H) as [F _ _ _ Htret _ Hnoc].
  assert (Tr : forall u, tret (thr st' u) = tret (thr st u)).
  { apply Htret; intros; intro Y; destruct Hi as [[m1 ->]| ->]; discriminate Y. }
  assert (Pev : forall e, In e ev -> f14_plain e).
  { intros e He. destruct (Hnoc e He) as [A B]. destruct e; try exact Logic.I; [exfalso; eapply A; reflexivity|exfalso; eapply B; reflexivity]. }
  assert (Core : exists mm hd, let s1 := acq_mtx (set_owner st (updM (owner st) mm (Some t))) t mm in
                 (let '(s2, e2) := exec_lact s1 t (LPqRecv q) r in (s2, hd :: e2)) = (st', ev)).
  { destruct Hi as [[m0 ->]| ->]; cbn [exec_instr] in H; [exists m0, (ELock m0)|exists (MPq q), (ECvWake q)]; exact H. }
  destruct Core as [mm [hd Hx]]. cbn zeta in Hx. cbn [exec_lact] in Hx.
  set (s1 := acq_mtx (set_owner st (updM (owner st) mm (Some t))) t mm) in *.
  assert (P1 : pps s1 = pps st) by reflexivity.
  destruct (pcancel (pps s1 q)) eqn:Epc.
  - (* cancelled *)
    inversion Hx; subst st' ev; clear Hx.
    match goal with |- FRel p ?S' _ => set (st' := S') end.
    apply (f_wret p st st' m _ t i r [] (IUnlock (MPq q) (URet RNoneV)) [] CRecv R (m14r_fplain_fold t _ m Pev) F Hc); auto.
    + unfold st', s1. thr_simpl.
    + intros j [].
    + intros j [].
    + exact Logic.I.
    + intros m1 v Y. inversion Y; subst v. split; [intros z Z0; discriminate Z0|intros _; exact Logic.I].
    + split; [intros m1 q1 [Y|Y]; discriminate Y|split; [intros m1 q1 Y; discriminate Y|intros m1 q1 x1 Y; discriminate Y]].
    + intro q1. repeat split; reflexivity.
  - destruct (psendq (pps s1 q)) as [|v rest] eqn:Eq0.
    + (* nothing there: wait *)
      inversion Hx; subst st' ev; clear Hx.
      match goal with |- FRel p ?S' _ => set (st' := S') end.
      apply (f_wret p st st' m _ t i r [ICvWait q] (ICvReacq q) [] CRecv R (m14r_fplain_fold t _ m Pev) F Hc); auto.
      * unfold st', s1. thr_simpl.
      * intros j [<-|[]]. exact Logic.I.
      * intros j [].
      * exact Logic.I.
      * intros m1 v Y. discriminate Y.
      * split; [intros m1 q1 [Y|Y]; [discriminate Y|inversion Y; subst q1; auto]|split; [intros m1 q1 Y; discriminate Y|intros m1 q1 x1 Y; discriminate Y]].
      * intro q1. repeat split; reflexivity.
    + (* a message is taken *)
      inversion Hx; subst st' ev; clear Hx.
      match goal with |- FRel p ?S' _ => set (st' := S') in * end.
      assert (Hc' : tcont (thr st' t) = [IUnlock (MPq q) (URet (RVal v))] ++ r) by (unfold st', s1; thr_simpl).
      pose proof F as [Hn [Hf Ho]].
      assert (Cu : forall u, tcur (thr st' u) = tcur (thr st u)) by (intro u; apply Hf).
      assert (Tp : forall u, tpipe (thr st' u) = tpipe (thr st u)) by (intro u; apply Hf).
      assert (Wk : forall u, wkr st' u <-> wkr st u) by (intro u; unfold wkr; rewrite Hn, Tp; tauto).
      assert (Mc : mcont st' = mcont st) by (unfold mcont; rewrite (Ho main (fun Y => Nm (eq_sym Y))); reflexivity).
      assert (Cnt : prcount r = O /\ tret (thr st t) = RUnit).
      { destruct (f_pr _ _ _ R t CRecv Hcu Logic.I) as [A B]. rewrite Hc, prcount_cons, Pri in A, B. split; [lia|apply B; lia]. }
      destruct Cnt as [Cr Tu]. destruct (prcount0_rvals r Cr) as [Vr Nr].
      assert (Ex : pexists (pps st q) = true).
      { destruct (pexists (pps st q)) eqn:Ee; [reflexivity|exfalso]. destruct (f_noex _ _ _ R q Ee) as [_ [_ [Z0 _]]]. rewrite <- P1, Eq0 in Z0. discriminate Z0. }
      assert (NotLate : ~ is_late m t).
      { intro L. pose proof (f_late _ _ _ R t W L) as Pc. rewrite <- Eq, <- P1, Epc in Pc. discriminate Pc. }
      assert (Pq' : psendq (pps st' q) = rest) by (unfold st', s1; cbn; unfold updZ; rewrite Z.eqb_refl; reflexivity).
      assert (Inn : forall j, In j (tcont (thr st' t)) -> j = IUnlock (MPq q) (URet (RVal v)) \/ In j r).
      { intros j Hj. rewrite Hc' in Hj. destruct Hj as [Hj|Hj]; [left; symmetry; exact Hj|right; exact Hj]. }
      assert (Inr : forall j, In j r -> In j (tcont (thr st t))) by (intros j Hj; rewrite Hc; right; exact Hj).
      assert (Prj : forall j, In j r -> pr j = false).
      { clear - Cr. induction r as [|j0 k IH]; intros j Hj; [destruct Hj|]. rewrite prcount_cons in Cr. destruct (pr j0) eqn:Ej; [discriminate Cr|]. destruct Hj as [<-|Hj]; [exact Ej|apply IH; assumption]. }
      apply (f_step p st st' m _ t i r q R (m14r_fplain_fold t _ m Pev) F Hc).
      * intro q1. unfold st', s1. cbn. unfold updZ. destruct (Z.eqb_spec q1 q) as [->|Nq]; cbn; (split; [reflexivity|split; [reflexivity|]]); [intro Y; exfalso; apply Y; reflexivity|intros _; split; reflexivity].
      * right. exact Ex.
      * intro Y. exfalso. rewrite <- P1, Epc in Y. discriminate Y.
      * intros u _. apply Tr.
      * intros _. symmetry. exact Eq.
      * intros q1 _. rewrite Mc. reflexivity.
      * intros u Wu Eu.
        assert (Ut : u = t) by (apply (e_wuniq _ _ _ E u t Wu W); rewrite Eu, Eq; reflexivity). subst u.
        pose proof (f_ps _ _ _ R t W) as L. cbn zeta in L. rewrite <- Eq in L.
        destruct (m14r_fplain_fold t (hd :: []) m Pev) as [M1 M2 M3 M4]. unfold dps in *. rewrite M1, M2, Mc, Pq'.
        rewrite L. unfold rtransit. rewrite Hc, Hc', Cu, Hcu, Tr, Tu.
        replace (rvals (i :: r)) with (@nil Z) by (rewrite (rvals_cons i r), Vr, app_nil_r; symmetry; apply rvals_one; intros m1 z Y; exact (Nui m1 _ Y)).
        rewrite rvals_app, Vr. cbn [rvals flat_map app]. rewrite <- P1, Eq0. reflexivity.
      * intros c0 _ L _. exfalso. apply NotLate. destruct (m14r_fplain_fold t (hd :: []) m Pev) as [_ _ _ M4]. unfold is_late in *. rewrite M4 in L. exact L.
      * intros m1 q1 x1 Hin. exfalso. destruct (Inn _ Hin) as [Y|Hj]; [discriminate Y|]. destruct (f_own_send _ _ _ R t m1 q1 x1 (Inr _ Hj)) as [Z0 _]. exact (Nm Z0).
      * intros q1 x1 Hq. rewrite Cu, Hcu in Hq. discriminate Hq.
      * intros q1 Hq. rewrite Cu, Hcu in Hq. discriminate Hq.
      * intros m1 q1 Hin. exfalso. destruct (Inn _ Hin) as [Y|Hj]; [discriminate Y|]. destruct (f_own_cs _ _ _ R t m1 q1 (Inr _ Hj)) as [Z0 _]. exact (Nm Z0).
      * intros m1 v1 Hin. rewrite Cu, Hcu. destruct (Inn _ Hin) as [Y|Hj]; [|exfalso; exact (Nr m1 v1 Hj)].
        split; [intros q1 x1 Z0; discriminate Z0|]. intros z _. split; [reflexivity|apply Wk; exact W].
      * intros j Hin. destruct (Inn _ Hin) as [Y|Hj].
        -- subst j. split; [intros m1 q1 [Y|Y]; discriminate Y|split; [intros m1 q1 Y; discriminate Y|intros m1 q1 x1 Y; discriminate Y]].
        -- pose proof (Prj j Hj) as Pj. split; [intros m1 q1 [Y|Y]; subst j; discriminate Pj|split; [intros m1 q1 Y; subst j; discriminate Pj|intros m1 q1 x1 Y; subst j; discriminate Pj]].
      * intros c0 Hc0 _. rewrite Cu, Hcu in Hc0. inversion Hc0; subst c0. rewrite Tr, Tu, Hc', prcount_app, Cr. split; [cbn; lia|reflexivity].
Qed.

Lemma exec_instr_F : forall p pe st m t i r st' ev,
  CInv (core st) -> XInv st -> ShInv st -> ERel pe st m -> FRel p st m ->
  tcont (thr st t) = i :: r -> exec_instr st t i r = (st', ev) ->
  FRel p st' (fold_left m14r_step (evs t ev) m).
Proof.
  intros p pe st m t i r st' ev I X S E R Hc H.
  assert (Dec : fq i \/ (exists m0 q x, i = ILock m0 (LPqSend q x)) \/ (exists m0 q, i = ILock m0 (LPqCancelSet q)) \/
                (exists q, (exists m0, i = ILock m0 (LPqRecv q)) \/ i = ICvReacq q) \/ (exists m0 q x, i = ILock m0 (LPqLSend q x)) \/
                (exists m0 q, i = ILock m0 (LPqCancelGet q)) \/ (exists m0 v, i = IUnlock m0 (URet v)) \/ (exists m0 c x, i = IUnlock m0 (UChPush c x))).
  { destruct i; try (left; exact Logic.I); [destruct a; try (left; exact Logic.I)|destruct a; try (left; exact Logic.I)|]; right; eauto 12. }
  destruct Dec as [D|[[m0 [q [x ->]]]|[[m0 [q ->]]|[[q D]|[[m0 [q [x ->]]]|[[m0 [q ->]]|[[m0 [v ->]]|[m0 [c [x ->]]]]]]]]]].
  - eapply exec_instr_F_quiet; eauto.
  - eapply exec_psend_F; eauto.
  - eapply exec_pcancel_F; eauto.
  - eapply exec_recv_F; eauto.
  - eapply exec_wlsend_F; eauto.
  - eapply exec_cancelget_F; eauto.
  - eapply exec_uret_F; eauto.
  - eapply exec_uchpush_F; eauto.
Qed.

(** ** the end of a step *)
Lemma f_steq : forall p st st' m,
  FRel p st m -> nthr st' = nthr st -> pps st' = pps st ->
  (forall u, tcont (thr st' u) = tcont (thr st u) /\ tcur (thr st' u) = tcur (thr st u) /\
             tret (thr st' u) = tret (thr st u) /\ tpipe (thr st' u) = tpipe (thr st u)) ->
  FRel p st' m.
Proof.
  intros p st st' m R Hn Epp Hu.
  assert (Co : forall u, tcont (thr st' u) = tcont (thr st u)) by (intro u; apply Hu).
  assert (Cu : forall u, tcur (thr st' u) = tcur (thr st u)) by (intro u; apply Hu).
  assert (Tr : forall u, tret (thr st' u) = tret (thr st u)) by (intro u; apply Hu).
  assert (Tp : forall u, tpipe (thr st' u) = tpipe (thr st u)) by (intro u; apply Hu).
  assert (Mc : mcont st' = mcont st) by (unfold mcont; apply Co).
  assert (Wk : forall u, wkr st' u <-> wkr st u) by (intro u; unfold wkr; rewrite Hn, Tp; tauto).
  assert (Rt : forall u, rtransit (thr st' u) = rtransit (thr st u)) by (intro u; unfold rtransit; rewrite Co, Cu, Tr; reflexivity).
  constructor.
  - intros t q x. rewrite Cu, Co. apply (f_psend _ _ _ R).
  - intros t q. rewrite Cu, Co. apply (f_pdrop _ _ _ R).
  - rewrite Epp, Mc. apply (f_noex _ _ _ R).
  - rewrite Epp. apply (f_drop _ _ _ R).
  - intros t W. rewrite Epp, Tp. apply Wk in W. apply (f_late _ _ _ R t W).
  - intros t c W. rewrite Cu, Tr, Co. apply Wk in W. apply (f_ok _ _ _ R t c W).
  - intros u W. cbn zeta. rewrite Tp, Rt, Epp, Mc. apply Wk in W. apply (f_ps _ _ _ R u W).
  - intros t m0 q x. rewrite Co, Cu. apply (f_own_send _ _ _ R).
  - intros t q x. rewrite Cu, Tr. apply (f_sendret _ _ _ R).
  - intros t q. rewrite Cu, Co, Epp. apply (f_dropcmd _ _ _ R).
  - intros t m0 q. rewrite Co, Cu, Epp. apply (f_own_cs _ _ _ R).
  - intros t. rewrite Cu. apply (f_late_cur _ _ _ R).
  - intros t Hin. destruct (f_late_in _ _ _ R t Hin) as [[c0 [A1 A2]] B]. split; [exists c0; rewrite Cu; auto|apply Wk; exact B].
  - apply (f_late_nd _ _ _ R).
  - intros t m0 v. rewrite Co, Cu. intro Hin. destruct (f_own_ret _ _ _ R t m0 v Hin) as [A B]. split; [exact A|]. intros z Ez. destruct (B z Ez) as [B1 B2]. split; [exact B1|apply Wk; exact B2].
  - intros t j. rewrite Co, Cu, Tp. intro Hin. destruct (f_own_pr _ _ _ R t j Hin) as [A [B C]].
    split; [intros m0 q E; destruct (A m0 q E) as [A1 A2]; split; [apply Wk; exact A1|exact A2]|split;
      [intros m0 q E; destruct (B m0 q E) as [B1 B2]; split; [apply Wk; exact B1|exact B2]|intros m0 q x E; destruct (C m0 q x E) as [C1 C2]; split; [apply Wk; exact C1|exact C2]]].
  - intros t c. rewrite Cu, Co, Tr. apply (f_pr _ _ _ R).
Qed.

Lemma norm_head_facts : forall i, norm_head i -> pr i = false /\ (forall q, spend q [i] = []) /\ (forall m0 q, i <> ILock m0 (LPqCancelSet q)).
Proof. intros i H. destruct i; cbn in H; try contradiction; repeat split; try reflexivity; intros; discriminate. Qed.

Lemma f_NS_step : forall p st s acc i r s' acc' new m,
  XInv st -> FRel p (NS st s acc (i :: r)) m -> norm_head i -> (forall j, In j new -> fq j) ->
  FRel p (NS st s' acc' (new ++ r)) m.
Proof.
  intros p st s acc i r s' acc' new m X R Hi Hnew.
  destruct (NS_fields st s acc (i :: r)) as [A1 [A2 [A3 [A4 [A5 [A6 [A7 [A8 [A9 A10]]]]]]]]].
  destruct (NS_fields st s' acc' (new ++ r)) as [B1 [B2 [B3 [B4 [B5 [B6 [B7 [B8 [B9 B10]]]]]]]]].
  set (SA := NS st s acc (i :: r)) in *. set (SB := NS st s' acc' (new ++ r)) in *.
  assert (Th : forall u, u <> main -> thr SB u = thr SA u) by (intros u Hu; rewrite A10, B10; auto).
  assert (Fm : tcur (thr SB main) = tcur (thr SA main) /\ tscript (thr SB main) = tscript (thr SA main) /\ tfinal (thr SB main) = tfinal (thr SA main) /\
               tstarted (thr SB main) = tstarted (thr SA main) /\ tpipe (thr SB main) = tpipe (thr SA main) /\ tret (thr SB main) = tret (thr SA main)).
  { unfold SA, SB, NS. repeat split; thr_simpl. }
  assert (TpA : tpipe (thr SA main) = tpipe (thr st main)) by (unfold SA, NS; thr_simpl).
  assert (F : tframe SA SB main).
  { split; [rewrite A5, B5; reflexivity|]. split.
    - intro u. destruct (Nat.eq_dec u main) as [->|E]; [destruct Fm as [F1 [F2 [F3 [F4 [F5 _]]]]]; auto|rewrite Th; auto].
    - intros u Hu. rewrite Th; auto. }
  assert (Pps : pps SB = pps SA) by (rewrite A7, B7; reflexivity).
  assert (Tr : forall u, tret (thr SB u) = tret (thr SA u)) by (intro u; destruct (Nat.eq_dec u main) as [->|E]; [apply Fm|rewrite Th; auto]).
  assert (Nw : ~ wkr SA main) by (intros [_ W]; rewrite TpA in W; destruct (x_main _ X) as [_ Xm]; lia).
  destruct (norm_head_facts i Hi) as [Pi [Si Ci]]. destruct (fq_list new Hnew) as [Cn [Sn Vn]].
  assert (Sp : forall q, spend q (mcont SB) = spend q (mcont SA)).
  { intro q. unfold mcont. rewrite A8, B8, spend_app, Sn, (spend_cons q i r), Si. reflexivity. }
  clearbody SA SB.
  apply (f_step_q p SA SB m m main i r new 0 R (f14_same_refl m) F A8 B8 Hnew).
  - intro q. rewrite Pps. repeat split; reflexivity.
  - left. rewrite Pps. split; [reflexivity|]. split; [reflexivity|apply Sp].
  - rewrite Pps. auto.
  - intros u _. apply Tr.
  - intro W. exfalso. exact (Nw W).
  - intros q _. apply Sp.
  - intros u W E. pose proof (f_ps _ _ _ R u W) as L. cbn zeta in L. rewrite E in L.
    assert (Hu : u <> main) by (intro Y; subst u; exact (Nw W)).
    unfold rtransit. rewrite (Th u Hu), Pps, Sp. exact L.
  - intros c W. exfalso. exact (Nw W).
  - intros q x Hq. rewrite Tr. apply (f_sendret _ _ _ R main q x Hq).
  - intros q Hq. rewrite Pps.
    assert (Np : p <> FDropBad main q) by (intro E; destruct (f_pdrop _ _ _ R main q E) as [_ Z0]; rewrite A8 in Z0; discriminate Z0).
    destruct (f_dropcmd _ _ _ R main q Hq Np) as [[m0 A]|A]; [|right; exact A]. left. exists m0. rewrite A8 in A. destruct A as [A|A]; [exfalso; exact (Ci m0 q A)|exact A].
  - intros c Hq Wc. rewrite Tr. destruct (f_pr _ _ _ R main c Hq Wc) as [A B]. rewrite A8, prcount_cons, Pi in A, B. exact (conj A B).
Qed.

Lemma hinstrs_fq : forall h d j, In j (hinstrs h d) -> fq j.
Proof. intros [w| |c|q] d j [<-|[]]; exact Logic.I. Qed.

Lemma norm_F : forall fuel st s acc k ev s1 acc1 k1 ev1 m p,
  XInv st -> FRel p (NS st s acc k) m -> norm fuel s acc k ev = (s1, acc1, k1, ev1) -> FRel p (NS st s1 acc1 k1) m.
Proof.
  induction fuel as [|f IH]; intros st s acc k ev s1 acc1 k1 ev1 m p X R H; cbn [norm] in H.
  - inversion H; subst. exact R.
  - destruct k as [|i r]; [inversion H; subst; exact R|].
    destruct i as [c| |[|bm bms]|bm [|a ls]| |[|b bs]|[|b bs]| | | | | | | |];
      try (inversion H; subst; exact R).
    + eapply IH; [exact X| |exact H]. apply (f_NS_step p st s acc _ r s acc (@nil instr) m X R Logic.I). intros j [].
    + eapply IH; [exact X| |exact H]. apply (f_NS_step p st s acc _ r s acc (@nil instr) m X R Logic.I). intros j [].
    + eapply IH; [exact X| |exact H]. apply (f_NS_step p st s acc _ r s [] [IHandlers acc] m X R Logic.I). intros j [<-|[]]. exact Logic.I.
    + eapply IH; [exact X| |exact H]. apply (f_NS_step p st s acc _ r s acc (@nil instr) m X R Logic.I). intros j [].
    + destruct (slab_get s b) as [h|] eqn:E.
      * inversion H; subst s1 acc1 k1 ev1.
        replace (hinstrs h false ++ IHandlers bs :: r) with ((hinstrs h false ++ [IHandlers bs]) ++ r) by (rewrite <- app_assoc; reflexivity).
        apply (f_NS_step p st s acc _ r s acc _ m X R Logic.I). intros j Hj. apply in_app_or in Hj. destruct Hj as [Hj|[<-|[]]]; [eapply hinstrs_fq; eauto|exact Logic.I].
      * eapply IH; [exact X| |exact H]. apply (f_NS_step p st s acc _ r s acc [IHandlers bs] m X R Logic.I). intros j [<-|[]]. exact Logic.I.
    + eapply IH; [exact X| |exact H]. apply (f_NS_step p st s acc _ r s acc (@nil instr) m X R Logic.I). intros j [].
    + destruct (wh_del s b) as [[h s']|] eqn:E.
      * inversion H; subst s1 acc1 k1 ev1.
        replace (hinstrs h true ++ IDels bs :: r) with ((hinstrs h true ++ [IDels bs]) ++ r) by (rewrite <- app_assoc; reflexivity).
        apply (f_NS_step p st s acc _ r s' acc _ m X R Logic.I). intros j Hj. apply in_app_or in Hj. destruct Hj as [Hj|[<-|[]]]; [eapply hinstrs_fq; eauto|exact Logic.I].
      * eapply IH; [exact X| |exact H]. apply (f_NS_step p st s acc _ r s acc [IDels bs] m X R Logic.I). intros j [<-|[]]. exact Logic.I.
Qed.

(** ** beginning a command: thread [t], idle so far, gets the current command [c] and a continuation *)
Section FIdle.
  Variables (p' : fpend) (st st' : wstate) (m m' : m14) (t : tid) (c : cmd).
  Hypothesis R : FRel FNone st m.
  Hypothesis Hn : nthr st' = nthr st.
  Hypothesis Ho : forall u, u <> t -> thr st' u = thr st u.
  Hypothesis Hc : tcont (thr st t) = [].
  Hypothesis Hcu0 : tcur (thr st t) = None.
  Hypothesis Hcu : tcur (thr st' t) = Some c.
  Hypothesis Htp : tpipe (thr st' t) = tpipe (thr st t).
  Hypothesis Hpp : forall q, psendq (pps st' q) = psendq (pps st q) /\ pcancel (pps st' q) = pcancel (pps st q) /\
                             pexists (pps st' q) = pexists (pps st q) /\ (phandle (pps st' q) = true -> phandle (pps st q) = true).
  Hypothesis M2 : m14_recvd m' = m14_recvd m.
  Hypothesis M3 : m14_dropped m' = m14_dropped m.
  Hypothesis M4 : forall u, u <> t -> get_tid u (m14_late m') = get_tid u (m14_late m).
  Hypothesis Hpd : forall u q, p' <> FDropBad u q \/ u = t.
  Hypothesis O_psend : forall u q x, p' = FSendBad u q x -> u = t /\ c = CPSend q x /\ tcont (thr st' t) = [] /\ exists old, m14_psend m' = old ++ [(q, x)].
  Hypothesis O_pdrop : forall u q, p' = FDropBad u q -> u = t /\ c = CPDrop q /\ tcont (thr st' t) = [].
  Hypothesis O_noex : forall q, pexists (pps st q) = false -> on_pipe q (dps p' m') = [] /\ spend q (mcont st') = [].
  Hypothesis O_ps : forall u, wkr st u -> let q := tpipe (thr st u) in
    on_pipe q (dps p' m') = on_pipe q (m14_recvd m) ++ rtransit (thr st' u) ++ psendq (pps st q) ++ spend q (mcont st').
  Hypothesis O_late : wkr st t -> is_late m' t -> pcancel (pps st (tpipe (thr st t))) = true.
  Hypothesis O_ok : wkr st t -> is_late m' t ->
    okret c (tret (thr st' t)) /\ forall m0 v, In (IUnlock m0 (URet v)) (tcont (thr st' t)) -> okret c v.
  Hypothesis O_own_send : forall m0 q x, In (ILock m0 (LPqSend q x)) (tcont (thr st' t)) -> t = main /\ c = CPSend q x.
  Hypothesis O_sendret : forall q x, c = CPSend q x -> tret (thr st' t) = RUnit.
  Hypothesis O_dropcmd : forall q, c = CPDrop q -> p' <> FDropBad t q ->
    (exists m0, In (ILock m0 (LPqCancelSet q)) (tcont (thr st' t))) \/ pcancel (pps st q) = true.
  Hypothesis O_own_cs : forall m0 q, In (ILock m0 (LPqCancelSet q)) (tcont (thr st' t)) -> t = main /\ c = CPDrop q /\ pexists (pps st q) = true.
  Hypothesis O_late_cur : is_late m' t -> wcmd c.
  Hypothesis O_late_nd : NoDup (map fst (m14_late m')).
  Hypothesis O_late_in : In t (map fst (m14_late m')) -> wkr st t /\ wcmd c.
  Hypothesis O_own_ret : forall m0 v, ~ In (IUnlock m0 (URet v)) (tcont (thr st' t)).
  Hypothesis O_own_pr : forall j, In j (tcont (thr st' t)) ->
    (forall m0 q, j = ILock m0 (LPqRecv q) \/ j = ICvReacq q -> wkr st t /\ c = CRecv /\ q = tpipe (thr st t)) /\
    (forall m0 q, j = ILock m0 (LPqCancelGet q) -> wkr st t /\ c = CCancel /\ q = tpipe (thr st t)) /\
    (forall m0 q x, j = ILock m0 (LPqLSend q x) -> wkr st t /\ c = CLSend x /\ q = tpipe (thr st t)).
  Hypothesis O_pr : wcmd c -> (prcount (tcont (thr st' t)) <= 1)%nat /\ ((1 <= prcount (tcont (thr st' t)))%nat -> tret (thr st' t) = RUnit).

  Lemma f_idle : FRel p' st' m'.
  Proof.
    assert (Tp : forall u, tpipe (thr st' u) = tpipe (thr st u)) by (intro u; destruct (Nat.eq_dec u t) as [->|E]; [exact Htp|rewrite Ho; auto]).
    assert (Wk : forall u, wkr st' u <-> wkr st u) by (intro u; unfold wkr; rewrite Hn, Tp; tauto).
    assert (Ps : forall q, psendq (pps st' q) = psendq (pps st q)) by (intro q; apply Hpp).
    assert (Pc : forall q, pcancel (pps st' q) = pcancel (pps st q)) by (intro q; apply Hpp).
    assert (Pe : forall q, pexists (pps st' q) = pexists (pps st q)) by (intro q; apply Hpp).
    assert (La : forall u, u <> t -> (is_late m' u <-> is_late m u)) by (intros u Hu; unfold is_late; rewrite (M4 u Hu); tauto).
    constructor.
    - intros u q x E. destruct (O_psend u q x E) as [-> [Ec [Hk Ho']]]. rewrite Hcu, Ec. auto.
    - intros u q E. destruct (O_pdrop u q E) as [-> [Ec Hk]]. rewrite Hcu, Ec. auto.
    - intros q. rewrite Pe. intro Hq. destruct (O_noex q Hq) as [A B]. destruct (f_noex _ _ _ R q Hq) as [_ [E2 [E3 [E4 [E5 [E6 _]]]]]].
      rewrite M2, M3, Ps, Pc. repeat split; auto.
      destruct (phandle (pps st' q)) eqn:Eh; [|reflexivity]. destruct (Hpp q) as [_ [_ [_ Z0]]]. rewrite (Z0 Eh) in E6. discriminate E6.
    - intros q. rewrite M3, Pc. apply (f_drop _ _ _ R).
    - intros u W L. apply Wk in W. rewrite Tp, Pc. destruct (Nat.eq_dec u t) as [->|Hu]; [apply O_late; assumption|].
      apply (La u Hu) in L. apply (f_late _ _ _ R u W L).
    - intros u c0 W L Hq. apply Wk in W. destruct (Nat.eq_dec u t) as [->|Hu]; [rewrite Hcu in Hq; inversion Hq; subst c0; apply O_ok; assumption|].
      apply (La u Hu) in L. rewrite (Ho u Hu) in *. apply (f_ok _ _ _ R u c0 W L Hq).
    - intros u W. cbn zeta. apply Wk in W. rewrite Tp, M2, Ps. apply (O_ps u W).
    - intros u m0 q x Hin. destruct (Nat.eq_dec u t) as [->|Hu]; [destruct (O_own_send m0 q x Hin) as [A B]; rewrite Hcu, B; auto|].
      rewrite (Ho u Hu) in *. apply (f_own_send _ _ _ R u m0 q x Hin).
    - intros u q x Hq. destruct (Nat.eq_dec u t) as [->|Hu]; [rewrite Hcu in Hq; inversion Hq; subst c; apply (O_sendret q x eq_refl)|].
      rewrite (Ho u Hu) in *. apply (f_sendret _ _ _ R u q x Hq).
    - intros u q Hq Np. rewrite Pc. destruct (Nat.eq_dec u t) as [->|Hu]; [rewrite Hcu in Hq; inversion Hq; subst c; apply (O_dropcmd q eq_refl Np)|].
      rewrite (Ho u Hu) in *. apply (f_dropcmd _ _ _ R u q Hq). discriminate.
    - intros u m0 q Hin. rewrite Pe. destruct (Nat.eq_dec u t) as [->|Hu]; [destruct (O_own_cs m0 q Hin) as [A [B C]]; rewrite Hcu, B; auto|].
      rewrite (Ho u Hu) in *. apply (f_own_cs _ _ _ R u m0 q Hin).
    - intros u L. destruct (Nat.eq_dec u t) as [->|Hu]; [exists c; split; [exact Hcu|apply O_late_cur; exact L]|].
      apply (La u Hu) in L. rewrite (Ho u Hu). apply (f_late_cur _ _ _ R u L).
    - intros u Hin. destruct (Nat.eq_dec u t) as [->|Hu]; [destruct (O_late_in Hin) as [Z1 Z2]; split; [exists c; auto|apply Wk; exact Z1]|]. rewrite (Ho u Hu).
      cut ((exists c0, tcur (thr st u) = Some c0 /\ wcmd c0) /\ wkr st u); [intros [A B]; split; [exact A|apply Wk; exact B]|]. apply (f_late_in _ _ _ R u).
      destruct (get_tid u (m14_late m)) eqn:G; [|exfalso; apply get_tid_none in Hin; [exact Hin|rewrite (M4 u Hu); exact G]].
      destruct (in_dec Nat.eq_dec u (map fst (m14_late m))) as [Y|Y]; [exact Y|]. apply get_tid_none in Y. rewrite Y in G. discriminate G.
    - exact O_late_nd.
    - intros u m0 v Hin. destruct (Nat.eq_dec u t) as [->|Hu]; [exfalso; exact (O_own_ret m0 v Hin)|].
      rewrite (Ho u Hu) in *. destruct (f_own_ret _ _ _ R u m0 v Hin) as [A B]. split; [exact A|]. intros z Ez. destruct (B z Ez) as [B1 B2]. split; [exact B1|apply Wk; exact B2].
    - intros u j Hin. destruct (Nat.eq_dec u t) as [->|Hu].
      + rewrite Hcu, Htp. destruct (O_own_pr j Hin) as [A [B C]].
        split; [intros m0 q E; destruct (A m0 q E) as [A1 [A2 A3]]; split; [apply Wk; exact A1|split; [rewrite A2; reflexivity|exact A3]]|split;
          [intros m0 q E; destruct (B m0 q E) as [B1 [B2 B3]]; split; [apply Wk; exact B1|split; [rewrite B2; reflexivity|exact B3]]
          |intros m0 q x E; destruct (C m0 q x E) as [C1 [C2 C3]]; split; [apply Wk; exact C1|split; [rewrite C2; reflexivity|exact C3]]]].
      + rewrite (Ho u Hu) in *. destruct (f_own_pr _ _ _ R u j Hin) as [A [B C]].
        split; [intros m0 q E; destruct (A m0 q E) as [A1 A2]; split; [apply Wk; exact A1|exact A2]|split;
          [intros m0 q E; destruct (B m0 q E) as [B1 B2]; split; [apply Wk; exact B1|exact B2]|intros m0 q x E; destruct (C m0 q x E) as [C1 C2]; split; [apply Wk; exact C1|exact C2]]].
    - intros u c0 Hq Wc. destruct (Nat.eq_dec u t) as [->|Hu]; [rewrite Hcu in Hq; inversion Hq; subst c0; apply (O_pr Wc)|].
      rewrite (Ho u Hu) in *. apply (f_pr _ _ _ R u c0 Hq Wc).
  Qed.
End FIdle.

Definition npcmd (c : cmd) : Prop := match c with CPSend _ _ | CPDrop _ | CRecv | CLSend _ | CCancel => False | _ => True end.

Lemma f_idle_q : forall st st' m m' t c new,
  FRel FNone st m -> f14_same m m' -> nthr st' = nthr st -> (forall u, u <> t -> thr st' u = thr st u) ->
  tcont (thr st t) = [] -> tcur (thr st t) = None -> tcur (thr st' t) = Some c -> tpipe (thr st' t) = tpipe (thr st t) ->
  (forall q, psendq (pps st' q) = psendq (pps st q) /\ pcancel (pps st' q) = pcancel (pps st q) /\
             pexists (pps st' q) = pexists (pps st q) /\ (phandle (pps st' q) = true -> phandle (pps st q) = true)) ->
  tcont (thr st' t) = new -> (forall j, In j new -> fq j) -> npcmd c ->
  FRel FNone st' m'.
Proof.
  intros st st' m m' t c new R [M1 M2 M3 M4] Hn Ho Hc Hcu0 Hcu Htp Hpp Hc' Hnew Nc.
  destruct (fq_list new Hnew) as [Cn [Sn Vn]].
  assert (NoLate : forall mm, m14_late mm = m14_late m -> ~ is_late mm t).
  { intros mm E L. unfold is_late in L. rewrite E in L. destruct (f_late_cur _ _ _ R t L) as [c0 [E0 _]]. rewrite Hcu0 in E0. discriminate E0. }
  assert (Sp : forall q, spend q (mcont st') = spend q (mcont st)).
  { intro q. unfold mcont. destruct (Nat.eq_dec main t) as [E|E]; [rewrite E, Hc', Hc, Sn; reflexivity|rewrite (Ho main E); reflexivity]. }
  assert (Fqn : forall j, In j (tcont (thr st' t)) -> fq j) by (rewrite Hc'; exact Hnew).
  apply (f_idle FNone st st' m m' t c R Hn Ho Hcu Htp Hpp M2 M3).
  - intros u _. rewrite M4. reflexivity.
  - intros u q x E. discriminate E.
  - intros u q E. discriminate E.
  - intros q Hq. unfold dps. rewrite M1, Sp. destruct (f_noex _ _ _ R q Hq) as [A [_ [_ [_ [_ [_ B]]]]]]. auto.
  - intros u W. cbn zeta. unfold dps. rewrite M1, Sp. pose proof (f_ps _ _ _ R u W) as L. cbn zeta in L. unfold dps in L. rewrite L.
    destruct (Nat.eq_dec u t) as [->|Hu]; [|rewrite (Ho u Hu); reflexivity].
    unfold rtransit. rewrite Hc', Hc, Hcu, Hcu0, Vn. destruct c; try reflexivity. destruct Nc.
  - intros _ L. exfalso. exact (NoLate m' M4 L).
  - intros _ L. exfalso. exact (NoLate m' M4 L).
  - intros m0 q x Hin. exfalso. exact (proj1 (proj2 (proj2 (proj2 (fq_facts _ (Fqn _ Hin))))) m0 q x eq_refl).
  - intros q x E. subst c. destruct Nc.
  - intros q E. subst c. destruct Nc.
  - intros m0 q Hin. exfalso. exact (proj1 (proj2 (proj2 (proj2 (proj2 (fq_facts _ (Fqn _ Hin)))))) m0 q eq_refl).
  - intro L. exfalso. exact (NoLate m' M4 L).
  - rewrite M4. apply (f_late_nd _ _ _ R).
  - rewrite M4. intro Hin. exfalso. destruct (f_late_in _ _ _ R t Hin) as [[c9 [E9 _]] _]; rewrite Hcu0 in E9; discriminate E9.
  - intros m0 v Hin. exact (proj1 (proj2 (proj2 (proj2 (proj2 (proj2 (fq_facts _ (Fqn _ Hin))))))) m0 v eq_refl).
  - intros j Hin. destruct (fq_facts _ (Fqn _ Hin)) as [_ [_ [_ [_ [_ [_ [Z1 [Z2 [Z3 Z4]]]]]]]]].
    split; [intros m0 q [E|E]; exfalso; [exact (Z1 m0 q E)|exact (Z2 q E)]|split; [intros m0 q E; exfalso; exact (Z3 m0 q E)|intros m0 q x E; exfalso; exact (Z4 m0 q x E)]].
  - intro Wc. exfalso. destruct c; try destruct Wc; destruct Nc.
Qed.

(** a thread is spawned (with [pp = true]: the worker of the new pipe [q]) *)
Lemma f_spawn : forall st st' m q (pp : bool),
  (forall u, wkr st u -> pexists (pps st (tpipe (thr st u))) = true) -> FRel FNone st m -> (1 <= nthr st)%nat ->
  nthr st' = S (nthr st) -> (forall u, u <> nthr st -> thr st' u = thr st u) ->
  tcont (thr st (nthr st)) = [] -> tcur (thr st (nthr st)) = None ->
  tcont (thr st' (nthr st)) = [] -> tcur (thr st' (nthr st)) = None -> tpipe (thr st' (nthr st)) = q ->
  (0 <= q <-> pp = true) ->
  (forall q', (pp = false \/ q' <> q) -> pps st' q' = pps st q') ->
  (pp = true -> pexists (pps st q) = false /\ pexists (pps st' q) = true /\ psendq (pps st' q) = [] /\ pcancel (pps st' q) = false) ->
  FRel FNone st' m.
Proof.
  intros st st' m q pp E R H1 Hn Ho Hc0 Hcu0 Hc0' Hcu0' Htp0 Hq Hpo Hpq.
  set (u0 := nthr st) in *.
  assert (Mne : main <> u0) by (unfold u0, main; lia).
  assert (Mc : mcont st' = mcont st) by (unfold mcont; rewrite (Ho main Mne); reflexivity).
  assert (Wold : forall u, wkr st u -> u <> u0) by (intros u [A _]; unfold u0; lia).
  assert (Wk : forall u, wkr st' u <-> (u = u0 /\ pp = true) \/ (u <> u0 /\ wkr st u)).
  { intro u. unfold wkr. rewrite Hn. destruct (Nat.eq_dec u u0) as [->|Ne].
    - rewrite Htp0, Hq. split; [intros [_ H]; left; auto|intros [[_ H]|[H _]]; [split; [unfold u0; lia|exact H]|exfalso; apply H; reflexivity]].
    - rewrite (Ho u Ne). split; [intros [A B]; right; split; [exact Ne|split; [unfold u0 in Ne; lia|exact B]]|intros [[A _]|[_ [A B]]]; [contradiction|split; [lia|exact B]]]. }
  assert (Pex : forall q', pexists (pps st q') = true -> pps st' q' = pps st q').
  { intros q' H. apply Hpo. destruct (Bool.bool_dec pp true) as [Ep|Ep]; [right|left; apply not_true_is_false; exact Ep].
    intro Y. subst q'. destruct (Hpq Ep) as [A _]. rewrite A in H. discriminate H. }
  assert (Pnx : forall q', pexists (pps st' q') = false -> pps st' q' = pps st q' /\ pexists (pps st q') = false).
  { intros q' H. assert (Z0 : pp = false \/ q' <> q).
    { destruct (Bool.bool_dec pp true) as [Ep|Ep]; [right|left; apply not_true_is_false; exact Ep]. intro Y. subst q'. destruct (Hpq Ep) as [_ [A _]]. rewrite A in H. discriminate H. }
    rewrite (Hpo q' Z0) in H. split; [apply Hpo; exact Z0|exact H]. }
  assert (NoL : ~ is_late m u0) by (intro L; destruct (f_late_cur _ _ _ R u0 L) as [c0 [E0 _]]; rewrite Hcu0 in E0; discriminate E0).
  constructor.
  - intros t q0 x Y. discriminate Y.
  - intros t q0 Y. discriminate Y.
  - intros q' H. destruct (Pnx q' H) as [A B]. rewrite A, Mc. apply (f_noex _ _ _ R q' B).
  - intros q' H. pose proof (f_drop _ _ _ R q' H) as Pc.
    assert (Ex : pexists (pps st q') = true) by (destruct (pexists (pps st q')) eqn:Ee; [reflexivity|destruct (f_noex _ _ _ R q' Ee) as [_ [_ [_ [_ [Z0 _]]]]]; rewrite Z0 in H; discriminate H]).
    rewrite (Pex q' Ex). exact Pc.
  - intros u W L. apply Wk in W. destruct W as [[-> _]|[Ne W]]; [exfalso; exact (NoL L)|].
    rewrite (Ho u Ne). rewrite (Pex _ (E u W)). apply (f_late _ _ _ R u W L).
  - intros u c W L Hq0. apply Wk in W. destruct W as [[-> _]|[Ne W]]; [exfalso; exact (NoL L)|]. rewrite (Ho u Ne) in *. apply (f_ok _ _ _ R u c W L Hq0).
  - intros u W. cbn zeta. rewrite Mc. apply Wk in W. destruct W as [[-> Ep]|[Ne W]].
    + rewrite Htp0. destruct (Hpq Ep) as [Ex [_ [Ps _]]]. destruct (f_noex _ _ _ R q Ex) as [A [B [_ [_ [_ [_ C]]]]]].
      rewrite A, B, Ps, C. unfold rtransit. rewrite Hc0', Hcu0'. reflexivity.
    + rewrite (Ho u Ne). rewrite (Pex _ (E u W)). apply (f_ps _ _ _ R u W).
  - intros u m0 q0 x Hin. destruct (Nat.eq_dec u u0) as [->|Ne]; [rewrite Hc0' in Hin; destruct Hin|]. rewrite (Ho u Ne) in *. apply (f_own_send _ _ _ R u m0 q0 x Hin).
  - intros u q0 x Hq0. destruct (Nat.eq_dec u u0) as [->|Ne]; [rewrite Hcu0' in Hq0; discriminate Hq0|]. rewrite (Ho u Ne) in *. apply (f_sendret _ _ _ R u q0 x Hq0).
  - intros u q0 Hq0 Np. destruct (Nat.eq_dec u u0) as [->|Ne]; [rewrite Hcu0' in Hq0; discriminate Hq0|]. rewrite (Ho u Ne) in *.
    destruct (f_dropcmd _ _ _ R u q0 Hq0 Np) as [[m0 A]|A]; [left; exists m0; exact A|].
    assert (Ex : pexists (pps st q0) = true) by (destruct (pexists (pps st q0)) eqn:Ee; [reflexivity|destruct (f_noex _ _ _ R q0 Ee) as [_ [_ [_ [Z0 _]]]]; rewrite Z0 in A; discriminate A]).
    right. rewrite (Pex q0 Ex). exact A.
  - intros u m0 q0 Hin. destruct (Nat.eq_dec u u0) as [->|Ne]; [rewrite Hc0' in Hin; destruct Hin|]. rewrite (Ho u Ne) in *.
    destruct (f_own_cs _ _ _ R u m0 q0 Hin) as [A [B C]]. rewrite (Pex q0 C). auto.
  - intros u L. destruct (Nat.eq_dec u u0) as [->|Ne]; [exfalso; exact (NoL L)|]. rewrite (Ho u Ne). apply (f_late_cur _ _ _ R u L).
  - intros u Hin. destruct (Nat.eq_dec u u0) as [->|Ne]; [exfalso; destruct (f_late_in _ _ _ R u0 Hin) as [[c9 [E9 _]] _]; rewrite Hcu0 in E9; discriminate E9|]. rewrite (Ho u Ne).
    destruct (f_late_in _ _ _ R u Hin) as [A B]. split; [exact A|apply Wk; right; split; [exact Ne|exact B]].
  - apply (f_late_nd _ _ _ R).
  - intros u m0 v Hin. destruct (Nat.eq_dec u u0) as [->|Ne]; [rewrite Hc0' in Hin; destruct Hin|]. rewrite (Ho u Ne) in *.
    destruct (f_own_ret _ _ _ R u m0 v Hin) as [A B]. split; [exact A|]. intros z Ez. destruct (B z Ez) as [B1 B2]. split; [exact B1|apply Wk; right; split; [exact Ne|exact B2]].
  - intros u j Hin. destruct (Nat.eq_dec u u0) as [->|Ne]; [rewrite Hc0' in Hin; destruct Hin|]. rewrite (Ho u Ne) in *.
    destruct (f_own_pr _ _ _ R u j Hin) as [A [B C]].
    split; [intros m0 q0 Y; destruct (A m0 q0 Y) as [A1 A2]; split; [apply Wk; right; split; [exact Ne|exact A1]|exact A2]|split;
      [intros m0 q0 Y; destruct (B m0 q0 Y) as [B1 B2]; split; [apply Wk; right; split; [exact Ne|exact B1]|exact B2]
      |intros m0 q0 x Y; destruct (C m0 q0 x Y) as [C1 C2]; split; [apply Wk; right; split; [exact Ne|exact C1]|exact C2]]].
  - intros u c Hq0 Wc. destruct (Nat.eq_dec u u0) as [->|Ne]; [rewrite Hcu0' in Hq0; discriminate Hq0|]. rewrite (Ho u Ne) in *. apply (f_pr _ _ _ R u c Hq0 Wc).
Qed.

Definition pendF (t : tid) (c : cmd) (done : option retv) : fpend :=
  match c, done with CPSend q x, Some _ => FSendBad t q x | CPDrop q, Some _ => FDropBad t q | _, _ => FNone end.

Lemma ghost_f14_plain : forall e, plain e -> is_ghost e = true -> f14_plain e.
Proof. intros e P G. destruct e; cbn in *; try contradiction; try discriminate; auto. Qed.

Lemma get_tid_cons_other : forall (u t : tid) (b : bool) l, u <> t -> get_tid u ((t, b) :: l) = get_tid u l.
Proof. intros u t b l H. cbn. destruct (Nat.eqb_spec t u); [exfalso; apply H; auto|reflexivity]. Qed.

Lemma on_pipe_last : forall q q0 x l, on_pipe q (l ++ [(q0, x)]) = on_pipe q l ++ (if q0 =? q then [x] else []).
Proof. intros. rewrite on_pipe_app. cbn. destruct (q0 =? q); reflexivity. Qed.

Ltac fid s0 t R Sm Hc Hcu0 new :=
  eapply (f_idle_q s0 _ _ _ t _ new R Sm);
  [ reflexivity | intros ? ?; thr_simpl | exact Hc | exact Hcu0 | thr_simpl | thr_simpl | pe_fp | thr_simpl
  | let j := fresh in let Hj := fresh in intros j Hj; cbn in Hj; repeat (destruct Hj as [<-|Hj]); try contradiction; exact Logic.I
  | try exact Logic.I ]
with pe_fp := let q := fresh "q" in let E := fresh "E" in
  intro q; cbn; unfold updZ; try (destruct (q =? _) eqn:E; [apply Z.eqb_eq in E; subst q|]); cbn; repeat split; try reflexivity; auto.

(** a worker begins [recv] / [send] / [cancel] *)
Lemma f_wbegin : forall s0 m t c cs a,
  XInv s0 -> ERel ENone s0 m -> FRel FNone s0 m -> (t < nthr s0)%nat -> tcont (thr s0 t) = [] -> tcur (thr s0 t) = None ->
  wcmd c -> 0 <= tpipe (thr s0 t) -> pr a = true -> (forall m0 v, a <> IUnlock m0 (URet v)) ->
  ((forall m0 q, a = ILock m0 (LPqRecv q) \/ a = ICvReacq q -> c = CRecv /\ q = tpipe (thr s0 t)) /\
   (forall m0 q, a = ILock m0 (LPqCancelGet q) -> c = CCancel /\ q = tpipe (thr s0 t)) /\
   (forall m0 q x, a = ILock m0 (LPqLSend q x) -> c = CLSend x /\ q = tpipe (thr s0 t))) ->
  FRel FNone (set_cont (upd_th s0 t (set_tret (set_tcur (set_tscript (th s0 t) cs) (Some c)) RUnit)) t [a]) (m14r_step m (t, ECmd c)).
Proof.
  intros s0 m t c cs a X E R Ht Hc Hcu0 Wc Lp Pa Nu Own.
  set (s1 := upd_th s0 t (set_tret (set_tcur (set_tscript (th s0 t) cs) (Some c)) RUnit)).
  set (st2 := set_cont s1 t [a]). set (m1 := m14r_step m (t, ECmd c)). set (pq := tpipe (thr s0 t)) in *.
  assert (W : wkr s0 t) by (split; [exact Ht|exact Lp]).
  assert (Nm : t <> main) by (intro Y; subst t; exact (main_not_wkr s0 X W)).
  assert (Ow : get_tid t (m14_owner m) = Some pq).
  { rewrite (owner_of s0 m t E Ht). fold pq. destruct (Z.leb_spec 0 pq); [reflexivity|lia]. }
  assert (Mf : m14_psend m1 = m14_psend m /\ m14_recvd m1 = m14_recvd m /\ m14_dropped m1 = m14_dropped m /\
               m14_late m1 = (t, memZ pq (m14_dropped m)) :: m14_late m).
  { unfold m1, m14r_step, m14_step. destruct c; try destruct Wc; cbn; rewrite Ow; cbn; repeat split; reflexivity. }
  destruct Mf as [M1 [M2 [M3 M4]]].
  assert (Hc2 : tcont (thr st2 t) = [a]) by (unfold st2, s1; thr_simpl).
  assert (Tr2 : tret (thr st2 t) = RUnit) by (unfold st2, s1; thr_simpl).
  destruct (pr_kinds a Pa) as [Sa [Ia1 Ia2]].
  assert (Mc : mcont st2 = mcont s0) by (unfold mcont, st2, s1; cbn -[Nat.eqb]; unfold updN, th; cbn -[Nat.eqb]; unfold updN, th; destruct (Nat.eqb_spec main t) as [Y|Y]; [exfalso; apply Nm; auto|reflexivity]).
  assert (Lt : is_late m1 t -> memZ pq (m14_dropped m) = true).
  { unfold is_late. rewrite M4. cbn. rewrite Nat.eqb_refl. intro Y. inversion Y. reflexivity. }
  assert (Va : rvals [a] = []) by (apply rvals_one; intros m0 z Y; exact (Nu m0 _ Y)).
  apply (f_idle FNone s0 st2 m m1 t c R).
  - reflexivity.
  - intros u Hu. unfold st2, s1. thr_simpl.
  - unfold st2, s1. thr_simpl.
  - unfold st2, s1. thr_simpl.
  - intro q. repeat split; auto.
  - exact M2.
  - exact M3.
  - intros u Hu. rewrite M4. apply get_tid_cons_other. exact Hu.
  - intros u q x Y. discriminate Y.
  - intros u q Y. discriminate Y.
  - intros q Hq. unfold dps. rewrite M1, Mc. destruct (f_noex _ _ _ R q Hq) as [A [_ [_ [_ [_ [_ B]]]]]]. auto.
  - intros u Wu. cbn zeta. unfold dps. rewrite M1, Mc. pose proof (f_ps _ _ _ R u Wu) as L. cbn zeta in L. unfold dps in L. rewrite L.
    destruct (Nat.eq_dec u t) as [->|Hu]; [|replace (thr st2 u) with (thr s0 u) by (unfold st2, s1; thr_simpl); reflexivity].
    unfold rtransit. rewrite Hc2, Hc, Hcu0, Va, Tr2. replace (tcur (thr st2 t)) with (Some c) by (unfold st2, s1; thr_simpl). destruct c; reflexivity.
  - intros _ L. apply (f_drop _ _ _ R pq (Lt L)).
  - intros _ L. rewrite Tr2, Hc2. split; [destruct c; exact Logic.I|]. intros m0 v [Y|[]]. exfalso. exact (Nu m0 v Y).
  - intros m0 q x Hin. exfalso. rewrite Hc2 in Hin. destruct Hin as [Y|[]]. exact (Ia1 m0 q x Y).
  - intros q x Y. subst c. destruct Wc.
  - intros q Y. subst c. destruct Wc.
  - intros m0 q Hin. exfalso. rewrite Hc2 in Hin. destruct Hin as [Y|[]]. exact (Ia2 m0 q Y).
  - intros _. exact Wc.
  - rewrite M4. cbn [map fst]. constructor; [|apply (f_late_nd _ _ _ R)]. intro Hin. destruct (f_late_in _ _ _ R t Hin) as [[c9 [E9 _]] _]; rewrite Hcu0 in E9; discriminate E9.
  - intros _. split; [exact W|exact Wc].
  - intros m0 v Hin. rewrite Hc2 in Hin. destruct Hin as [Y|[]]. exact (Nu m0 v Y).
  - intros j Hin. rewrite Hc2 in Hin. destruct Hin as [<-|[]]. destruct Own as [O1 [O2 O3]].
    split; [intros m0 q Y; destruct (O1 m0 q Y); auto|split; [intros m0 q Y; destruct (O2 m0 q Y); auto|intros m0 q x Y; destruct (O3 m0 q x Y); auto]].
  - intros _. rewrite Hc2, Tr2. unfold prcount. cbn [filter]. rewrite Pa. cbn. split; [lia|reflexivity].
Qed.

Lemma begin_F : forall s0 m t c cs st2 ev0 done,
  CInv (core s0) -> pristine s0 -> XInv s0 -> UInv s0 -> PqInv s0 -> ERel ENone s0 m -> FRel FNone s0 m -> (t < nthr s0)%nat ->
  tcont (thr s0 t) = [] -> tcur (thr s0 t) = None -> tscript (thr s0 t) = c :: cs -> cmd_ok c ->
  begin_cmd (upd_th s0 t (set_tret (set_tcur (set_tscript (th s0 t) cs) (Some c)) RUnit)) t c = (st2, ev0, done) ->
  FRel (pendF t c done) st2 (fold_left m14r_step (evs t (ECmd c :: ev0)) m).
Proof.
  intros s0 m t c cs st2 ev0 done I P X U Q E R Ht Hc Hcu0 Hs Hok H.
  set (s1 := upd_th s0 t (set_tret (set_tcur (set_tscript (th s0 t) cs) (Some c)) RUnit)) in *.
  assert (P1 : pristine s1) by (unfold s1; prist s0 t).
  assert (I1 : CInv (core s1)) by (eapply CInv_ceq; [|exact I]; unfold s1; same_core).
  destruct (begin_cmd_sum s1 t c st2 ev0 done P1 Ht H) as [Hpl _].
  assert (Pev : forall e, In e ev0 -> f14_plain e) by (intros e He; destruct (Hpl e He); apply ghost_f14_plain; assumption).
  change (evs t (ECmd c :: ev0)) with ((t, ECmd c) :: evs t ev0). cbn [fold_left].
  set (m1 := m14r_step m (t, ECmd c)).
  apply (f_msame _ _ m1); [|apply m14r_fplain_fold; exact Pev].
  assert (Own : get_tid t (m14_owner m) = if 0 <=? tpipe (thr s0 t) then Some (tpipe (thr s0 t)) else None) by (apply owner_of; auto).
  assert (Tp1 : tpipe (th s1 t) = tpipe (thr s0 t)) by (unfold s1; thr_simpl).
  assert (Plain : npcmd c -> f14_same m m1).
  { intro Nc. apply m14r_fplain_step. destruct c; try exact Logic.I; destruct Nc. }
  assert (Inst : npcmd c -> FRel FNone s1 m1).
  { intro Nc. unfold s1. fid s0 t R (Plain Nc) Hc Hcu0 (@nil instr). exact Nc. }
  assert (Hc1 : tcont (thr s1 t) = []) by (unfold s1; thr_simpl; exact Hc).
  assert (Hcu1 : tcur (thr s1 t) = Some c) by (unfold s1; thr_simpl).
  destruct c as [w|w|c0 x|c0|w|n| | | | | |c0|c0|p0|p0 x|p0| |x| | ]; cbn [begin_cmd pendF] in *.
  - (* CWake *)
    destruct (wreg s1 w) as [wi|]; [|inversion H; subst; apply Inst; exact Logic.I].
    destruct (climb_start s1 wi (Some (HPlain w))) as [i|] eqn:Ec; inversion H; subst; clear H; [|apply Inst; exact Logic.I].
    apply climb_at_climb in Ec. destruct Ec as [k ->]. unfold s1. fid s0 t R (Plain Logic.I) Hc Hcu0 [IClimb k].
  - destruct (wreg s1 w) as [wi|] eqn:Ew; [|inversion H; subst; apply Inst; exact Logic.I].
    destruct (wbusy s1 w); inversion H; subst; clear H; unfold s1.
    + fid s0 t R (Plain Logic.I) Hc Hcu0 [ILock MDL (LPush (wbit wi) (wbm wi) (HPlain w))].
    + fid s0 t R (Plain Logic.I) Hc Hcu0 (@nil instr).
  - destruct (Waker.creg (chs s1 c0)); inversion H; subst; clear H; [|apply Inst; exact Logic.I]. unfold s1. fid s0 t R (Plain Logic.I) Hc Hcu0 [ILock (MCh c0) (LChSend c0 x)].
  - destruct (Waker.creg (chs s1 c0)); inversion H; subst; clear H; [|apply Inst; exact Logic.I]. unfold s1. fid s0 t R (Plain Logic.I) Hc Hcu0 [ILock (MCh c0) (LChClosed c0)].
  - (* CNew *)
    destruct (negb (is_main t) || wused s1 w || (1000000 <=? w) || (w <? 0)); [inversion H; subst; apply Inst; exact Logic.I|].
    destruct (wh_add s1 (HPlain w)) as [[sa wi]|] eqn:Ea; inversion H; subst; clear H; [|apply Inst; exact Logic.I].
    assert (Hh : HPlain w <> HReserved) by discriminate.
    destruct (wh_add_post s1 _ sa wi I1 Hh Ea) as [_ [_ [_ [Ed [Et [En [Ew [Eu [Ech Ep]]]]]]]]].
    pose proof (Inst Logic.I) as R1. clear Inst. clearbody s1.
    apply (f_steq _ s1 _ _ R1); [cbn; exact En|cbn; exact Ep|intro u; cbn; rewrite Et; repeat split; reflexivity].
  - (* CFill *)
    destruct (negb (is_main t)); [inversion H; subst; apply Inst; exact Logic.I|].
    destruct (fill_loop (Z.to_nat n) s1 []) as [sa ev1] eqn:Ea. inversion H; subst; clear H.
    destruct (fill_loop_slab _ _ _ _ _ I1 Ea) as [_ [_ [A3 [A4 [A5 A6]]]]].
    pose proof (Inst Logic.I) as R1. apply (f_steq _ s1 _ _ R1); [exact A6|exact A5|intro u; rewrite A3; repeat split; reflexivity].
  - destruct (negb (is_main t)); inversion H; subst; clear H; [apply Inst; exact Logic.I|]. unfold s1. fid s0 t R (Plain Logic.I) Hc Hcu0 [ITopSwap; IRun].
  - destruct (negb (is_main t)); [inversion H; subst; apply Inst; exact Logic.I|].
    destruct (gnotified s1); inversion H; subst; clear H; [|apply Inst; exact Logic.I]. unfold s1. fid s0 t R (Plain Logic.I) Hc Hcu0 [ITopSwap; IRun].
  - (* CSpawn *)
    destruct (negb (is_main t)); inversion H; subst; clear H; [apply Inst; exact Logic.I|].
    pose proof (Inst Logic.I) as R1.
    assert (Wex1 : forall u, wkr s1 u -> pexists (pps s1 (tpipe (thr s1 u))) = true).
    { intros u W. assert (W0 : wkr s0 u) by (destruct W as [A B]; split; [exact A|revert B; unfold s1; thr_impl]).
      pose proof (e_wex _ _ _ E u W0) as Z0. revert Z0. unfold s1. thr_impl. }
    apply (f_spawn s1 _ m1 (-1) false Wex1 R1).
    + destruct P1 as [Z0 _]. exact Z0.
    + reflexivity.
    + intros u Hu. cbn -[Nat.eqb]. unfold updN, th. match goal with |- context [Nat.eqb ?a ?b] => destruct (Nat.eqb_spec a b) as [Y|Y] end; [exfalso; apply Hu; exact Y|reflexivity].
    + destruct P1 as [_ Z0]. apply Z0. lia.
    + unfold s1. cbn -[Nat.eqb]. unfold updN, th. destruct (Nat.eqb_spec (nthr s0) t) as [Y|Y]; [exfalso; lia|apply U; lia].
    + cbn -[Nat.eqb]. unfold updN, th. rewrite Nat.eqb_refl. reflexivity.
    + cbn -[Nat.eqb]. unfold updN, th. rewrite Nat.eqb_refl. reflexivity.
    + cbn -[Nat.eqb]. unfold updN, th. rewrite Nat.eqb_refl. reflexivity.
    + split; [intro L; exfalso; lia|intro L; discriminate L].
    + intros; reflexivity.
    + intro L. discriminate L.
  - destruct (negb (is_main t)); inversion H; subst; clear H; [apply Inst; exact Logic.I|]. unfold s1. fid s0 t R (Plain Logic.I) Hc Hcu0 [IJoin].
  - destruct (negb (is_main t)); inversion H; subst; clear H; [apply Inst; exact Logic.I|]. unfold s1. fid s0 t R (Plain Logic.I) Hc Hcu0 [IIdle].
  - (* CCNew *)
    destruct (negb (is_main t) || cexists (chs s1 c0)); [inversion H; subst; apply Inst; exact Logic.I|].
    destruct (wh_add s1 (HChan c0)) as [[sa wi]|] eqn:Ea; inversion H; subst; clear H; [|apply Inst; exact Logic.I].
    assert (Hh : HChan c0 <> HReserved) by discriminate.
    destruct (wh_add_post s1 _ sa wi I1 Hh Ea) as [_ [_ [_ [Ed [Et [En [Ew [Eu [Ech Ep]]]]]]]]].
    apply (f_idle_q s0 _ m m1 t (CCNew c0) [ILock (MCh c0) (LChInit c0)] R (Plain Logic.I)).
    + cbn. rewrite En. reflexivity.
    + intros u Hu. cbn -[Nat.eqb]. unfold updN, th. destruct (Nat.eqb_spec u t); [contradiction|]. cbn. rewrite Et. unfold s1. thr_simpl.
    + exact Hc.
    + exact Hcu0.
    + cbn -[Nat.eqb]. unfold updN, th. rewrite Nat.eqb_refl. cbn. rewrite Et. exact Hcu1.
    + cbn -[Nat.eqb]. unfold updN, th. rewrite Nat.eqb_refl. cbn. rewrite Et. exact Tp1.
    + intro q. cbn. rewrite Ep. unfold s1. cbn. repeat split; auto.
    + cbn -[Nat.eqb]. unfold updN, th. rewrite Nat.eqb_refl. reflexivity.
    + intros j [<-|[]]. exact Logic.I.
    + exact Logic.I.
  - (* CCDrop *)
    destruct (negb (is_main t) || negb (cguard (chs s1 c0))); inversion H; subst; clear H; [apply Inst; exact Logic.I|].
    unfold s1. fid s0 t R (Plain Logic.I) Hc Hcu0 [ILock (MCh c0) (LChClose c0)].
  - (* CPNew *)
    destruct (negb (is_main t) || pexists (pps s1 p0)) eqn:Eg; [inversion H; subst; apply Inst; exact Logic.I|].
    apply orb_false_iff in Eg. destruct Eg as [_ Eex].
    destruct (wh_add s1 (HPipe p0)) as [[sa wi]|] eqn:Ea; inversion H; subst; clear H; [|apply Inst; exact Logic.I].
    assert (Hh : HPipe p0 <> HReserved) by discriminate.
    destruct (wh_add_post s1 _ sa wi I1 Hh Ea) as [_ [_ [_ [Ed [Et [En [Ew [Eu [Ech Ep]]]]]]]]].
    pose proof (Inst Logic.I) as R1.
    assert (Wex1 : forall u, wkr s1 u -> pexists (pps s1 (tpipe (thr s1 u))) = true).
    { intros u W. assert (W0 : wkr s0 u) by (destruct W as [A B]; split; [exact A|revert B; unfold s1; thr_impl]).
      pose proof (e_wex _ _ _ E u W0) as Z0. revert Z0. unfold s1. thr_impl. }
    assert (Pr1 : tcont (thr s1 (nthr s1)) = []) by (destruct P1 as [_ Z0]; apply Z0; lia).
    assert (Cu1 : tcur (thr s1 (nthr s1)) = None).
    { unfold s1. cbn -[Nat.eqb]. unfold updN, th. destruct (Nat.eqb_spec (nthr s0) t) as [Y|Y]; [exfalso; lia|apply U; lia]. }
    assert (N1 : (1 <= nthr s1)%nat) by (destruct P1 as [Z0 _]; exact Z0).
    clear Inst Plain. clearbody s1.
    apply (f_spawn s1 _ m1 p0 true Wex1 R1 N1).
    + cbn. rewrite En. reflexivity.
    + intros u Hu. cbn -[Nat.eqb]. unfold updN, th. rewrite En. destruct (Nat.eqb_spec u (nthr s1)) as [Y|Y]; [exfalso; apply Hu; exact Y|]. cbn. rewrite Et. reflexivity.
    + exact Pr1.
    + exact Cu1.
    + cbn -[Nat.eqb]. unfold updN, th. rewrite En, Nat.eqb_refl. reflexivity.
    + cbn -[Nat.eqb]. unfold updN, th. rewrite En, Nat.eqb_refl. reflexivity.
    + cbn -[Nat.eqb]. unfold updN, th. rewrite En, Nat.eqb_refl. reflexivity.
    + split; [reflexivity|intros _; exact Hok].
    + intros q' [Y|Y]; [discriminate Y|]. cbn. unfold updZ. destruct (Z.eqb_spec q' p0); [contradiction|]. rewrite Ep. reflexivity.
    + intros _. split; [exact Eex|]. cbn. unfold updZ. rewrite Z.eqb_refl. cbn. repeat split; reflexivity.
  - (* CPSend *)
    assert (Mf : m14_psend m1 = m14_psend m ++ [(p0, x)] /\ m14_recvd m1 = m14_recvd m /\ m14_dropped m1 = m14_dropped m /\ m14_late m1 = m14_late m).
    { unfold m1, m14r_step, m14_step. cbn. repeat split; reflexivity. }
    destruct Mf as [M1 [M2 [M3 M4]]].
    assert (NoLate : ~ is_late m1 t).
    { intro L. unfold is_late in L. rewrite M4 in L. destruct (f_late_cur _ _ _ R t L) as [c1 [E1 _]]. rewrite Hcu0 in E1. discriminate E1. }
    assert (Tr1 : tret (thr s1 t) = RUnit) by (unfold s1; thr_simpl).
    assert (Mc1 : mcont s1 = mcont s0).
    { unfold mcont. destruct (Nat.eq_dec main t) as [Y|Y]; [rewrite Y, Hc1, Hc; reflexivity|]. replace (thr s1 main) with (thr s0 main); [reflexivity|]. unfold s1. cbn -[Nat.eqb]. unfold updN, th. destruct (Nat.eqb_spec main t); [contradiction|reflexivity]. }
    destruct (negb (is_main t) || negb (phandle (pps s1 p0))) eqn:Eg; inversion H; subst st2 ev0 done; clear H.
    + (* the command fails at once *)
      apply (f_idle (FSendBad t p0 x) s0 s1 m m1 t (CPSend p0 x) R).
      * reflexivity.
      * intros u Hu. unfold s1. thr_simpl.
      * exact Hcu1.
      * unfold s1. thr_simpl.
      * intro q. repeat split; auto.
      * exact M2.
      * exact M3.
      * intros u _. rewrite M4. reflexivity.
      * intros u q y Y. inversion Y; subst u q y. split; [reflexivity|]. split; [reflexivity|]. split; [exact Hc1|exists (m14_psend m); exact M1].
      * intros u q Y. discriminate Y.
      * intros q Hq. unfold dps. rewrite M1, removelast_last. destruct (f_noex _ _ _ R q Hq) as [A [_ [_ [_ [_ [_ B]]]]]]. split; [exact A|].
        rewrite Mc1. exact B.
      * intros u W. cbn zeta. unfold dps. rewrite M1, removelast_last. pose proof (f_ps _ _ _ R u W) as L. cbn zeta in L. unfold dps in L. rewrite L.
        rewrite Mc1.
        destruct (Nat.eq_dec u t) as [->|Hu]; [|replace (thr s1 u) with (thr s0 u) by (unfold s1; thr_simpl); reflexivity].
        unfold rtransit. rewrite Hc1, Hc, Hcu1, Hcu0. reflexivity.
      * intros _ L. exfalso. exact (NoLate L).
      * intros _ L. exfalso. exact (NoLate L).
      * intros m0 q y Hin. rewrite Hc1 in Hin. destruct Hin.
      * intros q y _. exact Tr1.
      * intros q Y. discriminate Y.
      * intros m0 q Hin. rewrite Hc1 in Hin. destruct Hin.
      * intro L. exfalso. exact (NoLate L).
      * rewrite M4. apply (f_late_nd _ _ _ R).
      * rewrite M4. intro Hin. exfalso. destruct (f_late_in _ _ _ R t Hin) as [[c9 [E9 _]] _]; rewrite Hcu0 in E9; discriminate E9.
      * intros m0 v Hin. rewrite Hc1 in Hin. destruct Hin.
      * intros j Hin. rewrite Hc1 in Hin. destruct Hin.
      * intros [].
    + apply orb_false_iff in Eg. destruct Eg as [Em Eh]. apply negb_false_iff in Em, Eh. unfold is_main in Em. apply Nat.eqb_eq in Em. subst t.
      assert (Hh : phandle (pps s0 p0) = true) by exact Eh.
      assert (Ex : pexists (pps s0 p0) = true).
      { destruct (pexists (pps s0 p0)) eqn:Ee; [reflexivity|]. destruct (f_noex _ _ _ R p0 Ee) as [_ [_ [_ [_ [_ [Z0 _]]]]]]. rewrite Z0 in Hh. discriminate Hh. }
      assert (Mc0 : mcont s0 = []) by exact Hc.
      set (st2 := set_cont s1 main [ILock (MPq p0) (LPqSend p0 x)]).
      assert (Hc2 : tcont (thr st2 main) = [ILock (MPq p0) (LPqSend p0 x)]) by (unfold st2, s1; thr_simpl).
      assert (Mc2 : mcont st2 = [ILock (MPq p0) (LPqSend p0 x)]) by exact Hc2.
      apply (f_idle FNone s0 st2 m m1 main (CPSend p0 x) R).
      * reflexivity.
      * intros u Hu. unfold st2, s1. symmetry. oth Hu.
      * unfold st2, s1. own.
      * unfold st2, s1. own.
      * intro q. repeat split; auto.
      * exact M2.
      * exact M3.
      * intros u _. rewrite M4. reflexivity.
      * intros u q y Y. discriminate Y.
      * intros u q Y. discriminate Y.
      * intros q Hq. assert (Nq : p0 <> q) by (intro Y; subst q; rewrite Ex in Hq; discriminate Hq).
        unfold dps. rewrite M1, on_pipe_last, Mc2. cbn. destruct (Z.eqb_spec p0 q); [contradiction|]. rewrite app_nil_r.
        destruct (f_noex _ _ _ R q Hq) as [A _]. split; [exact A|reflexivity].
      * intros u W. cbn zeta. unfold dps. rewrite M1, on_pipe_last, Mc2. pose proof (f_ps _ _ _ R u W) as L. cbn zeta in L. unfold dps in L. rewrite L, Mc0.
        assert (Hu : u <> main) by (intro Y; subst u; exact (main_not_wkr s0 X W)).
        replace (thr st2 u) with (thr s0 u) by (unfold st2, s1; oth Hu). cbn [spend flat_map app]. rewrite !app_nil_r, <- !app_assoc. reflexivity.
      * intros _ L. exfalso. exact (NoLate L).
      * intros _ L. exfalso. exact (NoLate L).
      * intros m0 q y Hin. rewrite Hc2 in Hin. destruct Hin as [Y|[]]. inversion Y; subst. auto.
      * intros q y _. unfold st2, s1. own.
      * intros q Y. discriminate Y.
      * intros m0 q Hin. rewrite Hc2 in Hin. destruct Hin as [Y|[]]. discriminate Y.
      * intro L. exfalso. exact (NoLate L).
      * rewrite M4. apply (f_late_nd _ _ _ R).
      * rewrite M4. intro Hin. exfalso. destruct (f_late_in _ _ _ R main Hin) as [[c9 [E9 _]] _]; pose proof (eq_trans (eq_sym E9) Hcu0) as Z9; discriminate Z9.
      * intros m0 v Hin. rewrite Hc2 in Hin. destruct Hin as [Y|[]]. discriminate Y.
      * intros j Hin. rewrite Hc2 in Hin. destruct Hin as [<-|[]].
        split; [intros m0 q [Y|Y]; discriminate Y|split; [intros m0 q Y; discriminate Y|intros m0 q y Y; discriminate Y]].
      * intros [].
  - (* CPDrop *)
    assert (Sm1 : f14_same m m1) by (apply m14r_fplain_step; exact Logic.I).
    destruct Sm1 as [M1 M2 M3 M4].
    assert (NoLate : ~ is_late m1 t).
    { intro L. unfold is_late in L. rewrite M4 in L. destruct (f_late_cur _ _ _ R t L) as [c1 [E1 _]]. rewrite Hcu0 in E1. discriminate E1. }
    assert (Mc1 : mcont s1 = mcont s0).
    { unfold mcont. destruct (Nat.eq_dec main t) as [Y|Y]; [rewrite Y, Hc1, Hc; reflexivity|]. replace (thr s1 main) with (thr s0 main); [reflexivity|]. unfold s1. cbn -[Nat.eqb]. unfold updN, th. destruct (Nat.eqb_spec main t); [contradiction|reflexivity]. }
    destruct (negb (is_main t) || negb (phandle (pps s1 p0))) eqn:Eg; inversion H; subst st2 ev0 done; clear H.
    + apply (f_idle (FDropBad t p0) s0 s1 m m1 t (CPDrop p0) R).
      * reflexivity.
      * intros u Hu. unfold s1. thr_simpl.
      * exact Hcu1.
      * unfold s1. thr_simpl.
      * intro q. repeat split; auto.
      * exact M2.
      * exact M3.
      * intros u _. rewrite M4. reflexivity.
      * intros u q y Y. discriminate Y.
      * intros u q Y. inversion Y; subst u q. auto.
      * intros q Hq. unfold dps. rewrite M1, Mc1. destruct (f_noex _ _ _ R q Hq) as [A [_ [_ [_ [_ [_ B]]]]]]. auto.
      * intros u W. cbn zeta. unfold dps. rewrite M1, Mc1. pose proof (f_ps _ _ _ R u W) as L. cbn zeta in L. unfold dps in L. rewrite L.
        destruct (Nat.eq_dec u t) as [->|Hu]; [|replace (thr s1 u) with (thr s0 u) by (unfold s1; thr_simpl); reflexivity].
        unfold rtransit. rewrite Hc1, Hc, Hcu1, Hcu0. reflexivity.
      * intros _ L. exfalso. exact (NoLate L).
      * intros _ L. exfalso. exact (NoLate L).
      * intros m0 q y Hin. rewrite Hc1 in Hin. destruct Hin.
      * intros q y Y. discriminate Y.
      * intros q Y Np. exfalso. inversion Y; subst q. apply Np. reflexivity.
      * intros m0 q Hin. rewrite Hc1 in Hin. destruct Hin.
      * intro L. exfalso. exact (NoLate L).
      * rewrite M4. apply (f_late_nd _ _ _ R).
      * rewrite M4. intro Hin. exfalso. destruct (f_late_in _ _ _ R t Hin) as [[c9 [E9 _]] _]; rewrite Hcu0 in E9; discriminate E9.
      * intros m0 v Hin. rewrite Hc1 in Hin. destruct Hin.
      * intros j Hin. rewrite Hc1 in Hin. destruct Hin.
      * intros [].
    + apply orb_false_iff in Eg. destruct Eg as [Em Eh]. apply negb_false_iff in Em, Eh. unfold is_main in Em. apply Nat.eqb_eq in Em. subst t.
      assert (Hh : phandle (pps s0 p0) = true) by exact Eh.
      assert (Ex : pexists (pps s0 p0) = true).
      { destruct (pexists (pps s0 p0)) eqn:Ee; [reflexivity|]. destruct (f_noex _ _ _ R p0 Ee) as [_ [_ [_ [_ [_ [Z0 _]]]]]]. rewrite Z0 in Hh. discriminate Hh. }
      assert (Mc0 : mcont s0 = []) by exact Hc.
      match goal with |- FRel FNone ?S' _ => set (st2 := S') end.
      assert (Hc2 : tcont (thr st2 main) = [ILock (MPq p0) (LPqCancelSet p0)]) by (unfold st2, s1; own).
      assert (Mc2 : mcont st2 = [ILock (MPq p0) (LPqCancelSet p0)]) by exact Hc2.
      apply (f_idle FNone s0 st2 m m1 main (CPDrop p0) R).
      * reflexivity.
      * intros u Hu. unfold st2, s1. symmetry. oth Hu.
      * unfold st2, s1. own.
      * unfold st2, s1. own.
      * intro q. unfold st2, s1. cbn. unfold updZ. destruct (Z.eqb_spec q p0) as [->|]; cbn; repeat split; auto; intro Y; discriminate Y.
      * exact M2.
      * exact M3.
      * intros u _. rewrite M4. reflexivity.
      * intros u q y Y. discriminate Y.
      * intros u q Y. discriminate Y.
      * intros q Hq. unfold dps. rewrite M1, Mc2. destruct (f_noex _ _ _ R q Hq) as [A _]. split; [exact A|reflexivity].
      * intros u W. cbn zeta. unfold dps. rewrite M1, Mc2. pose proof (f_ps _ _ _ R u W) as L. cbn zeta in L. unfold dps in L. rewrite L, Mc0.
        assert (Hu : u <> main) by (intro Y; subst u; exact (main_not_wkr s0 X W)).
        replace (thr st2 u) with (thr s0 u) by (unfold st2, s1; oth Hu). reflexivity.
      * intros _ L. exfalso. exact (NoLate L).
      * intros _ L. exfalso. exact (NoLate L).
      * intros m0 q y Hin. rewrite Hc2 in Hin. destruct Hin as [Y|[]]. discriminate Y.
      * intros q y Y. discriminate Y.
      * intros q Y _. inversion Y; subst q. left. exists (MPq p0). rewrite Hc2. left. reflexivity.
      * intros m0 q Hin. rewrite Hc2 in Hin. destruct Hin as [Y|[]]. inversion Y; subst. auto.
      * intro L. exfalso. exact (NoLate L).
      * rewrite M4. apply (f_late_nd _ _ _ R).
      * rewrite M4. intro Hin. exfalso. destruct (f_late_in _ _ _ R main Hin) as [[c9 [E9 _]] _]; pose proof (eq_trans (eq_sym E9) Hcu0) as Z9; discriminate Z9.
      * intros m0 v Hin. rewrite Hc2 in Hin. destruct Hin as [Y|[]]. discriminate Y.
      * intros j Hin. rewrite Hc2 in Hin. destruct Hin as [<-|[]].
        split; [intros m0 q [Y|Y]; discriminate Y|split; [intros m0 q Y; discriminate Y|intros m0 q y Y; discriminate Y]].
      * intros [].
  - (* CRecv *)
    destruct (Z.ltb_spec (tpipe (th s1 t)) 0) as [L|L]; inversion H; subst st2 ev0 done; clear H.
    + (* not a worker: fails at once, the monitor does not attribute the command to a pipe *)
      rewrite Tp1 in L. assert (Ow : get_tid t (m14_owner m) = None) by (rewrite Own; destruct (Z.leb_spec 0 (tpipe (thr s0 t))); [lia|reflexivity]).
      assert (Sm1 : f14_same m m1) by (unfold m1, m14r_step, m14_step; cbn; rewrite Ow; constructor; reflexivity).
      destruct Sm1 as [M1 M2 M3 M4].
      assert (NoLate : ~ is_late m1 t).
      { intro L0. unfold is_late in L0. rewrite M4 in L0. destruct (f_late_cur _ _ _ R t L0) as [c1 [E1 _]]. rewrite Hcu0 in E1. discriminate E1. }
      assert (Mc1 : mcont s1 = mcont s0).
      { unfold mcont. destruct (Nat.eq_dec main t) as [Y|Y]; [rewrite Y, Hc1, Hc; reflexivity|]. replace (thr s1 main) with (thr s0 main); [reflexivity|]. unfold s1. cbn -[Nat.eqb]. unfold updN, th. destruct (Nat.eqb_spec main t); [contradiction|reflexivity]. }
      assert (Nw : ~ wkr s0 t) by (intros [_ W]; lia).
      eapply (f_idle FNone s0 s1 m m1 t _ R);
        [reflexivity|intros u Hu; unfold s1; thr_simpl|exact Hcu1|unfold s1; thr_simpl|intro q; repeat split; auto|exact M2|exact M3|intros u _; rewrite M4; reflexivity
        |intros u q y Y; discriminate Y|intros u q Y; discriminate Y| | |intros W; exfalso; exact (Nw W)|intros W; exfalso; exact (Nw W)
        |intros m0 q y Hin; rewrite Hc1 in Hin; destruct Hin|intros q y Y; discriminate Y|intros q Y; discriminate Y|intros m0 q Hin; rewrite Hc1 in Hin; destruct Hin
        |intro L0; exfalso; exact (NoLate L0)|rewrite M4; apply (f_late_nd _ _ _ R)|rewrite M4; intro Hin; exfalso; destruct (f_late_in _ _ _ R t Hin) as [[c9 [E9 _]] _]; rewrite Hcu0 in E9; discriminate E9|intros m0 v Hin; rewrite Hc1 in Hin; destruct Hin|intros j Hin; rewrite Hc1 in Hin; destruct Hin
        |intros _; rewrite Hc1; split; [cbn; lia|cbn; intro Y; lia]].
      * intros q Hq. unfold dps. rewrite M1, Mc1. destruct (f_noex _ _ _ R q Hq) as [A [_ [_ [_ [_ [_ B]]]]]]. auto.
      * intros u W. cbn zeta. unfold dps. rewrite M1, Mc1. pose proof (f_ps _ _ _ R u W) as L1. cbn zeta in L1. unfold dps in L1. rewrite L1.
        assert (Hu : u <> t) by (intro Y; subst u; exact (Nw W)). replace (thr s1 u) with (thr s0 u) by (unfold s1; thr_simpl). reflexivity.
    + rewrite Tp1 in *. apply (f_wbegin s0 m t CRecv cs _ X E R Ht Hc Hcu0 Logic.I L); [reflexivity|intros m0 v Y; discriminate Y|].
      split; [intros m0 q [Y|Y]; inversion Y; split; [reflexivity|unfold updN; rewrite Nat.eqb_refl; reflexivity]|split; [intros m0 q Y; discriminate Y|intros m0 q y Y; discriminate Y]].
  - (* CLSend *)
    destruct (Z.ltb_spec (tpipe (th s1 t)) 0) as [L|L]; inversion H; subst st2 ev0 done; clear H.
    + (* not a worker: fails at once, the monitor does not attribute the command to a pipe *)
      rewrite Tp1 in L. assert (Ow : get_tid t (m14_owner m) = None) by (rewrite Own; destruct (Z.leb_spec 0 (tpipe (thr s0 t))); [lia|reflexivity]).
      assert (Sm1 : f14_same m m1) by (unfold m1, m14r_step, m14_step; cbn; rewrite Ow; constructor; reflexivity).
      destruct Sm1 as [M1 M2 M3 M4].
      assert (NoLate : ~ is_late m1 t).
      { intro L0. unfold is_late in L0. rewrite M4 in L0. destruct (f_late_cur _ _ _ R t L0) as [c1 [E1 _]]. rewrite Hcu0 in E1. discriminate E1. }
      assert (Mc1 : mcont s1 = mcont s0).
      { unfold mcont. destruct (Nat.eq_dec main t) as [Y|Y]; [rewrite Y, Hc1, Hc; reflexivity|]. replace (thr s1 main) with (thr s0 main); [reflexivity|]. unfold s1. cbn -[Nat.eqb]. unfold updN, th. destruct (Nat.eqb_spec main t); [contradiction|reflexivity]. }
      assert (Nw : ~ wkr s0 t) by (intros [_ W]; lia).
      eapply (f_idle FNone s0 s1 m m1 t _ R);
        [reflexivity|intros u Hu; unfold s1; thr_simpl|exact Hcu1|unfold s1; thr_simpl|intro q; repeat split; auto|exact M2|exact M3|intros u _; rewrite M4; reflexivity
        |intros u q y Y; discriminate Y|intros u q Y; discriminate Y| | |intros W; exfalso; exact (Nw W)|intros W; exfalso; exact (Nw W)
        |intros m0 q y Hin; rewrite Hc1 in Hin; destruct Hin|intros q y Y; discriminate Y|intros q Y; discriminate Y|intros m0 q Hin; rewrite Hc1 in Hin; destruct Hin
        |intro L0; exfalso; exact (NoLate L0)|rewrite M4; apply (f_late_nd _ _ _ R)|rewrite M4; intro Hin; exfalso; destruct (f_late_in _ _ _ R t Hin) as [[c9 [E9 _]] _]; rewrite Hcu0 in E9; discriminate E9|intros m0 v Hin; rewrite Hc1 in Hin; destruct Hin|intros j Hin; rewrite Hc1 in Hin; destruct Hin
        |intros _; rewrite Hc1; split; [cbn; lia|cbn; intro Y; lia]].
      * intros q Hq. unfold dps. rewrite M1, Mc1. destruct (f_noex _ _ _ R q Hq) as [A [_ [_ [_ [_ [_ B]]]]]]. auto.
      * intros u W. cbn zeta. unfold dps. rewrite M1, Mc1. pose proof (f_ps _ _ _ R u W) as L1. cbn zeta in L1. unfold dps in L1. rewrite L1.
        assert (Hu : u <> t) by (intro Y; subst u; exact (Nw W)). replace (thr s1 u) with (thr s0 u) by (unfold s1; thr_simpl). reflexivity.
    + rewrite Tp1 in *. apply (f_wbegin s0 m t (CLSend x) cs _ X E R Ht Hc Hcu0 Logic.I L); [reflexivity|intros m0 v Y; discriminate Y|].
      split; [intros m0 q [Y|Y]; discriminate Y|split; [intros m0 q Y; discriminate Y|intros m0 q y Y; inversion Y; split; [reflexivity|unfold updN; rewrite Nat.eqb_refl; reflexivity]]].
  - (* CCancel *)
    destruct (Z.ltb_spec (tpipe (th s1 t)) 0) as [L|L]; inversion H; subst st2 ev0 done; clear H.
    + (* not a worker: fails at once, the monitor does not attribute the command to a pipe *)
      rewrite Tp1 in L. assert (Ow : get_tid t (m14_owner m) = None) by (rewrite Own; destruct (Z.leb_spec 0 (tpipe (thr s0 t))); [lia|reflexivity]).
      assert (Sm1 : f14_same m m1) by (unfold m1, m14r_step, m14_step; cbn; rewrite Ow; constructor; reflexivity).
      destruct Sm1 as [M1 M2 M3 M4].
      assert (NoLate : ~ is_late m1 t).
      { intro L0. unfold is_late in L0. rewrite M4 in L0. destruct (f_late_cur _ _ _ R t L0) as [c1 [E1 _]]. rewrite Hcu0 in E1. discriminate E1. }
      assert (Mc1 : mcont s1 = mcont s0).
      { unfold mcont. destruct (Nat.eq_dec main t) as [Y|Y]; [rewrite Y, Hc1, Hc; reflexivity|]. replace (thr s1 main) with (thr s0 main); [reflexivity|]. unfold s1. cbn -[Nat.eqb]. unfold updN, th. destruct (Nat.eqb_spec main t); [contradiction|reflexivity]. }
      assert (Nw : ~ wkr s0 t) by (intros [_ W]; lia).
      eapply (f_idle FNone s0 s1 m m1 t _ R);
        [reflexivity|intros u Hu; unfold s1; thr_simpl|exact Hcu1|unfold s1; thr_simpl|intro q; repeat split; auto|exact M2|exact M3|intros u _; rewrite M4; reflexivity
        |intros u q y Y; discriminate Y|intros u q Y; discriminate Y| | |intros W; exfalso; exact (Nw W)|intros W; exfalso; exact (Nw W)
        |intros m0 q y Hin; rewrite Hc1 in Hin; destruct Hin|intros q y Y; discriminate Y|intros q Y; discriminate Y|intros m0 q Hin; rewrite Hc1 in Hin; destruct Hin
        |intro L0; exfalso; exact (NoLate L0)|rewrite M4; apply (f_late_nd _ _ _ R)|rewrite M4; intro Hin; exfalso; destruct (f_late_in _ _ _ R t Hin) as [[c9 [E9 _]] _]; rewrite Hcu0 in E9; discriminate E9|intros m0 v Hin; rewrite Hc1 in Hin; destruct Hin|intros j Hin; rewrite Hc1 in Hin; destruct Hin
        |intros _; rewrite Hc1; split; [cbn; lia|cbn; intro Y; lia]].
      * intros q Hq. unfold dps. rewrite M1, Mc1. destruct (f_noex _ _ _ R q Hq) as [A [_ [_ [_ [_ [_ B]]]]]]. auto.
      * intros u W. cbn zeta. unfold dps. rewrite M1, Mc1. pose proof (f_ps _ _ _ R u W) as L1. cbn zeta in L1. unfold dps in L1. rewrite L1.
        assert (Hu : u <> t) by (intro Y; subst u; exact (Nw W)). replace (thr s1 u) with (thr s0 u) by (unfold s1; thr_simpl). reflexivity.
    + rewrite Tp1 in *. apply (f_wbegin s0 m t CCancel cs _ X E R Ht Hc Hcu0 Logic.I L); [reflexivity|intros m0 v Y; discriminate Y|].
      split; [intros m0 q [Y|Y]; discriminate Y|split; [intros m0 q Y; inversion Y; split; [reflexivity|unfold updN; rewrite Nat.eqb_refl; reflexivity]|intros m0 q y Y; discriminate Y]].
  - (* CPanic *)
    destruct (tpipe (th s1 t) <? 0); inversion H; subst st2 ev0 done; clear H; [apply Inst; exact Logic.I|].
    unfold s1. fid s0 t R (Plain Logic.I) Hc Hcu0 (@nil instr).
Qed.

(** ** the command of [t] returns [v]: the checks of the monitor pass *)
Definition imm_ok (c : cmd) (v : retv) : Prop :=
  match c with CPSend _ _ | CPDrop _ | CRecv | CLSend _ | CCancel => v = RBad | _ => True end.

Lemma late_flag : forall m t, ~ is_late m t -> match get_tid t (m14_late m) with Some b => b | None => false end = false.
Proof. intros m t H. unfold is_late in H. destruct (get_tid t (m14_late m)) as [[|]|]; try reflexivity. exfalso. apply H. reflexivity. Qed.

Lemma late_bool : forall m t, match get_tid t (m14_late m) with Some b => b | None => false end = true -> is_late m t.
Proof. intros m t H. unfold is_late. destruct (get_tid t (m14_late m)) as [[|]|]; try discriminate H. reflexivity. Qed.

Lemma f_ret : forall p st st2 m t c v,
  ERel ENone st m -> FRel p st m -> (t < nthr st)%nat ->
  tcur (thr st t) = Some c -> tcont (thr st t) = [] -> get_tid t (b_cur (m14_b m)) = Some c ->
  ((p = FNone /\ v = tret (thr st t)) \/ (p = pendF t c (Some v) /\ imm_ok c v /\ (wcmd c -> ~ wkr st t))) ->
  nthr st2 = nthr st -> pps st2 = pps st -> (forall u, u <> t -> thr st2 u = thr st u) ->
  tcont (thr st2 t) = [] -> tpipe (thr st2 t) = tpipe (thr st t) -> tcur (thr st2 t) = None ->
  FRel FNone st2 (m14r_step m (t, ERet v)) /\ m14_bad (m14_step m (t, ERet v)) = m14_bad m.
Proof.
  intros p st st2 m t c v E R Ht Hcu Hc Hg Hp Hn Epp Ho Hc2 Htp2 Hcu2.
  set (m' := m14r_step m (t, ERet v)).
  assert (Tp : forall u, tpipe (thr st2 u) = tpipe (thr st u)) by (intro u; destruct (Nat.eq_dec u t) as [->|Y]; [exact Htp2|rewrite Ho; auto]).
  assert (Wk : forall u, wkr st2 u <-> wkr st u) by (intro u; unfold wkr; rewrite Hn, Tp; tauto).
  assert (Co : forall u, tcont (thr st2 u) = tcont (thr st u)) by (intro u; destruct (Nat.eq_dec u t) as [->|Y]; [rewrite Hc, Hc2; reflexivity|rewrite Ho; auto]).
  assert (Mc : mcont st2 = mcont st) by (unfold mcont; apply Co).
  assert (Pd : (p = FNone) \/ (exists q x, c = CPSend q x /\ p = FSendBad t q x /\ v = RBad) \/ (exists q, c = CPDrop q /\ p = FDropBad t q /\ v = RBad)).
  { destruct Hp as [[-> _]|[-> [Io _]]]; [left; reflexivity|]. unfold pendF. destruct c; try (left; reflexivity); cbn in Io; subst v; right; [left|right]; eauto. }
  assert (Lrm : forall u, get_tid u (rm_tid t (m14_late m)) = if Nat.eqb u t then None else get_tid u (m14_late m)).
  { intro u. destruct (Nat.eqb_spec u t) as [->|Y]; [apply get_tid_rm_same; apply (f_late_nd _ _ _ R)|apply get_tid_rm_other; exact Y]. }
  pose proof (owner_of st m t E Ht) as Own.
  assert (Ow : forall q, get_tid t (m14_owner m) = Some q -> wkr st t /\ tpipe (thr st t) = q).
  { intros q Y. rewrite Own in Y. destruct (Z.leb_spec 0 (tpipe (thr st t))); [inversion Y; split; [split; auto|reflexivity]|discriminate Y]. }
  (* a worker command of a worker returns the stored value *)
  assert (Vw : wkr st t -> wcmd c -> p = FNone /\ v = tret (thr st t)).
  { intros W Wc. destruct Hp as [[A B]|[_ [_ Z0]]]; [auto|exfalso; exact (Z0 Wc W)]. }
  assert (Late_w : is_late m t \/ In t (map fst (m14_late m)) -> wkr st t).
  { intros [L|L]; [|apply (f_late_in _ _ _ R t L)]. apply (f_late_in _ _ _ R t).
    destruct (in_dec Nat.eq_dec t (map fst (m14_late m))) as [Y|Y]; [exact Y|]. apply get_tid_none in Y. unfold is_late in L. rewrite Y in L. discriminate L. }
  assert (Abs : get_tid t (m14_owner m) = None -> rm_tid t (m14_late m) = m14_late m).
  { intro Eo. apply rm_tid_absent. destruct (get_tid t (m14_late m)) eqn:G; [|reflexivity]. exfalso.
    assert (Hin : In t (map fst (m14_late m))) by (destruct (in_dec Nat.eq_dec t (map fst (m14_late m))) as [Y|Y]; [exact Y|apply get_tid_none in Y; rewrite Y in G; discriminate G]).
    destruct (Late_w (or_intror Hin)) as [_ W2]. rewrite Own in Eo. destruct (Z.leb_spec 0 (tpipe (thr st t))); [discriminate Eo|lia]. }
  assert (A1 : m14_late m' = rm_tid t (m14_late m)).
  { unfold m', m14r_step, m14_step. cbn. rewrite Hg. destruct c; try reflexivity; destruct v; try reflexivity;
      destruct (get_tid t (m14_owner m)) eqn:Eo; try reflexivity; cbn; symmetry; apply Abs; reflexivity. }
  assert (A2 : m14_psend m' = dps p m).
  { unfold m', m14r_step, m14_step. cbn. rewrite Hg.
    destruct Pd as [->|[[q [x [-> [-> ->]]]]|[q [-> [-> ->]]]]]; cbn [dps]; try reflexivity.
    destruct c as [w|w|c0 x0|c0|w|n| | | | | |c0|c0|p0|p0 x0|p0| |x| | ]; try (destruct v; try reflexivity; destruct (get_tid t (m14_owner m)); reflexivity).
    destruct Hp as [[_ Y]|[Y _]]; [|discriminate Y]. rewrite Y, (f_sendret _ _ _ R t p0 x0 Hcu). reflexivity. }
  assert (A3 : (exists q, c = CPDrop q /\ v = RUnit /\ p = FNone /\ m14_dropped m' = q :: m14_dropped m) \/ m14_dropped m' = m14_dropped m).
  { unfold m', m14r_step, m14_step. cbn. rewrite Hg. destruct c as [w|w|c0 x0|c0|w|n| | | | | |c0|c0|p0|p0 x0|p0| |x| | ]; try (right; destruct v; try reflexivity; destruct (get_tid t (m14_owner m)); reflexivity).
    destruct v; try (right; reflexivity). left. exists p0. repeat split; try reflexivity.
    destruct Pd as [Y|[[q [x [Y _]]]|[q [_ [_ Y]]]]]; [exact Y|discriminate Y|discriminate Y]. }
  assert (A4 : (exists x q, c = CRecv /\ v = RVal x /\ get_tid t (m14_owner m) = Some q /\ m14_recvd m' = m14_recvd m ++ [(q, x)]) \/
               (m14_recvd m' = m14_recvd m /\ ~ (exists x q, c = CRecv /\ v = RVal x /\ get_tid t (m14_owner m) = Some q))).
  { unfold m', m14r_step, m14_step. cbn. rewrite Hg. destruct c; try (right; split; [destruct v; try reflexivity; destruct (get_tid t (m14_owner m)); reflexivity|intros [x [q [Y _]]]; discriminate Y]).
    destruct v as [| | |bb|z|]; try (right; split; [reflexivity|intros [x [q [_ [Y _]]]]; discriminate Y]).
    destruct (get_tid t (m14_owner m)) as [q|] eqn:Eo; [left; exists z, q; auto|right; split; [reflexivity|intros [x [q [_ [_ Y]]]]; discriminate Y]]. }
  assert (Rv : forall x q, c = CRecv -> v = RVal x -> get_tid t (m14_owner m) = Some q -> p = FNone /\ tret (thr st t) = RVal x /\ wkr st t /\ tpipe (thr st t) = q).
  { intros x q Ec Ev Eo. destruct (Ow q Eo) as [W Eq]. subst c. destruct (Vw W Logic.I) as [Y1 Y2]. rewrite <- Y2, Ev. auto. }
  split.
  - constructor.
    + intros u q x Y. discriminate Y.
    + intros u q Y. discriminate Y.
    + intros q. rewrite Epp, Mc. intro Hq. cbn [dps]. rewrite A2. destruct (f_noex _ _ _ R q Hq) as [E1 [E2 [E3 [E4 [E5 [E6 E7]]]]]].
      split; [exact E1|]. split; [|split; [exact E3|split; [exact E4|split; [|split; [exact E6|exact E7]]]]].
      * destruct A4 as [[x [q0 [Ec [Ev [Eo Er]]]]]|[Er _]]; rewrite Er; [|exact E2]. destruct (Rv x q0 Ec Ev Eo) as [_ [_ [W Eq]]].
        rewrite on_pipe_last, E2. destruct (Z.eqb_spec q0 q) as [->|]; [|reflexivity]. rewrite <- Eq, (e_wex _ _ _ E t W) in Hq. discriminate Hq.
      * destruct A3 as [[q0 [Ec [Ev [Ep Ed]]]]|Ed]; rewrite Ed; [|exact E5]. subst c p.
        destruct (f_dropcmd _ _ _ R t q0 Hcu ltac:(discriminate)) as [[m0 Y]|Y]; [rewrite Hc in Y; destruct Y|].
        rewrite memZ_cons_other; [exact E5|]. intro Y0. subst q0. rewrite E4 in Y. discriminate Y.
    + intros q. rewrite Epp. destruct A3 as [[q0 [Ec [Ev [Ep Ed]]]]|Ed]; rewrite Ed; [|apply (f_drop _ _ _ R)]. subst c p.
      intro Y. unfold memZ in Y. cbn in Y. apply orb_true_iff in Y. destruct Y as [Y|Y]; [|apply (f_drop _ _ _ R q Y)].
      apply Z.eqb_eq in Y. subst q0. destruct (f_dropcmd _ _ _ R t q Hcu ltac:(discriminate)) as [[m0 Y]|Y]; [rewrite Hc in Y; destruct Y|exact Y].
    + intros u W L. apply Wk in W. unfold is_late in L. rewrite A1, Lrm in L. destruct (Nat.eq_dec u t) as [Y|Hu]; [rewrite Y, Nat.eqb_refl in L; discriminate L|].
      destruct (Nat.eqb_spec u t) as [Y|_]; [contradiction|]. rewrite Epp, Tp. apply (f_late _ _ _ R u W L).
    + intros u c0 W L Hq. apply Wk in W. unfold is_late in L. rewrite A1, Lrm in L. destruct (Nat.eq_dec u t) as [Y|Hu]; [rewrite Y, Nat.eqb_refl in L; discriminate L|].
      destruct (Nat.eqb_spec u t) as [Y|_]; [contradiction|]. rewrite (Ho u Hu) in *. apply (f_ok _ _ _ R u c0 W L Hq).
    + intros u W. cbn zeta. apply Wk in W. rewrite Tp, Epp, Mc. cbn [dps]. rewrite A2. pose proof (f_ps _ _ _ R u W) as L. cbn zeta in L.
      destruct (Nat.eq_dec u t) as [->|Hu].
      * assert (Rt2 : rtransit (thr st2 t) = []) by (unfold rtransit; rewrite Hc2, Hcu2; reflexivity). rewrite Rt2. cbn [app].
        destruct A4 as [[x [q0 [Ec [Ev [Eo Er]]]]]|[Er Nr]]; rewrite Er.
        -- destruct (Rv x q0 Ec Ev Eo) as [_ [Etr [_ Eq]]]. rewrite L, on_pipe_last, Eq, Z.eqb_refl. unfold rtransit. rewrite Hc, Hcu, Ec, Etr. cbn [rvals flat_map app].
           rewrite <- !app_assoc. reflexivity.
        -- rewrite L. unfold rtransit. rewrite Hc, Hcu. cbn [rvals flat_map app].
           assert (Z0 : match c with CRecv => match tret (thr st t) with RVal z => [z] | _ => [] end | _ => @nil Z end = []).
           { destruct c; try reflexivity. destruct (tret (thr st t)) as [| | |bb|z|] eqn:Etr; try reflexivity. exfalso. apply Nr.
             destruct (Vw W Logic.I) as [_ Y]. exists z, (tpipe (thr st t)). split; [reflexivity|]. split; [rewrite Y; reflexivity|].
             rewrite Own. destruct W as [_ W2]. destruct (Z.leb_spec 0 (tpipe (thr st t))); [reflexivity|lia]. }
           rewrite Z0. reflexivity.
      * rewrite (Ho u Hu). destruct A4 as [[x [q0 [Ec [Ev [Eo Er]]]]]|[Er _]]; rewrite Er; [|exact L].
        destruct (Rv x q0 Ec Ev Eo) as [_ [_ [Wt Eq]]]. rewrite on_pipe_last. destruct (Z.eqb_spec q0 (tpipe (thr st u))) as [Y|Y]; [|rewrite app_nil_r; exact L].
        exfalso. apply Hu. apply (e_wuniq _ _ _ E u t W Wt). rewrite Eq. auto.
    + intros u m0 q x Hin. destruct (Nat.eq_dec u t) as [->|Hu]; [rewrite Hc2 in Hin; destruct Hin|]. rewrite (Ho u Hu) in *. apply (f_own_send _ _ _ R u m0 q x Hin).
    + intros u q x Hq. destruct (Nat.eq_dec u t) as [->|Hu]; [rewrite Hcu2 in Hq; discriminate Hq|]. rewrite (Ho u Hu) in *. apply (f_sendret _ _ _ R u q x Hq).
    + intros u q Hq _. rewrite Epp. destruct (Nat.eq_dec u t) as [->|Hu]; [rewrite Hcu2 in Hq; discriminate Hq|]. rewrite (Ho u Hu) in *.
      apply (f_dropcmd _ _ _ R u q Hq). intro Y. destruct (f_pdrop _ _ _ R u q Y) as [Z1 Z2].
      destruct Pd as [Y0|[[q0 [x0 [_ [Y0 _]]]]|[q0 [_ [Y0 _]]]]]; rewrite Y0 in Y; try discriminate Y. inversion Y. exact (Hu (eq_sym H0)).
    + intros u m0 q Hin. rewrite Epp. destruct (Nat.eq_dec u t) as [->|Hu]; [rewrite Hc2 in Hin; destruct Hin|]. rewrite (Ho u Hu) in *. apply (f_own_cs _ _ _ R u m0 q Hin).
    + intros u L. unfold is_late in L. rewrite A1, Lrm in L. destruct (Nat.eq_dec u t) as [Y|Hu]; [rewrite Y, Nat.eqb_refl in L; discriminate L|].
      destruct (Nat.eqb_spec u t) as [Y|_]; [contradiction|]. rewrite (Ho u Hu). apply (f_late_cur _ _ _ R u L).
    + intros u Hin. rewrite A1 in Hin. destruct (Nat.eq_dec u t) as [->|Hu].
      * exfalso. pose proof (Lrm t) as Y. rewrite Nat.eqb_refl in Y. apply get_tid_none in Y. exact (Y Hin).
      * rewrite (Ho u Hu). destruct (f_late_in _ _ _ R u (rm_tid_incl _ t _ _ Hin)) as [Z1 Z2]. split; [exact Z1|apply Wk; exact Z2].
    + rewrite A1. apply rm_tid_nd. apply (f_late_nd _ _ _ R).
    + intros u m0 v0 Hin. destruct (Nat.eq_dec u t) as [->|Hu]; [rewrite Hc2 in Hin; destruct Hin|]. rewrite (Ho u Hu) in *.
      destruct (f_own_ret _ _ _ R u m0 v0 Hin) as [A B]. split; [exact A|]. intros z Ez. destruct (B z Ez) as [B1 B2]. split; [exact B1|apply Wk; exact B2].
    + intros u j Hin. destruct (Nat.eq_dec u t) as [->|Hu]; [rewrite Hc2 in Hin; destruct Hin|]. rewrite (Ho u Hu) in *.
      destruct (f_own_pr _ _ _ R u j Hin) as [A [B C]].
      split; [intros m0 q Y; destruct (A m0 q Y) as [A1' A2']; split; [apply Wk; exact A1'|exact A2']|split;
        [intros m0 q Y; destruct (B m0 q Y) as [B1 B2]; split; [apply Wk; exact B1|exact B2]|intros m0 q x Y; destruct (C m0 q x Y) as [C1 C2]; split; [apply Wk; exact C1|exact C2]]].
    + intros u c0 Hq Wc. destruct (Nat.eq_dec u t) as [->|Hu]; [rewrite Hcu2 in Hq; discriminate Hq|]. rewrite (Ho u Hu) in *. apply (f_pr _ _ _ R u c0 Hq Wc).
  - (* the flag *)
    unfold m14_step. cbn. rewrite Hg.
    assert (Lf : forall W : wkr st t, wcmd c -> is_late m t -> okret c v).
    { intros W Wc L. destruct (Vw W Wc) as [_ ->]. apply (f_ok _ _ _ R t c W L Hcu). }
    destruct c; try (destruct v; try reflexivity; destruct (get_tid t (m14_owner m)); reflexivity).
    + (* CRecv *)
      destruct v as [| | |bb|z|]; try reflexivity. destruct (get_tid t (m14_owner m)) as [q|] eqn:Eo; [|reflexivity]. cbn.
      destruct (Rv z q eq_refl eq_refl eq_refl) as [Ep [Etr [W Eq]]]. subst p.
      assert (Nl : ~ is_late m t) by (intro L; exact (Lf W Logic.I L)).
      rewrite (late_flag m t Nl), orb_false_r.
      pose proof (f_ps _ _ _ R t W) as L. cbn zeta in L. cbn [dps] in L. rewrite Eq in L.
      rewrite on_pipe_last, Z.eqb_refl, L. unfold rtransit. rewrite Hc, Hcu, Etr. cbn [rvals flat_map app].
      replace (on_pipe q (m14_recvd m) ++ z :: psendq (pps st q) ++ spend q (mcont st)) with ((on_pipe q (m14_recvd m) ++ [z]) ++ psendq (pps st q) ++ spend q (mcont st)) by (rewrite <- app_assoc; reflexivity).
      rewrite prefixZ_app. cbn. apply orb_false_r.
    + (* CLSend *)
      destruct v; try reflexivity. destruct (get_tid t (m14_owner m)) as [q|] eqn:Eo; [|reflexivity]. cbn.
      destruct (Ow q eq_refl) as [W _].
      destruct (match get_tid t (m14_late m) with Some b0 => b0 | None => false end) eqn:El; [|rewrite orb_false_r; reflexivity].
      apply late_bool in El. pose proof (Lf W Logic.I El) as Ok. destruct b; [destruct Ok|rewrite orb_false_r; reflexivity].
    + (* CCancel *)
      destruct v; try reflexivity. cbn.
      destruct (match get_tid t (m14_late m) with Some b0 => b0 | None => false end) eqn:El; [|rewrite orb_false_r; reflexivity].
      apply late_bool in El. pose proof (Late_w (or_introl El)) as W. pose proof (Lf W Logic.I El) as Ok. destruct b; [rewrite orb_false_r; reflexivity|destruct Ok].
Qed.

(** the exit sequence of a piped worker becomes its continuation *)
Lemma f_final : forall st m t,
  FRel FNone st m -> t <> main -> tcont (thr st t) = [] -> tcur (thr st t) = None -> (forall j, In j (tfinal (thr st t)) -> finok j) ->
  FRel FNone (upd_th st t (set_tfinal (set_tcont (th st t) (tfinal (th st t))) [])) m.
Proof.
  intros st m t R Nm Hc Hcu Hfin.
  set (st' := upd_th st t (set_tfinal (set_tcont (th st t) (tfinal (th st t))) [])).
  assert (Ho : forall u, u <> t -> thr st' u = thr st u) by (intros u Hu; unfold st'; thr_simpl).
  assert (Hc' : tcont (thr st' t) = tfinal (thr st t)) by (unfold st'; thr_simpl).
  assert (Cu : forall u, tcur (thr st' u) = tcur (thr st u)) by (intro u; unfold st'; thr_simpl).
  assert (Tp : forall u, tpipe (thr st' u) = tpipe (thr st u)) by (intro u; unfold st'; thr_simpl).
  assert (Tr : forall u, tret (thr st' u) = tret (thr st u)) by (intro u; unfold st'; thr_simpl).
  assert (Wk : forall u, wkr st' u <-> wkr st u) by (intro u; unfold wkr; rewrite Tp; tauto).
  assert (Mc : mcont st' = mcont st) by (unfold mcont; rewrite Ho; auto).
  assert (Fq : forall j, In j (tcont (thr st' t)) -> fq j).
  { intros j Hj. rewrite Hc' in Hj. apply Hfin in Hj. destruct j; cbn in Hj; try contradiction. destruct a; cbn in Hj; try contradiction; exact Logic.I. }
  destruct (fq_list _ Fq) as [Cn [Sn Vn]].
  assert (Tcu : tcur (thr st' t) = None) by (rewrite Cu; exact Hcu).
  constructor.
  - intros u q x Y. discriminate Y.
  - intros u q Y. discriminate Y.
  - rewrite Mc. apply (f_noex _ _ _ R).
  - apply (f_drop _ _ _ R).
  - intros u W. rewrite Tp. apply Wk in W. apply (f_late _ _ _ R u W).
  - intros u c W L Hq. apply Wk in W. destruct (Nat.eq_dec u t) as [->|Hu]; [rewrite Tcu in Hq; discriminate Hq|]. rewrite (Ho u Hu) in *. apply (f_ok _ _ _ R u c W L Hq).
  - intros u W. cbn zeta. rewrite Tp, Mc. apply Wk in W. pose proof (f_ps _ _ _ R u W) as L. cbn zeta in L. rewrite L.
    destruct (Nat.eq_dec u t) as [->|Hu]; [|rewrite (Ho u Hu); reflexivity]. unfold rtransit. rewrite Vn, Tcu, Hc, Hcu. reflexivity.
  - intros u m0 q x Hin. destruct (Nat.eq_dec u t) as [->|Hu]; [exfalso; exact (proj1 (proj2 (proj2 (proj2 (fq_facts _ (Fq _ Hin))))) m0 q x eq_refl)|]. rewrite (Ho u Hu) in *. apply (f_own_send _ _ _ R u m0 q x Hin).
  - intros u q x. rewrite Cu, Tr. apply (f_sendret _ _ _ R).
  - intros u q Hq Np. destruct (Nat.eq_dec u t) as [->|Hu]; [rewrite Tcu in Hq; discriminate Hq|]. rewrite (Ho u Hu) in *. apply (f_dropcmd _ _ _ R u q Hq Np).
  - intros u m0 q Hin. destruct (Nat.eq_dec u t) as [->|Hu]; [exfalso; exact (proj1 (proj2 (proj2 (proj2 (proj2 (fq_facts _ (Fq _ Hin)))))) m0 q eq_refl)|]. rewrite (Ho u Hu) in *. apply (f_own_cs _ _ _ R u m0 q Hin).
  - intros u. rewrite Cu. apply (f_late_cur _ _ _ R).
  - intros u Hin. destruct (f_late_in _ _ _ R u Hin) as [[c0 [A1 A2]] B]. split; [exists c0; rewrite Cu; auto|apply Wk; exact B].
  - apply (f_late_nd _ _ _ R).
  - intros u m0 v Hin. destruct (Nat.eq_dec u t) as [->|Hu]; [exfalso; exact (proj1 (proj2 (proj2 (proj2 (proj2 (proj2 (fq_facts _ (Fq _ Hin))))))) m0 v eq_refl)|]. rewrite (Ho u Hu) in *.
    destruct (f_own_ret _ _ _ R u m0 v Hin) as [A B]. split; [exact A|]. intros z Ez. destruct (B z Ez) as [B1 B2]. split; [exact B1|apply Wk; exact B2].
  - intros u j Hin. destruct (Nat.eq_dec u t) as [->|Hu].
    + destruct (fq_facts _ (Fq _ Hin)) as [_ [_ [_ [_ [_ [_ [Z1 [Z2 [Z3 Z4]]]]]]]]].
      split; [intros m0 q [Y|Y]; exfalso; [exact (Z1 m0 q Y)|exact (Z2 q Y)]|split; [intros m0 q Y; exfalso; exact (Z3 m0 q Y)|intros m0 q x Y; exfalso; exact (Z4 m0 q x Y)]].
    + rewrite (Ho u Hu) in *. destruct (f_own_pr _ _ _ R u j Hin) as [A [B C]].
      split; [intros m0 q Y; destruct (A m0 q Y) as [A1 A2]; split; [apply Wk; exact A1|exact A2]|split;
        [intros m0 q Y; destruct (B m0 q Y) as [B1 B2]; split; [apply Wk; exact B1|exact B2]|intros m0 q x Y; destruct (C m0 q x Y) as [C1 C2]; split; [apply Wk; exact C1|exact C2]]].
  - intros u c Hq Wc. destruct (Nat.eq_dec u t) as [->|Hu]; [rewrite Tcu in Hq; discriminate Hq|]. rewrite (Ho u Hu) in *. apply (f_pr _ _ _ R u c Hq Wc).
Qed.

(** ** the real monitor step and the step of the replies half coincide where the flag is not raised *)
Lemma step_bad_nonret : forall m t e, (forall v, e <> ERet v) -> is_reply e = false -> m14_bad (m14_step m (t, e)) = m14_bad m.
Proof.
  intros m t e Nr Ni. unfold m14_step. destruct e; try reflexivity; try discriminate Ni.
  - destruct c; try reflexivity; destruct (get_tid t (m14_owner m)); reflexivity.
  - exfalso. eapply Nr. reflexivity.
  - destruct (get_tid t (m14_owner m)); reflexivity.
Qed.
Lemma r_eq_step : forall m t e, (is_reply e = false -> m14_bad (m14_step m (t, e)) = m14_bad m) -> m14r_step m (t, e) = m14_step m (t, e).
Proof.
  intros m t e H. unfold m14r_step. cbn [snd]. destruct (is_reply e) eqn:Ei; [reflexivity|]. rewrite <- (H eq_refl). apply setbad_id.
Qed.
Lemma r_eq_fold : forall t ev m, (forall e, In e ev -> forall v, e <> ERet v) -> fold_left m14r_step (evs t ev) m = fold_left m14_step (evs t ev) m.
Proof.
  induction ev as [|e ev IH]; intros m H; [reflexivity|]. cbn [evs map fold_left]. fold (evs t ev).
  rewrite r_eq_step by (intro Ni; apply step_bad_nonret; [apply H; left; reflexivity|exact Ni]). apply IH. intros; apply H; right; assumption.
Qed.


(** the return of a command this half does not look at *)
Lemma f_ret_np : forall st st2 m t c v,
  FRel FNone st m -> tcur (thr st t) = Some c -> tcont (thr st t) = [] -> get_tid t (b_cur (m14_b m)) = Some c -> npcmd c ->
  nthr st2 = nthr st -> pps st2 = pps st -> (forall u, u <> t -> thr st2 u = thr st u) ->
  tcont (thr st2 t) = [] -> tpipe (thr st2 t) = tpipe (thr st t) -> tcur (thr st2 t) = None ->
  FRel FNone st2 (m14r_step m (t, ERet v)) /\ m14_bad (m14_step m (t, ERet v)) = m14_bad m.
Proof.
  intros st st2 m t c v R Hcu Hc Hg Nc Hn Epp Ho Hc2 Htp2 Hcu2.
  set (m' := m14r_step m (t, ERet v)).
  assert (Tp : forall u, tpipe (thr st2 u) = tpipe (thr st u)) by (intro u; destruct (Nat.eq_dec u t) as [->|Y]; [exact Htp2|rewrite Ho; auto]).
  assert (Wk : forall u, wkr st2 u <-> wkr st u) by (intro u; unfold wkr; rewrite Hn, Tp; tauto).
  assert (Co : forall u, tcont (thr st2 u) = tcont (thr st u)) by (intro u; destruct (Nat.eq_dec u t) as [->|Y]; [rewrite Hc, Hc2; reflexivity|rewrite Ho; auto]).
  assert (Mc : mcont st2 = mcont st) by (unfold mcont; apply Co).
  assert (NotIn : ~ In t (map fst (m14_late m))).
  { intro Hin. destruct (f_late_in _ _ _ R t Hin) as [[c1 [E1 W1]] _]. rewrite Hcu in E1. inversion E1; subst c1. destruct c; try destruct W1; destruct Nc. }
  assert (Mf : m14_psend m' = m14_psend m /\ m14_recvd m' = m14_recvd m /\ m14_dropped m' = m14_dropped m /\ m14_late m' = m14_late m /\
               m14_bad (m14_step m (t, ERet v)) = m14_bad m).
  { assert (Ab : rm_tid t (m14_late m) = m14_late m) by (apply rm_tid_absent; apply get_tid_none; exact NotIn).
    unfold m', m14r_step, m14_step. cbn. rewrite Hg, Ab. destruct c; try destruct Nc; destruct v; repeat split; reflexivity. }
  destruct Mf as [M1 [M2 [M3 [M4 M5]]]]. split; [|exact M5].
  assert (Sm : f14_same m m') by (constructor; assumption).
  apply (f_msame _ _ m); [|exact Sm].
  assert (Rt : forall u, rtransit (thr st2 u) = rtransit (thr st u)).
  { intro u. destruct (Nat.eq_dec u t) as [->|Hu]; [|rewrite (Ho u Hu); reflexivity]. unfold rtransit. rewrite Hc2, Hc, Hcu2, Hcu. destruct c; try reflexivity. destruct Nc. }
  constructor.
  - intros u q x Y. discriminate Y.
  - intros u q Y. discriminate Y.
  - rewrite Epp, Mc. apply (f_noex _ _ _ R).
  - rewrite Epp. apply (f_drop _ _ _ R).
  - intros u W. rewrite Epp, Tp. apply Wk in W. apply (f_late _ _ _ R u W).
  - intros u c0 W L Hq. apply Wk in W. destruct (Nat.eq_dec u t) as [->|Hu]; [rewrite Hcu2 in Hq; discriminate Hq|]. rewrite (Ho u Hu) in *. apply (f_ok _ _ _ R u c0 W L Hq).
  - intros u W. cbn zeta. rewrite Tp, Rt, Epp, Mc. apply Wk in W. apply (f_ps _ _ _ R u W).
  - intros u m0 q x Hin. destruct (Nat.eq_dec u t) as [->|Hu]; [rewrite Hc2 in Hin; destruct Hin|]. rewrite (Ho u Hu) in *. apply (f_own_send _ _ _ R u m0 q x Hin).
  - intros u q x Hq. destruct (Nat.eq_dec u t) as [->|Hu]; [rewrite Hcu2 in Hq; discriminate Hq|]. rewrite (Ho u Hu) in *. apply (f_sendret _ _ _ R u q x Hq).
  - intros u q Hq Np. rewrite Epp. destruct (Nat.eq_dec u t) as [->|Hu]; [rewrite Hcu2 in Hq; discriminate Hq|]. rewrite (Ho u Hu) in *. apply (f_dropcmd _ _ _ R u q Hq Np).
  - intros u m0 q Hin. rewrite Epp. destruct (Nat.eq_dec u t) as [->|Hu]; [rewrite Hc2 in Hin; destruct Hin|]. rewrite (Ho u Hu) in *. apply (f_own_cs _ _ _ R u m0 q Hin).
  - intros u L. destruct (Nat.eq_dec u t) as [->|Hu]; [|rewrite (Ho u Hu); apply (f_late_cur _ _ _ R u L)].
    exfalso. apply NotIn. destruct (in_dec Nat.eq_dec t (map fst (m14_late m))) as [Y|Y]; [exact Y|]. apply get_tid_none in Y. unfold is_late in L. rewrite Y in L. discriminate L.
  - intros u Hin. destruct (Nat.eq_dec u t) as [->|Hu]; [exfalso; exact (NotIn Hin)|]. rewrite (Ho u Hu). destruct (f_late_in _ _ _ R u Hin) as [A B]. split; [exact A|apply Wk; exact B].
  - apply (f_late_nd _ _ _ R).
  - intros u m0 v0 Hin. destruct (Nat.eq_dec u t) as [->|Hu]; [rewrite Hc2 in Hin; destruct Hin|]. rewrite (Ho u Hu) in *.
    destruct (f_own_ret _ _ _ R u m0 v0 Hin) as [A B]. split; [exact A|]. intros z Ez. destruct (B z Ez) as [B1 B2]. split; [exact B1|apply Wk; exact B2].
  - intros u j Hin. destruct (Nat.eq_dec u t) as [->|Hu]; [rewrite Hc2 in Hin; destruct Hin|]. rewrite (Ho u Hu) in *.
    destruct (f_own_pr _ _ _ R u j Hin) as [A [B C]].
    split; [intros m0 q Y; destruct (A m0 q Y) as [A1' A2']; split; [apply Wk; exact A1'|exact A2']|split;
      [intros m0 q Y; destruct (B m0 q Y) as [B1 B2]; split; [apply Wk; exact B1|exact B2]|intros m0 q x Y; destruct (C m0 q x Y) as [C1 C2]; split; [apply Wk; exact C1|exact C2]]].
  - intros u c0 Hq Wc. destruct (Nat.eq_dec u t) as [->|Hu]; [rewrite Hcu2 in Hq; discriminate Hq|]. rewrite (Ho u Hu) in *. apply (f_pr _ _ _ R u c0 Hq Wc).
Qed.

Lemma npcmd_dec : forall c, npcmd c \/ ~ npcmd c.
Proof. intro c. destruct c; try (left; exact Logic.I); right; intros []. Qed.

Lemma settle_EF : forall st m t ev done st' ev' pe pf,
  CInv (core st) -> SlInv st -> XInv st -> ERel pe st m -> FRel pf st m -> BRel st (m14_b m) -> (t < nthr st)%nat ->
  (forall j, In j (tfinal (thr st t)) -> finok j) -> (t = main -> tfinal (thr st t) = []) ->
  (done = None -> pe = ENone /\ pf = FNone /\ forall c, tcur (thr st t) = Some c -> nsp c) ->
  (forall v, done = Some v -> tcont (thr st t) = [] /\ exists c, tcur (thr st t) = Some c /\ pe = pendE t c (Some v) /\ pf = pendF t c (Some v) /\
                              imm_ok c v /\ (wcmd c -> ~ wkr st t)) ->
  settle st t ev done = (st', ev') ->
  exists tail, ev' = ev ++ tail /\ ERel ENone st' (fold_left m14r_step (evs t tail) m) /\ FRel FNone st' (fold_left m14r_step (evs t tail) m) /\
               fold_left m14_step (evs t tail) m = fold_left m14r_step (evs t tail) m.
Proof.
  intros st m t ev done st' ev' pe pf I S X RE RF B Ht Hfin Hfm HdN HdS H. unfold settle in H.
  destruct (norm (2 * (cont_size (tcont (th st t)) + length (tacc (th st t))) + 2) (sl st) (tacc (th st t)) (tcont (th st t)) ev)
    as [[[s1 acc1] k1] ev1] eqn:En.
  cbn zeta in H.
  destruct (norm_dels _ _ _ _ _ _ _ _ _ En) as [dels [Edels Hdels]].
  assert (Pd : forall e, In e dels -> c14_plain e) by (intros e He; destruct (Hdels e He) as [x [h ->]]; exact Logic.I).
  assert (Pdf : forall e, In e dels -> f14_plain e) by (intros e He; destruct (Hdels e He) as [x [h ->]]; exact Logic.I).
  assert (Pd' : forall e, In e dels -> plain e) by (intros e He; destruct (Hdels e He) as [x [h ->]]; exact Logic.I).
  assert (Pdn : forall e, In e dels -> forall v, e <> ERet v) by (intros e He v; destruct (Hdels e He) as [x [h ->]]; discriminate).
  set (m1 := fold_left m14r_step (evs t dels) m).
  assert (Sm : r14_same m m1) by (apply m14r_plain_fold; exact Pd).
  assert (Smf : f14_same m m1) by (apply m14r_fplain_fold; exact Pdf).
  assert (Eq1 : fold_left m14_step (evs t dels) m = m1) by (symmetry; apply r_eq_fold; exact Pdn).
  assert (Gt1 : get_tid t (b_cur (m14_b m1)) = tcur (thr st t)).
  { unfold m1. rewrite m14r_b_fold. destruct (mb_fold_plain t dels (m14_b m) Pd') as [A1 _]. cbn zeta in A1. rewrite A1.
    apply (br_cur st _ B t Ht). }
  set (st1 := set_sl (upd_th st t (set_tacc (set_tcont (th st t) k1) acc1)) s1) in *.
  assert (T1 : tcont (thr st1 t) = k1) by (unfold st1; cbn -[Nat.eqb]; unfold updN, th; rewrite Nat.eqb_refl; reflexivity).
  assert (Th1 : forall u, tcur (thr st1 u) = tcur (thr st u) /\ tret (thr st1 u) = tret (thr st u) /\ tfinal (thr st1 u) = tfinal (thr st u) /\ tpipe (thr st1 u) = tpipe (thr st u)).
  { intro u. unfold st1. cbn -[Nat.eqb]. unfold updN, th. destruct (Nat.eqb_spec u t) as [E|E]; [rewrite E|]; auto. }
  assert (To1 : forall u, u <> t -> tcont (thr st1 u) = tcont (thr st u)).
  { intros u Hu. unfold st1. cbn -[Nat.eqb]. unfold updN, th. destruct (Nat.eqb_spec u t); [contradiction|reflexivity]. }
  assert (N1 : nthr st1 = nthr st) by reflexivity.
  assert (Steq : s1 = sl st -> k1 = tcont (thr st t) -> ERel pe st1 m1 /\ FRel pf st1 m1).
  { intros E1 E2. split.
    - apply (e_msame _ _ m); [|exact Sm]. apply (e_steq _ st); auto; try (unfold st1; cbn; congruence).
      intro u. destruct (Th1 u) as [A [_ [C D]]]. split; [|auto]. destruct (Nat.eq_dec u t) as [->|Hu]; [rewrite T1; exact E2|apply To1; exact Hu].
    - apply (f_msame _ _ m); [|exact Smf]. apply (f_steq _ st); auto.
      intro u. destruct (Th1 u) as [A [B0 [C D]]]. split; [|auto]. destruct (Nat.eq_dec u t) as [->|Hu]; [rewrite T1; exact E2|apply To1; exact Hu]. }
  assert (R1 : ERel pe st1 m1 /\ FRel pf st1 m1).
  { destruct (tcont (thr st t)) as [|i0 r0] eqn:Ek.
    - unfold th in En. rewrite Ek, norm_nil in En. injection En as E1 _ E3 _. apply Steq; auto.
    - destruct (Nat.eq_dec t main) as [->|Hn].
      + change st1 with (NS st s1 acc1 k1). clear H Steq T1 Th1 To1. clearbody st1. split.
        * apply (e_msame _ _ m); [|exact Sm]. eapply norm_E; [exact X| | | |exact En].
          -- eapply CInv_ceq; [|exact I]. unfold NS. same_core.
          -- unfold NS. sl_irr st.
          -- apply (e_steq _ st); auto. intro u. unfold NS. repeat split; thr_simpl.
        * apply (f_msame _ _ m); [|exact Smf]. eapply norm_F; [exact X| |exact En].
          apply (f_steq _ st); auto. intro u. unfold NS. repeat split; thr_simpl.
      + rewrite norm_id in En; [|intros j Hj; apply (i_mainonly _ I t Hn); exact Hj].
        injection En as E1 _ E3 _. apply Steq; auto. unfold th in E3. rewrite <- E3. exact Ek. }
  destruct R1 as [RE1 RF1].
  assert (Hk1 : done <> None -> k1 = []).
  { intro D. destruct done as [v|]; [|exfalso; apply D; reflexivity]. destruct (HdS v eq_refl) as [Y _]. unfold th in En. rewrite Y, norm_nil in En. injection En as _ _ E3 _. auto. }
  assert (F1 : tfinal (thr st1 t) = tfinal (thr st t)) by apply Th1.
  assert (C1 : tcur (thr st1 t) = tcur (thr st t)) by apply Th1.
  assert (P1 : tpipe (thr st1 t) = tpipe (thr st t)) by apply Th1.
  assert (Ht1 : (t < nthr st1)%nat) by exact Ht.
  assert (Wk1 : wkr st1 t <-> wkr st t) by (unfold wkr; rewrite N1, P1; tauto).
  assert (Tr1 : tret (thr st1 t) = tret (thr st t)) by apply Th1.
  clearbody st1.
  match type of H with (let '(st2, ev2) := ?E in _) = _ => destruct E as [st2 ev2] eqn:E2 end.
  assert (R2 : exists tl2, ev2 = ev1 ++ tl2 /\ ERel ENone st2 (fold_left m14r_step (evs t tl2) m1) /\ FRel FNone st2 (fold_left m14r_step (evs t tl2) m1) /\
                           fold_left m14_step (evs t tl2) m1 = fold_left m14r_step (evs t tl2) m1 /\
                           tfinal (thr st2 t) = tfinal (thr st t) /\ nthr st2 = nthr st).
  { assert (RetEq : forall v, m14_bad (m14_step m1 (t, ERet v)) = m14_bad m1 -> m14_step m1 (t, ERet v) = m14r_step m1 (t, ERet v)).
    { intros v Hb. symmetry. apply r_eq_step. intros _. exact Hb. }
    destruct done as [v|].
    - inversion E2; subst st2 ev2. exists [ERet v]. split; [reflexivity|].
      destruct (HdS v eq_refl) as [_ [c [Hu [Hpe [Hpf [Io Nw]]]]]]. cbn [evs map fold_left].
      assert (K1 : tcont (thr st1 t) = []) by (rewrite T1; apply Hk1; discriminate).
      assert (G1 : get_tid t (b_cur (m14_b m1)) = Some c) by (rewrite Gt1; exact Hu).
      assert (Hu1 : tcur (thr st1 t) = Some c) by (rewrite C1; exact Hu).
      assert (ER : ERel ENone (upd_th st1 t (set_tcur (th st1 t) None)) (m14r_step m1 (t, ERet v))).
      { eapply (e_ret pe st1 _ m1 t c v RE1 Ht1);
          [exact Hu1|exact K1|exact G1|right; exact Hpe|reflexivity|reflexivity|reflexivity|reflexivity|intros ? ?; thr_simpl
          |cbn -[Nat.eqb]; unfold updN, th; rewrite ?Nat.eqb_refl; cbn -[Nat.eqb]; unfold updN, th; rewrite ?Nat.eqb_refl; cbn -[Nat.eqb]; exact K1
          |thr_simpl|thr_simpl|thr_simpl]. }
      assert (FR : FRel FNone (upd_th st1 t (set_tcur (th st1 t) None)) (m14r_step m1 (t, ERet v)) /\ m14_bad (m14_step m1 (t, ERet v)) = m14_bad m1).
      { destruct (npcmd_dec c) as [Nc|Nc].
        - assert (Pf0 : pf = FNone) by (rewrite Hpf; destruct c; try reflexivity; destruct Nc). rewrite Pf0 in RF1.
          eapply (f_ret_np st1 _ m1 t c v RF1 Hu1 K1 G1 Nc);
            [reflexivity|reflexivity|intros ? ?; thr_simpl
            |cbn -[Nat.eqb]; unfold updN, th; rewrite ?Nat.eqb_refl; cbn -[Nat.eqb]; unfold updN, th; rewrite ?Nat.eqb_refl; cbn -[Nat.eqb]; exact K1
            |thr_simpl|thr_simpl].
        - assert (Pe0 : pe = ENone) by (rewrite Hpe; destruct c; try reflexivity; exfalso; apply Nc; exact Logic.I). rewrite Pe0 in RE1.
          eapply (f_ret pf st1 _ m1 t c v RE1 RF1 Ht1 Hu1 K1 G1);
            [right; split; [exact Hpf|split; [exact Io|intros Wc W; apply (Nw Wc); apply Wk1; exact W]]
            |reflexivity|reflexivity|intros ? ?; thr_simpl
            |cbn -[Nat.eqb]; unfold updN, th; rewrite ?Nat.eqb_refl; cbn -[Nat.eqb]; unfold updN, th; rewrite ?Nat.eqb_refl; cbn -[Nat.eqb]; exact K1
            |thr_simpl|thr_simpl]. }
      destruct FR as [FR Fb].
      split; [exact ER|]. split; [exact FR|]. split; [apply RetEq; exact Fb|]. split; [rewrite <- F1; thr_simpl|exact N1].
    - destruct (HdN eq_refl) as [Pn [Pfn Nsp]]. subst pe pf. destruct k1.
      + destruct (tcur (th st1 t)) as [c|] eqn:Ec.
        * inversion E2; subst st2 ev2. exists [ERet (tret (th st1 t))]. split; [reflexivity|].
          cbn [evs map fold_left]. unfold th in Ec.
          assert (G1 : get_tid t (b_cur (m14_b m1)) = Some c) by (rewrite Gt1, <- C1; exact Ec).
          assert (Nc : nsp c) by (apply Nsp; rewrite <- C1; exact Ec).
          match goal with |- ERel ENone ?S2 _ /\ _ => set (st2 := S2) end.
          assert (Ho2 : forall u, u <> t -> thr st2 u = thr st1 u) by (intros u Hu; unfold st2; destruct c; thr_simpl).
          assert (Hc2 : tcont (thr st2 t) = []).
          { unfold st2. destruct c; cbn -[Nat.eqb]; unfold updN, th; rewrite ?Nat.eqb_refl; cbn -[Nat.eqb]; unfold updN, th; rewrite ?Nat.eqb_refl; cbn -[Nat.eqb]; exact T1. }
          assert (Hf2 : tfinal (thr st2 t) = tfinal (thr st1 t)) by (unfold st2; destruct c; thr_simpl).
          assert (Hp2 : tpipe (thr st2 t) = tpipe (thr st1 t)) by (unfold st2; destruct c; thr_simpl).
          assert (Hu2 : tcur (thr st2 t) = None) by (unfold st2; destruct c; thr_simpl).
          assert (Hn2 : nthr st2 = nthr st1) by (unfold st2; destruct c; reflexivity).
          assert (Hs2 : sl st2 = sl st1) by (unfold st2; destruct c; reflexivity).
          assert (Hd2 : dl st2 = dl st1) by (unfold st2; destruct c; reflexivity).
          assert (Hpp2 : pps st2 = pps st1) by (unfold st2; destruct c; reflexivity).
          clearbody st2.
          assert (ER : ERel ENone st2 (m14r_step m1 (t, ERet (tret (thr st1 t))))).
          { apply (e_ret ENone st1 st2 m1 t c _ RE1 Ht1 Ec T1 G1); auto. }
          assert (FR : FRel FNone st2 (m14r_step m1 (t, ERet (tret (thr st1 t)))) /\ m14_bad (m14_step m1 (t, ERet (tret (thr st1 t)))) = m14_bad m1).
          { destruct (npcmd_dec c) as [Nc'|Nc'].
            - apply (f_ret_np st1 st2 m1 t c _ RF1 Ec T1 G1 Nc'); auto.
            - apply (f_ret FNone st1 st2 m1 t c _ RE1 RF1 Ht1 Ec T1 G1); auto. }
          destruct FR as [FR Fb].
          split; [exact ER|]. split; [exact FR|]. split; [apply RetEq; exact Fb|]. split; [rewrite Hf2; exact F1|rewrite Hn2; exact N1].
        * inversion E2; subst st2 ev2. exists []. rewrite app_nil_r. split; [reflexivity|]. cbn. split; [exact RE1|split; [exact RF1|split; [reflexivity|split; [exact F1|exact N1]]]].
      + inversion E2; subst st2 ev2. exists []. rewrite app_nil_r. split; [reflexivity|]. cbn. split; [exact RE1|split; [exact RF1|split; [reflexivity|split; [exact F1|exact N1]]]]. }
  destruct R2 as [tl2 [E2' [RE2 [RF2 [Eq2 [F2 N2]]]]]].
  set (m2 := fold_left m14r_step (evs t tl2) m1) in *.
  assert (Fin : exists tl3, ev' = ev2 ++ tl3 /\ ERel ENone st' (fold_left m14r_step (evs t tl3) m2) /\ FRel FNone st' (fold_left m14r_step (evs t tl3) m2) /\
                            fold_left m14_step (evs t tl3) m2 = fold_left m14r_step (evs t tl3) m2).
  { destruct (tcont (th st2 t)) eqn:Ec; [|inversion H; subst; exists []; rewrite app_nil_r; cbn; auto].
    destruct (tscript (th st2 t)) eqn:Es; [|inversion H; subst; exists []; rewrite app_nil_r; cbn; auto].
    destruct (tcur (th st2 t)) eqn:Eu; [inversion H; subst; exists []; rewrite app_nil_r; cbn; auto|].
    destruct (tfinal (th st2 t)) eqn:Ef; inversion H; subst st' ev'; clear H.
    - destruct (is_main t); [exists []; rewrite app_nil_r; cbn; auto|].
      exists [EExit]. split; [reflexivity|]. cbn [evs map fold_left]. split; [apply e_exit; auto; rewrite N2; exact Ht|].
      split; [apply (f_msame _ _ m2); [exact RF2|apply m14r_fplain_step; exact Logic.I]|].
      symmetry. apply r_eq_step. intros _. apply step_bad_nonret; [intros v Y; discriminate Y|reflexivity].
    - exists []. rewrite app_nil_r. split; [reflexivity|]. cbn [evs map fold_left]. unfold th in *.
      assert (Nm : t <> main) by (intro E; apply Hfm in E; rewrite <- F2, Ef in E; discriminate E).
      rewrite <- Ef. split; [apply e_final; auto; intros j Hj; apply Hfin; rewrite <- F2; exact Hj|].
      split; [apply f_final; auto; intros j Hj; apply Hfin; rewrite <- F2; exact Hj|reflexivity]. }
  destruct Fin as [tl3 [E3 [RE3 [RF3 Eq3]]]].
  exists (dels ++ tl2 ++ tl3). split; [rewrite E3, E2', Edels; rewrite <- !app_assoc; reflexivity|].
  rewrite !evs_app, !fold_left_app. fold m1. fold m2. split; [exact RE3|]. split; [exact RF3|].
  rewrite Eq1, Eq2. fold m2. exact Eq3.
Qed.

Lemma begin_cmd_imm : forall st t c st' ev v,
  begin_cmd st t c = (st', ev, Some v) -> ~ npcmd c -> st' = st /\ imm_ok c v /\ (wcmd c -> tpipe (th st t) < 0).
Proof.
  intros st t c st' ev v H Nc. destruct c; try (exfalso; apply Nc; exact Logic.I); cbn [begin_cmd] in H.
  - destruct (negb (is_main t) || negb (phandle (pps st p))); inversion H; subst. split; [reflexivity|]. split; [reflexivity|intros []].
  - destruct (negb (is_main t) || negb (phandle (pps st p))); inversion H; subst. split; [reflexivity|]. split; [reflexivity|intros []].
  - destruct (Z.ltb_spec (tpipe (th st t)) 0); inversion H; subst. split; [reflexivity|]. split; [reflexivity|intros _; assumption].
  - destruct (Z.ltb_spec (tpipe (th st t)) 0); inversion H; subst. split; [reflexivity|]. split; [reflexivity|intros _; assumption].
  - destruct (Z.ltb_spec (tpipe (th st t)) 0); inversion H; subst. split; [reflexivity|]. split; [reflexivity|intros _; assumption].
Qed.

Lemma imm_ok_np : forall c v, npcmd c -> imm_ok c v.
Proof. intros c v H. destruct c; try exact Logic.I; destruct H. Qed.

(** ** one step of the model: both halves, and the real monitor agrees with the replies half *)
Theorem wstep_EF : forall st m t st' ev,
  AllInv st -> SpInv st -> BRel st (m14_b m) -> ERel ENone st m -> FRel FNone st m -> wstep st t = (st', ev) ->
  (forall q, In (ECmd (CPNew q)) ev -> 0 <= q) ->
  ERel ENone st' (fold_left m14r_step (evs t ev) m) /\ FRel FNone st' (fold_left m14r_step (evs t ev) m) /\
  fold_left m14_step (evs t ev) m = fold_left m14r_step (evs t ev) m.
Proof.
  intros st m t st' ev A Sp B RE RF H Hq.
  destruct A as [[I [P Wf]] W Sl L C Q X Y U S].
  unfold wstep in H.
  assert (Stut : forall e, c14_plain e -> f14_plain e -> (forall v, e <> ERet v) ->
                 ERel ENone st (fold_left m14r_step (evs t [e]) m) /\ FRel FNone st (fold_left m14r_step (evs t [e]) m) /\
                 fold_left m14_step (evs t [e]) m = fold_left m14r_step (evs t [e]) m).
  { intros e P1 P2 P3. split; [eapply e_msame; [exact RE|apply m14r_plain_fold; intros e0 [<-|[]]; exact P1]|].
    split; [eapply f_msame; [exact RF|apply m14r_fplain_fold; intros e0 [<-|[]]; exact P2]|]. symmetry. apply r_eq_fold. intros e0 [<-|[]]. exact P3. }
  destruct (enabled st t) eqn:En; cbn [negb] in H; [|inversion H; subst; apply Stut; [exact Logic.I|exact Logic.I|intros v Z0; discriminate Z0]].
  assert (Ht : (t < nthr st)%nat).
  { unfold enabled in En. apply andb_true_iff in En. destruct En as [En _]. apply Nat.ltb_lt in En. exact En. }
  assert (It : CInv (core (tick st t))) by (eapply CInv_ceq; [|exact I]; unfold tick; same_core).
  assert (Pt : pristine (tick st t)) by (unfold tick; prist st t).
  assert (Wt : wfi (tick st t)) by (eapply wfi_eq; [| | |exact Wf]; reflexivity).
  assert (Qt : PqInv (tick st t)) by (apply (pq_same st); auto; try reflexivity; intro u; unfold tick; repeat split; thr_simpl).
  assert (Xt : XInv (tick st t)) by (apply (x_same st); auto; unfold tick; xs).
  assert (Yt : YInv (tick st t)).
  { intro u. unfold tick. cbn -[Nat.eqb]. unfold updN, th. destruct (Nat.eqb_spec u t); subst; cbn; apply Y. }
  assert (Ut : UInv (tick st t)).
  { intros u Hu. unfold tick. cbn -[Nat.eqb]. unfold updN, th. destruct (Nat.eqb_spec u t); [cbn in Hu; lia|]. apply U. exact Hu. }
  assert (Spt : SpInv (tick st t)).
  { intros u c. unfold tick. cbn -[Nat.eqb]. unfold updN, th. destruct (Nat.eqb_spec u t); subst; cbn; apply Sp. }
  assert (Slt : SlInv (tick st t)) by (unfold tick; sl_irr st).
  assert (Sht : ShInv (tick st t)) by (unfold tick; sh_eq st).
  assert (Bt : BRel (tick st t) (m14_b m)) by (apply (br_same st); auto; intro u; unfold tick; split; thr_simpl).
  assert (REt : ERel ENone (tick st t) m).
  { apply (e_steq _ st); auto. intro u. unfold tick. repeat split; thr_simpl. }
  assert (RFt : FRel FNone (tick st t) m).
  { apply (f_steq _ st); auto. intro u. unfold tick. repeat split; thr_simpl. }
  assert (Htt : (t < nthr (tick st t))%nat) by exact Ht.
  set (s0 := tick st t) in *. clearbody s0. clear En Stut.
  destruct (tstarted (th s0 t)) eqn:Es0; cbn [negb] in H.
  - destruct (tcont (th s0 t)) as [|i r] eqn:Ec.
    + destruct (tscript (th s0 t)) as [|c0 cs] eqn:Es.
      { inversion H; subst. split; [eapply e_msame; [exact RE|apply m14r_plain_fold; intros e0 [<-|[]]; exact Logic.I]|].
        split; [eapply f_msame; [exact RF|apply m14r_fplain_fold; intros e0 [<-|[]]; exact Logic.I]|]. symmetry. apply r_eq_fold. intros e0 [<-|[]] v Z0. discriminate Z0. }
      match type of H with context [begin_cmd ?S0 t ?cc] =>
        destruct (begin_cmd S0 t cc) as [[st2 ev0] done] eqn:Eb; set (s1 := S0) in * end.
      assert (Hcur0 : tcur (thr s0 t) = None).
      { destruct (tcur (thr s0 t)) eqn:E; auto. exfalso. apply (Yt t); [rewrite E; discriminate|exact Ec]. }
      assert (I1 : CInv (core s1)) by (eapply CInv_ceq; [|exact It]; unfold s1; same_core).
      assert (P1 : pristine s1) by (unfold s1; prist s0 t).
      assert (W1 : wfi s1) by (eapply wfi_eq; [| | |exact Wt]; reflexivity).
      assert (Hc1 : tcont (thr s1 t) = []) by (unfold s1; thr_simpl; exact Ec).
      assert (Hcur1 : tcur (thr s1 t) = Some c0) by (unfold s1; thr_simpl).
      assert (Sl1 : SlInv s1) by (unfold s1; sl_irr s0).
      assert (Hcur1' : tcur (thr s1 t) <> None) by (rewrite Hcur1; discriminate).
      assert (Q1 : PqInv s1).
      { unfold th in Ec, Es. apply (pq_idle s0 s1 t [] Qt Ec); try reflexivity.
        - exact Hc1.
        - unfold s1. thr_simpl.
        - unfold s1. thr_simpl.
        - unfold s1. cbn -[Nat.eqb]. unfold updN, th. rewrite Nat.eqb_refl. cbn. intros _ H0 _.
          apply (pk s0 Qt t Htt H0). right. rewrite Es. discriminate.
        - intros j [].
        - unfold s1. cbn -[Nat.eqb]. unfold updN, th. rewrite Nat.eqb_refl. cbn. apply (pf s0 Qt t). }
      pose proof (begin_cmd_Pq s1 t c0 st2 ev0 done I1 P1 Q1 Hc1 Htt Hcur1' Eb) as Q2.
      destruct (begin_cmd_inv s1 t c0 st2 ev0 done I1 P1 W1 Hc1 Htt Eb) as [I2 _].
      pose proof (begin_cmd_Sl s1 t c0 st2 ev0 done I1 P1 W1 Sl1 Hc1 Htt Eb) as Sl2.
      pose proof (begin_B s0 (m14_b m) t c0 cs st2 ev0 done Bt Pt Htt Hcur0 Ec Eb) as B2.
      destruct (begin_cmd_sum s1 t c0 st2 ev0 done P1 Htt Eb) as [Hpl [Ht2 [Ho2 [Hn _]]]].
      assert (Ht2' : (t < nthr st2)%nat) by (change (nthr s1) with (nthr s0) in Hn; destruct Hn as [Hn|[Hn _]]; lia).
      destruct (settle_B_events _ _ _ _ _ _ H) as [tail Et].
      assert (Hok : cmd_ok c0).
      { destruct c0; try exact Logic.I. cbn. apply Hq. rewrite Et. left. reflexivity. }
      unfold th in Ec, Es.
      pose proof (begin_E s0 m t c0 cs st2 ev0 done It Pt Wt Slt Qt Xt REt Htt Ec Es Hok Eb) as RE2.
      pose proof (begin_F s0 m t c0 cs st2 ev0 done It Pt Xt Ut Qt REt RFt Htt Ec Hcur0 Es Hok Eb) as RF2.
      assert (Eq0 : fold_left m14_step (evs t (ECmd c0 :: ev0)) m = fold_left m14r_step (evs t (ECmd c0 :: ev0)) m).
      { symmetry. apply r_eq_fold. intros e [<-|He] v Z0; [discriminate Z0|]. destruct (Hpl e He) as [Z1 _]. subst e. exact Z1. }
      assert (X2 : XInv st2).
      { assert (Hs1 : tstarted (thr s1 t) = true) by (unfold s1; thr_simpl; exact Es0).
        assert (X1 : XInv s1).
        { constructor.
          - intros u. unfold s1. cbn -[Nat.eqb]. unfold updN, th. destruct (Nat.eqb_spec u t); subst; cbn; [intro E; discriminate E|apply (x_idle s0 Xt u)].
          - unfold s1. cbn -[Nat.eqb]. unfold updN, th. destruct (Nat.eqb_spec main t); subst; cbn; apply (x_main s0 Xt).
          - intros u. unfold s1. cbn -[Nat.eqb]. unfold updN, th. destruct (Nat.eqb_spec u t); subst; cbn; [unfold th in Es0; rewrite Es0; intro E; discriminate E|apply (x_fresh s0 Xt u)]. }
        exact (begin_cmd_X s1 t c0 st2 ev0 done X1 P1 Htt Hcur1' Hs1 Eb). }
      destruct (settle_EF st2 _ t (ECmd c0 :: ev0) done st' ev (pendE t c0 done) (pendF t c0 done) I2 Sl2 X2 RE2 RF2) as [tail' [Et' [REf [RFf Eqf]]]]; auto.
      * rewrite m14r_b_fold. exact B2.
      * apply (pf st2 Q2 t).
      * intros ->. apply (x_main _ X2).
      * intros ->. split; [destruct c0; reflexivity|]. split; [destruct c0; reflexivity|]. intros c. rewrite Ht2, Hcur1. intro E. inversion E; subst c.
        destruct c0; try exact Logic.I; exfalso; (apply (begin_cmd_sp _ _ _ _ _ _ Eb); [intro Z0; exact Z0|reflexivity]).
      * intros v D. subst done. split; [rewrite (begin_cmd_done s1 t c0 st2 ev0 v Htt Eb); exact Hc1|].
        exists c0. split; [rewrite Ht2; exact Hcur1|]. split; [reflexivity|]. split; [reflexivity|].
        destruct (npcmd_dec c0) as [Nc|Nc]; [split; [apply imm_ok_np; exact Nc|intros Wc; exfalso; destruct c0; try destruct Wc; destruct Nc]|].
        destruct (begin_cmd_imm _ _ _ _ _ _ Eb Nc) as [Est [Io Lw]]. split; [exact Io|]. intros Wc [_ Wp]. specialize (Lw Wc).
        rewrite Est in Wp. unfold th in Lw. lia.
      * rewrite Et', evs_app, !fold_left_app. split; [exact REf|]. split; [exact RFf|]. rewrite Eq0. exact Eqf.
    + destruct (exec_instr s0 t i r) as [st1 ev1] eqn:Ee.
      unfold th in Ec.
      pose proof (exec_instr_E ENone s0 m t i r st1 ev1 It Slt Qt Xt REt Htt Ec Ee) as RE1.
      pose proof (exec_instr_F FNone ENone s0 m t i r st1 ev1 It Xt Sht REt RFt Ec Ee) as RF1.
      assert (I1 : CInv (core st1)) by (eapply exec_instr_inv; eauto).
      pose proof (exec_instr_Sl s0 t i r st1 ev1 It Pt Slt Htt Ec Ee) as Sl1.
      pose proof (exec_instr_B s0 (m14_b m) t i r st1 ev1 Bt Ec Htt Ee) as B1.
      pose proof (exec_instr_tf _ _ _ _ _ _ Ee) as F.
      assert (X1 : XInv st1) by (eapply (x_tframe s0 st1 t i r); eauto).
      assert (Eq0 : fold_left m14_step (evs t ev1) m = fold_left m14r_step (evs t ev1) m).
      { symmetry. apply r_eq_fold. intros e He v Z0. destruct (exec_instr_eff _ _ _ _ _ _ It Ec Ee) as [_ _ _ _ _ _ Hnoc]. destruct (Hnoc e He) as [_ Z1]. exact (Z1 v Z0). }
      destruct F as [Hn1 [Hf _]].
      destruct (settle_EF st1 _ t ev1 None st' ev ENone FNone I1 Sl1 X1 RE1 RF1) as [tail' [Et' [REf [RFf Eqf]]]]; auto.
      * rewrite m14r_b_fold. exact B1.
      * lia.
      * destruct (Hf t) as [_ [_ [F0 _]]]. rewrite F0. apply (pf s0 Qt t).
      * intros ->. apply (x_main _ X1).
      * intros _. split; [reflexivity|]. split; [reflexivity|]. intros c. destruct (Hf t) as [F0 _]. rewrite F0. apply Spt.
      * intros v D. discriminate D.
      * rewrite Et', evs_app, !fold_left_app. split; [exact REf|]. split; [exact RFf|]. rewrite Eq0. exact Eqf.
  - set (s1 := upd_th s0 t (set_tstarted (th s0 t) true)) in *.
    assert (I1 : CInv (core s1)) by (eapply CInv_ceq; [|exact It]; unfold s1; same_core).
    assert (Sl1 : SlInv s1) by (unfold s1; sl_irr s0).
    assert (B1 : BRel s1 (m14_b m)) by (apply (br_same s0); auto; intro u; unfold s1; split; thr_simpl).
    assert (X1 : XInv s1).
    { destruct (x_fresh s0 Xt t Es0) as [Q1 Q2]. constructor.
      - intros u. unfold s1. cbn -[Nat.eqb]. unfold updN, th. destruct (Nat.eqb_spec u t); subst; cbn; [unfold th in Q1; rewrite Q1; intros _ Z0; exfalso; apply Z0; reflexivity|apply (x_idle s0 Xt u)].
      - unfold s1. cbn -[Nat.eqb]. unfold updN, th. destruct (Nat.eqb_spec main t); subst; cbn; apply (x_main s0 Xt).
      - intros u. unfold s1. cbn -[Nat.eqb]. unfold updN, th. destruct (Nat.eqb_spec u t); subst; cbn; [intro Z0; discriminate Z0|apply (x_fresh s0 Xt u)]. }
    assert (RE1 : ERel ENone s1 (m14r_step m (t, EStart))).
    { apply (e_msame _ _ m); [|apply m14r_plain_step; exact Logic.I]. apply (e_steq _ s0); auto. intro u. unfold s1. repeat split; thr_simpl. }
    assert (RF1 : FRel FNone s1 (m14r_step m (t, EStart))).
    { apply (f_msame _ _ m); [|apply m14r_fplain_step; exact Logic.I]. apply (f_steq _ s0); auto. intro u. unfold s1. repeat split; thr_simpl. }
    destruct (settle_EF s1 _ t [EStart] None st' ev ENone FNone I1 Sl1 X1 RE1 RF1) as [tail' [Et' [REf [RFf Eqf]]]]; auto;
      try (intros v D; discriminate D).
    + unfold s1. cbn -[Nat.eqb]. unfold updN, th. rewrite Nat.eqb_refl. cbn. apply (pf s0 Qt t).
    + intros ->. unfold s1. cbn -[Nat.eqb]. unfold updN, th. rewrite Nat.eqb_refl. cbn. apply (x_main _ Xt).
    + intros _. split; [reflexivity|]. split; [reflexivity|]. intros c. unfold s1. cbn -[Nat.eqb]. unfold updN, th. rewrite Nat.eqb_refl. cbn. apply Spt.
    + rewrite Et'. change (evs t ([EStart] ++ tail')) with ((t, EStart) :: evs t tail'). cbn [fold_left]. split; [exact REf|]. split; [exact RFf|].
      replace (m14_step m (t, EStart)) with (m14r_step m (t, EStart)) by (apply r_eq_step; intros _; reflexivity). exact Eqf.
Qed.

Lemma F_init : forall scr, FRel FNone (winit scr) m14_0.
Proof.
  intro scr.
  assert (Tp : forall u, tpipe (thr (winit scr) u) = -1) by (intro u; reflexivity).
  assert (Nw : forall u, ~ wkr (winit scr) u) by (intros u [_ W]; rewrite Tp in W; lia).
  constructor; cbn [m14_0 m14_psend m14_recvd m14_dropped m14_late dps on_pipe memZ existsb get_tid map].
  - intros t q x Y. discriminate Y.
  - intros t q Y. discriminate Y.
  - intros q _. cbn. repeat split; reflexivity.
  - intros q Y. discriminate Y.
  - intros t W. exfalso. exact (Nw t W).
  - intros t c W. exfalso. exact (Nw t W).
  - intros u W. exfalso. exact (Nw u W).
  - intros t m0 q x Hin. cbn in Hin. destruct Hin.
  - intros t q x Hq. cbn in Hq. discriminate Hq.
  - intros t q Hq. cbn in Hq. discriminate Hq.
  - intros t m0 q Hin. cbn in Hin. destruct Hin.
  - intros t L. unfold is_late in L. cbn in L. discriminate L.
  - intros t [].
  - constructor.
  - intros t m0 v Hin. cbn in Hin. destruct Hin.
  - intros t j Hin. cbn in Hin. destruct Hin.
  - intros t c Hq. cbn in Hq. discriminate Hq.
Qed.

Theorem wrun_EF : forall sched st m,
  AllInv st -> SpInv st -> BRel st (m14_b m) -> ERel ENone st m -> FRel FNone st m -> pnew_ok (flatten (snd (wrun st sched))) ->
  fold_left m14_step (flatten (snd (wrun st sched))) m = fold_left m14r_step (flatten (snd (wrun st sched))) m.
Proof.
  induction sched as [|t rest IH]; intros st m A Sp B RE RF Hok; [reflexivity|].
  cbn [wrun] in *.
  destruct (wstep st t) as [st1 ev] eqn:E.
  destruct (wrun st1 rest) as [st2 tr] eqn:Er. cbn [fst snd] in *.
  rewrite flatten_cons in *. rewrite !fold_left_app.
  assert (Hq : forall q, In (ECmd (CPNew q)) ev -> 0 <= q).
  { intros q Hin. apply (Hok t q). apply in_or_app. left. unfold evs. apply in_map_iff. exists (ECmd (CPNew q)). auto. }
  destruct (wstep_EF st m t st1 ev A Sp B RE RF E Hq) as [RE1 [RF1 Eq1]].
  pose proof (wstep_All st t st1 ev A E) as A1.
  assert (Sp1 : SpInv st1) by (destruct A as [[_ [P _]] _ _ _ _ _ _ _ _ _]; exact (wstep_Sp st t st1 ev P Sp E)).
  assert (B1 : BRel st1 (m14_b (fold_left m14r_step (evs t ev) m))).
  { rewrite m14r_b_fold. destruct A as [M _ _ _ _ _ X Y _ _]. exact (wstep_B st _ t st1 ev M X Y B E). }
  rewrite Eq1. specialize (IH st1 _ A1 Sp1 B1 RE1 RF1). rewrite Er in IH. cbn [snd] in IH. apply IH.
  intros u q Hin. apply (Hok u q). apply in_or_app. right. exact Hin.
Qed.

(** C14, trace form: the executable monitor [C14_ok] of coq/W/Monitors.v is true on the trace of every run of the
    model whose [pnew] commands name non-negative pipes. *)
Theorem C14_monitor : forall scr sched,
  pnew_ok (flatten (wtrace scr sched)) -> C14_ok (flatten (wtrace scr sched)) false = true.
Proof.
  intros scr sched Hok. pose proof (C14r_monitor scr sched Hok) as Hr. unfold wtrace in *.
  pose proof (wrun_EF sched (winit scr) m14_0 (All_init scr) (Sp_init scr) (mb0_rel scr) (E_init scr) (F_init scr) Hok) as Eq.
  unfold C14_ok, C14r_ok in *. fold m14_0. cbn zeta in *. rewrite Eq.
  set (m := fold_left m14r_step (flatten (snd (wrun (winit scr) sched))) m14_0) in *.
  cbn [andb negb]. rewrite andb_true_r.
  apply andb_true_iff in Hr. destruct Hr as [H1 H2]. rewrite H1. cbn [andb].
  destruct (b_exit (m14_b m)); [|reflexivity]. destruct (b_notif (m14_b m)); [reflexivity|]. cbn [negb andb] in *. exact H2.
Qed.
Print Assumptions C14_monitor.
