(** * Layer W: the piped-thread monitor [C14_ok] on every run of the model - the half checked at command returns, and
    the combination with coq/W/MonC14.v. *)
From Coq Require Import ZArith List Bool Arith Lia.
From Stk Require Import Lib.U Gen.SrcWaker W.Waker W.WakerArith W.WakerCore W.WakerSlab W.WakerPres W.WakerRefine W.WakerProofs W.WakerGhost W.WakerLock W.WakerDrop W.WakerSlot W.WakerWf W.Chan W.Pipe W.Monitors W.MonBase W.MonC13 W.MonC12 W.MonC14.
Import ListNotations.
Local Open Scope Z_scope.

(** ** the flag of the monitor is the disjunction of the flags of its two halves *)
Definition m14s_step (m : m14) (te : tid * wevent) : m14 :=
  let m' := m14_step m te in if is_reply (snd te) then m14_setbad m' (m14_bad m) else m'.

Lemma setbad_setbad : forall m a b, m14_setbad (m14_setbad m a) b = m14_setbad m b.
Proof. reflexivity. Qed.
Lemma setbad_id : forall m, m14_setbad m (m14_bad m) = m.
Proof. intros []. reflexivity. Qed.

(** the step function computes its non-flag fields from non-flag fields, and adds a check to the flag *)
Lemma step_setbad : forall m b te, exists chk,
  m14_step (m14_setbad m b) te = m14_setbad (m14_step m te) (b || chk) /\ m14_bad (m14_step m te) = m14_bad m || chk.
Proof.
  intros m b [t e]. unfold m14_step, m14_setbad. cbn.
  destruct e; try (exists false; rewrite !orb_false_r; split; reflexivity).
  - destruct c; try (exists false; rewrite !orb_false_r; split; reflexivity);
      destruct (get_tid t (m14_owner m)); exists false; rewrite !orb_false_r; split; reflexivity.
  - destruct (get_tid t (b_cur (m14_b m))) as [c|]; [|exists false; rewrite !orb_false_r; split; reflexivity].
    destruct c; try (exists false; rewrite !orb_false_r; split; reflexivity);
      destruct v; try (exists false; rewrite !orb_false_r; split; reflexivity);
      try (destruct (get_tid t (m14_owner m)); try (exists false; rewrite !orb_false_r; split; reflexivity));
      rewrite <- ?orb_assoc; eexists; split; reflexivity.
  - rewrite <- !orb_assoc. eexists; split; reflexivity.
  - rewrite <- !orb_assoc. eexists; split; reflexivity.
  - destruct (get_tid t (m14_owner m)); exists false; rewrite !orb_false_r; split; reflexivity.
Qed.

Lemma bad_split : forall tr m0,
  let A := fold_left m14_step tr m0 in let R := fold_left m14r_step tr m0 in let S := fold_left m14s_step tr m0 in
  R = m14_setbad A (m14_bad R) /\ S = m14_setbad A (m14_bad S) /\ m14_bad A = m14_bad R || m14_bad S || m14_bad m0.
Proof.
  intro tr. induction tr as [|te tr IH] using rev_ind; intro m0; cbn zeta.
  - cbn. rewrite !setbad_id. repeat split; try reflexivity. destruct (m14_bad m0); reflexivity.
  - rewrite !fold_left_app. cbn [fold_left]. destruct (IH m0) as [ER [ES EB]]. cbn zeta in *.
    set (A := fold_left m14_step tr m0) in *. set (R := fold_left m14r_step tr m0) in *. set (S := fold_left m14s_step tr m0) in *.
    destruct (step_setbad A (m14_bad R) te) as [c1 [C1 C2]]. destruct (step_setbad A (m14_bad S) te) as [c2 [D1 D2]].
    assert (HR : m14_step R te = m14_setbad (m14_step A te) (m14_bad R || c1)).
    { replace (m14_step R te) with (m14_step (m14_setbad A (m14_bad R)) te) by (rewrite <- ER; reflexivity). exact C1. }
    assert (HS : m14_step S te = m14_setbad (m14_step A te) (m14_bad S || c2)).
    { replace (m14_step S te) with (m14_step (m14_setbad A (m14_bad S)) te) by (rewrite <- ES; reflexivity). exact D1. }
    unfold m14r_step, m14s_step. rewrite HR, HS.
    destruct (is_reply (snd te)); cbn [m14_bad m14_setbad]; rewrite ?setbad_setbad.
    + split; [reflexivity|]. split; [reflexivity|]. rewrite C2, EB.
      destruct (m14_bad R), (m14_bad S), (m14_bad m0), c1; reflexivity.
    + split; [reflexivity|]. split; [reflexivity|]. rewrite D2, EB.
      destruct (m14_bad R), (m14_bad S), (m14_bad m0), c2; reflexivity.
Qed.
