(** * Layer W: the waker-drop monitor [C12_ok] holds on every run of the model (C12, trace form). *)
From Coq Require Import ZArith List Bool Arith Lia.
From Stk Require Import Lib.U Gen.SrcWaker W.Waker W.WakerArith W.WakerCore W.WakerSlab W.WakerPres W.WakerRefine
  W.WakerProofs W.WakerGhost W.WakerLock W.WakerDrop W.WakerSlot W.WakerWf W.Chan W.Pipe W.Monitors W.MonBase W.MonC13.
Import ListNotations.
Local Open Scope Z_scope.

(** ** what one yielding instruction does to the parts of the state the drop monitor depends on *)
Definition dropw_ok (i : instr) : Prop :=
  match i with ILock _ (LPush _ _ _) | IUnlock _ UNone | IClimb _ => True | _ => False end.
Definition is_yield (i : instr) : Prop := exists h d, i = IYieldH h d.

Record ieff (st st' : wstate) (t : tid) (i : instr) (r : list instr) (ev : list wevent) : Prop := {
  e_tf : tframe st st' t;
  e_new : exists new, tcont (thr st' t) = new ++ r /\ (forall j, In j new -> ~ is_yield j) /\
                      (forall y h, In (y, h) (pushes new) -> exists c, h = HChan c) /\ (dropw_ok i -> forall j, In j new -> dropw_ok j);
  e_sl : sl st' = sl st /\ wused st' = wused st /\ nfill st' = nfill st /\ wreg st' = wreg st;
  e_pipe : forall y, In y (pipeline st') <-> In y (pipeline st) \/ exists m bm h, i = ILock m (LPush y bm h);
  e_tret : (forall m v, i <> IUnlock m (URet v)) -> (forall m c x, i <> IUnlock m (UChPush c x)) ->
           forall u, tret (thr st' u) = tret (thr st u);
  e_hev : forall w d, In (EHandler (HPlain w) d) ev <-> i = IYieldH (HPlain w) d;
  e_noc : forall e, In e ev -> (forall c, e <> ECmd c) /\ (forall v, e <> ERet v) }.

Lemma ieff_gen : forall st st' t i r new ev,
  tframe st st' t -> tcont (thr st t) = i :: r -> tcont (thr st' t) = new ++ r ->
  (forall j, In j new -> ~ is_yield j) -> (forall y h, In (y, h) (pushes new) -> exists c, h = HChan c) ->
  (dropw_ok i -> forall j, In j new -> dropw_ok j) ->
  sl st' = sl st -> wused st' = wused st -> nfill st' = nfill st -> wreg st' = wreg st ->
  (forall m y bm h, i <> ILock m (LPush y bm h)) ->
  ((t = main -> dl st' ++ cont_dels new = dl st ++ dels_of i) /\ (t <> main -> dl st' = dl st)) ->
  ((forall m v, i <> IUnlock m (URet v)) -> (forall m c x, i <> IUnlock m (UChPush c x)) -> forall u, tret (thr st' u) = tret (thr st u)) ->
  (forall w d, In (EHandler (HPlain w) d) ev <-> i = IYieldH (HPlain w) d) ->
  (forall e, In e ev -> (forall c, e <> ECmd c) /\ (forall v, e <> ERet v)) ->
  ieff st st' t i r ev.
Proof.
  intros st st' t i r new ev F Hc Hc' Hy Hp Hd E1 E2 E3 E4 Hnp [P1 P2] Ht Hh Hn.
  constructor; auto.
  - exists new. auto.
  - intro y. assert (Eq : pipeline st' = pipeline st).
    { unfold pipeline. destruct (Nat.eq_dec t main) as [->|N].
      - rewrite Hc, Hc', cont_dels_app, cont_dels_cons, !app_assoc, (P1 eq_refl). reflexivity.
      - destruct F as [_ [_ Ho]]. rewrite (Ho main) by auto. rewrite (P2 N). reflexivity. }
    rewrite Eq. split; [auto|]. intros [H|[m [bm [h E]]]]; [exact H|]. exfalso. eapply Hnp; eauto.
Qed.

Ltac ie_noy := let j := fresh "j" in let Hj := fresh "Hj" in let E := fresh "E" in
  intros j Hj [? [? E]]; cbn in Hj; repeat (destruct Hj as [Hj|Hj]; [subst j; discriminate E|]); contradiction.
Ltac ie_nop := let Hj := fresh "Hj" in
  intros ? ? Hj; cbn in Hj; repeat (destruct Hj as [Hj|Hj]; [first [discriminate Hj|inversion Hj; eexists; reflexivity]|]); contradiction.
Ltac ie_drop := let Hd := fresh "Hd" in let j := fresh "j" in let Hj := fresh "Hj" in
  intros Hd j Hj; cbn in Hd; try contradiction; cbn in Hj; repeat (destruct Hj as [<-|Hj]); try contradiction; exact Logic.I.
Ltac ie_noc := let e := fresh "e" in let He := fresh "He" in
  intros e He; cbn in He; repeat (destruct He as [<-|He]); try contradiction; split; intros; discriminate.
Ltac ie_hev := let Hin := fresh "Hin" in let E := fresh "E" in
  intros ? ?; split; [intro Hin; cbn in Hin; repeat (destruct Hin as [Hin|Hin]; [discriminate Hin|]); contradiction|intro E; discriminate E].
Ltac ie NEW :=
  eapply (ieff_gen _ _ _ _ _ NEW);
  [ eassumption | eassumption | thr_simpl | ie_noy | ie_nop | ie_drop | reflexivity | reflexivity | reflexivity | reflexivity
  | intros; discriminate | split; intros; reflexivity | intros _ _ ?; thr_simpl | ie_hev | ie_noc ].

Lemma ghost_collect_nfill : forall bits st, nfill (ghost_collect st bits) = nfill st.
Proof.
  unfold ghost_collect. induction bits as [|b bits IH]; intro st; [reflexivity|]. cbn [fold_left].
  destruct (slab_get (sl st) b); rewrite IH; reflexivity.
Qed.

Lemma exec_instr_eff : forall st t i r st' ev,
  CInv (core st) -> tcont (thr st t) = i :: r -> exec_instr st t i r = (st', ev) -> ieff st st' t i r ev.
Proof.
  intros st t i r st' ev I Hc H.
  pose proof (exec_instr_tf _ _ _ _ _ _ H) as F.
  destruct i; cbn [exec_instr] in H.
  - destruct k; cbn [exec_climb] in H; inversion H; subst; clear H.
    + destruct (bitmap_join a b (bmbase st bm)) as [x|]; [destruct (slab_get (sl st) x)|];
        (destruct (leaf st bm a =? 0); [ie [IClimb (KSum bm a)]|ie (@nil instr)]).
    + destruct (summ st bm =? 0); [ie [IClimb (KTop bm)]|ie (@nil instr)].
    + destruct (top st =? 0); [ie [IClimb KCb]|ie (@nil instr)].
    + ie (@nil instr).
  - inversion H; subst; clear H. ie [IBms (flat_map (bms_of_slot st) (bits_of (top st)))].
  - destruct bms; inversion H; subst; clear H.
    + ie [IBms []].
    + ie [ILeaves z (bits_of (summ st z)); IBms bms].
  - destruct ls; [inversion H; subst; clear H; ie [ILeaves bm []]|].
    destruct (collect (bmbase st bm) z (leaf st bm z)) as [bits ok].
    match type of H with context [ghost_collect ?S0 bits] =>
      destruct (ghost_collect_sl bits S0) as [A1 [A2 [A3 [A4 [A5 [A6 [A7 A8]]]]]]]; remember (ghost_collect S0 bits) as s3 eqn:Es3 end.
    cbn zeta in *. inversion H; subst st' ev; clear H.
    assert (G : nfill s3 = nfill st).
    { subst s3. rewrite ghost_collect_nfill. reflexivity. }
    match goal with |- ieff st ?S' t _ r _ => set (st' := S') in * end.
    assert (K1 : tcont (thr st' t) = [ILeaves bm ls] ++ r).
    { unfold st'. cbn -[Nat.eqb]. unfold updN, th. rewrite A8. cbn -[Nat.eqb]. unfold updN, th. rewrite !Nat.eqb_refl. reflexivity. }
    assert (K2 : sl st' = sl st) by (unfold st'; cbn; rewrite A1; reflexivity).
    assert (K3 : wused st' = wused st) by (unfold st'; cbn; rewrite A4; reflexivity).
    assert (K4 : nfill st' = nfill st) by (unfold st'; cbn; rewrite G; reflexivity).
    assert (K5 : wreg st' = wreg st) by (unfold st'; cbn; rewrite A3; reflexivity).
    assert (K6 : dl st' = dl st) by (unfold st'; cbn; rewrite A2; reflexivity).
    assert (K7 : forall u, tret (thr st' u) = tret (thr st u)).
    { intro u. unfold st'. cbn -[Nat.eqb]. unfold updN, th. rewrite A8. cbn -[Nat.eqb]. unfold updN, th.
      destruct (Nat.eqb_spec u t); subst; rewrite ?Nat.eqb_refl; reflexivity. }
    clearbody st'.
    destruct ok; (eapply (ieff_gen _ _ _ _ _ [ILeaves bm ls]);
      [exact F|exact Hc|exact K1|ie_noy|ie_nop|ie_drop|exact K2|exact K3|exact K4|exact K5|intros; discriminate
      |split; intros; rewrite K6; reflexivity|intros _ _; exact K7|ie_hev|ie_noc ]).
  - inversion H; subst; clear H. ie [IRun].
  - inversion H; subst; clear H. ie [IHandlers bits].
  - inversion H; subst; clear H. eapply (ieff_gen _ _ _ _ _ [IDels bits]);
      [eassumption|eassumption|thr_simpl|ie_noy|ie_nop|ie_drop|reflexivity|reflexivity|reflexivity|reflexivity|intros; discriminate
      |split; intros; cbn; rewrite ?app_nil_r; reflexivity|intros _ _ ?; thr_simpl|ie_hev|ie_noc].
  - (* lock *)
    match type of H with context [exec_lact ?S0 t ?aa ?rr] => destruct (exec_lact S0 t aa rr) as [s2 e2] eqn:E; set (s1 := S0) in * end.
    inversion H; subst st' ev; clear H.
    assert (Hc1 : tcont (thr s1 t) = ILock m a :: r) by (unfold s1; thr_simpl; exact Hc).
    destruct a; cbn [exec_lact] in E.
    + (* LPush *)
      assert (Hp : forall new, s2 = set_cont (set_dl s1 (dl s1 ++ [bit])) t (new ++ r) -> (forall j, In j new -> dropw_ok j /\ ~ is_yield j) ->
                   pushes new = [] -> cont_dels new = [] -> ieff st s2 t (ILock m (LPush bit bm who)) r (ELock m :: e2)).
      { intros new -> Hn Hpn Hcd. constructor.
        - exact F.
        - exists new. split; [unfold s1; thr_simpl|]. split; [intros j Hj; apply Hn; exact Hj|]. split; [intros y w; rewrite Hpn; intros []|].
          intros _ j Hj. apply Hn. exact Hj.
        - repeat split; reflexivity.
        - intro y.
          set (s2 := set_cont (set_dl s1 (dl s1 ++ [bit])) t (new ++ r)).
          assert (Cm : cont_dels (tcont (thr s2 main)) = cont_dels (tcont (thr st main))).
          { destruct (Nat.eq_dec main t) as [E0|N].
            - rewrite E0. replace (tcont (thr s2 t)) with (new ++ r) by (unfold s2; thr_simpl).
              rewrite cont_dels_app, Hcd, Hc. reflexivity.
            - replace (tcont (thr s2 main)) with (tcont (thr st main)); [reflexivity|].
              unfold s2, s1. cbn -[Nat.eqb]. unfold updN, th. cbn -[Nat.eqb]. unfold updN, th. destruct (Nat.eqb_spec main t); [congruence|reflexivity]. }
          assert (Dl : dl s2 = dl st ++ [bit]) by reflexivity.
          unfold pipeline. rewrite Cm, Dl, !in_app_iff. cbn. split.
          + intros [[A|[A|[]]]|A]; [left; left; exact A|right; subst; eauto|left; right; exact A].
          + intros [[A|A]|[m0 [bm0 [h0 A]]]]; [left; left; exact A|right; exact A|inversion A; subst; left; right; left; reflexivity].
        - intros _ _ u. unfold s1. thr_simpl.
        - intros w d. split; [intros [A|A]; [discriminate A|]|intro A; discriminate A].
          exfalso. destruct (climb_reserved s1 bm); inversion E; subst; cbn in A; try contradiction; destruct A as [A|[]]; discriminate A.
        - intros e [<-|A]; [split; intros; discriminate|].
          destruct (climb_reserved s1 bm); inversion E; subst; cbn in A; try contradiction; destruct A as [<-|[]]; split; intros; discriminate. }
      destruct (climb_reserved s1 bm) as [i0|] eqn:Ecl; inversion E; subst s2 e2.
      * apply climb_at_climb in Ecl. destruct Ecl as [k ->]. apply (Hp [IClimb k; IUnlock MDL UNone]); try reflexivity.
        intros j Hj. in_cases Hj; (split; [exact Logic.I|intros [? [? X]]; discriminate X]).
      * apply (Hp [IUnlock MDL UNone]); try reflexivity.
        intros j Hj. in_cases Hj; (split; [exact Logic.I|intros [? [? X]]; discriminate X]).
    + (* LTake *)
      assert (Tm : t = main) by (eapply main_of_mainonly; eauto; reflexivity). subst t.
      unfold ghost_handler in E. inversion E; subst s2 e2.
      eapply (ieff_gen _ _ _ _ _ [IUnlock MDL (UDels (dl s1))]);
        [exact F|exact Hc|unfold s1; thr_simpl|ie_noy|ie_nop|ie_drop|reflexivity|reflexivity|reflexivity|reflexivity|intros; discriminate
        | |intros _ _ ?; unfold s1; thr_simpl|ie_hev|ie_noc].
      split; [intros _; unfold s1; cbn; rewrite !app_nil_r; reflexivity|intro N; congruence].
    + inversion E; subst s2 e2. unfold s1. ie [IUnlock (MCh c) (UChReg c)].
    + destr_all E; repeat match goal with E0 : climb_start _ _ _ = Some _ |- _ => apply climb_at_climb in E0; destruct E0 as [? ->] end;
        inversion E; subst s2 e2; unfold s1.
      * ie [IClimb x; IUnlock (MCh c) (UChPush c m0)].
      * ie [IUnlock (MCh c) (UChPush c m0)].
      * ie [IUnlock (MCh c) (UChPush c m0)].
      * ie [IUnlock (MCh c) (URet (RBool false))].
    + inversion E; subst s2 e2. unfold s1. ie [IUnlock (MCh c) (URet (RBool (negb (copen (chs st c)))))].
    + destruct (copen (chs s1 c)) eqn:Eo; inversion E; subst s2 e2; unfold s1.
      * ie [ILock MDL (LPush (wbit (cw (chs st c))) (wbm (cw (chs st c))) (HChan c)); IUnlock (MCh c) (UChClear c)].
      * ie [IUnlock (MCh c) (UChClear c)].
    + unfold ghost_handler in E. inversion E; subst s2 e2. unfold s1.
      destruct del; ie [IUnlock (MCh c) (UFwd c (if copen (chs st c) then cq (chs st c) else []))].
    + unfold ghost_handler in E. inversion E; subst s2 e2. unfold s1.
      destruct del; [ie [IUnlock (MPq p) (UPqFwd p (precvq (pps st p)) (Some (ppanic (pps st p))))]
                    |ie [IUnlock (MPq p) (UPqFwd p (precvq (pps st p)) None)]].
    + destr_all E; inversion E; subst s2 e2; unfold s1.
      * ie [IUnlock (MPq p) UNone; INotify p].
      * ie [IUnlock (MPq p) UNone].
    + inversion E; subst s2 e2. unfold s1. ie [IUnlock (MPq p) UNone; INotify p].
    + destr_all E; inversion E; subst s2 e2; unfold s1.
      * ie [IUnlock (MPq p) (URet RNoneV)].
      * ie [ICvWait p; ICvReacq p].
      * ie [IUnlock (MPq p) (URet (RVal z))].
    + inversion E; subst s2 e2. unfold s1.
      destruct (precvq (pps st p)).
      * destruct (climb_start _ (pw (pps st p)) (Some (HPipe p))) as [i0|] eqn:Ecs; cbn [olist app].
        -- apply climb_at_climb in Ecs. destruct Ecs as [k ->].
           ie [IUnlock (MPq p) (URet (RBool (negb (pcancel (pps st p))))); IClimb k].
        -- ie [IUnlock (MPq p) (URet (RBool (negb (pcancel (pps st p)))))].
      * ie [IUnlock (MPq p) (URet (RBool (negb (pcancel (pps st p)))))].
    + inversion E; subst s2 e2. unfold s1. ie [IUnlock (MPq p) (URet (RBool (pcancel (pps st p))))].
    + inversion E; subst s2 e2. unfold s1. ie [IUnlock (MPq p) UNone].
  - (* unlock *)
    destruct (exec_uact st t a r) as [s1 e1] eqn:E. inversion H; subst st' ev; clear H.
    destruct a; cbn [exec_uact] in E; inversion E; subst s1 e1; clear E.
    + ie (@nil instr).
    + eapply (ieff_gen _ _ _ _ _ (@nil instr));
        [exact F|exact Hc|thr_simpl|ie_noy|ie_nop|ie_drop|reflexivity|reflexivity|reflexivity|reflexivity|intros; discriminate
        |split; intros; reflexivity|intros N _; exfalso; eapply N; reflexivity|ie_hev|ie_noc].
    + assert (Tm : t = main) by (eapply main_of_mainonly; eauto; reflexivity). subst t.
      eapply (ieff_gen _ _ _ _ _ [IDels l]);
        [exact F|exact Hc|thr_simpl|ie_noy|ie_nop|ie_drop|reflexivity|reflexivity|reflexivity|reflexivity|intros; discriminate
        |split; [intros _; cbn; rewrite !app_nil_r; reflexivity|intro N; congruence]|intros _ _ ?; thr_simpl|ie_hev|ie_noc].
    + ie (@nil instr).
    + eapply (ieff_gen _ _ _ _ _ (@nil instr));
        [exact F|exact Hc|thr_simpl|ie_noy|ie_nop|ie_drop|reflexivity|reflexivity|reflexivity|reflexivity|intros; discriminate
        |split; intros; reflexivity|intros _ N; exfalso; eapply N; reflexivity|ie_hev|ie_noc].
    + ie (@nil instr).
    + eapply (ieff_gen _ _ _ _ _ (@nil instr));
        [exact F|exact Hc|thr_simpl|ie_noy|ie_nop|ie_drop|reflexivity|reflexivity|reflexivity|reflexivity|intros; discriminate
        |split; intros; reflexivity|intros _ _ ?; thr_simpl| | ].
      * intros w d. split; [|intro X; discriminate X]. intros [X|X]; [discriminate X|]. apply in_map_iff in X. destruct X as [z [X _]]. discriminate X.
      * intros e [<-|X]; [split; intros; discriminate|]. apply in_map_iff in X. destruct X as [z [<- _]]. split; intros; discriminate.
    + eapply (ieff_gen _ _ _ _ _ (@nil instr));
        [exact F|exact Hc|thr_simpl|ie_noy|ie_nop|ie_drop|reflexivity|reflexivity|reflexivity|reflexivity|intros; discriminate
        |split; intros; reflexivity|intros _ _ ?; thr_simpl| | ].
      * intros w d. split; [|intro X; discriminate X]. intros [X|X]; [discriminate X|]. apply in_app_or in X. destruct X as [X|X].
        -- apply in_map_iff in X. destruct X as [z [X _]]. discriminate X.
        -- destruct term; [destruct X as [X|[]]; discriminate X|destruct X].
      * intros e [<-|X]; [split; intros; discriminate|]. apply in_app_or in X. destruct X as [X|X].
        -- apply in_map_iff in X. destruct X as [z [<- _]]. split; intros; discriminate.
        -- destruct term; [destruct X as [<-|[]]; split; intros; discriminate|destruct X].
  - inversion H; subst; clear H. ie (@nil instr).
  - match type of H with context [exec_lact ?S0 t ?aa ?rr] => destruct (exec_lact S0 t aa rr) as [s2 e2] eqn:E; set (s1 := S0) in * end.
    inversion H; subst st' ev; clear H. cbn [exec_lact] in E. destr_all E; inversion E; subst s2 e2; unfold s1.
    + ie [IUnlock (MPq p) (URet RNoneV)].
    + ie [ICvWait p; ICvReacq p].
    + ie [IUnlock (MPq p) (URet (RVal z))].
  - inversion H; subst st' ev; clear H.
    match goal with |- ieff st (set_cont (fold_left ?f ?us st) t r) _ _ _ _ =>
      destruct (notify_fold_fields us st) as [_ B];
      assert (D : sl (fold_left f us st) = sl st /\ wused (fold_left f us st) = wused st /\ nfill (fold_left f us st) = nfill st /\
                  wreg (fold_left f us st) = wreg st /\ dl (fold_left f us st) = dl st /\ forall u, tret (thr (fold_left f us st) u) = tret (thr st u));
      [clear; generalize us; intro us0; revert st; induction us0 as [|v us0 IH]; intro st; [repeat split; reflexivity|];
       cbn [fold_left]; destruct (IH (upd_th st v (set_twaiting (th st v) false))) as [X1 [X2 [X3 [X4 [X5 X6]]]]];
       rewrite X1, X2, X3, X4, X5; repeat split; try reflexivity; intro u; rewrite X6; cbn; unfold updN, th; destruct (Nat.eqb_spec u v); subst; reflexivity|];
      set (s1 := fold_left f us st) in * end.
    cbn zeta in *. destruct D as [D1 [D2 [D3 [D4 [D5 D6]]]]].
    eapply (ieff_gen _ _ _ _ _ (@nil instr));
      [exact F|exact Hc|thr_simpl|ie_noy|ie_nop|ie_drop|exact D1|exact D2|exact D3|exact D4|intros; discriminate
      |split; intros; cbn; rewrite D5; reflexivity| |ie_hev|ie_noc].
    intros _ _ u. cbn. unfold updN, th. destruct (Nat.eqb_spec u t); subst; cbn; apply D6.
  - unfold ghost_handler in H. inversion H; subst st' ev; clear H.
    destruct del;
      (eapply (ieff_gen _ _ _ _ _ (@nil instr));
       [exact F|exact Hc|thr_simpl|ie_noy|ie_nop|ie_drop|reflexivity|reflexivity|reflexivity|reflexivity|intros; discriminate
       |split; intros; reflexivity|intros _ _ ?; thr_simpl| |ie_noc];
       intros w d; split; [intros [X|[X|[]]]; [inversion X; reflexivity|discriminate X]|intro X; inversion X; left; reflexivity]).
  - inversion H; subst; clear H. ie (@nil instr).
  - inversion H; subst; clear H. ie (@nil instr).
Qed.

(** ** the monitor relation *)
Lemma m12_b_step : forall m te, m12_b (m12_step m te) = mb_step (m12_b m) te.
Proof.
  intros m [t e]. unfold m12_step. destruct e; try reflexivity.
  - destruct c; reflexivity.
  - destruct (get_tid t (b_cur (m12_b m))) as [c|]; [|reflexivity]. destruct c; try reflexivity; destruct v; reflexivity.
  - destruct h; reflexivity.
Qed.
Lemma m12_b_fold : forall tr m, m12_b (fold_left m12_step tr m) = fold_left mb_step tr (m12_b m).
Proof. induction tr as [|te tr IH]; intro m; [reflexivity|]. cbn [fold_left]. rewrite IH, m12_b_step. reflexivity. Qed.

Record m12_same (m m' : m12) : Prop := {
  ds_begun : m12_begun m' = m12_begun m; ds_done : m12_done m' = m12_done m;
  ds_dead : m12_dead m' = m12_dead m; ds_bad : m12_bad m' = m12_bad m }.
Lemma m12_same_refl : forall m, m12_same m m.
Proof. intro m. constructor; reflexivity. Qed.
Lemma m12_same_trans : forall a b c, m12_same a b -> m12_same b c -> m12_same a c.
Proof. intros a b c [] []. constructor; congruence. Qed.

Definition c12_plain (e : wevent) : Prop :=
  match e with ECmd _ | ERet _ => False | EHandler (HPlain _) _ => False | _ => True end.
Lemma m12_plain_step : forall m t e, c12_plain e -> m12_same m (m12_step m (t, e)).
Proof. intros m t e H. destruct e; cbn in H; try contradiction; try (constructor; reflexivity). destruct h; try contradiction; constructor; reflexivity. Qed.
Lemma m12_plain_fold : forall t ev m, (forall e, In e ev -> c12_plain e) -> m12_same m (fold_left m12_step (evs t ev) m).
Proof.
  induction ev as [|e ev IH]; intros m H; [apply m12_same_refl|]. cbn [evs map fold_left]. fold (evs t ev).
  eapply m12_same_trans; [apply (m12_plain_step m t e); apply H; left; reflexivity|]. apply IH. intros; apply H; right; auto.
Qed.

Inductive dpend := DNone | DBad (t : tid) (w : Z).
Definition dbegun (p : dpend) (m : m12) : list Z := match p with DBad _ _ => tl (m12_begun m) | DNone => m12_begun m end.

Definition prog (st : wstate) (m : m12) (w : Z) : Prop :=
  memZ w (m12_dead m) = true \/
  (exists x, In x (pipeline st) /\ slab_get (sl st) x = Some (HPlain w)) \/
  In (IYieldH (HPlain w) true) (tcont (thr st main)).

Record DRel (p : dpend) (st : wstate) (m : m12) : Prop := {
  d_bad : m12_bad m = false;
  d_uniq : forall x y w, slab_get (sl st) x = Some (HPlain w) -> slab_get (sl st) y = Some (HPlain w) -> x = y;
  d_used : forall x w, slab_get (sl st) x = Some (HPlain w) ->
           (0 <= w < 1000000 /\ wused st w = true) \/ (1000000 <= w < 1000000 + nfill st);
  d_nfill : 0 <= nfill st;
  d_ypos : forall t i r0 j, tcont (thr st t) = i :: r0 -> In j r0 -> ~ is_yield j;
  d_ymain : forall t j, t <> main -> In j (tcont (thr st t)) -> ~ is_yield j;
  d_y : forall w d, In (IYieldH (HPlain w) d) (tcont (thr st main)) ->
        memZ w (m12_dead m) = false /\
        (d = true -> memZ w (dbegun p m) = true /\ (forall x, slab_get (sl st) x <> Some (HPlain w)) /\
                     0 <= w < 1000000 /\ wused st w = true);
  d_dead : forall w, memZ w (m12_dead m) = true ->
           0 <= w < 1000000 /\ wused st w = true /\ forall x, slab_get (sl st) x <> Some (HPlain w);
  d_push : forall t x w, In (x, HPlain w) (tpushes (thr st t)) ->
           memZ w (dbegun p m) = true /\ 0 <= w < 1000000 /\ wused st w = true;
  d_pipe : forall x w, In x (pipeline st) -> slab_get (sl st) x = Some (HPlain w) ->
           memZ w (dbegun p m) = true /\ 0 <= w < 1000000 /\ wused st w = true;
  d_done : forall w, memZ w (m12_done m) = true -> prog st m w;
  d_cmd : forall t w, tcur (thr st t) = Some (CDropW w) ->
          (p = DBad t w /\ exists old, m12_begun m = w :: old) \/
          (p <> DBad t w /\ memZ w (dbegun p m) = true /\ tret (thr st t) = RUnit /\
           (forall j, In j (tcont (thr st t)) -> dropw_ok j) /\
           ((exists x, In (x, HPlain w) (pushes (tcont (thr st t)))) \/ prog st m w));
  d_pbad : forall t w, p = DBad t w -> tcur (thr st t) = Some (CDropW w) /\ tcont (thr st t) = [] }.

Lemma d_msame : forall p st m m', DRel p st m -> m12_same m m' -> DRel p st m'.
Proof.
  intros p st m m' R [M1 M2 M3 M4].
  assert (Bg : dbegun p m' = dbegun p m) by (unfold dbegun; rewrite M1; reflexivity).
  assert (Pg : forall w, prog st m' w <-> prog st m w) by (intro w; unfold prog; rewrite M3; tauto).
  constructor; intros; rewrite ?M1, ?M2, ?M3, ?M4, ?Bg, ?Pg in *.
  - apply (d_bad p st m R).
  - eapply (d_uniq p st m R); eauto.
  - eapply (d_used p st m R); eauto.
  - apply (d_nfill p st m R).
  - eapply (d_ypos p st m R); eauto.
  - eapply (d_ymain p st m R); eauto.
  - eapply (d_y p st m R); eauto.
  - eapply (d_dead p st m R); eauto.
  - eapply (d_push p st m R); eauto.
  - eapply (d_pipe p st m R); eauto.
  - eapply (d_done p st m R); eauto.
  - eapply (d_cmd p st m R); eauto.
  - eapply (d_pbad p st m R); eauto.
Qed.

Lemma tret_other : forall st st' t u i r ev,
  CInv (core st) -> tcont (thr st t) = i :: r -> exec_instr st t i r = (st', ev) -> u <> t -> tret (thr st' u) = tret (thr st u).
Proof.
  intros st st' t u i r ev I Hc H Hu.
  assert (G : (forall m v, i <> IUnlock m (URet v)) -> (forall m c x, i <> IUnlock m (UChPush c x)) -> tret (thr st' u) = tret (thr st u)).
  { intros A B. apply (e_tret _ _ _ _ _ _ (exec_instr_eff _ _ _ _ _ _ I Hc H) A B). }
  destruct i; try (apply G; intros; discriminate).
  destruct a; try (apply G; intros; discriminate); cbn [exec_instr exec_uact] in H; inversion H; subst st' ev; clear H G;
    cbn -[Nat.eqb]; unfold updN, th; cbn -[Nat.eqb]; unfold updN, th; destruct (Nat.eqb_spec u t); try congruence; reflexivity.
Qed.

Lemma tpushes_cons_cont : forall x i r, tcont x = i :: r -> tpushes x = push_of i ++ pushes r ++ pushes (tfinal x).
Proof. intros x i r E. unfold tpushes. rewrite E, pushes_cons, <- app_assoc. reflexivity. Qed.

Lemma in_push_of : forall i y h, In (y, h) (push_of i) -> exists m bm, i = ILock m (LPush y bm h).
Proof.
  intros i y h H. destruct i; cbn in H; try contradiction. destruct a; cbn in H; try contradiction.
  destruct H as [E|[]]. inversion E; subst. eauto.
Qed.

(** one instruction: the monitor may have seen the call of a plain waker's handler *)
Lemma d_instr_step : forall st st' m m' t i r ev,
  CInv (core st) -> SlInv st -> DRel DNone st m -> tcont (thr st t) = i :: r -> ieff st st' t i r ev ->
  (forall u, u <> t -> tret (thr st' u) = tret (thr st u)) ->
  m12_begun m' = m12_begun m -> m12_done m' = m12_done m -> m12_bad m' = false ->
  (forall w, memZ w (m12_dead m') = true <-> memZ w (m12_dead m) = true \/ i = IYieldH (HPlain w) true) ->
  DRel DNone st' m'.
Proof.
  intros st st' m m' t i r ev I S R Hc [F [new [Hc' [Hny [Hnp Hnd]]]] [Esl [Ewu [Enf _]]] Hpipe Htret _ _] Hto M1 M2 M4 M3.
  destruct F as [Hn [Hf Ho]].
  assert (Cur : forall u, tcur (thr st' u) = tcur (thr st u)) by (intro u; apply Hf).
  assert (Fin : forall u, tfinal (thr st' u) = tfinal (thr st u)) by (intro u; apply Hf).
  assert (Tp : forall u, u <> t -> tpushes (thr st' u) = tpushes (thr st u)).
  { intros u Hu. unfold tpushes. rewrite (Ho u Hu), Fin. reflexivity. }
  assert (TpNew : forall x w, In (x, HPlain w) (tpushes (thr st' t)) -> In (x, HPlain w) (tpushes (thr st t))).
  { intros x w H. unfold tpushes in *. rewrite Hc', Fin, pushes_app in H. rewrite Hc, pushes_cons.
    apply in_app_or in H. destruct H as [H|H]; [|apply in_or_app; right; exact H].
    apply in_app_or in H. destruct H as [H|H]; [exfalso; destruct (Hnp x _ H) as [c0 E0]; discriminate E0|]. apply in_or_app. left. apply in_or_app. right. exact H. }
  assert (Claim : forall x h m0 bm, i = ILock m0 (LPush x bm h) -> slab_get (sl st) x = Some h).
  { intros x h m0 bm E. apply (sl_claim st S). right; right. exists t. rewrite (tpushes_cons_cont _ _ _ Hc), E. left. reflexivity. }
  assert (Yr : forall w d, In (IYieldH (HPlain w) d) (tcont (thr st' main)) ->
               In (IYieldH (HPlain w) d) (tcont (thr st main)) /\ forall w0 d0, i <> IYieldH (HPlain w0) d0).
  { intros w d H. destruct (Nat.eq_dec main t) as [E|E].
    - rewrite E in *. rewrite Hc' in H. rewrite Hc. apply in_app_or in H.
      destruct H as [H|H]; [exfalso; apply (Hny _ H); eexists; eexists; reflexivity|]. split; [right; exact H|].
      intros w0 d0 Ei. apply (d_ypos _ st m R t i r _ Hc H). eexists; eexists; reflexivity.
    - rewrite (Ho main E) in H. split; [exact H|]. intros w0 d0 Ei.
      apply (d_ymain _ st m R t i (fun X => E (eq_sym X))); [rewrite Hc; left; reflexivity|subst i; eexists; eexists; reflexivity]. }
  assert (Dm : forall w, memZ w (m12_dead m) = true -> memZ w (m12_dead m') = true) by (intros w H; apply M3; left; exact H).
  assert (Pg : forall w, prog st m w -> prog st' m' w).
  { intros w [A|[[x [A B]]|A]]; [left; apply Dm; exact A|right; left; exists x; split; [apply Hpipe; left; exact A|rewrite Esl; exact B]|].
    destruct (Nat.eq_dec main t) as [E|E]; [|right; right; rewrite (Ho main E); exact A].
    rewrite E in A. rewrite Hc in A. destruct A as [A|A]; [left; apply M3; right; exact A|].
    right; right. rewrite E, Hc'. apply in_or_app. right. exact A. }
  constructor.
  - exact M4.
  - intros x y w. rewrite Esl. apply (d_uniq _ st m R).
  - intros x w. rewrite Esl, Ewu, Enf. apply (d_used _ st m R).
  - rewrite Enf. apply (d_nfill _ st m R).
  - intros u i0 r0 j Hk Hj. destruct (Nat.eq_dec u t) as [->|Hu]; [|rewrite (Ho u Hu) in Hk; apply (d_ypos _ st m R u i0 r0 j Hk Hj)].
    rewrite Hc' in Hk. destruct new as [|n0 new'].
    + cbn in Hk. apply (d_ypos _ st m R t i r j Hc). rewrite Hk. right. exact Hj.
    + cbn in Hk. inversion Hk; subst. apply in_app_or in Hj. destruct Hj as [Hj|Hj]; [apply Hny; right; exact Hj|apply (d_ypos _ st m R t i r j Hc Hj)].
  - intros u j Hu Hj. destruct (Nat.eq_dec u t) as [->|Hn0]; [|rewrite (Ho u Hn0) in Hj; apply (d_ymain _ st m R u j Hu Hj)].
    rewrite Hc' in Hj. apply in_app_or in Hj. destruct Hj as [Hj|Hj]; [apply Hny; exact Hj|apply (d_ymain _ st m R t j Hu); rewrite Hc; right; exact Hj].
  - intros w d H. rewrite Esl, Ewu. unfold dbegun. rewrite M1. destruct (Yr w d H) as [H1 H2].
    destruct (d_y _ st m R w d H1) as [D1 D2]. split; [|exact D2].
    destruct (memZ w (m12_dead m')) eqn:Ed; [|reflexivity]. apply M3 in Ed. destruct Ed as [Ed|Ed]; [congruence|exfalso; exact (H2 _ _ Ed)].
  - intros w H. rewrite Esl, Ewu. apply M3 in H. destruct H as [H|H]; [apply (d_dead _ st m R w H)|].
    assert (Tm : t = main).
    { destruct (Nat.eq_dec t main) as [E|E]; [exact E|exfalso].
      apply (d_ymain _ st m R t i E); [rewrite Hc; left; reflexivity|subst i; eexists; eexists; reflexivity]. }
    subst t. destruct (d_y _ st m R w true) as [D1 D2]; [rewrite Hc, H; left; reflexivity|].
    destruct (D2 eq_refl) as [_ [D3 [D4 D5]]]. auto.
  - intros u x w H. rewrite Ewu. unfold dbegun. rewrite M1. destruct (Nat.eq_dec u t) as [->|Hu]; [apply (d_push _ st m R t x w); apply TpNew; exact H|].
    rewrite (Tp u Hu) in H. apply (d_push _ st m R u x w H).
  - intros x w Hin Hs. rewrite Esl in Hs. rewrite Ewu. unfold dbegun. rewrite M1. apply Hpipe in Hin. destruct Hin as [Hin|[m0 [bm [h E]]]]; [apply (d_pipe _ st m R x w Hin Hs)|].
    pose proof (Claim x h m0 bm E) as Cl. rewrite Cl in Hs. inversion Hs; subst h.
    apply (d_push _ st m R t x w). rewrite (tpushes_cons_cont _ _ _ Hc), E. left. reflexivity.
  - intros w H. apply Pg. rewrite M2 in H. apply (d_done _ st m R w H).
  - intros u w. rewrite Cur. intro Hu. destruct (d_cmd _ st m R u w Hu) as [[D _]|[D1 [D2 [D3 [D4 D5]]]]]; [discriminate D|]. right.
    split; [discriminate|]. unfold dbegun in *. rewrite M1. split; [exact D2|].
    destruct (Nat.eq_dec u t) as [->|Hn0].
    + assert (Di : dropw_ok i) by (apply D4; rewrite Hc; left; reflexivity).
      split; [|split].
      * rewrite Htret; [exact D3| |]; intros; intro E; subst i; exact Di.
      * intros j Hj. rewrite Hc' in Hj. apply in_app_or in Hj. destruct Hj as [Hj|Hj]; [apply Hnd; auto|apply D4; rewrite Hc; right; exact Hj].
      * destruct D5 as [[x Hx]|D5]; [|right; apply Pg; exact D5].
        rewrite Hc, pushes_cons in Hx. apply in_app_or in Hx. destruct Hx as [Hx|Hx].
        -- right. right; left. exists x. apply in_push_of in Hx. destruct Hx as [m0 [bm E]].
           split; [apply Hpipe; right; eauto|rewrite Esl; apply (Claim x _ m0 bm E)].
        -- left. exists x. rewrite Hc', pushes_app. apply in_or_app. right. exact Hx.
    + rewrite (Ho u Hn0), (Hto u Hn0).
      split; [exact D3|]. split; [exact D4|]. destruct D5 as [D5|D5]; [left; exact D5|right; apply Pg; exact D5].
  - intros u w H. discriminate H.
Qed.

Lemma exec_instr_D : forall st m t i r st' ev,
  CInv (core st) -> SlInv st -> DRel DNone st m -> tcont (thr st t) = i :: r -> exec_instr st t i r = (st', ev) ->
  DRel DNone st' (fold_left m12_step (evs t ev) m).
Proof.
  intros st m t i r st' ev I S R Hc H.
  pose proof (exec_instr_eff _ _ _ _ _ _ I Hc H) as E.
  assert (Hto : forall u, u <> t -> tret (thr st' u) = tret (thr st u)) by (intros u Hu; eapply tret_other; eauto).
  assert (Dec : (exists w d, i = IYieldH (HPlain w) d) \/ (forall w d, i <> IYieldH (HPlain w) d)).
  { destruct i; try (right; intros; discriminate). destruct h; try (right; intros; discriminate). left; eauto. }
  destruct Dec as [[w [d Ei]]|Ni].
  - subst i. pose proof H as H0. cbn [exec_instr] in H0. unfold ghost_handler in H0. injection H0 as _ He. rewrite <- He.
    cbn [evs map fold_left]. eapply d_msame; [|apply m12_plain_step; cbn; auto].
    assert (Tm : t = main).
    { destruct (Nat.eq_dec t main) as [E0|E0]; [exact E0|exfalso].
      apply (d_ymain _ st m R t (IYieldH (HPlain w) d) E0); [rewrite Hc; left; reflexivity|eexists; eexists; reflexivity]. }
    destruct (d_y _ st m R w d) as [D1 D2]; [rewrite <- Tm, Hc; left; reflexivity|].
    eapply d_instr_step; eauto; cbn.
    + rewrite (d_bad _ st m R), D1. cbn. destruct d; [|reflexivity]. destruct (D2 eq_refl) as [D3 _]. cbn [dbegun] in D3. rewrite D3. reflexivity.
    + intro w0. destruct d.
      * cbn. destruct (Z.eqb_spec w w0) as [<-|Nw]; cbn; [split; auto|].
        split; [auto|]. intros [A|A]; [exact A|inversion A; congruence].
      * split; [auto|]. intros [A|A]; [exact A|discriminate A].
  - eapply d_msame; [|apply m12_plain_fold].
    + eapply d_instr_step; eauto; try reflexivity; [apply (d_bad _ st m R)|].
      intro w. split; [auto|]. intros [A|A]; [exact A|exfalso; eapply Ni; eauto].
    + intros e He. unfold c12_plain. destruct (e_noc _ _ _ _ _ _ E e He) as [N1 N2].
      destruct e; auto; try (eapply N1; reflexivity); try (eapply N2; reflexivity).
      destruct h; auto. apply (e_hev _ _ _ _ _ _ E) in He. eapply Ni; eauto.
Qed.

(** ** normalisation at the end of a step of the main thread *)
Lemma slab_get_remove_same : forall s b, slab_get (slab_remove s b) b = None.
Proof.
  intros. unfold slab_get, slab_remove. cbn. rewrite updZ_same. destruct ((0 <=? b) && (b <? slen s)); reflexivity.
Qed.

Lemma wh_del_none : forall s b, wh_del s b = None -> b mod 4096 = 0 \/ slab_get s b = None.
Proof.
  intros s b H. unfold wh_del in H. rewrite waker_del_guard_spec in H.
  destruct (b mod 4096 =? 0) eqn:E; [left; apply Z.eqb_eq; exact E|]. cbn in H. destruct (slab_get s b); [discriminate|right; reflexivity].
Qed.

Lemma reserved_not_plain : forall c b w, SInv c -> b mod 4096 = 0 -> slab_get (c_sl c) b <> Some (HPlain w).
Proof.
  intros c b w S Hb G. apply slab_get_some in G. destruct G as [R E].
  apply (s_res c S b R) in Hb. rewrite Hb in E. discriminate E.
Qed.

Definition norm_head (i : instr) : Prop :=
  match i with IRun | IHandlers _ | IDels _ | IBms [] | ILeaves _ [] => True | _ => False end.

Lemma d_NS_step : forall st s acc i r s' acc' new m,
  DRel DNone (NS st s acc (i :: r)) m -> norm_head i ->
  pushes new = [] ->
  (forall j, In j (tl new) -> ~ is_yield j) ->
  (forall h d, hd_error new = Some (IYieldH h d) -> exists w, h = HPlain w /\ memZ w (m12_dead m) = false /\
     (d = true -> memZ w (m12_begun m) = true /\ (forall x, slab_get s' x <> Some (HPlain w)) /\ 0 <= w < 1000000 /\ wused st w = true)) ->
  (forall y h, slab_get s' y = Some h -> slab_get s y = Some h) ->
  (forall y, In y (cont_dels new) -> In y (dels_of i)) ->
  (forall y w, In y (dl st ++ cont_dels (i :: r)) -> slab_get s y = Some (HPlain w) ->
     (In y (dl st ++ cont_dels (new ++ r)) /\ slab_get s' y = Some (HPlain w)) \/ hd_error new = Some (IYieldH (HPlain w) true)) ->
  DRel DNone (NS st s' acc' (new ++ r)) m.
Proof.
  intros st s acc i r s' acc' new m R Hi Hpn Hny Hy Hs Hd Hp.
  destruct (NS_fields st s acc (i :: r)) as [A1 [A2 [A3 [A4 [A5 [A6 [A7 [A8 [A9 A10]]]]]]]]].
  destruct (NS_fields st s' acc' (new ++ r)) as [B1 [B2 [B3 [B4 [B5 [B6 [B7 [B8 [B9 B10]]]]]]]]].
  assert (An : nfill (NS st s acc (i :: r)) = nfill st) by reflexivity.
  assert (Bn : nfill (NS st s' acc' (new ++ r)) = nfill st) by reflexivity.
  assert (Pk : pipeline (NS st s acc (i :: r)) = dl st ++ cont_dels (i :: r)) by (unfold pipeline; rewrite A2, A8; reflexivity).
  assert (Pk' : pipeline (NS st s' acc' (new ++ r)) = dl st ++ cont_dels (new ++ r)) by (unfold pipeline; rewrite B2, B8; reflexivity).
  assert (Hsub : forall y, In y (dl st ++ cont_dels (new ++ r)) -> In y (dl st ++ cont_dels (i :: r))).
  { intros y Hin. rewrite cont_dels_app in Hin. rewrite cont_dels_cons. rewrite !in_app_iff in *.
    destruct Hin as [Hin|[Hin|Hin]]; auto. }
  assert (Ni : ~ is_yield i) by (intros [h [d E]]; subst i; exact Hi).
  assert (Nd : ~ dropw_ok i) by (destruct i; cbn in Hi; try contradiction; cbn; auto).
  assert (Pi : push_of i = []) by (destruct i; cbn in Hi; try contradiction; reflexivity).
  assert (Ry : forall j, In j r -> ~ is_yield j) by (intros j Hj; apply (d_ypos _ _ m R main i r j A8 Hj)).
  assert (Th : forall u, u <> main -> thr (NS st s' acc' (new ++ r)) u = thr (NS st s acc (i :: r)) u).
  { intros u Hu. rewrite A10, B10; auto. }
  assert (Tp : forall u, tpushes (thr (NS st s' acc' (new ++ r)) u) = tpushes (thr (NS st s acc (i :: r)) u)).
  { intro u. destruct (Nat.eq_dec u main) as [->|E]; [|rewrite Th; auto].
    unfold tpushes. rewrite A8, B8, A9, B9, pushes_app, Hpn, pushes_cons, Pi. reflexivity. }
  assert (Hhd : forall j, In j (new ++ r) -> is_yield j -> hd_error new = Some j).
  { intros j Hj Yj. apply in_app_or in Hj. destruct Hj as [Hj|Hj]; [|exfalso; exact (Ry j Hj Yj)].
    destruct new as [|n0 new']; [destruct Hj|]. destruct Hj as [->|Hj]; [reflexivity|exfalso; exact (Hny j Hj Yj)]. }
  assert (Pg : forall w, prog (NS st s acc (i :: r)) m w -> prog (NS st s' acc' (new ++ r)) m w).
  { intros w [A|[[x [A B]]|A]]; [left; exact A| |].
    - rewrite Pk in A. rewrite A1 in B. destruct (Hp x w A B) as [[C1 C2]|C].
      + right; left. exists x. rewrite Pk', B1. auto.
      + right; right. rewrite B8. destruct new as [|n0 new']; [discriminate C|]. inversion C; subst. left. reflexivity.
    - rewrite A8 in A. destruct A as [A|A]; [exfalso; apply Ni; subst i; eexists; eexists; reflexivity|].
      exfalso. apply (Ry _ A). eexists; eexists; reflexivity. }
  constructor.
  - apply (d_bad _ _ m R).
  - intros x y w. rewrite B1. intros G1 G2. apply (d_uniq _ _ m R x y w); rewrite A1; apply Hs; assumption.
  - intros x w. rewrite B1, B4, Bn. intro G. rewrite <- A4, <- An. apply (d_used _ _ m R x w). rewrite A1. apply Hs. exact G.
  - rewrite Bn, <- An. apply (d_nfill _ _ m R).
  - intros u i0 r0 j Hk Hj. destruct (Nat.eq_dec u main) as [->|Hu]; [|rewrite Th in Hk by auto; apply (d_ypos _ _ m R u i0 r0 j Hk Hj)].
    rewrite B8 in Hk. destruct new as [|n0 new'].
    + cbn in Hk. apply Ry. rewrite Hk. right. exact Hj.
    + cbn in Hk. inversion Hk; subst. apply in_app_or in Hj. destruct Hj as [Hj|Hj]; [apply Hny; exact Hj|apply Ry; exact Hj].
  - intros u j Hu Hj. rewrite Th in Hj by auto. apply (d_ymain _ _ m R u j Hu Hj).
  - intros w d H. rewrite B8 in H. pose proof (Hhd _ H ltac:(eexists; eexists; reflexivity)) as Hh.
    destruct (Hy _ _ Hh) as [w0 [E0 [Y1 Y2]]]. inversion E0; subst w0. split; [exact Y1|]. rewrite B1, B4. exact Y2.
  - intros w H. rewrite B1, B4. destruct (d_dead _ _ m R w H) as [D1 [D2 D3]]. rewrite A4 in D2. split; [exact D1|]. split; [exact D2|].
    intros x G. apply (D3 x). rewrite A1. apply Hs. exact G.
  - intros u x w H. rewrite B4, <- A4. rewrite Tp in H. apply (d_push _ _ m R u x w H).
  - intros x w Hin G. rewrite B4, <- A4. rewrite B1 in G. rewrite Pk' in Hin. apply (d_pipe _ _ m R x w); [rewrite Pk; apply Hsub; exact Hin|rewrite A1; apply Hs; exact G].
  - intros w H. apply Pg. apply (d_done _ _ m R w H).
  - intros u w Hu. destruct (Nat.eq_dec u main) as [->|Hn].
    + exfalso. assert (Hu0 : tcur (thr (NS st s acc (i :: r)) main) = Some (CDropW w)) by (rewrite <- Hu; unfold NS; thr_simpl).
      destruct (d_cmd _ _ m R main w Hu0) as [[D _]|[_ [_ [_ [D4 _]]]]]; [discriminate D|]. apply Nd. apply D4. rewrite A8. left. reflexivity.
    + rewrite Th in * by auto. destruct (d_cmd _ _ m R u w Hu) as [[D _]|[D1 [D2 [D3 [D4 D5]]]]]; [discriminate D|]. right.
      split; [exact D1|]. split; [exact D2|]. split; [exact D3|]. split; [exact D4|]. destruct D5 as [D5|D5]; [left; exact D5|right; apply Pg; exact D5].
  - intros u w H. discriminate H.
Qed.

Lemma norm_D : forall fuel st s acc k ev s1 acc1 k1 ev1 m,
  CInv (core (NS st s acc k)) -> SlInv (NS st s acc k) -> DRel DNone (NS st s acc k) m ->
  norm fuel s acc k ev = (s1, acc1, k1, ev1) -> DRel DNone (NS st s1 acc1 k1) m.
Proof.
  induction fuel as [|f IH]; intros st s acc k ev s1 acc1 k1 ev1 m I S R H; cbn [norm] in H.
  - inversion H; subst. exact R.
  - assert (StepI : forall s' acc' k', f_norm1 (core (NS st s acc k)) = Some (set_norm (core (NS st s acc k)) s' acc' k') ->
                                      CInv (core (NS st s' acc' k'))).
    { intros s' acc' k' E. eapply pres_norm1 in E; eauto.
      eapply CInv_ceq; [|exact E]. eapply ceq_trans; [apply NS_ceq|apply NS_NS]. }
    assert (Simple : forall i r new acc', k = i :: r -> norm_head i -> pushes new = [] -> (forall j, In j new -> ~ is_yield j) ->
              cont_dels new = dels_of i -> DRel DNone (NS st s acc' (new ++ r)) m).
    { intros i r new acc' -> Hi Hp Hy Hd. apply (d_NS_step st s acc i r s acc' new m R Hi Hp).
      - intros j Hj. apply Hy. destruct new; [destruct Hj|right; exact Hj].
      - intros h d E. exfalso. destruct new as [|n0 new']; [discriminate E|]. inversion E; subst. apply (Hy _ (or_introl eq_refl)). eexists; eexists; reflexivity.
      - auto.
      - intros y Hin. rewrite Hd in Hin. exact Hin.
      - intros y w Hin G. left. split; [|exact G]. rewrite cont_dels_app, Hd. rewrite cont_dels_cons in Hin. exact Hin. }
    destruct k as [|i r]; [inversion H; subst; exact R|].
    destruct i as [c| |[|bm bms]|bm [|a ls]| |[|b bs]|[|b bs]| | | | | | | |];
      try (inversion H; subst; exact R).
    + eapply IH; [| | |exact H].
      * apply StepI. reflexivity.
      * eapply sl_NS_frame; [exact S| |]; reflexivity.
      * apply (Simple _ r (@nil instr) acc eq_refl Logic.I eq_refl); [intros j []|reflexivity].
    + eapply IH; [| | |exact H].
      * apply StepI. reflexivity.
      * eapply sl_NS_frame; [exact S| |]; reflexivity.
      * apply (Simple _ r (@nil instr) acc eq_refl Logic.I eq_refl); [intros j []|reflexivity].
    + eapply IH; [| | |exact H].
      * apply StepI. reflexivity.
      * eapply sl_NS_frame; [exact S| |]; reflexivity.
      * apply (Simple _ r [IHandlers acc] [] eq_refl Logic.I eq_refl); [|reflexivity].
        intros j [<-|[]] [h [d E]]; discriminate E.
    + eapply IH; [| | |exact H].
      * apply StepI. reflexivity.
      * eapply sl_NS_frame; [exact S| |]; reflexivity.
      * apply (Simple _ r (@nil instr) acc eq_refl Logic.I eq_refl); [intros j []|reflexivity].
    + destruct (slab_get s b) as [h|] eqn:E.
      * inversion H; subst s1 acc1 k1 ev1. destruct (hinstrs_plain h false) as [Dh Ph].
        replace (hinstrs h false ++ IHandlers bs :: r) with ((hinstrs h false ++ [IHandlers bs]) ++ r) by (rewrite <- app_assoc; reflexivity).
        apply (d_NS_step st s acc _ r s acc _ m R Logic.I).
        -- rewrite pushes_app, Ph. reflexivity.
        -- intros j Hj [h0 [d0 Ej]]. subst j. destruct h; cbn in Hj; repeat (destruct Hj as [Hj|Hj]; [discriminate Hj|]); contradiction.
        -- intros h0 d0 Eh. destruct h as [w| |c0|p0]; cbn in Eh; try discriminate Eh. inversion Eh; subst h0 d0.
           exists w. split; [reflexivity|]. split; [|intro X; discriminate X].
           destruct (memZ w (m12_dead m)) eqn:Ed; [|reflexivity]. exfalso.
           destruct (d_dead _ _ m R w Ed) as [_ [_ D3]]. apply (D3 b). exact E.
        -- auto.
        -- intros y Hin. rewrite cont_dels_app, Dh in Hin. destruct Hin.
        -- intros y w Hin G. left. split; [|exact G]. rewrite cont_dels_app, cont_dels_app, Dh. rewrite cont_dels_cons in Hin. exact Hin.
      * eapply IH; [| | |exact H].
        -- apply StepI. cbn. unfold updN, th, main. cbn. rewrite E. reflexivity.
        -- eapply sl_NS_frame; [exact S| |]; reflexivity.
        -- apply (Simple _ r [IHandlers bs] acc eq_refl Logic.I eq_refl); [|reflexivity].
           intros j [<-|[]] [h [d E0]]; discriminate E0.
    + eapply IH; [| | |exact H].
      * apply StepI. reflexivity.
      * eapply sl_NS_frame; [exact S| |]; reflexivity.
      * apply (Simple _ r (@nil instr) acc eq_refl Logic.I eq_refl); [intros j []|reflexivity].
    + destruct (wh_del s b) as [[h s']|] eqn:E.
      * inversion H; subst s1 acc1 k1 ev1. pose proof E as E0. apply wh_del_some in E0. destruct E0 as [Hb [Gb ->]].
        destruct (hinstrs_plain h true) as [Dh Ph].
        assert (Pin : In b (pipeline (NS st s acc (IDels (b :: bs) :: r)))).
        { unfold pipeline. apply in_or_app. right. replace (tcont (thr (NS st s acc (IDels (b :: bs) :: r)) main)) with (IDels (b :: bs) :: r) by (unfold NS; thr_simpl).
          rewrite cont_dels_cons. left. reflexivity. }
        pose proof (sl_nodup _ S) as Nd. unfold pipeline in Nd.
        replace (tcont (thr (NS st s acc (IDels (b :: bs) :: r)) main)) with (IDels (b :: bs) :: r) in Nd by (unfold NS; thr_simpl).
        change (dl (NS st s acc (IDels (b :: bs) :: r))) with (dl st) in Nd. rewrite cont_dels_cons in Nd. cbn [dels_of] in Nd.
        replace (hinstrs h true ++ IDels bs :: r) with ((hinstrs h true ++ [IDels bs]) ++ r) by (rewrite <- app_assoc; reflexivity).
        apply (d_NS_step st s acc _ r (slab_remove s b) acc _ m R Logic.I).
        -- rewrite pushes_app, Ph. reflexivity.
        -- intros j Hj [h0 [d0 Ej]]. subst j. destruct h; cbn in Hj; repeat (destruct Hj as [Hj|Hj]; [discriminate Hj|]); contradiction.
        -- intros h0 d0 Eh. destruct h as [w| |c0|p0]; cbn in Eh; try discriminate Eh. inversion Eh; subst h0 d0.
           exists w. split; [reflexivity|]. split.
           ++ destruct (memZ w (m12_dead m)) eqn:Ed; [|reflexivity]. exfalso.
              destruct (d_dead _ _ m R w Ed) as [_ [_ D3]]. apply (D3 b). exact Gb.
           ++ intros _. destruct (d_pipe _ _ m R b w Pin Gb) as [P1 [P2 P3]]. split; [exact P1|]. split; [|split; [exact P2|exact P3]].
              intros x Gx. destruct (Z.eq_dec x b) as [->|Nx]; [rewrite slab_get_remove_same in Gx; discriminate Gx|].
              rewrite slab_get_remove_other in Gx by exact Nx. apply Nx. apply (d_uniq _ _ m R x b w Gx Gb).
        -- intros y h0 G. destruct (Z.eq_dec y b) as [->|Ny]; [rewrite slab_get_remove_same in G; discriminate G|].
           rewrite slab_get_remove_other in G by exact Ny. exact G.
        -- intros y Hin. rewrite cont_dels_app, Dh in Hin. cbn in Hin. rewrite app_nil_r in Hin. right. exact Hin.
        -- intros y w Hin G. destruct (Z.eq_dec y b) as [->|Ny].
           ++ right. change (slab_get (sl (NS st s acc (IDels (b :: bs) :: r))) b) with (slab_get s b) in Gb. rewrite Gb in G. inversion G; subst h. reflexivity.
           ++ left. split; [|rewrite slab_get_remove_other by exact Ny; exact G].
              rewrite cont_dels_app, cont_dels_app, Dh. cbn [app cont_dels flat_map dels_of]. rewrite app_nil_r.
              rewrite cont_dels_cons in Hin. cbn [dels_of] in Hin. rewrite !in_app_iff in *. cbn in Hin.
              destruct Hin as [Hin|[[Hin|Hin]|Hin]]; auto. congruence.
      * eapply IH; [| | |exact H].
        -- apply StepI. cbn. unfold updN, th, main. cbn. rewrite E. reflexivity.
        -- eapply (sl_NS_del st s acc b bs r); [exact S|left; reflexivity| |]; [rewrite cont_dels_cons; reflexivity|rewrite pushes_cons; reflexivity].
        -- replace (IDels bs :: r) with ([IDels bs] ++ r) by reflexivity.
           apply (d_NS_step st s acc _ r s acc _ m R Logic.I).
           ++ reflexivity.
           ++ intros j [].
           ++ intros h d X. discriminate X.
           ++ auto.
           ++ intros y Hin. cbn in Hin. rewrite app_nil_r in Hin. right. exact Hin.
           ++ intros y w Hin G. left. split; [|exact G].
              destruct (Z.eq_dec y b) as [->|Ny].
              ** exfalso. apply wh_del_none in E. destruct E as [E|E]; [|congruence].
                 eapply (reserved_not_plain (core (NS st s acc (IDels (b :: bs) :: r))) b w (i_slab _ I) E). exact G.
              ** rewrite cont_dels_cons in Hin. cbn [dels_of] in Hin. cbn [app]. rewrite cont_dels_cons. cbn [dels_of]. rewrite !in_app_iff in *. cbn in Hin.
                 destruct Hin as [Hin|[[Hin|Hin]|Hin]]; auto. congruence.
Qed.

(** ** beginning a command *)
Lemma wh_add_new : forall st h st1 wi,
  CInv (core st) -> h <> HReserved -> wh_add st h = Some (st1, wi) ->
  forall x h', slab_get (sl st1) x = Some h' -> slab_get (sl st) x = Some h' \/ (x = wbit wi /\ h' = h) \/ h' = HReserved.
Proof.
  intros st h st1 wi I Hh H. pose proof (i_slab _ I) as S.
  destruct (wh_add_core st h st1 wi H) as [c1 [A [B _]]].
  pose proof (c_add_spec (core st) h c1 wi S Hh A) as P.
  assert (Es : c_sl c1 = sl st1) by (destruct B; auto).
  destruct P as [P1 P2 P3 P4 P5 P6 P7 P8]. rewrite Es in *. cbn [core c_sl] in *. exact P6.
Qed.

(** the slab gains entries; at most one of them belongs to a plain waker, with a fresh id *)
Lemma d_ext : forall p st st' m (N : Prop) x0 w0,
  SlInv st -> DRel p st m -> thr st' = thr st -> dl st' = dl st ->
  (forall x h, slab_get (sl st) x = Some h -> slab_get (sl st') x = Some h) ->
  (forall x w, slab_get (sl st') x = Some (HPlain w) -> slab_get (sl st) x = Some (HPlain w) \/ (N /\ x = x0 /\ w = w0)) ->
  (N -> slab_get (sl st) x0 = None) ->
  (N -> (0 <= w0 < 1000000 /\ wused st w0 = false /\ wused st' w0 = true) \/ (w0 = 1000000 + nfill st /\ nfill st' = nfill st + 1)) ->
  (forall w, wused st w = true -> wused st' w = true) -> nfill st <= nfill st' ->
  DRel p st' m.
Proof.
  intros p st st' m N x0 w0 S R Hth Hdl Hold Hnew Hfr Hw0 Hu Hn.
  assert (Pl : pipeline st' = pipeline st) by (unfold pipeline; rewrite Hth, Hdl; reflexivity).
  pose proof (d_nfill _ _ _ R) as Nf.
  assert (Fresh : forall x, N -> slab_get (sl st) x <> Some (HPlain w0)).
  { intros x Hn0 G. destruct (d_used _ _ _ R x w0 G) as [[A B]|A]; destruct (Hw0 Hn0) as [[C [D _]]|[C _]]; try congruence; lia. }
  assert (Neg : forall w, 0 <= w < 1000000 -> wused st w = true -> (forall x, slab_get (sl st) x <> Some (HPlain w)) ->
                forall x, slab_get (sl st') x <> Some (HPlain w)).
  { intros w Hr Hw Ho x G. destruct (Hnew x w G) as [G0|[Hn0 [-> ->]]]; [exact (Ho x G0)|].
    destruct (Hw0 Hn0) as [[_ [D _]]|[C _]]; [congruence|lia]. }
  assert (Pg : forall w, prog st m w -> prog st' m w).
  { intros w [A|[[x [A B]]|A]]; [left; exact A|right; left; exists x; rewrite Pl; auto|right; right; rewrite Hth; exact A]. }
  constructor.
  - apply (d_bad _ _ _ R).
  - intros x y w G1 G2. destruct (Hnew x w G1) as [A|[Hn0 [F1 F2]]]; destruct (Hnew y w G2) as [B|[Hn1 [E1 E2]]].
    + apply (d_uniq _ _ _ R x y w A B).
    + subst. exfalso. exact (Fresh x Hn1 A).
    + subst. exfalso. exact (Fresh y Hn0 B).
    + congruence.
  - intros x w G. destruct (Hnew x w G) as [A|[Hn0 [-> ->]]].
    + destruct (d_used _ _ _ R x w A) as [[B C]|B]; [left; auto|right; lia].
    + destruct (Hw0 Hn0) as [[C [_ D]]|[C D]]; [left; auto|right; lia].
  - lia.
  - rewrite Hth. apply (d_ypos _ _ _ R).
  - rewrite Hth. apply (d_ymain _ _ _ R).
  - intros w d H. rewrite Hth in H. destruct (d_y _ _ _ R w d H) as [D1 D2]. split; [exact D1|].
    intro Hd. destruct (D2 Hd) as [E1 [E2 [E3 E4]]]. split; [exact E1|]. split; [apply Neg; auto|]. split; [exact E3|apply Hu; exact E4].
  - intros w H. destruct (d_dead _ _ _ R w H) as [D1 [D2 D3]]. split; [exact D1|]. split; [apply Hu; exact D2|apply Neg; auto].
  - intros u x w H. rewrite Hth in H. destruct (d_push _ _ _ R u x w H) as [D1 [D2 D3]]. auto.
  - intros x w Hin G. rewrite Pl in Hin. destruct (Hnew x w G) as [A|[Hn0 [-> ->]]].
    + destruct (d_pipe _ _ _ R x w Hin A) as [D1 [D2 D3]]. auto.
    + exfalso. destruct (sl_occ _ S x0 Hin) as [h G0]. rewrite (Hfr Hn0) in G0. discriminate G0.
  - intros w H. apply Pg. apply (d_done _ _ _ R w H).
  - intros u w. rewrite Hth. intro Hc. destruct (d_cmd _ _ _ R u w Hc) as [D|[D1 [D2 [D3 [D4 D5]]]]]; [left; exact D|right].
    split; [exact D1|]. split; [exact D2|]. split; [exact D3|]. split; [exact D4|]. destruct D5 as [D5|D5]; [left; exact D5|right; apply Pg; exact D5].
  - intros u w H. rewrite Hth. apply (d_pbad _ _ _ R u w H).
Qed.

(** a thread with an empty continuation gets a new one (no handler call, no drop of a plain waker) *)
Lemma d_frame : forall st st' m t,
  DRel DNone st m ->
  sl st' = sl st -> wused st' = wused st -> nfill st' = nfill st -> dl st' = dl st ->
  tcont (thr st t) = [] ->
  (forall u, u <> t -> tcont (thr st' u) = tcont (thr st u) /\
     (forall w, tcur (thr st' u) = Some (CDropW w) -> tcur (thr st u) = Some (CDropW w) /\ tret (thr st' u) = tret (thr st u))) ->
  (forall w, tcur (thr st' t) <> Some (CDropW w)) ->
  (forall j, In j (tcont (thr st' t)) -> ~ is_yield j) ->
  cont_dels (tcont (thr st' t)) = [] ->
  (forall u x w, In (x, HPlain w) (tpushes (thr st' u)) -> In (x, HPlain w) (tpushes (thr st u))) ->
  DRel DNone st' m.
Proof.
  intros st st' m t R Esl Ewu Enf Edl Hc Ho Hcur Hny Hcd Hp.
  assert (Pl : pipeline st' = pipeline st).
  { unfold pipeline. rewrite Edl. destruct (Nat.eq_dec main t) as [E|E]; [rewrite E, Hcd, Hc; reflexivity|rewrite (proj1 (Ho main E)); reflexivity]. }
  assert (Pg : forall w, prog st m w -> prog st' m w).
  { intros w [A|[[x [A B]]|A]]; [left; exact A|right; left; exists x; rewrite Pl, Esl; auto|].
    destruct (Nat.eq_dec main t) as [E|E]; [rewrite E, Hc in A; destruct A|right; right; rewrite (proj1 (Ho main E)); exact A]. }
  constructor.
  - apply (d_bad _ _ _ R).
  - rewrite Esl. apply (d_uniq _ _ _ R).
  - rewrite Esl, Ewu, Enf. apply (d_used _ _ _ R).
  - rewrite Enf. apply (d_nfill _ _ _ R).
  - intros u i0 r0 j Hk Hj. destruct (Nat.eq_dec u t) as [->|Hu].
    + apply Hny. rewrite Hk. right. exact Hj.
    + rewrite (proj1 (Ho u Hu)) in Hk. apply (d_ypos _ _ _ R u i0 r0 j Hk Hj).
  - intros u j Hu Hj. destruct (Nat.eq_dec u t) as [->|Hn]; [apply Hny; exact Hj|].
    rewrite (proj1 (Ho u Hn)) in Hj. apply (d_ymain _ _ _ R u j Hu Hj).
  - intros w d H. rewrite Esl, Ewu. destruct (Nat.eq_dec main t) as [E|E].
    + exfalso. rewrite E in H. apply (Hny _ H). eexists; eexists; reflexivity.
    + rewrite (proj1 (Ho main E)) in H. apply (d_y _ _ _ R w d H).
  - rewrite Esl, Ewu. apply (d_dead _ _ _ R).
  - intros u x w H. rewrite Ewu. apply (d_push _ _ _ R u x w). apply Hp. exact H.
  - rewrite Pl, Esl, Ewu. apply (d_pipe _ _ _ R).
  - intros w H. apply Pg. apply (d_done _ _ _ R w H).
  - intros u w Hu. destruct (Nat.eq_dec u t) as [->|Hn]; [exfalso; exact (Hcur w Hu)|].
    destruct (Ho u Hn) as [O1 O2]. destruct (O2 w Hu) as [O3 O4].
    destruct (d_cmd _ _ _ R u w O3) as [[D _]|[D1 [D2 [D3 [D4 D5]]]]]; [discriminate D|right].
    rewrite O1, O4. split; [exact D1|]. split; [exact D2|]. split; [exact D3|]. split; [exact D4|]. destruct D5 as [D5|D5]; [left; exact D5|right; apply Pg; exact D5].
  - intros u w H. discriminate H.
Qed.

Lemma hplain_inj : forall a b, HPlain a = HPlain b -> a = b.
Proof. intros a b H. injection H as H. exact H. Qed.

Lemma fill_one_D : forall st st1 wi p m k,
  CInv (core st) -> SlInv st -> DRel p st m -> k = nfill st ->
  wh_add st (HPlain (1000000 + k)) = Some (st1, wi) -> DRel p (set_nfill st1 (k + 1)) m.
Proof.
  intros st st1 wi p m k I S R Hk E.
  assert (Hh : HPlain (1000000 + k) <> HReserved) by discriminate.
  destruct (wh_add_post st _ st1 wi I Hh E) as [Hfresh [Hget [Hold [Ed [Et [En [Ew [Eu [Ec Ep]]]]]]]]].
  pose proof (wh_add_new st _ st1 wi I Hh E) as Hnew.
  apply (d_ext p st (set_nfill st1 (k + 1)) m True (wbit wi) (1000000 + k) S R).
  - exact Et.
  - exact Ed.
  - exact Hold.
  - intros x w G. change (sl (set_nfill st1 (k + 1))) with (sl st1) in G.
    destruct (Hnew x _ G) as [G0|[[G1 G0]|G0]]; [left; exact G0| |discriminate G0].
    apply hplain_inj in G0. right. split; [exact Logic.I|]. split; [exact G1|exact G0].
  - intros _. exact Hfresh.
  - intros _. right. split; [rewrite Hk; reflexivity|]. change (nfill (set_nfill st1 (k + 1))) with (k + 1). rewrite Hk. reflexivity.
  - intros w Hw. change (wused (set_nfill st1 (k + 1)) w) with (wused st1 w). rewrite Eu. exact Hw.
  - change (nfill (set_nfill st1 (k + 1))) with (k + 1). rewrite Hk. apply Z.le_succ_diag_r.
Qed.

Lemma fill_loop_D : forall n st ev st' ev' p m,
  CInv (core st) -> pristine st -> wfi st -> SlInv st -> DRel p st m -> fill_loop n st ev = (st', ev') -> DRel p st' m.
Proof.
  induction n as [|n IH]; intros st ev st' ev' p m I P Wf S R H; cbn [fill_loop] in H.
  - inversion H; subst. exact R.
  - destruct (wh_add st (HPlain (1000000 + nfill st))) as [[st1 wi]|] eqn:E; [|inversion H; subst; exact R].
    pose proof (fill_one_D st st1 wi p m (nfill st) I S R eq_refl E) as R1.
    destruct (sl_add_slab st (HPlain (1000000 + nfill st)) st1 wi I P S ltac:(discriminate) E) as [S1 _].
    destruct (wh_add_core _ _ _ _ E) as [c1 [A [B [C1 [C2 [C3 [C4 [C5 [C6 [C7 C8]]]]]]]]]].
    assert (I1 : CInv (core st1)) by (eapply (add_model st _ st1 wi I); [|exact E]; discriminate).
    eapply IH; [| | | |exact R1|exact H].
    + eapply CInv_ceq; [|exact I1]. same_core.
    + destruct P as [P0 P]. split; cbn; rewrite ?C2; auto. intros u Hu. rewrite C1. apply P. lia.
    + destruct (wh_add_reg st (HPlain (1000000 + nfill st)) st1 wi I ltac:(discriminate) E) as [R0 _].
      destruct Wf as [W1 [W2 W3]]. split; [|split].
      * intros w0 wi0. cbn. rewrite C5. intro E0. apply R0. eapply W1; eauto.
      * intros c0. cbn. rewrite C7. intro E0. apply R0. apply W2; auto.
      * intros c0. cbn. rewrite C7. apply W3.
    + sl_irr st1.
Qed.

Lemma ghost_c12_plain : forall e, plain e -> is_ghost e = true -> c12_plain e.
Proof. intros e P G. destruct e; cbn in *; try contradiction; try discriminate; auto. destruct h; auto; discriminate. Qed.

(** the state is the same in everything the relation looks at *)
Lemma d_steq : forall p st st' m,
  DRel p st m -> sl st' = sl st -> wused st' = wused st -> nfill st' = nfill st -> dl st' = dl st ->
  (forall u, tcont (thr st' u) = tcont (thr st u) /\ tfinal (thr st' u) = tfinal (thr st u) /\
             tcur (thr st' u) = tcur (thr st u) /\ tret (thr st' u) = tret (thr st u)) ->
  DRel p st' m.
Proof.
  intros p st st' m R Esl Ewu Enf Edl Hu.
  assert (Co : forall u, tcont (thr st' u) = tcont (thr st u)) by (intro u; apply Hu).
  assert (Tp : forall u, tpushes (thr st' u) = tpushes (thr st u)).
  { intro u. unfold tpushes. destruct (Hu u) as [A [B _]]. rewrite A, B. reflexivity. }
  assert (Pl : pipeline st' = pipeline st) by (unfold pipeline; rewrite Edl, Co; reflexivity).
  assert (Pg : forall w, prog st' m w <-> prog st m w) by (intro w; unfold prog; rewrite Pl, Esl, Co; tauto).
  constructor.
  - apply (d_bad _ _ _ R).
  - rewrite Esl. apply (d_uniq _ _ _ R).
  - rewrite Esl, Ewu, Enf. apply (d_used _ _ _ R).
  - rewrite Enf. apply (d_nfill _ _ _ R).
  - intros u i0 r0 j. rewrite Co. apply (d_ypos _ _ _ R).
  - intros u j. rewrite Co. apply (d_ymain _ _ _ R).
  - intros w d. rewrite Co, Esl, Ewu. apply (d_y _ _ _ R).
  - rewrite Esl, Ewu. apply (d_dead _ _ _ R).
  - intros u x w. rewrite Tp, Ewu. apply (d_push _ _ _ R).
  - rewrite Pl, Esl, Ewu. apply (d_pipe _ _ _ R).
  - intros w H. apply Pg. apply (d_done _ _ _ R w H).
  - intros u w. destruct (Hu u) as [A [B [C D]]]. rewrite C, D, A. intro H.
    destruct (d_cmd _ _ _ R u w H) as [X|[D1 [D2 [D3 [D4 D5]]]]]; [left; exact X|right].
    split; [exact D1|]. split; [exact D2|]. split; [exact D3|]. split; [exact D4|]. destruct D5 as [D5|D5]; [left; exact D5|right; apply Pg; exact D5].
  - intros u w H. destruct (Hu u) as [A [B [C D]]]. rewrite C, A. apply (d_pbad _ _ _ R u w H).
Qed.

Lemma d_frame_s : forall st st' m t,
  DRel DNone st m ->
  sl st' = sl st -> wused st' = wused st -> nfill st' = nfill st -> dl st' = dl st ->
  tcont (thr st t) = [] ->
  (forall u, u <> t -> thr st' u = thr st u) ->
  (forall w, tcur (thr st' t) <> Some (CDropW w)) ->
  tfinal (thr st' t) = tfinal (thr st t) ->
  (forall j, In j (tcont (thr st' t)) -> ~ is_yield j /\ push_of j = [] /\ dels_of j = []) ->
  DRel DNone st' m.
Proof.
  intros st st' m t R Esl Ewu Enf Edl Hc Ho Hcur Hfin Hj.
  assert (Z1 : forall k, (forall j, In j k -> ~ is_yield j /\ push_of j = [] /\ dels_of j = []) -> pushes k = [] /\ cont_dels k = []).
  { induction k as [|j k IH]; intro H; [split; reflexivity|]. destruct (H j (or_introl eq_refl)) as [_ [A B]].
    destruct IH as [C D]; [intros; apply H; right; assumption|]. rewrite pushes_cons, cont_dels_cons, A, B, C, D. split; reflexivity. }
  destruct (Z1 _ Hj) as [Zp Zd].
  apply (d_frame st st' m t R); auto.
  - intros u Hu. rewrite (Ho u Hu). split; [reflexivity|]. intros w Hw. split; [exact Hw|reflexivity].
  - intros j Hin. apply (Hj j Hin).
  - intros u x w. destruct (Nat.eq_dec u t) as [->|Hu]; [|rewrite (Ho u Hu); auto].
    unfold tpushes. rewrite Zp, Hfin, Hc. cbn. auto.
Qed.

Lemma d_spawn : forall s m t p f,
  DRel DNone s m -> pristine s -> (forall x w, ~ In (x, HPlain w) (pushes f)) -> DRel DNone (spawn_thread s t p f) m.
Proof.
  intros s m t p f R [P0 P] Hf.
  apply (d_frame s _ m (nthr s) R); try reflexivity.
  - apply P. lia.
  - intros u Hu. unfold spawn_thread. cbn -[Nat.eqb]. unfold updN, th. destruct (Nat.eqb_spec u (nthr s)); [congruence|]. auto.
  - intros w. unfold spawn_thread. cbn -[Nat.eqb]. unfold updN, th. rewrite Nat.eqb_refl. discriminate.
  - unfold spawn_thread. cbn -[Nat.eqb]. unfold updN, th. rewrite Nat.eqb_refl. intros j [].
  - unfold spawn_thread. cbn -[Nat.eqb]. unfold updN, th. rewrite Nat.eqb_refl. reflexivity.
  - intros u x w. unfold spawn_thread. cbn -[Nat.eqb]. unfold updN, th. destruct (Nat.eqb_spec u (nthr s)) as [->|]; [|auto].
    unfold tpushes. cbn. intro H. exfalso. exact (Hf x w H).
Qed.

Definition pinst (t : tid) (c : cmd) : dpend := match c with CDropW w => DBad t w | _ => DNone end.
Definition pbegin (t : tid) (c : cmd) (done : option retv) : dpend :=
  match c, done with CDropW w, Some _ => DBad t w | _, _ => DNone end.

Lemma memZ_cons12 : forall w a l, memZ w l = true -> memZ w (a :: l) = true.
Proof. intros w a l H. unfold memZ in *. cbn. rewrite H. apply orb_true_r. Qed.

(** the command is installed as the current one; the monitor sees [ECmd c] *)
Lemma d_install : forall s0 m t c cs,
  DRel DNone s0 m -> tcont (thr s0 t) = [] ->
  DRel (pinst t c) (upd_th s0 t (set_tret (set_tcur (set_tscript (th s0 t) cs) (Some c)) RUnit)) (m12_step m (t, ECmd c)).
Proof.
  intros s0 m t c cs R Hc.
  set (s1 := upd_th s0 t (set_tret (set_tcur (set_tscript (th s0 t) cs) (Some c)) RUnit)).
  assert (Ho : forall u, u <> t -> thr s1 u = thr s0 u) by (intros u Hu; unfold s1; thr_simpl).
  assert (Hc1 : tcont (thr s1 t) = []) by (unfold s1; thr_simpl).
  assert (Hf1 : tfinal (thr s1 t) = tfinal (thr s0 t)) by (unfold s1; thr_simpl).
  assert (Hu1 : tcur (thr s1 t) = Some c) by (unfold s1; thr_simpl).
  assert (Plain : (forall w, c <> CDropW w) -> DRel DNone s1 m).
  { intro Hn. apply (d_frame_s s0 s1 m t R); try reflexivity; auto.
    - intros w. rewrite Hu1. intro E. inversion E. eapply Hn; eauto.
    - rewrite Hc1. intros j []. }
  destruct c as [w|w|c0 x|c0|w|n| | | | | |c0|c0|p0|p0 x|p0| |x| | ];
    try (cbn [pinst]; eapply d_msame; [apply Plain; intros; discriminate|constructor; reflexivity]).
  cbn [pinst]. unfold m12_step.
  set (m1 := mkM12 (mb_step (m12_b m) (t, ECmd (CDropW w))) (w :: m12_begun m) (m12_done m) (m12_dead m) (m12_bad m)).
  assert (Tp : forall u, tpushes (thr s1 u) = tpushes (thr s0 u)).
  { intro u. destruct (Nat.eq_dec u t) as [->|Hu]; [|rewrite Ho; auto]. unfold tpushes. rewrite Hc1, Hf1, Hc. reflexivity. }
  assert (Co : forall u, tcont (thr s1 u) = tcont (thr s0 u)).
  { intro u. destruct (Nat.eq_dec u t) as [->|Hu]; [congruence|rewrite Ho; auto]. }
  assert (Pl : pipeline s1 = pipeline s0) by (unfold pipeline; rewrite Co; reflexivity).
  assert (Pg : forall w0, prog s1 m1 w0 <-> prog s0 m w0) by (intro w0; unfold prog; rewrite Pl, Co; reflexivity).
  constructor; cbn [dbegun m12_begun m12_done m12_dead m12_bad m1 tl].
  - apply (d_bad _ _ _ R).
  - apply (d_uniq _ _ _ R).
  - apply (d_used _ _ _ R).
  - apply (d_nfill _ _ _ R).
  - intros u i0 r0 j. rewrite Co. apply (d_ypos _ _ _ R).
  - intros u j. rewrite Co. apply (d_ymain _ _ _ R).
  - intros w0 d. rewrite Co. apply (d_y _ _ _ R).
  - apply (d_dead _ _ _ R).
  - intros u x w0. rewrite Tp. apply (d_push _ _ _ R).
  - rewrite Pl. apply (d_pipe _ _ _ R).
  - intros w0 H. apply Pg. apply (d_done _ _ _ R w0 H).
  - intros u w0 Hu. destruct (Nat.eq_dec u t) as [->|Hn].
    + rewrite Hu1 in Hu. inversion Hu; subst w0. left. split; [reflexivity|]. exists (m12_begun m). reflexivity.
    + rewrite Ho in * by auto. destruct (d_cmd _ _ _ R u w0 Hu) as [[D _]|[D1 [D2 [D3 [D4 D5]]]]]; [discriminate D|right].
      split; [intro E; inversion E; congruence|]. split; [exact D2|]. split; [exact D3|]. split; [exact D4|].
      destruct D5 as [D5|D5]; [left; exact D5|right; apply Pg; exact D5].
  - intros u w0 E. inversion E; subst u w0. split; [exact Hu1|exact Hc1].
Qed.

(** [drop] of a registered, idle waker: the pending provisional entry of the monitor becomes definite *)
Lemma d_dropw_begin : forall s1 m t w wi,
  SlInv s1 -> DRel (DBad t w) s1 m -> wreg s1 w = Some wi -> tret (thr s1 t) = RUnit ->
  DRel DNone (set_cont (set_wreg s1 (updZ (wreg s1) w None)) t [ILock MDL (LPush (wbit wi) (wbm wi) (HPlain w))]) m.
Proof.
  intros s1 m t w wi S R Ew Hret.
  destruct (d_pbad _ _ _ R t w eq_refl) as [Hu Hc].
  destruct (d_cmd _ _ _ R t w Hu) as [[_ [old Eb]]|[X _]]; [|congruence].
  set (st2 := set_cont (set_wreg s1 (updZ (wreg s1) w None)) t [ILock MDL (LPush (wbit wi) (wbm wi) (HPlain w))]).
  assert (Ho : forall u, u <> t -> thr st2 u = thr s1 u) by (intros u Hn; unfold st2; thr_simpl).
  assert (Hc2 : tcont (thr st2 t) = [ILock MDL (LPush (wbit wi) (wbm wi) (HPlain w))]) by (unfold st2; thr_simpl).
  assert (Hf2 : tfinal (thr st2 t) = tfinal (thr s1 t)) by (unfold st2; thr_simpl).
  assert (Hu2 : tcur (thr st2 t) = tcur (thr s1 t)) by (unfold st2; thr_simpl).
  assert (Hr2 : tret (thr st2 t) = tret (thr s1 t)) by (unfold st2; thr_simpl).
  assert (Bg : forall w0, memZ w0 (dbegun (DBad t w) m) = true -> memZ w0 (m12_begun m) = true).
  { intros w0 H. cbn [dbegun] in H. rewrite Eb in *. cbn [tl] in H. apply memZ_cons12. exact H. }
  assert (Wr : 0 <= w < 1000000 /\ wused s1 w = true).
  { split; [|apply (sl_used _ S w wi Ew)]. destruct (Z_lt_ge_dec w 0) as [A|A]; [destruct (sl_f2 _ S w (or_intror A)); congruence|].
    destruct (Z_lt_ge_dec w 1000000) as [B|B]; [lia|]. assert (B' : 1000000 <= w) by (apply Z.ge_le; exact B). destruct (sl_f2 _ S w (or_introl B')); congruence. }
  assert (Pl : pipeline st2 = pipeline s1).
  { unfold pipeline. change (dl st2) with (dl s1). destruct (Nat.eq_dec main t) as [E|E]; [rewrite E, Hc2, Hc; reflexivity|rewrite Ho; auto]. }
  assert (Pg : forall w0, prog s1 m w0 -> prog st2 m w0).
  { intros w0 [A|[[x [A B]]|A]]; [left; exact A|right; left; exists x; rewrite Pl; auto|].
    destruct (Nat.eq_dec main t) as [E|E]; [rewrite E, Hc in A; destruct A|right; right; rewrite Ho; auto]. }
  constructor; cbn [dbegun].
  - apply (d_bad _ _ _ R).
  - apply (d_uniq _ _ _ R).
  - apply (d_used _ _ _ R).
  - apply (d_nfill _ _ _ R).
  - intros u i0 r0 j Hk Hj. destruct (Nat.eq_dec u t) as [->|Hn].
    + rewrite Hc2 in Hk. inversion Hk; subst. destruct Hj.
    + rewrite Ho in Hk by auto. apply (d_ypos _ _ _ R u i0 r0 j Hk Hj).
  - intros u j Hn Hj. destruct (Nat.eq_dec u t) as [->|Hn0].
    + rewrite Hc2 in Hj. destruct Hj as [<-|[]]. intros [h [d X]]. discriminate X.
    + rewrite Ho in Hj by auto. apply (d_ymain _ _ _ R u j Hn Hj).
  - intros w0 d H. destruct (Nat.eq_dec main t) as [E|E].
    + rewrite E, Hc2 in H. destruct H as [H|[]]. discriminate H.
    + rewrite Ho in H by auto. destruct (d_y _ _ _ R w0 d H) as [D1 D2]. split; [exact D1|]. intro Hd. destruct (D2 Hd) as [E1 E2]. split; [apply Bg; exact E1|exact E2].
  - apply (d_dead _ _ _ R).
  - intros u x w0 H. destruct (Nat.eq_dec u t) as [->|Hn].
    + unfold tpushes in H. rewrite Hc2, Hf2 in H. cbn in H. destruct H as [H|H].
      * inversion H; subst. split; [rewrite Eb; cbn; rewrite Z.eqb_refl; reflexivity|exact Wr].
      * destruct (d_push _ _ _ R t x w0) as [D1 D2]; [unfold tpushes; rewrite Hc; exact H|]. split; [apply Bg; exact D1|exact D2].
    + rewrite Ho in H by auto. destruct (d_push _ _ _ R u x w0 H) as [D1 D2]. split; [apply Bg; exact D1|exact D2].
  - intros x w0 Hin G. rewrite Pl in Hin. destruct (d_pipe _ _ _ R x w0 Hin G) as [D1 D2]. split; [apply Bg; exact D1|exact D2].
  - intros w0 H. apply Pg. apply (d_done _ _ _ R w0 H).
  - intros u w0 Hcu. destruct (Nat.eq_dec u t) as [->|Hn].
    + rewrite Hu2, Hu in Hcu. inversion Hcu; subst w0. right. split; [discriminate|]. split; [rewrite Eb; cbn; rewrite Z.eqb_refl; reflexivity|].
      split; [rewrite Hr2; exact Hret|]. rewrite Hc2. split.
      * intros j [<-|[]]. exact Logic.I.
      * left. exists (wbit wi). left. reflexivity.
    + rewrite Ho in * by auto. destruct (d_cmd _ _ _ R u w0 Hcu) as [[D _]|[D1 [D2 [D3 [D4 D5]]]]]; [inversion D; congruence|right].
      split; [discriminate|]. split; [apply Bg; exact D2|]. split; [exact D3|]. split; [exact D4|].
      destruct D5 as [D5|D5]; [left; exact D5|right; apply Pg; exact D5].
  - intros u w0 E. discriminate E.
Qed.

Lemma wh_add_nfill : forall st h st1 wi, wh_add st h = Some (st1, wi) -> nfill st1 = nfill st.
Proof.
  intros st h st1 wi H. unfold wh_add in H. destruct (slab_insert (sl st) h) as [bit0 s0].
  destruct (add_loop 2 s0 h bit0) as [[[bit base] s1]|]; [|discriminate].
  destruct (waker_vec_index bit); [|discriminate]. destruct (waker_slot bit); [|discriminate]. inversion H; subst. reflexivity.
Qed.

Ltac dfr s1 t R Hc Hcur :=
  apply (d_frame_s s1 _ _ t R);
  [ reflexivity | reflexivity | reflexivity | reflexivity | exact Hc
  | intros ? ?; thr_simpl
  | intros ?; cbn -[Nat.eqb]; unfold updN, th; rewrite ?Nat.eqb_refl; cbn -[Nat.eqb]; unfold updN, th; rewrite ?Nat.eqb_refl; cbn -[Nat.eqb]; rewrite ?Hcur; discriminate
  | thr_simpl
  | intros ?; cbn -[Nat.eqb]; unfold updN, th; rewrite ?Nat.eqb_refl; cbn -[Nat.eqb];
    let Hj := fresh in intro Hj; repeat (destruct Hj as [<-|Hj]); try contradiction;
    (split; [intros [? [? ?]]; discriminate|split; reflexivity]) ].

Lemma begin_cmd_D : forall st m t c st' ev done,
  CInv (core st) -> pristine st -> wfi st -> SlInv st -> DRel (pinst t c) st m -> (t < nthr st)%nat ->
  tcont (thr st t) = [] -> tcur (thr st t) = Some c -> tret (thr st t) = RUnit ->
  begin_cmd st t c = (st', ev, done) ->
  DRel (pbegin t c done) st' (fold_left m12_step (evs t ev) m).
Proof.
  intros st m t c st' ev done I P Wf S R Ht Hc Hcur Hret H.
  assert (Same : forall p0 s e0, (forall e, In e e0 -> c12_plain e) -> DRel p0 s m -> DRel p0 s (fold_left m12_step (evs t e0) m)).
  { intros p0 s e0 He R0. eapply d_msame; [exact R0|apply m12_plain_fold; exact He]. }
  assert (Pe : forall b h e, In e [EAdd b h] -> c12_plain e) by (intros b h e [<-|[]]; exact Logic.I).
  assert (Pr : forall e, In e [EErr] -> c12_plain e) by (intros e [<-|[]]; exact Logic.I).
  assert (Pn : forall e : wevent, In e [] -> c12_plain e) by (intros e []).
  assert (Add : forall h st1 wi, h <> HReserved -> (forall w, h <> HPlain w) -> wh_add st h = Some (st1, wi) -> DRel DNone st m ->
                DRel DNone st1 m /\ pristine st1 /\ thr st1 = thr st).
  { intros h st1 wi Hh Hp E R0.
    destruct (wh_add_post st h st1 wi I Hh E) as [Hfresh [Hget [Hold [Ed [Et [En [Ew [Eu [Ec Ep]]]]]]]]].
    split; [|split; [|exact Et]].
    - apply (d_ext DNone st st1 m False 0 0 S R0 Et Ed Hold); try tauto.
      + intros x w G. destruct (wh_add_new st h st1 wi I Hh E x _ G) as [G0|[[_ G0]|G0]]; [left; exact G0| |discriminate G0].
        exfalso. eapply Hp. symmetry. exact G0.
      + intros w. rewrite Eu. auto.
      + rewrite (wh_add_nfill _ _ _ _ E). apply Z.le_refl.
    - destruct P as [P0 P]. split; [lia|]. intros u Hu. rewrite Et. apply P. lia. }
  destruct c as [w|w|c0 x|c0|w|n| | | | | |c0|c0|p0|p0 x|p0| |x| | ]; cbn [begin_cmd pinst pbegin] in *.
  - (* CWake *)
    destruct (wreg st w) as [wi|]; [|inversion H; subst; apply Same; auto].
    destruct (climb_start st wi (Some (HPlain w))) as [i|] eqn:E; inversion H; subst; clear H; [|apply Same; auto].
    apply climb_at_climb in E. destruct E as [k ->]. apply Same; auto. dfr st t R Hc Hcur.
  - (* CDropW *)
    destruct (wreg st w) as [wi|] eqn:Ew; [|inversion H; subst; apply Same; auto].
    destruct (wbusy st w); inversion H; subst; clear H; apply Same; auto.
    + apply (d_dropw_begin st m t w wi S R Ew Hret).
    + apply (d_steq _ st); auto.
  - destruct (Waker.creg (chs st c0)); inversion H; subst; clear H; apply Same; auto. dfr st t R Hc Hcur.
  - destruct (Waker.creg (chs st c0)); inversion H; subst; clear H; apply Same; auto. dfr st t R Hc Hcur.
  - (* CNew *)
    destruct (negb (is_main t) || wused st w || (1000000 <=? w) || (w <? 0)) eqn:Eg; [inversion H; subst; apply Same; auto|].
    apply orb_false_iff in Eg. destruct Eg as [Eg Eneg]. apply orb_false_iff in Eg. destruct Eg as [Eg Ebig].
    apply orb_false_iff in Eg. destruct Eg as [_ Eused]. apply Z.leb_gt in Ebig. apply Z.ltb_ge in Eneg.
    destruct (wh_add st (HPlain w)) as [[st1 wi]|] eqn:E; inversion H; subst; clear H; [|apply Same; auto].
    assert (Hh : HPlain w <> HReserved) by discriminate.
    destruct (wh_add_post st _ st1 wi I Hh E) as [Hfresh [Hget [Hold [Ed [Et [En [Ew [Eu [Ec Ep]]]]]]]]].
    pose proof (wh_add_new st _ st1 wi I Hh E) as Hnew.
    pose proof (wh_add_nfill _ _ _ _ E) as Enf.
    apply Same; [apply Pe|].
    apply (d_ext DNone st _ m True (wbit wi) w S R); auto.
    + intros x w0 G. destruct (Hnew x _ G) as [G0|[[G1 G0]|G0]]; [left; exact G0| |discriminate G0].
      apply hplain_inj in G0. right. auto.
    + intros _. left. split; [lia|]. split; [exact Eused|]. cbn. unfold updZ. rewrite Z.eqb_refl. reflexivity.
    + intros w0 Hw0. cbn. unfold updZ. destruct (w0 =? w); [reflexivity|]. rewrite Eu. exact Hw0.
    + cbn. rewrite Enf. apply Z.le_refl.
  - (* CFill *)
    destruct (negb (is_main t)); [inversion H; subst; apply Same; auto|].
    destruct (fill_loop (Z.to_nat n) st []) as [st1 ev1] eqn:E. inversion H; subst; clear H.
    destruct (fill_loop_ghostev _ _ _ _ _ E ltac:(intros e0 [])) as [G1 _].
    apply Same; [intros e He; destruct (G1 e He) as [X Y]; apply ghost_c12_plain; [|exact Y]; destruct e; cbn in *; try contradiction; try discriminate; exact Logic.I|].
    eapply fill_loop_D; eauto.
  - destruct (negb (is_main t)); inversion H; subst; clear H; apply Same; auto. dfr st t R Hc Hcur.
  - destruct (negb (is_main t)); [inversion H; subst; apply Same; auto|].
    destruct (gnotified st); inversion H; subst; clear H; apply Same; auto. dfr st t R Hc Hcur.
  - destruct (negb (is_main t)); inversion H; subst; clear H; apply Same; auto.
    apply d_spawn; auto.
  - destruct (negb (is_main t)); inversion H; subst; clear H; apply Same; auto. dfr st t R Hc Hcur.
  - destruct (negb (is_main t)); inversion H; subst; clear H; apply Same; auto. dfr st t R Hc Hcur.
  - (* CCNew *)
    destruct (negb (is_main t) || cexists (chs st c0)) eqn:Eg; [inversion H; subst; apply Same; auto|].
    destruct (wh_add st (HChan c0)) as [[st1 wi]|] eqn:E; inversion H; subst; clear H; [|apply Same; auto].
    destruct (Add (HChan c0) st1 wi ltac:(discriminate) ltac:(intros; discriminate) E R) as [R1 [_ T1]].
    apply Same; [apply Pe|].
    assert (Hc1 : tcont (thr st1 t) = []) by (rewrite T1; exact Hc).
    assert (Hcur1 : tcur (thr st1 t) = Some (CCNew c0)) by (rewrite T1; exact Hcur).
    dfr st1 t R1 Hc1 Hcur1.
  - (* CCDrop *)
    destruct (negb (is_main t) || negb (cguard (chs st c0))); inversion H; subst; clear H; apply Same; auto. dfr st t R Hc Hcur.
  - (* CPNew *)
    destruct (negb (is_main t) || pexists (pps st p0)); [inversion H; subst; apply Same; auto|].
    destruct (wh_add st (HPipe p0)) as [[st1 wi]|] eqn:E; inversion H; subst; clear H; [|apply Same; auto].
    destruct (Add (HPipe p0) st1 wi ltac:(discriminate) ltac:(intros; discriminate) E R) as [R1 [P1 T1]].
    apply Same; [apply Pe|].
    apply d_spawn.
    + apply (d_steq _ st1); auto.
    + destruct P1 as [P0 P1]. split; [exact P0|]. intros u Hu. apply P1. exact Hu.
    + intros x w [X|[]]. discriminate X.
  - destruct (negb (is_main t) || negb (phandle (pps st p0))); inversion H; subst; clear H; apply Same; auto. dfr st t R Hc Hcur.
  - destruct (negb (is_main t) || negb (phandle (pps st p0))); inversion H; subst; clear H; apply Same; auto. dfr st t R Hc Hcur.
  - destruct (tpipe (th st t) <? 0); inversion H; subst; clear H; apply Same; auto. dfr st t R Hc Hcur.
  - destruct (tpipe (th st t) <? 0); inversion H; subst; clear H; apply Same; auto. dfr st t R Hc Hcur.
  - destruct (tpipe (th st t) <? 0); inversion H; subst; clear H; apply Same; auto. dfr st t R Hc Hcur.
  - (* CPanic *)
    destruct (tpipe (th st t) <? 0); inversion H; subst; clear H; apply Same; auto.
    apply (d_frame st _ m t R); try reflexivity; auto.
    + intros u Hu. split; [thr_simpl|]. intros w. thr_impl.
    + intros w. cbn -[Nat.eqb]. unfold updN, th. rewrite Nat.eqb_refl. cbn. unfold th in Hcur. rewrite Hcur. discriminate.
    + cbn -[Nat.eqb]. unfold updN, th. rewrite Nat.eqb_refl. cbn. unfold th in Hc. rewrite Hc. intros j [].
    + cbn -[Nat.eqb]. unfold updN, th. rewrite Nat.eqb_refl. cbn. unfold th in Hc. rewrite Hc. reflexivity.
    + intros u x w. unfold tpushes. cbn -[Nat.eqb]. unfold updN, th. destruct (Nat.eqb_spec u t) as [->|]; [|auto]. cbn. auto.
Qed.

(** ** the end of a command: the monitor sees [ERet v] *)
Section DRet.
  Variables (st st2 : wstate) (t : tid).
  Hypothesis Esl : sl st2 = sl st.
  Hypothesis Ewu : wused st2 = wused st.
  Hypothesis Enf : nfill st2 = nfill st.
  Hypothesis Edl : dl st2 = dl st.
  Hypothesis Ho : forall u, u <> t -> thr st2 u = thr st u.
  Hypothesis Hc : tcont (thr st t) = [].
  Hypothesis Hc2 : tcont (thr st2 t) = [].
  Hypothesis Hf2 : tfinal (thr st2 t) = tfinal (thr st t).
  Hypothesis Hu2 : tcur (thr st2 t) = None.

  Lemma d_clear : forall m, DRel DNone st m -> DRel DNone st2 m.
  Proof.
    intros m R. apply (d_frame st st2 m t R); auto.
    - intros u Hu. rewrite (Ho u Hu). split; [reflexivity|]. intros w Hw. split; [exact Hw|reflexivity].
    - intros w. rewrite Hu2. discriminate.
    - rewrite Hc2. intros j [].
    - rewrite Hc2. reflexivity.
    - intros u x w. destruct (Nat.eq_dec u t) as [->|Hu]; [|rewrite (Ho u Hu); auto].
      unfold tpushes. rewrite Hc2, Hf2, Hc. auto.
  Qed.

  Lemma d_ret_plain : forall m c v, DRel DNone st m -> get_tid t (b_cur (m12_b m)) = Some c -> (forall w, c <> CDropW w) ->
    DRel DNone st2 (m12_step m (t, ERet v)).
  Proof.
    intros m c v R Hg Hn. eapply d_msame; [apply d_clear; exact R|].
    unfold m12_step. rewrite Hg. destruct c; try (constructor; reflexivity). exfalso. eapply Hn; reflexivity.
  Qed.

  Lemma d_ret_unit : forall m w, DRel DNone st m -> get_tid t (b_cur (m12_b m)) = Some (CDropW w) -> tcur (thr st t) = Some (CDropW w) ->
    DRel DNone st2 (m12_step m (t, ERet (tret (thr st t)))).
  Proof.
    intros m w R Hg Hu. apply d_clear.
    destruct (d_cmd _ _ _ R t w Hu) as [[D _]|[_ [D2 [D3 [D4 D5]]]]]; [discriminate D|].
    unfold m12_step. rewrite Hg, D3.
    set (m' := mkM12 _ _ _ _ _).
    assert (Pg : forall w0, prog st m' w0 <-> prog st m w0) by (intro w0; unfold prog; reflexivity).
    constructor; cbn [dbegun m12_begun m12_done m12_dead m12_bad m'];
      try (first [apply (d_bad _ _ _ R)|apply (d_uniq _ _ _ R)|apply (d_used _ _ _ R)|apply (d_nfill _ _ _ R)|apply (d_ypos _ _ _ R)
                 |apply (d_ymain _ _ _ R)|apply (d_y _ _ _ R)|apply (d_dead _ _ _ R)|apply (d_push _ _ _ R)|apply (d_pipe _ _ _ R)|apply (d_pbad _ _ _ R)]; fail).
    - intros w0 H. apply Pg. unfold memZ in H. cbn in H. apply orb_true_iff in H. destruct H as [H|H].
      + apply Z.eqb_eq in H. subst w0. destruct D5 as [[x Hx]|D5]; [rewrite Hc in Hx; destruct Hx|exact D5].
      + apply (d_done _ _ _ R w0 H).
    - intros u w0 Hcu. destruct (d_cmd _ _ _ R u w0 Hcu) as [[D _]|[E1 [E2 [E3 [E4 E5]]]]]; [discriminate D|right].
      split; [exact E1|]. split; [exact E2|]. split; [exact E3|]. split; [exact E4|]. destruct E5 as [E5|E5]; [left; exact E5|right; apply Pg; exact E5].
  Qed.

  Lemma d_ret_bad : forall m w v, DRel (DBad t w) st m -> get_tid t (b_cur (m12_b m)) = Some (CDropW w) -> v <> RUnit ->
    DRel DNone st2 (m12_step m (t, ERet v)).
  Proof.
    intros m w v R Hg Hv.
    destruct (d_pbad _ _ _ R t w eq_refl) as [Hu _].
    destruct (d_cmd _ _ _ R t w Hu) as [[_ [old Eb]]|[X _]]; [|congruence].
    assert (Em : exists b', m12_step m (t, ERet v) = mkM12 b' old (m12_done m) (m12_dead m) (m12_bad m)).
    { unfold m12_step. rewrite Hg, Eb. cbn [rm_one]. rewrite Z.eqb_refl. destruct v; try (eexists; reflexivity). congruence. }
    destruct Em as [b' ->]. set (m' := mkM12 b' old (m12_done m) (m12_dead m) (m12_bad m)).
    assert (Bg : dbegun (DBad t w) m = old) by (cbn [dbegun]; rewrite Eb; reflexivity).
    assert (Co : forall u, tcont (thr st2 u) = tcont (thr st u)).
    { intro u. destruct (Nat.eq_dec u t) as [->|Hn]; [congruence|rewrite Ho; auto]. }
    assert (Tp : forall u, tpushes (thr st2 u) = tpushes (thr st u)).
    { intro u. destruct (Nat.eq_dec u t) as [->|Hn]; [|rewrite Ho; auto]. unfold tpushes. rewrite Hc2, Hf2, Hc. reflexivity. }
    assert (Pl : pipeline st2 = pipeline st) by (unfold pipeline; rewrite Edl, Co; reflexivity).
    assert (Pg : forall w0, prog st2 m' w0 <-> prog st m w0) by (intro w0; unfold prog; rewrite Pl, Esl, Co; reflexivity).
    constructor; cbn [dbegun m12_begun m12_done m12_dead m12_bad m']; rewrite <- ?Bg.
    - apply (d_bad _ _ _ R).
    - rewrite Esl. apply (d_uniq _ _ _ R).
    - rewrite Esl, Ewu, Enf. apply (d_used _ _ _ R).
    - rewrite Enf. apply (d_nfill _ _ _ R).
    - intros u i0 r0 j. rewrite Co. apply (d_ypos _ _ _ R).
    - intros u j. rewrite Co. apply (d_ymain _ _ _ R).
    - intros w0 d. rewrite Co, Esl, Ewu. apply (d_y _ _ _ R).
    - rewrite Esl, Ewu. apply (d_dead _ _ _ R).
    - intros u x w0. rewrite Tp, Ewu. apply (d_push _ _ _ R).
    - rewrite Pl, Esl, Ewu. apply (d_pipe _ _ _ R).
    - intros w0 H. apply Pg. apply (d_done _ _ _ R w0 H).
    - intros u w0 Hcu. destruct (Nat.eq_dec u t) as [->|Hn]; [rewrite Hu2 in Hcu; discriminate Hcu|].
      rewrite Ho in * by auto. destruct (d_cmd _ _ _ R u w0 Hcu) as [[D _]|[E1 [E2 [E3 [E4 E5]]]]]; [inversion D; congruence|right].
      split; [discriminate|]. split; [exact E2|]. split; [exact E3|]. split; [exact E4|]. destruct E5 as [E5|E5]; [left; exact E5|right; apply Pg; exact E5].
    - intros u w0 E. discriminate E.
  Qed.
End DRet.

Lemma norm_nil : forall fuel s acc ev, norm fuel s acc [] ev = (s, acc, [], ev).
Proof. intros [|f] s acc ev; reflexivity. Qed.

Ltac dret L s t K :=
  eapply (L s _ t);
  [ reflexivity | reflexivity | reflexivity | reflexivity | intros ? ?; thr_simpl | exact K
   | cbn -[Nat.eqb]; unfold updN, th; rewrite ?Nat.eqb_refl; cbn -[Nat.eqb]; unfold updN, th; rewrite ?Nat.eqb_refl; cbn -[Nat.eqb]; exact K
   | thr_simpl | thr_simpl | .. ].

Lemma settle_D : forall st m t ev done st' ev' p,
  CInv (core st) -> SlInv st -> DRel p st m -> BRel st (m12_b m) -> (t < nthr st)%nat ->
  (forall j, In j (tfinal (thr st t)) -> finok j) -> (t = main -> tfinal (thr st t) = []) ->
  (done = None -> p = DNone) ->
  (forall v, done = Some v ->
     tcont (thr st t) = [] /\ exists c, tcur (thr st t) = Some c /\ p = pbegin t c (Some v) /\ (forall w, c = CDropW w -> v <> RUnit)) ->
  settle st t ev done = (st', ev') ->
  exists tail, ev' = ev ++ tail /\ DRel DNone st' (fold_left m12_step (evs t tail) m).
Proof.
  intros st m t ev done st' ev' p I S R B Ht Hfin Hfm HdN HdS H. unfold settle in H.
  destruct (norm (2 * (cont_size (tcont (th st t)) + length (tacc (th st t))) + 2) (sl st) (tacc (th st t)) (tcont (th st t)) ev)
    as [[[s1 acc1] k1] ev1] eqn:En.
  cbn zeta in H.
  destruct (norm_dels _ _ _ _ _ _ _ _ _ En) as [dels [Edels Hdels]].
  assert (Pd : forall e, In e dels -> c12_plain e) by (intros e He; destruct (Hdels e He) as [x [h ->]]; exact Logic.I).
  assert (Pd' : forall e, In e dels -> plain e) by (intros e He; destruct (Hdels e He) as [x [h ->]]; exact Logic.I).
  set (m1 := fold_left m12_step (evs t dels) m).
  assert (Sm : m12_same m m1) by (apply m12_plain_fold; exact Pd).
  assert (Gt1 : get_tid t (b_cur (m12_b m1)) = tcur (thr st t)).
  { unfold m1. rewrite m12_b_fold. destruct (mb_fold_plain t dels (m12_b m) Pd') as [A1 _]. cbn zeta in A1. rewrite A1.
    apply (br_cur st _ B t Ht). }
  set (st1 := set_sl (upd_th st t (set_tacc (set_tcont (th st t) k1) acc1)) s1) in *.
  assert (T1 : tcont (thr st1 t) = k1) by (unfold st1; cbn -[Nat.eqb]; unfold updN, th; rewrite Nat.eqb_refl; reflexivity).
  assert (Th1 : forall u, tcur (thr st1 u) = tcur (thr st u) /\ tret (thr st1 u) = tret (thr st u) /\ tfinal (thr st1 u) = tfinal (thr st u)).
  { intro u. unfold st1. cbn -[Nat.eqb]. unfold updN, th. destruct (Nat.eqb_spec u t) as [E|E]; [rewrite E|]; auto. }
  assert (To1 : forall u, u <> t -> tcont (thr st1 u) = tcont (thr st u)).
  { intros u Hu. unfold st1. cbn -[Nat.eqb]. unfold updN, th. destruct (Nat.eqb_spec u t); [congruence|reflexivity]. }
  assert (Steq : s1 = sl st -> k1 = tcont (thr st t) -> DRel p st1 m1).
  { intros E1 E2. apply (d_msame _ _ m); [|exact Sm]. apply (d_steq _ st); auto; try (unfold st1; cbn; congruence).
    intro u. destruct (Th1 u) as [A [B0 C]]. split; [|auto].
    destruct (Nat.eq_dec u t) as [->|Hu]; [rewrite T1; exact E2|apply To1; exact Hu]. }
  assert (R1 : DRel p st1 m1).
  { destruct (tcont (thr st t)) as [|i0 r0] eqn:Ek.
    - unfold th in En. rewrite Ek, norm_nil in En. injection En as E1 _ E3 _. apply Steq; auto.
    - assert (Pn : p = DNone).
      { destruct done as [v|]; [destruct (HdS v eq_refl) as [X _]; discriminate X|apply HdN; reflexivity]. }
      subst p. destruct (Nat.eq_dec t main) as [->|Hn].
      + apply (d_msame _ _ m); [|exact Sm]. change st1 with (NS st s1 acc1 k1). clear H Steq T1 Th1 To1. clearbody st1.
        eapply norm_D; [| | |exact En].
        * eapply CInv_ceq; [|exact I]. unfold NS. same_core.
        * unfold NS. sl_irr st.
        * apply (d_steq _ st); auto. intro u. unfold NS. repeat split; thr_simpl.
      + rewrite norm_id in En; [|intros j Hj; apply (i_mainonly _ I t Hn); exact Hj].
        injection En as E1 _ E3 _. apply Steq; auto. unfold th in E3. rewrite <- E3. exact Ek. }
  assert (Hk1 : done <> None -> k1 = []).
  { intro D. destruct done as [v|]; [|congruence]. destruct (HdS v eq_refl) as [X _]. unfold th in En. rewrite X, norm_nil in En. injection En as _ _ E3 _. auto. }
  assert (F1 : tfinal (thr st1 t) = tfinal (thr st t)) by apply Th1.
  clearbody st1.
  match type of H with (let '(st2, ev2) := ?E in _) = _ => destruct E as [st2 ev2] eqn:E2 end.
  assert (R2 : exists tl2, ev2 = ev1 ++ tl2 /\ DRel DNone st2 (fold_left m12_step (evs t tl2) m1) /\
                           tfinal (thr st2 t) = tfinal (thr st t)).
  { destruct done as [v|].
    - inversion E2; subst st2 ev2. exists [ERet v]. split; [reflexivity|]. split; [|rewrite <- F1; thr_simpl].
      destruct (HdS v eq_refl) as [_ [c [Hu [Hp Hr]]]]. cbn [evs map fold_left].
      assert (K1 : tcont (thr st1 t) = []) by (rewrite T1; apply Hk1; discriminate).
      assert (G1 : get_tid t (b_cur (m12_b m1)) = Some c) by (rewrite Gt1; exact Hu).
      assert (Dc : (exists w, c = CDropW w) \/ (forall w, c <> CDropW w)).
      { destruct c; try (right; intros; discriminate). left; eauto. }
      destruct Dc as [[w ->]|Nc].
      + cbn [pbegin] in Hp. subst p.
        dret d_ret_bad st1 t K1; [exact R1|exact G1|apply (Hr w); reflexivity].
      + assert (Pn : p = DNone) by (rewrite Hp; destruct c; try reflexivity; exfalso; eapply (Nc w); reflexivity). rewrite Pn in R1.
        dret d_ret_plain st1 t K1; [exact R1|exact G1|exact Nc].
    - pose proof (HdN eq_refl) as Pn. subst p. destruct k1.
      + destruct (tcur (th st1 t)) as [c|] eqn:Ec.
        * inversion E2; subst st2 ev2. exists [ERet (tret (th st1 t))]. split; [reflexivity|].
          split; [|rewrite <- F1; destruct c; thr_simpl].
          cbn [evs map fold_left]. unfold th in Ec.
          assert (G1 : get_tid t (b_cur (m12_b m1)) = Some c) by (rewrite Gt1, <- (proj1 (Th1 t)); exact Ec).
          assert (Dc : (exists w, c = CDropW w) \/ (forall w, c <> CDropW w)).
          { destruct c; try (right; intros; discriminate). left; eauto. }
          destruct Dc as [[w ->]|Nc].
          -- dret d_ret_unit st1 t T1; [exact R1|exact G1|exact Ec].
          -- eapply (d_ret_plain st1 _ t); [destruct c; reflexivity|destruct c; reflexivity|destruct c; reflexivity|destruct c; reflexivity
               |intros ? ?; destruct c; thr_simpl|exact T1
               |destruct c; cbn -[Nat.eqb]; unfold updN, th; rewrite ?Nat.eqb_refl; cbn -[Nat.eqb]; unfold updN, th; rewrite ?Nat.eqb_refl; cbn -[Nat.eqb]; exact T1
               |destruct c; thr_simpl|destruct c; thr_simpl|exact R1|exact G1|exact Nc].
        * inversion E2; subst st2 ev2. exists []. rewrite app_nil_r. split; [reflexivity|]. cbn. split; [exact R1|exact F1].
      + inversion E2; subst st2 ev2. exists []. rewrite app_nil_r. split; [reflexivity|]. cbn. split; [exact R1|exact F1]. }
  destruct R2 as [tl2 [E2' [R2 F2]]].
  set (m2 := fold_left m12_step (evs t tl2) m1) in *.
  assert (Fin : exists tl3, ev' = ev2 ++ tl3 /\ DRel DNone st' (fold_left m12_step (evs t tl3) m2)).
  { destruct (tcont (th st2 t)) eqn:Ec; [|inversion H; subst; exists []; rewrite app_nil_r; auto].
    destruct (tscript (th st2 t)) eqn:Es; [|inversion H; subst; exists []; rewrite app_nil_r; auto].
    destruct (tcur (th st2 t)) eqn:Eu; [inversion H; subst; exists []; rewrite app_nil_r; auto|].
    destruct (tfinal (th st2 t)) eqn:Ef; inversion H; subst st' ev'; clear H.
    - destruct (is_main t); [exists []; rewrite app_nil_r; auto|].
      exists [EExit]. split; [reflexivity|]. eapply d_msame; [exact R2|apply m12_plain_fold; intros e [<-|[]]; exact Logic.I].
    - exists []. rewrite app_nil_r. split; [reflexivity|]. cbn [evs map fold_left]. unfold th in *.
      assert (Nm : t <> main) by (intro E; apply Hfm in E; rewrite <- F2, Ef in E; discriminate E).
      apply (d_frame st2 _ m2 t R2); try reflexivity; auto.
      + intros u Hu. split; [thr_simpl|]. intros w. thr_impl.
      + intros w. cbn -[Nat.eqb]. unfold updN, th. rewrite Nat.eqb_refl. cbn. rewrite Eu. discriminate.
      + cbn -[Nat.eqb]. unfold updN, th. rewrite Nat.eqb_refl. cbn. rewrite ?Ef. intros j Hj [h [d X]]. subst j. change (In (IYieldH h d) (i :: l)) in Hj.
        rewrite <- Ef, F2 in Hj. apply Hfin in Hj. exact Hj.
      + cbn -[Nat.eqb]. unfold updN, th. rewrite Nat.eqb_refl. cbn -[cont_dels]. rewrite ?Ef.
        assert (Z0 : forall k, (forall j, In j k -> finok j) -> cont_dels k = []).
        { induction k as [|j k IH]; intro Hk; [reflexivity|]. rewrite cont_dels_cons, IH by (intros; apply Hk; right; assumption).
          pose proof (Hk j (or_introl eq_refl)) as Fj. destruct j; cbn in Fj; try contradiction. destruct a; cbn in Fj; try contradiction; reflexivity. }
        apply Z0. intros j Hj. apply Hfin. rewrite <- F2, Ef. exact Hj.
      + intros u x w. unfold tpushes. cbn -[Nat.eqb]. unfold updN, th. destruct (Nat.eqb_spec u t) as [->|]; [|auto]. cbn -[pushes]. rewrite ?Ec, ?Ef.
        cbn [pushes flat_map app]. rewrite ?app_nil_r. intro Hin. exact Hin. }
  destruct Fin as [tl3 [E3 R3]].
  exists (dels ++ tl2 ++ tl3). split.
  - rewrite E3, E2', Edels. rewrite <- !app_assoc. reflexivity.
  - rewrite !evs_app, !fold_left_app. exact R3.
Qed.

(** ** one step of the model *)
Theorem wstep_D : forall st m t st' ev,
  AllInv st -> BRel st (m12_b m) -> DRel DNone st m -> wstep st t = (st', ev) ->
  DRel DNone st' (fold_left m12_step (evs t ev) m).
Proof.
  intros st m t st' ev A B R H.
  destruct A as [[I [P Wf]] W Sl L C Q X Y U S].
  unfold wstep in H.
  destruct (enabled st t) eqn:En; cbn [negb] in H;
    [|inversion H; subst; eapply d_msame; [exact R|apply m12_plain_fold; intros e [<-|[]]; exact Logic.I]].
  assert (Ht : (t < nthr st)%nat).
  { unfold enabled in En. apply andb_true_iff in En. destruct En as [En _]. apply Nat.ltb_lt in En. exact En. }
  assert (It : CInv (core (tick st t))) by (eapply CInv_ceq; [|exact I]; unfold tick; same_core).
  assert (Pt : pristine (tick st t)) by (unfold tick; prist st t).
  assert (Wt : wfi (tick st t)) by (eapply wfi_eq; [| | |exact Wf]; reflexivity).
  assert (Qt : PqInv (tick st t)) by (apply (pq_same st); auto; try reflexivity; intro u; unfold tick; repeat split; thr_simpl).
  assert (Xt : XInv (tick st t)) by (apply (x_same st); auto; unfold tick; xs).
  assert (Yt : YInv (tick st t)).
  { intro u. unfold tick. cbn -[Nat.eqb]. unfold updN, th. destruct (Nat.eqb_spec u t); subst; cbn; apply Y. }
  assert (Slt : SlInv (tick st t)) by (unfold tick; sl_irr st).
  assert (Bt : BRel (tick st t) (m12_b m)) by (apply (br_same st); auto; intro u; unfold tick; split; thr_simpl).
  assert (Rt : DRel DNone (tick st t) m).
  { apply (d_steq _ st); auto. intro u. unfold tick. repeat split; thr_simpl. }
  assert (Htt : (t < nthr (tick st t))%nat) by exact Ht.
  set (s0 := tick st t) in *. clearbody s0. clear En.
  destruct (tstarted (th s0 t)) eqn:Es0; cbn [negb] in H.
  - destruct (tcont (th s0 t)) as [|i r] eqn:Ec.
    + destruct (tscript (th s0 t)) as [|c0 cs] eqn:Es;
        [inversion H; subst; eapply d_msame; [exact R|apply m12_plain_fold; intros e [<-|[]]; exact Logic.I]|].
      match type of H with context [begin_cmd ?S0 t ?cc] =>
        destruct (begin_cmd S0 t cc) as [[st2 ev0] done] eqn:Eb; set (s1 := S0) in * end.
      assert (Hcur0 : tcur (thr s0 t) = None).
      { destruct (tcur (thr s0 t)) eqn:E; auto. exfalso. apply (Yt t); [congruence|exact Ec]. }
      assert (I1 : CInv (core s1)) by (eapply CInv_ceq; [|exact It]; unfold s1; same_core).
      assert (P1 : pristine s1) by (unfold s1; prist s0 t).
      assert (W1 : wfi s1) by (eapply wfi_eq; [| | |exact Wt]; reflexivity).
      assert (Hc1 : tcont (thr s1 t) = []) by (unfold s1; thr_simpl; exact Ec).
      assert (Hcur1 : tcur (thr s1 t) = Some c0) by (unfold s1; thr_simpl).
      assert (Hret1 : tret (thr s1 t) = RUnit) by (unfold s1; thr_simpl).
      assert (Sl1 : SlInv s1) by (unfold s1; sl_irr s0).
      assert (Hcur1' : tcur (thr s1 t) <> None) by congruence.
      assert (Q1 : PqInv s1).
      { unfold th in Ec, Es. apply (pq_idle s0 s1 t [] Qt Ec); try reflexivity.
        - exact Hc1.
        - unfold s1. thr_simpl.
        - unfold s1. thr_simpl.
        - unfold s1. cbn -[Nat.eqb]. unfold updN, th. rewrite Nat.eqb_refl. cbn. intros _ H0 _.
          apply (pk s0 Qt t Htt H0). right. rewrite Es. discriminate.
        - intros j [].
        - unfold s1. cbn -[Nat.eqb]. unfold updN, th. rewrite Nat.eqb_refl. cbn. apply (pf s0 Qt t). }
      pose proof (begin_cmd_Pq s1 t c0 st2 ev0 done I1 P1 Q1 Hc1 Htt Hcur1' Eb) as Q2.
      destruct (begin_cmd_inv s1 t c0 st2 ev0 done I1 P1 W1 Hc1 Htt Eb) as [I2 _].
      pose proof (begin_cmd_Sl s1 t c0 st2 ev0 done I1 P1 W1 Sl1 Hc1 Htt Eb) as Sl2.
      pose proof (begin_B s0 (m12_b m) t c0 cs st2 ev0 done Bt Pt Htt Hcur0 Ec Eb) as B2.
      destruct (begin_cmd_sum s1 t c0 st2 ev0 done P1 Htt Eb) as [_ [Ht2 [Ho2 [Hn _]]]].
      assert (Ht2' : (t < nthr st2)%nat) by (change (nthr s1) with (nthr s0) in Hn; destruct Hn as [Hn|[Hn _]]; lia).
      assert (R1 : DRel (pinst t c0) s1 (m12_step m (t, ECmd c0))) by (apply (d_install s0 m t c0 cs Rt Ec)).
      pose proof (begin_cmd_D s1 _ t c0 st2 ev0 done I1 P1 W1 Sl1 R1 Htt Hc1 Hcur1 Hret1 Eb) as R2.
      assert (X2 : tfinal (thr st2 main) = []).
      { pose proof (begin_cmd_X s1 t c0 st2 ev0 done) as BX. destruct (x_main _ Xt) as [Xm _].
        assert (Hs1 : tstarted (thr s1 t) = true) by (unfold s1; thr_simpl; exact Es0).
        assert (X1 : XInv s1).
        { constructor.
          - intros u. unfold s1. cbn -[Nat.eqb]. unfold updN, th. destruct (Nat.eqb_spec u t); subst; cbn; [congruence|apply (x_idle s0 Xt u)].
          - unfold s1. cbn -[Nat.eqb]. unfold updN, th. destruct (Nat.eqb_spec main t); subst; cbn; apply (x_main s0 Xt).
          - intros u. unfold s1. cbn -[Nat.eqb]. unfold updN, th. destruct (Nat.eqb_spec u t); subst; cbn; [unfold th in Es0; congruence|apply (x_fresh s0 Xt u)]. }
        destruct (x_main _ (BX X1 P1 Htt Hcur1' Hs1 Eb)) as [Xm2 _]. exact Xm2. }
      destruct (settle_D st2 _ t (ECmd c0 :: ev0) done st' ev (pbegin t c0 done) I2 Sl2 R2) as [tail' [Et' Rf]]; auto.
      * rewrite m12_b_fold. change (evs t (ECmd c0 :: ev0)) with ((t, ECmd c0) :: evs t ev0) in B2. cbn [fold_left] in B2.
        rewrite m12_b_step. exact B2.
      * apply (pf st2 Q2 t).
      * intros ->. exact X2.
      * intros ->. destruct c0; reflexivity.
      * intros v D. subst done. split; [rewrite (begin_cmd_done s1 t c0 st2 ev0 v Htt Eb); exact Hc1|].
        exists c0. split; [rewrite Ht2; exact Hcur1|]. split; [reflexivity|].
        intros w ->. cbn [begin_cmd] in Eb. destruct (wreg s1 w); [destruct (wbusy s1 w)|]; inversion Eb; discriminate.
      * rewrite Et', evs_app, fold_left_app. change (evs t (ECmd c0 :: ev0)) with ((t, ECmd c0) :: evs t ev0). cbn [fold_left]. exact Rf.
    + destruct (exec_instr s0 t i r) as [st1 ev1] eqn:Ee.
      pose proof (exec_instr_D s0 m t i r st1 ev1 It Slt Rt Ec Ee) as R1.
      assert (I1 : CInv (core st1)) by (eapply exec_instr_inv; eauto).
      pose proof (exec_instr_Sl s0 t i r st1 ev1 It Pt Slt Htt Ec Ee) as Sl1.
      pose proof (exec_instr_B s0 (m12_b m) t i r st1 ev1 Bt Ec Htt Ee) as B1.
      destruct (exec_instr_tf _ _ _ _ _ _ Ee) as [Hn1 [Hf _]].
      destruct (settle_D st1 _ t ev1 None st' ev DNone I1 Sl1 R1) as [tail' [Et' Rf]]; auto.
      * rewrite m12_b_fold. exact B1.
      * lia.
      * destruct (Hf t) as [_ [_ [F _]]]. rewrite F. apply (pf s0 Qt t).
      * intros ->. destruct (Hf main) as [_ [_ [F _]]]. rewrite F. apply (x_main _ Xt).
      * intros v D. discriminate D.
      * rewrite Et', evs_app, fold_left_app. exact Rf.
  - set (s1 := upd_th s0 t (set_tstarted (th s0 t) true)) in *.
    assert (I1 : CInv (core s1)) by (eapply CInv_ceq; [|exact It]; unfold s1; same_core).
    assert (Sl1 : SlInv s1) by (unfold s1; sl_irr s0).
    assert (B1 : BRel s1 (m12_b m)) by (apply (br_same s0); auto; intro u; unfold s1; split; thr_simpl).
    assert (R1 : DRel DNone s1 (m12_step m (t, EStart))).
    { apply (d_msame _ _ m); [|apply m12_plain_step; exact Logic.I]. apply (d_steq _ s0); auto. intro u. unfold s1. repeat split; thr_simpl. }
    destruct (settle_D s1 _ t [EStart] None st' ev DNone I1 Sl1 R1) as [tail' [Et' Rf]]; auto;
      try (intros v D; discriminate D).
    + unfold s1. cbn -[Nat.eqb]. unfold updN, th. rewrite Nat.eqb_refl. cbn. apply (pf s0 Qt t).
    + intros ->. unfold s1. cbn -[Nat.eqb]. unfold updN, th. rewrite Nat.eqb_refl. cbn. apply (x_main _ Xt).
    + rewrite Et'. change (evs t ([EStart] ++ tail')) with ((t, EStart) :: evs t tail'). cbn [fold_left]. exact Rf.
Qed.

Definition m12_0 : m12 := mkM12 mb0 [] [] [] false.

Lemma D_init : forall scr, DRel DNone (winit scr) m12_0.
Proof.
  intro scr.
  assert (E : forall x, slab_get (mkSlab (fun _ => SVac 0) 0 0) x = None).
  { intro x. unfold slab_get. cbn. destruct ((0 <=? x) && (x <? 0)); reflexivity. }
  constructor; cbn; intros; try discriminate; try contradiction; try reflexivity; try lia;
    match goal with H : slab_get _ _ = Some _ |- _ => rewrite E in H; discriminate H end.
Qed.

Theorem wrun_D : forall sched st m,
  AllInv st -> BRel st (m12_b m) -> DRel DNone st m ->
  AllInv (fst (wrun st sched)) /\
  BRel (fst (wrun st sched)) (m12_b (fold_left m12_step (flatten (snd (wrun st sched))) m)) /\
  DRel DNone (fst (wrun st sched)) (fold_left m12_step (flatten (snd (wrun st sched))) m).
Proof.
  induction sched as [|t rest IH]; intros st m A B R; [cbn; auto|].
  cbn [wrun] in *.
  destruct (wstep st t) as [st1 ev] eqn:E.
  destruct (wrun st1 rest) as [st2 tr] eqn:Er. cbn [fst snd] in *.
  rewrite flatten_cons, fold_left_app in *.
  pose proof (wstep_D st m t st1 ev A B R E) as R1.
  pose proof (wstep_All st t st1 ev A E) as A1.
  assert (B1 : BRel st1 (m12_b (fold_left m12_step (evs t ev) m))).
  { rewrite m12_b_fold. destruct A as [M _ _ _ _ _ X Y _ _]. exact (wstep_B st _ t st1 ev M X Y B E). }
  specialize (IH st1 _ A1 B1 R1). rewrite Er in IH. cbn [fst snd] in IH. exact IH.
Qed.

(** C12, trace form: on every run of the model the waker-drop monitor holds: a handler of a plain waker is
    never called after its [deleted = true] call, the [deleted = true] call only happens for a waker whose drop
    has begun, and at quiescence every completed drop has had its [deleted = true] call. *)
Theorem C12_monitor : forall scr sched, C12_ok (flatten (wtrace scr sched)) false = true.
Proof.
  intros scr sched. unfold wtrace.
  destruct (wrun_D sched (winit scr) m12_0 (All_init scr) (mb0_rel scr) (D_init scr)) as [A [B R]].
  set (st := fst (wrun (winit scr) sched)) in *.
  set (m := fold_left m12_step (flatten (snd (wrun (winit scr) sched))) m12_0) in *.
  unfold C12_ok. fold m12_0. fold m. cbn zeta.
  rewrite (d_bad _ st m R). cbn [negb andb].
  destruct (mb_quiescent (m12_b m)) eqn:Eq; [|reflexivity]. cbn [negb andb].
  assert (Rs : reachable st) by (exists scr, sched; reflexivity).
  destruct A as [[I [P Wf]] _ _ _ _ _ X _ _ _].
  pose proof (mbq_quiescent st _ B X P Eq) as Q.
  pose proof (drops_not_stranded st Rs Q) as Dl.
  destruct Q as [_ [Qm _]]. unfold mcont in Qm.
  apply forallb_forall. intros w Hin.
  assert (Hm : memZ w (m12_done m) = true).
  { unfold memZ. apply existsb_exists. exists w. split; [exact Hin|apply Z.eqb_refl]. }
  destruct (d_done _ st m R w Hm) as [D|[[x [D _]]|D]]; [exact D| |].
  - unfold pipeline in D. rewrite Dl, Qm in D. destruct D.
  - rewrite Qm in D. destruct D.
Qed.
Print Assumptions C12_monitor.
